import H2V.Lemmas.ConnRecvPInv
import H2V.Lemmas.ConnRecvPRecv
/-
  C03 — part 6: the receive flow-control operations of `ConnRecv.lean` preserve the invariant
  (`consume_connection_window`, `release_connection_capacity`, `release_capacity`,
  `clear_recv_buffer`, `release_closed_capacity`, `ignore_data`, `recv_data`,
  `send_connection_window_update`, `send_stream_window_updates`, `set_target_connection_window`).
-/
namespace H2V.Lemmas.ConnRecvP
open H2V H2V.Model H2V.Model.Conn
open H2V.Model.Conn.Streams
open H2V.Lemmas.Comp
attribute [local irreducible] wrapSubU32 wrapSubUsize

theorem wrapSubU32_of_le {a b : Nat} (ha : a < 4294967296) (hb : b ≤ a) : wrapSubU32 a b = a - b := by
  unfold wrapSubU32 U32_MOD; omega

theorem wrapAddU32_of_lt {a b : Nat} (h : a + b < 4294967296) : wrapAddU32 a b = a + b := by
  unfold wrapAddU32 U32_MOD; omega

theorem usizeAsU32_lt (x : Nat) : usizeAsU32 x < 4294967296 := by
  unfold usizeAsU32 U32_MOD; omega

-- ===================================================================== updating one slab entry

theorem sumInfl_set_aux {l : List Stream} (hn : (l.map (·.key)).Nodup) {x x' : Stream} (k : Nat) (hx : x ∈ l)
    (hk : x.key = k) :
    sumInfl (l.map fun y => if y.key == k then x' else y) + x.inFlightRecvData =
      sumInfl l + x'.inFlightRecvData := by
  induction l with
  | nil => cases hx
  | cons z l ih =>
    simp only [List.map_cons, List.nodup_cons, List.mem_map, not_exists, not_and] at hn
    rcases List.mem_cons.1 hx with hxz | hxl
    · -- the head is the entry; the tail has no entry with this key
      subst hxz
      have htail : (l.map fun y => if y.key == k then x' else y) = l := by
        conv => rhs; rw [← List.map_id l]
        apply List.map_congr_left
        intro y hy
        have : y.key ≠ k := by rw [← hk]; exact hn.1 y hy
        simp [this]
      rw [List.map_cons, htail]
      have : (x.key == k) = true := by simp [hk]
      simp only [this, if_true, sumInfl_cons]
      omega
    · have hz : (z.key == k) = false := by
        have : z.key ≠ k := by rw [← hk]; intro hc; exact hn.1 x hxl hc.symm
        simpa using this
      have := ih hn.2 hxl
      rw [List.map_cons]
      simp only [hz, Bool.false_eq_true, if_false, sumInfl_cons]
      omega

theorem sumInfl_set {l : List Stream} (hn : (l.map (·.key)).Nodup) {x x' : Stream} (hx : x ∈ l) (hk : x'.key = x.key) :
    sumInfl (l.map fun y => if y.key == x'.key then x' else y) + x.inFlightRecvData =
      sumInfl l + x'.inFlightRecvData :=
  sumInfl_set_aux hn x'.key hx hk.symm

theorem StreamOK.of_same {s s' : Streams} {g : Ghost} {x : Stream} (hids : s'.store.ids = s.store.ids)
    (hinit : s'.recv.initWindowSz = s.recv.initWindowSz) (h : StreamOK s g x) : StreamOK s' g x :=
  ⟨h.wI32, h.aI32, h.wa, h.live, fun hl => by
    have hl' : linked s x.key := by unfold linked at *; rw [hids] at hl; exact hl
    rw [hinit]; exact h.bud hl'⟩

/-- the connection fields `Inv` looks at -/
theorem cW_setStream (s : Streams) (x : Stream) : cW (s.setStream x) = cW s := rfl
theorem cA_setStream (s : Streams) (x : Stream) : cA (s.setStream x) = cA s := rfl
theorem cI_setStream (s : Streams) (x : Stream) : cI (s.setStream x) = cI s := rfl

/-- replace the slab entry `x` by `x'` (same key): the invariant holds again when the new entry is
    fine and the books balance (`d'` absorbs the change of `in_flight_recv_data`) -/
theorem InvD.setStream {full : Bool} {g : Ghost} {d d' : Int} {s : Streams} {x x' : Stream} (h : InvD full g d s)
    (hx : s.store.get? x.key = some x) (hk : x'.key = x.key)
    (hsum : (x'.inFlightRecvData : Int) + d' ≤ (x.inFlightRecvData : Int) + d)
    (hok : full = true → StreamOK s g x → StreamOK s g x') : InvD full g d' (s.setStream x') := by
  have hxm := (get?_mem hx).1
  have hkeys : (s.setStream x').store.slab.map (·.key) = s.store.slab.map (·.key) := by
    show (s.store.slab.map fun y => if y.key == x'.key then x' else y).map (·.key) = _
    rw [List.map_map]
    apply List.map_congr_left
    intro y _
    simp only [Function.comp]
    split
    · next hc => rw [hk]; have : y.key = x'.key := by simpa using hc
                 rw [this, hk]
    · rfl
  refine ⟨⟨by rw [hkeys]; exact h.keys.nodup, ?_, h.keys.idsNodup, h.keys.idsIdNodup, h.keys.idsLt⟩,
    h.wI32, h.aI32, h.cons, h.w0, h.wI, h.tHi, h.hiMax, ?_, h.initHi, h.initMax, ?_⟩
  · intro y' hy'
    have : y'.key ∈ (s.setStream x').store.slab.map (·.key) := List.mem_map_of_mem hy'
    rw [hkeys] at this
    obtain ⟨y, hy, hyk⟩ := List.mem_map.1 this
    show y'.key < s.store.nextKey
    rw [← hyk]; exact h.keys.lt y hy
  · have := sumInfl_set h.keys.nodup hxm hk
    have hs := h.sum
    show (sumInfl (s.store.slab.map fun y => if y.key == x'.key then x' else y) : Int) + d' ≤ (cI s : Int)
    omega
  · intro hf y' hy'
    have hy'' : y' ∈ s.store.slab.map fun y => if y.key == x'.key then x' else y := hy'
    obtain ⟨y, hy, rfl⟩ := List.mem_map.1 hy''
    by_cases hc : y.key = x'.key
    · have hyx : y = x := eq_of_key_eq h.keys.nodup hy hxm (by rw [hc, hk])
      subst hyx
      simp only [hc, beq_self_eq_true, if_true]
      exact StreamOK.of_same (s := s) rfl rfl (hok hf (h.streams hf y hy))
    · simp only [hc, beq_iff_eq, if_false]
      exact StreamOK.of_same (s := s) rfl rfl (h.streams hf y hy)

/-- `modStream` form -/
theorem InvD.modStream {full : Bool} {g : Ghost} {d d' : Int} {s : Streams} (id : Nat) (f : Stream → Stream)
    (h : InvD full g d s) (hd : s.store.get? id = none → d' ≤ d)
    (hk : ∀ x, (f x).key = x.key)
    (hsum : ∀ x, s.store.get? id = some x → ((f x).inFlightRecvData : Int) + d' ≤ (x.inFlightRecvData : Int) + d)
    (hok : full = true → ∀ x, s.store.get? id = some x → StreamOK s g x → StreamOK s g (f x)) :
    InvD full g d' (s.modStream id f) := by
  unfold Streams.modStream
  split
  · next x hx =>
    have hxk := (get?_mem hx).2
    exact h.setStream (by rw [hxk]; exact hx) (hk x) (hsum x hx) (fun hf => hok hf x hx)
  · next hn => exact (h.weaken (hd hn)).of_ext (panic_ext _ _)

/-- replace the connection's receive `FlowControl` and `in_flight_data` -/
theorem InvD.setConn {full : Bool} {g : Ghost} {d d' : Int} {s : Streams} (h : InvD full g d s)
    (f : Recv → Recv) (hinit : (f s.recv).initWindowSz = s.recv.initWindowSz)
    (hw : inI32 (f s.recv).flow.windowSize.val = true) (ha : inI32 (f s.recv).flow.available.val = true)
    (hcons : (f s.recv).flow.available.val + ((f s.recv).inFlightData : Int) = (g.target : Int))
    (hw0 : 0 ≤ (f s.recv).flow.windowSize.val)
    (hwhi : (f s.recv).flow.windowSize.val + ((f s.recv).inFlightData : Int) ≤ (g.hiTarget : Int))
    (hsum : (sumInfl s.store.slab : Int) + d' ≤ ((f s.recv).inFlightData : Int)) :
    InvD full g d' (s.modRecv f) :=
  ⟨h.keys, hw, ha, hcons, hw0, hwhi, h.tHi, h.hiMax, hsum, by show (f s.recv).initWindowSz ≤ _; rw [hinit]; exact h.initHi,
   h.initMax, fun hf x hx => StreamOK.of_same (s := s) rfl hinit (h.streams hf x hx)⟩

/-- `in_flight_data` is a genuine `u32`, with room for what the window still allows -/
theorem InvD.cI_bound {full : Bool} {g : Ghost} {d : Int} {s : Streams} (h : InvD full g d s) :
    (cI s : Int) = (g.target : Int) - cA s ∧ cI s < 4294967296 := by
  have h1 := h.cons
  have h2 := (inI32_iff _).1 h.aI32
  have h3 := h.tHi
  have h4 := h.hiMax
  constructor <;> omega

-- ===================================================================== consume_connection_window

theorem panic_store (s : Streams) (m : String) : (s.panic m).store = s.store := by
  unfold Streams.panic; split <;> rfl
theorem panic_actions (s : Streams) (m : String) : (s.panic m).actions = s.actions := by
  unfold Streams.panic; split <;> rfl

theorem asSize_of_nonneg {w : Window} (h : 0 ≤ w.val) : (w.asSize : Int) = w.val := by
  unfold Window.asSize
  have : ¬ w.val < 0 := by omega
  simp only [this, if_false]
  omega

/-- what `Recv::consume_connection_window` leaves behind: on `Ok` the connection window and
    `available` went down by `sz`, `in_flight_data` up by `sz` — `sz` octets of slack; on `Err` the
    invariant still holds (possibly with the window alone decreased: the partial update of
    `FlowControl::send_data`); the `assert!` cannot fire -/
theorem consume_inv {full : Bool} {g : Ghost} {d : Int} {s : Streams} (h : InvD full g d s) (sz : Nat) :
    (s.consumeConnectionWindow sz).1.store = s.store ∧
    (∀ e, (s.consumeConnectionWindow sz).2 = .error e → InvD full g d (s.consumeConnectionWindow sz).1) ∧
    ((s.consumeConnectionWindow sz).2 = .ok () →
      InvD full g (d + sz) (s.consumeConnectionWindow sz).1 ∧ sz ≤ 2147483647) := by
  have hb := h.cI_bound
  have hW := (inI32_iff _).1 h.wI32
  have hA := (inI32_iff _).1 h.aI32
  have hw0 := h.w0
  have hwhi := h.wHi
  have hhi := h.hiMax
  have hcons := h.cons
  have hsum := h.sum
  have htHi := h.tHi
  simp only [cW, cA, cI] at hb hW hA hw0 hwhi hcons hsum
  unfold Streams.consumeConnectionWindow
  split
  · exact ⟨rfl, fun _ _ => h, fun hc => nomatch hc⟩
  · next hlt =>
    have hsz : (sz : Int) ≤ s.recv.flow.windowSize.val := by
      have h1 : (s.recv.flow.windowSize.asSize : Int) = s.recv.flow.windowSize.val := asSize_of_nonneg hw0
      have h2 : ¬ (s.recv.flow.windowSize.asSize < sz) := hlt
      omega
    have hu : u32AsI32 sz = (sz : Int) := u32AsI32_of_lt (by omega)
    cases hp : s.recv.flow.sendData sz with
    | mk fl r =>
      cases r with
      | error e =>
        cases e with
        | assertFailed =>
          exfalso
          have := (sendData_assert_iff s.recv.flow sz).1 (by rw [hp])
          rw [hu] at this
          omega
        | reason rr =>
          dsimp only
          refine ⟨rfl, fun _ _ => ?_, fun hc => nomatch hc⟩
          have he := sendData_err hp
          refine h.setConn _ rfl ?_ ?_ ?_ ?_ ?_ hsum
          · show inI32 fl.windowSize.val = true
            rcases he.2 with rfl | hpart
            · exact h.wI32
            · rw [hpart.2.1]; exact hpart.2.2.2.1
          · show inI32 fl.available.val = true
            rw [he.1]; exact h.aI32
          · show fl.available.val + _ = _
            rw [he.1]; exact hcons
          · show 0 ≤ fl.windowSize.val
            rcases he.2 with rfl | hpart
            · exact hw0
            · rw [hpart.2.1, hu]; omega
          · show fl.windowSize.val ≤ _
            rcases he.2 with rfl | hpart
            · exact hwhi
            · rw [hpart.2.1, hu]; omega
      | ok u =>
        dsimp only
        refine ⟨rfl, fun _ hc => (nomatch hc), fun _ => ?_⟩
        refine ⟨?_, by omega⟩
        by_cases h0 : sz = 0
        · subst h0
          rw [sendData_zero] at hp
          cases hp
          have hI : wrapAddU32 s.recv.inFlightData 0 = s.recv.inFlightData := by
            apply wrapAddU32_of_lt; omega
          refine h.setConn _ rfl h.wI32 h.aI32 ?_ hw0 hwhi ?_
          · show s.recv.flow.available.val + ((wrapAddU32 s.recv.inFlightData 0 : Nat) : Int) = _
            rw [hI]; exact hcons
          · show _ ≤ ((wrapAddU32 s.recv.inFlightData 0 : Nat) : Int)
            rw [hI]; omega
        · have hok := sendData_ok' (by omega) hp
          rw [hu] at hok
          have hI : wrapAddU32 s.recv.inFlightData sz = s.recv.inFlightData + sz := by
            apply wrapAddU32_of_lt
            have := (inI32_iff _).1 hok.2.2.2.2
            omega
          refine h.setConn _ rfl hok.2.2.2.1 hok.2.2.2.2 ?_ ?_ ?_ ?_
          · show fl.available.val + ((wrapAddU32 s.recv.inFlightData sz : Nat) : Int) = _
            rw [hI, hok.2.2.1]; omega
          · show 0 ≤ fl.windowSize.val
            rw [hok.2.1]; omega
          · show fl.windowSize.val ≤ _
            rw [hok.2.1]; omega
          · show _ ≤ ((wrapAddU32 s.recv.inFlightData sz : Nat) : Int)
            rw [hI]; omega

end H2V.Lemmas.ConnRecvP
