import H2V.Lemmas.ConnFidPPrim
/-
  ConnFidP, part 4 — the labelled primitives: the few places of the model where a queue changes.
  The model writes them as `modStream k (fun st => { st with pendingSend := … })`; the anonymous
  functions are folded into the named ones below (`fid_fold`) so that `grind` can recognise them.
-/
namespace H2V.Lemmas.ConnFidP
open H2V H2V.Model H2V.Model.Conn H2V.Lemmas.ConnWakeP

def pushF (f : SFrame) : Stream → Stream := fun st => { st with pendingSend := st.pendingSend ++ [f] }
def unpopF (f : SFrame) : Stream → Stream := fun st => { st with pendingSend := f :: st.pendingSend }
def setSendF (q : List SFrame) : Stream → Stream := fun st => { st with pendingSend := q }
def rpushF (e : REvent) : Stream → Stream := fun st => { st with pendingRecv := st.pendingRecv ++ [e] }
def setRecvF (q : List REvent) : Stream → Stream := fun st => { st with pendingRecv := q }
def clearF : Stream → Stream := fun st => { st with pendingSend := [], bufferedSendData := 0, requestedSendCapacity := 0 }
def drop1F : Stream → Stream := fun st => { st with pendingSend := st.pendingSend.drop 1 }
def markF (m : InFlightData) : Prioritize → Prioritize := fun p => { p with inFlightDataFrame := m }
theorem markF_fold (m : InFlightData) : (fun p : Prioritize => { p with inFlightDataFrame := m }) = markF m := rfl

theorem pushF_fold (f : SFrame) : (fun st : Stream => { st with pendingSend := st.pendingSend ++ [f] }) = pushF f := rfl
theorem unpopF_fold (f : SFrame) : (fun st : Stream => { st with pendingSend := f :: st.pendingSend }) = unpopF f := rfl
theorem setSendF_fold (q : List SFrame) : (fun st : Stream => { st with pendingSend := q }) = setSendF q := rfl
theorem rpushF_fold (e : REvent) : (fun st : Stream => { st with pendingRecv := st.pendingRecv ++ [e] }) = rpushF e := rfl
theorem setRecvF_fold (q : List REvent) : (fun st : Stream => { st with pendingRecv := q }) = setRecvF q := rfl
theorem clearF_fold : (fun st : Stream => { st with pendingSend := [], bufferedSendData := 0, requestedSendCapacity := 0 }) = clearF := rfl
theorem drop1F_fold : (fun st : Stream => { st with pendingSend := st.pendingSend.drop 1 }) = drop1F := rfl

/-- fold the queue-changing anonymous functions of the model into their names -/
macro "fid_fold" : tactic => `(tactic|
  simp only [pushF_fold, unpopF_fold, setSendF_fold, rpushF_fold, setRecvF_fold, clearF_fold, drop1F_fold])

theorem get?_modStream (s : Streams) (k : Nat) (f : Stream → Stream) (hf : ∀ a, (f a).key = a.key) (j : Nat) :
    (s.modStream k f).store.get? j = if j = k then (s.store.get? k).map f else s.store.get? j := by
  unfold Streams.modStream
  cases ha : s.store.get? k with
  | none =>
    simp only [Option.map_none]
    have : (s.panic s!"dangling store key {k}").store = s.store := by unfold Streams.panic; split <;> rfl
    rw [this]; split
    · next e => rw [e, ha]
    · rfl
  | some a =>
    show (s.store.set (f a)).get? j = _
    have hk : (f a).key = k := by rw [hf]; exact Store.get?_key ha
    rw [Store.get?_set, hk]
    split
    · next e => subst e; simp [ha]
    · rfl

theorem stream_modStream (s : Streams) (k : Nat) (f : Stream → Stream) (hf : ∀ a, (f a).key = a.key) (j : Nat) :
    (s.modStream k f).stream j = if j = k ∧ (s.store.get? k).isSome then f (s.stream k) else s.stream j := by
  unfold Streams.stream
  rw [get?_modStream s k f hf]
  by_cases hj : j = k
  · subst hj
    cases h : s.store.get? j <;> simp
  · simp [hj]

theorem marker_modStream (s : Streams) (k : Nat) (f : Stream → Stream) : marker (s.modStream k f) = marker s := by
  unfold Streams.modStream; split
  · rfl
  · exact panic_marker _ _

section
variable {P : Perm} {s0 s : Streams}

/-- a labelled `modStream` whose label names exactly the modified entry and does not touch the marker -/
theorem modStream_lbl_acc (l : Lbl) (k : Nat) (f : Stream → Stream) (hl : l.key? = some k)
    (hm : ∀ m, markEff (some l) m = m) (hf : ∀ a, s.store.get? k = some a → ES (some l) a (f a)) (ok : P.ok l)
    (h : Tr P s0 s) : Tr P s0 (s.modStream k f) := by
  cases hs : s.store.get? k with
  | none => rw [modStream_absent f hs]; exact panic_acc _ h
  | some a =>
    refine h.lbl l (El.modStream s k f hf (fun x hx => ES.other l x ?_) (hm _) ?_ ?_ (by rw [hs]; rfl)) ok
    · rw [hl]; intro e; exact hx (Option.some.inj e).symm
    · intro l' j e hj; cases e; rw [hl] at hj; exact (Option.some.inj hj).symm
    · intro j e; cases e; simp [Lbl.key?] at hl

/-- `pending_send.push_back(frame)` -/
theorem push_acc (k : Nat) (f : SFrame) (hA : P.ok (.push k f)) (h : Tr P s0 s) : Tr P s0 (s.modStream k (pushF f)) := by
  refine modStream_lbl_acc (.push k f) k _ rfl (fun _ => rfl) (fun a ha => ?_) hA h
  have hk := (Store.get?_key ha).symm
  exact ⟨rfl, rfl, fun h => h, by simp [pushF, sendEff, hk], rfl, trivial⟩
grind_pattern push_acc => Tr P s0 (s.modStream k (pushF f))

theorem ok_push_reset {P : Perm} {k : Nat} (r : Reason) (hc : P.cut k) : P.ok (.push k (.reset r)) := Or.inr ⟨rfl, hc⟩
grind_pattern ok_push_reset => P.ok (.push k (.reset r))

/-- `pending_send.pop_front()`: the queue is replaced by its tail -/
theorem pop_acc (k : Nat) (f : SFrame) (rest : List SFrame) (hq : (s.stream k).pendingSend = f :: rest) (hA : P.pop)
    (h : Tr P s0 s) : Tr P s0 (s.modStream k (setSendF rest)) := by
  refine modStream_lbl_acc (.pop k f) k _ rfl (fun _ => rfl) (fun a ha => ?_) hA h
  rw [stream_eq_of_get? ha] at hq
  have hk := (Store.get?_key ha).symm
  exact ⟨rfl, rfl, fun h => h, by simp [setSendF, sendEff, hq, hk], rfl, by simp [sideOk, hq]⟩
grind_pattern pop_acc => Tr P s0 (s.modStream k (setSendF rest)), f :: rest

/-- `pending_send.push_front(frame)` -/
theorem unpop_acc (k : Nat) (f : SFrame) (hA : P.write) (h : Tr P s0 s) : Tr P s0 (s.modStream k (unpopF f)) := by
  refine modStream_lbl_acc (.unpop k f) k _ rfl (fun _ => rfl) (fun a ha => ?_) hA h
  have hk := (Store.get?_key ha).symm
  exact ⟨rfl, rfl, fun h => h, by simp [unpopF, sendEff, hk], rfl, trivial⟩
grind_pattern unpop_acc => Tr P s0 (s.modStream k (unpopF f))

/-- `pending_recv.push_back(event)` -/
theorem rpush_acc (k : Nat) (e : REvent) (hA : P.rpush k e) (h : Tr P s0 s) : Tr P s0 (s.modStream k (rpushF e)) := by
  refine modStream_lbl_acc (.rpush k e) k _ rfl (fun _ => rfl) (fun a ha => ?_) hA h
  have hk := (Store.get?_key ha).symm
  exact ⟨rfl, rfl, fun h => h, rfl, by simp [rpushF, recvEff, hk], trivial⟩
grind_pattern rpush_acc => Tr P s0 (s.modStream k (rpushF e))

/-- `pending_recv.pop_front()` -/
theorem rpop_acc (k : Nat) (e : REvent) (rest : List REvent) (hq : (s.stream k).pendingRecv = e :: rest) (hA : P.rpop k)
    (h : Tr P s0 s) : Tr P s0 (s.modStream k (setRecvF rest)) := by
  refine modStream_lbl_acc (.rpop k e) k _ rfl (fun _ => rfl) (fun a ha => ?_) hA h
  rw [stream_eq_of_get? ha] at hq
  have hk := (Store.get?_key ha).symm
  exact ⟨rfl, rfl, fun h => h, rfl, by simp [setRecvF, recvEff, hq, hk], by simp [sideOk, hq]⟩
grind_pattern rpop_acc => Tr P s0 (s.modStream k (setRecvF rest)), e :: rest

/-- the `while let Some(_) = pending_recv.pop_front()` of `clear_recv_buffer` -/
theorem rclear_acc (k : Nat) (hA : P.rclear k) (h : Tr P s0 s) : Tr P s0 (s.modStream k (setRecvF [])) := by
  refine modStream_lbl_acc (.rclear k) k _ rfl (fun _ => rfl) (fun a ha => ?_) hA h
  have hk := (Store.get?_key ha).symm
  exact ⟨rfl, rfl, fun h => h, rfl, by simp [setRecvF, recvEff, hk], trivial⟩
grind_pattern rclear_acc => Tr P s0 (s.modStream k (setRecvF []))

/-- permissions for every entry at once (as named propositions: `grind` instantiates them through the
    patterns below, which is more reliable than local `∀` hypotheses) -/
def CutAll (P : Perm) : Prop := ∀ k, P.cut k
def RpushAll (P : Perm) : Prop := ∀ k e, P.rpush k e
/-- any event may be queued on entry `k` -/
def RpushAny (P : Perm) (k : Nat) : Prop := ∀ e, P.rpush k e
def RclearAll (P : Perm) : Prop := ∀ k, P.rclear k
theorem cut_of_all {P : Perm} (k : Nat) (h : CutAll P) : P.cut k := h k
grind_pattern cut_of_all => P.cut k
theorem rpush_of_all {P : Perm} (k : Nat) (e : REvent) (h : RpushAll P) : P.rpush k e := h k e
grind_pattern rpush_of_all => P.rpush k e
theorem rpush_of_any {P : Perm} {k : Nat} (e : REvent) (h : RpushAny P k) : P.rpush k e := h e
grind_pattern rpush_of_any => P.rpush k e, RpushAny P k
theorem rpushAny_of_all {P : Perm} (k : Nat) (h : RpushAll P) : RpushAny P k := h k
grind_pattern rpushAny_of_all => RpushAny P k
theorem rclear_of_all {P : Perm} (k : Nat) (h : RclearAll P) : P.rclear k := h k
grind_pattern rclear_of_all => P.rclear k

/-- the header list of the `431 Request Header Fields Too Large` answer that `recv_headers` queues by itself -/
def f431 : List Hpack.Field := [{ h := (Hpack.pStatus, Http.str "431"), sensitive := false, nameless := false }]
theorem f431_fold : ([{ h := (Hpack.pStatus, Http.str "431"), sensitive := false, nameless := false }] : List Hpack.Field) = f431 := rfl
def Push431 (P : Perm) : Prop := ∀ k, P.ok (.push k (.headers true f431))
theorem push431_of {P : Perm} (k : Nat) (h : Push431 P) : P.ok (.push k (.headers true f431)) := h k
grind_pattern push431_of => P.ok (.push k (.headers true f431))

/-- a request head may be queued on any (new) entry -/
def PushHeadAll (P : Perm) (eos : Bool) (f : List Hpack.Field) : Prop := ∀ k, P.ok (.push k (.headers eos f))
theorem pushHead_of {P : Perm} {eos : Bool} {f : List Hpack.Field} (k : Nat) (h : PushHeadAll P eos f) :
    P.ok (.push k (.headers eos f)) := h k
grind_pattern pushHead_of => P.ok (.push k (.headers eos f)), PushHeadAll P eos f

/-- a PUSH_PROMISE for any promised stream may be queued on entry `k` -/
def PushPromiseAll (P : Perm) (k : Nat) (f : List Hpack.Field) : Prop := ∀ pk pid, P.ok (.push k (.pushPromise pk pid f))
theorem pushPromise_of {P : Perm} {k : Nat} {f : List Hpack.Field} (pk pid : Nat) (h : PushPromiseAll P k f) :
    P.ok (.push k (.pushPromise pk pid f)) := h pk pid
grind_pattern pushPromise_of => P.ok (.push k (.pushPromise pk pid f)), PushPromiseAll P k f

/-- an entry is closed, or does not exist -/
def ClosedAt (s : Streams) (k : Nat) : Prop := ∀ a, s.store.get? k = some a → a.state.isClosed = true

theorem clearQueue_store (s : Streams) (k : Nat) : (s.clearQueue k).store = (s.modStream k clearF).store := by
  unfold Streams.clearQueue
  simp only [clearF_fold]
  split
  · split <;> rfl
  · rfl

theorem clearQueue_marker (s : Streams) (k : Nat) :
    marker (s.clearQueue k) = if marker s = .dataFrame k then .drop else marker s := by
  have hm := marker_modStream s k clearF
  unfold Streams.clearQueue
  simp only [clearF_fold]
  unfold marker Streams.prio at *
  split
  · next k' hk' =>
    rw [hk'] at hm
    split
    · next e => subst e; rw [← hm]; simp [Streams.modPrio]
    · next e =>
      rw [← hm]
      have : ¬ (InFlightData.dataFrame k' = InFlightData.dataFrame k) := fun h => e (InFlightData.dataFrame.inj h)
      simp [this, hk']
  · next hne =>
    rw [hm] at hne ⊢
    split
    · next e => exact absurd e (hne k)
    · rfl

/-- `Prioritize::clear_queue`: the step `cut k 0` -/
theorem clearQueue_acc (k : Nat) (hc : P.cut k) (hcl : ClosedAt s k) (h : Tr P s0 s) : Tr P s0 (s.clearQueue k) := by
  have hg : ∀ j, (s.clearQueue k).store.get? j = if j = k then (s.store.get? k).map clearF else s.store.get? j := by
    intro j; rw [clearQueue_store]; exact get?_modStream s k clearF (fun _ => rfl) j
  have hn : (s.clearQueue k).store.nextKey = s.store.nextKey := by
    rw [clearQueue_store]
    unfold Streams.modStream; split
    · rfl
    · unfold Streams.panic; split <;> rfl
  refine h.lbl (.cut k 0) ⟨Nat.le_of_eq hn.symm, ?_, ?_, ?_, (by intro _ _ e _ hcut; cases e; simp [Lbl.isCut] at hcut), (by intro _ e; cases e)⟩ hc
  · intro j a ha
    refine Or.inl ?_
    rw [hg]
    by_cases hj : j = k
    · subst hj
      simp only [if_true, ha, Option.map_some]
      have hk := (Store.get?_key ha).symm
      exact ⟨_, rfl, rfl, rfl, fun h => h, by simp [clearF, sendEff, hk], by simp [clearF, recvEff],
        fun _ => hcl a ha⟩
    · simp only [hj, if_false]
      exact ⟨a, ha, ES.other _ a (by simp only [Lbl.key?]; rw [Store.get?_key ha]; intro e; exact hj (Option.some.inj e).symm)⟩
  · intro j b hnone hs
    rw [hg] at hs
    split at hs
    · next e => subst e; rw [hnone] at hs; cases hs
    · rw [hnone] at hs; cases hs
  · rw [clearQueue_marker]; rfl
grind_pattern clearQueue_acc => Tr P s0 (s.clearQueue k)

end
end H2V.Lemmas.ConnFidP
