import H2V.Model.CodecWrite
import H2V.Lemmas.CodecSplit
/-
  Codec lemmas, part 6 (goal D): `FramedWrite` hands the transport exactly the serialisations of the
  buffered items, in order: no octet duplicated, dropped or reordered, whatever the `poll_write`
  answers (partial writes, `Pending`, …).
-/
namespace H2V.Lemmas.Codec
open H2V H2V.Model.Frame H2V.Model.CodecWrite

-- ===================================================================== what is still to be written

/-- octets `next` stands for: the rest of a DATA payload, or the CONTINUATION chain of the rest of a
    header block -/
def nextBytes (maxFrame : Nat) : Option Next → Bytes
  | none => []
  | some (.data rest) => rest
  | some (.continuation sid hpack) => splitBlock (hpack.length + 1) maxFrame 9 4 sid [] hpack

/-- everything the writer has accepted and not yet handed to the transport, in wire order -/
def pendingBytes (w : Writer) : Bytes := w.buf ++ nextBytes w.maxFrame w.next

/-- State invariant.  `Encoder::is_empty` looks only at the DATA payload when `next` is DATA: a writer
    with `next = Data(empty)` and a non-empty `buf` would be "empty" and `unset_frame` would clear
    `buf` unwritten.  `buffer` never builds such a state (the chained payload is never empty because
    `chain_threshold > 0`), and `flush` writes `buf` before the payload. -/
def WF (w : Writer) : Prop := ∀ rest, w.next = some (.data rest) → rest = [] → w.buf = []

/-- without the invariant the statement is false: this writer "flushes" to `.ready` having written
    nothing of its `buf` -/
example : (Writer.flush 10 { buf := [1, 2, 3], next := some (.data []) } [] []).2.2 = ([], .ready) := by decide

@[simp] theorem put_buf (w : Writer) (bs : Bytes) : (w.put bs).buf = w.buf ++ bs := rfl
@[simp] theorem put_next (w : Writer) (bs : Bytes) : (w.put bs).next = w.next := rfl
@[simp] theorem put_maxFrame (w : Writer) (bs : Bytes) : (w.put bs).maxFrame = w.maxFrame := rfl
@[simp] theorem put_chainThreshold (w : Writer) (bs : Bytes) : (w.put bs).chainThreshold = w.chainThreshold := rfl

@[simp] theorem putLimited_buf (w : Writer) (bs : Bytes) : (w.putLimited bs).buf = w.buf ++ bs := rfl
@[simp] theorem putLimited_next (w : Writer) (bs : Bytes) : (w.putLimited bs).next = w.next := rfl
@[simp] theorem putLimited_maxFrame (w : Writer) (bs : Bytes) : (w.putLimited bs).maxFrame = w.maxFrame := rfl
@[simp] theorem putLimited_chainThreshold (w : Writer) (bs : Bytes) :
    (w.putLimited bs).chainThreshold = w.chainThreshold := rfl

-- ===================================================================== header frames

theorem putHeaderFrame_eq (w : Writer) (kind flags sid : Nat) (pre hpack : Bytes) :
    w.putHeaderFrame kind flags sid pre hpack =
      if hpack.length > w.maxFrame - pre.length then
        { (w.putLimited ((Head.mk kind (flags - 4) sid).encode (pre.length + (w.maxFrame - pre.length)) ++ pre ++
            hpack.take (w.maxFrame - pre.length))) with
          next := some (.continuation sid (hpack.drop (w.maxFrame - pre.length))) }
      else w.putLimited ((Head.mk kind flags sid).encode (pre.length + hpack.length) ++ pre ++ hpack) := rfl

theorem pending_putHeaderFrame (w : Writer) (kind flags sid : Nat) (pre hpack : Bytes)
    (hn : w.next = none) (hpre : pre.length < w.maxFrame) :
    pendingBytes (w.putHeaderFrame kind flags sid pre hpack) =
      w.buf ++ splitBlock (hpack.length + 1) w.maxFrame kind flags sid pre hpack := by
  rw [putHeaderFrame_eq]
  simp only [splitBlock]
  split
  · rename_i hgt
    simp only [pendingBytes, putLimited_buf, putLimited_maxFrame, nextBytes, List.append_assoc]
    congr 4
    apply splitBlock_fuel
    · simpa using by omega
    · omega
    · simp only [List.length_drop]; omega
  · simp only [pendingBytes, putLimited_buf, putLimited_next, hn, nextBytes, List.append_nil, List.append_assoc]

theorem putHeaderFrame_maxFrame (w : Writer) (kind flags sid : Nat) (pre hpack : Bytes) :
    (w.putHeaderFrame kind flags sid pre hpack).maxFrame = w.maxFrame := by
  rw [putHeaderFrame_eq]; split <;> rfl

theorem putHeaderFrame_chainThreshold (w : Writer) (kind flags sid : Nat) (pre hpack : Bytes) :
    (w.putHeaderFrame kind flags sid pre hpack).chainThreshold = w.chainThreshold := by
  rw [putHeaderFrame_eq]; split <;> rfl

theorem putHeaderFrame_WF (w : Writer) (kind flags sid : Nat) (pre hpack : Bytes) (hn : w.next = none) :
    WF (w.putHeaderFrame kind flags sid pre hpack) := by
  rw [putHeaderFrame_eq]; unfold WF
  split
  · intro rest h; cases h
  · intro rest h; rw [putLimited_next, hn] at h; cases h

theorem putHeaderFrame_buf_ne (w : Writer) (kind flags sid : Nat) (pre hpack : Bytes) :
    (w.putHeaderFrame kind flags sid pre hpack).buf ≠ [] := by
  rw [putHeaderFrame_eq]
  split <;> simp [Head.encode, be24]

theorem putHeaderFrame_next_not_data (w : Writer) (kind flags sid : Nat) (pre hpack : Bytes) (hn : w.next = none)
    (rest : Bytes) : (w.putHeaderFrame kind flags sid pre hpack).next ≠ some (.data rest) := by
  rw [putHeaderFrame_eq]
  split
  · intro h; cases h
  · rw [putLimited_next, hn]; intro h; cases h

-- ===================================================================== one iteration of `flush`

/-- the current chunk of `buf.chain(payload)` -/
def curChunk (w : Writer) : Bytes :=
  if ¬ w.buf.isEmpty then w.buf else match w.next with | some (.data rest) => rest | _ => []

/-- `advance(n)` on the chain -/
def advance (w : Writer) (n : Nat) : Writer :=
  if ¬ w.buf.isEmpty then { w with buf := w.buf.drop n }
  else match w.next with
    | some (.data rest) => { w with next := some (.data (rest.drop n)) }
    | _ => w

theorem flush_succ (fuel : Nat) (w : Writer) (sc : List (Option Nat)) (out : Bytes) :
    Writer.flush (fuel + 1) w sc out =
      if ¬ w.isEmpty then
        match (match sc with | [] => (some (curChunk w).length, []) | a :: rest => (a, rest)) with
        | (none, sc') => (w, sc', out, .pending)
        | (some k, sc') =>
          if min k (curChunk w).length = 0 then (w, sc', out, .writeZero)
          else Writer.flush fuel (advance w (min k (curChunk w).length)) sc'
            (out ++ (curChunk w).take (min k (curChunk w).length))
      else if w.unsetFrame.2 then Writer.flush fuel w.unsetFrame.1 sc out
      else (w.unsetFrame.1, sc, out, .ready) := by
  rw [Writer.flush]
  by_cases he : w.isEmpty = true
  · simp only [he, not_true_eq_false, if_false]
  · simp only [he]
    cases sc with
    | nil => rfl
    | cons a rest => cases a <;> rfl

/-- under the invariant a non-empty writer has a non-empty current chunk, and advancing over a prefix
    of it removes exactly that prefix from the pending octets -/
theorem advance_spec (w : Writer) (hwf : WF w) (hne : ¬ w.isEmpty = true) :
    curChunk w ≠ [] ∧ ∀ n, (curChunk w).take n ++ pendingBytes (advance w n) = pendingBytes w ∧
      WF (advance w n) ∧ (advance w n).maxFrame = w.maxFrame ∧
      (advance w n).chainThreshold = w.chainThreshold := by
  by_cases hb : w.buf = []
  · have hbe : ¬ (¬ w.buf.isEmpty = true) := by simp [hb]
    cases hnx : w.next with
    | none => simp [Writer.isEmpty, hnx, hb] at hne
    | some nx =>
      cases nx with
      | continuation sid hp => simp [Writer.isEmpty, hnx, hb] at hne
      | data rest =>
        have hc : curChunk w = rest := by unfold curChunk; rw [if_neg hbe, hnx]
        have ha : ∀ n, advance w n = { w with next := some (.data (rest.drop n)) } := by
          intro n; unfold advance; rw [if_neg hbe, hnx]
        simp only [Writer.isEmpty, hnx] at hne
        rw [hc]
        refine ⟨by simpa using hne, fun n => ?_⟩
        rw [ha]
        refine ⟨?_, ?_, rfl, rfl⟩
        · simp [pendingBytes, hb, hnx, nextBytes]
        · intro r _ _; exact hb
  · have hbe : ¬ w.buf.isEmpty = true := by simpa using hb
    have hc : curChunk w = w.buf := by unfold curChunk; rw [if_pos hbe]
    have ha : ∀ n, advance w n = { w with buf := w.buf.drop n } := by
      intro n; unfold advance; rw [if_pos hbe]
    rw [hc]
    refine ⟨hb, fun n => ?_⟩
    rw [ha]
    refine ⟨?_, ?_, rfl, rfl⟩
    · simp only [pendingBytes]
      rw [← List.append_assoc, List.take_append_drop]
    · intro r h1 h2
      exact absurd (hwf r h1 h2) hb

theorem pending_ne_of_not_isEmpty (w : Writer) (hwf : WF w) (hne : ¬ w.isEmpty = true) : pendingBytes w ≠ [] := by
  obtain ⟨hc, hn⟩ := advance_spec w hwf hne
  intro h
  have := (hn (curChunk w).length).1
  rw [h, List.take_length] at this
  simp at this
  exact hc this.1

/-- `unset_frame` on an empty writer: the pending octets do not change; with a header-block rest the
    next CONTINUATION frame moves into `buf` -/
theorem unsetFrame_spec (w : Writer) (hwf : WF w) (hmf : 0 < w.maxFrame) (he : w.isEmpty = true) :
    pendingBytes w.unsetFrame.1 = pendingBytes w ∧ WF w.unsetFrame.1 ∧
    w.unsetFrame.1.maxFrame = w.maxFrame ∧ w.unsetFrame.1.chainThreshold = w.chainThreshold ∧
    (w.unsetFrame.2 = true → w.unsetFrame.1.isEmpty = false) ∧
    (w.unsetFrame.2 = false → pendingBytes w.unsetFrame.1 = []) := by
  cases hnx : w.next with
  | none =>
    have hb : w.buf = [] := by simpa [Writer.isEmpty, hnx] using he
    have hu : w.unsetFrame = ({ w with buf := [], bufLen := 0 }, false) := by
      unfold Writer.unsetFrame; simp only [hnx]
    rw [hu]
    refine ⟨?_, ?_, rfl, rfl, by simp, ?_⟩
    · simp [pendingBytes, hb]
    · intro r h; simp only [hnx] at h; cases h
    · simp [pendingBytes, hnx, nextBytes]
  | some nx =>
    cases nx with
    | data rest =>
      have hr : rest = [] := by simpa [Writer.isEmpty, hnx] using he
      have hb : w.buf = [] := hwf rest hnx hr
      have hu : w.unsetFrame = ({ w with buf := [], bufLen := 0, next := none }, false) := by
        unfold Writer.unsetFrame; simp only [hnx]
      rw [hu]
      refine ⟨?_, ?_, rfl, rfl, by simp, ?_⟩
      · simp [pendingBytes, hnx, hb, hr, nextBytes]
      · intro r h; cases h
      · simp [pendingBytes, nextBytes]
    | continuation sid hp =>
      have hb : w.buf = [] := by simpa [Writer.isEmpty, hnx] using he
      have hu : w.unsetFrame =
          (({ w with buf := [], bufLen := 0, next := none } : Writer).putHeaderFrame 9 4 sid [] hp, true) := by
        unfold Writer.unsetFrame; simp only [hnx]
      rw [hu]
      refine ⟨?_, ?_, ?_, ?_, ?_, by simp⟩
      · rw [pending_putHeaderFrame _ _ _ _ _ _ rfl (by simpa using hmf)]
        simp [pendingBytes, hnx, hb, nextBytes]
      · exact putHeaderFrame_WF _ _ _ _ _ _ rfl
      · rw [putHeaderFrame_maxFrame]
      · rw [putHeaderFrame_chainThreshold]
      · intro _
        have h1 := putHeaderFrame_buf_ne { w with buf := [], bufLen := 0, next := none } 9 4 sid [] hp
        have h2 := putHeaderFrame_next_not_data { w with buf := [], bufLen := 0, next := none } 9 4 sid [] hp rfl
        simp only
        generalize Writer.putHeaderFrame _ 9 4 sid [] hp = w' at h1 h2
        unfold Writer.isEmpty
        cases hw' : w'.next with
        | none => simpa using h1
        | some nx' =>
          cases nx' with
          | data r => exact absurd hw' (h2 r)
          | continuation _ _ => simpa using h1

-- ===================================================================== `flush`

/-- what a `flush` call guarantees about its result `res = (w', sc', out', result)` -/
structure FlushSpec (w : Writer) (sc : List (Option Nat)) (out : Bytes)
    (res : Writer × List (Option Nat) × Bytes × FlushRes) : Prop where
  /-- the octets accepted by the transport are a prefix of what was pending, the rest is still pending -/
  written : ∃ wr, res.2.2.1 = out ++ wr ∧ wr ++ pendingBytes res.1 = pendingBytes w
  wf : WF res.1
  maxFrame : res.1.maxFrame = w.maxFrame
  chainThreshold : res.1.chainThreshold = w.chainThreshold
  /-- the fuel never runs out -/
  noLoop : res.2.2.2 ≠ .loop
  /-- `Ready` exactly when everything has been written -/
  ready : res.2.2.2 = .ready ↔ pendingBytes res.1 = []
  /-- `WriteZero` only if the transport answered `Ok(0)`: that answer is the last one consumed -/
  writeZero : res.2.2.2 = .writeZero → ∃ pre, sc = pre ++ some 0 :: res.2.1
  /-- the answers are consumed in order -/
  script : ∃ pre, sc = pre ++ res.2.1

theorem FlushSpec.step {w w1 : Writer} {sc sc1 : List (Option Nat)} {out wr1 : Bytes}
    {res : Writer × List (Option Nat) × Bytes × FlushRes} (p : List (Option Nat)) (hsc : sc = p ++ sc1)
    (hp : wr1 ++ pendingBytes w1 = pendingBytes w) (hmf : w1.maxFrame = w.maxFrame)
    (hct : w1.chainThreshold = w.chainThreshold)
    (h : FlushSpec w1 sc1 (out ++ wr1) res) : FlushSpec w sc out res := by
  obtain ⟨⟨wr, h1, h2⟩, hwf, hm, hc, hl, hr, hz, ⟨q, hq⟩⟩ := h
  refine ⟨⟨wr1 ++ wr, ?_, ?_⟩, hwf, hm.trans hmf, hc.trans hct, hl, hr, ?_, ⟨p ++ q, ?_⟩⟩
  · rw [h1, List.append_assoc]
  · rw [List.append_assoc, h2, hp]
  · intro hz'
    obtain ⟨pre, hpre⟩ := hz hz'
    exact ⟨p ++ pre, by rw [hsc, hpre, List.append_assoc]⟩
  · rw [hsc, hq, List.append_assoc]

/-- fuel measure: two iterations per pending octet at most (one `unset_frame`, one write) -/
def flushMeasure (w : Writer) : Nat := 2 * (pendingBytes w).length + (if w.isEmpty then 1 else 0)

theorem flush_spec (fuel : Nat) : ∀ (w : Writer) (sc : List (Option Nat)) (out : Bytes),
    WF w → 0 < w.maxFrame → flushMeasure w + 1 ≤ fuel →
    FlushSpec w sc out (Writer.flush fuel w sc out) := by
  induction fuel with
  | zero => intro w sc out _ _ h; omega
  | succ k ih =>
    intro w sc out hwf hmf hfuel
    rw [flush_succ]
    by_cases he : w.isEmpty = true
    · -- nothing in `buf`/payload: `unset_frame`
      rw [if_neg (by simp [he])]
      obtain ⟨hp, hwf', hmf', hct', hcont, hdone⟩ := unsetFrame_spec w hwf hmf he
      by_cases hc : w.unsetFrame.2 = true
      · rw [if_pos hc]
        have hne := hcont hc
        apply FlushSpec.step (wr1 := []) [] rfl (by simpa using hp) hmf' hct'
        rw [List.append_nil]
        apply ih _ _ _ hwf' (by omega)
        unfold flushMeasure at hfuel ⊢
        rw [hp, hne]
        rw [he] at hfuel
        simp only [if_true] at hfuel
        simp only [Bool.false_eq_true, if_false]
        omega
      · rw [if_neg hc]
        have hdone := hdone (by simpa using hc)
        refine ⟨⟨[], by simp, by simpa using hp⟩, hwf', hmf', hct', by simp, by simp [hdone], by simp, ⟨[], rfl⟩⟩
    · rw [if_pos he]
      obtain ⟨hcne, hadv⟩ := advance_spec w hwf he
      have hclen : 0 < (curChunk w).length := List.length_pos_iff.2 hcne
      have hpne := pending_ne_of_not_isEmpty w hwf he
      -- leaves: Pending / WriteZero
      have leaf : ∀ (sc' : List (Option Nat)) (r : FlushRes), r ≠ .loop → r ≠ .ready →
          (∃ pre, sc = pre ++ sc') → (r = .writeZero → ∃ pre, sc = pre ++ some 0 :: sc') →
          FlushSpec w sc out (w, sc', out, r) := by
        intro sc' r h1 h2 h3 h4
        exact ⟨⟨[], by simp, by simp⟩, hwf, rfl, rfl, h1, by simp [h2, hpne], h4, h3⟩
      -- the writing step
      have wstep : ∀ (n : Nat) (p sc' : List (Option Nat)), sc = p ++ sc' → 0 < n → n ≤ (curChunk w).length →
          FlushSpec w sc out (Writer.flush k (advance w n) sc' (out ++ (curChunk w).take n)) := by
        intro n p sc' hsc hn0 hnle
        obtain ⟨h1, h2, h3, h4⟩ := hadv n
        apply FlushSpec.step p hsc h1 h3 h4
        apply ih _ _ _ h2 (by omega)
        have hlen : (pendingBytes w).length = n + (pendingBytes (advance w n)).length := by
          rw [← h1, List.length_append, List.length_take, Nat.min_eq_left hnle]
        unfold flushMeasure at hfuel ⊢
        have he' : w.isEmpty = false := by simpa using he
        rw [he'] at hfuel
        simp only [Bool.false_eq_true, if_false] at hfuel
        split <;> omega
      cases sc with
      | nil =>
        simp only [Nat.min_self]
        rw [if_neg (by omega)]
        exact wstep _ [] [] rfl hclen (Nat.le_refl _)
      | cons a rest =>
        simp only
        cases a with
        | none => exact leaf rest .pending (by simp) (by simp) ⟨[none], rfl⟩ (by simp)
        | some kk =>
          simp only
          by_cases hz : min kk (curChunk w).length = 0
          · rw [if_pos hz]
            have : kk = 0 := by omega
            subst this
            exact leaf rest .writeZero (by simp) (by simp) ⟨[some 0], rfl⟩ (fun _ => ⟨[], rfl⟩)
          · rw [if_neg hz]
            exact wstep _ [some kk] rest rfl (by omega) (Nat.min_le_right _ _)

/-- WRITER EXACTNESS, `flush`: for every well-formed writer, script and enough fuel
    (`2 * pending + 2`), with `(w', sc', out, res) = flush fuel w sc []`:
    `out ++ pendingBytes w' = pendingBytes w` (what the transport accepted is a prefix of what was
    pending, the suffix is what is pending now), never `.loop`, `.ready` iff nothing is left,
    `.writeZero` only on a `some 0` answer. -/
theorem flush_exact (w : Writer) (sc : List (Option Nat)) (fuel : Nat)
    (hwf : WF w) (hmf : 0 < w.maxFrame) (hfuel : 2 * (pendingBytes w).length + 2 ≤ fuel) :
    (Writer.flush fuel w sc []).2.2.1 ++ pendingBytes (Writer.flush fuel w sc []).1 = pendingBytes w ∧
    (Writer.flush fuel w sc []).2.2.2 ≠ .loop ∧
    ((Writer.flush fuel w sc []).2.2.2 = .ready ↔ pendingBytes (Writer.flush fuel w sc []).1 = []) ∧
    ((Writer.flush fuel w sc []).2.2.2 = .writeZero → ∃ pre, sc = pre ++ some 0 :: (Writer.flush fuel w sc []).2.1) ∧
    WF (Writer.flush fuel w sc []).1 ∧ (Writer.flush fuel w sc []).1.maxFrame = w.maxFrame ∧
    (Writer.flush fuel w sc []).1.chainThreshold = w.chainThreshold := by
  have hm : flushMeasure w + 1 ≤ fuel := by unfold flushMeasure; split <;> omega
  obtain ⟨⟨wr, h1, h2⟩, hwf', hm', hc', hl, hr, hz, _⟩ := flush_spec fuel w sc [] hwf hmf hm
  refine ⟨?_, hl, hr, hz, hwf', hm', hc'⟩
  rw [h1, List.nil_append, h2]

/-- the octets accepted by the transport are a prefix of the pending ones -/
theorem flush_prefix (w : Writer) (sc : List (Option Nat)) (fuel : Nat)
    (hwf : WF w) (hmf : 0 < w.maxFrame) (hfuel : 2 * (pendingBytes w).length + 2 ≤ fuel) :
    (Writer.flush fuel w sc []).2.2.1 <+: pendingBytes w :=
  ⟨_, (flush_exact w sc fuel hwf hmf hfuel).1⟩

-- ===================================================================== `buffer`

/-- the serialisation of an item as the writer in state `w` produces it (HPACK state and
    `max_frame_size` of `w`) -/
def serialise (w : Writer) : Item → Bytes
  | .simple f => (encodeSimple f).getD []
  | .headers sid eos fields =>
    match w.hpack.encode fields with
    | some (_, block) => splitBlock (block.length + 1) w.maxFrame 1 (4 + if eos then 1 else 0) sid [] block
    | none => []
  | .pushPromise sid promised fields =>
    match w.hpack.encode fields with
    | some (_, block) => splitBlock (block.length + 1) w.maxFrame 5 4 sid (be32 promised) block
    | none => []

theorem pending_put (w : Writer) (bs : Bytes) (hn : w.next = none) :
    pendingBytes (w.put bs) = pendingBytes w ++ bs := by
  simp [pendingBytes, hn, nextBytes]

theorem put_WF (w : Writer) (bs : Bytes) (hn : w.next = none) : WF (w.put bs) := by
  intro r h; rw [put_next, hn] at h; cases h

/-- `buffer_appends`: an accepted item appends exactly its serialisation to the pending octets.  For
    DATA on the chain path the cut between `buf` and `next` is invisible.  Preconditions: the one the
    Rust asserts (`has_capacity`, here only `next = none` matters), a positive chain threshold and
    room for the PUSH_PROMISE prefix. -/
theorem buffer_appends (w w' : Writer) (it : Item) (hn : w.next = none)
    (hct : 0 < w.chainThreshold) (hmf : 4 < w.maxFrame) (h : w.buffer it = (w', .ok)) :
    pendingBytes w' = pendingBytes w ++ serialise w it ∧ WF w' ∧
      w'.maxFrame = w.maxFrame ∧ w'.chainThreshold = w.chainThreshold := by
  have hpw : pendingBytes w = w.buf := by simp [pendingBytes, hn, nextBytes]
  cases it with
  | simple f =>
    cases f with
    | data sid payload eos pad =>
      simp only [Writer.buffer] at h
      split at h
      · cases h
      · split at h
        · rename_i hlen
          by_cases h3 : (w.put ((Head.mk 0 (if eos then 1 else 0) sid).encode payload.length)).bufLen < w.chainThreshold
          · rw [if_pos h3] at h
            simp only [Prod.mk.injEq, and_true] at h
            subst h
            refine ⟨?_, ?_, rfl, rfl⟩
            · simp only [pendingBytes, put_buf, nextBytes, hn, serialise, encodeSimple,
                Option.getD_some, List.append_assoc, List.append_nil, List.take_append_drop]
            · intro r hr hr0
              simp only [Next.data.injEq, Option.some.injEq] at hr
              exfalso
              have : (payload.drop (w.chainThreshold - (w.put ((Head.mk 0 (if eos then 1 else 0) sid).encode payload.length)).buf.length)).length = 0 := by
                rw [hr, hr0]; rfl
              simp only [List.length_drop, put_buf, List.length_append, Head.encode_length] at this
              omega
          · rw [if_neg h3] at h
            simp only [Prod.mk.injEq, and_true] at h
            subst h
            refine ⟨?_, ?_, rfl, rfl⟩
            · simp only [pendingBytes, put_buf, nextBytes, hn, serialise, encodeSimple,
                Option.getD_some, List.append_assoc, List.append_nil]
            · intro r hr hr0
              simp only [Next.data.injEq, Option.some.injEq] at hr
              exfalso
              have : payload.length = 0 := by rw [hr, hr0]; rfl
              omega
        · simp only [Prod.mk.injEq, and_true] at h
          subst h
          exact ⟨by rw [pending_put _ _ hn]; rfl, put_WF _ _ hn, rfl, rfl⟩
    | priority => simp [Writer.buffer] at h
    | headers => simp [Writer.buffer, encodeSimple] at h
    | pushPromise => simp [Writer.buffer, encodeSimple] at h
    | reset sid code =>
      simp only [Writer.buffer, encodeSimple, Prod.mk.injEq, and_true] at h
      subst h
      exact ⟨by rw [pending_put _ _ hn]; rfl, put_WF _ _ hn, rfl, rfl⟩
    | settings ack vals =>
      simp only [Writer.buffer, encodeSimple, Prod.mk.injEq, and_true] at h
      subst h
      exact ⟨by rw [pending_put _ _ hn]; rfl, put_WF _ _ hn, rfl, rfl⟩
    | ping ack p =>
      simp only [Writer.buffer, encodeSimple, Prod.mk.injEq, and_true] at h
      subst h
      exact ⟨by rw [pending_put _ _ hn]; rfl, put_WF _ _ hn, rfl, rfl⟩
    | goAway last code dbg =>
      simp only [Writer.buffer, encodeSimple, Prod.mk.injEq, and_true] at h
      subst h
      exact ⟨by rw [pending_put _ _ hn]; rfl, put_WF _ _ hn, rfl, rfl⟩
    | windowUpdate sid inc =>
      simp only [Writer.buffer, encodeSimple, Prod.mk.injEq, and_true] at h
      subst h
      exact ⟨by rw [pending_put _ _ hn]; rfl, put_WF _ _ hn, rfl, rfl⟩
  | headers sid eos fields =>
    simp only [Writer.buffer] at h
    simp only [serialise]
    cases henc : w.hpack.encode fields with
    | none => rw [henc] at h; cases h
    | some x =>
      obtain ⟨e', block⟩ := x
      rw [henc] at h
      simp only [Prod.mk.injEq, and_true] at h
      subst h
      refine ⟨?_, putHeaderFrame_WF _ _ _ _ _ _ hn, by rw [putHeaderFrame_maxFrame], by rw [putHeaderFrame_chainThreshold]⟩
      rw [pending_putHeaderFrame { w with hpack := e' } _ _ _ _ _ hn (by simpa using by omega), hpw]
  | pushPromise sid promised fields =>
    simp only [Writer.buffer] at h
    simp only [serialise]
    cases henc : w.hpack.encode fields with
    | none => rw [henc] at h; cases h
    | some x =>
      obtain ⟨e', block⟩ := x
      rw [henc] at h
      simp only [Prod.mk.injEq, and_true] at h
      subst h
      refine ⟨?_, putHeaderFrame_WF _ _ _ _ _ _ hn, by rw [putHeaderFrame_maxFrame], by rw [putHeaderFrame_chainThreshold]⟩
      rw [pending_putHeaderFrame { w with hpack := e' } _ _ _ _ _ hn (by simpa using hmf), hpw]

/-- a refused item leaves the writer untouched -/
theorem buffer_refused (w : Writer) (it : Item) (h : (w.buffer it).2 ≠ .ok) : (w.buffer it).1 = w := by
  cases it with
  | simple f =>
    cases f with
    | data sid payload eos pad =>
      simp only [Writer.buffer] at h ⊢
      by_cases h1 : payload.length > w.maxFrame
      · rw [if_pos h1]
      · rw [if_neg h1] at h
        by_cases h2 : payload.length ≥ w.chainThreshold
        · rw [if_pos h2] at h
          by_cases h3 : (w.put ((Head.mk 0 (if eos then 1 else 0) sid).encode payload.length)).bufLen < w.chainThreshold
          · rw [if_pos h3] at h; exact absurd rfl h
          · rw [if_neg h3] at h; exact absurd rfl h
        · rw [if_neg h2] at h; exact absurd rfl h
    | priority => rfl
    | headers => rfl
    | pushPromise => rfl
    | reset => exact absurd rfl h
    | settings => exact absurd rfl h
    | ping => exact absurd rfl h
    | goAway => exact absurd rfl h
    | windowUpdate => exact absurd rfl h
  | headers sid eos fields =>
    simp only [Writer.buffer] at h ⊢
    cases henc : w.hpack.encode fields with
    | none => rfl
    | some x => rw [henc] at h; simp at h
  | pushPromise sid promised fields =>
    simp only [Writer.buffer] at h ⊢
    cases henc : w.hpack.encode fields with
    | none => rfl
    | some x => rw [henc] at h; simp at h

-- ===================================================================== any sequence of `buffer` / `flush`

/-- what the connection does with the writer -/
inductive Op where
  | buffer (it : Item)
  | flush (sc : List (Option Nat))     -- one `flush` call against these `poll_write` answers

/-- run a sequence of operations.  Result: (writer, octets accepted by the transport, concatenated
    serialisations of the items `buffer` accepted).  `buffer` is only called with `has_capacity`
    (the Rust asserts it); a refused item changes nothing. -/
def run : Writer → List Op → Writer × Bytes × Bytes
  | w, [] => (w, [], [])
  | w, .buffer it :: ops =>
    if w.hasCapacity = true ∧ (w.buffer it).2 = .ok then
      ((run (w.buffer it).1 ops).1, (run (w.buffer it).1 ops).2.1,
        serialise w it ++ (run (w.buffer it).1 ops).2.2)
    else run w ops
  | w, .flush sc :: ops =>
    ((run (w.flush (2 * (pendingBytes w).length + 2) sc []).1 ops).1,
      (w.flush (2 * (pendingBytes w).length + 2) sc []).2.2.1 ++
        (run (w.flush (2 * (pendingBytes w).length + 2) sc []).1 ops).2.1,
      (run (w.flush (2 * (pendingBytes w).length + 2) sc []).1 ops).2.2)

theorem next_none_of_hasCapacity (w : Writer) (h : w.hasCapacity = true) : w.next = none := by
  unfold Writer.hasCapacity at h
  simp only [Bool.and_eq_true, Option.isNone_iff_eq_none] at h
  exact h.1

/-- WRITER EXACTNESS over any interleaving of `buffer` and `flush` with arbitrary partial writes:
    (accepted octets) ++ (still pending) = (pending at the start) ++ (serialisations, in order). -/
theorem writer_bytes_exact (ops : List Op) : ∀ (w : Writer), WF w → 0 < w.chainThreshold → 4 < w.maxFrame →
    (run w ops).2.1 ++ pendingBytes (run w ops).1 = pendingBytes w ++ (run w ops).2.2 := by
  induction ops with
  | nil => intro w _ _ _; simp [run]
  | cons op ops ih =>
    intro w hwf hct hmf
    cases op with
    | buffer it =>
      simp only [run]
      by_cases hc : w.hasCapacity = true ∧ (w.buffer it).2 = .ok
      · rw [if_pos hc]
        have hb : w.buffer it = ((w.buffer it).1, .ok) := Prod.ext rfl hc.2
        obtain ⟨h1, h2, h3, h4⟩ := buffer_appends w _ it (next_none_of_hasCapacity w hc.1) hct hmf hb
        have := ih (w.buffer it).1 h2 (by omega) (by omega)
        simp only
        rw [this, h1, List.append_assoc]
      · rw [if_neg hc]
        exact ih w hwf hct hmf
    | flush sc =>
      simp only [run]
      obtain ⟨h1, _, _, _, h2, h3, h4⟩ := flush_exact w sc _ hwf (by omega) (Nat.le_refl _)
      have := ih (w.flush (2 * (pendingBytes w).length + 2) sc []).1 h2 (by omega) (by omega)
      rw [List.append_assoc, this, ← List.append_assoc, h1]

/-- from an idle writer: the transport has received a prefix of the serialisations, in order, and the
    missing suffix is exactly what is pending -/
theorem writer_bytes_prefix (ops : List Op) (w : Writer) (hidle : pendingBytes w = [])
    (hct : 0 < w.chainThreshold) (hmf : 4 < w.maxFrame) :
    (run w ops).2.1 ++ pendingBytes (run w ops).1 = (run w ops).2.2 ∧
    (run w ops).2.1 <+: (run w ops).2.2 := by
  have hwf : WF w := by
    intro r _ _
    unfold pendingBytes at hidle
    exact (List.append_eq_nil_iff.1 hidle).1
  have := writer_bytes_exact ops w hwf hct hmf
  rw [hidle, List.nil_append] at this
  exact ⟨this, ⟨_, this⟩⟩

/-- … and once nothing is pending (last `flush` returned `Ready`) it has received all of them -/
theorem writer_bytes_all (ops : List Op) (w : Writer) (hidle : pendingBytes w = [])
    (hct : 0 < w.chainThreshold) (hmf : 4 < w.maxFrame) (hdone : pendingBytes (run w ops).1 = []) :
    (run w ops).2.1 = (run w ops).2.2 := by
  have := (writer_bytes_prefix ops w hidle hct hmf).1
  rwa [hdone, List.append_nil] at this

/-- the default writer (as `FramedWrite::new` builds it) meets the side conditions -/
theorem default_writer_ok : pendingBytes ({} : Writer) = [] ∧ 0 < ({} : Writer).chainThreshold ∧
    4 < ({} : Writer).maxFrame := by decide

-- ===================================================================== `tx_within_max_frame_size`

/-- a DATA item longer than `max_frame_size` is refused … -/
theorem tx_data_too_big (w : Writer) (sid : Nat) (payload : Bytes) (eos : Bool) (pad : Option Nat)
    (h : w.maxFrame < payload.length) :
    w.buffer (.simple (.data sid payload eos pad)) = (w, .payloadTooBig) := by
  simp only [Writer.buffer]
  rw [if_pos h]

/-- … so every DATA frame that reaches the wire has a payload within `max_frame_size` -/
theorem tx_data_within_max_frame_size (w w' : Writer) (sid : Nat) (payload : Bytes) (eos : Bool) (pad : Option Nat)
    (h : w.buffer (.simple (.data sid payload eos pad)) = (w', .ok)) : payload.length ≤ w.maxFrame := by
  by_cases hgt : w.maxFrame < payload.length
  · rw [tx_data_too_big w sid payload eos pad hgt] at h; cases h
  · omega

/-- the fixed-shape control frames have at most 42 payload octets (7 settings), far below any legal
    `max_frame_size` (≥ 2^14) -/
theorem tx_control_within_max_frame_size (f : Model.Frame.Frame) (bs : Bytes) (h : encodeSimple f = some bs)
    (hk : match f with
      | .settings .. => True
      | .windowUpdate .. => True
      | .reset .. => True
      | .ping _ p => p.length = 8
      | _ => False) : bs.length ≤ 9 + 42 := by
  cases f <;> simp only [encodeSimple, Option.some.injEq, reduceCtorEq] at h hk <;> subst h
  · simp
  · rename_i ack vals
    have := settingsPayload_length vals
    have := settingsOrder_length_le vals
    simp only [List.length_append, Head.encode_length]; omega
  · simp [hk]
  · simp

/-- OBSERVATION (not covered by `tx_within_max_frame_size`): `Encoder::buffer` has no size guard for
    GOAWAY; a debug-data blob longer than the peer's `max_frame_size` would go out as one oversized
    frame.  In this tree all debug data are short library strings. -/
theorem buffer_goaway_unchecked (w : Writer) (last code : Nat) (dbg : Bytes) :
    (w.buffer (.simple (.goAway last code dbg))).2 = .ok := rfl

/-- header frames: the chain `buffer` + `unset_frame` put on the wire contains no frame above
    `max_frame_size` in the eyes of an RFC 9113 receiver with that limit -/
theorem tx_headers_within_max_frame_size (w : Writer) (sid : Nat) (eos : Bool) (fields : List Model.Hpack.Field)
    (hmf : 0 < w.maxFrame) (hmax : w.maxFrame < 2 ^ 24) (hs0 : sid ≠ 0) (hs : sid < 2 ^ 31) (F : Nat)
    (hF : (serialise w (.headers sid eos fields)).length + 2 ≤ F) :
    (Spec.Frame.frames F w.maxFrame (serialise w (.headers sid eos fields))).2 = [] ∧
    Spec.Frame.Violation.frameSize ∉
      (Spec.Frame.frames F w.maxFrame (serialise w (.headers sid eos fields))).1.filterMap
        (fun | .error v => some v | .ok _ => none) := by
  simp only [serialise] at hF ⊢
  cases henc : w.hpack.encode fields with
  | none => simp [frames_nil]
  | some x =>
    obtain ⟨e', block⟩ := x
    rw [henc] at hF
    simp only at hF ⊢
    have hlen : block.length ≤ (splitBlock (block.length + 1) w.maxFrame 1 (4 + if eos then 1 else 0) sid [] block).length := by
      have := splitBlock_length_ge (block.length + 1) w.maxFrame 1 (4 + if eos then 1 else 0) sid [] block
        (by simpa using hmf) (by omega)
      exact this
    obtain ⟨g0, gs, _, _, hfr⟩ := parse_split_block_headers (block.length + 1) w.maxFrame sid eos block F w.maxFrame
      hmf hmax hs0 hs (by omega) (by omega) (Nat.le_refl _)
    rw [hfr]
    refine ⟨rfl, ?_⟩
    simp [List.filterMap_map]

end H2V.Lemmas.Codec
