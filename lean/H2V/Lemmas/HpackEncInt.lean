import H2V.Model.HpackEnc
import H2V.Spec.Hpack
import H2V.Lemmas.Huffman
/-
  C10, part 1 — what `encode_int` / `encode_str` (h2, model) write is read back by the RFC 7541
  reference (`Spec.Hpack.int`, `Spec.Hpack.str`), whatever follows in the buffer.
-/
namespace H2V.Lemmas.HpackEnc
open H2V H2V.Model.Hpack

/-! ### integers (RFC 7541 §5.1) -/

theorem or128 : ∀ x, x < 128 → (128 ||| x) = 128 + x := by decide +kernel

/-- continuation octets: `fuel` octets carry every value below `128 ^ fuel` -/
theorem intCont_encodeIntLoop : ∀ (fuel w acc m : Nat) (rest : Bytes), 0 < fuel → w < 128 ^ fuel →
    Spec.Hpack.intCont (encodeIntLoop fuel w ++ rest) acc m = some (acc + w * 2 ^ m, rest) := by
  intro fuel
  induction fuel with
  | zero => intro w acc m rest h; omega
  | succ fuel ih =>
    intro w acc m rest _ hw
    simp only [encodeIntLoop]
    by_cases hge : w ≥ 128
    · rw [if_pos hge]
      have hlt : w % 128 < 128 := Nat.mod_lt _ (by decide)
      simp only [List.cons_append, Spec.Hpack.intCont, or128 _ hlt]
      rw [if_neg (by omega)]
      have e2 : w >>> 7 = w / 128 := Nat.shiftRight_eq_div_pow w 7
      have hw' : w / 128 < 128 ^ fuel := by
        apply Nat.div_lt_of_lt_mul
        rw [Nat.pow_succ, Nat.mul_comm] at hw
        exact hw
      have hfuel : 0 < fuel := by
        cases fuel with
        | zero => simp at hw'; omega
        | succ k => omega
      rw [e2, ih (w / 128) _ (m + 7) rest hfuel hw']
      have e1 : (128 + w % 128) % 128 = w % 128 := by omega
      have e3 : 2 ^ (m + 7) = 128 * 2 ^ m := by rw [Nat.pow_add]; omega
      rw [e1, e3]
      have hdm := Nat.div_add_mod w 128
      generalize w / 128 = q at hdm ⊢
      generalize w % 128 = r at hdm ⊢
      subst hdm
      generalize 2 ^ m = X
      simp only [Option.some.injEq, Prod.mk.injEq, and_true]
      grind
    · rw [if_neg hge]
      simp only [List.cons_append, List.nil_append, Spec.Hpack.intCont]
      rw [if_pos (by omega), Nat.mod_eq_of_lt (by omega)]

theorem first_or_mod (first v p : Nat) (hf : first % 2 ^ p = 0) (hv : v < 2 ^ p) :
    (first ||| v) % 2 ^ p = v := by
  rw [Nat.or_mod_two_pow, hf, Nat.zero_or, Nat.mod_eq_of_lt hv]

/-- with the low `p` bits of `first` clear, or-ing in a `p`-bit value is adding it -/
theorem first_or_eq_add (first v p : Nat) (hf : first % 2 ^ p = 0) (hv : v < 2 ^ p) :
    (first ||| v) = first + v := by
  have h := Nat.two_pow_add_eq_or_of_lt hv (first / 2 ^ p)
  have h2 : 2 ^ p * (first / 2 ^ p) = first := by
    have := Nat.div_add_mod first (2 ^ p)
    omega
  rw [h2] at h
  exact h.symm

/-- **`spec_int_roundtrip`**: the reference reads back what `encode_int` wrote (every `usize`), and
    leaves what follows untouched.  (`encode_int`'s loop is unbounded in Rust; the model gives it 11
    octets, enough for every value `< 2^64`.) -/
theorem spec_int_roundtrip (v p first : Nat) (rest : Bytes)
    (_hp1 : 1 ≤ p) (_hp8 : p ≤ 8) (hf : first % 2 ^ p = 0) (_hfirst : first < 256) (hv : v < 2 ^ 64) :
    Spec.Hpack.int p (encodeInt v p first ++ rest) = some (v, rest) := by
  have hpos : 0 < 2 ^ p := Nat.pos_of_ne_zero (by simp)
  unfold encodeInt
  by_cases hlt : v < 2 ^ p - 1
  · simp only [if_pos hlt, List.cons_append, List.nil_append, Spec.Hpack.int]
    rw [first_or_mod first v p hf (by omega), if_pos hlt]
  · simp only [if_neg hlt, List.cons_append, Spec.Hpack.int]
    rw [first_or_mod first (2 ^ p - 1) p hf (by omega), if_neg (by omega)]
    rw [intCont_encodeIntLoop 11 (v - (2 ^ p - 1)) _ 0 rest (by decide)
      (by simp only [Nat.reducePow] at hv ⊢; omega)]
    simp only [Nat.pow_zero, Nat.mul_one, Option.some.injEq, Prod.mk.injEq, and_true]
    omega

/-- the first octet of an encoded integer keeps the bits of `first` above the prefix -/
theorem encodeInt_head (v p first : Nat) (hf : first % 2 ^ p = 0) :
    ∃ b tl, encodeInt v p first = b :: tl ∧ first ≤ b ∧ b < first + 2 ^ p := by
  have hpos : 0 < 2 ^ p := Nat.pos_of_ne_zero (by simp)
  unfold encodeInt
  by_cases hlt : v < 2 ^ p - 1
  · refine ⟨first ||| v, [], by simp [hlt], ?_, ?_⟩
    · rw [first_or_eq_add first v p hf (by omega)]; omega
    · rw [first_or_eq_add first v p hf (by omega)]; omega
  · refine ⟨first ||| (2 ^ p - 1), encodeIntLoop 11 (v - (2 ^ p - 1)), by simp only [if_neg hlt], ?_, ?_⟩
    · rw [first_or_eq_add first _ p hf (by omega)]; omega
    · rw [first_or_eq_add first _ p hf (by omega)]; omega

theorem encodeInt_ne_nil (v p first : Nat) : encodeInt v p first ≠ [] := by
  unfold encodeInt
  by_cases h : v < 2 ^ p - 1
  · simp only [if_pos h]; exact List.cons_ne_nil _ _
  · simp only [if_neg h]; exact List.cons_ne_nil _ _

/-! ### strings (RFC 7541 §5.2) -/

theorem pack_length_le : ∀ (fuel : Nat) (bits : List Bool),
    (Spec.Huffman.pack fuel bits).length ≤ bits.length := by
  intro fuel
  induction fuel with
  | zero => intro bits; simp [Spec.Huffman.pack]
  | succ fuel ih =>
    intro bits
    simp only [Spec.Huffman.pack]
    split
    · simp
    · rename_i hne
      have := ih (bits.drop 8)
      simp only [List.length_cons, List.length_drop] at this ⊢
      cases bits with
      | nil => simp at hne
      | cons b t => simp only [List.length_cons] at this ⊢; omega

theorem symBits_length_le (s : Nat) : (Spec.Huffman.symBits s).length ≤ 30 := by
  unfold Spec.Huffman.symBits
  split
  · rename_i l c h
    have := Huffman.code_range (s := s) (n := l) (c := c) h
    simp only [Huffman.codeBits_length]; omega
  · simp

theorem encodeBits_length_le (s : List Nat) : (Spec.Huffman.encodeBits s).length ≤ 30 * s.length := by
  induction s with
  | nil => simp [Spec.Huffman.encodeBits]
  | cons a t ih =>
    have := symBits_length_le a
    simp only [Spec.Huffman.encodeBits, List.length_append, List.length_cons]; omega

/-- a Huffman-coded string is at most 30 bits per octet -/
theorem huffman_length_le (s : Bytes) (h : Bytes.Valid s) :
    (Model.Huffman.encode s).length ≤ 30 * s.length := by
  rw [Huffman.encode_eq_spec s h]
  unfold Spec.Huffman.encode
  exact Nat.le_trans (pack_length_le _ _) (encodeBits_length_le s)

/-- **`spec_str_roundtrip`**: the reference reads back what `encode_str` wrote (always Huffman;
    the empty string as the single octet 0), and leaves what follows untouched.
    The length bound keeps the Huffman-coded length a `usize`. -/
theorem spec_str_roundtrip (s rest : Bytes) (h : Bytes.Valid s) (hl : s.length < 2 ^ 59) :
    Spec.Hpack.str (encodeStr s ++ rest) = .ok (s, rest) := by
  unfold encodeStr
  cases s with
  | nil => simp [Spec.Hpack.str, Spec.Hpack.int]
  | cons a t =>
    simp only [List.isEmpty_cons, Bool.false_eq_true, if_false]
    have hlen := huffman_length_le (a :: t) h
    have hlen64 : (Model.Huffman.encode (a :: t)).length < 2 ^ 64 := by
      simp only [Nat.reducePow] at hl ⊢; omega
    have hint := spec_int_roundtrip (Model.Huffman.encode (a :: t)).length 7 128
      (Model.Huffman.encode (a :: t) ++ rest) (by decide) (by decide) (by decide) (by decide) hlen64
    obtain ⟨b, tl, hb, hb1, hb2⟩ := encodeInt_head (Model.Huffman.encode (a :: t)).length 7 128
      (by decide)
    rw [List.append_assoc]
    rw [hb] at hint ⊢
    simp only [List.cons_append] at hint ⊢
    simp only [Spec.Hpack.str, hint]
    rw [if_neg (by simp), if_pos (by omega)]
    simp only [List.take_left', List.drop_left']
    rw [Huffman.encode_eq_spec _ h, Huffman.spec_roundtrip _ h]

end H2V.Lemmas.HpackEnc
