import H2V.Lemmas.HpackEncInt
import H2V.Lemmas.HpackEncTable
import H2V.Lemmas.HpackEncIndex
import H2V.Lemmas.HpackEncBlock
import H2V.Lemmas.HpackEncSync
/-
  C10 — h2's HPACK encoder (`H2V.Model.Hpack.Encoder`, abstract mirror of `src/hpack/encoder.rs` +
  `src/hpack/table.rs`) stays in sync with a conforming RFC 7541 decoder, for every history of
  SETTINGS_HEADER_TABLE_SIZE changes and header blocks.  Reference: `H2V.Spec.Hpack` (decoder) and
  `H2V.Spec.HpackSync` (monitor).  Everything is in the namespace `H2V.Lemmas.HpackEnc`.

  Main results
    * `spec_int_roundtrip`     `Spec.int p (encodeInt v p first ++ rest) = some (v, rest)`, `v < 2^64`   (HpackEncInt)
    * `huffman_length_le`      a Huffman-coded string is at most 30 bits per octet                      (HpackEncInt)
    * `spec_str_roundtrip`     `Spec.str (encodeStr s ++ rest) = .ok (s, rest)`                         (HpackEncInt)
    * `converge_spec`, `converge_eq_evict`, `resize_spec`, `insert_spec`, `insert_eq_spec_insert`
                               h2's back-eviction is RFC 7541 §4.3/§4.4                                 (HpackEncTable)
    * `indexStatic_sound`, `static_lookup`, `index_sound`
                               the index chosen by `Table::index` denotes the right entry in the table
                               before the insertion; insertion only under the 3/4 rule                  (HpackEncIndex)
    * `block_header`, `fields_sim`
                               the field loop (incl. the nameless path): no panic, decoded = submitted   (HpackEncBlock)
    * `encode_sim`             one block, from equal tables to equal tables                             (HpackEncSync)
    * `sync_init`, `sync_setMax`, `sync_block`
                               the simulation invariant `Sync` (pending `One`/`Two` update against the
                               monitor's `allowed` / `lowest`)                                          (HpackEncSync)
    * `roundtrip_history`      every block of every well-formed history is accepted by the monitor      (HpackEncSync)
    * `table_bounded`, `table_bounded_block_end`, `reduction_signalled_first`                           (HpackEncSync)

  Hypotheses on the input (`WF`, all decidable): name and value are octet strings (`Bytes.Valid`)
  shorter than 2^59 (so that the Huffman-coded length is a `usize`: the model's `encode_int` writes
  at most 11 continuation octets); a `nameless` field is never first in its block and has the name
  of the field before it (what the `HeaderMap` iterator guarantees).  A non-empty name is *not*
  needed.
-/
