import H2V.Lemmas.ConnWakePPrim
import H2V.Lemmas.ConnFidPBase
/-
  ConnFidP, part 2 — elementary steps on the two per-stream queues and the in-flight marker.

  Every function of the stream layer is shown (ConnFidPFn*.lean) to be a sequence of ELEMENTARY STEPS
  (`Path P s s' tr`), each of which either leaves every `pending_send`, every `pending_recv` and
  `Prioritize::in_flight_data_frame` alone (a silent step) or does exactly what its LABEL says:

      push k f      f appended at the BACK of `pending_send` of entry k (entry exists)
      pop k f       the HEAD f of `pending_send` of k taken off
      cut k n       `pending_send` of k truncated to its first n frames; the entry is closed; the in-flight
                    marker becomes `Drop` iff it named k
      unpop k f     f put back at the FRONT of `pending_send` of k
      rpush k e     event e appended at the BACK of `pending_recv` of k
      rpop k e      the HEAD e of `pending_recv` of k taken off
      rclear k      `pending_recv` of k emptied
      gone k        entry k removed from the slab
      mark m        in-flight marker set to m

  In every step: keys are never reused, a new entry starts with both queues empty, `Closed` is
  absorbing, key and stream id of an entry never change.  `Perm` says which labels a function may
  produce; the lemma of each model function is generic in `Perm` with one hypothesis per labelled
  primitive it can reach, so the permissions needed by an API call are exactly what it can do.
-/
namespace H2V.Lemmas.ConnFidP
open H2V H2V.Model H2V.Model.Conn H2V.Lemmas.ConnWakeP

inductive Lbl where
  | push (k : Nat) (f : SFrame)
  | pop (k : Nat) (f : SFrame)
  | cut (k n : Nat)
  | unpop (k : Nat) (f : SFrame)
  | rpush (k : Nat) (e : REvent)
  | rpop (k : Nat) (e : REvent)
  | rclear (k : Nat)
  | gone (k : Nat)
  | mark (m : InFlightData)

/-- the entry a label names -/
def Lbl.key? : Lbl → Option Nat
  | .push j _ | .pop j _ | .cut j _ | .unpop j _ | .rpush j _ | .rpop j _ | .rclear j => some j
  | _ => none

def Lbl.isCut : Lbl → Bool
  | .cut _ _ => true
  | _ => false

/-- effect of a step on `pending_send` of the entry with key `k` -/
def sendEff : Option Lbl → Nat → List SFrame → List SFrame
  | some (.push j f), k, q => if j = k then q ++ [f] else q
  | some (.pop j _), k, q => if j = k then q.tail else q
  | some (.cut j n), k, q => if j = k then q.take n else q
  | some (.unpop j f), k, q => if j = k then f :: q else q
  | _, _, q => q

/-- effect of a step on `pending_recv` of the entry with key `k` -/
def recvEff : Option Lbl → Nat → List REvent → List REvent
  | some (.rpush j e), k, q => if j = k then q ++ [e] else q
  | some (.rpop j _), k, q => if j = k then q.tail else q
  | some (.rclear j), k, q => if j = k then [] else q
  | _, _, q => q

/-- effect of a step on `Prioritize::in_flight_data_frame` -/
def markEff : Option Lbl → InFlightData → InFlightData
  | some (.mark m), _ => m
  | some (.cut j _), m => if m = .dataFrame j then .drop else m
  | _, m => m

/-- what a label demands of the entry it names (`a` before, `b` after) -/
def sideOk : Option Lbl → Stream → Stream → Prop
  | some (.pop j f), a, _ => j = a.key → a.pendingSend.head? = some f
  | some (.cut j _), _, b => j = b.key → b.state.isClosed = true
  | some (.rpop j e), a, _ => j = a.key → a.pendingRecv.head? = some e
  | _, _, _ => True

/-- one entry across an elementary step -/
structure ES (l : Option Lbl) (a b : Stream) : Prop where
  key : b.key = a.key
  id : b.id = a.id
  closed : a.state.isClosed = true → b.state.isClosed = true
  send : b.pendingSend = sendEff l a.key a.pendingSend
  recv : b.pendingRecv = recvEff l a.key a.pendingRecv
  side : sideOk l a b

/-- the marker of a `Streams` value -/
abbrev marker (s : Streams) : InFlightData := s.actions.send.prioritize.inFlightDataFrame

/-- one elementary step on a `Streams` value -/
structure El (l : Option Lbl) (s s' : Streams) : Prop where
  nk : s.store.nextKey ≤ s'.store.nextKey
  keep : ∀ k a, s.store.get? k = some a →
    (∃ b, s'.store.get? k = some b ∧ ES l a b) ∨ (s'.store.get? k = none ∧ l = some (.gone k))
  new : ∀ k b, s.store.get? k = none → s'.store.get? k = some b →
    s.store.nextKey ≤ k ∧ k < s'.store.nextKey ∧ b.pendingSend = [] ∧ b.pendingRecv = []
  mark : marker s' = markEff l (marker s)
  /-- a label other than `cut` names an entry that exists -/
  pres : ∀ l' k, l = some l' → l'.key? = some k → l'.isCut = false → (s.store.get? k).isSome = true
  /-- `gone k`: the entry is not there afterwards -/
  goneAbs : ∀ k, l = some (.gone k) → s'.store.get? k = none

/-- which labels a function may produce -/
structure Perm where
  /-- frames that may be queued, per entry (RST_STREAM may also be queued wherever `cut` is permitted) -/
  push : Nat → SFrame → Prop := fun _ _ => False
  /-- `pop_frame` taking a frame off the head of a queue -/
  pop : Prop := False
  /-- the rest of the write path: `unpop` (`reclaim_frame`), `mark` -/
  write : Prop := False
  cut : Nat → Prop := fun _ => False
  rpush : Nat → REvent → Prop := fun _ _ => False
  rpop : Nat → Prop := fun _ => False
  rclear : Nat → Prop := fun _ => False
  /-- removal of a slab entry (`transition_after` releasing a stream, failed `send_request`) -/
  gone : Prop := False

def Perm.ok (P : Perm) : Lbl → Prop
  | .push k f => P.push k f ∨ (isMsg f = false ∧ P.cut k)
  | .pop _ _ => P.pop
  | .unpop _ _ => P.write
  | .mark _ => P.write
  | .cut k _ => P.cut k
  | .rpush k e => P.rpush k e
  | .rpop k _ => P.rpop k
  | .rclear k => P.rclear k
  | .gone _ => P.gone

/-- a sequence of elementary steps, with the labels it produced -/
inductive Path (P : Perm) : Streams → Streams → List Lbl → Prop
  | refl (s : Streams) : Path P s s []
  | tau {s0 s s' : Streams} {tr : List Lbl} : Path P s0 s tr → El none s s' → Path P s0 s' tr
  | lbl {s0 s s' : Streams} {tr : List Lbl} (l : Lbl) : Path P s0 s tr → El (some l) s s' → P.ok l →
      Path P s0 s' (tr ++ [l])

/-- `s` is reached from `s0` by elementary steps that `P` permits -/
def Tr (P : Perm) (s0 s : Streams) : Prop := ∃ tr, Path P s0 s tr

theorem Path.trans {P : Perm} {s0 s1 s2 : Streams} {t1 t2 : List Lbl} (h1 : Path P s0 s1 t1) (h2 : Path P s1 s2 t2) :
    Path P s0 s2 (t1 ++ t2) := by
  induction h2 with
  | refl => simpa using h1
  | tau _ e ih => exact .tau ih e
  | lbl l _ e ok ih => rw [← List.append_assoc]; exact .lbl l ih e ok

theorem Tr.refl (P : Perm) (s : Streams) : Tr P s s := ⟨[], .refl s⟩
theorem Tr.trans {P : Perm} {s0 s1 s2 : Streams} (h1 : Tr P s0 s1) (h2 : Tr P s1 s2) : Tr P s0 s2 := by
  obtain ⟨t1, p1⟩ := h1; obtain ⟨t2, p2⟩ := h2; exact ⟨_, p1.trans p2⟩
theorem Tr.tau {P : Perm} {s0 s s' : Streams} (h : Tr P s0 s) (e : El none s s') : Tr P s0 s' := by
  obtain ⟨t, p⟩ := h; exact ⟨t, .tau p e⟩
theorem Tr.lbl {P : Perm} {s0 s s' : Streams} (h : Tr P s0 s) (l : Lbl) (e : El (some l) s s') (ok : P.ok l) :
    Tr P s0 s' := by
  obtain ⟨t, p⟩ := h; exact ⟨_, .lbl l p e ok⟩

/-- more permissions -/
theorem Path.mono {P Q : Perm} (hPQ : ∀ l, P.ok l → Q.ok l) {s0 s : Streams} {tr : List Lbl} (h : Path P s0 s tr) :
    Path Q s0 s tr := by
  induction h with
  | refl => exact .refl _
  | tau _ e ih => exact .tau ih e
  | lbl l _ e ok ih => exact .lbl l ih e (hPQ l ok)

theorem Path.allowed {P : Perm} {s0 s : Streams} {tr : List Lbl} (h : Path P s0 s tr) : ∀ l ∈ tr, P.ok l := by
  induction h with
  | refl => simp
  | tau _ _ ih => exact ih
  | lbl l _ _ ok ih =>
    intro x hx
    rcases List.mem_append.mp hx with hx | hx
    · exact ih x hx
    · simp only [List.mem_singleton] at hx; subst hx; exact ok

-- ===================================================================== entries

@[grind =] theorem es_none_iff (a b : Stream) : ES none a b ↔ (b.key = a.key ∧ b.id = a.id ∧
    (a.state.isClosed = true → b.state.isClosed = true) ∧ b.pendingSend = a.pendingSend ∧ b.pendingRecv = a.pendingRecv) :=
  ⟨fun h => ⟨h.key, h.id, h.closed, h.send, h.recv⟩, fun ⟨h1, h2, h3, h4, h5⟩ => ⟨h1, h2, h3, h4, h5, trivial⟩⟩

theorem ES.rfl_none (a : Stream) : ES none a a := ⟨rfl, rfl, fun h => h, rfl, rfl, trivial⟩

/-- an entry that a label does not name -/
theorem ES.other (l : Lbl) (a : Stream) (h : l.key? ≠ some a.key) : ES (some l) a a := by
  refine ⟨rfl, rfl, fun h => h, ?_, ?_, ?_⟩
  · cases l <;> simp only [sendEff] <;> simp_all [Lbl.key?]
  · cases l <;> simp only [recvEff] <;> simp_all [Lbl.key?]
  · cases l <;> simp only [sideOk] <;> simp_all [Lbl.key?]

theorem ES.gone_any (k : Nat) (a : Stream) : ES (some (.gone k)) a a := ⟨rfl, rfl, fun h => h, rfl, rfl, trivial⟩
theorem ES.mark_any (m : InFlightData) (a : Stream) : ES (some (.mark m)) a a := ⟨rfl, rfl, fun h => h, rfl, rfl, trivial⟩

-- ===================================================================== primitive steps

theorem El.of_store_eq {s s' : Streams} (h1 : s'.store = s.store) (h2 : marker s' = marker s) : El none s s' where
  nk := by rw [h1]; exact Nat.le_refl _
  keep := by rw [h1]; exact fun k a h => Or.inl ⟨a, h, ES.rfl_none a⟩
  new := by rw [h1]; intro k b h h'; rw [h] at h'; cases h'
  mark := h2
  pres := by intro _ _ h; cases h
  goneAbs := by intro _ h; cases h

/-- same slab (the id map may differ) -/
theorem El.of_store_eq' {s s' : Streams} (h1 : ∀ k, s'.store.get? k = s.store.get? k)
    (h3 : s'.store.nextKey = s.store.nextKey) (h2 : marker s' = marker s) : El none s s' where
  nk := by rw [h3]; exact Nat.le_refl _
  keep := fun k a h => Or.inl ⟨a, by rw [h1, h], ES.rfl_none a⟩
  new := by intro k b h h'; rw [h1, h] at h'; cases h'
  mark := h2
  pres := by intro _ _ h; cases h
  goneAbs := by intro _ h; cases h

theorem El.refl_none (s : Streams) : El none s s := .of_store_eq rfl rfl

/-- replacing the entry of `b.key`, the marker untouched; `hl`: the label names no other entry -/
theorem El.setStream {l : Option Lbl} {s : Streams} {a b : Stream} (ha : s.store.get? b.key = some a) (hab : ES l a b)
    (hl : ∀ x : Stream, x.key ≠ b.key → ES l x x) (hm : markEff l (marker s) = marker s)
    (hp : ∀ l' k, l = some l' → l'.key? = some k → k = b.key) (hng : ∀ k, l ≠ some (.gone k)) : El l s (s.setStream b) where
  nk := Nat.le_refl _
  keep := by
    intro k x hx
    refine Or.inl ?_
    show ∃ y, (s.store.set b).get? k = some y ∧ _
    rw [Store.get?_set]
    by_cases hk : k = b.key
    · subst hk; rw [ha] at hx; cases hx
      exact ⟨b, by simp [ha], hab⟩
    · refine ⟨x, by simp [hk, hx], hl x ?_⟩
      rw [Store.get?_key hx]; exact hk
  new := by
    intro k y h h'
    have : (s.store.set b).get? k = some y := h'
    rw [Store.get?_set, h] at this
    split at this <;> cases this
  mark := hm.symm
  pres := by intro l' k e hk _; rw [hp l' k e hk, ha]; rfl
  goneAbs := by intro k e; exact absurd e (hng k)

theorem Store.set_absent {st : Store} {b : Stream} (h : st.get? b.key = none) : st.set b = st := by
  unfold Store.set
  have : ∀ x ∈ st.slab, (if x.key == b.key then b else x) = x := by
    intro x hx
    have := List.find?_eq_none.mp h x hx
    simp at this
    simp [this]
  rw [List.map_congr_left this]; simp

theorem setStream_absent {s : Streams} {b : Stream} (h : s.store.get? b.key = none) : s.setStream b = s := by
  unfold Streams.setStream; rw [Store.set_absent h]

theorem panic_marker (s : Streams) (m : String) : marker (s.panic m) = marker s := by
  unfold Streams.panic; split <;> rfl

theorem El.panic (s : Streams) (m : String) : El none s (s.panic m) :=
  .of_store_eq (by unfold Streams.panic; split <;> rfl) (panic_marker s m)

/-- `modStream` as a (possibly labelled) step -/
theorem El.modStream {l : Option Lbl} (s : Streams) (k : Nat) (f : Stream → Stream)
    (hf : ∀ a, s.store.get? k = some a → ES l a (f a))
    (hl : ∀ x : Stream, x.key ≠ k → ES l x x) (hm : markEff l (marker s) = marker s)
    (hp : ∀ l' j, l = some l' → l'.key? = some j → j = k) (hng : ∀ k, l ≠ some (.gone k)) :
    (s.store.get? k).isSome = true → El l s (s.modStream k f) := by
  intro hs
  obtain ⟨a, ha⟩ := Option.isSome_iff_exists.mp hs
  unfold Streams.modStream; rw [ha]
  have h := hf a ha
  have hk : (f a).key = k := by rw [h.key]; exact Store.get?_key ha
  exact El.setStream (by rw [hk]; exact ha) h (by rw [hk]; exact hl) hm (by rw [hk]; exact hp) hng

theorem modStream_absent {s : Streams} {k : Nat} (f : Stream → Stream) (h : s.store.get? k = none) :
    s.modStream k f = s.panic s!"dangling store key {k}" := by
  unfold Streams.modStream; rw [h]

end H2V.Lemmas.ConnFidP
