import Lean.Elab.Tactic
import H2V.Lemmas.ConnFlowPBase
/-
  ConnFlowP, part 2 — `Fr` for the primitives of `ConnStore.lean` (store, queues, counters, wakers,
  `transition_after`) and the tactic `fr_step` that peels them off a composite function.
-/
namespace H2V.Lemmas.ConnFlowP
open H2V H2V.Model H2V.Model.Conn

-- ===================================================================== Stream methods keep key / send flow

theorem NoFlow.id : NoFlow (fun x => x) := fun _ => ⟨rfl, rfl⟩

theorem NoFlow.comp {f g : Stream → Stream} (hf : NoFlow f) (hg : NoFlow g) : NoFlow (fun x => f (g x)) :=
  fun x => ⟨(hf (g x)).1.trans (hg x).1, (hf (g x)).2.trans (hg x).2⟩

theorem noFlow_setQueued (q : QName) (v : Bool) : NoFlow (fun st => st.setQueued q v) := by
  intro x; cases q <;> exact ⟨rfl, rfl⟩

theorem noFlow_waitSend (tag : String) : NoFlow (fun st => st.waitSend tag) := fun _ => ⟨rfl, rfl⟩
theorem noFlow_waitOpen (tag : String) : NoFlow (fun st => st.waitOpen tag) := fun _ => ⟨rfl, rfl⟩

theorem notifySend_kf (x : Stream) : x.notifySend.1.key = x.key ∧ x.notifySend.1.sendFlow = x.sendFlow := by
  unfold Stream.notifySend
  cases x.sendTask <;> dsimp only <;> split <;> exact ⟨rfl, rfl⟩

theorem notifyRecv_kf (x : Stream) : x.notifyRecv.1.key = x.key ∧ x.notifyRecv.1.sendFlow = x.sendFlow := by
  unfold Stream.notifyRecv
  split <;> exact ⟨rfl, rfl⟩

theorem notifyPush_kf (x : Stream) : x.notifyPush.1.key = x.key ∧ x.notifyPush.1.sendFlow = x.sendFlow := by
  unfold Stream.notifyPush
  split <;> exact ⟨rfl, rfl⟩

theorem notifyCapacity_kf (x : Stream) :
    x.notifyCapacity.1.key = x.key ∧ x.notifyCapacity.1.sendFlow = x.sendFlow := by
  unfold Stream.notifyCapacity
  exact notifySend_kf _

theorem noFlowW_notifySend : NoFlowW Stream.notifySend := notifySend_kf
theorem noFlowW_notifyRecv : NoFlowW Stream.notifyRecv := notifyRecv_kf
theorem noFlowW_notifyPush : NoFlowW Stream.notifyPush := notifyPush_kf
theorem noFlowW_notifyCapacity : NoFlowW Stream.notifyCapacity := notifyCapacity_kf

theorem setReset_kf (x : Stream) (r : Reason) (i : Initiator) :
    (x.setReset r i).1.key = x.key ∧ (x.setReset r i).1.sendFlow = x.sendFlow := by
  unfold Stream.setReset
  simp only
  have h1 := notifySend_kf { x with state := x.state.setReset x.id r i }
  have h2 := notifyPush_kf ({ x with state := x.state.setReset x.id r i } : Stream).notifySend.1
  have h3 := notifyRecv_kf (({ x with state := x.state.setReset x.id r i } : Stream).notifySend.1).notifyPush.1
  exact ⟨h3.1.trans (h2.1.trans h1.1), h3.2.trans (h2.2.trans h1.2)⟩

theorem noFlowW_setReset (r : Reason) (i : Initiator) : NoFlowW (fun st => st.setReset r i) :=
  fun x => setReset_kf x r i

-- ===================================================================== primitives that do not touch the store

section
variable {s t : Streams}

theorem Fr.panic (h : Fr s t) (m : String) : Fr s (t.panic m) := by
  refine h.of_same ?_ ?_ ?_ <;> (unfold Streams.panic; split <;> rfl)

theorem Fr.unsup (h : Fr s t) (m : String) : Fr s (t.unsup m) := by
  refine h.of_same ?_ ?_ ?_ <;> (unfold Streams.unsup; split <;> rfl)

theorem Fr.wake (h : Fr s t) (w : List String) : Fr s (t.wake w) := h.of_same rfl rfl rfl

theorem Fr.notifyTask (h : Fr s t) : Fr s t.notifyTask := by
  refine h.of_same ?_ ?_ ?_ <;> (unfold Streams.notifyTask; split <;> rfl)

theorem Fr.modRecv (h : Fr s t) (f : Recv → Recv) : Fr s (t.modRecv f) := h.of_same rfl rfl rfl

theorem Fr.modCounts (h : Fr s t) (f : Counts → Counts) : Fr s (t.modCounts f) := h.of_same rfl rfl rfl

theorem Fr.modCountsA (h : Fr s t) (w : String) (f : Counts → Option Counts) : Fr s (t.modCountsA w f) := by
  unfold Streams.modCountsA
  split
  · exact h.of_same rfl rfl rfl
  · exact h.panic _

theorem Fr.modSend (h : Fr s t) (f : Send → Send) (hf : ∀ sd, (f sd).prioritize = sd.prioritize) :
    Fr s (t.modSend f) := by
  refine h.of_same rfl ?_ ?_
  · show (f t.actions.send).prioritize.flow = _; rw [hf]; rfl
  · show (f t.actions.send).prioritize.maxBufferSize = _; rw [hf]; rfl

theorem Fr.modPrio (h : Fr s t) (f : Prioritize → Prioritize)
    (hf : ∀ p, (f p).flow = p.flow ∧ (f p).maxBufferSize = p.maxBufferSize) : Fr s (t.modPrio f) :=
  h.of_same rfl (hf _).1 (hf _).2

theorem Fr.setQ (h : Fr s t) (q : QName) (l : List Nat) : Fr s (t.setQ q l) := by
  cases q <;> exact h.of_same rfl rfl rfl

/-- record updates of the non-store, non-send fields -/
theorem Fr.withCounts (h : Fr s t) (c : Counts) : Fr s { t with counts := c } := h.of_same rfl rfl rfl
theorem Fr.withRefs (h : Fr s t) (n : Nat) : Fr s { t with refs := n } := h.of_same rfl rfl rfl
theorem Fr.withWakes (h : Fr s t) (w : List String) : Fr s { t with wakes := w } := h.of_same rfl rfl rfl
theorem Fr.withConnError (h : Fr s t) (e : Option PErr) :
    Fr s { t with actions := { t.actions with connError := e } } := h.of_same rfl rfl rfl
theorem Fr.withTask (h : Fr s t) (e : Option String) :
    Fr s { t with actions := { t.actions with task := e } } := h.of_same rfl rfl rfl

-- ===================================================================== store primitives

theorem Fr.setStream_of (h : Fr s t) (st' : Stream)
    (hk : ∀ x ∈ t.store.slab, x.key = st'.key → x.sendFlow = st'.sendFlow) : Fr s (t.setStream st') :=
  h.of_store (StoreFr.set _ _ hk) rfl rfl

/-- `modStream` with an update that keeps key and send flow -/
theorem Fr.modStream (h : Fr s t) (id : Nat) (f : Stream → Stream) (hf : NoFlow f) : Fr s (t.modStream id f) := by
  unfold Streams.modStream
  split
  · rename_i st hget
    refine h.trans ⟨rfl, rfl, ?_⟩
    intro hk
    have hm := get?_mem hget
    refine StoreFr.set _ _ ?_ hk
    intro x hx hxk
    have : x = st := key_inj hk.1 hx hm.1 (hxk.trans (hf st).1)
    rw [this, (hf st).2]
  · exact h.panic _

theorem Fr.modStreamW (h : Fr s t) (id : Nat) (f : Stream → Stream × List String) (hf : NoFlowW f) :
    Fr s (t.modStreamW id f) := by
  unfold Streams.modStreamW
  split
  · rename_i st hget
    show Fr s ((t.setStream (f st).1).wake (f st).2)
    refine Fr.wake (t := t.setStream (f st).1) (h.trans ⟨rfl, rfl, ?_⟩) _
    intro hk
    have hm := get?_mem hget
    refine StoreFr.set _ _ ?_ hk
    intro x hx hxk
    have : x = st := key_inj hk.1 hx hm.1 (hxk.trans (hf st).1)
    rw [this, (hf st).2]
  · exact h.panic _

theorem Fr.withStoreUnlink (h : Fr s t) (id : Nat) : Fr s { t with store := t.store.unlink id } :=
  h.of_store (StoreFr.unlink _ _) rfl rfl

theorem Fr.withStoreRemove (h : Fr s t) (k : Nat) : Fr s { t with store := t.store.remove k } :=
  h.of_store (StoreFr.remove _ _) rfl rfl

theorem Fr.withStoreUnlinkRemove (h : Fr s t) (id k : Nat) :
    Fr s { t with store := (t.store.unlink id).remove k } :=
  h.of_store ((StoreFr.unlink _ _).trans (StoreFr.remove _ _)) rfl rfl

theorem Fr.withStoreRemoveLeak (h : Fr s t) (k n : Nat) :
    Fr s { t with store := t.store.remove k, recvBufferLeaked := n } :=
  h.of_store (StoreFr.remove _ _) rfl rfl

theorem Fr.withStoreInsert (h : Fr s t) (st : Stream) (hf : Fresh st) :
    Fr s { t with store := (t.store.insert st).1 } :=
  h.of_store (StoreFr.insert _ _ hf) rfl rfl

-- ===================================================================== queues

theorem Fr.qPush (h : Fr s t) (q : QName) (id : Nat) : Fr s (t.qPush q id).1 := by
  unfold Streams.qPush
  split
  · exact h
  · exact (h.modStream id _ (noFlow_setQueued q true)).setQ q _

theorem Fr.qPushFront (h : Fr s t) (q : QName) (id : Nat) : Fr s (t.qPushFront q id).1 := by
  unfold Streams.qPushFront
  split
  · exact h
  · exact (h.modStream id _ (noFlow_setQueued q true)).setQ q _

theorem Fr.qPop (h : Fr s t) (q : QName) : Fr s (t.qPop q).1 := by
  unfold Streams.qPop
  split
  · exact h
  · exact (h.setQ q _).modStream _ _ (noFlow_setQueued q false)

theorem Fr.qPop_eq {t' : Streams} {r : Option Nat} {q : QName} (he : t.qPop q = (t', r)) (h : Fr s t) : Fr s t' := by
  have := h.qPop q; rw [he] at this; exact this

theorem Fr.qPush_eq {t' : Streams} {r : Bool} {q : QName} {id : Nat} (he : t.qPush q id = (t', r)) (h : Fr s t) :
    Fr s t' := by
  have := h.qPush q id; rw [he] at this; exact this

end

-- side condition first: `apply …; (· noflow)` (a `refine` with holes cannot be used when the source
-- state of the goal is still a metavariable)
section
variable {s t : Streams}
theorem Fr.modStream' {id : Nat} {f : Stream → Stream} (hf : NoFlow f) (h : Fr s t) : Fr s (t.modStream id f) :=
  h.modStream id f hf
theorem Fr.modStreamW' {id : Nat} {f : Stream → Stream × List String} (hf : NoFlowW f) (h : Fr s t) :
    Fr s (t.modStreamW id f) := h.modStreamW id f hf
theorem Fr.modSend' {f : Send → Send} (hf : ∀ sd, (f sd).prioritize = sd.prioritize) (h : Fr s t) :
    Fr s (t.modSend f) := h.modSend f hf
theorem Fr.modPrio' {f : Prioritize → Prioritize}
    (hf : ∀ p, (f p).flow = p.flow ∧ (f p).maxBufferSize = p.maxBufferSize) (h : Fr s t) : Fr s (t.modPrio f) :=
  h.modPrio f hf
/-- a state that a `match f … with | (t', r) => …` bound: go back to `(f …).1` -/
theorem Fr.of_fst_eq {α : Type} {p : Streams × α} {t' : Streams} {r : α} (he : p = (t', r)) (h : Fr s p.1) : Fr s t' := by
  subst he; exact h
theorem Fr.qPop_eq' {t' : Streams} {r : Option Nat} {q : QName} (he : t.qPop q = (t', r)) (h : Fr s t) : Fr s t' :=
  Fr.qPop_eq he h
theorem Fr.qPush_eq' {t' : Streams} {r : Bool} {q : QName} {id : Nat} (he : t.qPush q id = (t', r)) (h : Fr s t) :
    Fr s t' := Fr.qPush_eq he h
end

-- ===================================================================== the tactic

/-- side conditions `NoFlow f` / `NoFlowW f` -/
syntax "noflow" : tactic
macro_rules | `(tactic| noflow) => `(tactic| first
  | (intro _; exact ⟨rfl, rfl⟩)
  | exact noFlow_setQueued _ _
  | exact noFlow_waitSend _
  | exact noFlow_waitOpen _
  | exact noFlowW_notifySend
  | exact noFlowW_notifyRecv
  | exact noFlowW_notifyPush
  | exact noFlowW_notifyCapacity
  | exact noFlowW_setReset _ _)

open Lean Elab Tactic Meta in
/-- succeeds when the goal is `Fr s (Streams.mk …)` syntactically (structure eta would otherwise let
    the record-update lemmas match anything) -/
elab "guard_mk" : tactic => do
  let g ← instantiateMVars (← getMainTarget)
  unless g.isApp && g.appArg!.consumeMData.getAppFn.isConstOf ``Streams.mk do
    throwError "guard_mk: not a record update"

open Lean Elab Tactic Meta in
/-- the opposite of `guard_mk` -/
elab "guard_not_mk" : tactic => do
  let g ← instantiateMVars (← getMainTarget)
  if g.isApp && g.appArg!.consumeMData.getAppFn.isConstOf ``Streams.mk then
    throwError "guard_not_mk: a record update"

open Lean Elab Tactic Meta in
/-- succeeds when the last argument of the goal is an application of the constant `c` -/
elab "guard_last_arg " c:ident : tactic => do
  let g ← instantiateMVars (← getMainTarget)
  let n ← realizeGlobalConstNoOverloadWithInfo c
  unless g.isApp && g.appArg!.consumeMData.getAppFn.isConstOf n do
    throwError "guard_last_arg: head is not {n}"

/-- one primitive off the outside of the goal `Fr s (prim … t …)` (extended in later files) -/
syntax "fr_peel" : tactic
macro_rules | `(tactic| fr_peel) => `(tactic| first
  | with_reducible apply Fr.panic
  | with_reducible apply Fr.unsup
  | with_reducible apply Fr.wake
  | with_reducible apply Fr.notifyTask
  | with_reducible apply Fr.modRecv
  | with_reducible apply Fr.modCounts
  | with_reducible apply Fr.modCountsA
  | with_reducible apply Fr.setQ
  | (guard_mk; with_reducible apply Fr.withCounts)
  | (guard_mk; with_reducible apply Fr.withRefs)
  | (guard_mk; with_reducible apply Fr.withWakes)
  | (guard_mk; with_reducible apply Fr.withConnError)
  | (guard_mk; with_reducible apply Fr.withTask)
  | (guard_mk; with_reducible apply Fr.withStoreUnlink)
  | (guard_mk; with_reducible apply Fr.withStoreRemove)
  | (guard_mk; with_reducible apply Fr.withStoreUnlinkRemove)
  | (guard_mk; with_reducible apply Fr.withStoreRemoveLeak)
  | with_reducible apply Fr.qPush
  | with_reducible apply Fr.qPushFront
  | with_reducible apply Fr.qPop
  | (with_reducible apply Fr.modStream'; (· noflow))
  | (with_reducible apply Fr.modStreamW'; (· noflow))
  | (with_reducible apply Fr.modSend'; (· exact fun _ => rfl))
  | (with_reducible apply Fr.modPrio'; (· exact fun _ => ⟨rfl, rfl⟩)))

set_option hygiene false in
/-- inside an induction on fuel: the hypothesis must be called `ih` -/
macro "apply_ih" : tactic => `(tactic| with_reducible apply ih)

/-- close the goal, or peel one primitive -/
macro "fr_prim" : tactic => `(tactic| first
  | with_reducible assumption
  | with_reducible exact Fr.refl _
  | fr_peel
  | apply_ih
  | (with_reducible apply Fr.of_fst_eq; (· with_reducible assumption)))

/-- peel primitives, split `if`/`match`, until nothing is left -/
macro "fr_auto" : tactic => `(tactic| repeat' (first | fr_prim | split | dsimp only))

-- ===================================================================== counters, transition_after

section
variable {s t : Streams}

theorem Fr.incNumSendStreams (h : Fr s t) (id : Nat) : Fr s (t.incNumSendStreams id) := by
  unfold Streams.incNumSendStreams; dsimp only; fr_auto

theorem Fr.incNumRecvStreams (h : Fr s t) (id : Nat) : Fr s (t.incNumRecvStreams id) := by
  unfold Streams.incNumRecvStreams; dsimp only; fr_auto

theorem Fr.decNumStreams (h : Fr s t) (id : Nat) : Fr s (t.decNumStreams id) := by
  unfold Streams.decNumStreams; dsimp only; fr_auto

macro_rules | `(tactic| fr_peel) => `(tactic| first
  | with_reducible apply Fr.incNumSendStreams
  | with_reducible apply Fr.incNumRecvStreams
  | with_reducible apply Fr.decNumStreams)

theorem Fr.transitionAfter (h : Fr s t) (id : Nat) (b : Bool) : Fr s (t.transitionAfter id b) := by
  unfold Streams.transitionAfter; dsimp only; fr_auto

macro_rules | `(tactic| fr_peel) => `(tactic| with_reducible apply Fr.transitionAfter)

end

end H2V.Lemmas.ConnFlowP
