import H2V.Lemmas.ConnFlowPReq
/-
  ConnFlowP, part 18 — `ReqOk` through `pop_frame`, `buffer_pending`, the resets, SETTINGS.
-/
namespace H2V.Lemmas.ConnFlowP
open H2V H2V.Model H2V.Model.Conn H2V.Lemmas.Comp

-- ===================================================================== pop_frame

theorem sendDataC_req (capf : Stream → Nat → Nat) (x : Stream) (len m : Nat) :
    (sendDataC capf x len m).1.requestedSendCapacity < 4294967296 := by
  rw [sendDataC_def]; dsimp only; split
  · rw [notifyCapacity_req]; exact wrapSubU32_lt _ _
  · exact wrapSubU32_lt _ _

theorem sendData_req (x : Stream) (len m : Nat) : (x.sendData len m).1.requestedSendCapacity < 4294967296 := by
  rw [sendDataC.eq]; exact sendDataC_req _ x len m

section
variable {t : Streams}

theorem ReqOk.setStream_lt {st : Stream} (hst : st.requestedSendCapacity < 4294967296) (h : ReqOk t) :
    ReqOk (t.setStream st) := by
  intro y hy
  simp only [Streams.setStream, Store.set, List.mem_map] at hy
  obtain ⟨x, hx, rfl⟩ := hy
  split
  · exact hst
  · exact h x hx

theorem ReqOk.emitC {sd : Stream → Nat → Nat → Stream × List String × Bool}
    (hsd : ∀ x len m, (sd x len m).1.requestedSendCapacity < 4294967296) (h : ReqOk t) (id len : Nat)
    (rest : List SFrame) : ReqOk (emitC sd t id len rest) := by
  refine ReqOk.same (s := (t.modStream id fun st => { st with pendingSend := rest }).setStream
    (sd ((t.modStream id fun st => { st with pendingSend := rest }).stream id) len
      (t.modStream id fun st => { st with pendingSend := rest }).prio.maxBufferSize).1) ?_ ?_
  · exact ReqOk.setStream_lt (hsd _ _ _) (h.modStream _ _ (fun _ => rfl))
  · rw [emitC_store]; rfl

theorem ReqOk.popFrameC {sd : Stream → Nat → Nat → Stream × List String × Bool}
    (hsd : ∀ x len m, (sd x len m).1.requestedSendCapacity < 4294967296) (fuel : Nat) :
    ∀ {t : Streams}, ReqOk t → ∀ maxLen, ReqOk (popFrameC sd fuel t maxLen).1 := by
  induction fuel with
  | zero => intro t h m; rw [popFrameC_zero]; exact h
  | succ n ih =>
    intro t h maxLen
    rw [popFrameC_succ']
    dsimp only
    req_auto
    all_goals (refine ReqOk.emitC hsd ?_ _ _ _; req_auto)

theorem ReqOk.popFrame (h : ReqOk t) (fuel maxLen : Nat) : ReqOk (Streams.popFrame fuel t maxLen).1 := by
  rw [popFrameC.eq]; exact ReqOk.popFrameC sendData_req fuel h maxLen
macro_rules | `(tactic| req_peel) => `(tactic| with_reducible apply ReqOk.popFrame)

theorem ReqOk.prioBufferPendingLoop (fuel : Nat) :
    ∀ {t : Streams}, ReqOk t → ∀ w, ReqOk (Streams.prioBufferPendingLoop fuel t w).1 := by
  induction fuel with
  | zero => intro t h w; unfold Streams.prioBufferPendingLoop; req_auto
  | succ n ih => intro t h w; unfold Streams.prioBufferPendingLoop; dsimp only; req_auto
macro_rules | `(tactic| req_peel) => `(tactic| with_reducible apply ReqOk.prioBufferPendingLoop)

theorem ReqOk.prioBufferPending (h : ReqOk t) (fuel : Nat) (w : Writer) : ReqOk (Streams.prioBufferPending fuel t w).1 := by
  req_by Streams.prioBufferPending
macro_rules | `(tactic| req_peel) => `(tactic| with_reducible apply ReqOk.prioBufferPending)

theorem ReqOk.sendSendReset (h : ReqOk t) (id : Nat) (r : Reason) (i : Initiator) : ReqOk (t.sendSendReset id r i) := by
  req_by Streams.sendSendReset
macro_rules | `(tactic| req_peel) => `(tactic| with_reducible apply ReqOk.sendSendReset)

theorem ReqOk.scheduleImplicitReset (h : ReqOk t) (id : Nat) (r : Reason) : ReqOk (t.scheduleImplicitReset id r) := by
  req_by Streams.scheduleImplicitReset
macro_rules | `(tactic| req_peel) => `(tactic| with_reducible apply ReqOk.scheduleImplicitReset)

theorem ReqOk.sendTrailers (h : ReqOk t) (id : Nat) (f : List Hpack.Field) : ReqOk (t.sendTrailers id f).1 := by
  req_by Streams.sendTrailers
macro_rules | `(tactic| req_peel) => `(tactic| with_reducible apply ReqOk.sendTrailers)

theorem ReqOk.sendHandleError (h : ReqOk t) (id : Nat) : ReqOk (t.sendHandleError id) := by
  req_by Streams.sendHandleError
macro_rules | `(tactic| req_peel) => `(tactic| with_reducible apply ReqOk.sendHandleError)

theorem ReqOk.sendRecvStreamWindowUpdate (h : ReqOk t) (id inc : Nat) : ReqOk (t.sendRecvStreamWindowUpdate id inc).1 := by
  req_by Streams.sendRecvStreamWindowUpdate
macro_rules | `(tactic| req_peel) => `(tactic| with_reducible apply ReqOk.sendRecvStreamWindowUpdate)

end

-- ===================================================================== for_each, SETTINGS

theorem ReqOk.tryForEach (f : Streams → Nat → Streams × Option PErr)
    (hf : ∀ t id, ReqOk t → ReqOk (f t id).1) (fuel : Nat) :
    ∀ (i len : Nat) {t : Streams}, ReqOk t → ReqOk (Streams.tryForEach f fuel i len t).1 := by
  induction fuel with
  | zero => intro i len t h; exact h
  | succ n ih =>
    intro i len t h
    unfold Streams.tryForEach
    split
    · split
      · exact h.panic _
      · rename_i id _
        have := hf t id h
        split
        · rename_i heq; rw [heq] at this; exact this
        · rename_i heq; rw [heq] at this
          dsimp only
          split
          · exact ih _ _ this
          · exact ih _ _ this
    · exact h

theorem ReqOk.storeTryForEach' {t : Streams} {f : Streams → Nat → Streams × Option PErr}
    (hf : ∀ t id, ReqOk t → ReqOk (f t id).1) (h : ReqOk t) : ReqOk (t.storeTryForEach f).1 := by
  unfold Streams.storeTryForEach; exact ReqOk.tryForEach f hf _ _ _ h

theorem ReqOk.storeForEach' {t : Streams} {f : Streams → Nat → Streams}
    (hf : ∀ t id, ReqOk t → ReqOk (f t id)) (h : ReqOk t) : ReqOk (t.storeForEach f) := by
  unfold Streams.storeForEach; exact ReqOk.storeTryForEach' (fun t id ht => hf t id ht) h

macro_rules | `(tactic| req_peel) => `(tactic| first
  | (with_reducible apply ReqOk.storeTryForEach'; (· intro _ _ _; (try unfold Streams.transition); (try dsimp only); req_auto))
  | (with_reducible apply ReqOk.storeForEach'; (· intro _ _ _; (try unfold Streams.transition); (try dsimp only); req_auto)))

theorem ReqOk.decStreamWindow {t : Streams} (h : ReqOk t) (dec acc id : Nat) :
    ReqOk (Streams.decStreamWindow dec acc t id).1 := by
  req_by Streams.decStreamWindow

theorem ReqOk.tryForEachAcc (dec : Nat) (fuel : Nat) :
    ∀ (i len acc : Nat) {t : Streams}, ReqOk t →
      ReqOk (Streams.tryForEachAcc (Streams.decStreamWindow dec) fuel i len acc t).1 := by
  induction fuel with
  | zero => intro i len acc t h; exact h
  | succ n ih =>
    intro i len acc t h
    unfold Streams.tryForEachAcc
    split
    · split
      · exact h.panic _
      · rename_i id _
        have := h.decStreamWindow dec acc id
        split
        · rename_i heq; rw [heq] at this; exact this
        · rename_i heq; rw [heq] at this
          dsimp only
          split
          · exact ih _ _ _ this
          · exact ih _ _ _ this
    · exact h
macro_rules | `(tactic| req_peel) => `(tactic| with_reducible apply ReqOk.tryForEachAcc)

theorem ReqOk.sendApplyRemoteSettings {t : Streams} (h : ReqOk t) (a b c : Option Nat) :
    ReqOk (t.sendApplyRemoteSettings a b c).1 := by
  req_by Streams.sendApplyRemoteSettings
macro_rules | `(tactic| req_peel) => `(tactic| with_reducible apply ReqOk.sendApplyRemoteSettings)

end H2V.Lemmas.ConnFlowP
