import H2V.Lemmas.ConnNoPanicPConnStep
/-
  C08 (no panic) — connection layer, part 3: `Settings::recv_settings` and `DynConnection::recv_frame`
  as histories.  Under the connection invariant, after `poll_ready` answered `Ready(Ok)` (no refused
  stream, no SETTINGS unanswered, no PONG owed) and while `close_now` is unset, `recv_frame` records no
  panic of the connection layer and every call into `streams` satisfies `ConnP`.
-/
namespace H2V.Lemmas.ConnNoPanicP
open H2V H2V.Model H2V.Model.Conn
open H2V.Lemmas.ConnResetP (Op run)
open H2V.Lemmas.ConnCtlP (GoAwayInv Keep15 Step15 GaLe gaLast view)

-- ===================================================================== recv_settings

theorem applyLocalToReader_need (r : CodecRead.Reader) (loc : List (Nat × Nat)) :
    (ConnCtlP.applyLocalToReader r loc).need = r.need := by
  unfold ConnCtlP.applyLocalToReader
  dsimp only
  cases List.find? (fun x => decide (x.fst = 5)) loc <;> cases List.find? (fun x => decide (x.fst = 6)) loc <;>
    cases List.find? (fun x => decide (x.fst = 1)) loc <;>
    simp [CodecRead.Reader.setMaxFrameSize, CodecRead.Reader.setMaxHeaderListSize]

/-- **`Settings::recv_settings`**: the peer's ACK runs `apply_local_settings`; a SETTINGS frame is only
    remembered (the `assert!(self.remote.is_none())` holds after `poll_ready`) -/
theorem recvSettings_cs {X : String → Prop} {c : Conn} (hi : GoAwayInv c) (ack : Bool) (vals : List (Nat × Nat))
    (hrem : ack = false → c.settings.remote = none) (hv : ack = false → ConnFlowP.SettingsOk vals) :
    CS X c (c.recvSettings ack vals).1 := by
  have k := (ConnCtlP.recvSettings_keep c ack vals).step hi
  refine ⟨⟨k.1, k.2, ?_, ?_⟩, ?_⟩
  all_goals
    cases ack with
    | false =>
      rw [ConnCtlP.recvSettings_nonack c vals (hrem rfl)]
      first
        | exact fun p hp => ⟨p, hp, rfl⟩
        | exact fun hn => ⟨hn.max, hn.need, hn.loc, fun v h => by injection h with h; subst h; exact hv rfl⟩
        | exact .refl
    | true =>
      cases hl : c.settings.loc with
      | waitingAck loc =>
        rw [ConnCtlP.recvSettings_ack_eq c vals loc hl]
        dsimp only
        rcases hs : c.streams.applyLocalSettingsFrame loc with ⟨s, r⟩
        first
          | (cases r <;> exact fun p hp => ⟨p, hp, rfl⟩)
          | (cases r <;> exact HistW.toX (.op1 (.applyLocalSettingsFrame loc) trivial rfl
              (by show s = (c.streams.applyLocalSettingsFrame loc).1; rw [hs]) rfl))
          | (intro hn
             have hmax : (ConnCtlP.applyLocalToReader c.codec.r loc).maxFrameLen ≤ 16777215 := by
               rw [(ConnCtlP.applyLocalToReader_spec c.codec.r loc).1]
               cases hg : ConnCtlP.getS loc 5 with
               | none => exact hn.max
               | some m => exact hn.loc loc m (Or.inr hl) hg
             have hneed : ∀ n, (ConnCtlP.applyLocalToReader c.codec.r loc).need = some n → n ≤ 16777224 := by
               rw [applyLocalToReader_need]; exact hn.need
             cases r with
             | error e => exact ⟨hmax, hneed, hn.loc, hn.rem⟩
             | ok u => exact ⟨hmax, hneed, (fun v m hv => by rcases hv with hv | hv <;> cases hv), hn.rem⟩)
      | toSend l =>
        rw [ConnCtlP.recvSettings_ack_unsolicited c vals (by intro l' h; rw [hl] at h; cases h)]
        first | exact fun p hp => ⟨p, hp, rfl⟩ | exact id | exact .refl
      | synced =>
        rw [ConnCtlP.recvSettings_ack_unsolicited c vals (by intro l' h; rw [hl] at h; cases h)]
        first | exact fun p hp => ⟨p, hp, rfl⟩ | exact id | exact .refl

theorem recvSettings_settings_goAway (c : Conn) (ack : Bool) (vals : List (Nat × Nat)) :
    (c.recvSettings ack vals).1.goAway = c.goAway := (ConnCtlP.recvSettings_keep c ack vals).1

-- ===================================================================== recv_ping

/-- `PingPong::recv_ping` with no PONG owed and a pending PING that can only be the shutdown PING: both
    `assert!`s hold; `Shutdown` is answered only to the ACK of the pending PING; the pending PING is kept or dropped -/
theorem recvPing_spec (p : PingPong) (ack : Bool) (payload : Bytes) (hpp : p.pendingPong = none)
    (hq : ∀ q, p.pendingPing = some q → q.payload = Generated.Consts.PING_SHUTDOWN_PAYLOAD) :
    (p.recvPing ack payload).2.2.2 = true ∧
    ((p.recvPing ack payload).2.1 = .shutdown → p.pendingPing.isSome = true) ∧
    ((p.recvPing ack payload).1.pendingPing = none ∨ (p.recvPing ack payload).1.pendingPing = p.pendingPing) := by
  unfold PingPong.recvPing
  rw [hpp]
  dsimp only
  cases ack with
  | false =>
    simp only [Bool.false_eq_true, if_false]
    exact ⟨rfl, (fun h => by cases h), Or.inr trivial⟩
  | true =>
    simp only [if_true]
    cases hpq : p.pendingPing with
    | none =>
      dsimp only
      (repeat' split) <;> exact ⟨rfl, (fun h => by cases h), Or.inr (by first | exact hpq | rfl)⟩
    | some q =>
      dsimp only
      by_cases he : (q.payload == payload) = true
      · rw [if_pos he]
        dsimp only
        refine ⟨?_, fun _ => rfl, Or.inl rfl⟩
        rw [hq q hpq]; rfl
      · rw [if_neg he]
        dsimp only
        (repeat' split) <;> exact ⟨rfl, (fun h => by cases h), Or.inr (by first | exact hpq | rfl)⟩

-- ===================================================================== recv_frame

/-- the `lift` of `recvFrame`: one stream-layer operation -/
theorem lift_qs {c : Conn} (r : Streams × Except PErr Unit) (o : Op) (hp : ConnP c.streams o) (hu : usesWriter o = false)
    (e : r.1 = o.apply c.streams) :
    QS c (match r with
      | (s, .ok _) => (({ c with streams := s } : Conn), (Except.ok Conn.ReceivedFrame.continue : Except PErr Conn.ReceivedFrame))
      | (s, .error e) => ({ c with streams := s }, Except.error e)).1 := by
  rcases r with ⟨s, r⟩
  cases r <;> exact ⟨fun p hp => ⟨p, hp, rfl⟩, rfl, .of_eq rfl rfl, .op1 o hp hu e rfl⟩

/-- `recv_frame` never touches `settings` -/
theorem recvFrame_settings (c : Conn) (f : Option Frame.Frame) : (c.recvFrame f).1.settings = c.settings := by
  have lift : ∀ (r : Streams × Except PErr Unit),
      (match r with
        | (s, .ok _) => (({ c with streams := s } : Conn), (Except.ok Conn.ReceivedFrame.continue : Except PErr Conn.ReceivedFrame))
        | (s, .error e) => ({ c with streams := s }, Except.error e)).1.settings = c.settings := by
    intro r; rcases r with ⟨s, r⟩; cases r <;> rfl
  cases f with
  | none => rfl
  | some f =>
    cases f with
    | headers sid eos dep blk => exact lift _
    | data sid payload eos padLen => exact lift _
    | reset sid code => exact lift _
    | pushPromise sid promised blk => exact lift _
    | windowUpdate sid inc => exact lift _
    | priority sid dep w e => rfl
    | settings ack vals => rfl
    | goAway last code debug =>
      unfold Conn.recvFrame
      dsimp only
      split <;> rfl
    | ping ack payload =>
      rw [ConnCtlP.recvFrame_ping_eq]
      unfold ConnCtlP.pingTail Conn.dynGoAway
      dsimp only
      repeat' split
      all_goals rfl

/-- `recv_frame` answers `Settings(frame)` only for a SETTINGS frame, which it hands back as it is -/
theorem recvFrame_settings_inv {c c1 : Conn} {f : Option Frame.Frame} {a : Bool} {v : List (Nat × Nat)}
    (h : c.recvFrame f = (c1, .ok (.settings a v))) : f = some (.settings a v) := by
  have h2 : (c.recvFrame f).2 = .ok (.settings a v) := by rw [h]
  have lift : ∀ (r : Streams × Except PErr Unit),
      (match r with
        | (s, .ok _) => (({ c with streams := s } : Conn), (Except.ok Conn.ReceivedFrame.continue : Except PErr Conn.ReceivedFrame))
        | (s, .error e) => ({ c with streams := s }, Except.error e)).2 = .ok (.settings a v) → False := by
    intro r hr; rcases r with ⟨s, r⟩; cases r <;> cases hr
  cases f with
  | none => cases h2
  | some f =>
    cases f with
    | headers sid eos dep blk => exact (lift _ h2).elim
    | data sid payload eos padLen => exact (lift _ h2).elim
    | reset sid code => exact (lift _ h2).elim
    | pushPromise sid promised blk => exact (lift _ h2).elim
    | windowUpdate sid inc => exact (lift _ h2).elim
    | priority sid dep w e => cases h2
    | settings ack vals => cases h2; rfl
    | goAway last code debug =>
      unfold Conn.recvFrame at h2
      dsimp only at h2
      split at h2 <;> cases h2
    | ping ack payload =>
      rw [ConnCtlP.recvFrame_ping_eq] at h2
      unfold ConnCtlP.pingTail at h2
      split at h2 <;> cases h2

/-- **`DynConnection::recv_frame`** after `poll_ready` answered `Ready(Ok)`: one stream-layer operation per frame
    (PING: `wake`, then `Recv::go_away(last_processed_id)` for the ACK of the shutdown PING), each satisfying
    `ConnP`; no panic of the connection layer -/
theorem recvFrame_qs {c : Conn} (hc : ConnOK c) (href : c.streams.recv.refused = none)
    (hpp : c.pingPong.pendingPong = none) (f : Option Frame.Frame) (hf : ∀ g, f = some g → WireOK g) :
    QS c (c.recvFrame f).1 := by
  cases f with
  | none => exact ⟨fun p hp => ⟨p, hp, rfl⟩, rfl, .of_eq rfl rfl, .op1 (.recvEof false) rfl rfl rfl rfl⟩
  | some f =>
    have hw := hf f rfl
    cases f with
    | headers sid eos dep blk => exact lift_qs _ (.recvHeaders _) href rfl rfl
    | data sid payload eos padLen => exact lift_qs _ (.recvData sid payload eos padLen) hw rfl rfl
    | reset sid code => exact lift_qs _ (.recvReset sid code) trivial rfl rfl
    | pushPromise sid promised blk => exact lift_qs _ (.recvPushPromise sid _) href rfl rfl
    | windowUpdate sid inc => exact lift_qs _ (.recvWindowUpdate sid inc) hw rfl rfl
    | priority sid dep w e => exact .refl c
    | settings ack vals => exact .refl c
    | goAway last code debug =>
      unfold Conn.recvFrame
      dsimp only
      rcases hr : c.streams.recvGoAwayFrame last code debug with ⟨s, r⟩
      cases r <;> exact ⟨fun p hp => ⟨p, hp, rfl⟩, rfl, .of_eq rfl rfl, .op1 (.recvGoAwayFrame last code debug) trivial rfl
        (by show s = (c.streams.recvGoAwayFrame last code debug).1; rw [hr]) rfl⟩
    | ping ack payload =>
      rw [ConnCtlP.recvFrame_ping_eq]
      obtain ⟨r1, r2, r3⟩ := recvPing_spec c.pingPong ack payload hpp (fun q hq => (hc.ping q hq).1)
      dsimp only
      rw [if_pos r1]
      generalize hc0 : Conn.mk c.codec c.state c.error c.goAway (c.pingPong.recvPing ack payload).1 c.settings (c.streams.wake _) c.cx c.unsupported = c0
      have k0 : QS c c0 := by
        subst hc0
        refine ⟨fun p' hp' => ?_, rfl, .of_eq rfl rfl, .op1 (.wake _) trivial rfl rfl rfl⟩
        rcases r3 with r3 | r3
        · rw [show (c.pingPong.recvPing ack payload).1.pendingPing = none from r3] at hp'; cases hp'
        · exact ⟨p', by rw [← r3]; exact hp', rfl⟩
      have i0 : GoAwayInv c0 := by
        subst hc0
        exact hc.ga.congr rfl rfl
      have g0 : c0.goAway = c.goAway := by subst hc0; rfl
      unfold ConnCtlP.pingTail
      cases hsd : ((c.pingPong.recvPing ack payload).2.1 == ReceivedPing.shutdown) with
      | false => exact k0
      | true =>
        simp only [if_true]
        have hsome : c.pingPong.pendingPing.isSome = true := r2 (by simpa using hsd)
        have hga : c0.goAway.isGoingAway = true := by
          rw [g0]
          cases hq : c.pingPong.pendingPing with
          | none => rw [hq] at hsome; cases hsome
          | some q => exact (hc.ping q hq).2
        rw [if_pos hga]
        have d := dynGoAway_cs (X := fun _ => False) (c := c0) c0.streams.recv.lastProcessedId NO_ERROR (Nat.le_refl _)
          i0.lpi_le_max (fun ga hg => i0.lpi_le_ga ga hg)
        exact k0.trans ⟨d.ping, by rw [(dynGoAway_frame c0 _ _).2.1],
          .of_eq (by rw [(dynGoAway_frame c0 _ _).2.2]) (by rw [(dynGoAway_frame c0 _ _).2.2]), d.hist.toHistW⟩

/-- **`recv_frame` as a step of the connection** -/
theorem recvFrame_cs {X : String → Prop} {c : Conn} (hc : ConnOK c) (hcn : c.goAway.closeNow = false)
    (href : c.streams.recv.refused = none) (hpp : c.pingPong.pendingPong = none) (f : Option Frame.Frame)
    (hf : ∀ g, f = some g → WireOK g) : CS X c (c.recvFrame f).1 :=
  (recvFrame_qs hc href hpp f hf).cs (ConnCtlP.recvFrame_step15 c f hc.ga hcn)

end H2V.Lemmas.ConnNoPanicP
