import H2V.Lemmas.ConnNoPanicPTear
/-
  C08 (no panic) — part 9: `Store::try_for_each` / `for_each` (its index arithmetic never reads past the
  id map as long as the closure removes at most one entry), and the teardown functions built on it:
  `Inner::handle_error`, `Inner::recv_go_away`.
-/
namespace H2V.Lemmas.ConnNoPanicP
open H2V H2V.Model H2V.Model.Conn H2V.Lemmas.ConnCountsP

theorem swapRemove_length_ge (l : List (Nat × Nat)) (x : Nat) : l.length ≤ (Store.swapRemove l x).length + 1 := by
  unfold Store.swapRemove
  split
  · omega
  · split
    · omega
    · dsimp only; split <;> simp <;> omega

theorem transitionAfter_ids_length (s : Streams) (k : Nat) (b : Bool) :
    s.store.ids.length ≤ (s.transitionAfter k b).store.ids.length + 1 := by
  rcases ConnWakeP.transitionAfter_ids s k b with h | ⟨_, h⟩
  · rw [h]; omega
  · rw [h]; exact swapRemove_length_ge _ _

-- ===================================================================== the generic loop

/-- **`Store::try_for_each` does not index past the id map**: `I` is any invariant the closure keeps when
    called on an entry of the id map; the closure may shorten the id map by at most one entry -/
theorem tryForEach_inv {I : Streams → Prop} {f : Streams → Nat → Streams × Option PErr}
    (hf : ∀ t e, I t → e ∈ t.store.ids → I (f t e.2).1 ∧ t.store.ids.length ≤ (f t e.2).1.store.ids.length + 1) :
    ∀ (fuel i len : Nat) (s : Streams), I s → len ≤ s.store.ids.length → I (Streams.tryForEach f fuel i len s).1 := by
  intro fuel
  induction fuel with
  | zero => intro i len s h _; exact h
  | succ n ih =>
    intro i len s h hlen
    unfold Streams.tryForEach
    split
    · next hi =>
      split
      · next hn =>
        have := List.getElem?_eq_none_iff.mp hn
        omega
      · next sid id hget =>
        have hmem : (sid, id) ∈ s.store.ids := List.mem_of_getElem? hget
        have := hf s (sid, id) h hmem
        split
        · next s' e heq => rw [show f s id = f s (sid, id).2 from rfl] at heq; rw [heq] at this; exact this.1
        · next s' heq =>
          rw [show f s id = f s (sid, id).2 from rfl] at heq; rw [heq] at this
          dsimp only
          split
          · exact ih _ _ _ this.1 (by have := this.2; dsimp only at this; omega)
          · exact ih _ _ _ this.1 (by omega)
    · exact h

theorem storeTryForEach_inv {I : Streams → Prop} {f : Streams → Nat → Streams × Option PErr}
    (hf : ∀ t e, I t → e ∈ t.store.ids → I (f t e.2).1 ∧ t.store.ids.length ≤ (f t e.2).1.store.ids.length + 1)
    {s : Streams} (h : I s) : I (s.storeTryForEach f).1 :=
  tryForEach_inv hf _ _ _ s h (Nat.le_refl _)

theorem storeForEach_inv {I : Streams → Prop} {f : Streams → Nat → Streams}
    (hf : ∀ t e, I t → e ∈ t.store.ids → I (f t e.2) ∧ t.store.ids.length ≤ (f t e.2).store.ids.length + 1)
    {s : Streams} (h : I s) : I (s.storeForEach f) :=
  storeTryForEach_inv (f := fun s id => (f s id, none)) hf h

/-- the same loop with an accumulator -/
theorem tryForEachAcc_inv {I : Streams → Prop} {f : Nat → Streams → Nat → Streams × Nat × Option PErr}
    (hf : ∀ a t e, I t → e ∈ t.store.ids → I (f a t e.2).1 ∧ t.store.ids.length ≤ (f a t e.2).1.store.ids.length + 1) :
    ∀ (fuel i len acc : Nat) (s : Streams), I s → len ≤ s.store.ids.length → I (Streams.tryForEachAcc f fuel i len acc s).1 := by
  intro fuel
  induction fuel with
  | zero => intro i len acc s h _; exact h
  | succ n ih =>
    intro i len acc s h hlen
    unfold Streams.tryForEachAcc
    split
    · next hi =>
      split
      · next hn =>
        have := List.getElem?_eq_none_iff.mp hn
        omega
      · next sid id hget =>
        have hmem : (sid, id) ∈ s.store.ids := List.mem_of_getElem? hget
        have := hf acc s (sid, id) h hmem
        split
        · next s' acc' e heq => rw [show f acc s id = f acc s (sid, id).2 from rfl] at heq; rw [heq] at this; exact this.1
        · next s' acc' heq =>
          rw [show f acc s id = f acc s (sid, id).2 from rfl] at heq; rw [heq] at this
          dsimp only
          split
          · exact ih _ _ _ _ this.1 (by have := this.2; dsimp only at this; omega)
          · exact ih _ _ _ _ this.1 (by omega)
    · exact h

-- ===================================================================== instantiated with `NPI ∧ ErrOK`

/-- the invariant the teardown loops carry -/
def NPE (E : Nat → Prop) (s : Streams) : Prop := NPI E s ∧ ErrOK s

/-- `store.for_each(f)` for a closure that keeps `NPI`/`ErrOK` when called on a live key that the id map
    holds, and removes at most one id-map entry -/
theorem storeTryForEach_npe {E : Nat → Prop} {f : Streams → Nat → Streams × Option PErr}
    (hf : ∀ t k, NPI E t → ErrOK t → Live t k → (∃ e ∈ t.store.ids, e.2 = k) →
      NPI E (f t k).1 ∧ ErrOK (f t k).1 ∧ t.store.ids.length ≤ (f t k).1.store.ids.length + 1)
    {s : Streams} (h : NPI E s) (he : ErrOK s) : NPI E (s.storeTryForEach f).1 ∧ ErrOK (s.storeTryForEach f).1 :=
  storeTryForEach_inv (I := NPE E) (fun t e ht hm =>
    let r := hf t e.2 ht.1 ht.2 (ht.1.ids.live e hm).1 ⟨e, hm, rfl⟩
    ⟨⟨r.1, r.2.1⟩, r.2.2⟩) ⟨h, he⟩

theorem storeForEach_npe {E : Nat → Prop} {f : Streams → Nat → Streams}
    (hf : ∀ t k, NPI E t → ErrOK t → Live t k → (∃ e ∈ t.store.ids, e.2 = k) →
      NPI E (f t k) ∧ ErrOK (f t k) ∧ t.store.ids.length ≤ (f t k).store.ids.length + 1)
    {s : Streams} (h : NPI E s) (he : ErrOK s) : NPI E (s.storeForEach f) ∧ ErrOK (s.storeForEach f) :=
  storeTryForEach_npe (f := fun s id => (f s id, none)) hf h he

-- ===================================================================== `counts.transition` around a light closure, as a loop body

theorem transition_light_npe {E : Nat → Prop} {ρ : Bool} {α : Type} {ks : List Nat} {s : Streams} (k : Nat)
    (f : Streams → Streams × α) (h : NPI E s) (hlt : LT ks s (f s).1) (hl : LiveAll s ks)
    (e : EvB ρ s (f s).1) (hE : ρ = true → ∀ k, ¬ E k) (he : ErrOK s) :
    NPI E (s.transition k f).1 ∧ ErrOK (s.transition k f).1 ∧
      s.store.ids.length ≤ (s.transition k f).1.store.ids.length + 1 := by
  refine ⟨transition_light_npi k f h hlt hl e hE he, ?_, ?_⟩
  · have : (s.transition k f).1 = (f s).1.transitionAfter k (s.stream k).isPendingResetExpiration := by
      unfold Streams.transition; rfl
    rw [this]
    exact (transitionAfter_errSame _ _ _).errOK (hlt.err.errOK he)
  · have : (s.transition k f).1 = (f s).1.transitionAfter k (s.stream k).isPendingResetExpiration := by
      unfold Streams.transition; rfl
    rw [this, ← hlt.ids]
    exact transitionAfter_ids_length _ _ _

/-- the same for a closure that returns `()` (stated apart: the projection `((g s, ())).1` is reduced here, on an opaque `g`) -/
theorem transition_unit_npe {E : Nat → Prop} {ρ : Bool} {ks : List Nat} {s : Streams} (k : Nat)
    (g : Streams → Streams) (h : NPI E s) (hlt : LT ks s (g s)) (hl : LiveAll s ks)
    (e : EvB ρ s (g s)) (hE : ρ = true → ∀ k, ¬ E k) (he : ErrOK s) :
    NPI E (s.transition k fun s => (g s, ())).1 ∧ ErrOK (s.transition k fun s => (g s, ())).1 ∧
      s.store.ids.length ≤ (s.transition k fun s => (g s, ())).1.store.ids.length + 1 :=
  transition_light_npe k (fun s => (g s, ())) h hlt hl e hE he

theorem errClosure_npe {E : Nat → Prop} {s : Streams} (err : PErr) (k : Nat) (h : NPI E s) (he : ErrOK s) (hk : Live s k) :
    NPI E (s.transition k fun s => ((s.recvHandleError k err).sendHandleError k, ())).1 ∧
    ErrOK (s.transition k fun s => ((s.recvHandleError k err).sendHandleError k, ())).1 ∧
    s.store.ids.length ≤ (s.transition k fun s => ((s.recvHandleError k err).sendHandleError k, ())).1.store.ids.length + 1 :=
  have hlt : LT [k] s ((s.recvHandleError k err).sendHandleError k) :=
    (recvHandleError_lt s k err).trans (sendHandleError_lt _ k) (fun _ h => h)
  have hev : EvB false s ((s.recvHandleError k err).sendHandleError k) :=
    .trans (recvHandleError_ev s k err) (sendHandleError_ev _ k)
  transition_unit_npe (ρ := false) (ks := [k]) k (fun s => (s.recvHandleError k err).sendHandleError k) h
    hlt (liveAll1 hk) hev noE he

theorem eofClosure_npe {E : Nat → Prop} {s : Streams} (k : Nat) (h : NPI E s) (he : ErrOK s) (hk : Live s k) :
    NPI E (s.transition k fun s => ((s.recvRecvEof k).sendHandleError k, ())).1 ∧
    ErrOK (s.transition k fun s => ((s.recvRecvEof k).sendHandleError k, ())).1 ∧
    s.store.ids.length ≤ (s.transition k fun s => ((s.recvRecvEof k).sendHandleError k, ())).1.store.ids.length + 1 :=
  have hlt : LT [k] s ((s.recvRecvEof k).sendHandleError k) :=
    (recvRecvEof_lt s k).trans (sendHandleError_lt _ k) (fun _ h => h)
  have hev : EvB false s ((s.recvRecvEof k).sendHandleError k) :=
    .trans (recvRecvEof_ev s k) (sendHandleError_ev _ k)
  transition_unit_npe (ρ := false) (ks := [k]) k (fun s => (s.recvRecvEof k).sendHandleError k) h
    hlt (liveAll1 hk) hev noE he

-- ===================================================================== a record update of `actions.conn_error`

theorem setConnError_npe {E : Nat → Prop} {s : Streams} (o : Option PErr) (h : NPI E s) (he : ErrOK s) :
    NPI E { s with actions := { s.actions with connError := o } } ∧
    ErrOK { s with actions := { s.actions with connError := o } } := by
  have hlt : LT [] s { s with actions := { s.actions with connError := o } } := .of_eqs rfl rfl rfl rfl
  have hev : EvB false s { s with actions := { s.actions with connError := o } } :=
    .free ⟨rfl, CStep.refl _, fun q => by cases q <;> rfl, id, NextOK.refl _ _⟩
  exact ⟨h.lt hlt.w (liveAll0 s) hev noE, he⟩

-- ===================================================================== `Inner::handle_error`, `Inner::recv_go_away`

theorem handleError_npe {E : Nat → Prop} {s : Streams} (h : NPI E s) (he : ErrOK s) (err : PErr) :
    NPI E (s.handleError err).1 ∧ ErrOK (s.handleError err).1 := by
  unfold Streams.handleError
  dsimp only
  have := storeForEach_npe (E := E)
    (f := fun s id => (s.transition id fun s => ((s.recvHandleError id err).sendHandleError id, ())).1)
    (fun t k ht hte hk _ => errClosure_npe err k ht hte hk) h he
  exact setConnError_npe _ this.1 this.2

theorem handleError_npi {E : Nat → Prop} {s : Streams} (h : NPI E s) (he : ErrOK s) (err : PErr) :
    NPI E (s.handleError err).1 := (handleError_npe h he err).1

theorem recvGoAwayFrame_npe {E : Nat → Prop} {s : Streams} (h : NPI E s) (he : ErrOK s) (last : Nat) (r : Reason) (d : Bytes) :
    NPI E (s.recvGoAwayFrame last r d).1 ∧ ErrOK (s.recvGoAwayFrame last r d).1 := by
  unfold Streams.recvGoAwayFrame
  have hlt := sendRecvGoAway_lt s last
  have h1 : NPI E (s.sendRecvGoAway last).1 := h.lt hlt.w (liveAll0 s) (sendRecvGoAway_ev (ρ := false) s last) noE
  have he1 : ErrOK (s.sendRecvGoAway last).1 := hlt.err.errOK he
  split
  · next s1 e heq => rw [heq] at h1 he1; exact ⟨h1, he1⟩
  · next s1 _ heq =>
    rw [heq] at h1 he1
    dsimp only
    have := storeForEach_npe (E := E)
      (f := fun s id =>
        if ((s.stream id).id > last || (s.stream id).isPendingOpen) && s.counts.isLocalInit (s.stream id).id then
          (s.transition id fun s => ((s.recvHandleError id (PErr.remoteGoAway d r)).sendHandleError id, ())).1
        else s)
      (fun t k ht hte hk _ => by
        split
        · exact errClosure_npe _ k ht hte hk
        · exact ⟨ht, hte, by omega⟩) h1 he1
    exact setConnError_npe _ this.1 this.2

theorem recvGoAwayFrame_npi {E : Nat → Prop} {s : Streams} (h : NPI E s) (he : ErrOK s) (last : Nat) (r : Reason) (d : Bytes) :
    NPI E (s.recvGoAwayFrame last r d).1 := (recvGoAwayFrame_npe h he last r d).1

end H2V.Lemmas.ConnNoPanicP
