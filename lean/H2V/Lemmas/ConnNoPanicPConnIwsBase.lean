import H2V.Lemmas.ConnNoPanicPConnAll
/-
  C08 (no panic) — connection layer, variant "no local SETTINGS_INITIAL_WINDOW_SIZE in flight" (`IwsInv`), part 1.
  `ConnP'` = `ConnP` with the guarantee for `apply_local_settings` made visible: the values applied carry no
  INITIAL_WINDOW_SIZE (identifier 4) — then `apply_local_settings` answers `Ok` trivially.  The namespace
  `ConnNoPanicP.Iws` holds a second copy of the connection invariant (`Iws.ConnOK c ↔ ConnOK c ∧ IwsInv c`) and, in the
  files ConnNoPanicPConnIws{Step,Recv,Poll,Api}.lean, of the step lemmas, generated from
  ConnNoPanicPConn{Step,Recv,Poll,Api}.lean by text substitution (`ConnP ↦ ConnP'`).
-/
namespace H2V.Lemmas.ConnNoPanicP
open H2V H2V.Model H2V.Model.Conn
open H2V.Lemmas.ConnResetP (Op run)
open H2V.Lemmas.ConnCtlP (GoAwayInv Keep15 Step15 GaLe gaLast view)

/-- no local SETTINGS_INITIAL_WINDOW_SIZE is in flight -/
def IwsInv (c : Conn) : Prop := ∀ v, LocIn c v → ConnCtlP.getS v 4 = none

theorem IwsInv.le {c c' : Conn} (h : IwsInv c) (hl : LocLe c c') : IwsInv c' := fun v hv => h v (hl.1 v hv)
/-- `IwsInv` only looks at `settings.loc` (handle calls and transport events keep it) -/
theorem IwsInv.congr {c c' : Conn} (h : IwsInv c) (hl : c'.settings.loc = c.settings.loc) : IwsInv c' := by
  intro v hv; unfold LocIn at hv; rw [hl] at hv; exact h v hv

/-- `ConnP`, and `apply_local_settings` is called without an INITIAL_WINDOW_SIZE -/
def ConnP' (s : Streams) : Op → Prop
  | .applyLocalSettingsFrame vals => ConnCtlP.getS vals 4 = none
  | op => ConnP s op

theorem connP_of' {s : Streams} {op : Op} (h : ConnP' s op) : ConnP s op := by
  cases op <;> first | exact h | exact trivial

theorem connP'_withPanic {X : String → Prop} (s : Streams) (op : Op) (h : ConnP' s op) : withPanic ConnP' X s op := by
  cases op <;> first | exact h | exact h.elim

theorem Hist.toX' {X : String → Prop} {a b : Streams} (h : Hist ConnP' a b) : HistX ConnP' X a b :=
  h.mono connP'_withPanic
theorem HistX.toHist' {a b : Streams} (h : HistX ConnP' (fun _ => False) a b) : Hist ConnP' a b :=
  Hist.mono (fun s op hp => by cases op <;> first | exact hp | exact hp.elim) h
theorem HistW.toX' {X : String → Prop} {s0 s : Streams} {w0 w : Writer} (h : HistW ConnP' s0 w0 s w) : HistWX ConnP' X s0 w0 s w :=
  h.mono connP'_withPanic
theorem HistWX.toHistW' {s0 s : Streams} {w0 w : Writer} (h : HistWX ConnP' (fun _ => False) s0 w0 s w) : HistW ConnP' s0 w0 s w :=
  HistW.mono (fun s op hp => by cases op <;> first | exact hp | exact hp.elim) h

/-- a `ConnP'` history is a `ConnP` history -/
theorem HistWX.weaken' {X : String → Prop} {s0 s : Streams} {w0 w : Writer} (h : HistWX ConnP' X s0 w0 s w) : HistWX ConnP X s0 w0 s w :=
  HistW.mono (fun s op hp => by cases op <;> first | exact hp | exact trivial) h

end H2V.Lemmas.ConnNoPanicP

namespace H2V.Lemmas.ConnNoPanicP.Iws
open H2V H2V.Model H2V.Model.Conn
open H2V.Lemmas.ConnResetP (Op run)
open H2V.Lemmas.ConnCtlP (GoAwayInv Keep15 Step15 GaLe gaLast view)

/-- `ConnNoPanicP.RdOK` and `IwsInv` -/
structure RdOK (c : Conn) : Prop where
  max : c.codec.r.maxFrameLen ≤ 16777215
  need : ∀ n, c.codec.r.need = some n → n ≤ 16777224
  loc : ∀ v m, LocIn c v → ConnCtlP.getS v 5 = some m → m ≤ 16777215
  rem : ∀ v, c.settings.remote = some v → ConnFlowP.SettingsOk v
  iws : IwsInv c

theorem RdOK.keep {c c' : Conn} (h : RdOK c) (hr : c'.codec.r = c.codec.r) (hl : LocLe c c') : RdOK c' :=
  ⟨by rw [hr]; exact h.max, by rw [hr]; exact h.need, fun v m hv hm => h.loc v m (hl.1 v hv) hm,
    fun v hv => h.rem v (hl.2 v hv), h.iws.le hl⟩

/-- the connection invariant with `IwsInv` -/
structure ConnOK (c : Conn) : Prop where
  ga : GoAwayInv c
  ping : PingInv c
  rd : RdOK c

theorem ConnOK.of {c : Conn} (hc : ConnNoPanicP.ConnOK c) (hi : IwsInv c) : ConnOK c :=
  ⟨hc.ga, hc.ping, ⟨hc.rd.max, hc.rd.need, hc.rd.loc, hc.rd.rem, hi⟩⟩
theorem ConnOK.toOK {c : Conn} (hc : ConnOK c) : ConnNoPanicP.ConnOK c := ⟨hc.ga, hc.ping, ⟨hc.rd.max, hc.rd.need, hc.rd.loc, hc.rd.rem⟩⟩
theorem ConnOK.iws {c : Conn} (hc : ConnOK c) : IwsInv c := hc.rd.iws

/-- a step seen from the invariant: what it must keep -/
structure OKStep (c c' : Conn) : Prop where
  ga : GoAwayInv c'
  gale : GaLe c c'
  ping : ∀ p', c'.pingPong.pendingPing = some p' → ∃ p, c.pingPong.pendingPing = some p ∧ p'.payload = p.payload
  rd : RdOK c → RdOK c'

theorem OKStep.ok {c c' : Conn} (h : OKStep c c') (hc : ConnOK c) : ConnOK c' :=
  ⟨h.ga, PingLe.inv ⟨h.ping, gaLe_isSome h.gale⟩ hc.ping, h.rd hc.rd⟩

theorem OKStep.of_step15 {c c' : Conn} (h : Step15 c c') (hp : c'.pingPong.pendingPing = c.pingPong.pendingPing)
    (hr : c'.codec.r = c.codec.r) (hl : LocLe c c') : OKStep c c' :=
  ⟨h.1, h.2, fun p hp' => ⟨p, by rw [← hp]; exact hp', rfl⟩, fun hn => hn.keep hr hl⟩

theorem OKStep.of_keep {c c' : Conn} (hi : GoAwayInv c) (h : Keep15 c c') (hp : c'.pingPong.pendingPing = c.pingPong.pendingPing)
    (hr : c'.codec.r = c.codec.r) (hl : LocLe c c') : OKStep c c' := .of_step15 (h.step hi) hp hr hl

theorem ConnOK.keep {c c' : Conn} (hc : ConnOK c) (h : Keep15 c c') (hp : c'.pingPong.pendingPing = c.pingPong.pendingPing)
    (hr : c'.codec.r = c.codec.r) (hl : LocLe c c') : ConnOK c' := (OKStep.of_keep hc.ga h hp hr hl).ok hc

end H2V.Lemmas.ConnNoPanicP.Iws
