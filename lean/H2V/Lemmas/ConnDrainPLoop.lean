import H2V.Lemmas.ConnDrainPRecvFr
import H2V.Lemmas.ConnWakePConn
/-
  ConnDrainP, part 7 — `Streams::poll_complete` drains everything that can be written:
  `prioLoop_complete` (the loop of `Prioritize::buffer_pending` answers "complete" only with `pending_send`
  empty), `recvBufferPending_spec` (`Recv::buffer_pending`: no connection / stream WINDOW_UPDATE owed),
  `pollComplete_ready_drained` (the state after `Ready`).
-/
namespace H2V.Lemmas.ConnDrainP
open H2V H2V.Model H2V.Model.Conn
open H2V.Lemmas.ConnFlowP (KeysOk SafeInv SafeInvG ReqOk loopPre loopPost)
open H2V.Lemmas.ConnCountsP (QOK Flagged Ev EvB QF)

-- ===================================================================== `PInv` along `buffer_pending`

theorem loopPre_ev (s : Streams) : Ev s (loopPre s) := by
  unfold loopPre
  split
  · next s1 id heq =>
    have e1 : Ev s s1 := .of_fst_eq heq (ConnCountsP.popPendingOpen_ev s)
    exact e1.trans ((ConnCountsP.qPushFront_ev _ _ _ (by decide) (by decide)).trans (ConnCountsP.tryAssignCapacity_ev _ _))
  · next s1 heq => exact .of_fst_eq heq (ConnCountsP.popPendingOpen_ev s)

theorem loopPre_req {s : Streams} (h : ReqOk s) : ReqOk (loopPre s) := by
  unfold loopPre
  split
  · next s1 id heq =>
    have h1 : ReqOk s1 := ConnFlowP.ReqOk.of_fst_eq heq h.popPendingOpen
    exact (h1.qPushFront _ _).tryAssignCapacity _
  · next s1 heq => exact ConnFlowP.ReqOk.of_fst_eq heq h.popPendingOpen

theorem PInv.loopPre {s : Streams} (h : PInv s) (hp : (loopPre s).panicked = none) : PInv (loopPre s) :=
  h.next (loopPre_ev s) (ConnFlowP.loopPre_safe h.safe) (loopPre_req h.req) hp

theorem loopPost_ev (s : Streams) (w : Writer) (f : Streams.OutFrame) : Ev s (loopPost s w f).1 := by
  unfold loopPost
  dsimp only
  exact (ConnCountsP.bufferOut_ev s w f).trans (ConnCountsP.reclaimFrame_ev _ _)

theorem loopPost_req {s : Streams} (h : ReqOk s) (w : Writer) (f : Streams.OutFrame) : ReqOk (loopPost s w f).1 := by
  unfold loopPost
  dsimp only
  exact (h.bufferOut w f).reclaimFrame _

/-- **`Prioritize::buffer_pending`'s loop answers "complete" only with `pending_send` empty** — in every state
    satisfying the flow and queue invariants, with the fuel the model passes to `pop_frame` -/
theorem prioLoop_complete (n : Nat) : ∀ (s : Streams) (w : Writer) (s' : Streams) (w' : Writer), PInv s →
    Streams.prioBufferPendingLoop n s w = (s', w', .complete) → s'.panicked = none →
    s'.prio.pendingSend = [] ∧ PInv s' := by
  induction n with
  | zero =>
    intro s w s' w' _ h
    unfold Streams.prioBufferPendingLoop at h
    cases h
  | succ n ih =>
    intro s w s' w' hi h hp
    rw [ConnFlowP.loop_eq] at h
    split at h
    · cases h
    · split at h
      · next s1 f heq =>
        have e3 : Ev (loopPost s1 w f).1 s' := by
          have := ConnCountsP.prioBufferPendingLoop_ev (ρ := true) n (loopPost s1 w f).1 (loopPost s1 w f).2
          rw [h] at this; exact this
        have hp3 := Ev.panic_none e3 hp
        have e2 := loopPost_ev s1 w f
        have hp2 := Ev.panic_none e2 hp3
        have e1 : Ev (loopPre s) s1 := by
          have := ConnCountsP.popFrame_ev (ρ := true) (Streams.popFrameFuel (loopPre s)) (loopPre s) w.maxFrameSize
          rw [heq] at this; exact this
        have hp1 := Ev.panic_none e1 hp2
        have i1 := hi.loopPre hp1
        have hs2 : SafeInv s1 := by
          have := i1.safe.popFrame (Streams.popFrameFuel (loopPre s)) w.maxFrameSize
          rw [heq] at this; exact this
        have hr2 : ReqOk s1 := by
          have := i1.req.popFrame (Streams.popFrameFuel (loopPre s)) w.maxFrameSize
          rw [heq] at this; exact this
        have i2 := i1.next e1 hs2 hr2 hp2
        have i3 := i2.next e2 (hs2.fr (ConnFlowP.loopPost_fr s1 w f)) (loopPost_req hr2 w f) hp3
        exact ih _ _ _ _ i3 h hp
      · next s1 heq =>
        injection h with h1 h2
        subst h1
        have i1 := hi.loopPre (Ev.panic_none (by
          have := ConnCountsP.popFrame_ev (ρ := true) (Streams.popFrameFuel (loopPre s)) (loopPre s) w.maxFrameSize
          rw [heq] at this; exact this) hp)
        refine ⟨popFrame_none_drains i1 heq hp, ?_⟩
        have e1 : Ev (loopPre s) s1 := by
          have := ConnCountsP.popFrame_ev (ρ := true) (Streams.popFrameFuel (loopPre s)) (loopPre s) w.maxFrameSize
          rw [heq] at this; exact this
        have hs2 : SafeInv s1 := by
          have := i1.safe.popFrame (Streams.popFrameFuel (loopPre s)) w.maxFrameSize
          rw [heq] at this; exact this
        have hr2 : ReqOk s1 := by
          have := i1.req.popFrame (Streams.popFrameFuel (loopPre s)) w.maxFrameSize
          rw [heq] at this; exact this
        exact i1.next e1 hs2 hr2 hp


-- ===================================================================== `Recv::buffer_pending`

/-- the connection receive window and its available part are `i32` values (true in every reachable state: ConnRecvP) -/
def RangeOK (s : Streams) : Prop :=
  s.recv.flow.available.val ≤ 2147483647 ∧ -2147483648 ≤ s.recv.flow.windowSize.val

theorem RangeOK.of_recv {s s' : Streams} (h : RangeOK s) (e : s'.actions.recv = s.actions.recv) : RangeOK s' := by
  unfold RangeOK Streams.recv at *; rw [e]; exact h

theorem incWindow_ok_range {f f' : FlowControl} {n : Nat} (h : f.incWindow n = (f', .ok ())) :
    f'.available = f.available ∧ -2147483648 ≤ f'.windowSize.val := by
  unfold FlowControl.incWindow at h
  simp only at h
  split at h
  · cases h
  · next hin =>
    split at h
    · cases h
    · injection h with h _
      subst h
      have hin' : inI32 (f.windowSize.val + u32AsI32 n) = true := by simpa using hin
      simp only [inI32, I32_MIN, I32_MAX, Bool.and_eq_true] at hin'
      exact ⟨rfl, of_decide_eq_true hin'.1⟩

theorem sendConnWU_spec {s s' : Streams} {w w' : Writer} {st : Streams.BufferStatus} (hr : RangeOK s)
    (h : s.sendConnectionWindowUpdate w = (s', w', st)) (hp : s'.panicked = none) :
    RangeOK s' ∧ s'.recv.pendingWindowUpdates = s.recv.pendingWindowUpdates ∧
    (st = .complete → s'.recv.flow.unclaimedCapacity = none) := by
  unfold Streams.sendConnectionWindowUpdate at h
  split at h
  · next incr hu =>
    split at h
    · cases h; exact ⟨hr, rfl, fun h => by cases h⟩
    · simp only at h
      split at h
      · next fl _ hi =>
        cases h
        have := incWindow_ok_range hi
        refine ⟨⟨by show fl.available.val ≤ _; rw [this.1]; exact hr.1, this.2⟩, rfl, fun _ => ?_⟩
        exact unclaimed_none_after_update hr.1 hr.2 hu hi
      · cases h
        exact absurd hp (ConnWakeP.panic_panicked _ _)
  · next hu => cases h; exact ⟨hr, rfl, fun _ => hu⟩

theorem sendStreamWU_spec (n : Nat) : ∀ (s : Streams) (w : Writer) (s' : Streams) (w' : Writer) (st : Streams.BufferStatus),
    Streams.sendStreamWindowUpdates n s w = (s', w', st) →
    s'.recv.flow = s.recv.flow ∧
    (st = .complete → s.recv.pendingWindowUpdates.length < n → s'.recv.pendingWindowUpdates = []) := by
  induction n with
  | zero => intro s w s' w' st h; cases h; exact ⟨rfl, fun _ h => by omega⟩
  | succ n ih =>
    intro s w s' w' st h
    unfold Streams.sendStreamWindowUpdates at h
    split at h
    · cases h; exact ⟨rfl, fun h => by cases h⟩
    · split at h
      · next s0 heq =>
        cases h
        have := qPop_none_eq heq
        rw [this.1]
        exact ⟨rfl, fun _ _ => this.2⟩
      · next s0 id heq =>
        obtain ⟨rest, hq, rfl⟩ := qPop_some_eq heq
        dsimp only at h
        have fin : ∀ (s1 : Streams) (w1 : Writer) (b : Bool),
            s1.actions.recv = ((s.setQ .pendingWindowUpdates rest).modStream id fun st => st.setQueued .pendingWindowUpdates false).actions.recv →
            Streams.sendStreamWindowUpdates n (s1.transitionAfter id b) w1 = (s', w', st) →
            s'.recv.flow = s.recv.flow ∧
            (st = .complete → s.recv.pendingWindowUpdates.length < n + 1 → s'.recv.pendingWindowUpdates = []) := by
          intro s1 w1 b h1 h
          have h2 : s1.actions.recv = (s.setQ .pendingWindowUpdates rest).actions.recv := by rw [h1]; simp
          have := ih _ _ _ _ _ h
          have e3 : (s1.transitionAfter id b).actions.recv = (s.setQ .pendingWindowUpdates rest).actions.recv := by
            rw [recv_transitionAfter, h2]
          unfold Streams.recv at *
          rw [e3] at this
          refine ⟨this.1, fun hc hl => this.2 hc ?_⟩
          show rest.length < n
          have : s.actions.recv.pendingWindowUpdates = id :: rest := hq
          rw [this] at hl
          simp at hl; omega
        split at h
        · exact fin _ _ _ rfl h
        · split at h
          · split at h
            · exact fin _ _ _ (by simp) h
            · exact fin _ _ _ (by simp) h
          · exact fin _ _ _ rfl h

theorem recvBufferPending_spec {s s' : Streams} {w w' : Writer} {st : Streams.BufferStatus} (hr : RangeOK s)
    (h : s.recvBufferPending w = (s', w', st)) (hp : s'.panicked = none) :
    RangeOK s' ∧ (st = .complete → s'.recv.flow.unclaimedCapacity = none ∧ s'.recv.pendingWindowUpdates = []) := by
  unfold Streams.recvBufferPending at h
  split at h
  · next s1 w1 heq =>
    cases h
    exact ⟨(sendConnWU_spec hr heq hp).1, fun h => by cases h⟩
  · next s1 w1 heq =>
    have e := ConnCountsP.sendStreamWindowUpdates_ev (ρ := true) (s1.recv.pendingWindowUpdates.length + 1) s1 w1
    rw [h] at e
    have hp1 := Ev.panic_none e hp
    obtain ⟨r1, q1, u1⟩ := sendConnWU_spec hr heq hp1
    obtain ⟨f2, q2⟩ := sendStreamWU_spec _ _ _ _ _ _ h
    refine ⟨?_, fun hc => ⟨?_, q2 hc (Nat.lt_succ_self _)⟩⟩
    · unfold RangeOK; rw [f2]; exact r1
    · rw [f2]; exact u1 rfl


-- ===================================================================== `Streams::poll_complete`

theorem reclaimFrameInner_false {s : Streams} {f : DataFrame} (h : (s.reclaimFrameInner f).2 = false) :
    (s.reclaimFrameInner f).1.prio.pendingSend = s.prio.pendingSend := by
  unfold Streams.reclaimFrameInner at h ⊢
  dsimp only at h ⊢
  cases hin : s.prio.inFlightDataFrame with
  | nothing => simp only [hin]; rw [ConnFlowP.panic_prio]; rfl
  | drop => simp only [hin]; rfl
  | dataFrame k =>
    simp only [hin] at h ⊢
    split
    · next hr => rw [if_pos hr] at h; cases h
    · rfl

theorem reclaimFrame_false {s : Streams} {w : Writer} (h : (s.reclaimFrame w).2.2 = false) :
    (s.reclaimFrame w).1.prio.pendingSend = s.prio.pendingSend ∧
    (s.reclaimFrame w).2.1.next = w.next ∧ (s.reclaimFrame w).2.1.bufLen = w.bufLen := by
  unfold Streams.reclaimFrame at h ⊢
  cases hl : w.lastDataFrame with
  | none =>
    have : w.takeLastDataFrame = ({ w with lastDataFrame := none }, none) := by
      unfold Writer.takeLastDataFrame; rw [hl]
    rw [this]
    exact ⟨rfl, rfl, rfl⟩
  | some frame =>
    have : w.takeLastDataFrame = ({ w with lastDataFrame := none }, some frame) := by
      unfold Writer.takeLastDataFrame; rw [hl]
    rw [this] at h ⊢
    dsimp only at h ⊢
    exact ⟨reclaimFrameInner_false h, rfl, rfl⟩

theorem PInv.withTask {s : Streams} (h : PInv s) (t : Option String) :
    PInv { s with actions := { s.actions with task := t } } :=
  ⟨h.safe.fr ((ConnFlowP.Fr.refl _).withTask t), h.req.withTask t,
   (QF.of_store_q (q := .pendingSend) (s := s) (s' := { s with actions := { s.actions with task := t } }) rfl rfl).qok h.qs,
   (QF.of_store_q (q := .pendingCapacity) (s := s) (s' := { s with actions := { s.actions with task := t } }) rfl rfl).qok h.qc⟩

theorem PInv.reclaimFrame {s : Streams} (h : PInv s) (w : Writer) (hp : (s.reclaimFrame w).1.panicked = none) :
    PInv (s.reclaimFrame w).1 :=
  h.next (ConnCountsP.reclaimFrame_ev s w) (h.safe.fr ((ConnFlowP.Fr.refl _).reclaimFrame w)) (h.req.reclaimFrame w) hp

theorem PInv.recvBufferPending {s : Streams} (h : PInv s) (w : Writer) (hp : (s.recvBufferPending w).1.panicked = none) :
    PInv (s.recvBufferPending w).1 :=
  h.next (ConnCountsP.recvBufferPending_ev s w) (h.safe.fr ((ConnFlowP.Fr.refl _).recvBufferPending w)) (h.req.recvBufferPending w) hp

theorem PInv.prioLoop {s : Streams} (h : PInv s) (n : Nat) (w : Writer)
    (hp : (Streams.prioBufferPendingLoop n s w).1.panicked = none) : PInv (Streams.prioBufferPendingLoop n s w).1 :=
  h.next (ConnCountsP.prioBufferPendingLoop_ev n s w) (ConnFlowP.SafeInv.prioBufferPendingLoop n h.safe w)
    (h.req.prioBufferPendingLoop n w) hp

/-- what a completed `poll_complete` leaves behind -/
structure Drained (tag : String) (s : Streams) (w : Writer) : Prop where
  /-- no stream is scheduled for sending -/
  pendingSend : s.prio.pendingSend = []
  /-- no stream WINDOW_UPDATE is owed -/
  windowUpdates : s.recv.pendingWindowUpdates = []
  /-- no connection WINDOW_UPDATE is owed (`unclaimed_capacity()` below the threshold) -/
  connWindow : s.recv.flow.unclaimedCapacity = none
  /-- the connection task is parked in `Actions.task` -/
  parked : s.actions.task = some tag
  /-- the codec's write buffer is flushed -/
  flushed : w.next = none ∧ w.bufLen = 0

/-- **`Streams::poll_complete` answers `Ready` only when everything writable has been written** -/
theorem pollComplete_ready_drained (n : Nat) : ∀ (s : Streams) (w : Writer) (io : Tio) (tag : String)
    (s' : Streams) (w' : Writer) (io' : Tio), PInv s → RangeOK s →
    Streams.pollComplete n s w io tag = (s', w', io', .ready) → s'.panicked = none →
    Drained tag s' w' ∧ PInv s' ∧ RangeOK s' := by
  induction n with
  | zero =>
    intro s w io tag s' w' io' _ _ h
    unfold Streams.pollComplete at h; cases h
  | succ n ih =>
    intro s w io tag s' w' io' hi hr h hp
    have hev := ConnCountsP.pollComplete_ev (ρ := true) (n + 1) s w io tag
    rw [ConnFlowP.pollComplete_eq] at h
    split at h
    · next w1 io1 hpr =>
      split at h
      · -- `Recv::buffer_pending` filled the codec: next round
        next s1 w2 hrb =>
        have e1 : Ev s1 s' := by
          have := ConnCountsP.pollComplete_ev (ρ := true) n s1 w2 io1 tag
          rw [h] at this; exact this
        have hp1 := Ev.panic_none e1 hp
        have i1 : PInv s1 := by
          have := hi.recvBufferPending w1 (by rw [hrb]; exact hp1)
          rw [hrb] at this; exact this
        exact ih _ _ _ _ _ _ _ i1 (recvBufferPending_spec hr hrb hp1).1 h hp
      · next s1 w2 hrb =>
        dsimp only at h
        -- names for the intermediate states
        generalize hR : Streams.prioBufferPendingLoop (n + 1) (s1.reclaimFrame w2).1 (s1.reclaimFrame w2).2.1 = R at h
        obtain ⟨s3, w3, st3⟩ := R
        have key : s3.panicked = none → PInv s3 ∧ RangeOK s3 ∧ s3.recv.flow.unclaimedCapacity = none ∧
            s3.recv.pendingWindowUpdates = [] := by
          intro hp3
          have e3 : Ev (s1.reclaimFrame w2).1 s3 := by
            have := ConnCountsP.prioBufferPendingLoop_ev (ρ := true) (n + 1) (s1.reclaimFrame w2).1 (s1.reclaimFrame w2).2.1
            rw [hR] at this; exact this
          have hp2 := Ev.panic_none e3 hp3
          have hp1 := Ev.panic_none (ConnCountsP.reclaimFrame_ev s1 w2) hp2
          have i1 : PInv s1 := by
            have := hi.recvBufferPending w1 (by rw [hrb]; exact hp1)
            rw [hrb] at this; exact this
          have i2 := i1.reclaimFrame w2 hp2
          have i3 : PInv s3 := by
            have := i2.prioLoop (n + 1) (s1.reclaimFrame w2).2.1 (by rw [hR]; exact hp3)
            rw [hR] at this; exact this
          obtain ⟨r1, u1⟩ := recvBufferPending_spec hr hrb hp1
          have erecv : s3.actions.recv = s1.actions.recv := by
            have := recv_prioLoop (n + 1) (s1.reclaimFrame w2).1 (s1.reclaimFrame w2).2.1
            rw [hR] at this
            rw [this, recv_reclaimFrame]
          refine ⟨i3, r1.of_recv erecv, ?_, ?_⟩
          · unfold Streams.recv; rw [erecv]; exact (u1 rfl).1
          · unfold Streams.recv; rw [erecv]; exact (u1 rfl).2
        cases st3 with
        | codecFull =>
          dsimp only at h
          have e1 : Ev s3 s' := by
            have := ConnCountsP.pollComplete_ev (ρ := true) n s3 w3 io1 tag
            rw [h] at this; exact this
          obtain ⟨i3, r3, _, _⟩ := key (Ev.panic_none e1 hp)
          exact ih _ _ _ _ _ _ _ i3 r3 h hp
        | complete =>
          dsimp only at h
          split at h
          · next w4 io4 hfl =>
            split at h
            · -- `Ready`
              next hrec =>
              injection h with h1 h2
              injection h2 with h2 h3
              subst h1 h2
              have hrec' : (Streams.reclaimFrame { s3 with actions := { s3.actions with task := some tag } } w4).2.2 = false := by
                simpa using hrec
              have hpT : ({ s3 with actions := { s3.actions with task := some tag } } : Streams).panicked = none :=
                Ev.panic_none (ConnCountsP.reclaimFrame_ev { s3 with actions := { s3.actions with task := some tag } } w4) hp
              have hp3 : s3.panicked = none := hpT
              obtain ⟨i3, r3, u3, q3⟩ := key hp3
              have hq : s3.prio.pendingSend = [] :=
                (prioLoop_complete (n + 1) _ _ _ _ (by
                  have hp2 := Ev.panic_none (by
                    have := ConnCountsP.prioBufferPendingLoop_ev (ρ := true) (n + 1) (s1.reclaimFrame w2).1 (s1.reclaimFrame w2).2.1
                    rw [hR] at this; exact this) hp3
                  have hp1 := Ev.panic_none (ConnCountsP.reclaimFrame_ev s1 w2) hp2
                  have i1 : PInv s1 := by
                    have := hi.recvBufferPending w1 (by rw [hrb]; exact hp1)
                    rw [hrb] at this; exact this
                  exact i1.reclaimFrame w2 hp2) hR hp3).1
              obtain ⟨f1, f2, f3⟩ := reclaimFrame_false hrec'
              have fl := ConnWakeP.flush_ready_capacity hfl
              have iT := (i3.withTask (some tag)).reclaimFrame w4 hp
              refine ⟨⟨by rw [f1]; exact hq, ?_, ?_, ?_, ⟨by rw [f2]; exact fl.1, by rw [f3]; exact fl.2.1⟩⟩, iT, ?_⟩
              · unfold Streams.recv; rw [recv_reclaimFrame]; exact q3
              · unfold Streams.recv; rw [recv_reclaimFrame]; exact u3
              · rw [ConnWakeP.reclaimFrame_task]
              · exact r3.of_recv (by rw [recv_reclaimFrame])
            · -- a DATA frame came back from the codec: next round
              have e1 : Ev (Streams.reclaimFrame { s3 with actions := { s3.actions with task := some tag } } w4).1 s' := by
                have := ConnCountsP.pollComplete_ev (ρ := true) n
                  (Streams.reclaimFrame { s3 with actions := { s3.actions with task := some tag } } w4).1
                  (Streams.reclaimFrame { s3 with actions := { s3.actions with task := some tag } } w4).2.1 io4 tag
                rw [h] at this; exact this
              have hp4 := Ev.panic_none e1 hp
              have hpT : ({ s3 with actions := { s3.actions with task := some tag } } : Streams).panicked = none :=
                Ev.panic_none (ConnCountsP.reclaimFrame_ev { s3 with actions := { s3.actions with task := some tag } } w4) hp4
              have hp3 : s3.panicked = none := hpT
              obtain ⟨i3, r3, _, _⟩ := key hp3
              have iT := (i3.withTask (some tag)).reclaimFrame w4 hp4
              exact ih _ _ _ _ _ _ _ iT (r3.of_recv (by rw [recv_reclaimFrame])) h hp
          · next w4 io4 r4 hne hfl =>
            injection h with _ h2
            injection h2 with _ h3
            injection h3 with _ h4
            exact absurd h4 hne
    · next w1 io1 r1 hne hpr =>
      injection h with _ h2
      injection h2 with _ h3
      injection h3 with _ h4
      exact absurd h4 hne

end H2V.Lemmas.ConnDrainP
