import H2V.Lemmas.ConnFlowPCap
/-
  ConnFlowP, part 15 — capacity is *moved*, not lost, by the functions of `prioritize.rs`:
    * `try_assign_capacity`: connection → stream, exactly (`tryAssign_exact`);
    * the first half of `reclaim_all_capacity` / `reclaim_reserved_capacity` / a lowered
      `reserve_capacity`: stream → connection, exactly (`giveBack_exact`);
    * `assign_connection_capacity` passes what it got on until no stream waits in `pending_capacity`
      or the connection has nothing left (`assignConnectionCapacity_drains`);
    * `transition_after` is the only step that can make capacity disappear: when it releases a
      stream that still holds some (`transitionAfter_total`).
-/
namespace H2V.Lemmas.ConnFlowP
open H2V H2V.Model H2V.Model.Conn H2V.Lemmas.Comp

/-- all the send capacity there is: assigned to streams + held by the connection -/
def total (s : Streams) : Int := sumAv s.store.slab + s.prio.flow.available.val

/-- keys and send flows of the slab, in order -/
def view (s : Streams) : List (Nat × FlowControl) := s.store.slab.map fun x => (x.key, x.sendFlow)

theorem sumAv_of_view {a b : List Stream} (h : a.map (fun x => (x.key, x.sendFlow)) = b.map (fun x => (x.key, x.sendFlow))) :
    sumAv a = sumAv b := by
  induction a generalizing b with
  | nil => cases b with
    | nil => rfl
    | cons y t => simp at h
  | cons x t ih =>
    cases b with
    | nil => simp at h
    | cons y u =>
      simp only [List.map_cons, List.cons.injEq, Prod.mk.injEq] at h
      simp only [sumAv, ih h.2, h.1.2]

theorem view_modStream {s : Streams} (hk : KeysOk s.store) (id : Nat) (f : Stream → Stream) (hf : NoFlow f) :
    view (s.modStream id f) = view s := by
  unfold Streams.modStream
  split
  · rename_i st hget
    have hm := get?_mem hget
    unfold view Streams.setStream Store.set
    simp only [List.map_map]
    apply List.map_congr_left
    intro x hx
    simp only [Function.comp]
    split
    · rename_i he
      have : x = st := key_inj hk.1 hx hm.1 ((beq_iff_eq.1 he).trans (hf st).1)
      rw [this, (hf st).1, (hf st).2]
    · rfl
  · unfold view; rw [panic_store]

theorem view_qPush {s : Streams} (hk : KeysOk s.store) (q : QName) (id : Nat) : view (s.qPush q id).1 = view s := by
  unfold Streams.qPush
  split
  · rfl
  · have : view ((s.modStream id fun st => st.setQueued q true).setQ q (s.getQ q ++ [id])) =
        view (s.modStream id fun st => st.setQueued q true) := by cases q <;> rfl
    rw [this]; exact view_modStream hk _ _ (noFlow_setQueued q true)

theorem keysOk_of_view {s t : Streams} (h : view t = view s) (hn : t.store.nextKey = s.store.nextKey)
    (hk : KeysOk s.store) : KeysOk t.store := by
  have hkeys : t.store.slab.map (·.key) = s.store.slab.map (·.key) := by
    have := congrArg (List.map Prod.fst) h
    simp only [view, List.map_map] at this
    exact this
  refine ⟨by rw [hkeys]; exact hk.1, fun y hy => ?_⟩
  obtain ⟨x, hx, hkx⟩ := mem_of_map_key_eq hkeys hy
  rw [hn, ← hkx]; exact hk.2 x hx

theorem qPush_flow (s : Streams) (q : QName) (id : Nat) : (s.qPush q id).1.prio.flow = s.prio.flow := by
  unfold Streams.qPush
  split
  · rfl
  · have : ((s.modStream id fun st => st.setQueued q true).setQ q (s.getQ q ++ [id])).prio.flow =
        (s.modStream id fun st => st.setQueued q true).prio.flow := by cases q <;> rfl
    rw [this, modStream_prio]

theorem modStream_nextKey (s : Streams) (id : Nat) (f : Stream → Stream) :
    (s.modStream id f).store.nextKey = s.store.nextKey := by
  unfold Streams.modStream; split
  · rfl
  · rw [panic_store]

theorem qPush_nextKey (s : Streams) (q : QName) (id : Nat) : (s.qPush q id).1.store.nextKey = s.store.nextKey := by
  unfold Streams.qPush
  split
  · rfl
  · have : ((s.modStream id fun st => st.setQueued q true).setQ q (s.getQ q ++ [id])).store =
        (s.modStream id fun st => st.setQueued q true).store := by cases q <;> rfl
    rw [this, modStream_nextKey]

theorem total_of_view {s t : Streams} (h : view t = view s) (hf : t.prio.flow = s.prio.flow) : total t = total s := by
  unfold total; rw [hf, sumAv_of_view h]

-- ===================================================================== try_assign_capacity: an exact move

/-- the assignment itself (stream `assign_capacity` + connection `claim_capacity`) -/
theorem assign_exact {s : Streams} (h : SafeInv s) (id n m : Nat)
    (h1 : n ≤ s.prio.flow.available.asSize)
    (h2 : n ≤ wrapSubU32 (s.stream id).sendFlow.windowSz (s.stream id).sendFlow.available.asSize) :
    total ((s.modStreamW id fun st => st.assignCapacity n m).modPrio
      fun p => { p with flow := (p.flow.claimCapacity n).1 }) = total s ∧
    ((s.modStreamW id fun st => st.assignCapacity n m).modPrio
      fun p => { p with flow := (p.flow.claimCapacity n).1 }).prio.flow.windowSize = s.prio.flow.windowSize ∧
    ((s.modStreamW id fun st => st.assignCapacity n m).modPrio
      fun p => { p with flow := (p.flow.claimCapacity n).1 }).store.slab.map (·.key) = s.store.slab.map (·.key) ∧
    ((s.modStreamW id fun st => st.assignCapacity n m).modPrio
      fun p => { p with flow := (p.flow.claimCapacity n).1 }).prio.flow.available.val =
      s.prio.flow.available.val - n := by
  have hA := h.av_le
  have hA0 := h.a0
  have hc := conn_claim h.a0 (by have := h.whi; omega32) h1
  cases hget : s.store.get? id with
  | none =>
    have hb : s.stream id = { key := id, id := 0 } := by unfold Streams.stream; rw [hget]; rfl
    rw [hb] at h2
    have hn : n = 0 := by
      have e1 : ({ key := id, id := 0 } : Stream).sendFlow.windowSz = 0 := rfl
      have e2 : ({ key := id, id := 0 } : Stream).sendFlow.available.asSize = 0 := rfl
      rw [e1, e2, wrapSubU32_le (by omega) (Nat.le_refl _)] at h2
      omega
    subst hn
    rw [modStreamW_none hget]
    unfold total
    have hc1 := hc.1
    simp only [store_modPrio, prio_modPrio, panic_store, panic_prio, hc.2]
    exact ⟨by omega, trivial, trivial, by omega⟩
  | some st =>
    have hm := get?_mem hget
    rw [stream_of_get hget] at h2
    have hkf := assignCapacity_kf st n m
    have hf := flOk_assign (h.st st hm.1) h2
    have hslab : ((s.modStreamW id fun st => st.assignCapacity n m).modPrio
        fun p => { p with flow := (p.flow.claimCapacity n).1 }).store.slab = (s.store.set (st.assignCapacity n m).1).slab := by
      unfold Streams.modStreamW; rw [hget]; rfl
    unfold total
    rw [hslab, sumAv_set h.keys hget _ (hkf.1.trans hm.2), set_keys]
    have hc1 := hc.1
    have hf1 := hf.2.1
    simp only [prio_modPrio, modStreamW_prio, hc.2, hkf.2]
    exact ⟨by omega, trivial, trivial, by omega⟩

/-- `try_assign_capacity` moves capacity from the connection to the stream and loses none: the total
    is unchanged, no stream appears or disappears, no window changes -/
theorem tryAssign_exact {s : Streams} (h : SafeInv s) (id : Nat) :
    total (s.tryAssignCapacity id) = total s ∧
    (s.tryAssignCapacity id).prio.flow.windowSize = s.prio.flow.windowSize ∧
    (s.tryAssignCapacity id).store.slab.map (·.key) = s.store.slab.map (·.key) := by
  unfold Streams.tryAssignCapacity
  dsimp only
  split
  · exact ⟨rfl, rfl, rfl⟩
  split
  · exact ⟨rfl, rfl, rfl⟩
  split
  · exact ⟨rfl, rfl, rfl⟩
  generalize hS1 : (if _ > 0 then _ else s) = S1
  have key : SafeInv S1 ∧ total S1 = total s ∧ S1.prio.flow.windowSize = s.prio.flow.windowSize ∧
      S1.store.slab.map (·.key) = s.store.slab.map (·.key) := by
    subst hS1
    split
    · exact ⟨assign_step h id _ _ (Nat.min_le_left ..) (Nat.le_trans (Nat.min_le_right ..) (Nat.min_le_right ..)),
        (assign_exact h id _ _ (Nat.min_le_left ..) (Nat.le_trans (Nat.min_le_right ..) (Nat.min_le_right ..))).1,
        (assign_exact h id _ _ (Nat.min_le_left ..) (Nat.le_trans (Nat.min_le_right ..) (Nat.min_le_right ..))).2.1,
        (assign_exact h id _ _ (Nat.min_le_left ..) (Nat.le_trans (Nat.min_le_right ..) (Nat.min_le_right ..))).2.2.1⟩
    · exact ⟨h, rfl, rfl, rfl⟩
  obtain ⟨hs1, ht, hw, hkeys⟩ := key
  clear hS1
  -- the two conditional `push`es change neither flows nor keys
  have hq1 : ∀ (b : Bool), view (if b then (S1.qPush .pendingCapacity id).1 else S1) = view S1 ∧
      (if b then (S1.qPush .pendingCapacity id).1 else S1).prio.flow = S1.prio.flow ∧
      (if b then (S1.qPush .pendingCapacity id).1 else S1).store.nextKey = S1.store.nextKey := by
    intro b; cases b
    · exact ⟨rfl, rfl, rfl⟩
    · exact ⟨view_qPush hs1.keys _ _, qPush_flow _ _ _, qPush_nextKey _ _ _⟩
  generalize hb1 : (((S1.stream id).sendFlow.available.ltUsize (S1.stream id).requestedSendCapacity &&
    (S1.stream id).sendFlow.hasUnavailable) : Bool) = b1
  have h1 := hq1 b1
  generalize hS2 : (if b1 = true then (S1.qPush .pendingCapacity id).1 else S1) = S2 at h1 ⊢
  have hk2 : KeysOk S2.store := keysOk_of_view h1.1 h1.2.2 hs1.keys
  have hfin : ∀ (b : Bool), view (if b then (S2.qPush .pendingSend id).1 else S2) = view S2 ∧
      (if b then (S2.qPush .pendingSend id).1 else S2).prio.flow = S2.prio.flow := by
    intro b; cases b
    · exact ⟨rfl, rfl⟩
    · exact ⟨view_qPush hk2 _ _, qPush_flow _ _ _⟩
  have h2 := hfin (decide ((S1.stream id).bufferedSendData > 0) && (S1.stream id).isSendReady)
  have hview : view (if (decide ((S1.stream id).bufferedSendData > 0) && (S1.stream id).isSendReady) = true
      then (S2.qPush .pendingSend id).1 else S2) = view S1 := h2.1.trans h1.1
  have hflow := h2.2.trans h1.2.1
  refine ⟨(total_of_view hview hflow).trans ht, by rw [hflow]; exact hw, ?_⟩
  have := congrArg (List.map Prod.fst) hview
  simp only [view, List.map_map] at this
  exact this.trans hkeys

-- ===================================================================== stream → connection: an exact move

/-- the first half of `reclaim_all_capacity`, `reclaim_reserved_capacity` and of a lowered
    `reserve_capacity`: `claim_capacity(n)` on the stream, `assign_capacity(n)` on the connection -/
def giveBack (s : Streams) (id n : Nat) : Streams :=
  (s.modStream id fun st => { st with sendFlow := (st.sendFlow.claimCapacity n).1 }).modPrio
    fun p => { p with flow := (p.flow.assignCapacity n).1 }

/-- giving back `n ≤ available` is exact: the stream holds `n` less, the connection `n` more, the
    total is unchanged, nothing else moves -/
theorem giveBack_exact {s : Streams} (h : SafeInv s) {id n : Nat} {st : Stream} (hget : s.store.get? id = some st)
    (hn : n ≤ st.sendFlow.available.asSize) :
    total (giveBack s id n) = total s ∧
    ((giveBack s id n).stream id).sendFlow.available.val = st.sendFlow.available.val - n ∧
    (giveBack s id n).prio.flow.available.val = s.prio.flow.available.val + n ∧
    (giveBack s id n).prio.flow.windowSize = s.prio.flow.windowSize ∧
    (giveBack s id n).store.slab.map (·.key) = s.store.slab.map (·.key) ∧
    SafeInv (giveBack s id n) := by
  have hm := get?_mem hget
  have hok := h.st st hm.1
  have hf := flOk_claim hok hn
  have hle := h.st_le hm.1
  have hA0 := h.a0
  have hW := h.whi
  have hl : (n : Int) ≤ st.sendFlow.available.val := by
    rw [asSize_eq] at hn; have := hok.av0; omega
  have hc := conn_assign (f := s.prio.flow) hA0 (n := n) (by omega)
  have hslab : (giveBack s id n).store.slab =
      (s.store.set { st with sendFlow := (st.sendFlow.claimCapacity n).1 }).slab := by
    unfold giveBack Streams.modStream; rw [hget]; rfl
  have hflow : (giveBack s id n).prio.flow = (s.prio.flow.assignCapacity n).1 := by
    unfold giveBack; rw [prio_modPrio, modStream_prio]
  have hstream : (giveBack s id n).stream id = { st with sendFlow := (st.sendFlow.claimCapacity n).1 } := by
    have := stream_modStream_self hget (fun st => { st with sendFlow := (st.sendFlow.claimCapacity n).1 }) rfl
    unfold giveBack
    unfold Streams.stream at this ⊢
    rw [store_modPrio]; exact this
  have hc1 := hc.1
  have hf1 := hf.2.1
  have hsafe : SafeInv (giveBack s id n) := by
    have h1 : SafeInvG n (s.modStream id fun st => { st with sendFlow := (st.sendFlow.claimCapacity n).1 }) :=
      claim_step h id n (by rw [stream_of_get hget]; exact hn)
    unfold giveBack
    refine h1.conn rfl (Int.le_refl _) ?_ ?_ ?_
    · show 0 ≤ ((s.modStream id _).prio.flow.assignCapacity n).1.available.val
      rw [modStream_prio, hc1]; omega
    · show ((s.modStream id _).prio.flow.assignCapacity n).1.windowSize.val ≤ _
      rw [modStream_prio, hc.2]; exact hW
    · show ((s.modStream id _).prio.flow.assignCapacity n).1.available.val - _ + _ ≤
        ((s.modStream id _).prio.flow.assignCapacity n).1.windowSize.val - _
      rw [modStream_prio, hc1, hc.2]; omega
  refine ⟨?_, ?_, ?_, ?_, ?_, hsafe⟩
  · unfold total
    rw [hslab, sumAv_set h.keys hget { st with sendFlow := (st.sendFlow.claimCapacity n).1 } hm.2, hflow, hc1]
    simp only [hf1]; omega
  · rw [hstream]; exact hf1
  · rw [hflow]; exact hc1
  · rw [hflow]; exact hc.2
  · rw [hslab, set_keys]

/-- `reclaim_all_capacity` = give everything back, then `assign_connection_capacity`'s loop -/
theorem reclaimAllCapacity_eq (s : Streams) (id : Nat) (h : (s.stream id).sendFlow.available.asSize > 0) :
    s.reclaimAllCapacity id =
      Streams.assignConnectionCapacityLoop
        ((giveBack s id (s.stream id).sendFlow.available.asSize).prio.pendingCapacity.length + 2)
        (giveBack s id (s.stream id).sendFlow.available.asSize) := by
  unfold Streams.reclaimAllCapacity Streams.assignConnectionCapacity giveBack
  simp only [h, if_true]

/-- after `reclaim_all_capacity`'s first half the stream holds nothing -/
theorem giveBack_all {s : Streams} (h : SafeInv s) {id : Nat} {st : Stream} (hget : s.store.get? id = some st) :
    ((giveBack s id st.sendFlow.available.asSize).stream id).sendFlow.available.val = 0 := by
  have := (giveBack_exact h hget (Nat.le_refl _)).2.1
  have h0 := (h.st st (get?_mem hget).1).av0
  rw [asSize_eq] at this ⊢
  omega

-- ===================================================================== transition_after: where capacity can get lost

/-- exact frame: same keys and send flows, same connection flow, same queues of `Prioritize` -/
structure XFr (s t : Streams) : Prop where
  prio : t.prio = s.prio
  next : t.store.nextKey = s.store.nextKey
  view : KeysOk s.store → view t = view s

theorem XFr.refl (s : Streams) : XFr s s := ⟨rfl, rfl, fun _ => rfl⟩

theorem XFr.keys {s t : Streams} (h : XFr s t) (hk : KeysOk s.store) : KeysOk t.store :=
  keysOk_of_view (h.view hk) h.next hk

theorem XFr.trans {a b c : Streams} (h1 : XFr a b) (h2 : XFr b c) : XFr a c :=
  ⟨h2.prio.trans h1.prio, h2.next.trans h1.next, fun hk => (h2.view (h1.keys hk)).trans (h1.view hk)⟩

theorem XFr.same {s t t' : Streams} (h : XFr s t) (hs : t'.store.slab = t.store.slab) (hn : t'.store.nextKey = t.store.nextKey)
    (hp : t'.prio = t.prio) : XFr s t' :=
  h.trans ⟨hp, hn, fun _ => by unfold ConnFlowP.view; rw [hs]⟩

theorem XFr.panic {s t : Streams} (h : XFr s t) (m : String) : XFr s (t.panic m) :=
  h.same (by rw [panic_store]) (by rw [panic_store]) (panic_prio _ _)

theorem XFr.modCountsA {s t : Streams} (h : XFr s t) (w : String) (f : Counts → Option Counts) :
    XFr s (t.modCountsA w f) := by
  unfold Streams.modCountsA
  split
  · exact h.same rfl rfl rfl
  · exact h.panic _

theorem XFr.modCounts {s t : Streams} (h : XFr s t) (f : Counts → Counts) : XFr s (t.modCounts f) :=
  h.same rfl rfl rfl

theorem XFr.withStoreUnlink {s t : Streams} (h : XFr s t) (id : Nat) : XFr s { t with store := t.store.unlink id } :=
  h.same rfl rfl rfl

theorem XFr.modStream' {s t : Streams} {id : Nat} {f : Stream → Stream} (hf : NoFlow f) (h : XFr s t) :
    XFr s (t.modStream id f) :=
  h.trans ⟨modStream_prio _ _ _, modStream_nextKey _ _ _, fun hk => view_modStream hk id f hf⟩

syntax "xfr_peel" : tactic
macro_rules | `(tactic| xfr_peel) => `(tactic| first
  | with_reducible apply XFr.panic
  | with_reducible apply XFr.modCountsA
  | with_reducible apply XFr.modCounts
  | (guard_mk; with_reducible apply XFr.withStoreUnlink)
  | (with_reducible apply XFr.modStream'; (· noflow)))
macro "xfr_auto" : tactic => `(tactic| repeat' (first
  | with_reducible assumption | with_reducible exact XFr.refl _ | (guard_not_mk; xfr_peel) | xfr_peel | split | dsimp only))

theorem XFr.decNumStreams {s t : Streams} (h : XFr s t) (id : Nat) : XFr s (t.decNumStreams id) := by
  unfold Streams.decNumStreams; dsimp only; xfr_auto
macro_rules | `(tactic| xfr_peel) => `(tactic| with_reducible apply XFr.decNumStreams)

theorem filter_set (a : Store) {st' : Stream} {k : Nat} (hk : st'.key = k) :
    (a.set st').slab.filter (fun z => z.key != k) = a.slab.filter (fun z => z.key != k) := by
  unfold Store.set
  simp only
  induction a.slab with
  | nil => rfl
  | cons x t ih =>
    simp only [List.map_cons, List.filter_cons]
    by_cases hx : x.key = k
    · have e1 : (x.key == st'.key) = true := by simpa [hk] using hx
      have e2 : (st'.key != k) = false := by simp [hk]
      have e3 : (x.key != k) = false := by simp [hx]
      simp only [e1, if_true, e2, e3, Bool.false_eq_true, if_false]
      exact ih
    · have e1 : (x.key == st'.key) = false := by simpa [hk] using hx
      simp only [e1, Bool.false_eq_true, if_false]
      rw [ih]

theorem filter_modStream (t : Streams) (id : Nat) (f : Stream → Stream) (hf : ∀ x, (f x).key = x.key) :
    (t.modStream id f).store.slab.filter (fun z => z.key != id) = t.store.slab.filter (fun z => z.key != id) := by
  unfold Streams.modStream
  split
  · rename_i st hget
    exact filter_set _ ((hf st).trans (get?_mem hget).2)
  · rw [panic_store]

theorem filter_decNumStreams (t : Streams) (id : Nat) :
    (t.decNumStreams id).store.slab.filter (fun z => z.key != id) = t.store.slab.filter (fun z => z.key != id) := by
  unfold Streams.decNumStreams
  dsimp only
  repeat' split
  all_goals (
    refine (filter_modStream _ _ _ ?_).trans ?_
    · intro _; rfl
    · simp only [Streams.modCounts, panic_store])

theorem remove_slab (a : Store) (k : Nat) : (a.remove k).slab = a.slab.filter (fun z => z.key != k) := rfl

/-- `transition_after` either leaves keys and flows alone, or — when the stream `is_released()` —
    removes exactly that slab entry -/
theorem transitionAfter_cases (t : Streams) (id : Nat) (b : Bool) :
    ∃ t1, XFr t t1 ∧
      (t.transitionAfter id b = t1 ∨
       ((t1.stream id).isClosed = true ∧ (t1.stream id).refCount = 0 ∧ (t1.stream id).isPendingSendCapacity = false ∧
        (t.transitionAfter id b).prio = t1.prio ∧ (t.transitionAfter id b).store.nextKey = t1.store.nextKey ∧
        (t.transitionAfter id b).store.slab = t1.store.slab.filter (fun z => z.key != id))) := by
  unfold Streams.transitionAfter
  dsimp only
  -- the state before the `is_released` test
  generalize hS1 : (if (t.stream id).isClosed = true then _ else _ : Streams) = S1
  have hx : XFr t S1 := by
    subst hS1; xfr_auto
  split
  · rename_i hrel
    refine ⟨S1, hx, Or.inr ?_⟩
    have hrel' := hrel
    unfold Stream.isReleased at hrel'
    simp only [Bool.and_eq_true, beq_iff_eq, Bool.not_eq_true'] at hrel'
    have hd : XFr S1 (if (S1.stream id).isCounted = true then S1.decNumStreams id else S1) := by
      xfr_auto
    refine ⟨hrel'.1.1.1.1.1.1.1, hrel'.1.1.1.1.1.1.2, hrel'.1.1.1.1.2, hd.prio, hd.next, ?_⟩
    show ((if (S1.stream id).isCounted = true then S1.decNumStreams id else S1).store.remove id).slab = _
    rw [remove_slab]
    split
    · exact filter_decNumStreams _ _
    · rfl
  · exact ⟨S1, hx, Or.inl rfl⟩

theorem XFr.total {s t : Streams} (h : XFr s t) (hk : KeysOk s.store) : total t = total s :=
  total_of_view (h.view hk) (by rw [h.prio])

/-- **the only place where capacity can disappear**: `transition_after` keeps the total, except when
    it releases (removes from the slab) a closed, unreferenced stream that still holds capacity —
    then exactly that capacity is gone -/
theorem transitionAfter_total {t : Streams} (hk : KeysOk t.store) (id : Nat) (b : Bool) :
    total (t.transitionAfter id b) = total t ∨
    ∃ st : Stream, st.key = id ∧ st.isClosed = true ∧ st.refCount = 0 ∧
      (∃ x ∈ t.store.slab, x.key = id ∧ x.sendFlow = st.sendFlow) ∧
      total (t.transitionAfter id b) = total t - st.sendFlow.available.val := by
  obtain ⟨t1, hx, hc⟩ := transitionAfter_cases t id b
  have hk1 := hx.keys hk
  rcases hc with hc | ⟨hcl, href, _, hp, _, hslab⟩
  · exact Or.inl (by rw [hc]; exact hx.total hk)
  · cases hget : t1.store.get? id with
    | none =>
      left
      have : t1.store.slab.filter (fun z => z.key != id) = t1.store.slab := by
        apply filter_key_ne_self
        intro x hxm hxk
        unfold Store.get? at hget
        have := List.find?_eq_none.1 hget x hxm
        simp [hxk] at this
      unfold total
      rw [hslab, this, hp]
      exact hx.total hk
    | some st =>
      right
      have hm := get?_mem hget
      rw [stream_of_get hget] at hcl href
      refine ⟨st, hm.2, hcl, href, ?_, ?_⟩
      · have hv := hx.view hk
        have : (st.key, st.sendFlow) ∈ view t1 := List.mem_map.2 ⟨st, hm.1, rfl⟩
        rw [hv] at this
        obtain ⟨x, hxm, hxe⟩ := List.mem_map.1 this
        simp only [Prod.mk.injEq] at hxe
        exact ⟨x, hxm, hxe.1.trans hm.2, hxe.2⟩
      · have hsplit := sumAv_split hk1.1 hm.1
        rw [hm.2] at hsplit
        have ht := hx.total hk
        unfold total at ht ⊢
        rw [hslab, hp]; omega

end H2V.Lemmas.ConnFlowP
