import H2V.Lemmas.ConnNoPanicPFiPoll2
/-
  C08 (no panic) — "no PUSH_PROMISE frame is queued anywhere" (`NoPPQ`) is kept by every operation except
  `StreamRef::send_push_promise`.  `QK s s'`: the promised ids queued on every entry only get fewer; every function of
  the model except `send_push_promise` is `QK` (`FK` steps are; the steps that raise a flag keep `pending_send`; a new
  entry starts with an empty queue).  Peeling tactic `qk_auto` (`f_qk`, else `f_fk`, found by name).
-/
namespace H2V.Lemmas.ConnNoPanicP
open H2V H2V.Model H2V.Model.Conn H2V.Lemmas.ConnCountsP
open H2V.Lemmas.ConnResetP (Op run)
attribute [local irreducible] wrapSubU32 wrapSubUsize

/-- no PUSH_PROMISE frame is queued on any entry -/
def NoPPQ (s : Streams) : Prop := ∀ k, ppq s k = []

/-- the promised ids queued on every entry only get fewer -/
structure QK (s s' : Streams) : Prop where
  sub : ∀ j, (ppq s' j).Sublist (ppq s j)

theorem QK.refl (s : Streams) : QK s s := ⟨fun _ => .refl _⟩
theorem QK.trans {a b c : Streams} (h1 : QK a b) (h2 : QK b c) : QK a c := ⟨fun j => (h2.sub j).trans (h1.sub j)⟩
theorem QK.of_fst_eq {s : Streams} {α : Type} {p : Streams × α} {a : Streams} {x : α}
    (h : p = (a, x)) (e : QK s p.1) : QK s a := by subst h; exact e
theorem QK.of_store {s s' : Streams} (h : s'.store = s.store) : QK s s' := ⟨fun j => by
  unfold ppq; rw [stream_of_store_eqP h]; exact .refl _⟩
theorem FK.toQK {s s' : Streams} (h : FK s s') : QK s s' := ⟨fun j => h.ppq_sub j⟩
theorem QK.noPPQ {s s' : Streams} (h : QK s s') (hn : NoPPQ s) : NoPPQ s' := fun k => by
  have := h.sub k; rw [hn k] at this; exact List.sublist_nil.mp this

theorem setMisc_qk (s : Streams) (a : Actions) (refs leaked : Nat) (wk : List String) (un : Option String) :
    QK s { s with actions := a, refs := refs, recvBufferLeaked := leaked, wakes := wk, unsupported := un } := .of_store rfl
theorem setCounts_qk (s : Streams) (c : Counts) : QK s { s with counts := c } := .of_store rfl
theorem unlinkRemove_qk (s : Streams) (id k : Nat) : QK s { s with store := (s.store.unlink id).remove k } :=
  (unlinkRemove_fk s id k).toQK

/-- a new entry with no PUSH_PROMISE in its queue -/
theorem insert_qk (s : Streams) (st : Stream) (h : ppIdsOf st.pendingSend = []) :
    QK s { s with store := (s.store.insert st).1 } := ⟨fun j => by
  unfold ppq
  rcases insert_get?_cases s.store st j with e | ⟨_, _, e⟩
  · have : ({ s with store := (s.store.insert st).1 } : Streams).stream j = s.stream j := by
      unfold Streams.stream; show ((s.store.insert st).1.get? j).getD _ = _; rw [e]
    rw [this]; exact .refl _
  · have : ({ s with store := (s.store.insert st).1 } : Streams).stream j = { st with key := s.store.nextKey } := stream_of_get? e
    rw [this]; show (ppIdsOf st.pendingSend).Sublist _; rw [h]; exact List.nil_sublist _⟩

/-- an update of one entry that keeps key and queue -/
theorem modStream_qk' (s : Streams) (k : Nat) (f : Stream → Stream)
    (h : ∀ x, (f x).key = x.key ∧ (f x).pendingSend = x.pendingSend) : QK s (s.modStream k f) := ⟨fun j => by
  unfold ppq
  rcases modStream_streams s k f (fun x => (h x).1) j with e | ⟨e, _, e2⟩
  · rw [e]; exact .refl _
  · subst e; rw [e2, (h _).2]; exact .refl _⟩

-- ===================================================================== the peeling tactic

syntax "qk_side" : tactic
macro_rules | `(tactic| qk_side) => `(tactic| fk_side)
macro_rules | `(tactic| qk_side) => `(tactic| rfl)

open Lean Elab Tactic Meta in
/-- `relHead` for `QK`, falling back on `f_fk` through `FK.toQK` -/
def relHeadQ (recordCase : Syntax) : TacticM Unit := withMainContext do
  let g ← getMainGoal
  let t ← instantiateMVars (← g.getType)
  let t := t.cleanupAnnotations
  unless t.isAppOfArity ``QK 2 do throwError "qk_head: not a QK goal"
  let e := t.appArg!
  let rec headOf (e : Expr) (fuel : Nat) : Option Name :=
    match fuel with
    | 0 => none
    | fuel + 1 =>
      match e with
      | .proj _ _ b => headOf b fuel
      | .mdata _ b => headOf b fuel
      | _ =>
        match e.getAppFn with
        | .const n _ =>
          if n == ``Prod.fst || n == ``Prod.snd then
            match e.getAppArgs.back? with
            | some a =>
              if a.isAppOfArity ``Prod.mk 4 then
                headOf (if n == ``Prod.fst then a.getAppArgs[2]! else a.getAppArgs[3]!) fuel
              else headOf a fuel
            | none => none
          else some n
        | _ => none
  match headOf e 8 with
  | none => throwError "qk_head: no head constant"
  | some n =>
    if n == ``Streams.mk then evalTactic recordCase else
    let last := match n with
      | .str _ s => s
      | _ => "?"
    let lemmaName := (`H2V.Lemmas.ConnNoPanicP).str (last ++ "_qk")
    let fkName := (`H2V.Lemmas.ConnNoPanicP).str (last ++ "_fk")
    let viaFk := !(← getEnv).contains lemmaName && (← getEnv).contains fkName
    unless (← getEnv).contains lemmaName || viaFk do throwError "qk_head: no lemma {lemmaName}"
    let gs ← g.apply (← mkConstWithFreshMVarLevels ``QK.trans)
    let gs ← gs.filterM fun m => do
      let ty ← instantiateMVars (← m.getType)
      pure (ty.cleanupAnnotations.isAppOfArity ``QK 2)
    match gs with
    | [g1, g2] =>
      if viaFk then
        let gs2 ← g2.apply (← mkConstWithFreshMVarLevels ``FK.toQK)
        match gs2 with
        | [g3] =>
          let side ← withReducible (g3.apply (← mkConstWithFreshMVarLevels fkName))
          replaceMainGoal (g1 :: side)
        | _ => throwError "qk_head: unexpected goals after FK.toQK"
      else
        let side ← withReducible (g2.apply (← mkConstWithFreshMVarLevels lemmaName))
        replaceMainGoal (g1 :: side)
    | _ => throwError "qk_head: unexpected goals after trans"

elab "qk_head" : tactic => do
  relHeadQ (← `(tactic| first
    | with_reducible refine QK.trans ?_ (setMisc_qk _ _ _ _ _ _)
    | with_reducible refine QK.trans ?_ (setCounts_qk _ _)
    | with_reducible refine QK.trans ?_ (unlinkRemove_qk _ _ _)
    | with_reducible refine QK.trans ?_ (insert_qk _ _ rfl)))

syntax "qk_step" : tactic
macro_rules | `(tactic| qk_step) => `(tactic| qk_head)
macro_rules | `(tactic| qk_step) => `(tactic| with_reducible refine QK.of_fst_eq (by with_reducible assumption) ?_)
macro_rules | `(tactic| qk_step) => `(tactic| with_reducible assumption)
macro_rules | `(tactic| qk_step) => `(tactic| with_reducible exact QK.refl _)

macro "qk_auto" : tactic => `(tactic| repeat (first | qk_step | qk_side | intro _ | split | dsimp only))
macro "qk_auto_ih" ih:ident : tactic =>
  `(tactic| repeat (first | qk_step | with_reducible refine QK.trans ?_ ($ih ..) | qk_side | intro _ | split | dsimp only))

-- ===================================================================== the steps that raise a flag

theorem queueOpen_qk (s : Streams) (k : Nat) : QK s (s.queueOpen k) := by
  unfold Streams.queueOpen Streams.qPush
  split
  · exact .refl _
  · dsimp only
    exact (modStream_qk' s k (fun st => st.setQueued .pendingOpen true) (fun _ => ⟨rfl, rfl⟩)).trans (setQ_fk _ _ _).toQK
theorem incNumSendStreams_qk (s : Streams) (k : Nat) : QK s (s.incNumSendStreams k) := ⟨fun j => by
  rw [(incNumSendStreams_raise s k).ppq_eq]; exact .refl _⟩
theorem incNumRecvStreams_qk (s : Streams) (k : Nat) : QK s (s.incNumRecvStreams k) := by
  unfold Streams.incNumRecvStreams
  dsimp only
  generalize hs1 : (if s.counts.canIncNumRecvStreams = true then s else s.panic _) = s1
  have h1 : QK s s1 := by rw [← hs1]; split; exact .refl _; exact (panic_fk _ _).toQK
  generalize hs2 : (if (s1.stream k).isCounted = true then s1.panic _ else s1) = s2
  have h2 : QK s1 s2 := by rw [← hs2]; split; exact (panic_fk _ _).toQK; exact .refl _
  exact ((h1.trans h2).trans (modCounts_fk _ _).toQK).trans (modStream_qk' _ k (fun st => { st with isCounted := true }) (fun _ => ⟨rfl, rfl⟩))

theorem transition_qk {α : Type} (s : Streams) (k : Nat) (f : Streams → Streams × α) (hf : ∀ s, QK s (f s).1) :
    QK s (s.transition k f).1 := by
  have : (s.transition k f).1 = (f s).1.transitionAfter k (s.stream k).isPendingResetExpiration := by
    unfold Streams.transition; rfl
  rw [this]
  exact (hf s).trans (transitionAfter_fk _ _ _).toQK

theorem sendHeaders_qk (s : Streams) (k : Nat) (eos : Bool) (f : List Hpack.Field) : QK s (s.sendHeaders k eos f).1 := by
  unfold Streams.sendHeaders; qk_auto
theorem refSendResponse_qk (s : Streams) (k : Nat) (f : List Hpack.Field) (eos : Bool) : QK s (s.refSendResponse k f eos).1 :=
  transition_qk s k _ (fun s => sendHeaders_qk s k eos f)
theorem popPendingOpen_qk (s : Streams) : QK s s.popPendingOpen.1 := by
  unfold Streams.popPendingOpen; qk_auto

theorem recvRecvHeaders_qk (s : Streams) (k : Nat) (h : HeadersIn) : QK s (s.recvRecvHeaders k h).1 := by
  unfold Streams.recvRecvHeaders
  split
  · exact .refl _
  · next st' isInitial heq =>
    dsimp only
    generalize hs1 : Streams.modStream s k _ = s1
    have h1 : QK s s1 := by rw [← hs1]; exact (modStream_fk _ _ _ (fun _ => by flg_fields)).toQK
    split
    · exact h1
    · generalize hs2 : (if (isInitial && !(s1.stream k).isCounted) = true then _ else s1) = s2
      have h2 : QK s s2 := by
        rw [← hs2]
        split
        · refine h1.trans (QK.trans ?_ (incNumRecvStreams_qk _ _))
          split
          · exact (modRecv_fk _ _).toQK
          · exact .refl _
        · exact h1
      qk_auto

-- ===================================================================== the operations that insert

theorem recvHeadersClosure_qk (k : Nat) (h : HeadersIn) (s : Streams) : QK s (recvHeadersClosure k h s).1 := by
  unfold recvHeadersClosure; qk_auto
theorem recvHeadersTail_qk (k : Nat) (h : HeadersIn) (s : Streams) : QK s (recvHeadersTail k h s).1 := by
  unfold recvHeadersTail
  dsimp only
  split
  · exact .refl _
  · split
    · exact .refl _
    · exact transition_qk s k _ (fun s => recvHeadersClosure_qk k h s)

theorem new_ppIds (id a b : Nat) : ppIdsOf (Stream.new id a b).pendingSend = [] := rfl

theorem recvHeaders_qk (s : Streams) (h : HeadersIn) : QK s (s.recvHeaders h).1 := by
  unfold Streams.recvHeaders
  dsimp only
  split
  · exact .refl _
  · cases hfk : s.store.findKey? h.sid with
    | some k => exact recvHeadersTail_qk k h s
    | none =>
      dsimp only
      by_cases hforg : (!s.counts.isServer && s.mayHaveForgottenStream h.sid) = true
      · simp only [hforg, if_true]; exact .refl _
      · simp only [hforg, Bool.false_eq_true, if_false]
        generalize hro : s.recvOpen h.sid false = p
        obtain ⟨s1, res⟩ := p
        have h1 : QK s s1 := (FK.of_fst_eq hro (recvOpen_fk s h.sid false)).toQK
        cases res with
        | error e => exact h1
        | ok b =>
          cases b
          · exact h1
          · simp only []
            exact (h1.trans (insert_qk s1 _ (new_ppIds _ _ _))).trans (recvHeadersTail_qk _ h _)

theorem innerSendReset_qk (s : Streams) (id : Nat) (r : Reason) : QK s (s.innerSendReset id r).1 := by
  unfold Streams.innerSendReset
  dsimp only
  split
  · exact (actionsSendReset_fk _ _ _ _).toQK
  · dsimp only
    generalize hs1 : (if s.counts.isLocalInit id = true then s.sendMaybeResetNextStreamId id else s.recvMaybeResetNextStreamId id) = s1
    have h1 : QK s s1 := by
      rw [← hs1]; split
      · exact (sendMaybeResetNextStreamId_fk _ _).toQK
      · exact (recvMaybeResetNextStreamId_fk _ _).toQK
    exact (h1.trans (insert_qk s1 _ (new_ppIds _ _ _))).trans (actionsSendReset_fk _ _ _ _).toQK

theorem sendRequestCore_qk (isHead : Bool) (fields : List Hpack.Field) (eos : Bool) (s : Streams) :
    QK s (sendRequestCore isHead fields eos s).1 := by
  unfold sendRequestCore
  generalize hso : s.sendOpenId = p
  obtain ⟨s1, r⟩ := p
  have h1 : QK s s1 := (FK.of_fst_eq hso (sendOpenId_fk s)).toQK
  cases r with
  | error e => exact h1
  | ok id =>
    simp only []
    generalize hsP : (if s1.store.contains id = true then s1.panic _ else s1) = sP
    have hP : QK s sP := by
      rw [← hsP]; split
      · exact h1.trans (panic_fk _ _).toQK
      · exact h1
    generalize hst : (if isHead = true then _ else Stream.new id s1.actions.send.initWindowSz s1.recv.initWindowSz) = st
    have hnil : ppIdsOf st.pendingSend = [] := by rw [← hst]; split <;> rfl
    have h2 := hP.trans (insert_qk sP st hnil)
    generalize hsh : Streams.sendHeaders _ (sP.store.insert st).2 eos fields = q
    obtain ⟨s3, r3⟩ := q
    have h3 : QK s s3 := h2.trans (QK.of_fst_eq hsh (sendHeaders_qk _ _ _ _))
    cases r3 with
    | error e => exact h3.trans (unlinkRemove_qk _ _ _)
    | ok u =>
      simp only []
      exact h3.trans ((setMisc_qk s3 s3.actions (s3.refs + 1) s3.recvBufferLeaked s3.wakes s3.unsupported).trans (refInc_fk _ _).toQK)

theorem sendRequest_qk (s : Streams) (isHead : Bool) (fields : List Hpack.Field) (eos : Bool) (pending : Option Nat) :
    QK s (s.sendRequest isHead fields eos pending).1 := by
  rcases sendRequest_cases s isHead fields eos pending with e | e
  · rw [e]; exact .refl _
  · rw [e]; exact sendRequestCore_qk isHead fields eos s

theorem recvPushPromise_qk (s : Streams) (id : Nat) (h : HeadersIn) : QK s (s.recvPushPromise id h).1 := by
  unfold Streams.recvPushPromise
  qk_auto

-- ===================================================================== the write path

theorem emitC_fk' {sd : Stream → Nat → Nat → Stream × List String × Bool} (hsd : SdNP sd) {s : Streams} {id len : Nat}
    {f : SFrame} {rest : List SFrame} (hps : (s.stream id).pendingSend = f :: rest) : FK s (ConnFlowP.emitC sd s id len rest) := by
  unfold ConnFlowP.emitC
  dsimp only
  have h1 : FK s (s.modStream id fun st => { st with pendingSend := rest }) := modStream_fk' _ _ _ (popRest_flg hps)
  generalize (s.modStream id fun st => { st with pendingSend := rest }) = s1 at h1 ⊢
  have hflg := hsd.flg (s1.stream id) len s1.prio.maxBufferSize
  generalize sd (s1.stream id) len s1.prio.maxBufferSize = p at hflg ⊢
  obtain ⟨st', w, bad⟩ := p
  dsimp only at hflg ⊢
  have h2 : FK s (s1.setStream st') := h1.trans (setStream_fk s1 st' (by rw [hflg.key, stream_key]; exact hflg))
  fk_auto

theorem finish_qk {s' t : Streams} (id : Nat) (c : Prop) [Decidable c] (b : Bool) (h : QK s' t) :
    QK s' ((if c then (t.qPush .pendingSend id).1 else t).transitionAfter id b) := by
  refine QK.trans ?_ (transitionAfter_fk _ _ _).toQK
  split
  · exact h.trans (qPush_fk _ _ _ (by decide)).toQK
  · exact h

theorem ppActivate_qk (s : Streams) (k : Nat) : QK s (ppActivate s k) := by
  unfold ppActivate; qk_auto

set_option hygiene false in
local macro "qk_data_rest" : tactic => `(tactic|
  (split
   · exact ih _ _
   · split
     · exact ih _ _
     · exact finish_qk id _ _ (emitC_fk' hsd hps).toQK))

theorem popFrameC_qk (sd : Stream → Nat → Nat → Stream × List String × Bool) (hsd : SdNP sd) (fuel : Nat) :
    ∀ (s : Streams) (maxLen : Nat), QK s (ConnFlowP.popFrameC sd fuel s maxLen).1 := by
  induction fuel with
  | zero => intro s m; rw [ConnFlowP.popFrameC_zero]; exact .refl _
  | succ n ih =>
    intro s maxLen
    rw [ConnFlowP.popFrameC_succ']
    split
    · next s' heq => exact (FK.of_fst_eq heq (qPop_fk _ _)).toQK
    · next s' id heq =>
      refine QK.trans (FK.of_fst_eq heq (qPop_fk _ _)).toQK ?_
      dsimp only
      split
      · next sz eos rest hps =>
        split
        · split
          · refine QK.trans ?_ (ih _ _)
            qk_auto
          · qk_data_rest
        · simp only [Bool.false_eq_true, if_false]
          qk_data_rest
      · next heos fields rest hps => exact finish_qk id _ _ (modStream_fk' _ _ _ (popRest_flg hps)).toQK
      · next reason rest hps => exact finish_qk id _ _ (modStream_fk' _ _ _ (popRest_flg hps)).toQK
      · next pk pid fields rest hps =>
        split
        · exact (finish_qk id _ _ (modStream_fk' _ _ _ (popRest_flg hps)).toQK).trans (ih _ _)
        · exact finish_qk id _ _ ((modStream_fk' _ _ _ (popRest_flg hps)).toQK.trans (ppActivate_qk _ _))
      · split
        · exact finish_qk id _ _ (modStreamW_fk _ _ _ (fun _ => by flg_tac)).toQK
        · exact (transitionAfter_fk _ _ _).toQK.trans (ih _ _)

theorem popFrame_qk (fuel : Nat) (s : Streams) (maxLen : Nat) : QK s (Streams.popFrame fuel s maxLen).1 := by
  rw [ConnFlowP.popFrameC.eq]; exact popFrameC_qk _ sdNP_sendData fuel s maxLen

theorem reclaimFrameInner_qk (s : Streams) (fr : DataFrame) : QK s (s.reclaimFrameInner fr).1 := by
  unfold Streams.reclaimFrameInner
  dsimp only
  have h0 : QK s (s.modPrio fun p => { p with inFlightDataFrame := .nothing }) := .of_store rfl
  generalize (s.modPrio fun p => { p with inFlightDataFrame := .nothing }) = s0 at h0 ⊢
  split
  · exact h0.trans (panic_fk _ _).toQK
  · exact h0
  · split
    · have h1 : QK s0 (s0.modStream fr.key fun st => { st with pendingSend := .data fr.rest fr.eos :: st.pendingSend }) :=
        (modStream_fk s0 fr.key (fun st => { st with pendingSend := .data fr.rest fr.eos :: st.pendingSend }) (fun x => ⟨rfl, id, id, id, by
          show (ppIdsOf (.data fr.rest fr.eos :: x.pendingSend)).Sublist _
          rw [ppIdsOf_data]; exact .refl _⟩)).toQK
      split
      · exact (h0.trans h1).trans (qPush_fk _ _ _ (by decide)).toQK
      · exact h0.trans h1
    · exact h0
theorem reclaimFrame_qk (s : Streams) (w : Writer) : QK s (s.reclaimFrame w).1 := by
  unfold Streams.reclaimFrame; qk_auto
theorem bufferOut_qk (s : Streams) (w : Writer) (f : Streams.OutFrame) : QK s (s.bufferOut w f).1 := by
  unfold Streams.bufferOut
  cases f with
  | data len e fr =>
    dsimp only
    split
    · exact .of_store rfl
    · exact .of_store (panic_store _ _)
  | headers sid eos fields => exact .refl _
  | reset sid reason => exact .refl _
  | pushPromise sid p fields => exact .refl _
theorem prioBufferPendingLoop_qk (n : Nat) : ∀ (s : Streams) (w : Writer), QK s (Streams.prioBufferPendingLoop n s w).1 := by
  induction n with
  | zero => intro s w; unfold Streams.prioBufferPendingLoop; exact (panic_fk _ _).toQK
  | succ n ih => intro s w; unfold Streams.prioBufferPendingLoop; qk_auto_ih ih
theorem prioBufferPending_qk (n : Nat) (s : Streams) (w : Writer) : QK s (Streams.prioBufferPending n s w).1 := by
  unfold Streams.prioBufferPending; qk_auto
theorem bufferPending_qk (n : Nat) (s : Streams) (w : Writer) : QK s (Streams.bufferPending n s w).1 := by
  unfold Streams.bufferPending; qk_auto
theorem pollComplete_qk (n : Nat) : ∀ (s : Streams) (w : Writer) (io : Tio) (t : String), QK s (Streams.pollComplete n s w io t).1 := by
  induction n with
  | zero => intro s w io t; unfold Streams.pollComplete; exact (panic_fk _ _).toQK
  | succ n ih => intro s w io t; unfold Streams.pollComplete; qk_auto_ih ih

-- ===================================================================== the step theorem

theorem NoPPQ_blank {s : Streams} (h : Blank s) : NoPPQ s := fun k => by
  unfold ppq Streams.stream Store.get?; rw [h.slab]; rfl

/-- every operation except `send_push_promise` is `QK` -/
theorem op_qk (s : Streams) (op : Op) (hne : ∀ p v f, op ≠ .refSendPushPromise p v f) : QK s (op.apply s) := by
  cases op
  case recvHeaders h => exact recvHeaders_qk _ _
  case recvData id p eos pad => exact (recvData_fk _ _ _ _ _).toQK
  case recvReset id r => exact (recvReset_fk _ _ _).toQK
  case recvWindowUpdate id inc => exact (recvWindowUpdate_fk _ _ _).toQK
  case recvPushPromise id h => exact recvPushPromise_qk _ _ _
  case handleError e => exact (handleError_fk _ _).toQK
  case recvGoAwayFrame l r d => exact (recvGoAwayFrame_fk _ _ _ _).toQK
  case recvGoAway l => exact (recvGoAway_fk _ _).toQK
  case recvEof b => exact (recvEof_fk _ _).toQK
  case innerSendReset id r => exact innerSendReset_qk _ _ _
  case setTargetConnectionWindow t => exact (setTargetConnectionWindow_fk _ _).toQK
  case applyRemoteSettings v b => exact (applyRemoteSettings_fk _ _ _).toQK
  case applyLocalSettingsFrame v => exact (applyLocalSettingsFrame_fk _ _).toQK
  case pollComplete fuel w io tag => exact pollComplete_qk _ _ _ _ _
  case pollSendPendingRefusal fuel w io tag => exact (pollSendPendingRefusal_fk _ _ _ _ _).toQK
  case clearExpiredResetStreams n => exact (clearExpiredResetStreams_fk _ _).toQK
  case wake t => exact (wake_fk _ _).toQK
  case clearWakes => exact .of_store rfl
  case panic m => exact (panic_fk _ _).toQK
  case cloneHandle => exact (cloneHandle_fk _).toQK
  case dropHandle => exact (dropHandle_fk _).toQK
  case sendRequest a b c d => exact sendRequest_qk _ _ _ _ _
  case pollPendingOpen p t => exact (pollPendingOpen_fk _ _ _).toQK
  case nextIncoming => exact (nextIncoming_fk _).toQK
  case recvTakeRequest k => exact (recvTakeRequest_fk _ _).toQK
  case cloneStreamRef k => exact (cloneStreamRef_fk _ _).toQK
  case dropStreamRef k => exact (dropStreamRef_fk _ _).toQK
  case refSendResponse k f eos => exact refSendResponse_qk _ _ _ _
  case refSendInformationalHeaders k f => exact (refSendInformationalHeaders_fk _ _ _).toQK
  case refSendPushPromise p v f => exact absurd rfl (hne p v f)
  case refSendData k len eos => exact (refSendData_fk _ _ _ _).toQK
  case refSendTrailers k f => exact (refSendTrailers_fk _ _ _).toQK
  case refReserveCapacity k c => exact (refReserveCapacity_fk _ _ _).toQK
  case pollCapacity k t => exact (pollCapacity_fk _ _ _).toQK
  case refSendReset k r => exact (refSendReset_fk _ _ _).toQK
  case pollReset k m t => exact (pollReset_fk _ _ _ _).toQK
  case recvPollResponse fuel k t => exact (recvPollResponse_fk _ _ _ _).toQK
  case recvPollInformational k t => exact (recvPollInformational_fk _ _ _).toQK
  case refPollData k t => exact (refPollData_fk _ _ _).toQK
  case recvPollTrailers k t => exact (recvPollTrailers_fk _ _ _).toQK
  case refReleaseCapacity k c => exact (refReleaseCapacity_fk _ _ _).toQK
  case refClearRecvBuffer k => exact (refClearRecvBuffer_fk _ _).toQK

/-- **`NoPPQ` is kept by every operation except `send_push_promise`** (no hypothesis on the state is needed) -/
theorem NoPPQ_step {s : Streams} (h : NoPPQ s) (op : Op) (hne : ∀ p v f, op ≠ .refSendPushPromise p v f) :
    NoPPQ (op.apply s) := (op_qk s op hne).noPPQ h

end H2V.Lemmas.ConnNoPanicP
