import H2V.Lemmas.ConnNoPanicPDsPoll
import H2V.Lemmas.ConnNoPanicPAccAll
/-
  C08 (no panic) — `DSum` / `Coupled` as invariants, part 9: what is known about the residual hypothesis `OH`
  ("no stream that waits in `pending_open` has DATA at the front of its queue").

  * `OH` is kept by every operation of the stream layer EXCEPT the five that queue the first HEADERS of a locally
    initiated stream, queue DATA, or pop frames: `recvHeaders` (its 431 answer), `sendRequest`, `refSendResponse`
    (`send_headers` → `queue_open`), `refSendData`, `pollComplete` (`OH_step_partial`).
  * without the typing precondition on `refSendInformationalHeaders` (the method exists on `SendResponse` only, not on
    `SendPushedResponse`) `OH` and `DSum` are NOT invariants: `oh_counterexample`.  A 1xx head queued on a pushed stream puts
    it into `pending_send` while `send_response` then also puts it into `pending_open`; with the peer's
    `max_concurrent_streams = 0` the two HEADERS go out while the stream is still `is_pending_open`; DATA queued now is at the
    front of the queue, and `send_reset`'s `pending_open` branch keeps it while zeroing `buffered_send_data`.
-/
namespace H2V.Lemmas.ConnNoPanicP
open H2V H2V.Model H2V.Model.Conn H2V.Lemmas.ConnCountsP
open H2V.Lemmas.ConnResetP (Op run)
attribute [local irreducible] wrapSubU32 wrapSubUsize

/-- `GK` (hence `UK`, and every operation outside the write path) is a step of np-poll's frame relation `DK` -/
theorem GK.toDK {s s' : Streams} (h : GK s s') : DK s s' := ⟨h.ds⟩

theorem clearQueue_go (s : Streams) (k : Nat) : GKo s (s.clearQueue k) :=
  ⟨fun ho => ⟨clearQueue_gk s k, clearQueue_oh s k ho⟩⟩
theorem sendHandleError_go (s : Streams) (k : Nat) : GKo s (s.sendHandleError k) := by
  unfold Streams.sendHandleError; go_auto
theorem recvReset_go (s : Streams) (id : Nat) (r : Reason) : GKo s (s.recvReset id r).1 := by
  unfold Streams.recvReset; go_auto
theorem handleError_go (s : Streams) (e : PErr) : GKo s (s.handleError e).1 := by
  unfold Streams.handleError; go_auto
theorem recvGoAwayFrame_go (s : Streams) (l : Nat) (r : Reason) (d : Bytes) : GKo s (s.recvGoAwayFrame l r d).1 := by
  unfold Streams.recvGoAwayFrame; go_auto
theorem recvEof_go (s : Streams) (b : Bool) : GKo s (s.recvEof b) := by
  unfold Streams.recvEof; go_auto

/-- the operations for which the preservation of `OH` is NOT shown here -/
def opOhOpen : Op → Prop
  | .recvHeaders _ => True
  | .sendRequest .. => True
  | .refSendResponse .. => True
  | .refSendData .. => True
  | .pollComplete .. => True
  | _ => False

/-- **`OH` is kept by every operation other than the five of `opOhOpen`** -/
theorem OH_step_partial (s : Streams) (op : Op) (hk : KeysFresh s) (ho : OH s) (hx : ¬ opOhOpen op) : OH (op.apply s) := by
  cases op
  case recvHeaders h => exact absurd trivial hx
  case sendRequest a b c d => exact absurd trivial hx
  case refSendResponse k f eos => exact absurd trivial hx
  case refSendData k len eos => exact absurd trivial hx
  case pollComplete => exact absurd trivial hx
  case recvData id p eos pad => exact ((recvData_go s id p eos pad).imp ho).2
  case recvReset id r => exact ((recvReset_go s id r).imp ho).2
  case recvWindowUpdate id inc => exact ((recvWindowUpdate_go s id inc).imp ho).2
  case recvPushPromise id h => exact ((recvPushPromise_go s id h).imp ho).2
  case handleError e => exact ((handleError_go s e).imp ho).2
  case recvGoAwayFrame l r d => exact ((recvGoAwayFrame_go s l r d).imp ho).2
  case recvGoAway l => exact (recvGoAway_uk s l).oh ho
  case recvEof c => exact ((recvEof_go s c).imp ho).2
  case innerSendReset id r => exact ((innerSendReset_go s id r).imp ho).2
  case setTargetConnectionWindow t => exact (setTargetConnectionWindow_uk s t).oh ho
  case applyRemoteSettings v b => exact ((applyRemoteSettings_go s v b).imp ho).2
  case applyLocalSettingsFrame v => exact (applyLocalSettingsFrame_uk s v).oh ho
  case pollSendPendingRefusal n w io t => exact (pollSendPendingRefusal_uk n s w io t).oh ho
  case clearExpiredResetStreams n => exact (clearExpiredResetStreams_uk n s).oh ho
  case wake t => exact (wake_uk s t).oh ho
  case clearWakes => exact (UK.of_eqs (s := s) (s' := { s with wakes := [] }) rfl rfl).oh ho
  case panic m => exact (panic_uk s m).oh ho
  case cloneHandle => exact (cloneHandle_uk s).oh ho
  case dropHandle => exact (dropHandle_uk s).oh ho
  case pollPendingOpen p t => exact (pollPendingOpen_uk s p t).oh ho
  case nextIncoming => exact (nextIncoming_uk s).oh ho
  case recvTakeRequest k => exact (recvTakeRequest_uk s k).oh ho
  case cloneStreamRef k => exact (cloneStreamRef_uk s k).oh ho
  case dropStreamRef k => exact (dropStreamRef_uk s k).oh ho
  case refSendInformationalHeaders k f => exact (refSendInformationalHeaders_uk s k f).oh ho
  case refSendPushPromise p v f => exact (refSendPushPromise_uk s hk p v f).oh ho
  case refSendTrailers k f => exact (refSendTrailers_uk s k f).oh ho
  case refReserveCapacity k c => exact (refReserveCapacity_uk s k c).oh ho
  case pollCapacity k t => exact (pollCapacity_uk s k t).oh ho
  case refSendReset k r => exact ((refSendReset_go s k r).imp ho).2
  case pollReset k m t => exact (pollReset_uk s k m t).oh ho
  case recvPollResponse n k t => exact (recvPollResponse_uk n s k t).oh ho
  case recvPollInformational k t => exact (recvPollInformational_uk s k t).oh ho
  case refPollData k t => exact (refPollData_uk s k t).oh ho
  case recvPollTrailers k t => exact (recvPollTrailers_uk s k t).oh ho
  case refReleaseCapacity k c => exact (refReleaseCapacity_uk s k c).oh ho
  case refClearRecvBuffer k => exact (refClearRecvBuffer_uk s k).oh ho

-- ===================================================================== why the typing precondition is needed

/-- a new server connection whose peer allows no pushed stream to be opened (`max_concurrent_streams = 0`) -/
def ohInit : Streams :=
  { counts := { isServer := true, maxSendStreams := 0 },
    actions := { recv := { nextStreamId := some 1, flow := { windowSize := { val := 65535 }, available := { val := 65535 } } },
                 send := { nextStreamId := some 2 } } }

/-- request on stream 1, accepted; stream 2 is promised and the PUSH_PROMISE written; a 1xx head is queued ON THE PUSHED
    STREAM (not possible through `SendPushedResponse`), then its response head; both go out; DATA is queued; the stream is reset -/
def ohOps : List Op :=
  [.recvHeaders cxReq, .nextIncoming, .refSendPushPromise 0 true [], .pollComplete 10 {} {} "t",
   .refSendInformationalHeaders 1 [], .refSendResponse 1 [] false, .pollComplete 10 {} {} "t",
   .refSendData 1 10 false, .refSendReset 1 8]

set_option maxRecDepth 16000 in
/-- **without the typing precondition `DSum` is not an invariant**: after `ohOps` the pushed stream (key 1) still waits in
    `pending_open`, its queue is `[DATA(10), RST_STREAM]`, and `buffered_send_data = 0`; nothing has panicked. -/
theorem oh_counterexample :
    (run ohInit ohOps).panicked = none ∧ ((run ohInit ohOps).stream 1).isPendingOpen = true ∧
    ((run ohInit ohOps).stream 1).pendingSend = [.data 10 false, .reset 8] ∧
    ((run ohInit ohOps).stream 1).bufferedSendData = 0 ∧
    ((run ohInit (ohOps.take 8)).stream 1).pendingSend = [.data 10 false] ∧
    ((run ohInit (ohOps.take 8)).stream 1).isPendingOpen = true := by
  refine ⟨?_, ?_, ?_, ?_, ?_, ?_⟩ <;> decide +kernel

theorem oh_counterexample_not_dsum : ¬ DSum (run ohInit ohOps) := by
  intro h
  have := (h 1).1
  rw [oh_counterexample.2.2.1, oh_counterexample.2.2.2.1] at this
  simp [dsum] at this

end H2V.Lemmas.ConnNoPanicP
