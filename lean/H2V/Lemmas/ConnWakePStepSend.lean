import H2V.Lemmas.ConnWakePPrim
namespace H2V.Lemmas.ConnWakeP
open H2V H2V.Model H2V.Model.Conn

/-- hide the wrapping `u32`/`usize` helpers behind variables: conditions built from them
    (`x % 2^32 + 2^32 - y % 2^32` …) must never reach the kernel's evaluator -/
macro "opaque_arith" : tactic => `(tactic|
  (try generalize wrapSubU32 = wsub32 at *
   try generalize wrapSubUsize = wsubsz at *
   try generalize wrapAddU32 = wadd32 at *
   try generalize usizeAsU32 = asu32 at *))

macro "step_grind" : tactic => `(tactic| (opaque_arith; grind (gen := 60) (ematch := 40) (splits := 40)))

section
variable {cx : Option String} {s0 s : Streams}

theorem setQueued_inert (a : Stream) (q : QName) (v : Bool) : Inert a (a.setQueued q v) := by
  cases q <;> inert
attribute [grind ←] setQueued_inert

@[grind ←] theorem qPush_acc (q : QName) (k : Nat) (h : Step cx s0 s) : Step cx s0 (s.qPush q k).1 := by
  unfold Streams.qPush; step_grind
@[grind ←] theorem qPushFront_acc (q : QName) (k : Nat) (h : Step cx s0 s) : Step cx s0 (s.qPushFront q k).1 := by
  unfold Streams.qPushFront; step_grind
@[grind ←] theorem qPop_acc (q : QName) (h : Step cx s0 s) : Step cx s0 (s.qPop q).1 := by
  unfold Streams.qPop; step_grind
@[grind ←] theorem incNumSendStreams_acc (k : Nat) (h : Step cx s0 s) : Step cx s0 (s.incNumSendStreams k) := by
  unfold Streams.incNumSendStreams; step_grind
@[grind ←] theorem incNumRecvStreams_acc (k : Nat) (h : Step cx s0 s) : Step cx s0 (s.incNumRecvStreams k) := by
  unfold Streams.incNumRecvStreams; step_grind
@[grind ←] theorem decNumStreams_acc (k : Nat) (h : Step cx s0 s) : Step cx s0 (s.decNumStreams k) := by
  unfold Streams.decNumStreams; step_grind
@[grind ←] theorem transitionAfter_acc (k : Nat) (b : Bool) (h : Step cx s0 s) : Step cx s0 (s.transitionAfter k b) := by
  unfold Streams.transitionAfter; step_grind

-- ===================================================================== prioritize.rs
@[grind ←] theorem scheduleSend_acc (k : Nat) (h : Step cx s0 s) : Step cx s0 (s.scheduleSend k) := by
  unfold Streams.scheduleSend; step_grind
@[grind ←] theorem queueFrame_acc (k : Nat) (f : SFrame) (h : Step cx s0 s) : Step cx s0 (s.queueFrame k f) := by
  unfold Streams.queueFrame; step_grind
@[grind ←] theorem queueOpen_acc (k : Nat) (h : Step cx s0 s) : Step cx s0 (s.queueOpen k) := by
  unfold Streams.queueOpen; step_grind
@[grind ←] theorem tryAssignCapacity_acc (k : Nat) (h : Step cx s0 s) : Step cx s0 (s.tryAssignCapacity k) := by
  unfold Streams.tryAssignCapacity; step_grind
@[grind ←] theorem assignConnectionCapacityLoop_acc (n : Nat) (h : Step cx s0 s) :
    Step cx s0 (Streams.assignConnectionCapacityLoop n s) := by
  induction n generalizing s with
  | zero => unfold Streams.assignConnectionCapacityLoop; exact h
  | succ n ih => unfold Streams.assignConnectionCapacityLoop; step_grind
@[grind ←] theorem assignConnectionCapacity_acc (inc : Nat) (h : Step cx s0 s) : Step cx s0 (s.assignConnectionCapacity inc) := by
  unfold Streams.assignConnectionCapacity; step_grind
@[grind ←] theorem reserveCapacity_acc (k c : Nat) (h : Step cx s0 s) : Step cx s0 (s.reserveCapacity k c) := by
  unfold Streams.reserveCapacity; step_grind

@[grind ←] theorem prioSendData_acc (k len : Nat) (eos : Bool) (h : Step cx s0 s) : Step cx s0 (s.prioSendData k len eos).1 := by
  unfold Streams.prioSendData; step_grind
@[grind ←] theorem prioRecvStreamWindowUpdate_acc (k inc : Nat) (h : Step cx s0 s) :
    Step cx s0 (s.prioRecvStreamWindowUpdate k inc).1 := by
  unfold Streams.prioRecvStreamWindowUpdate; step_grind
@[grind ←] theorem recvConnectionWindowUpdate_acc (inc : Nat) (h : Step cx s0 s) :
    Step cx s0 (s.recvConnectionWindowUpdate inc).1 := by
  unfold Streams.recvConnectionWindowUpdate; step_grind
@[grind ←] theorem reclaimAllCapacity_acc (k : Nat) (h : Step cx s0 s) : Step cx s0 (s.reclaimAllCapacity k) := by
  unfold Streams.reclaimAllCapacity; step_grind
@[grind ←] theorem reclaimReservedCapacity_acc (k : Nat) (h : Step cx s0 s) : Step cx s0 (s.reclaimReservedCapacity k) := by
  unfold Streams.reclaimReservedCapacity; step_grind
@[grind ←] theorem clearPendingCapacity_acc (n : Nat) (h : Step cx s0 s) : Step cx s0 (Streams.clearPendingCapacity n s) := by
  induction n generalizing s with
  | zero => unfold Streams.clearPendingCapacity; exact h
  | succ n ih => unfold Streams.clearPendingCapacity; step_grind
@[grind ←] theorem clearQueue_acc (k : Nat) (h : Step cx s0 s) : Step cx s0 (s.clearQueue k) := by
  unfold Streams.clearQueue; step_grind
@[grind ←] theorem clearPendingSend_acc (n : Nat) (h : Step cx s0 s) : Step cx s0 (Streams.clearPendingSend n s) := by
  induction n generalizing s with
  | zero => unfold Streams.clearPendingSend; exact h
  | succ n ih => unfold Streams.clearPendingSend; step_grind
@[grind ←] theorem clearPendingOpen_acc (n : Nat) (h : Step cx s0 s) : Step cx s0 (Streams.clearPendingOpen n s) := by
  induction n generalizing s with
  | zero => unfold Streams.clearPendingOpen; exact h
  | succ n ih => unfold Streams.clearPendingOpen; step_grind
@[grind ←] theorem popPendingOpen_acc (h : Step cx s0 s) : Step cx s0 s.popPendingOpen.1 := by
  unfold Streams.popPendingOpen; step_grind
@[grind ←] theorem reclaimFrameInner_acc (f : DataFrame) (h : Step cx s0 s) : Step cx s0 (s.reclaimFrameInner f).1 := by
  unfold Streams.reclaimFrameInner; step_grind
@[grind ←] theorem reclaimFrame_acc (w : Writer) (h : Step cx s0 s) : Step cx s0 (s.reclaimFrame w).1 := by
  unfold Streams.reclaimFrame; step_grind
@[grind ←] theorem bufferOut_acc (w : Writer) (f : Streams.OutFrame) (h : Step cx s0 s) : Step cx s0 (s.bufferOut w f).1 := by
  unfold Streams.bufferOut; step_grind

@[grind =] theorem stream_key (s : Streams) (k : Nat) : (s.stream k).key = k := by
  unfold Streams.stream
  cases h : s.store.get? k with
  | none => rfl
  | some a => exact Store.get?_key h

theorem Store.set_of_none {st : Store} {b : Stream} (h : st.get? b.key = none) : st.set b = st := by
  unfold Store.set
  have : ∀ x ∈ st.slab, (if x.key == b.key then b else x) = x := by
    intro x hx
    have := List.find?_eq_none.mp h x hx
    simp at this
    simp [this]
  rw [List.map_congr_left this]; simp

theorem setStream_wake_acc' (b : Stream) (w : List String) (hb : SStep w (s.stream b.key) b) (h : Step cx s0 s) :
    Step cx s0 ((s.setStream b).wake w) := by
  cases hg : s.store.get? b.key with
  | none =>
    have : s.setStream b = s := by unfold Streams.setStream; rw [Store.set_of_none hg]
    rw [this]; exact wake_acc w h
  | some a =>
    rw [stream_eq_of_get? hg] at hb
    exact h.trans (setStream_wake_step cx s hg hb)

theorem setStream_wake_acc (k : Nat) (b : Stream) (w : List String) (hb : SStep w (s.stream k) b) (h : Step cx s0 s) :
    Step cx s0 ((s.setStream b).wake w) := by
  have hk : b.key = k := by rw [hb.key, stream_key]
  subst hk; exact setStream_wake_acc' b w hb h
grind_pattern setStream_wake_acc => SStep w (s.stream k) b, Step cx s0 ((s.setStream b).wake w)

@[grind ←] theorem pfFinish_acc (k : Nat) (b : Bool) (f : Streams.OutFrame) (h : Step cx s0 s) :
    Step cx s0 (pfFinish k b s f).1 := by
  unfold pfFinish; step_grind

theorem pfData_acc (sd : Stream → Nat → Nat → Stream × List String × Bool)
    (hsd : ∀ a len m, ∃ b w f, sd a len m = (b, w, f) ∧ SStep w a b) (k len : Nat) (rest : List SFrame)
    (h : Step cx s0 s) : Step cx s0 (pfData sd s k len rest) := by
  unfold pfData
  obtain ⟨b, w, f, hb, hs⟩ := hsd ((s.modStream k fun st => { st with pendingSend := rest }).stream k) len
    (s.modStream k fun st => { st with pendingSend := rest }).prio.maxBufferSize
  simp only [hb]
  clear hsd hb
  step_grind

theorem popFrameC_acc (sd : Stream → Nat → Nat → Stream × List String × Bool)
    (hsd : ∀ a len m, ∃ b w f, sd a len m = (b, w, f) ∧ SStep w a b) (n m : Nat) (h : Step cx s0 s) :
    Step cx s0 (popFrameC sd n s m).1 := by
  induction n generalizing s with
  | zero => rw [popFrameC_zero]; exact h
  | succ n ih =>
    rw [popFrameC_succ]
    have hd : ∀ {s : Streams} (k len : Nat) (rest : List SFrame), Step cx s0 s → Step cx s0 (pfData sd s k len rest) :=
      fun k len rest h => pfData_acc sd hsd k len rest h
    clear hsd
    step_grind

@[grind ←] theorem popFrame_acc (n m : Nat) (h : Step cx s0 s) : Step cx s0 (Streams.popFrame n s m).1 := by
  rw [popFrameC.eq]; exact popFrameC_acc _ sendData_sstep n m h

@[grind ←] theorem prioBufferPendingLoop_acc (n : Nat) (w : Writer) (h : Step cx s0 s) :
    Step cx s0 (Streams.prioBufferPendingLoop n s w).1 := by
  induction n generalizing s w with
  | zero => unfold Streams.prioBufferPendingLoop; step_grind
  | succ n ih => unfold Streams.prioBufferPendingLoop; step_grind
@[grind ←] theorem prioBufferPending_acc (n : Nat) (w : Writer) (h : Step cx s0 s) :
    Step cx s0 (Streams.prioBufferPending n s w).1 := by
  unfold Streams.prioBufferPending; step_grind

-- ===================================================================== send.rs
@[grind ←] theorem sendOpenId_acc (h : Step cx s0 s) : Step cx s0 s.sendOpenId.1 := by
  unfold Streams.sendOpenId; step_grind
@[grind ←] theorem sendHeaders_acc (k : Nat) (eos : Bool) (f : List Hpack.Field) (h : Step cx s0 s) :
    Step cx s0 (s.sendHeaders k eos f).1 := by
  unfold Streams.sendHeaders; step_grind
@[grind ←] theorem sendReserveLocal_acc (h : Step cx s0 s) : Step cx s0 s.sendReserveLocal.1 := by
  unfold Streams.sendReserveLocal; step_grind
@[grind ←] theorem sendPushPromise_acc (p pk pid : Nat) (f : List Hpack.Field) (h : Step cx s0 s) :
    Step cx s0 (s.sendPushPromise p pk pid f).1 := by
  unfold Streams.sendPushPromise; step_grind
@[grind ←] theorem sendInterimInformationalHeaders_acc (k : Nat) (f : List Hpack.Field) (h : Step cx s0 s) :
    Step cx s0 (s.sendInterimInformationalHeaders k f).1 := by
  unfold Streams.sendInterimInformationalHeaders; step_grind
@[grind ←] theorem sendSendReset_acc (k : Nat) (r : Reason) (i : Initiator) (h : Step cx s0 s) :
    Step cx s0 (s.sendSendReset k r i) := by
  unfold Streams.sendSendReset; step_grind
@[grind ←] theorem scheduleImplicitReset_acc (k : Nat) (r : Reason) (h : Step cx s0 s) :
    Step cx s0 (s.scheduleImplicitReset k r) := by
  unfold Streams.scheduleImplicitReset; step_grind
@[grind ←] theorem sendTrailers_acc (k : Nat) (f : List Hpack.Field) (h : Step cx s0 s) :
    Step cx s0 (s.sendTrailers k f).1 := by
  unfold Streams.sendTrailers; step_grind
@[grind ←] theorem sendRecvStreamWindowUpdate_acc (k sz : Nat) (h : Step cx s0 s) :
    Step cx s0 (s.sendRecvStreamWindowUpdate k sz).1 := by
  unfold Streams.sendRecvStreamWindowUpdate; step_grind
@[grind ←] theorem sendRecvGoAway_acc (l : Nat) (h : Step cx s0 s) : Step cx s0 (s.sendRecvGoAway l).1 := by
  unfold Streams.sendRecvGoAway; step_grind
@[grind ←] theorem sendHandleError_acc (k : Nat) (h : Step cx s0 s) : Step cx s0 (s.sendHandleError k) := by
  unfold Streams.sendHandleError; step_grind

theorem tryForEach_acc (f : Streams → Nat → Streams × Option PErr)
    (hf : ∀ {s : Streams} (k : Nat), Step cx s0 s → Step cx s0 (f s k).1) (n i len : Nat) (h : Step cx s0 s) :
    Step cx s0 (Streams.tryForEach f n i len s).1 := by
  induction n generalizing s i len with
  | zero => unfold Streams.tryForEach; exact h
  | succ n ih => unfold Streams.tryForEach; step_grind
theorem storeTryForEach_acc (f : Streams → Nat → Streams × Option PErr)
    (hf : ∀ {s : Streams} (k : Nat), Step cx s0 s → Step cx s0 (f s k).1) (h : Step cx s0 s) :
    Step cx s0 (s.storeTryForEach f).1 := by
  unfold Streams.storeTryForEach; exact tryForEach_acc f hf _ _ _ h
theorem storeForEach_acc (f : Streams → Nat → Streams)
    (hf : ∀ {s : Streams} (k : Nat), Step cx s0 s → Step cx s0 (f s k)) (h : Step cx s0 s) :
    Step cx s0 (s.storeForEach f) := by
  unfold Streams.storeForEach; exact storeTryForEach_acc _ (fun k h => hf k h) h
@[grind ←] theorem decStreamWindow_acc (dec acc k : Nat) (h : Step cx s0 s) :
    Step cx s0 (Streams.decStreamWindow dec acc s k).1 := by
  unfold Streams.decStreamWindow; step_grind
theorem tryForEachAcc_acc (f : Nat → Streams → Nat → Streams × Nat × Option PErr)
    (hf : ∀ {s : Streams} (a k : Nat), Step cx s0 s → Step cx s0 (f a s k).1) (n i len acc : Nat) (h : Step cx s0 s) :
    Step cx s0 (Streams.tryForEachAcc f n i len acc s).1 := by
  induction n generalizing s i len acc with
  | zero => unfold Streams.tryForEachAcc; exact h
  | succ n ih => unfold Streams.tryForEachAcc; step_grind
@[grind ←] theorem sendApplyRemoteSettings_acc (a b c : Option Nat) (h : Step cx s0 s) :
    Step cx s0 (s.sendApplyRemoteSettings a b c).1 := by
  unfold Streams.sendApplyRemoteSettings
  have h1 := @tryForEachAcc_acc cx s0
  have h2 := @storeTryForEach_acc cx s0
  step_grind
@[grind ←] theorem sendClearQueues_acc (h : Step cx s0 s) : Step cx s0 s.sendClearQueues := by
  unfold Streams.sendClearQueues; step_grind
@[grind ←] theorem sendMaybeResetNextStreamId_acc (k : Nat) (h : Step cx s0 s) :
    Step cx s0 (s.sendMaybeResetNextStreamId k) := by
  unfold Streams.sendMaybeResetNextStreamId; step_grind
end
end H2V.Lemmas.ConnWakeP
