import H2V.Lemmas.ConnFlowPSend
/-
  ConnFlowP, part 12 — the *window frame* relation `WFr`: a step that leaves the connection send
  window and the send window of every surviving stream alone (it may move *capacity* around, drop
  streams, add fresh ones).  Everything except `pop_frame`'s DATA arm, WINDOW_UPDATE and a
  SETTINGS_INITIAL_WINDOW_SIZE change is such a step; in particular all the `continue` paths of
  `pop_frame`.
-/
namespace H2V.Lemmas.ConnFlowP
open H2V H2V.Model H2V.Model.Conn H2V.Lemmas.Comp

/-- window frame on the store -/
def StoreWFr (a b : Store) : Prop :=
  KeysOk a → KeysOk b ∧ a.nextKey ≤ b.nextKey ∧
    ∀ y ∈ b.slab, (∃ x ∈ a.slab, x.key = y.key ∧ x.sendFlow.windowSize = y.sendFlow.windowSize) ∨ a.nextKey ≤ y.key

/-- the window frame relation -/
def WFr (s s' : Streams) : Prop :=
  s'.prio.flow.windowSize = s.prio.flow.windowSize ∧ StoreWFr s.store s'.store

theorem StoreWFr.trans {a b c : Store} (h1 : StoreWFr a b) (h2 : StoreWFr b c) : StoreWFr a c := by
  intro ha
  obtain ⟨hb, hn1, hs1⟩ := h1 ha
  obtain ⟨hc, hn2, hs2⟩ := h2 hb
  refine ⟨hc, Nat.le_trans hn1 hn2, fun y hy => ?_⟩
  rcases hs2 y hy with ⟨x, hx, hk, hf⟩ | hk
  · rcases hs1 x hx with ⟨w, hw, hk', hf'⟩ | hk'
    · exact Or.inl ⟨w, hw, hk'.trans hk, hf'.trans hf⟩
    · exact Or.inr (hk ▸ hk')
  · exact Or.inr (Nat.le_trans hn1 hk)

theorem WFr.refl (s : Streams) : WFr s s :=
  ⟨rfl, fun h => ⟨h, Nat.le_refl _, fun y hy => Or.inl ⟨y, hy, rfl, rfl⟩⟩⟩

theorem WFr.trans {a b c : Streams} (h1 : WFr a b) (h2 : WFr b c) : WFr a c :=
  ⟨h2.1.trans h1.1, h1.2.trans h2.2⟩

theorem Fr.wfr {s s' : Streams} (h : Fr s s') : WFr s s' := by
  refine ⟨by rw [h.1], fun hk => ?_⟩
  obtain ⟨hk', hn, hm⟩ := h.2.2 hk
  refine ⟨hk', hn, fun y hy => ?_⟩
  rcases hm y hy with ⟨x, hx, hkey, hf⟩ | ⟨hkey, _⟩
  · exact Or.inl ⟨x, hx, hkey, by rw [hf]⟩
  · exact Or.inr hkey

theorem WFr.fr {s t t' : Streams} (h : WFr s t) (h2 : Fr t t') : WFr s t' := h.trans h2.wfr

/-- a stream update that keeps key and window -/
@[reducible] def NoWin (f : Stream → Stream) : Prop :=
  ∀ x, (f x).key = x.key ∧ (f x).sendFlow.windowSize = x.sendFlow.windowSize
@[reducible] def NoWinW (f : Stream → Stream × List String) : Prop :=
  ∀ x, (f x).1.key = x.key ∧ (f x).1.sendFlow.windowSize = x.sendFlow.windowSize

theorem StoreWFr.set (a : Store) (st' : Stream)
    (h : ∀ x ∈ a.slab, x.key = st'.key → x.sendFlow.windowSize = st'.sendFlow.windowSize) : StoreWFr a (a.set st') := by
  intro ha
  have hkeys := set_keys a st'
  refine ⟨⟨by rw [hkeys]; exact ha.1, ?_⟩, Nat.le_refl _, ?_⟩
  · intro y hy
    obtain ⟨x, hx, hk⟩ := mem_of_map_key_eq hkeys hy
    show y.key < a.nextKey
    rw [← hk]; exact ha.2 x hx
  · intro y hy
    simp only [Store.set, List.mem_map] at hy
    obtain ⟨x, hx, rfl⟩ := hy
    split
    · rename_i hk
      exact Or.inl ⟨x, hx, beq_iff_eq.1 hk, h x hx (beq_iff_eq.1 hk)⟩
    · exact Or.inl ⟨x, hx, rfl, rfl⟩

section
variable {s t : Streams}

theorem WFr.modStream' {id : Nat} {f : Stream → Stream} (hf : NoWin f) (h : WFr s t) : WFr s (t.modStream id f) := by
  unfold Streams.modStream
  split
  · rename_i st hget
    refine h.trans ⟨rfl, ?_⟩
    intro hk
    have hm := get?_mem hget
    refine StoreWFr.set _ _ ?_ hk
    intro x hx hxk
    have : x = st := key_inj hk.1 hx hm.1 (hxk.trans (hf st).1)
    rw [this, (hf st).2]
  · exact h.fr ((Fr.refl _).panic _)

theorem WFr.modStreamW' {id : Nat} {f : Stream → Stream × List String} (hf : NoWinW f) (h : WFr s t) :
    WFr s (t.modStreamW id f) := by
  unfold Streams.modStreamW
  split
  · rename_i st hget
    show WFr s ((t.setStream (f st).1).wake (f st).2)
    refine WFr.fr (t := t.setStream (f st).1) (h.trans ⟨rfl, ?_⟩) ((Fr.refl _).wake _)
    intro hk
    have hm := get?_mem hget
    refine StoreWFr.set _ _ ?_ hk
    intro x hx hxk
    have : x = st := key_inj hk.1 hx hm.1 (hxk.trans (hf st).1)
    rw [this, (hf st).2]
  · exact h.fr ((Fr.refl _).panic _)

theorem WFr.modPrio' {f : Prioritize → Prioritize} (hf : ∀ p, (f p).flow.windowSize = p.flow.windowSize)
    (h : WFr s t) : WFr s (t.modPrio f) :=
  h.trans ⟨hf _, fun hk => ⟨hk, Nat.le_refl _, fun y hy => Or.inl ⟨y, hy, rfl, rfl⟩⟩⟩

/-- `modStream` with a constant new flow whose window is the stored one -/
theorem WFr.modStream_const {id : Nat} {fl : FlowControl} (hw : fl.windowSize = (t.stream id).sendFlow.windowSize)
    (h : WFr s t) : WFr s (t.modStream id fun st => { st with sendFlow := fl }) := by
  cases hget : t.store.get? id with
  | none => rw [modStream_none hget]; exact h.fr ((Fr.refl _).panic _)
  | some st =>
    rw [stream_of_get hget] at hw
    unfold Streams.modStream; rw [hget]
    refine h.trans ⟨rfl, ?_⟩
    intro hk
    have hm := get?_mem hget
    refine StoreWFr.set _ _ ?_ hk
    intro x hx hxk
    have : x = st := key_inj hk.1 hx hm.1 hxk
    rw [this]; exact hw.symm

end

theorem assignCapacity_window (f : FlowControl) (n : Nat) : (f.assignCapacity n).1.windowSize = f.windowSize := by
  rw [Flow.assignCapacity_eq]; split <;> rfl

theorem claimCapacity_window (f : FlowControl) (n : Nat) : (f.claimCapacity n).1.windowSize = f.windowSize := by
  rw [Flow.claimCapacity_eq]; split <;> rfl

theorem noWinW_assignCapacity (n m : Nat) : NoWinW (fun st => st.assignCapacity n m) := by
  intro x
  have := assignCapacity_kf x n m
  exact ⟨this.1, by rw [this.2, assignCapacity_window]⟩

-- ===================================================================== tactic

/-- side conditions -/
syntax "nowin" : tactic
macro_rules | `(tactic| nowin) => `(tactic| first
  | exact noWinW_assignCapacity _ _
  | (intro _; exact ⟨rfl, claimCapacity_window _ _⟩)
  | (intro _; exact ⟨rfl, assignCapacity_window _ _⟩)
  | (intro _; exact claimCapacity_window _ _)
  | (intro _; exact assignCapacity_window _ _))

syntax "wfr_peel" : tactic
macro_rules | `(tactic| wfr_peel) => `(tactic| first
  | (with_reducible apply WFr.modStream'; (· nowin))
  | (with_reducible apply WFr.modStreamW'; (· nowin))
  | (with_reducible apply WFr.modPrio'; (· nowin))
  | (with_reducible apply WFr.modStream_const; (· exact claimCapacity_window _ _))
  | (with_reducible apply WFr.modStream_const; (· rw [stream_panic]; exact claimCapacity_window _ _)))

theorem WFr.of_fst_eq {s : Streams} {α : Type} {p : Streams × α} {t' : Streams} {r : α} (he : p = (t', r))
    (h : WFr s p.1) : WFr s t' := by
  subst he; exact h

macro "wfr_step" : tactic => `(tactic| first
  | with_reducible assumption
  | with_reducible exact WFr.refl _
  | (guard_not_mk; wfr_peel)
  | apply_ih
  | (with_reducible apply WFr.fr; rotate_left; (· fr_peel; with_reducible exact Fr.refl _))
  | (with_reducible apply WFr.of_fst_eq; (· with_reducible assumption)))

macro "wfr_auto" : tactic => `(tactic| repeat' (first | wfr_step | split | dsimp only))
macro "wfr_by" f:ident : tactic => `(tactic| (unfold $f; (try dsimp only); wfr_auto))

-- ===================================================================== the capacity movers are window frames

section
variable {s t : Streams}

theorem WFr.tryAssignCapacity (h : WFr s t) (id : Nat) : WFr s (t.tryAssignCapacity id) := by
  wfr_by Streams.tryAssignCapacity
macro_rules | `(tactic| wfr_peel) => `(tactic| with_reducible apply WFr.tryAssignCapacity)

theorem WFr.assignConnectionCapacityLoop (fuel : Nat) :
    ∀ {t : Streams}, WFr s t → WFr s (Streams.assignConnectionCapacityLoop fuel t) := by
  induction fuel with
  | zero => intro t h; exact h
  | succ n ih => intro t h; wfr_by Streams.assignConnectionCapacityLoop
macro_rules | `(tactic| wfr_peel) => `(tactic| with_reducible apply WFr.assignConnectionCapacityLoop)

theorem WFr.assignConnectionCapacity (h : WFr s t) (n : Nat) : WFr s (t.assignConnectionCapacity n) := by
  wfr_by Streams.assignConnectionCapacity
macro_rules | `(tactic| wfr_peel) => `(tactic| with_reducible apply WFr.assignConnectionCapacity)

theorem WFr.reclaimAllCapacity (h : WFr s t) (id : Nat) : WFr s (t.reclaimAllCapacity id) := by
  wfr_by Streams.reclaimAllCapacity
macro_rules | `(tactic| wfr_peel) => `(tactic| with_reducible apply WFr.reclaimAllCapacity)

theorem WFr.reclaimReservedCapacity (h : WFr s t) (id : Nat) : WFr s (t.reclaimReservedCapacity id) := by
  wfr_by Streams.reclaimReservedCapacity
macro_rules | `(tactic| wfr_peel) => `(tactic| with_reducible apply WFr.reclaimReservedCapacity)

theorem WFr.reserveCapacity (h : WFr s t) (id c : Nat) : WFr s (t.reserveCapacity id c) := by
  wfr_by Streams.reserveCapacity
macro_rules | `(tactic| wfr_peel) => `(tactic| with_reducible apply WFr.reserveCapacity)

end

end H2V.Lemmas.ConnFlowP
