import H2V.Lemmas.ConnNoPanicPFiOps2
/-
  C08 (no panic) — `FI` is a reachable invariant, part 7: `Inner::send_reset` (which may insert an `Idle` entry for
  an unknown id and resets it at once) and the server's `send_push_promise`.
-/
namespace H2V.Lemmas.ConnNoPanicP
open H2V H2V.Model H2V.Model.Conn H2V.Lemmas.ConnCountsP
attribute [local irreducible] wrapSubU32 wrapSubUsize

variable {sv : Bool} {E : Nat → Prop}

-- ===================================================================== an entry that has been reset stays so

/-- entry `k` is gone, or its send half is open/closed -/
def Cl (s : Streams) (k : Nat) : Prop := ¬ Live s k ∨ suB (s.stream k).state = false

theorem Cl.sk {s s' : Streams} {k : Nat} (h : Cl s k) (hs : SK sv s s') : Cl s' k := by
  by_cases hl : Live s' k
  · have r := hs.st k hl
    rcases h with h | h
    · exact absurd (hs.live k hl) h
    · right
      cases hb : suB (s'.stream k).state with
      | false => rfl
      | true => rw [r.su hb] at h; cases h
  · exact .inl hl

theorem suB_of_isReset {st : State} (h : st.isReset = true) : suB st = false := by
  obtain ⟨inner⟩ := st
  cases inner <;> first | rfl | (simp [State.isReset] at h)

theorem cl_setReset (s : Streams) (k : Nat) (r : Reason) (i : Initiator) : Cl (s.modStreamW k fun st => st.setReset r i) k := by
  rcases opn_setReset (sv := true) s k r i with h | h | h
  · exact .inl h
  · exact .inr h
  · by_cases hl : Live s k
    · right
      rw [stream_modStreamW_live hl (fun st => st.setReset r i) (fun x => (setReset_inert x r i).key)]
      have : ((s.stream k).setReset r i).1.state = (s.stream k).state.setReset (s.stream k).id r i := by
        unfold Stream.setReset; simp only []
        rw [notifyRecv_state, notifyPush_state, notifySend_state]
      rw [this]; rfl
    · left; intro hl'; exact hl ((modStreamW_sk (sv := true) s k _ (fun x => setReset_sr x r i)).live k hl')

theorem sendSendReset_cl (s : Streams) (k : Nat) (r : Reason) (i : Initiator) : Cl (s.sendSendReset k r i) k := by
  unfold Streams.sendSendReset
  dsimp only
  split
  · next hr => exact .inr (suB_of_isReset hr)
  · have c1 := cl_setReset s k r i
    have o1 : Opn true (s.modStreamW k fun st => st.setReset r i) k := opn_setReset s k r i
    generalize (s.modStreamW k fun st => st.setReset r i) = s1 at c1 o1 ⊢
    split
    · exact c1
    · generalize hs2 : (if (s1.stream k).isPendingOpen = true then _ else s1.clearQueue k) = s2
      have h2 : SK true s1 s2 := by
        rw [← hs2]
        split
        · have ha : SK true s1 ((s1.modStream k fun st => { st with pendingSend := st.pendingSend.drop 1 }).clearQueue k) := by sk_auto
          split
          · exact ha.trans (modStream_sk_opn (o1.sk ha) _ (fun _ => by exact ⟨rfl, rfl, rfl, rfl⟩))
          · exact ha
        · sk_auto
      have h3 : SK true s2 (s2.queueFrame k (.reset r)) := queueFrame_sk _ _ _ (o1.sk h2)
      exact c1.sk ((h2.trans h3).trans (reclaimAllCapacity_sk _ _))

theorem actionsSendResetClosure_cl (k : Nat) (r : Reason) (s : Streams) (hc : s.counts.canIncNumLocalErrorResets = true) :
    Cl (actionsSendResetClosure k r .library s).1 k := by
  unfold actionsSendResetClosure
  simp only [Initiator.isLibrary, hc, if_true]
  exact ((sendSendReset_cl _ k r .library).sk (sv := true) (enqueueResetExpiration_sk _ _)).sk (sv := true)
    (modStreamW_sk _ _ _ (fun x => notifyRecv_sr x))

theorem actionsSendReset_cl (s : Streams) (k : Nat) (r : Reason) (he' : ErrOK (s.actionsSendReset k r .library).1) :
    Cl (s.actionsSendReset k r .library).1 k := by
  have hc : s.counts.canIncNumLocalErrorResets = true := ErrOK.back (actionsSendReset_ev (ρ := true) s k r .library) he'
  have : (s.actionsSendReset k r .library).1 =
      (actionsSendResetClosure k r .library s).1.transitionAfter k (s.stream k).isPendingResetExpiration := by
    rw [actionsSendReset_eq]; unfold Streams.transition; rfl
  rw [this]
  exact (actionsSendResetClosure_cl k r s hc).sk (sv := true) (transitionAfter_sk _ _ _)

-- ===================================================================== Inner::send_reset

/-- **`Inner::send_reset` keeps the bundle**: the `Idle` entry it inserts for an unknown id is reset at once (the
    local-error-reset quota permitting: `he'`), so it is no send-unopened target of a queued PUSH_PROMISE -/
theorem innerSendReset_fb {s : Streams} (hn : NPI (fun _ => False) s) (hb : FB sv (fun _ => False) s) (id : Nat) (reason : Reason)
    (he' : ErrOK (s.innerSendReset id reason).1) : FB sv (fun _ => False) (s.innerSendReset id reason).1 := by
  unfold Streams.innerSendReset at he' ⊢
  cases hfk : s.store.findKey? id with
  | some k =>
    simp only [hfk] at he' ⊢
    exact hb.st (actionsSendReset_fk _ _ _ _) (actionsSendReset_sk _ _ _ _)
  | none =>
    simp only [hfk] at he' ⊢
    generalize hs1 : (if s.counts.isLocalInit id = true then s.sendMaybeResetNextStreamId id else s.recvMaybeResetNextStreamId id) = s1 at he' ⊢
    have h1 : NPI (fun _ => False) s1 := by
      rw [← hs1]; split
      · next hloc => exact hn.lt (sendMaybeResetNextStreamId_lt s id).w (liveAll0 s) (sendMaybeResetNextStreamId_ev (ρ := true) s id hloc) (fun _ _ h => h)
      · exact hn.lt (recvMaybeResetNextStreamId_lt s id).w (liveAll0 s) (recvMaybeResetNextStreamId_ev (ρ := true) s id) (fun _ _ h => h)
    have hb1 : FB sv (fun _ => False) s1 := by
      rw [← hs1]; split
      · exact hb.st (sendMaybeResetNextStreamId_fk _ _) (sendMaybeResetNextStreamId_sk _ _)
      · exact hb.st (recvMaybeResetNextStreamId_fk _ _) (recvMaybeResetNextStreamId_sk _ _)
    have hids1 : s1.store.ids = s.store.ids := by
      rw [← hs1]; split
      · exact (sendMaybeResetNextStreamId_lt s id).ids
      · exact (recvMaybeResetNextStreamId_lt s id).ids
    have hfree : s1.store.contains (Stream.new id 0 0).id = false := by
      show s1.store.contains id = false
      unfold Store.contains Store.findKey?
      rw [hids1]
      unfold Store.findKey? at hfk
      rw [hfk]; rfl
    have hb2 := hb1.insert h1.keys (Stream.new id 0 0) (fresh_new id 0 0) rfl rfl hfree (fun id' k hf => (h1.ids.findKey hf).1)
    have hkk : (s1.store.insert (Stream.new id 0 0)).2 = s1.store.nextKey := rfl
    rw [hkk] at he' ⊢
    generalize ({ s1 with store := (s1.store.insert (Stream.new id 0 0)).1 } : Streams) = s2 at hb2 he' ⊢
    have hb3 := hb2.st (actionsSendReset_fk s2 s1.store.nextKey reason .library) (actionsSendReset_sk s2 s1.store.nextKey reason .library)
    have hcl := actionsSendReset_cl s2 s1.store.nextKey reason he'
    refine hb3.dropE (fun j hj hlj => ?_)
    rcases hj with hj | hj
    · exact hj.elim
    · subst hj
      right; left
      intro hsu
      rcases hcl with h | h
      · exact absurd hlj h
      · rw [h] at hsu; cases hsu

-- ===================================================================== send_push_promise

theorem ppIdsOf_append_pp (l : List SFrame) (k pid : Nat) (f : List Hpack.Field) :
    ppIdsOf (l ++ [.pushPromise k pid f]) = ppIdsOf l ++ [pid] := by
  unfold ppIdsOf; rw [List.filterMap_append]; rfl

/-- **queueing a PUSH_PROMISE** for a fresh promised id on a parent that is not locally initiated; the promised
    entry is `is_pending_push`, neither counted nor waiting to be opened -/
theorem FB.queuePP {s : Streams} (hb : FB sv E s) {p k pid : Nat} (f : List Hpack.Field) (hlp : Live s p)
    (hrem : locId sv (s.stream p).id = false) (hnew : ∀ k' pid', pid' ∈ ppq s k' → pid' ≠ pid) (hloc : locId sv pid = true)
    (hfind : s.store.findKey? pid = some k) (hkpp : (s.stream k).isPendingPush = true)
    (hkc : (s.stream k).isCounted = false) (hko : (s.stream k).isPendingOpen = false)
    (hlt : ∀ n, s.actions.send.nextStreamId = some n → pid < n) :
    FB sv E (s.modStream p fun st => { st with pendingSend := st.pendingSend ++ [.pushPromise k pid f] }) := by
  have hstp := stream_modStream_live hlp (fun st => { st with pendingSend := st.pendingSend ++ [.pushPromise k pid f] }) (fun _ => rfl)
  have hoth : ∀ j, j ≠ p → (s.modStream p fun st => { st with pendingSend := st.pendingSend ++ [.pushPromise k pid f] }).stream j = s.stream j := by
    intro j hj
    rcases modStream_streams s p (fun st => { st with pendingSend := st.pendingSend ++ [.pushPromise k pid f] }) (fun _ => rfl) j with e | ⟨e, _⟩
    · exact e
    · exact absurd e hj
  have hids := modStream_ids s p (fun st => { st with pendingSend := st.pendingSend ++ [.pushPromise k pid f] })
  have hnx := modStream_next s p (fun st => { st with pendingSend := st.pendingSend ++ [.pushPromise k pid f] })
  have hlive : ∀ j, Live (s.modStream p fun st => { st with pendingSend := st.pendingSend ++ [.pushPromise k pid f] }) j → Live s j :=
    fun j hj => (SameKeys.modStream _ _ _).live.mp hj
  generalize (s.modStream p fun st => { st with pendingSend := st.pendingSend ++ [.pushPromise k pid f] }) = s' at hstp hoth hids hnx hlive ⊢
  -- every field but `pending_send` of every entry is unchanged
  have hfl : ∀ j, (s'.stream j).isCounted = (s.stream j).isCounted ∧ (s'.stream j).isPendingPush = (s.stream j).isPendingPush ∧
      (s'.stream j).isPendingOpen = (s.stream j).isPendingOpen ∧ (s'.stream j).state = (s.stream j).state ∧
      (s'.stream j).id = (s.stream j).id := by
    intro j
    by_cases hj : j = p
    · subst hj; rw [hstp]; exact ⟨rfl, rfl, rfl, rfl, rfl⟩
    · rw [hoth j hj]; exact ⟨rfl, rfl, rfl, rfl, rfl⟩
  have hq1 : ppq s' p = ppq s p ++ [pid] := by unfold ppq; rw [hstp]; exact ppIdsOf_append_pp _ _ _ _
  have hq2 : ∀ j, j ≠ p → ppq s' j = ppq s j := fun j hj => by unfold ppq; rw [hoth j hj]
  have hmem : ∀ j pid', pid' ∈ ppq s' j → pid' ∈ ppq s j ∨ (j = p ∧ pid' = pid) := by
    intro j pid' hm
    by_cases hj : j = p
    · subst hj; rw [hq1] at hm
      rcases List.mem_append.mp hm with h | h
      · exact .inl h
      · exact .inr ⟨rfl, List.mem_singleton.mp h⟩
    · rw [hq2 j hj] at hm; exact .inl hm
  have hfind' : ∀ id, s'.store.findKey? id = s.store.findKey? id := fun id => by unfold Store.findKey?; rw [hids]
  refine ⟨by rw [hids]; exact hb.nd, fun id j hf hl => ?_, ⟨fun j => ?_, ⟨fun j => ?_, fun a b pid' ha hb' => ?_⟩, ?_⟩,
    ⟨fun j hl hs => ?_, fun k' pid' hp pushed hf hl hs => ?_, fun k' pid' hp n hn => ?_, fun j hp => ?_, fun j hp => ?_,
     fun k' pid' hp => ?_⟩⟩
  · rw [(hfl j).2.2.2.2]; exact hb.idm id j (by rw [← hfind']; exact hf) (hlive j hl)
  · have := hb.fi.unc j
    unfold One at this ⊢
    rw [(hfl j).1, (hfl j).2.1, (hfl j).2.2.1]; exact this
  · by_cases hj : j = p
    · subst hj; rw [hq1]
      refine List.nodup_append.mpr ⟨hb.fi.ppu.nodup j, (by simp), ?_⟩
      intro a ha b hb' e
      rw [List.mem_singleton] at hb'
      subst hb'; subst e
      exact hnew j a ha rfl
    · rw [hq2 j hj]; exact hb.fi.ppu.nodup j
  · rcases hmem a pid' ha with h1 | ⟨h1, h1'⟩ <;> rcases hmem b pid' hb' with h2 | ⟨h2, h2'⟩
    · exact hb.fi.ppu.disj a b pid' h1 h2
    · exact absurd h2' (hnew a pid' h1)
    · exact absurd h1' (hnew b pid' h2)
    · rw [h1, h2]
  · intro k' pid' hp pushed hf
    rw [hfind'] at hf
    rw [(hfl pushed).1, (hfl pushed).2.2.1]
    rcases hmem k' pid' hp with h1 | ⟨_, h1⟩
    · exact hb.fi.ppf k' pid' h1 pushed hf
    · subst h1
      rw [hfind] at hf; cases hf
      exact ⟨hkc, hko⟩
  · rw [(hfl j).2.2.2.2] at hl; rw [(hfl j).2.2.2.1] at hs
    by_cases hj : j = p
    · subst hj; rw [hrem] at hl; cases hl
    · rw [hoth j hj]; exact hb.fx.q j hl hs
  · rw [hfind'] at hf
    rw [(hfl pushed).2.2.2.1] at hs; rw [(hfl pushed).2.1]
    rcases hmem k' pid' hp with h1 | ⟨_, h1⟩
    · exact hb.fx.tg k' pid' h1 pushed hf (hlive _ hl) hs
    · subst h1
      rw [hfind] at hf; cases hf
      exact .inl hkpp
  · rw [hnx] at hn
    rcases hmem k' pid' hp with h1 | ⟨_, h1⟩
    · exact hb.fx.lt k' pid' h1 n hn
    · subst h1; exact hlt n hn
  · rw [(hfl j).2.1] at hp; rw [(hfl j).2.2.2.2]; exact hb.fx.pl j hp
  · rw [(hfl j).2.2.1] at hp; rw [(hfl j).2.2.2.2]; exact hb.fx.ol j hp
  · rcases hmem k' pid' hp with h1 | ⟨_, h1⟩
    · exact hb.fx.lq k' pid' h1
    · subst h1; exact hloc

end H2V.Lemmas.ConnNoPanicP
