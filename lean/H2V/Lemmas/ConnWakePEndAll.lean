import H2V.Lemmas.ConnWakePEnd
/-
  ConnWakeP, part 12 — C07 main lemmas: after `recv_eof` / `handle_error` every stream that was linked
  in the id map is released or `Resolved`; the tags parked on it are in the wake log; its receive
  queue, its reference count and "END_STREAM was received" are untouched.
-/
namespace H2V.Lemmas.ConnWakeP
open H2V H2V.Model H2V.Model.Conn

-- ===================================================================== the id map under `transition_after`

theorem n_decNumStreams {s0 s : Streams} (k : Nat) (h : NS s0 s) : NS s0 (s.decNumStreams k) := by
  unfold Streams.decNumStreams; tear_grind

theorem decNumStreams_ids (s : Streams) (k : Nat) : (s.decNumStreams k).store.ids = s.store.ids := by
  rcases (n_decNumStreams k (GStep.refl s)).ids with f | h
  · exact f.elim
  · exact h

theorem modCountsA_stream (s : Streams) (m : String) (f : Counts → Option Counts) (k : Nat) :
    (s.modCountsA m f).stream k = s.stream k := by
  unfold Streams.stream; rw [modCountsA_store]

/-- `transition_after` leaves the id map alone or unlinks the id of the stream it is called on (and
    then only if that stream is closed) -/
theorem transitionAfter_ids (s : Streams) (k : Nat) (b : Bool) :
    (s.transitionAfter k b).store.ids = s.store.ids ∨
    ((s.stream k).isClosed = true ∧ (s.transitionAfter k b).store.ids = Store.swapRemove s.store.ids (s.stream k).id) := by
  unfold Streams.transitionAfter
  simp only
  -- the counter update in front touches neither the store nor the stream
  generalize hs1 : (if (b && !(s.stream k).isPendingResetExpiration) = true then
      s.modCountsA "self.num_local_reset_streams > 0" Counts.decNumResetStreams else s) = s1
  have h1 : s1.store = s.store := by subst hs1; split; exact modCountsA_store _ _ _; rfl
  have hfin : ∀ t : Streams, (if (t.stream k).isReleased = true then
      ({ (if (t.stream k).isCounted = true then t.decNumStreams k else t) with
          store := (if (t.stream k).isCounted = true then t.decNumStreams k else t).store.remove k,
          recvBufferLeaked := (if (t.stream k).isCounted = true then t.decNumStreams k else t).recvBufferLeaked +
            ((if (t.stream k).isCounted = true then t.decNumStreams k else t).stream k).pendingRecv.length } : Streams)
      else t).store.ids = t.store.ids := by
    intro t
    split
    · show (Store.remove _ k).ids = _
      rw [Store.remove_ids]; split
      · exact decNumStreams_ids _ _
      · rfl
    · rfl
  by_cases hc : (s.stream k).isClosed = true
  · simp only [hc, if_true]
    rw [hfin]
    by_cases hr : (s.stream k).isPendingResetExpiration = true
    · left
      simp only [hr, Bool.not_true, Bool.false_eq_true, if_false]
      split
      · rw [decNumStreams_ids, h1]
      · rw [h1]
    · right
      refine ⟨trivial, ?_⟩
      simp only [hr, Bool.not_false, if_true]
      split
      · rw [decNumStreams_ids]; show Store.swapRemove s1.store.ids _ = _; rw [h1]
      · show Store.swapRemove s1.store.ids _ = _; rw [h1]
  · left
    simp only [hc, Bool.false_eq_true, if_false]
    rw [hfin, h1]

-- ===================================================================== the closure resolves its stream

theorem get?_modStreamW_same {s : Streams} {k : Nat} {a : Stream} (f : Stream → Stream × List String)
    (ha : s.store.get? k = some a) (hk : (f a).1.key = a.key) : (s.modStreamW k f).store.get? k = some (f a).1 := by
  have hak : a.key = k := Store.get?_key ha
  simp only [Streams.modStreamW, ha, Streams.setStream, Streams.wake, Store.get?_set, hk, hak, if_true, Option.map_some]

/-- `notify_send; notify_recv; notify_push` on a closed stream leaves it `Resolved` -/
theorem three_notifies_resolved (x : Stream) (hc : x.state.isClosed = true) :
    Resolved ((x.notifySend.1).notifyRecv.1).notifyPush.1 := by
  obtain ⟨_, _, st1, _⟩ := notifySend_fields x
  obtain ⟨a1, a2, _, _⟩ := notifySend_slots x
  obtain ⟨_, _, st2, _⟩ := notifyRecv_fields' x.notifySend.1
  obtain ⟨b1, b2, b3, _⟩ := notifyRecv_slots x.notifySend.1
  obtain ⟨_, _, st3, _⟩ := notifyPush_fields (x.notifySend.1).notifyRecv.1
  obtain ⟨c1, c2, c3, c4⟩ := notifyPush_slots (x.notifySend.1).notifyRecv.1
  exact ⟨by rw [st3, st2, st1]; exact hc, by rw [c1, b1, a1], by rw [c2, b2, a2], by rw [c3, b3], c4⟩

theorem three_notifies_key (x : Stream) : (((x.notifySend.1).notifyRecv.1).notifyPush.1).key = x.key := by
  rw [(notifyPush_fields _).1, (notifyRecv_fields' _).1, (notifySend_fields _).1]

/-- `Recv::recv_eof(stream)`: the stream is `Resolved` afterwards -/
theorem recvRecvEof_resolved {s : Streams} {k : Nat} {a : Stream} (ha : s.store.get? k = some a) :
    ∃ b, (s.recvRecvEof k).store.get? k = some b ∧ Resolved b := by
  unfold Streams.recvRecvEof
  have h1 := get?_modStream_same (fun st => { st with state := st.state.recvEof }) ha rfl
  have h2 := get?_modStreamW_same Stream.notifySend h1 (notifySend_fields _).1
  have h3 := get?_modStreamW_same Stream.notifyRecv h2 (notifyRecv_fields' _).1
  have h4 := get?_modStreamW_same Stream.notifyPush h3 (notifyPush_fields _).1
  exact ⟨_, h4, three_notifies_resolved _ (recvEof_isClosed _)⟩

/-- `Recv::handle_error(err, stream)`: the stream is `Resolved` afterwards -/
theorem recvHandleError_resolved {s : Streams} {k : Nat} {a : Stream} (e : PErr) (ha : s.store.get? k = some a) :
    ∃ b, (s.recvHandleError k e).store.get? k = some b ∧ Resolved b := by
  unfold Streams.recvHandleError
  have h1 := get?_modStream_same (fun st => { st with state := st.state.handleError e }) ha rfl
  have h2 := get?_modStreamW_same Stream.notifySend h1 (notifySend_fields _).1
  have h3 := get?_modStreamW_same Stream.notifyRecv h2 (notifyRecv_fields' _).1
  have h4 := get?_modStreamW_same Stream.notifyPush h3 (notifyPush_fields _).1
  exact ⟨_, h4, three_notifies_resolved _ (handleError_isClosed _ _)⟩

/-- released, or closed with nobody parked -/
def Done (k : Nat) (t : Streams) : Prop := t.store.get? k = none ∨ ∃ b, t.store.get? k = some b ∧ Resolved b

theorem Done.of_rs {k : Nat} {t t' : Streams} (h : Done k t) (hr : RS t t') : Done k t' := by
  rcases h with h | ⟨b, hb, hres⟩
  · exact Or.inl (hr.fresh k h)
  · rcases hr.keep k b hb with ⟨_, h'⟩ | ⟨c, hc, hbc⟩
    · exact Or.inl h'
    · exact Or.inr ⟨c, hc, hbc.res hres⟩

/-- the two per-stream closures, abstractly: first a function that resolves the stream, then teardown steps -/
structure Closure (f : Streams → Nat → Streams) : Prop where
  rs : ∀ s k, RS s (f s k)
  done : ∀ s k, Done k (f s k)
  ids : ∀ s k a, s.store.get? k = some a →
    (f s k).store.ids = s.store.ids ∨ (f s k).store.ids = Store.swapRemove s.store.ids a.id
  ids_none : ∀ s k, s.store.get? k = none → (f s k).store.ids = s.store.ids

theorem closure_of_mid (g : Streams → Nat → Streams)
    (hres : ∀ s k a, s.store.get? k = some a → ∃ b, (g s k).store.get? k = some b ∧ Resolved b)
    (hrs : ∀ s k, RS s (g s k)) (hns : ∀ s k, NS s (g s k)) :
    Closure fun s k => (s.transition k fun s => ((g s k).sendHandleError k, ())).1 := by
  have hmid_ns : ∀ s k, NS s ((g s k).sendHandleError k) := fun s k => n_sendHandleError k (hns s k)
  refine ⟨fun s k => ?_, fun s k => ?_, fun s k a ha => ?_, fun s k hn => ?_⟩
  · exact r_transitionAfter _ _ (r_sendHandleError k (hrs s k))
  · have hd : Done k (g s k) := by
      cases ha : s.store.get? k with
      | none => exact Or.inl ((hrs s k).fresh k ha)
      | some a => exact Or.inr (hres s k a ha)
    exact hd.of_rs (r_transitionAfter _ _ (r_sendHandleError k (GStep.refl _)))
  · show (Streams.transitionAfter _ k _).store.ids = _ ∨ _
    have hid : ((g s k).sendHandleError k).store.ids = s.store.ids := by
      rcases (hmid_ns s k).ids with f | h
      · exact f.elim
      · exact h
    have hst : (((g s k).sendHandleError k).stream k).id = a.id := by
      rcases (hmid_ns s k).keep k a ha with ⟨f, _⟩ | ⟨b, hb, hab⟩
      · exact f.elim
      · rw [stream_eq_of_get? hb]; exact hab.id
    rcases transitionAfter_ids ((g s k).sendHandleError k) k (s.stream k).isPendingResetExpiration with h | ⟨_, h⟩
    · exact Or.inl (h.trans hid)
    · exact Or.inr (h.trans (by rw [hid, hst]))
  · show (Streams.transitionAfter _ k _).store.ids = _
    have hid : ((g s k).sendHandleError k).store.ids = s.store.ids := by
      rcases (hmid_ns s k).ids with f | h
      · exact f.elim
      · exact h
    have hg : ((g s k).sendHandleError k).store.get? k = none := (hmid_ns s k).fresh k hn
    rcases transitionAfter_ids ((g s k).sendHandleError k) k (s.stream k).isPendingResetExpiration with h | ⟨hc, _⟩
    · exact h.trans hid
    · simp [Streams.stream, hg, Stream.isClosed, State.isClosed] at hc

theorem eofClosure_closure : Closure fun s k => (s.transition k fun s => ((s.recvRecvEof k).sendHandleError k, ())).1 :=
  closure_of_mid (fun s k => s.recvRecvEof k) (fun _ _ _ ha => recvRecvEof_resolved ha)
    (fun s k => r_recvRecvEof k (GStep.refl s)) (fun s k => n_recvRecvEof k (GStep.refl s))

theorem errClosure_closure (e : PErr) :
    Closure fun s k => (s.transition k fun s => ((s.recvHandleError k e).sendHandleError k, ())).1 :=
  closure_of_mid (fun s k => s.recvHandleError k e) (fun _ _ _ ha => recvHandleError_resolved e ha)
    (fun s k => r_recvHandleError k e (GStep.refl s)) (fun s k => n_recvHandleError k e (GStep.refl s))

-- ===================================================================== every linked stream is reached

/-- the id map is a map (one entry per stream id) and an entry that points at a live slab entry
    points at a stream with that id -/
def IdsOK (st : Store) : Prop :=
  (st.ids.map (·.1)).Nodup ∧ ∀ e ∈ st.ids, ∀ a, st.get? e.2 = some a → a.id = e.1

theorem Closure.idsOK {f : Streams → Nat → Streams} (hf : Closure f) {t : Streams} (hI : IdsOK t.store)
    {e : Nat × Nat} (he : e ∈ t.store.ids) : IdsOK (f t e.2).store := by
  have hsub : ∀ e' ∈ (f t e.2).store.ids, e' ∈ t.store.ids := by
    intro e' he'
    cases ha : t.store.get? e.2 with
    | none => rw [hf.ids_none t e.2 ha] at he'; exact he'
    | some a =>
      rcases hf.ids t e.2 a ha with h | h
      · rw [h] at he'; exact he'
      · rw [h] at he'; exact mem_of_mem_swapRemove he'
  refine ⟨?_, fun e' he' b hb => ?_⟩
  · cases ha : t.store.get? e.2 with
    | none => rw [hf.ids_none t e.2 ha]; exact hI.1
    | some a =>
      rcases hf.ids t e.2 a ha with h | h
      · rw [h]; exact hI.1
      · rw [h]; exact swapRemove_nodup hI.1 _
  · cases ha' : t.store.get? e'.2 with
    | none => rw [(hf.rs t e.2).fresh e'.2 ha'] at hb; cases hb
    | some a' =>
      rcases (hf.rs t e.2).keep e'.2 a' ha' with ⟨_, h⟩ | ⟨c, hc, hac⟩
      · rw [h] at hb; cases hb
      · rw [hc] at hb; cases hb
        rw [hac.id]; exact hI.2 e' (hsub e' he') a' ha'

/-- `Store::for_each(closure)`: every entry of the id map is dealt with -/
theorem storeForEach_closure {f : Streams → Nat → Streams} (hf : Closure f) (s : Streams) (hok : IdsOK s.store) :
    IdsOK (s.storeForEach f).store ∧ ∀ e ∈ s.store.ids, Done e.2 (s.storeForEach f) := by
  have key := tryForEach_visits f (fun t => IdsOK t.store) (fun e t => Done e.2 t)
    (fun t hI => hI.1) (fun t e _ _ => hf.done t e.2) (fun t e e' _ _ hP => hP.of_rs (hf.rs t e.2))
    (fun t e hI he => hf.idsOK hI he)
    (fun t e hI he => by
      cases ha : t.store.get? e.2 with
      | none => exact Or.inl (hf.ids_none t e.2 ha)
      | some a => rw [← hI.2 e he a ha]; exact hf.ids t e.2 a ha)
    s.store.ids (2 * s.store.ids.length + 1) 0 s hok (by omega)
    (fun e he => by
      obtain ⟨j, hj⟩ := List.getElem?_of_mem he
      exact Or.inr ⟨j, Nat.zero_le _, hj⟩)
  unfold Streams.storeForEach Streams.storeTryForEach
  exact key

/-- what the teardown guarantees for one stream entry `a` that was at key `k` -/
def EndedAt (s s' : Streams) (k : Nat) (a : Stream) : Prop :=
  s'.store.get? k = none ∨ ∃ a', s'.store.get? k = some a' ∧ Resolved a' ∧ Keep a a' ∧
    ∀ t, (a.sendTask = some t ∨ a.openTask = some t ∨ a.recvTask = some t ∨ a.pushTask = some t) → t ∈ newWakes s s'

theorem endedAt_of {s s' : Streams} {k : Nat} {a : Stream} (hb : KeysBounded s.store) (ha : s.store.get? k = some a)
    (hd : Done k s') (hk : KS s s') (hs : Step none s s') : EndedAt s s' k a := by
  rcases hd with h | ⟨a', ha', hres⟩
  · exact Or.inl h
  · refine Or.inr ⟨a', ha', hres, ?_, ?_⟩
    · rcases hk.keep k a ha with ⟨_, h⟩ | ⟨b, hb', hab⟩
      · rw [h] at ha'; cases ha'
      · rw [hb'] at ha'; cases ha'; exact hab
    · rcases hs.keep k a (hb.get? ha) ha with h | ⟨b, hb', hab⟩
      · rw [h] at ha'; cases ha'
      · rw [hb'] at ha'; cases ha'
        obtain ⟨_, h1, h2, h3, h4⟩ := hres
        intro t ht
        rcases ht with ht | ht | ht | ht
        · exact SlotStep.woken_of_none (h1 ▸ hab.sendTask) ht
        · exact SlotStep.woken_of_none (h2 ▸ hab.openTask) ht
        · exact SlotStep.woken_of_none (h3 ▸ hab.recvTask) ht
        · exact SlotStep.woken_of_none (h4 ▸ hab.pushTask) ht

/-- **`Inner::recv_eof`** (EOF seen by the connection, or `Drop for Connection`): the connection has an
    error afterwards, and every stream that was linked in the id map is released or closed with all
    its parked wakers woken, its receive queue / reference count / END_STREAM flag untouched -/
theorem recvEof_all (s : Streams) (hok : IdsOK s.store) (hb : KeysBounded s.store) (b : Bool) :
    (s.recvEof b).actions.connError.isSome = true ∧
    ∀ e ∈ s.store.ids, ∀ a, s.store.get? e.2 = some a → EndedAt s (s.recvEof b) e.2 a := by
  have hstep := recvEof_acc (cx := none) b (Step.refl none s)
  have hkeep := k_recvEof b (GStep.refl s)
  refine ⟨?_, fun e he a ha => endedAt_of hb ha ?_ hkeep hstep⟩
  · -- `conn_error` is set first and never cleared
    unfold Streams.recvEof
    generalize hs1 : (if s.actions.connError.isNone = true then
      ({ s with actions := { s.actions with connError := some (.io "BrokenPipe" (some "connection closed because of a broken pipe")) } } : Streams)
      else s) = s1
    have h1 : s1.actions.connError.isSome = true := by
      subst hs1; split
      · rfl
      · next h => cases hh : s.actions.connError <;> simp_all
    have h2 : Step none s1 ((s1.storeForEach fun s id =>
        (s.transition id fun s => ((s.recvRecvEof id).sendHandleError id, ())).1).clearQueues b) :=
      clearQueues_acc b (storeForEach_acc _ (fun k h => eofClosure_acc k h) (Step.refl _ _))
    exact h2.connError h1
  · unfold Streams.recvEof
    generalize hs1 : (if s.actions.connError.isNone = true then
      ({ s with actions := { s.actions with connError := some (.io "BrokenPipe" (some "connection closed because of a broken pipe")) } } : Streams)
      else s) = s1
    have h1 : s1.store = s.store := by subst hs1; split <;> rfl
    have := (storeForEach_closure eofClosure_closure s1 (h1 ▸ hok)).2 e (h1 ▸ he)
    exact this.of_rs (r_clearQueues b (GStep.refl _))

/-- **`Inner::handle_error`** (I/O error, connection error, `abrupt_shutdown`, GOAWAY sent for a fatal
    error): same guarantee -/
theorem handleError_all (s : Streams) (hok : IdsOK s.store) (hb : KeysBounded s.store) (err : PErr) :
    (s.handleError err).1.actions.connError = some err ∧
    ∀ e ∈ s.store.ids, ∀ a, s.store.get? e.2 = some a → EndedAt s (s.handleError err).1 e.2 a := by
  have hstep := handleError_acc (cx := none) err (Step.refl none s)
  have hkeep := k_handleError err (GStep.refl s)
  refine ⟨by unfold Streams.handleError; rfl, fun e he a ha => endedAt_of hb ha ?_ hkeep hstep⟩
  unfold Streams.handleError
  have := (storeForEach_closure (errClosure_closure err) s hok).2 e he
  exact this.of_rs (g_setConnError _ (GStep.refl _))

end H2V.Lemmas.ConnWakeP
