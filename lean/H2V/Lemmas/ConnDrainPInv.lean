import H2V.Lemmas.ConnDrainPSReach
import H2V.Lemmas.ConnRecvPConn
/-
  ConnDrainP, part 12 — the connection invariant `CInv` (sane write buffer, `SReach` stream layer, decoder-bounded
  SETTINGS in `settings.remote`, bounded local SETTINGS): it holds for fresh connections (`cinv_init`,
  `cinv_initServer`), every step of `Connection::poll` keeps it (`CInv.protoPoll`, `CInv.clientPoll`), and from any
  state satisfying it `Connection::poll` answers `Pending` only with the connection task parked and everything
  writable written (`protoPoll_pending_parked`, `clientPoll_pending_parked`).
-/
namespace H2V.Lemmas.ConnDrainP
open H2V H2V.Model H2V.Model.Conn
open H2V.Lemmas.ConnFlowP (FrameOk SettingsOk)
open H2V.Lemmas.ConnCtlP (ackAndApply settingsRemotePart settingsLocalSend settingsLocalPart settingsPollSend_eq)

/-- local SETTINGS carry an initial window size of at most 2^31-1 (the builder and `set_initial_window_size` assert it) -/
def LocOk (v : List (Nat × Nat)) : Prop := ∀ t, ConnRecvP.settingsIws v = some t → t ≤ 2147483647

/-- the invariant of a connection between two steps of `Connection::poll` -/
structure CInv (c : Conn) : Prop where
  cap : CapOK c.codec.w
  sr : SReach c.streams
  remote : ∀ v, c.settings.remote = some v → SettingsOk v
  loc : ∀ v, (c.settings.loc = .waitingAck v ∨ c.settings.loc = .toSend v) → LocOk v

theorem CInv.of_codec {c c' : Conn} (h : CInv c) (hc : CapOK c'.codec.w) (h1 : c'.streams = c.streams)
    (h2 : c'.settings = c.settings) : CInv c' :=
  ⟨hc, h1 ▸ h.sr, by rw [h2]; exact h.remote, by rw [h2]; exact h.loc⟩

theorem CInv.codecPollReady {c : Conn} (h : CInv c) : CInv c.codecPollReady.1 := by
  have hs := codecPollReady_spec c
  refine h.of_codec (hs.1.cap h.cap) ?_ ?_
  · rw [hs.2.1]
  · rw [hs.2.1]

theorem CInv.sendPendingGoAway {c : Conn} (h : CInv c) : CInv c.sendPendingGoAway.1 :=
  let hs := sendPendingGoAway_spec c
  h.of_codec (hs.1.cap h.cap) hs.2.2.2.1 hs.2.2.1

theorem CInv.sendPendingPong {c : Conn} (h : CInv c) : CInv c.sendPendingPong.1 :=
  let hs := sendPendingPong_spec c
  h.of_codec (hs.1.cap h.cap) hs.2.2.2.1 hs.2.2.1

theorem CInv.sendPendingPing {c : Conn} (h : CInv c) : CInv c.sendPendingPing.1 :=
  let hs := sendPendingPing_spec c
  h.of_codec (hs.1.cap h.cap) hs.2.2.2.1 hs.2.2.1

theorem cinv_ackAndApply {c : Conn} (h : CInv c) (v : List (Nat × Nat)) (hv : SettingsOk v) : CInv (ackAndApply c v).1 := by
  have hs := ackAndApply_spec c v
  refine ⟨hs.1.cap h.cap, ?_, by rw [hs.2.2.2.2.1]; exact h.remote, by rw [hs.2.2.2.2.2]; exact h.loc⟩
  unfold ackAndApply
  dsimp only
  split
  · next s e heq =>
    have := h.sr.applyRemoteSettings v (!(c.bufferSettings true []).settings.hasReceivedRemoteInitialSettings) hv
    show SReach s
    have e1 : (c.bufferSettings true []).streams = c.streams := rfl
    rw [e1] at heq
    rw [heq] at this
    exact this
  · next s u heq =>
    have := h.sr.applyRemoteSettings v (!(c.bufferSettings true []).settings.hasReceivedRemoteInitialSettings) hv
    show SReach s
    have e1 : (c.bufferSettings true []).streams = c.streams := rfl
    rw [e1] at heq
    rw [heq] at this
    exact this

theorem cinv_settingsRemotePart {c : Conn} (h : CInv c) : CInv (settingsRemotePart c).1 := by
  unfold settingsRemotePart
  split
  · next v hrem =>
    have h1 := h.codecPollReady
    rcases hcp : c.codecPollReady with ⟨c1, r1⟩
    rw [hcp] at h1
    cases r1 with
    | pending => exact h1
    | err e => exact h1
    | ok => exact cinv_ackAndApply h1 v (h.remote v hrem)
  · exact h

theorem cinv_settingsLocalSend {c : Conn} (h : CInv c) : CInv (settingsLocalSend c).1 := by
  unfold settingsLocalSend
  split
  · next v hloc =>
    have h1 := h.codecPollReady
    have hs := codecPollReady_spec c
    rcases hcp : c.codecPollReady with ⟨c1, r1⟩
    rw [hcp] at h1 hs
    dsimp only at h1 hs
    cases r1 with
    | pending => exact h1
    | err e => exact h1
    | ok =>
      dsimp only
      have e2 : c1.settings = c.settings := by rw [hs.2.1]
      refine ⟨(bufferSettings_step c1 false v).cap h1.cap, h1.sr, h1.remote, ?_⟩
      intro v' hv'
      rcases hv' with hv' | hv'
      · have : v' = v := by injection hv' with e; exact e.symm
        subst this
        exact h.loc v' (Or.inr hloc)
      · cases hv'
  · exact h

theorem CInv.settingsPollSend {c : Conn} (h : CInv c) : CInv c.settingsPollSend.1 := by
  rw [settingsPollSend_eq]
  have h1 := cinv_settingsRemotePart h
  rcases hr : settingsRemotePart c with ⟨c1, r1⟩
  rw [hr] at h1
  cases r1 with
  | pending => exact h1
  | err e => exact h1
  | ok =>
    dsimp only
    unfold settingsLocalPart
    refine cinv_settingsLocalSend ⟨h1.cap, h1.sr, (fun v hv => nomatch hv), h1.loc⟩

theorem CInv.pollReady {c : Conn} (h : CInv c) : CInv c.pollReady.1 := by
  unfold Conn.pollReady
  have h1 := h.sendPendingPong
  rcases hr1 : c.sendPendingPong with ⟨c1, r1⟩
  rw [hr1] at h1
  cases r1 with
  | pending => exact h1
  | err e => exact h1
  | ok =>
    dsimp only
    have h2 := h1.sendPendingPing
    rcases hr2 : c1.sendPendingPing with ⟨c2, r2⟩
    rw [hr2] at h2
    cases r2 with
    | pending => exact h2
    | err e => exact h2
    | ok =>
      dsimp only
      have h3 := h2.settingsPollSend
      rcases hr3 : c2.settingsPollSend with ⟨c3, r3⟩
      rw [hr3] at h3
      cases r3 with
      | pending => exact h3
      | err e => exact h3
      | ok =>
        dsimp only
        have h4 := refusal_spec (s := c3.streams) (w := c3.codec.w) 2 c3.codec.io c3.cx
        have h5 := h3.sr.pollSendPendingRefusal 4 c3.codec.w c3.codec.io c3.cx
        rcases hr4 : Streams.pollSendPendingRefusal 4 c3.streams c3.codec.w c3.codec.io c3.cx with ⟨s4, w4, io4, r4⟩
        rw [hr4] at h4 h5
        exact ⟨h4.2.2.2.2 h3.cap, h5, h3.remote, h3.loc⟩


theorem CInv.of_streams {c c' : Conn} (h : CInv c) (hs : SReach c'.streams) (hc : c'.codec = c.codec)
    (hset : c'.settings = c.settings) : CInv c' :=
  ⟨by rw [hc]; exact h.cap, hs, by rw [hset]; exact h.remote, by rw [hset]; exact h.loc⟩

theorem CInv.panic {c : Conn} (h : CInv c) (m : String) : CInv (c.panic m) :=
  h.of_streams (h.sr.panic m) rfl rfl

theorem CInv.ite_panic {c : Conn} (h : CInv c) (b : Prop) [Decidable b] (m : String) : CInv (if b then c else c.panic m) := by
  split
  · exact h
  · exact h.panic m

theorem CInv.dynGoAway {c : Conn} (h : CInv c) (id : Nat) (e : Reason) : CInv (c.dynGoAway id e) := by
  unfold Conn.dynGoAway
  dsimp only
  have hE : CInv ({ c with streams := c.streams.recvGoAway id }) := h.of_streams (h.sr.recvGoAway _) rfl rfl
  apply CInv.ite_panic
  exact hE.of_streams hE.sr rfl rfl

theorem CInv.recvFrame {c : Conn} (h : CInv c) (f : Option Frame.Frame) (hf : ∀ g, f = some g → FrameOk g) :
    CInv (c.recvFrame f).1 := by
  unfold Conn.recvFrame
  dsimp only
  split
  · next sid eos _ blk =>
    have := h.sr.recvHeaders (Conn.headersIn sid eos blk)
    split <;> next heq => (rw [heq] at this; exact h.of_streams this rfl rfl)
  · next sid payload eos pad =>
    have := h.sr.recvData sid payload eos pad
    split <;> next heq => (rw [heq] at this; exact h.of_streams this rfl rfl)
  · next sid code =>
    have := h.sr.recvReset sid code
    split <;> next heq => (rw [heq] at this; exact h.of_streams this rfl rfl)
  · next sid promised blk =>
    have := h.sr.recvPushPromise sid (Conn.headersIn promised false blk)
    split <;> next heq => (rw [heq] at this; exact h.of_streams this rfl rfl)
  · exact h
  · next last code debug =>
    have := h.sr.recvGoAwayFrame last code debug
    split <;> next heq => (rw [heq] at this; exact h.of_streams this rfl rfl)
  · next ack payload =>
    have hw : CInv ({ c with pingPong := (c.pingPong.recvPing ack payload).1,
                             streams := c.streams.wake (c.pingPong.recvPing ack payload).2.2.1 }) :=
      h.of_streams (h.sr.wake _) rfl rfl
    split
    · apply CInv.dynGoAway
      apply CInv.ite_panic
      apply CInv.ite_panic
      exact hw
    · apply CInv.ite_panic
      exact hw
  · next sid inc =>
    have hb : inc ≤ 2147483647 := hf _ rfl
    have := h.sr.recvWindowUpdate sid inc hb
    split <;> next heq => (rw [heq] at this; exact h.of_streams this rfl rfl)
  · exact h
  · exact h.of_streams (h.sr.recvEof false) rfl rfl


theorem recvFrame_settings {c : Conn} {f : Option Frame.Frame} {ack : Bool} {vals : List (Nat × Nat)}
    (h : (c.recvFrame f).2 = .ok (.settings ack vals)) : f = some (.settings ack vals) := by
  unfold Conn.recvFrame at h
  dsimp only at h
  split at h
  all_goals first
    | (split at h <;> cases h)
    | (injection h with h; injection h with h1 h2; subst h1 h2; rfl)
    | cases h
    | (split at h <;> (try split at h) <;> cases h)

theorem CInv.recvSettings {c : Conn} (h : CInv c) (ack : Bool) (vals : List (Nat × Nat)) (hv : SettingsOk vals) :
    CInv (c.recvSettings ack vals).1 := by
  unfold Conn.recvSettings
  split
  · split
    · next loc hloc =>
      dsimp only
      have hl : LocOk loc := h.loc loc (Or.inl hloc)
      have := h.sr.applyLocalSettingsFrame loc hl
      split
      · next s e heq =>
        rw [heq] at this
        refine ⟨h.cap, this, h.remote, h.loc⟩
      · next s u heq =>
        rw [heq] at this
        refine ⟨h.cap, this, h.remote, ?_⟩
        intro v hv'
        rcases hv' with hv' | hv' <;> cases hv'
    · exact h
  · dsimp only
    have hP : CInv (if c.settings.remote.isSome = true then c.panic "assertion failed: self.remote.is_none()" else c) := by
      split
      · exact h.panic _
      · exact h
    refine ⟨hP.cap, hP.sr, ?_, hP.loc⟩
    intro v hv'
    cases hv'
    exact hv


theorem CInv.withCodec {c : Conn} (h : CInv c) (codec : Codec) (hw : codec.w = c.codec.w) : CInv { c with codec := codec } :=
  ⟨by show CapOK codec.w; rw [hw]; exact h.cap, h.sr, h.remote, h.loc⟩

theorem CInv.poll2Loop (n : Nat) : ∀ {c : Conn}, CInv c → CInv (Conn.poll2Loop n c).1 := by
  induction n with
  | zero => intro c h; unfold Conn.poll2Loop; exact h.panic _
  | succ n ih =>
    intro c h
    unfold Conn.poll2Loop
    dsimp only
    have h0 := h.sendPendingGoAway
    rcases hr0 : c.sendPendingGoAway with ⟨c0, r0⟩
    rw [hr0] at h0
    dsimp only at h0
    have goOn : CInv
        (match c0.pollReady with
          | (c, .pending) => (c, PollRes.pending)
          | (c, .err e) => (c, .ready (.error e))
          | (c, .ok) =>
            let (codec, polled) := pollNext (c.codec.r.buf.length + c.codec.io.rd.length + 2) c.codec c.cx
            let c := { c with codec := codec }
            match polled with
            | .pending => (c, .pending)
            | .err e => (c, .ready (.error (Conn.rerrToPErr e)))
            | .ioErr kind msg => (c, .ready (.error (.io kind msg)))
            | other =>
              let frame := match other with | .frame f => some f | _ => none
              match c.recvFrame frame with
              | (c, .error e) => (c, .ready (.error e))
              | (c, .ok .continue) => Conn.poll2Loop n c
              | (c, .ok .done) => (c, .ready (.ok ()))
              | (c, .ok (.settings ack vals)) =>
                match c.recvSettings ack vals with
                | (c, .error e) => (c, .ready (.error e))
                | (c, .ok _) => Conn.poll2Loop n c).1 := by
      have h1 := h0.pollReady
      rcases hr1 : c0.pollReady with ⟨c1, r1⟩
      rw [hr1] at h1
      dsimp only at h1
      cases r1 with
      | pending => exact h1
      | err e => exact h1
      | ok =>
        dsimp only
        rcases hpn : pollNext (c1.codec.r.buf.length + c1.codec.io.rd.length + 2) c1.codec c1.cx with ⟨codec, polled⟩
        dsimp only
        have hw := (pollNext_w (c1.codec.r.buf.length + c1.codec.io.rd.length + 2) c1.codec c1.cx).1
        rw [hpn] at hw
        have h2 : CInv { c1 with codec := codec } := h1.withCodec codec hw
        have after : ∀ (fr : Option Frame.Frame), (∀ g, fr = some g → FrameOk g) → CInv
            (match Conn.recvFrame { c1 with codec := codec } fr with
              | (c, .error e) => (c, PollRes.ready (.error e))
              | (c, .ok .continue) => Conn.poll2Loop n c
              | (c, .ok .done) => (c, .ready (.ok ()))
              | (c, .ok (.settings ack vals)) =>
                match c.recvSettings ack vals with
                | (c, .error e) => (c, .ready (.error e))
                | (c, .ok _) => Conn.poll2Loop n c).1 := by
          intro fr hfr
          have h3 := h2.recvFrame fr hfr
          rcases hrf : Conn.recvFrame { c1 with codec := codec } fr with ⟨c3, r3⟩
          rw [hrf] at h3
          dsimp only at h3
          cases r3 with
          | error e => exact h3
          | ok rf =>
            cases rf with
            | «continue» => exact ih h3
            | done => exact h3
            | settings ack vals =>
              dsimp only
              have hfe : fr = some (.settings ack vals) := recvFrame_settings (by rw [hrf])
              have hv : SettingsOk vals := hfr _ hfe
              have h4 := h3.recvSettings ack vals hv
              rcases hrs : c3.recvSettings ack vals with ⟨c4, r4⟩
              rw [hrs] at h4
              cases r4 with
              | error e => exact h4
              | ok u => exact ih h4
        cases polled with
        | pending => exact h2
        | err e => exact h2
        | ioErr k m => exact h2
        | frame f =>
          dsimp only
          exact after (some f) (fun g hg => by cases hg; exact pollNext_frameOk _ _ _ _ _ hpn)
        | eof =>
          dsimp only
          exact after none (fun g hg => by cases hg)
    cases r0 with
    | pending => exact h0
    | err e => exact h0
    | none => exact goOn
    | reason r =>
      dsimp only
      split
      · split <;> exact h0
      · exact goOn

theorem CInv.poll2 {c : Conn} (h : CInv c) (n : Nat) : CInv (Conn.poll2 n c).1 := by
  unfold Conn.poll2
  exact CInv.poll2Loop n (h.of_streams (h.sr.clearExpiredResetStreams _) rfl rfl)


theorem CInv.goAwayNowData {c : Conn} (h : CInv c) (e : Reason) (d : Bytes) : CInv (c.goAwayNowData e d) := by
  unfold Conn.goAwayNowData
  dsimp only
  apply CInv.ite_panic
  exact h.of_streams h.sr rfl rfl

theorem CInv.ite {c1 c2 : Conn} (b : Prop) [Decidable b] (h1 : CInv c1) (h2 : CInv c2) : CInv (if b then c1 else c2) := by
  split
  · exact h1
  · exact h2

theorem CInv.ite_fst {α : Type} {x y : Conn × α} (b : Prop) [Decidable b] (h1 : CInv x.1) (h2 : CInv y.1) :
    CInv (if b then x else y).1 := by
  split
  · exact h1
  · exact h2

theorem CInv.handleGoAway {c : Conn} (h : CInv c) (r : Reason) (d : Bytes) (i : Initiator) : CInv (c.handleGoAway r d i) := by
  unfold Conn.handleGoAway
  refine CInv.ite _ (h.of_streams h.sr rfl rfl) ?_
  have := h.sr.handleError (.goAway d r i)
  rcases hh : c.streams.handleError (.goAway d r i) with ⟨s, l⟩
  rw [hh] at this
  dsimp only
  have h2 : CInv ({ c with streams := s }) := h.of_streams this rfl rfl
  exact h2.goAwayNowData r d

theorem CInv.handlePoll2Result {c : Conn} (h : CInv c) (res : Except PErr Unit) : CInv (c.handlePoll2Result res).1 := by
  unfold Conn.handlePoll2Result
  cases res with
  | ok u => exact h.of_streams h.sr rfl rfl
  | error e =>
    cases e with
    | goAway debug reason init => exact h.handleGoAway _ _ _
    | reset id reason init =>
      dsimp only
      split
      · exact h
      · have := h.sr.innerSendReset id reason
        split
        · next s u heq => rw [heq] at this; exact h.of_streams this rfl rfl
        · next s g heq =>
          rw [heq] at this
          have h2 : CInv ({ c with streams := s }) := h.of_streams this rfl rfl
          exact h2.handleGoAway _ _ _
    | io kind msg =>
      dsimp only
      have h1 : CInv ({ c with streams := (c.streams.handleError (.io kind msg)).1 }) :=
        h.of_streams (h.sr.handleError _) rfl rfl
      exact CInv.ite_fst _ (h1.of_streams h1.sr rfl rfl) h1

theorem shutdownW_cap {w w' : Writer} {io io' : Tio} {tag : String} {r : WRes} (h : CapOK w)
    (hs : shutdownW w io tag = (w', io', r)) : CapOK w' := by
  unfold shutdownW at hs
  cases hf : w.finalFlushDone with
  | true =>
    simp only [hf, Bool.not_true, Bool.false_eq_true, if_false] at hs
    cases hs; exact h
  | false =>
    simp only [hf, Bool.not_false, if_true] at hs
    rcases hfl : flush w io tag with ⟨w1, io1, r1⟩
    rw [hfl] at hs
    have h1 := h.ofFlush hfl
    cases r1 with
    | ready => simp only at hs; cases hs; exact h1.of_eq rfl (Nat.le_refl _)
    | pending => simp only at hs; cases hs; exact h1
    | err k => simp only at hs; cases hs; exact h1

theorem CInv.protoPoll (n : Nat) : ∀ {c : Conn}, CInv c → CInv (Conn.protoPoll n c).1 := by
  induction n with
  | zero => intro c h; unfold Conn.protoPoll; exact h.panic _
  | succ n ih =>
    intro c h
    unfold Conn.protoPoll
    split
    · -- Open
      have h1 := h.poll2 (n + 1)
      rcases hp2 : Conn.poll2 (n + 1) c with ⟨c1, r1⟩
      rw [hp2] at h1
      dsimp only at h1
      cases r1 with
      | ready res =>
        dsimp only
        have h2 := h1.handlePoll2Result res
        rcases hh : c1.handlePoll2Result res with ⟨c2, r2⟩
        rw [hh] at h2
        cases r2 with
        | ok u => exact ih h2
        | error e => exact h2
      | pending =>
        dsimp only
        have hs := h1.sr.pollComplete (n + 1) c1.codec.w c1.codec.io c1.cx
        have hc := CapOK.pollComplete (n + 1) c1.streams c1.codec.w c1.codec.io c1.cx h1.cap
        rcases hpc : Streams.pollComplete (n + 1) c1.streams c1.codec.w c1.codec.io c1.cx with ⟨s2, w2, io2, r2⟩
        rw [hpc] at hs hc
        dsimp only at hs hc ⊢
        have h2 : CInv { c1 with streams := s2, codec := { c1.codec with w := w2, io := io2 } } :=
          ⟨hc, hs, h1.remote, h1.loc⟩
        cases r2 with
        | pending => exact h2
        | err k => exact h2
        | ready =>
          dsimp only
          split
          · exact ih (h2.goAwayNowData _ _)
          · exact h2
    · -- Closing
      next r i hst =>
      rcases hs : shutdownW c.codec.w c.codec.io c.cx with ⟨w, io, r'⟩
      dsimp only
      have h2 : CInv { c with codec := { c.codec with w := w, io := io } } :=
        ⟨shutdownW_cap h.cap hs, h.sr, h.remote, h.loc⟩
      cases r' with
      | pending => exact h2
      | err k => exact h2
      | ready => exact ih (h2.of_streams h2.sr rfl rfl)
    · -- Closed
      unfold Conn.takeError
      dsimp only
      repeat' split
      all_goals exact h.of_streams h.sr rfl rfl

theorem CInv.clientPoll {c : Conn} (h : CInv c) (n : Nat) : CInv (Conn.clientPoll n c).1 := by
  unfold Conn.clientPoll
  dsimp only
  have h0 : CInv (if (!c.hasStreamsOrOtherReferences) = true then c.goAwayNow NO_ERROR else c) := by
    split
    · exact h.goAwayNowData _ _
    · exact h
  have h1 := CInv.protoPoll n h0
  exact CInv.ite _ (h1.of_streams (h1.sr.wake _) rfl rfl) h1

end H2V.Lemmas.ConnDrainP
