import H2V.Lemmas.ConnFidPFnStreams
/-
  ConnFidP, part 8 — what an elementary step means for the two queues of ONE entry (`El.view`), and the
  ledgers that follow by induction over a path:

    * receive side (`Path.recv_ledger`): as long as entry `k` was neither cleared nor removed,
        (events taken off `pending_recv` of k) ++ (events still queued) = (queued at the start) ++ (events queued since)
      — every event is handed out exactly once, unmodified, in arrival order;
    * send side without the write path (`Path.send_ledger`): as long as entry `k` was not cut or removed,
        `pending_send` of k = (queued at the start) ++ (frames queued since), in order.
-/
namespace H2V.Lemmas.ConnFidP
open H2V H2V.Model H2V.Model.Conn H2V.Lemmas.ConnWakeP

/-- `pending_send` of the entry with key `k` (empty when there is no such entry) -/
def sq (s : Streams) (k : Nat) : List SFrame := (s.stream k).pendingSend
/-- `pending_recv` of the entry with key `k` (empty when there is no such entry) -/
def rq (s : Streams) (k : Nat) : List REvent := (s.stream k).pendingRecv

theorem sq_of_get? {s : Streams} {k : Nat} {a : Stream} (h : s.store.get? k = some a) : sq s k = a.pendingSend := by
  unfold sq; rw [stream_eq_of_get? h]
theorem rq_of_get? {s : Streams} {k : Nat} {a : Stream} (h : s.store.get? k = some a) : rq s k = a.pendingRecv := by
  unfold rq; rw [stream_eq_of_get? h]
theorem sq_of_none {s : Streams} {k : Nat} (h : s.store.get? k = none) : sq s k = [] := by
  unfold sq Streams.stream; rw [h]; rfl
theorem rq_of_none {s : Streams} {k : Nat} (h : s.store.get? k = none) : rq s k = [] := by
  unfold rq Streams.stream; rw [h]; rfl

/-- the two queues of entry `k` across an elementary step -/
theorem El.view {l : Option Lbl} {s s' : Streams} (h : El l s s') (k : Nat) :
    (l = some (.gone k) ∧ s'.store.get? k = none) ∨
    (sq s' k = sendEff l k (sq s k) ∧ rq s' k = recvEff l k (rq s k)) := by
  cases ha : s.store.get? k with
  | some a =>
    rcases h.keep k a ha with ⟨b, hb, es⟩ | ⟨hn, hl⟩
    · refine Or.inr ?_
      have hk := Store.get?_key ha
      rw [sq_of_get? hb, rq_of_get? hb, sq_of_get? ha, rq_of_get? ha, es.send, es.recv, hk]
      exact ⟨rfl, rfl⟩
    · exact Or.inl ⟨hl, hn⟩
  | none =>
    refine Or.inr ?_
    rw [sq_of_none ha, rq_of_none ha]
    have hpres : ∀ l', l = some l' → l'.key? = some k → l'.isCut = false → False := by
      intro l' e hk hc
      have := h.pres l' k e hk hc
      rw [ha] at this; cases this
    have hs : sendEff l k [] = [] := by
      cases l with
      | none => rfl
      | some l' =>
        cases l' <;> simp only [sendEff] <;> (try rfl) <;> split <;> (try rfl)
        · next e => subst e; exact absurd (hpres _ rfl rfl rfl) id
        · simp
        · next e => subst e; exact absurd (hpres _ rfl rfl rfl) id
    have hr : recvEff l k [] = [] := by
      cases l with
      | none => rfl
      | some l' =>
        cases l' <;> simp only [recvEff] <;> (try rfl) <;> split <;> (try rfl)
        · next e => subst e; exact absurd (hpres _ rfl rfl rfl) id
    rw [hs, hr]
    cases hb : s'.store.get? k with
    | none => rw [sq_of_none hb, rq_of_none hb]; exact ⟨rfl, rfl⟩
    | some b =>
      obtain ⟨_, _, h1, h2⟩ := h.new k b ha hb
      rw [sq_of_get? hb, rq_of_get? hb, h1, h2]; exact ⟨rfl, rfl⟩

/-- a removed entry has no queues -/
theorem El.view_gone {l : Option Lbl} {s s' : Streams} (_h : El l s s') {k : Nat} (hn : s'.store.get? k = none) :
    sq s' k = [] ∧ rq s' k = [] := ⟨sq_of_none hn, rq_of_none hn⟩

/-- what `pop_front` took off `pending_recv` was its head -/
theorem El.view_rpop {s s' : Streams} {k : Nat} {e : REvent} (h : El (some (.rpop k e)) s s') :
    rq s k = e :: rq s' k := by
  have hp := h.pres _ k rfl rfl rfl
  obtain ⟨a, ha⟩ := Option.isSome_iff_exists.mp hp
  rcases h.keep k a ha with ⟨b, hb, es⟩ | ⟨_, hl⟩
  · have hk := Store.get?_key ha
    have hs := es.side
    simp only [sideOk] at hs
    have hh := hs hk.symm
    rw [rq_of_get? ha, rq_of_get? hb, es.recv]
    simp only [recvEff, hk, if_true]
    cases hq : a.pendingRecv with
    | nil => rw [hq] at hh; cases hh
    | cons x r => rw [hq] at hh; simp only [List.head?_cons, Option.some.injEq] at hh; subst hh; rfl
  · cases hl

/-- what `pop_front` took off `pending_send` was its head -/
theorem El.view_pop {s s' : Streams} {k : Nat} {f : SFrame} (h : El (some (.pop k f)) s s') :
    sq s k = f :: sq s' k := by
  have hp := h.pres _ k rfl rfl rfl
  obtain ⟨a, ha⟩ := Option.isSome_iff_exists.mp hp
  rcases h.keep k a ha with ⟨b, hb, es⟩ | ⟨_, hl⟩
  · have hk := Store.get?_key ha
    have hs := es.side
    simp only [sideOk] at hs
    have hh := hs hk.symm
    rw [sq_of_get? ha, sq_of_get? hb, es.send]
    simp only [sendEff, hk, if_true]
    cases hq : a.pendingSend with
    | nil => rw [hq] at hh; cases hh
    | cons x r => rw [hq] at hh; simp only [List.head?_cons, Option.some.injEq] at hh; subst hh; rfl
  · cases hl

-- ===================================================================== the ghost sequences of a trace

def rcvd1 (k : Nat) : Lbl → Option REvent
  | .rpush j e => if j = k then some e else none
  | _ => none
def dlvd1 (k : Nat) : Lbl → Option REvent
  | .rpop j e => if j = k then some e else none
  | _ => none
def pushed1 (k : Nat) : Lbl → Option SFrame
  | .push j f => if j = k then some f else none
  | _ => none
def rlost1 (k : Nat) : Lbl → Bool
  | .rclear j => j = k
  | .gone j => j = k
  | _ => false
def wasCut1 (k : Nat) : Lbl → Bool
  | .cut j _ => j = k
  | .gone j => j = k
  | _ => false

/-- events queued on entry `k` -/
def rcvd (k : Nat) (tr : List Lbl) : List REvent := tr.filterMap (rcvd1 k)
/-- events taken off `pending_recv` of entry `k` (handed to the application) -/
def dlvd (k : Nat) (tr : List Lbl) : List REvent := tr.filterMap (dlvd1 k)
/-- `pending_recv` of entry `k` was cleared, or the entry removed -/
def rlost (k : Nat) (tr : List Lbl) : Bool := tr.any (rlost1 k)
/-- frames queued on entry `k` -/
def pushed (k : Nat) (tr : List Lbl) : List SFrame := tr.filterMap (pushed1 k)
/-- `pending_send` of entry `k` was cut, or the entry removed -/
def wasCut (k : Nat) (tr : List Lbl) : Bool := tr.any (wasCut1 k)

@[simp] theorem rcvd_nil (k : Nat) : rcvd k [] = [] := rfl
@[simp] theorem dlvd_nil (k : Nat) : dlvd k [] = [] := rfl
@[simp] theorem pushed_nil (k : Nat) : pushed k [] = [] := rfl
@[simp] theorem rlost_nil (k : Nat) : rlost k [] = false := rfl
@[simp] theorem wasCut_nil (k : Nat) : wasCut k [] = false := rfl
theorem rcvd_snoc (k : Nat) (a : List Lbl) (l : Lbl) : rcvd k (a ++ [l]) = rcvd k a ++ (rcvd1 k l).toList := by
  unfold rcvd; rw [List.filterMap_append]; cases h : rcvd1 k l <;> simp [h]
theorem dlvd_snoc (k : Nat) (a : List Lbl) (l : Lbl) : dlvd k (a ++ [l]) = dlvd k a ++ (dlvd1 k l).toList := by
  unfold dlvd; rw [List.filterMap_append]; cases h : dlvd1 k l <;> simp [h]
theorem pushed_snoc (k : Nat) (a : List Lbl) (l : Lbl) : pushed k (a ++ [l]) = pushed k a ++ (pushed1 k l).toList := by
  unfold pushed; rw [List.filterMap_append]; cases h : pushed1 k l <;> simp [h]
theorem rlost_snoc (k : Nat) (a : List Lbl) (l : Lbl) : rlost k (a ++ [l]) = (rlost k a || rlost1 k l) := by
  unfold rlost; simp
theorem wasCut_snoc (k : Nat) (a : List Lbl) (l : Lbl) : wasCut k (a ++ [l]) = (wasCut k a || wasCut1 k l) := by
  unfold wasCut; simp
@[simp] theorem rcvd_append (k : Nat) (a b : List Lbl) : rcvd k (a ++ b) = rcvd k a ++ rcvd k b := List.filterMap_append ..
@[simp] theorem dlvd_append (k : Nat) (a b : List Lbl) : dlvd k (a ++ b) = dlvd k a ++ dlvd k b := List.filterMap_append ..
@[simp] theorem pushed_append (k : Nat) (a b : List Lbl) : pushed k (a ++ b) = pushed k a ++ pushed k b := List.filterMap_append ..
@[simp] theorem rlost_append (k : Nat) (a b : List Lbl) : rlost k (a ++ b) = (rlost k a || rlost k b) := List.any_append ..
@[simp] theorem wasCut_append (k : Nat) (a b : List Lbl) : wasCut k (a ++ b) = (wasCut k a || wasCut k b) := List.any_append ..

/-- **receive ledger**: until `pending_recv` of `k` is cleared (`clear_recv_buffer`) or the entry removed,
    delivered ++ still queued = queued at the start ++ received since -/
theorem Path.recv_ledger {P : Perm} {s0 s : Streams} {tr : List Lbl} (h : Path P s0 s tr) (k : Nat)
    (hl : rlost k tr = false) : dlvd k tr ++ rq s k = rq s0 k ++ rcvd k tr := by
  induction h with
  | refl => simp
  | tau _ e ih =>
    rcases e.view k with ⟨hg, _⟩ | ⟨_, hr⟩
    · cases hg
    · rw [hr]; exact ih hl
  | lbl l _ e _ ih =>
    rw [rlost_snoc, Bool.or_eq_false_iff] at hl
    have ih := ih hl.1
    have hl2 := hl.2
    rw [dlvd_snoc, rcvd_snoc]
    rcases e.view k with ⟨hg, _⟩ | ⟨_, hr⟩
    · cases hg; simp [rlost1] at hl2
    · cases l with
      | rpush j ev =>
        by_cases hj : j = k
        · subst hj
          simp only [recvEff, if_true] at hr
          simp only [dlvd1, rcvd1, if_true, Option.toList, List.append_nil, hr]
          rw [← List.append_assoc, ih, List.append_assoc]
        · simp only [recvEff, hj, if_false] at hr
          simp only [dlvd1, rcvd1, hj, if_false, Option.toList, List.append_nil, hr]
          exact ih
      | rpop j ev =>
        by_cases hj : j = k
        · subst hj
          have hv := e.view_rpop
          simp only [dlvd1, rcvd1, if_true, Option.toList, List.append_nil]
          rw [hv] at ih
          rw [List.append_assoc]; exact ih
        · simp only [recvEff, hj, if_false] at hr
          simp only [dlvd1, rcvd1, hj, if_false, Option.toList, List.append_nil, hr]
          exact ih
      | rclear j =>
        have : j ≠ k := by intro e; subst e; simp [rlost1] at hl2
        simp only [recvEff, this, if_false] at hr
        simp only [dlvd1, rcvd1, Option.toList, List.append_nil, hr]
        exact ih
      | _ =>
        simp only [recvEff] at hr
        simp only [dlvd1, rcvd1, Option.toList, List.append_nil, hr]
        exact ih

/-- **send ledger (everything but the write path)**: on a path without `pop`/`unpop`, until `pending_send` of
    `k` is cut (reset, error) or the entry removed, the queue is what it was, followed by what was
    queued since, in order -/
theorem Path.send_ledger {P : Perm} {s0 s : Streams} {tr : List Lbl} (h : Path P s0 s tr) (hw : ¬P.write) (hp : ¬P.pop) (k : Nat)
    (hl : wasCut k tr = false) : sq s k = sq s0 k ++ pushed k tr := by
  induction h with
  | refl => simp
  | tau _ e ih =>
    rcases e.view k with ⟨hg, _⟩ | ⟨hs, _⟩
    · cases hg
    · rw [hs]; exact ih hl
  | lbl l _ e ok ih =>
    rw [wasCut_snoc, Bool.or_eq_false_iff] at hl
    have ih := ih hl.1
    have hl2 := hl.2
    rw [pushed_snoc]
    rcases e.view k with ⟨hg, _⟩ | ⟨hs, _⟩
    · cases hg; simp [wasCut1] at hl2
    · cases l with
      | push j f =>
        by_cases hj : j = k
        · subst hj
          simp only [sendEff, if_true] at hs
          simp only [pushed1, if_true, Option.toList, hs, ih, List.append_assoc]
        · simp only [sendEff, hj, if_false] at hs
          simp only [pushed1, hj, if_false, Option.toList, List.append_nil, hs, ih]
      | pop j f => exact absurd ok hp
      | unpop j f => exact absurd ok hw
      | cut j n =>
        have : j ≠ k := by intro e; subst e; simp [wasCut1] at hl2
        simp only [sendEff, this, if_false] at hs
        simp only [pushed1, Option.toList, List.append_nil, hs, ih]
      | _ =>
        simp only [sendEff] at hs
        simp only [pushed1, Option.toList, List.append_nil, hs, ih]

end H2V.Lemmas.ConnFidP
