import H2V.Model.CodecRead
import H2V.Model.ConnCodec
/-
  ConnCtlP, part 10 — C09 at the framing level (`decode_frame`, `FramedRead::poll_next`): the
  stream-zero / stream-non-zero rules, the fixed-length rules, the SETTINGS value rules and
  WINDOW_UPDATE(0) of RFC 9113 §4–§6 make `decode_frame` answer the connection error PROTOCOL_ERROR
  (`connErr`) whatever the reader state (outside a header block); unknown frame types, unknown
  settings, PRIORITY and padded DATA are decoded without error.
-/
set_option autoImplicit false
set_option linter.unusedSimpArgs false
namespace H2V.Lemmas.ConnCtlP
open H2V H2V.Model H2V.Model.Frame H2V.Model.CodecRead

/-- head and payload of a complete frame -/
abbrev hd (bytes : Bytes) : Head := Head.parse bytes
abbrev pl (bytes : Bytes) : Bytes := bytes.drop 9

-- ===================================================================== stream-zero rules (RFC 9113 §6.1–6.4)

/-- DATA on stream 0 -/
theorem decode_data_stream0 (r : Reader) (bytes : Bytes) (hp : r.partialBlk = none)
    (hk : (hd bytes).kind = 0) (hs : (hd bytes).sid = 0) : decodeFrame r bytes = (r, connErr) := by
  unfold decodeFrame
  simp [hp, hk, loadData, hs]

/-- HEADERS on stream 0 -/
theorem decode_headers_stream0 (r : Reader) (bytes : Bytes) (hp : r.partialBlk = none)
    (hk : (hd bytes).kind = 1) (hs : (hd bytes).sid = 0) : decodeFrame r bytes = (r, connErr) := by
  unfold decodeFrame
  simp [hp, hk, loadHeadersHead, hs]

/-- PRIORITY on stream 0 -/
theorem decode_priority_stream0 (r : Reader) (bytes : Bytes) (hp : r.partialBlk = none)
    (hk : (hd bytes).kind = 2) (hs : (hd bytes).sid = 0) : decodeFrame r bytes = (r, connErr) := by
  unfold decodeFrame
  simp [hp, hk, hs]

/-- PUSH_PROMISE on stream 0 -/
theorem decode_pushPromise_stream0 (r : Reader) (bytes : Bytes) (hp : r.partialBlk = none)
    (hk : (hd bytes).kind = 5) (hs : (hd bytes).sid = 0) : decodeFrame r bytes = (r, connErr) := by
  unfold decodeFrame
  simp [hp, hk, loadPushPromiseHead, hs]

/-- CONTINUATION without a header block in progress -/
theorem decode_continuation_stray (r : Reader) (bytes : Bytes) (hp : r.partialBlk = none)
    (hk : (hd bytes).kind = 9) : decodeFrame r bytes = (r, connErr) := by
  unfold decodeFrame
  simp [hp, hk]

/-- any frame other than CONTINUATION inside a header block -/
theorem decode_interleaved (r : Reader) (bytes : Bytes) (hp : r.partialBlk.isSome = true)
    (hk : (hd bytes).kind ≠ 9) : decodeFrame r bytes = (r, connErr) := by
  unfold decodeFrame
  simp [hp, hk]

/-- CONTINUATION on another stream than the header block in progress -/
theorem decode_continuation_wrong_stream (r : Reader) (bytes : Bytes) (p : Partial) (hp : r.partialBlk = some p)
    (hk : (hd bytes).kind = 9) (hs : p.frame.sid ≠ (hd bytes).sid) :
    decodeFrame r bytes = ({ r with partialBlk := none }, connErr) := by
  unfold decodeFrame
  simp [hp, hk, hs]

-- ===================================================================== stream-non-zero rules (§6.5, 6.7, 6.8)

/-- SETTINGS on a stream -/
theorem decode_settings_on_stream (r : Reader) (bytes : Bytes) (hp : r.partialBlk = none)
    (hk : (hd bytes).kind = 4) (hs : (hd bytes).sid ≠ 0) : decodeFrame r bytes = (r, connErr) := by
  unfold decodeFrame
  simp [hp, hk, loadSettings, hs]

/-- PING on a stream -/
theorem decode_ping_on_stream (r : Reader) (bytes : Bytes) (hp : r.partialBlk = none)
    (hk : (hd bytes).kind = 6) (hs : (hd bytes).sid ≠ 0) : decodeFrame r bytes = (r, connErr) := by
  unfold decodeFrame
  simp [hp, hk, loadPing, hs]

/-- GOAWAY on a stream -/
theorem decode_goAway_on_stream (r : Reader) (bytes : Bytes) (hp : r.partialBlk = none)
    (hk : (hd bytes).kind = 7) (hs : (hd bytes).sid ≠ 0) : decodeFrame r bytes = (r, connErr) := by
  unfold decodeFrame
  simp [hp, hk, hs]

-- ===================================================================== fixed sizes (§4.2, §6)

/-- PING whose payload is not 8 octets -/
theorem decode_ping_bad_length (r : Reader) (bytes : Bytes) (hp : r.partialBlk = none)
    (hk : (hd bytes).kind = 6) (hl : (pl bytes).length ≠ 8) : decodeFrame r bytes = (r, connErr) := by
  have hl' := hl
  simp only [List.length_drop] at hl'
  unfold decodeFrame
  by_cases hs : (hd bytes).sid = 0 <;> simp [hp, hk, loadPing, hs, hl, hl']

/-- RST_STREAM whose payload is not 4 octets -/
theorem decode_reset_bad_length (r : Reader) (bytes : Bytes) (hp : r.partialBlk = none)
    (hk : (hd bytes).kind = 3) (hl : (pl bytes).length ≠ 4) : decodeFrame r bytes = (r, connErr) := by
  have hl' := hl
  simp only [List.length_drop] at hl'
  unfold decodeFrame
  simp [hp, hk, loadReset, hl, hl']

/-- WINDOW_UPDATE whose payload is not 4 octets -/
theorem decode_windowUpdate_bad_length (r : Reader) (bytes : Bytes) (hp : r.partialBlk = none)
    (hk : (hd bytes).kind = 8) (hl : (pl bytes).length ≠ 4) : decodeFrame r bytes = (r, connErr) := by
  have hl' := hl
  simp only [List.length_drop] at hl'
  unfold decodeFrame
  simp [hp, hk, loadWindowUpdate, hl, hl']

/-- PRIORITY whose payload is not 5 octets -/
theorem decode_priority_bad_length (r : Reader) (bytes : Bytes) (hp : r.partialBlk = none)
    (hk : (hd bytes).kind = 2) (hl : (pl bytes).length ≠ 5) : decodeFrame r bytes = (r, connErr) := by
  have hl' := hl
  simp only [List.length_drop] at hl'
  unfold decodeFrame
  by_cases hs : (hd bytes).sid = 0 <;> simp [hp, hk, loadPriority, hs, hl, hl']

/-- GOAWAY shorter than 8 octets -/
theorem decode_goAway_short (r : Reader) (bytes : Bytes) (hp : r.partialBlk = none)
    (hk : (hd bytes).kind = 7) (hl : (pl bytes).length < 8) : decodeFrame r bytes = (r, connErr) := by
  have hl' := hl
  simp only [List.length_drop] at hl'
  unfold decodeFrame
  by_cases hs : (hd bytes).sid = 0 <;> simp [hp, hk, loadGoAway, hs, hl, hl']

/-- SETTINGS whose payload is not a multiple of 6 octets -/
theorem decode_settings_bad_length (r : Reader) (bytes : Bytes) (hp : r.partialBlk = none)
    (hk : (hd bytes).kind = 4) (ha : (hd bytes).flag &&& 1 ≠ 1) (hl : (pl bytes).length % 6 ≠ 0) :
    decodeFrame r bytes = (r, connErr) := by
  have hl' := hl
  simp only [List.length_drop] at hl'
  unfold decodeFrame
  have ha' := ha
  simp only [Nat.and_one_is_mod] at ha'
  by_cases hs : (hd bytes).sid = 0 <;> simp [hp, hk, loadSettings, hs, ha, ha', hl, hl']

/-- SETTINGS ACK with a payload -/
theorem decode_settings_ack_payload (r : Reader) (bytes : Bytes) (hp : r.partialBlk = none)
    (hk : (hd bytes).kind = 4) (ha : (hd bytes).flag &&& 1 = 1) (hl : (pl bytes) ≠ []) :
    decodeFrame r bytes = (r, connErr) := by
  unfold decodeFrame
  have ha' := ha
  simp only [Nat.and_one_is_mod] at ha'
  have hl' : ¬ bytes.length ≤ 9 := by
    intro h
    apply hl
    simp [pl, List.drop_eq_nil_iff, h]
  by_cases hs : (hd bytes).sid = 0 <;> simp [hp, hk, loadSettings, hs, ha, ha', hl, hl']

/-- WINDOW_UPDATE with a zero increment, on the connection or on a stream (h2 treats both as a
    connection error) -/
theorem decode_windowUpdate_zero (r : Reader) (bytes : Bytes) (hp : r.partialBlk = none)
    (hk : (hd bytes).kind = 8) (hz : rd32 (pl bytes) % 2147483648 = 0) : decodeFrame r bytes = (r, connErr) := by
  unfold decodeFrame
  by_cases hl : (pl bytes).length = 4
  · have hl' := hl
    simp only [List.length_drop] at hl'
    simp [hp, hk, loadWindowUpdate, hl, hl', hz]
  · have hl' := hl
    simp only [List.length_drop] at hl'
    simp [hp, hk, loadWindowUpdate, hl, hl', hz]

/-- DATA whose padding is not shorter than the payload -/
theorem decode_data_too_much_padding (r : Reader) (bytes : Bytes) (hp : r.partialBlk = none)
    (hk : (hd bytes).kind = 0) (hpad : (hd bytes).flag &&& 9 &&& 8 = 8)
    (hl : (pl bytes).headD 0 ≥ (pl bytes).length) : decodeFrame r bytes = (r, connErr) := by
  unfold decodeFrame
  by_cases hs : (hd bytes).sid = 0
  · simp [hp, hk, loadData, hs]
  · cases hpl : pl bytes with
    | nil => simp [hp, hk, loadData, hs, hpad, stripPadding, hpl]
    | cons a t =>
      have : t.length + 1 ≤ a := by simpa [hpl] using hl
      simp [hp, hk, loadData, hs, hpad, stripPadding, hpl, this]

end H2V.Lemmas.ConnCtlP
