import H2V.Model.CodecRead
import H2V.Model.ConnCodec
/-
  ConnCtlP, part 10 — C09 at the framing level (`decode_frame`, `FramedRead::poll_next`): the
  stream-zero / stream-non-zero rules, the fixed-length rules, the SETTINGS value rules and
  WINDOW_UPDATE(0) of RFC 9113 §4–§6 make `decode_frame` answer the connection error PROTOCOL_ERROR
  (`connErr`) whatever the reader state (outside a header block); unknown frame types, unknown
  settings, PRIORITY and padded DATA are decoded without error.
-/
set_option autoImplicit false
set_option linter.unusedSimpArgs false
namespace H2V.Lemmas.ConnCtlP
open H2V H2V.Model H2V.Model.Frame H2V.Model.CodecRead

/-- head and payload of a complete frame -/
abbrev hd (bytes : Bytes) : Head := Head.parse bytes
abbrev pl (bytes : Bytes) : Bytes := bytes.drop 9

-- ===================================================================== stream-zero rules (RFC 9113 §6.1–6.4)

/-- DATA on stream 0 -/
theorem decode_data_stream0 (r : Reader) (bytes : Bytes) (hp : r.partialBlk = none)
    (hk : (hd bytes).kind = 0) (hs : (hd bytes).sid = 0) : decodeFrame r bytes = (r, connErr) := by
  unfold decodeFrame
  simp [hp, hk, loadData, hs]

/-- HEADERS on stream 0 -/
theorem decode_headers_stream0 (r : Reader) (bytes : Bytes) (hp : r.partialBlk = none)
    (hk : (hd bytes).kind = 1) (hs : (hd bytes).sid = 0) : decodeFrame r bytes = (r, connErr) := by
  unfold decodeFrame
  simp [hp, hk, loadHeadersHead, hs]

/-- PRIORITY on stream 0 -/
theorem decode_priority_stream0 (r : Reader) (bytes : Bytes) (hp : r.partialBlk = none)
    (hk : (hd bytes).kind = 2) (hs : (hd bytes).sid = 0) : decodeFrame r bytes = (r, connErr) := by
  unfold decodeFrame
  simp [hp, hk, hs]

/-- PUSH_PROMISE on stream 0 -/
theorem decode_pushPromise_stream0 (r : Reader) (bytes : Bytes) (hp : r.partialBlk = none)
    (hk : (hd bytes).kind = 5) (hs : (hd bytes).sid = 0) : decodeFrame r bytes = (r, connErr) := by
  unfold decodeFrame
  simp [hp, hk, loadPushPromiseHead, hs]

/-- CONTINUATION without a header block in progress -/
theorem decode_continuation_stray (r : Reader) (bytes : Bytes) (hp : r.partialBlk = none)
    (hk : (hd bytes).kind = 9) : decodeFrame r bytes = (r, connErr) := by
  unfold decodeFrame
  simp [hp, hk]

/-- any frame other than CONTINUATION inside a header block -/
theorem decode_interleaved (r : Reader) (bytes : Bytes) (hp : r.partialBlk.isSome = true)
    (hk : (hd bytes).kind ≠ 9) : decodeFrame r bytes = (r, connErr) := by
  unfold decodeFrame
  simp [hp, hk]

/-- CONTINUATION on another stream than the header block in progress -/
theorem decode_continuation_wrong_stream (r : Reader) (bytes : Bytes) (p : Partial) (hp : r.partialBlk = some p)
    (hk : (hd bytes).kind = 9) (hs : p.frame.sid ≠ (hd bytes).sid) :
    decodeFrame r bytes = ({ r with partialBlk := none }, connErr) := by
  unfold decodeFrame
  simp [hp, hk, hs]

-- ===================================================================== stream-non-zero rules (§6.5, 6.7, 6.8)

/-- SETTINGS on a stream -/
theorem decode_settings_on_stream (r : Reader) (bytes : Bytes) (hp : r.partialBlk = none)
    (hk : (hd bytes).kind = 4) (hs : (hd bytes).sid ≠ 0) : decodeFrame r bytes = (r, connErr) := by
  unfold decodeFrame
  simp [hp, hk, loadSettings, hs]

/-- PING on a stream -/
theorem decode_ping_on_stream (r : Reader) (bytes : Bytes) (hp : r.partialBlk = none)
    (hk : (hd bytes).kind = 6) (hs : (hd bytes).sid ≠ 0) : decodeFrame r bytes = (r, connErr) := by
  unfold decodeFrame
  simp [hp, hk, loadPing, hs]

/-- GOAWAY on a stream -/
theorem decode_goAway_on_stream (r : Reader) (bytes : Bytes) (hp : r.partialBlk = none)
    (hk : (hd bytes).kind = 7) (hs : (hd bytes).sid ≠ 0) : decodeFrame r bytes = (r, connErr) := by
  unfold decodeFrame
  simp [hp, hk, hs]

-- ===================================================================== fixed sizes (§4.2, §6)

/-- PING whose payload is not 8 octets -/
theorem decode_ping_bad_length (r : Reader) (bytes : Bytes) (hp : r.partialBlk = none)
    (hk : (hd bytes).kind = 6) (hl : (pl bytes).length ≠ 8) : decodeFrame r bytes = (r, connErr) := by
  have hl' := hl
  simp only [List.length_drop] at hl'
  unfold decodeFrame
  by_cases hs : (hd bytes).sid = 0 <;> simp [hp, hk, loadPing, hs, hl, hl']

/-- RST_STREAM whose payload is not 4 octets -/
theorem decode_reset_bad_length (r : Reader) (bytes : Bytes) (hp : r.partialBlk = none)
    (hk : (hd bytes).kind = 3) (hl : (pl bytes).length ≠ 4) : decodeFrame r bytes = (r, connErr) := by
  have hl' := hl
  simp only [List.length_drop] at hl'
  unfold decodeFrame
  simp [hp, hk, loadReset, hl, hl']

/-- WINDOW_UPDATE whose payload is not 4 octets -/
theorem decode_windowUpdate_bad_length (r : Reader) (bytes : Bytes) (hp : r.partialBlk = none)
    (hk : (hd bytes).kind = 8) (hl : (pl bytes).length ≠ 4) : decodeFrame r bytes = (r, connErr) := by
  have hl' := hl
  simp only [List.length_drop] at hl'
  unfold decodeFrame
  simp [hp, hk, loadWindowUpdate, hl, hl']

/-- PRIORITY whose payload is not 5 octets -/
theorem decode_priority_bad_length (r : Reader) (bytes : Bytes) (hp : r.partialBlk = none)
    (hk : (hd bytes).kind = 2) (hl : (pl bytes).length ≠ 5) : decodeFrame r bytes = (r, connErr) := by
  have hl' := hl
  simp only [List.length_drop] at hl'
  unfold decodeFrame
  by_cases hs : (hd bytes).sid = 0 <;> simp [hp, hk, loadPriority, hs, hl, hl']

/-- GOAWAY shorter than 8 octets -/
theorem decode_goAway_short (r : Reader) (bytes : Bytes) (hp : r.partialBlk = none)
    (hk : (hd bytes).kind = 7) (hl : (pl bytes).length < 8) : decodeFrame r bytes = (r, connErr) := by
  have hl' := hl
  simp only [List.length_drop] at hl'
  unfold decodeFrame
  by_cases hs : (hd bytes).sid = 0 <;> simp [hp, hk, loadGoAway, hs, hl, hl']

/-- SETTINGS whose payload is not a multiple of 6 octets -/
theorem decode_settings_bad_length (r : Reader) (bytes : Bytes) (hp : r.partialBlk = none)
    (hk : (hd bytes).kind = 4) (ha : (hd bytes).flag &&& 1 ≠ 1) (hl : (pl bytes).length % 6 ≠ 0) :
    decodeFrame r bytes = (r, connErr) := by
  have hl' := hl
  simp only [List.length_drop] at hl'
  unfold decodeFrame
  have ha' := ha
  simp only [Nat.and_one_is_mod] at ha'
  by_cases hs : (hd bytes).sid = 0 <;> simp [hp, hk, loadSettings, hs, ha, ha', hl, hl']

/-- SETTINGS ACK with a payload -/
theorem decode_settings_ack_payload (r : Reader) (bytes : Bytes) (hp : r.partialBlk = none)
    (hk : (hd bytes).kind = 4) (ha : (hd bytes).flag &&& 1 = 1) (hl : (pl bytes) ≠ []) :
    decodeFrame r bytes = (r, connErr) := by
  unfold decodeFrame
  have ha' := ha
  simp only [Nat.and_one_is_mod] at ha'
  have hl' : ¬ bytes.length ≤ 9 := by
    intro h
    apply hl
    simp [pl, List.drop_eq_nil_iff, h]
  by_cases hs : (hd bytes).sid = 0 <;> simp [hp, hk, loadSettings, hs, ha, ha', hl, hl']

/-- WINDOW_UPDATE with a zero increment, on the connection or on a stream (h2 treats both as a
    connection error) -/
theorem decode_windowUpdate_zero (r : Reader) (bytes : Bytes) (hp : r.partialBlk = none)
    (hk : (hd bytes).kind = 8) (hz : rd32 (pl bytes) % 2147483648 = 0) : decodeFrame r bytes = (r, connErr) := by
  unfold decodeFrame
  by_cases hl : (pl bytes).length = 4
  · have hl' := hl
    simp only [List.length_drop] at hl'
    simp [hp, hk, loadWindowUpdate, hl, hl', hz]
  · have hl' := hl
    simp only [List.length_drop] at hl'
    simp [hp, hk, loadWindowUpdate, hl, hl', hz]

/-- DATA whose padding is not shorter than the payload -/
theorem decode_data_too_much_padding (r : Reader) (bytes : Bytes) (hp : r.partialBlk = none)
    (hk : (hd bytes).kind = 0) (hpad : (hd bytes).flag &&& 9 &&& 8 = 8)
    (hl : (pl bytes).headD 0 ≥ (pl bytes).length) : decodeFrame r bytes = (r, connErr) := by
  unfold decodeFrame
  by_cases hs : (hd bytes).sid = 0
  · simp [hp, hk, loadData, hs]
  · cases hpl : pl bytes with
    | nil => simp [hp, hk, loadData, hs, hpad, stripPadding, hpl]
    | cons a t =>
      have : t.length + 1 ≤ a := by simpa [hpl] using hl
      simp [hp, hk, loadData, hs, hpad, stripPadding, hpl, this]

-- ===================================================================== SETTINGS values (§6.5.2)

/-- a setting whose value RFC 9113 §6.5.2 forbids: ENABLE_PUSH / ENABLE_CONNECT_PROTOCOL above 1,
    INITIAL_WINDOW_SIZE above 2^31-1, MAX_FRAME_SIZE outside [2^14, 2^24-1] -/
def InvalidSetting (id val : Nat) : Prop :=
  ((id = 2 ∨ id = 8) ∧ val > 1) ∨ (id = 4 ∧ val > 2147483647) ∨ (id = 5 ∧ (val < 16384 ∨ val > 16777215))

theorem applySetting_invalid (acc : List (Nat × Nat)) (id val : Nat) (h : InvalidSetting id val) :
    applySetting acc id val = none := by
  unfold applySetting
  simp only [Generated.Consts.MAX_INITIAL_WINDOW_SIZE, Generated.Consts.DEFAULT_MAX_FRAME_SIZE,
    Generated.Consts.MAX_MAX_FRAME_SIZE]
  rcases h with ⟨h1 | h1, h2⟩ | ⟨h1, h2⟩ | ⟨h1, h2⟩
  · subst h1; simp; omega
  · subst h1; simp; omega
  · subst h1; simp; omega
  · subst h1; simp; omega

/-- unknown settings are ignored, the accumulated values are untouched -/
theorem applySetting_unknown (acc : List (Nat × Nat)) (id val : Nat)
    (h : id ≠ 1 ∧ id ≠ 2 ∧ id ≠ 3 ∧ id ≠ 4 ∧ id ≠ 5 ∧ id ≠ 6 ∧ id ≠ 8) : applySetting acc id val = some acc := by
  unfold applySetting
  obtain ⟨h1, h2, h3, h4, h5, h6, h8⟩ := h
  simp [h1, h2, h3, h4, h5, h6, h8]

/-- the `n`-th 6-octet entry of a SETTINGS payload is invalid ⇒ the loop fails -/
theorem settingsLoop_invalid : ∀ (n fuel : Nat) (p : Bytes) (acc : List (Nat × Nat)), n < fuel → 6 * n + 6 ≤ p.length →
    InvalidSetting (rd16 (p.drop (6 * n))) (rd32 (p.drop (6 * n + 2))) →
    settingsLoop fuel p acc = .error .invalidSettingValue := by
  intro n
  induction n with
  | zero =>
    intro fuel p acc hf hl hi
    cases fuel with
    | zero => omega
    | succ f =>
      unfold settingsLoop
      have : ¬ p.length < 6 := by omega
      simp only [this, if_false]
      simp only [Nat.mul_zero, List.drop_zero, Nat.zero_add] at hi
      rw [applySetting_invalid acc _ _ hi]
  | succ n ih =>
    intro fuel p acc hf hl hi
    cases fuel with
    | zero => omega
    | succ f =>
      unfold settingsLoop
      have : ¬ p.length < 6 := by omega
      simp only [this, if_false]
      cases ha : applySetting acc (rd16 p) (rd32 (p.drop 2)) with
      | none => rfl
      | some acc' =>
        dsimp only
        apply ih f (p.drop 6) acc' (by omega) (by simp; omega)
        have e1 : 6 + 6 * n = 6 * (n + 1) := by omega
        have e2 : 6 + (6 * n + 2) = 6 * (n + 1) + 2 := by omega
        simpa [List.drop_drop, e1, e2] using hi

/-- **a SETTINGS frame carrying a forbidden value (ENABLE_PUSH = 2, INITIAL_WINDOW_SIZE = 2^31,
    MAX_FRAME_SIZE = 2^14 - 1, …) at any position is a connection error** -/
theorem decode_settings_invalid_value (r : Reader) (bytes : Bytes) (n : Nat) (hp : r.partialBlk = none)
    (hk : (hd bytes).kind = 4) (ha : (hd bytes).flag &&& 1 ≠ 1) (hl : 6 * n + 6 ≤ (pl bytes).length)
    (hi : InvalidSetting (rd16 ((pl bytes).drop (6 * n))) (rd32 ((pl bytes).drop (6 * n + 2)))) :
    decodeFrame r bytes = (r, connErr) := by
  unfold decodeFrame
  have hpn : r.partialBlk.isSome = false := by simp [hp]
  simp only [hpn, Bool.false_eq_true, false_and, if_false, hk]
  unfold loadSettings
  by_cases hs : (Head.parse bytes).sid = 0
  · have hs' : ¬ (Head.parse bytes).sid ≠ 0 := by simp [hs]
    simp only [hs', if_false, ha]
    by_cases hm : (List.drop 9 bytes).length % 6 ≠ 0
    · rw [if_pos hm]
    · rw [if_neg hm]
      have hfuel : n < (List.drop 9 bytes).length / 6 + 1 := by
        have : 6 * n + 6 ≤ (List.drop 9 bytes).length := hl
        omega
      rw [settingsLoop_invalid n _ _ [] hfuel hl hi]
  · have hs' : (Head.parse bytes).sid ≠ 0 := hs
    rw [if_pos hs']

-- ===================================================================== what is tolerated

/-- a frame of unknown type outside a header block is skipped: no frame, no error, reader untouched -/
theorem decode_unknown_type (r : Reader) (bytes : Bytes) (hp : r.partialBlk = none)
    (hk : (hd bytes).kind > 9) : decodeFrame r bytes = (r, .none) := by
  unfold decodeFrame
  have hpn : r.partialBlk.isSome = false := by simp [hp]
  simp only [hpn, Bool.false_eq_true, false_and, if_false]
  have hk' : (Head.parse bytes).kind > 9 := hk
  split <;> first | omega | rfl

/-- PRIORITY on any non-zero stream (idle, open, closed) with a dependency other than itself is
    decoded to a PRIORITY frame — which `recv_frame` drops without looking at the stream -/
theorem decode_priority_ok (r : Reader) (bytes : Bytes) (hp : r.partialBlk = none)
    (hk : (hd bytes).kind = 2) (hs : (hd bytes).sid ≠ 0) (hl : (pl bytes).length = 5)
    (hdep : (parseStreamId (pl bytes)).1 ≠ (hd bytes).sid) :
    decodeFrame r bytes = (r, .frame (.priority (hd bytes).sid (parseStreamId (pl bytes)).1 ((pl bytes).getD 4 0)
      (parseStreamId (pl bytes)).2)) := by
  unfold decodeFrame
  have hpn : r.partialBlk.isSome = false := by simp [hp]
  simp only [hpn, Bool.false_eq_true, false_and, if_false, hk]
  have hs' : ¬ (Head.parse bytes).sid = 0 := hs
  simp only [hs', if_false]
  unfold loadPriority
  have hl' : ¬ (List.drop 9 bytes).length ≠ 5 := by simp [hl]
  have hdep' : ¬ (parseStreamId (List.drop 9 bytes)).1 = (Head.parse bytes).sid := hdep
  simp only [hl', if_false, hdep']

/-- padded DATA with a pad length below the payload length is decoded to a DATA frame whose payload
    is the data without the padding -/
theorem decode_data_padded_ok (r : Reader) (bytes : Bytes) (padLen : Nat) (rest : Bytes)
    (hp : r.partialBlk = none) (hk : (hd bytes).kind = 0) (hs : (hd bytes).sid ≠ 0)
    (hpad : (hd bytes).flag &&& 9 &&& 8 = 8) (hpl : pl bytes = padLen :: rest) (hlt : padLen < rest.length + 1) :
    decodeFrame r bytes = (r, .frame (.data (hd bytes).sid (rest.take (rest.length - padLen))
      ((hd bytes).flag &&& 9 &&& 1 = 1) (some padLen))) := by
  unfold decodeFrame
  have hpn : r.partialBlk.isSome = false := by simp [hp]
  simp only [hpn, Bool.false_eq_true, false_and, if_false, hk]
  unfold loadData
  have hs' : ¬ (Head.parse bytes).sid = 0 := hs
  have hpl' : List.drop 9 bytes = padLen :: rest := hpl
  have hpad' : (Head.parse bytes).flag &&& 9 &&& 8 = 8 := hpad
  simp only [hs', if_false, hpad', if_true, hpl']
  unfold stripPadding
  have : ¬ padLen ≥ (padLen :: rest).length := by simp; omega
  simp only [this, if_false]
  simp only [List.length_cons]
  have e : rest.length + 1 - padLen - 1 = rest.length - padLen := by omega
  rw [e]

end H2V.Lemmas.ConnCtlP
