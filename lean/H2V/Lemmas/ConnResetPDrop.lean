import H2V.Lemmas.ConnResetPEmit
/-
  ConnResetP — dropping the last handle (`maybe_cancel` / `schedule_implicit_reset`), resetting a stream
  that closed cleanly, and the witness of quirk Q1 (two RST_STREAM for one stream id).
-/
set_option linter.unusedSectionVars false
namespace H2V.Lemmas.ConnResetP
open H2V H2V.Model H2V.Model.Conn
set_option allowUnsafeReducibility true in
attribute [local reducible] Streams.stream Store.getD'

/-- the code of the implicit reset: NO_ERROR for a server whose response is complete while the request
    body is still coming, CANCEL otherwise -/
def cancelReason (isServer : Bool) (x : State) : Reason :=
  if isServer && x.isSendClosed && x.isRecvStreaming then NO_ERROR else CANCEL

theorem maybeCancel_eq (s : Streams) (id : Nat) (h : (s.stream id).isCanceledInterest = true) :
    s.maybeCancel id =
      (s.scheduleImplicitReset id (cancelReason s.counts.isServer (s.stream id).state)).enqueueResetExpiration id := by
  unfold Streams.maybeCancel cancelReason; simp only [h, if_true]

theorem maybeCancel_noop (s : Streams) (id : Nat) (h : (s.stream id).isCanceledInterest = false) :
    s.maybeCancel id = s := by
  unfold Streams.maybeCancel; simp [h]

/-- **`maybe_cancel` on a stream without handles that is not closed**: its state becomes
    `Closed(ScheduledLibraryReset(reason))` with `reason = cancelReason …`, its queue is untouched
    (`pop_frame` sends what is left for NO_ERROR, discards it otherwise, then the RST_STREAM). -/
theorem maybeCancel_schedules (s : Streams) (id : Nat) (st : Stream) (hkb : KeysBelow s.store)
    (hg : s.store.get? id = some st) (hc : st.refCount = 0) (hn : st.state.isClosed = false) :
    ∀ st', (s.maybeCancel id).store.get? id = some st' →
      st'.id = st.id ∧ st'.pendingSend = st.pendingSend ∧
      st'.state = ⟨.closed (.scheduledLibraryReset (cancelReason s.counts.isServer st.state))⟩ := by
  have hs : s.stream id = st := stream_of_get? _ hg
  have hci : (s.stream id).isCanceledInterest = true := by
    rw [hs]; unfold Stream.isCanceledInterest; simp [hc, hn]
  rw [maybeCancel_eq s id hci, hs]
  unfold Streams.scheduleImplicitReset
  rw [hs]; simp only [hn, Bool.false_eq_true, if_false]
  generalize cancelReason s.counts.isServer st.state = reason
  have e0 : (s.modStream id fun x => { x with state := x.state.setScheduledReset reason }).store.get? id =
      some { st with state := st.state.setScheduledReset reason } := by
    rw [modStream_store, Store.get?_mod' _ _ _ (by intro; rfl), if_pos rfl, hg]; rfl
  have en : (s.modStream id fun x => { x with state := x.state.setScheduledReset reason }).store.nextKey =
      s.store.nextKey := by simp
  generalize (s.modStream id fun x => { x with state := x.state.setScheduledReset reason }) = s1 at e0 en
  have ev : Evolves CoreEq (fun _ => True) s1.store
      (((s1.reclaimReservedCapacity id).scheduleSend id).enqueueResetExpiration id).store := by
    have h : Evolves CoreEq (fun _ => True) s1.store s1.store := Evolves.refl _
    ev
  intro st' h'
  rcases ev.back id st' h' with ⟨st1, h1, c⟩ | ⟨hge, _, _⟩
  · rw [e0] at h1; cases h1
    exact ⟨c.id, c.pendingSend, c.state⟩
  · exfalso
    have := hkb id st hg
    omega


/-- **Resetting a stream that closed cleanly queues no RST_STREAM**: closed by END_STREAM in both
    directions, nothing unsent — `send_reset` only records the reason. -/
theorem refSendReset_closed_clean (s : Streams) (id : Nat) (r : Reason) (st : Stream) (hkb : KeysBelow s.store)
    (hg : s.store.get? id = some st) (hr : st.state.isReset = false) (hc : st.state.isClosed = true)
    (hq : st.pendingSend = []) (hb : st.bufferedSendData = 0) :
    ∀ st', (s.refSendReset id r).store.get? id = some st' →
      st'.pendingSend = [] ∧ st'.state = ⟨.closed (.error (.reset st.id r .user))⟩ := by
  have hs : s.stream id = st := stream_of_get? _ hg
  rw [refSendReset_eq]
  have e1 : s.sendSendReset id r .user = s.modStreamW id fun x => x.setReset r .user := by
    unfold Streams.sendSendReset; rw [hs]; simp [hr, hc, hq, hb]
  rw [e1]
  have e0 : (s.modStreamW id fun x => x.setReset r .user).store.get? id = some (st.setReset r .user).1 := by
    rw [modStreamW_store, Store.get?_mod' _ _ _ (by intro x; exact setReset_key x _ _), if_pos rfl, hg]; rfl
  have en : (s.modStreamW id fun x => x.setReset r .user).store.nextKey = s.store.nextKey := by simp
  generalize (s.modStreamW id fun x => x.setReset r .user) = s1 at e0 en
  have ev : Evolves CoreEq (fun _ => True) s1.store
      (((s1.enqueueResetExpiration id).modStreamW id Stream.notifyRecv).transitionAfter id
        (s.stream id).isPendingResetExpiration).store := by
    have h : Evolves CoreEq (fun _ => True) s1.store s1.store := Evolves.refl _
    ev
  intro st' h'
  rcases ev.back id st' h' with ⟨st1, h1, c⟩ | ⟨hge, _, _⟩
  · rw [e0] at h1; cases h1
    rw [c.pendingSend, c.state, setReset_pendingSend, setReset_state, hq]
    exact ⟨rfl, rfl⟩
  · exfalso
    have := hkb id st hg
    omega

-- ===================================================================== Q1

/-- a client whose reset-expiration queue is switched off (`max_concurrent_reset_streams = 0`; by
    default the same happens after 50 pending resets) -/
def q1Init : Streams := { counts := { maxLocalResetStreams := 0 } }

/-- the response head `HEADERS(1, :status 200)` -/
def q1Resp : HeadersIn := { sid := 1, eos := false, status := some [50, 48, 48] }

/-- Q1's history: request on stream 1 written; both handles dropped (implicit CANCEL scheduled, the
    stream is unlinked from the id map while its RST_STREAM is not even generated); the response HEADERS,
    already in flight, is answered `library_reset(STREAM_CLOSED)`, which `Inner::send_reset` turns into a
    SECOND slab entry for stream 1 -/
def q1State : Streams :=
  run q1Init [.sendRequest false [] false none, .cloneStreamRef 0, .pollComplete 10 {} {} "c",
    .dropStreamRef 0, .dropStreamRef 0, .recvHeaders q1Resp, .innerSendReset 1 STREAM_CLOSED]

set_option maxRecDepth 100000 in
/-- **Q1 (quirk of the real code, reproduced by the model): two RST_STREAM frames for ONE stream id.**
    In `q1State` the slab holds two entries with stream id 1 (keys 0 and 1); two consecutive
    `pop_frame`s hand the codec `RST_STREAM(1, CANCEL)` and `RST_STREAM(1, STREAM_CLOSED)`.
    So "at most one RST_STREAM per stream *id*" does NOT hold; it holds per slab entry
    (`rst_owed_at_most_once`), and per id under the hypothesis that no two slab entries share an id. -/
theorem q1_two_rst_for_one_stream_id_counterexample :
    (q1State.store.slab.map fun st => (st.key, st.id)) = [(0, 1), (1, 1)] ∧
    (match (Streams.popFrame 10 q1State 16384).2, (Streams.popFrame 10 (Streams.popFrame 10 q1State 16384).1 16384).2 with
     | some (.reset 1 8), some (.reset 1 5) => true
     | _, _ => false) = true := by
  decide

end H2V.Lemmas.ConnResetP
