import H2V.Lemmas.ConnCtlPViewRecv
/-
  ConnCtlP, view lemmas part 4 — the frame entry points of streams.rs (`Inner::recv_*`,
  `handle_error`, `recv_go_away`, `recv_eof`, `send_reset`, `apply_*_settings`).  What they write of
  the view: `recvHeaders` → `lpi` (upwards, to the frame's id, at most `max_stream_id`);
  `handleError` / `recvGoAwayFrame` / `recvEof` → `connErr` (and `smax` for GOAWAY);
  `applyRemoteSettings` → `maxSend`, `sInitWin`, `sPush`; `applyLocalSettingsFrame` → `rInitWin`.
-/
set_option autoImplicit false
set_option linter.unusedSimpArgs false
namespace H2V.Lemmas.ConnCtlP
open H2V H2V.Model H2V.Model.Conn

/-- from `h : s.foo … = (s1, r)` (with a `@[simp]` frame lemma for `foo`) get `hv : view s = view s1` -/
macro "view_from " h:ident " as " hv:ident : tactic =>
  `(tactic| (have $hv := congrArg (fun p => view (Prod.fst p)) $h; simp at $hv:ident))

theorem view_transition {α : Type} (s : Streams) (id : Nat) (f : Streams → Streams × α)
    (hf : ∀ s, view (f s).1 = view s) : view (s.transition id f).1 = view s := by
  unfold Streams.transition
  dsimp only
  rcases h : f s with ⟨s1, a⟩
  have := hf s
  rw [h] at this
  simp [this]

/-- `transition` when the closure moves the view in a known way -/
theorem view_transition' {α : Type} (s : Streams) (id : Nat) (f : Streams → Streams × α) :
    view (s.transition id f).1 = view (f s).1 := by
  unfold Streams.transition
  dsimp only
  rcases h : f s with ⟨s1, a⟩
  simp

@[simp] theorem view_resetOnRecvStreamErr (s : Streams) (id : Nat) (r : Except PErr Unit) :
    view (s.resetOnRecvStreamErr id r).1 = view s := by
  unfold Streams.resetOnRecvStreamErr
  (repeat' split) <;> simp

@[simp] theorem view_actionsSendReset (s : Streams) (id : Nat) (r : Reason) (i : Initiator) :
    view (s.actionsSendReset id r i).1 = view s := by
  unfold Streams.actionsSendReset
  apply view_transition
  intro s
  dsimp only
  split
  · rename_i pre s1 heq
    have hv : view s1 = view s := by
      have := congrArg (fun p => view (Prod.fst p)) heq
      dsimp only at this
      rw [← this]
      (repeat' split) <;> simp
    exact hv
  · rename_i pre s1 heq
    have hv : view s1 = view s := by
      have := congrArg (fun p => view (Prod.fst p)) heq
      dsimp only at this
      rw [← this]
      (repeat' split) <;> simp
    simp [hv]

@[simp] theorem view_clearQueues (s : Streams) (b : Bool) : view (s.clearQueues b) = view s := by
  unfold Streams.clearQueues; simp

@[simp] theorem view_innerSendReset (s : Streams) (id : Nat) (r : Reason) : view (s.innerSendReset id r).1 = view s := by
  unfold Streams.innerSendReset
  dsimp only
  (repeat' split) <;> simp

@[simp] theorem view_recordDataFrame (s : Streams) (n : Nat) :
    view { s with counts := (s.counts.recordDataFrame n).1 } = view s :=
  view_setCounts s _ (recordDataFrame_keep _ _)

@[simp] theorem view_recvData (s : Streams) (id : Nat) (p : Bytes) (eos : Bool) (pad : Option Nat) :
    view (s.recvData id p eos pad).1 = view s := by
  unfold Streams.recvData
  dsimp only
  split
  · (repeat' split) <;> (try simp) <;>
      (rename_i h; have hv := congrArg (fun p => view (Prod.fst p)) h; simp at hv; exact hv.symm)
  · apply view_transition
    intro s
    rcases h : Streams.recvRecvData s _ p eos pad with ⟨s1, r1⟩
    view_from h as hv
    rw [hv]
    dsimp only
    (repeat' split) <;> simp

@[simp] theorem view_recvReset (s : Streams) (id : Nat) (r : Reason) : view (s.recvReset id r).1 = view s := by
  unfold Streams.recvReset
  (repeat' split) <;> (try rfl)
  apply view_transition
  intro s
  rcases h : Streams.recvRecvReset s _ r with ⟨s1, r1⟩
  view_from h as hv
  cases r1 with
  | error e => exact hv.symm
  | ok u => dsimp only; rw [hv]; split <;> simp

@[simp] theorem view_recvWindowUpdate (s : Streams) (id inc : Nat) : view (s.recvWindowUpdate id inc).1 = view s := by
  unfold Streams.recvWindowUpdate
  split
  · rcases h : s.recvConnectionWindowUpdate inc with ⟨s1, r1⟩
    have hv : view s1 = view s := by
      have := view_recvConnectionWindowUpdate s inc; rw [h] at this; exact this
    cases r1 <;> exact hv
  · split
    · split
      · rfl
      · rename_i k _ _
        rcases h : s.sendRecvStreamWindowUpdate k inc with ⟨s1, r1⟩
        have hv : view s1 = view s := by
          have := view_sendRecvStreamWindowUpdate s k inc; rw [h] at this; exact this
        dsimp only
        rw [view_resetOnRecvStreamErr, hv]
    · split <;> rfl

-- ===================================================================== recv_headers

/-- `find_entry` of `Inner::recv_headers` (a copy) -/
def recvHeadersEntry (s : Streams) (h : HeadersIn) : Streams × Except PErr (Option Nat) :=
  match s.store.findKey? h.sid with
  | some k => (s, .ok (some k))
  | none =>
    if !s.counts.isServer && s.mayHaveForgottenStream h.sid then (s, .error (PErr.libraryReset h.sid STREAM_CLOSED))
    else
      match s.recvOpen h.sid false with
      | (s, .error e) => (s, .error e)
      | (s, .ok false) => (s, .ok none)
      | (s, .ok true) =>
        let st := Stream.new h.sid s.actions.send.initWindowSz s.recv.initWindowSz
        let (store, k) := s.store.insert st
        ({ s with store := store }, .ok (some k))

/-- HEADERS vs trailers inside the closure of `Inner::recv_headers` (a copy) -/
def recvHeadersDispatch (k : Nat) (h : HeadersIn) (s : Streams) : Streams × Except PErr Unit :=
  if (s.stream k).state.isRecvHeaders then
    match s.recvRecvHeaders k h with
    | (s, .ok) => (s, .ok ())
    | (s, .oversize true) =>
      let f431 : List Hpack.Field := [{ h := (Hpack.pStatus, Http.str "431"), sensitive := false, nameless := false }]
      let s := (s.sendHeaders k true f431).1
      let s := s.scheduleImplicitReset k PROTOCOL_ERROR
      (s.enqueueResetExpiration k, .ok ())
    | (s, .oversize false) => (s, .error (PErr.libraryReset h.sid PROTOCOL_ERROR))
    | (s, .state e) => (s, .error e)
    | (s, .unsupported) => (s.unsup "request URI outside the modelled subset", .ok ())
  else s.recvRecvTrailers k h

/-- the closure handed to `transition` by `Inner::recv_headers` (a copy) -/
def recvHeadersBody (k : Nat) (h : HeadersIn) (s : Streams) : Streams × Except PErr Unit :=
  if !(s.stream k).state.isRecvHeaders && !h.eos then (s, .error (PErr.libraryReset h.sid PROTOCOL_ERROR))
  else
  let (s, res) : Streams × Except PErr Unit := recvHeadersDispatch k h s
  s.resetOnRecvStreamErr k res

theorem recvHeaders_eq (s : Streams) (h : HeadersIn) :
    s.recvHeaders h =
      (if h.sid > s.recv.maxStreamId then (s, .ok ())
       else
        match recvHeadersEntry s h with
        | (s, .error e) => (s, .error e)
        | (s, .ok none) => (s, .ok ())
        | (s, .ok (some k)) =>
          let st := s.stream k
          if st.isPendingOpen then (s, .error (PErr.libraryGoAway PROTOCOL_ERROR))
          else if st.state.isLocalError then (s, .ok ())
          else s.transition k (recvHeadersBody k h)) := rfl

theorem view_recvHeadersEntry (s : Streams) (h : HeadersIn) : view (recvHeadersEntry s h).1 = view s := by
  unfold recvHeadersEntry
  split
  · rfl
  · split
    · rfl
    · rcases ho : s.recvOpen h.sid false with ⟨s1, r⟩
      view_from ho as hv
      cases r with
      | error e => exact hv.symm
      | ok b => cases b <;> simp [hv]

theorem view_recvHeadersDispatch (k : Nat) (h : HeadersIn) (s : Streams) :
    ∃ l, view (recvHeadersDispatch k h s).1 = { view s with lpi := l } ∧
      (l = (view s).lpi ∨ (l = h.sid ∧ (view s).lpi < h.sid)) := by
  unfold recvHeadersDispatch
  split
  · obtain ⟨l, hl1, hl2, -⟩ := view_recvRecvHeaders s k h
    rcases hr : s.recvRecvHeaders k h with ⟨s1, r⟩
    rw [hr] at hl1
    dsimp only at hl1
    refine ⟨l, ?_, hl2⟩
    cases r with
    | ok => simp [hl1]
    | oversize b => cases b <;> simp [hl1]
    | state e => simp [hl1]
    | unsupported => simp [hl1]
  · refine ⟨_, ?_, Or.inl rfl⟩
    rcases hr : s.recvRecvTrailers k h with ⟨s1, r⟩
    view_from hr as hv
    simp [hv]

theorem view_recvHeadersBody (k : Nat) (h : HeadersIn) (s : Streams) :
    ∃ l, view (recvHeadersBody k h s).1 = { view s with lpi := l } ∧
      (l = (view s).lpi ∨ (l = h.sid ∧ (view s).lpi < h.sid)) := by
  unfold recvHeadersBody
  split
  · exact ⟨_, rfl, Or.inl rfl⟩
  · obtain ⟨l, hl1, hl2⟩ := view_recvHeadersDispatch k h s
    rcases hd : recvHeadersDispatch k h s with ⟨s1, r⟩
    rw [hd] at hl1
    exact ⟨l, by simp [hl1], hl2⟩

/-- **`Inner::recv_headers`** writes nothing of the view but `last_processed_id`, which it can only
    raise — to the stream id of the frame, which is at most `max_stream_id` -/
theorem view_recvHeaders (s : Streams) (h : HeadersIn) :
    ∃ l, view (s.recvHeaders h).1 = { view s with lpi := l } ∧
      (l = (view s).lpi ∨ (l = h.sid ∧ (view s).lpi < h.sid ∧ h.sid ≤ (view s).rmax)) := by
  rw [recvHeaders_eq]
  by_cases hm : h.sid > s.recv.maxStreamId
  · rw [if_pos hm]; exact ⟨_, rfl, Or.inl rfl⟩
  · rw [if_neg hm]
    have hle : h.sid ≤ (view s).rmax := Nat.le_of_not_gt hm
    have he := view_recvHeadersEntry s h
    rcases hE : recvHeadersEntry s h with ⟨s1, r⟩
    rw [hE] at he
    dsimp only at he
    cases r with
    | error e => exact ⟨_, by rw [he], Or.inl rfl⟩
    | ok o =>
      cases o with
      | none => exact ⟨_, by rw [he], Or.inl rfl⟩
      | some k =>
        dsimp only
        split
        · exact ⟨_, by rw [he], Or.inl rfl⟩
        · split
          · exact ⟨_, by rw [he], Or.inl rfl⟩
          · obtain ⟨l, hl1, hl2⟩ := view_recvHeadersBody k h s1
            rw [view_transition', hl1, he]
            refine ⟨l, rfl, ?_⟩
            rw [he] at hl2
            rcases hl2 with hl2 | ⟨hl2, hl3⟩
            · exact Or.inl hl2
            · exact Or.inr ⟨hl2, hl3, hle⟩


-- ===================================================================== handle_error / recv_go_away / recv_eof

theorem view_handleErrorClosure (err : PErr) (s : Streams) (id : Nat) :
    view (s.transition id fun s => ((s.recvHandleError id err).sendHandleError id, ())).1 = view s := by
  apply view_transition
  intro s
  simp

/-- `Inner::handle_error` writes `conn_error` and nothing else of the view; it answers
    `last_processed_id` -/
theorem view_handleError (s : Streams) (err : PErr) :
    view (s.handleError err).1 = { view s with connErr := some err } ∧ (s.handleError err).2 = (view s).lpi := by
  unfold Streams.handleError
  dsimp only
  refine ⟨?_, rfl⟩
  have := view_storeForEach s (fun s id => (s.transition id fun s => ((s.recvHandleError id err).sendHandleError id, ())).1)
    (fun s id => view_handleErrorClosure err s id)
  simp [view] at this ⊢
  obtain ⟨h1, h2, h3, h4, h5, h6, h7, h8, h9, h10, h11⟩ := this
  exact ⟨h1, h2, h3, h4, h5, h6, h7, h8, h9, h10⟩

/-- `Inner::recv_go_away`: on success `send.max_stream_id` and `conn_error` are written, nothing
    else of the view; on failure nothing at all changes -/
theorem view_recvGoAwayFrame (s : Streams) (last : Nat) (reason : Reason) (debug : Bytes) :
    (∀ u, (s.recvGoAwayFrame last reason debug).2 = .ok u →
      view (s.recvGoAwayFrame last reason debug).1 =
        { view s with smax := last, connErr := some (PErr.remoteGoAway debug reason) } ∧ last ≤ (view s).smax) ∧
    (∀ e, (s.recvGoAwayFrame last reason debug).2 = .error e →
      (s.recvGoAwayFrame last reason debug).1 = s ∧ e = PErr.libraryGoAway PROTOCOL_ERROR) := by
  unfold Streams.recvGoAwayFrame
  rcases hg : s.sendRecvGoAway last with ⟨s1, r⟩
  cases r with
  | error e =>
    obtain ⟨h1, h2⟩ := sendRecvGoAway_error s last e (by rw [hg])
    rw [hg] at h1
    refine ⟨(fun u hu => by cases hu), fun e' he => ?_⟩
    dsimp only at he h1 ⊢
    cases he
    exact ⟨h1, h2⟩
  | ok u =>
    obtain ⟨h1, h2⟩ := view_sendRecvGoAway_ok s last u (by rw [hg])
    rw [hg] at h1
    dsimp only at h1
    refine ⟨fun u' _ => ⟨?_, h2⟩, (fun e he => by cases he)⟩
    dsimp only
    have := view_storeForEach s1 (fun s id =>
        let st := s.stream id
        if (st.id > last || st.isPendingOpen) && s.counts.isLocalInit st.id then
          (s.transition id fun s => ((s.recvHandleError id (PErr.remoteGoAway debug reason)).sendHandleError id, ())).1
        else s)
      (fun s id => by
        dsimp only
        split
        · exact view_handleErrorClosure _ s id
        · rfl)
    rw [h1] at this
    simp [view] at this ⊢
    obtain ⟨h1, h2, h3, h4, h5, h6, h7, h8, h9, h10, h11⟩ := this
    exact ⟨h1, h2, h3, h4, h5, h6, h7, h8, h9, h10⟩

/-- `Inner::recv_eof` sets `conn_error` if it was not set, nothing else of the view changes -/
theorem view_recvEof (s : Streams) (b : Bool) :
    view (s.recvEof b) = { view s with connErr := some ((view s).connErr.getD
      (.io "BrokenPipe" (some "connection closed because of a broken pipe"))) } := by
  unfold Streams.recvEof
  dsimp only
  rw [view_clearQueues]
  rw [view_storeForEach _ _ (fun s id => by apply view_transition; intro s; simp)]
  cases hc : s.actions.connError with
  | none => simp [view, hc]
  | some e => simp [view, hc]

-- ===================================================================== settings

/-- `Streams::apply_remote_settings` writes `max_send_streams`, `send.init_window_sz`,
    `send.is_push_enabled` and nothing else of the view -/
theorem view_applyRemoteSettings (s : Streams) (vals : List (Nat × Nat)) (isInitial : Bool) :
    ∃ ms iw p, view (s.applyRemoteSettings vals isInitial).1 = { view s with maxSend := ms, sInitWin := iw, sPush := p } ∧
      (∀ u, (s.applyRemoteSettings vals isInitial).2 = .ok u →
        ms = (match (vals.find? (·.1 = 3)).map (·.2) with
              | some v => v | none => if isInitial then USIZE_MAX else (view s).maxSend) ∧
        iw = ((vals.find? (·.1 = 4)).map (·.2)).getD (view s).sInitWin ∧
        p = (((vals.find? (·.1 = 2)).map (·.2)).map (· != 0)).getD (view s).sPush) := by
  unfold Streams.applyRemoteSettings
  dsimp only
  obtain ⟨iw, p, h1, h2⟩ := view_sendApplyRemoteSettings_ex
    (s.modCounts fun c => c.applyRemoteSettings ((vals.find? (·.1 = 3)).map (·.2)) isInitial)
    ((vals.find? (·.1 = 4)).map (·.2)) ((vals.find? (·.1 = 2)).map (·.2)) ((vals.find? (·.1 = 8)).map (·.2))
  have hc : view (s.modCounts fun c => c.applyRemoteSettings ((vals.find? (·.1 = 3)).map (·.2)) isInitial) =
      { view s with maxSend := (match (vals.find? (·.1 = 3)).map (·.2) with
              | some v => v | none => if isInitial then USIZE_MAX else (view s).maxSend) } := by
    unfold Streams.modCounts Counts.applyRemoteSettings
    cases (vals.find? (·.1 = 3)).map (·.2) with
    | some v => rfl
    | none => dsimp only; split <;> rfl
  refine ⟨_, iw, p, by rw [h1, hc], fun u hu => ?_⟩
  obtain ⟨e1, e2⟩ := h2 u hu
  rw [hc] at e1 e2
  exact ⟨rfl, e1, e2⟩

/-- `Streams::apply_local_settings` writes `recv.init_window_sz` and nothing else of the view -/
theorem view_applyLocalSettingsFrame (s : Streams) (vals : List (Nat × Nat)) :
    ∃ w, view (s.applyLocalSettingsFrame vals).1 = { view s with rInitWin := w } ∧
      w = ((vals.find? (·.1 = 4)).map (·.2)).getD (view s).rInitWin := by
  unfold Streams.applyLocalSettingsFrame
  exact view_applyLocalSettings s _ _

-- ===================================================================== recv_push_promise

/-- the look-up of the initiating stream in `Inner::recv_push_promise` (a copy) -/
def ppParent (s : Streams) (id : Nat) (promisedId : Nat) : Streams × Except PErr (Option Nat) :=
  match s.store.findKey? id with
  | some k =>
    if id > s.recv.maxStreamId then (s, .ok none)
    else if (s.stream k).state.isLocalError then
      match s.ensureCanReserve with
      | .error e => (s, .error e)
      | .ok _ =>
        match s.recvOpen promisedId true with
        | (s, .error e) => (s, .error e)
        | (s, .ok true) => (s, .error (PErr.libraryReset promisedId REFUSED_STREAM))
        | (s, .ok false) => (s, .ok none)
    else match (s.stream k).state.ensureRecvOpen with
      | .ok true => (s, .ok (some k))
      | _ => (s, .error (PErr.libraryGoAway PROTOCOL_ERROR))
  | none => (s, .error (PErr.libraryGoAway PROTOCOL_ERROR))

/-- the closure of `transition` in `Inner::recv_push_promise` (a copy) -/
def ppChild (child : Nat) (h : HeadersIn) (s : Streams) : Streams × Except PErr Bool :=
  match s.recvRecvPushPromise child h with
  | (s, .ok) => (s, .ok true)
  | (s, .unsupported) => (s.unsup "promised request URI outside the modelled subset", .ok false)
  | (s, .err e) =>
    match s.resetOnRecvStreamErr child (.error e) with
    | (s, .ok _) => (s, .ok false)
    | (s, .error e) => (s, .error e)

/-- what `Inner::recv_push_promise` does once the initiating stream is accepted (a copy) -/
def ppRest (s : Streams) (parentKey : Nat) (h : HeadersIn) : Streams × Except PErr Unit :=
  match s.ensureCanReserve with
  | .error e => (s, .error e)
  | .ok _ =>
    match s.recvOpen h.sid true with
    | (s, .error e) => (s, .error e)
    | (s, .ok false) => (s, .ok ())
    | (s, .ok true) =>
      let s := if s.store.contains h.sid then s.panic "assertion failed: self.ids.insert(id, index).is_none()" else s
      let (store, child) := s.store.insert (Stream.new h.sid s.actions.send.initWindowSz s.recv.initWindowSz)
      let s := { s with store := store }
      let (s, res) : Streams × Except PErr Bool := s.transition child (ppChild child h)
      match res with
      | .error e => (s, .error e)
      | .ok false => (s, .ok ())
      | .ok true =>
        let s :=
          if (s.stream child).isPendingAccept then s
          else (s.modStream child fun st => { st with isPendingAccept := true }).modStream parentKey
                 fun st => { st with pendingPushPromises := st.pendingPushPromises ++ [child] }
        (s.modStreamW parentKey Stream.notifyPush, .ok ())

theorem recvPushPromise_eq (s : Streams) (id : Nat) (h : HeadersIn) :
    s.recvPushPromise id h =
      (if s.counts.isServer then (s, .error (PErr.libraryGoAway PROTOCOL_ERROR)) else
       match ppParent s id h.sid with
       | (s, .error e) => (s, .error e)
       | (s, .ok none) => (s, .ok ())
       | (s, .ok (some parentKey)) => ppRest s parentKey h) := rfl

theorem view_ppParent (s : Streams) (id p : Nat) : view (ppParent s id p).1 = view s := by
  unfold ppParent
  split
  · split
    · rfl
    · split
      · split
        · rfl
        · rcases ho : s.recvOpen p true with ⟨s1, r⟩
          view_from ho as hv
          cases r with
          | error e => exact hv.symm
          | ok b => cases b <;> exact hv.symm
      · split <;> rfl
  · rfl

theorem view_ppChild (child : Nat) (h : HeadersIn) (s : Streams) : view (ppChild child h s).1 = view s := by
  unfold ppChild
  rcases hr : s.recvRecvPushPromise child h with ⟨s1, r⟩
  view_from hr as hv
  cases r with
  | ok => exact hv.symm
  | unsupported => simp [hv]
  | err e =>
    dsimp only
    rcases hx : s1.resetOnRecvStreamErr child (.error e) with ⟨s2, r2⟩
    view_from hx as hv2
    cases r2 <;> simp [hv, hv2]

theorem view_ppRest (s : Streams) (k : Nat) (h : HeadersIn) : view (ppRest s k h).1 = view s := by
  unfold ppRest
  split
  · rfl
  · rcases ho : s.recvOpen h.sid true with ⟨s1, r⟩
    view_from ho as hv
    cases r with
    | error e => exact hv.symm
    | ok b =>
      cases b with
      | false => exact hv.symm
      | true =>
        dsimp only
        rcases ht : Streams.transition _ _ (ppChild _ h) with ⟨s2, r2⟩
        have hv2 : view s2 = view s1 := by
          have := congrArg (fun p => view (Prod.fst p)) ht
          dsimp only at this
          rw [view_transition _ _ _ (view_ppChild _ h)] at this
          rw [← this]
          split <;> simp
        rw [hv]
        cases r2 with
        | error e => exact hv2
        | ok b => cases b <;> simp [hv2]

@[simp] theorem view_recvPushPromise (s : Streams) (id : Nat) (h : HeadersIn) :
    view (s.recvPushPromise id h).1 = view s := by
  rw [recvPushPromise_eq]
  split
  · rfl
  · rcases hp : ppParent s id h.sid with ⟨s1, r⟩
    have hv : view s1 = view s := by
      have := view_ppParent s id h.sid; rw [hp] at this; exact this
    cases r with
    | error e => exact hv
    | ok o =>
      cases o with
      | none => exact hv
      | some k => dsimp only; rw [view_ppRest, hv]


end H2V.Lemmas.ConnCtlP
