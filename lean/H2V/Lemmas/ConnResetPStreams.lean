import H2V.Lemmas.ConnResetPRecv
/-
  ConnResetP — `Evolves (SRel D) RInv` for streams.rs: the frame entry points of `Inner`, `poll_complete`,
  the handle operations (`StreamRef`, `OpaqueStreamRef`), `drop_stream_ref`, `send_request`.
  With these every operation of the model that the connection (`Conn`) or the driver (`step`) calls
  on a `Streams` value is covered.
-/
set_option linter.unusedSectionVars false
namespace H2V.Lemmas.ConnResetP
open H2V H2V.Model H2V.Model.Conn
variable {D : Nat → Prop}

set_option allowUnsafeReducibility true in
attribute [local reducible] Streams.stream Store.getD'

section
variable {a : Store} {s : Streams}

theorem RInv.of_nil {st : Stream} (h : st.pendingSend = []) : RInv st := by
  constructor <;> rw [h] <;> simp

/-- a new slab entry (nothing queued) -/
macro_rules
  | `(tactic| ev_step) =>
    `(tactic| (with_reducible refine Evolves.insert ?_ _ ?hx;
               case hx => exact RInv.of_nil (by first | rfl | (split <;> rfl))))

theorem foldl_ev {P : Stream → Stream → Prop} {N : Stream → Prop} [Good P N] {α : Type} (f : Streams → α → Streams)
    (hf : ∀ (s : Streams) (x : α), Evolves P N a s.store → Evolves P N a (f s x).store)
    (l : List α) (h : Evolves P N a s.store) : Evolves P N a (l.foldl f s).store := by
  induction l generalizing s with
  | nil => exact h
  | cons x l ih => exact ih (hf s x h)
macro_rules | `(tactic| ev_step) => `(tactic| with_reducible refine foldl_ev _ (fun _ _ _ => ?_) _ ?_)

theorem resetOnRecvStreamErr_sr (h : Evolves (SRel D) RInv a s.store) (id : Nat) (r : Except PErr Unit) :
    Evolves (SRel D) RInv a (s.resetOnRecvStreamErr id r).1.store := by
  unfold Streams.resetOnRecvStreamErr; ev
macro_rules | `(tactic| ev_step) => `(tactic| with_reducible apply resetOnRecvStreamErr_sr)

theorem actionsSendReset_sr (h : Evolves (SRel D) RInv a s.store) (id : Nat) (r : Reason) (i : Initiator) :
    Evolves (SRel D) RInv a (s.actionsSendReset id r i).1.store := by
  unfold Streams.actionsSendReset; ev
macro_rules | `(tactic| ev_step) => `(tactic| with_reducible apply actionsSendReset_sr)

theorem clearQueues_sr (h : Evolves (SRel D) RInv a s.store) (c : Bool) : Evolves (SRel D) RInv a (s.clearQueues c).store := by
  unfold Streams.clearQueues; ev
macro_rules | `(tactic| ev_step) => `(tactic| with_reducible apply clearQueues_sr)

theorem recvHeaders_sr (h : Evolves (SRel D) RInv a s.store) (hd : HeadersIn) :
    Evolves (SRel D) RInv a (s.recvHeaders hd).1.store := by
  unfold Streams.recvHeaders; ev
macro_rules | `(tactic| ev_step) => `(tactic| with_reducible apply recvHeaders_sr)

theorem recvData_sr (h : Evolves (SRel D) RInv a s.store) (id : Nat) (p : Bytes) (eos : Bool) (pl : Option Nat) :
    Evolves (SRel D) RInv a (s.recvData id p eos pl).1.store := by
  unfold Streams.recvData; ev
macro_rules | `(tactic| ev_step) => `(tactic| with_reducible apply recvData_sr)

theorem recvReset_sr (h : Evolves (SRel D) RInv a s.store) (id : Nat) (r : Reason) :
    Evolves (SRel D) RInv a (s.recvReset id r).1.store := by
  unfold Streams.recvReset; ev
macro_rules | `(tactic| ev_step) => `(tactic| with_reducible apply recvReset_sr)

theorem recvWindowUpdate_sr (h : Evolves (SRel D) RInv a s.store) (id inc : Nat) :
    Evolves (SRel D) RInv a (s.recvWindowUpdate id inc).1.store := by
  unfold Streams.recvWindowUpdate; ev
macro_rules | `(tactic| ev_step) => `(tactic| with_reducible apply recvWindowUpdate_sr)

theorem recvPushPromise_sr (h : Evolves (SRel D) RInv a s.store) (id : Nat) (hd : HeadersIn) :
    Evolves (SRel D) RInv a (s.recvPushPromise id hd).1.store := by
  unfold Streams.recvPushPromise; ev
macro_rules | `(tactic| ev_step) => `(tactic| with_reducible apply recvPushPromise_sr)

theorem handleError_sr (h : Evolves (SRel D) RInv a s.store) (e : PErr) :
    Evolves (SRel D) RInv a (s.handleError e).1.store := by
  unfold Streams.handleError; ev
macro_rules | `(tactic| ev_step) => `(tactic| with_reducible apply handleError_sr)

theorem recvGoAwayFrame_sr (h : Evolves (SRel D) RInv a s.store) (l : Nat) (r : Reason) (d : Bytes) :
    Evolves (SRel D) RInv a (s.recvGoAwayFrame l r d).1.store := by
  unfold Streams.recvGoAwayFrame; ev
macro_rules | `(tactic| ev_step) => `(tactic| with_reducible apply recvGoAwayFrame_sr)

theorem recvEof_sr (h : Evolves (SRel D) RInv a s.store) (c : Bool) : Evolves (SRel D) RInv a (s.recvEof c).store := by
  unfold Streams.recvEof; ev
macro_rules | `(tactic| ev_step) => `(tactic| with_reducible apply recvEof_sr)

theorem innerSendReset_sr (h : Evolves (SRel D) RInv a s.store) (id : Nat) (r : Reason) :
    Evolves (SRel D) RInv a (s.innerSendReset id r).1.store := by
  unfold Streams.innerSendReset; ev
macro_rules | `(tactic| ev_step) => `(tactic| with_reducible apply innerSendReset_sr)

theorem bufferPending_sr (fuel : Nat) (w : Writer) (h : Evolves (SRel D) RInv a s.store) :
    Evolves (SRel D) RInv a (Streams.bufferPending fuel s w).1.store := by
  unfold Streams.bufferPending; ev
macro_rules | `(tactic| ev_step) => `(tactic| with_reducible apply bufferPending_sr)

theorem pollComplete_sr (fuel : Nat) (w : Writer) (io : Tio) (t : String) (h : Evolves (SRel D) RInv a s.store) :
    Evolves (SRel D) RInv a (Streams.pollComplete fuel s w io t).1.store := by
  induction fuel generalizing s w io with
  | zero => unfold Streams.pollComplete; ev
  | succ n ih => unfold Streams.pollComplete; ev
macro_rules | `(tactic| ev_step) => `(tactic| with_reducible apply pollComplete_sr)

theorem applyRemoteSettings_sr (h : Evolves (SRel D) RInv a s.store) (v : List (Nat × Nat)) (b : Bool) :
    Evolves (SRel D) RInv a (s.applyRemoteSettings v b).1.store := by
  unfold Streams.applyRemoteSettings; ev
macro_rules | `(tactic| ev_step) => `(tactic| with_reducible apply applyRemoteSettings_sr)

theorem maybeCancel_sr (h : Evolves (SRel D) RInv a s.store) (id : Nat) : Evolves (SRel D) RInv a (s.maybeCancel id).store := by
  unfold Streams.maybeCancel; ev
macro_rules | `(tactic| ev_step) => `(tactic| with_reducible apply maybeCancel_sr)

/-- a handle of entry `id` goes away (`D id`) -/
theorem Evolves.mod_drop {S : Store} (h : Evolves (SRel D) RInv a S) (id : Nat) (f : Stream → Stream) (hD : D id)
    (hk : ∀ st, (f st).key = st.key) (hi : ∀ st, (f st).id = st.id) (hs : ∀ st, (f st).state = st.state)
    (hq : ∀ st, (f st).pendingSend = st.pendingSend) : Evolves (SRel D) RInv a (Store.mod S id f) :=
  h.mod id f (fun st hg => SRel.of_core4 (hk st) (hi st) (hs st) (hq st)
    (fun hd => absurd (by rw [Store.get?_key hg]; exact hD) hd))

macro_rules
  | `(tactic| ev_step) =>
    `(tactic| (with_reducible refine Evolves.mod_drop ?_ _ _ (by assumption) (fun _ => rfl) (fun _ => rfl) (fun _ => rfl) (fun _ => rfl)))

theorem dropStreamRef_sr (h : Evolves (SRel D) RInv a s.store) (id : Nat) (hD : D id) :
    Evolves (SRel D) RInv a (s.dropStreamRef id).store := by
  unfold Streams.dropStreamRef; ev
macro_rules | `(tactic| ev_step) => `(tactic| (with_reducible refine dropStreamRef_sr ?_ _ (by assumption)))

theorem refSendResponse_sr (h : Evolves (SRel D) RInv a s.store) (k : Nat) (f : List Hpack.Field) (eos : Bool) :
    Evolves (SRel D) RInv a (s.refSendResponse k f eos).1.store := by
  unfold Streams.refSendResponse; ev
macro_rules | `(tactic| ev_step) => `(tactic| with_reducible apply refSendResponse_sr)

theorem refSendInformationalHeaders_sr (h : Evolves (SRel D) RInv a s.store) (k : Nat) (f : List Hpack.Field) :
    Evolves (SRel D) RInv a (s.refSendInformationalHeaders k f).1.store := by
  unfold Streams.refSendInformationalHeaders; ev
macro_rules | `(tactic| ev_step) => `(tactic| with_reducible apply refSendInformationalHeaders_sr)

theorem refSendData_sr (h : Evolves (SRel D) RInv a s.store) (id len : Nat) (eos : Bool) :
    Evolves (SRel D) RInv a (s.refSendData id len eos).1.store := by
  unfold Streams.refSendData; ev
macro_rules | `(tactic| ev_step) => `(tactic| with_reducible apply refSendData_sr)

theorem refSendTrailers_sr (h : Evolves (SRel D) RInv a s.store) (id : Nat) (f : List Hpack.Field) :
    Evolves (SRel D) RInv a (s.refSendTrailers id f).1.store := by
  unfold Streams.refSendTrailers; ev
macro_rules | `(tactic| ev_step) => `(tactic| with_reducible apply refSendTrailers_sr)

theorem refSendReset_sr (h : Evolves (SRel D) RInv a s.store) (id : Nat) (r : Reason) :
    Evolves (SRel D) RInv a (s.refSendReset id r).store := by
  unfold Streams.refSendReset; ev
macro_rules | `(tactic| ev_step) => `(tactic| with_reducible apply refSendReset_sr)

theorem Evolves.remove_inserted {P : Stream → Stream → Prop} {N : Stream → Prop} [Good P N] {S b : Store} (x : Stream)
    (h0 : Evolves P N a S) (h : Evolves P N a b) : Evolves P N a (b.remove (S.insert x).2) :=
  Evolves.remove_new h0 h _ (Nat.le_refl _)

theorem sendRequest_sr (h : Evolves (SRel D) RInv a s.store) (isHead : Bool) (f : List Hpack.Field) (eos : Bool) (p : Option Nat) :
    Evolves (SRel D) RInv a (s.sendRequest isHead f eos p).1.store := by
  unfold Streams.sendRequest; ev
  all_goals try (refine Evolves.insert (by assumption) _ (RInv.of_nil ?_); cases isHead <;> rfl)
  all_goals
    refine Evolves.remove_inserted _ (by assumption) ?_
    ev
macro_rules | `(tactic| ev_step) => `(tactic| with_reducible apply sendRequest_sr)

theorem refSendPushPromise_sr (h : Evolves (SRel D) RInv a s.store) (p : Nat) (v : Bool) (f : List Hpack.Field) :
    Evolves (SRel D) RInv a (s.refSendPushPromise p v f).1.store := by
  unfold Streams.refSendPushPromise Streams.sendReserveLocal; ev
  all_goals
    refine Evolves.remove_inserted _ (by assumption) ?_
    ev
macro_rules | `(tactic| ev_step) => `(tactic| with_reducible apply refSendPushPromise_sr)

end
end H2V.Lemmas.ConnResetP
