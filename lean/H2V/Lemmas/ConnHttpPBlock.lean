import H2V.Lemmas.ConnHttpPHpack
import H2V.Lemmas.ConnHttpPConv
/-
  C13 (ConnHttpP), part 6 — `HeaderBlock::load` over any number of fragments: the block under
  construction always stands for the concatenation of the field lists decoded so far (`BlockInv`),
  so a block that is delivered (result `Ok`, not over-size) satisfies the common rules of RFC 9113 §8.2
  and holds exactly the pseudo-header and regular fields of that list.
-/
namespace H2V.Lemmas.ConnHttpP
open H2V H2V.Model H2V.Model.Frame H2V.Model.Hpack H2V.Model.CodecRead

theorem track_append : ∀ (fs gs : List Header) (st : TSt),
    track (fs ++ gs) st = (track fs st).bind (track gs)
  | [], gs, st => rfl
  | h :: rest, gs, st => by
    simp only [List.cons_append, track]
    cases trackStep st h with
    | none => rfl
    | some st1 => exact track_append rest gs st1

theorem appendField_ne_nil (f : List (Bytes × List Bytes)) (n v : Bytes) : appendField f n v ≠ [] := by
  cases f with
  | nil => simp [appendField]
  | cons a t => unfold appendField; split <;> simp

/-- `reg` is "some regular field has been stored" all along a clean run -/
theorem track_reg : ∀ (fs : List Header) (st st' : TSt), track fs st = some st' →
    st.1 = !st.2.2.isEmpty → st'.1 = !st'.2.2.isEmpty
  | [], st, st', ht, h => by
    simp only [track, Option.some.injEq] at ht
    subst ht; exact h
  | x :: rest, st, st', ht, h => by
    unfold track at ht
    split at ht
    · cases ht
    · rename_i st1 hs
      refine track_reg rest st1 st' ht ?_
      rcases trackStep_some st st1 x hs with ⟨-, hr, -, rfl⟩ | ⟨-, -, -, rfl⟩
      · simp only; rw [← h, hr]
      · simp only
        cases hh : appendField st.2.2 x.1 x.2 with
        | nil => exact absurd hh (appendField_ne_nil _ _ _)
        | cons a t => rfl

/-- the block `b` stands for the field list `fs`: unless a flag is raised, it holds what `track` says -/
def BlockInv (b : HeaderBlock) (fs : List Header) : Prop :=
  b.isMalformed = false → b.isOverSize = false →
    track fs (false, {}, []) = some (!b.fields.isEmpty, b.pseudo, b.fields)

theorem blockInv_empty : BlockInv {} [] := fun _ _ => rfl

/-- the field list a call of `HeaderBlock::load` hands to its callback -/
abbrev loadedFields (dec : Decoder) (src : Bytes) : List Header := (dec.decode src).fields

/-- the callback's state when the decoder loop of `HeaderBlock::load` ends -/
def loadSt (b : HeaderBlock) (src : Bytes) (ml : Nat) (dec : Decoder) : LoadSt :=
  loadFields ml (ml * Generated.Consts.MAX_HEADER_LIST_ABUSE_MULTIPLIER) (dec.decode src).fields
    { blk := b, reg := !b.fields.isEmpty, malformed := b.isMalformed, wayTooLarge := false, headersSize := b.listSize }

theorem load_eq (b : HeaderBlock) (src : Bytes) (ml : Nat) (dec : Decoder) :
    HeaderBlock.load b src ml dec =
      ({ (loadSt b src ml dec).blk with isMalformed := (loadSt b src ml dec).malformed },
       (dec.decode src).dec, (dec.decode src).tail,
       if (loadSt b src ml dec).wayTooLarge then .error .headerListWayTooLarge
       else match (dec.decode src).result with
         | .error e => .error (.hpack e)
         | .ok _ => if (loadSt b src ml dec).malformed then .error .malformedMessage else .ok ()) := by
  unfold HeaderBlock.load
  simp only
  rw [show loadFields ml (ml * Generated.Consts.MAX_HEADER_LIST_ABUSE_MULTIPLIER) (dec.decode src).fields
    { blk := b, reg := !b.fields.isEmpty, malformed := b.isMalformed, wayTooLarge := false, headersSize := b.listSize }
    = loadSt b src ml dec from rfl]
  generalize loadSt b src ml dec = s1
  by_cases hw : s1.wayTooLarge = true
  · simp only [if_pos hw]
  · simp only [if_neg hw]
    cases (dec.decode src).result with
    | error e => rfl
    | ok u =>
      simp only
      split <;> rfl

/-- **one `load` call keeps the invariant** (unless it ends with `HeaderListWayTooLarge`, which kills
    the connection) -/
theorem load_inv (b : HeaderBlock) (fs : List Header) (src : Bytes) (ml : Nat) (dec : Decoder)
    (hb : BlockInv b fs)
    (hw : (HeaderBlock.load b src ml dec).2.2.2 ≠ .error .headerListWayTooLarge) :
    BlockInv (HeaderBlock.load b src ml dec).1 (fs ++ loadedFields dec src) := by
  rw [load_eq] at hw ⊢
  simp only at hw ⊢
  by_cases hwl : (loadSt b src ml dec).wayTooLarge = true
  · rw [if_pos hwl] at hw; exact absurd rfl hw
  · intro hm ho
    simp only at hm ho ⊢
    have cl : Clean (loadSt b src ml dec) := ⟨hm, by simpa using hwl, ho⟩
    obtain ⟨c0, ht⟩ := loadFields_clean _ _ _ _ cl
    have h0 := hb c0.m c0.o
    rw [track_append, h0]
    simp only [Option.bind_some]
    have hreg := track_reg _ _ _ ht rfl
    simp only [tOf] at ht hreg ⊢
    rw [ht]
    unfold loadSt
    rw [hreg]

/-- a `load` call that returns `Ok` leaves the block unflagged -/
theorem load_ok_not_malformed (b : HeaderBlock) (src : Bytes) (ml : Nat) (dec : Decoder)
    (h : (HeaderBlock.load b src ml dec).2.2.2 = .ok ()) :
    (HeaderBlock.load b src ml dec).1.isMalformed = false := by
  rw [load_eq] at h ⊢
  simp only at h ⊢
  split at h
  · cases h
  · split at h
    · cases h
    · split at h
      · cases h
      · rename_i hm; simpa using hm

theorem checkSize_malformed (ml am : Nat) (s : LoadSt) : (checkSize ml am s).1.malformed = s.malformed := by
  unfold checkSize
  split
  · rfl
  · split <;> rfl

theorem tail_malformed (c : LoadSt × Bool) (upd : LoadSt → LoadSt) (hupd : ∀ x, (upd x).malformed = x.malformed) :
    (if c.2 = true then (c.1, true) else if ¬ c.1.blk.isOverSize = true then (upd c.1, false)
      else (c.1, false)).1.malformed = c.1.malformed := by
  split
  · rfl
  · split
    · exact hupd _
    · rfl

theorem loadField_malformed_mono (ml am : Nat) (s : LoadSt) (h : Header) (hm : s.malformed = true) :
    (loadField ml am s h).1.malformed = true := by
  rw [loadField_eq]
  by_cases hp : h.1.head? = some 58
  · simp only [if_pos hp]
    split
    · rfl
    · split
      · rfl
      · rw [tail_malformed _ (fun x => { x with blk := { x.blk with pseudo := setPseudo x.blk.pseudo h.1 h.2 } })
          (fun _ => rfl), checkSize_malformed]
        exact hm
  · simp only [if_neg hp]
    split
    · rfl
    · split
      · rfl
      · rw [tail_malformed _ (fun x => { x with blk := { x.blk with
            fieldSize := x.blk.fieldSize + decodedHeaderSize h.1.length h.2.length,
            fields := appendField x.blk.fields h.1 h.2 } }) (fun _ => rfl), checkSize_malformed]
        exact hm

theorem loadFields_malformed_mono (ml am : Nat) : ∀ (fs : List Header) (s : LoadSt), s.malformed = true →
    (loadFields ml am fs s).malformed = true
  | [], s, hm => hm
  | h :: rest, s, hm => by
    unfold loadFields
    have := loadField_malformed_mono ml am s h hm
    generalize loadField ml am s h = r at this
    obtain ⟨s', brk⟩ := r
    simp only at this ⊢
    split
    · exact this
    · exact loadFields_malformed_mono ml am rest s' this

/-- a flagged block stays flagged: **once a field has made the message malformed, no later fragment
    makes `load` return `Ok`** -/
theorem load_malformed_sticky (b : HeaderBlock) (src : Bytes) (ml : Nat) (dec : Decoder)
    (hb : b.isMalformed = true) :
    (HeaderBlock.load b src ml dec).2.2.2 ≠ .ok () ∧ (HeaderBlock.load b src ml dec).1.isMalformed = true := by
  have hm : (loadSt b src ml dec).malformed = true := loadFields_malformed_mono _ _ _ _ hb
  rw [load_eq]
  simp only [hm, if_true]
  refine ⟨?_, trivial⟩
  split
  · simp
  · split <;> simp

end H2V.Lemmas.ConnHttpP
