import H2V.Lemmas.ConnCountsPInvD
/-
  C05 — invariants, part E: counting by direction.  `cntP P s` = number of slab entries with `P`;
  `DF`: the steps that keep, for every entry, key / stream id / `is_counted` / openedness /
  PUSH_PROMISE frames, and keep `pending_open`, the id map (up to removals) and `num_send_streams`.
-/
namespace H2V.Lemmas.ConnCountsP
open H2V H2V.Model H2V.Model.Conn

/-- `peer::Dyn::is_local_init` for the role `sv` (`true` = server) -/
def locId (sv : Bool) (id : Nat) : Bool := sv == (id % 2 == 0)

theorem isLocalInit_eq (c : Counts) (id : Nat) : c.isLocalInit id = locId c.isServer id := rfl

def cntP (P : Stream → Bool) (s : Streams) : Nat := s.store.slab.countP P

/-- counted and locally initiated -/
def sendCounted (sv : Bool) (x : Stream) : Bool := x.isCounted && locId sv x.id

theorem cntP_setStream {s : Streams} (P : Stream → Bool) (h : KeysOK s) (st' x : Stream) (hx : s.store.get? st'.key = some x) :
    cntP P (s.setStream st') + b2n (P x) = cntP P s + b2n (P st') := by
  unfold cntP Streams.setStream Store.set
  exact countP_upd P st' s.store.slab h.nodup x (get?_mem hx) (get?_key hx).symm

theorem cntP_of_store_eq {s s' : Streams} (P : Stream → Bool) (h : s'.store = s.store) : cntP P s' = cntP P s := by
  unfold cntP; rw [h]

theorem cntP_modStream {s : Streams} (P : Stream → Bool) (h : KeysOK s) (k : Nat) (f : Stream → Stream) (hf : ∀ x, (f x).key = x.key) :
    (∃ x, s.store.get? k = some x ∧ cntP P (s.modStream k f) + b2n (P x) = cntP P s + b2n (P (f x))) ∨
    (s.store.get? k = none ∧ cntP P (s.modStream k f) = cntP P s) := by
  unfold Streams.modStream
  cases hx : s.store.get? k with
  | none => right; exact ⟨rfl, cntP_of_store_eq P (panic_store _ _)⟩
  | some x =>
    left
    refine ⟨x, rfl, ?_⟩
    have hk : (f x).key = k := (hf x).trans (get?_key hx)
    exact cntP_setStream P h (f x) x (by rw [hk]; exact hx)

theorem cntP_modStream_same {s : Streams} (P : Stream → Bool) (h : KeysOK s) (k : Nat) (f : Stream → Stream)
    (hf : ∀ x, (f x).key = x.key) (hc : ∀ x, P (f x) = P x) : cntP P (s.modStream k f) = cntP P s := by
  rcases cntP_modStream P h k f hf with ⟨x, _, e⟩ | ⟨_, e⟩
  · rw [hc] at e; omega
  · exact e

theorem cntP_insert (P : Stream → Bool) (s : Streams) (st : Stream) (hc : P { st with key := s.store.nextKey } = false) :
    cntP P { s with store := (s.store.insert st).1 } = cntP P s := by
  show (s.store.slab ++ [({ st with key := s.store.nextKey } : Stream)]).countP P = _
  rw [List.countP_append]
  simp [List.countP_cons, hc, cntP]

theorem cntP_remove {s : Streams} (P : Stream → Bool) (h : KeysOK s) (k n : Nat)
    (hg : ∀ st, s.store.get? k = some st → P st = false) :
    cntP P { s with store := s.store.remove k, recvBufferLeaked := n } = cntP P s := by
  show (s.store.slab.filter (·.key != k)).countP P = s.store.slab.countP P
  rw [List.countP_filter]
  apply List.countP_congr
  intro y hy
  by_cases hk : y.key = k
  · have := hg y (by rw [← hk]; exact h.get?_of_mem hy)
    simp [this]
  · simp [hk]

-- ===================================================================== per-entry relation

/-- what the direction invariants need of an updated entry -/
structure SameD (a b : Stream) : Prop where
  id : b.id = a.id
  counted : b.isCounted = a.isCounted
  early : Early b → Early a
  pp : ∀ f ∈ b.pendingSend, SFrame.isPP f = true → f ∈ a.pendingSend

theorem SameD.refl (a : Stream) : SameD a a := ⟨rfl, rfl, fun h => h, fun _ h _ => h⟩
theorem SameD.trans {a b c : Stream} (h1 : SameD a b) (h2 : SameD b c) : SameD a c :=
  ⟨h2.id.trans h1.id, h2.counted.trans h1.counted, fun h => h1.early (h2.early h), fun f hf hp => h1.pp f (h2.pp f hf hp) hp⟩
theorem SameD.of_same {a b : Stream} (h : Same a b) : SameD a b := ⟨h.id, h.counted, h.early, h.pp⟩

/-- updates of `Counts` that keep `num_send_streams`, the role and the error-reset quota's limit, and do not
    decrease the error-reset counter -/
structure CD (c c' : Counts) : Prop where
  isServer : c'.isServer = c.isServer
  numSend : c'.numSendStreams = c.numSendStreams
  maxErr : c'.maxLocalErrorResetStreams = c.maxLocalErrorResetStreams
  err : c.numLocalErrorResetStreams ≤ c'.numLocalErrorResetStreams

theorem CD.refl (c : Counts) : CD c c := ⟨rfl, rfl, rfl, Nat.le_refl _⟩
theorem CD.trans {a b c : Counts} (h1 : CD a b) (h2 : CD b c) : CD a c :=
  ⟨h2.isServer.trans h1.isServer, h2.numSend.trans h1.numSend, h2.maxErr.trans h1.maxErr, Nat.le_trans h1.err h2.err⟩
theorem CD.of_cstep {c c' : Counts} (h : CStep c c') : CD c c' :=
  ⟨h.isServer, h.numSend, h.maxErr, by rcases h.err with e | e <;> omega⟩

theorem CD.errOK {c c' : Counts} (h : CD c c') (hc : c'.canIncNumLocalErrorResets = true) : c.canIncNumLocalErrorResets = true := by
  unfold Counts.canIncNumLocalErrorResets at *
  rw [h.maxErr] at hc
  split
  · next m hm =>
    simp only [hm, decide_eq_true_eq] at hc ⊢
    have := h.err
    omega
  · rfl

/-- a step that keeps everything the direction invariants look at -/
structure DF (s s' : Streams) : Prop where
  counts : CD s.counts s'.counts
  nextKey : s'.store.nextKey = s.store.nextKey
  ids : ∀ p ∈ s'.store.ids, p ∈ s.store.ids
  openQ : ∀ k ∈ s'.prio.pendingOpen, k ∈ s.prio.pendingOpen
  desc : ∀ k x', s'.store.get? k = some x' → ∃ x, s.store.get? k = some x ∧ SameD x x'
  keys : SameKeys s s'
  cnt : KeysOK s → ∀ sv, cntP (sendCounted sv) s' = cntP (sendCounted sv) s
  next : NextOK s.counts.isServer s.actions.send.nextStreamId s'.actions.send.nextStreamId

theorem NextOK.trans {sv : Bool} {a b c : Option Nat} (h1 : NextOK sv a b) (h2 : NextOK sv b c) : NextOK sv a c := by
  intro z hz
  obtain ⟨y, hy, hyz, hp2⟩ := h2 z hz
  obtain ⟨x, hx, hxy, hp1⟩ := h1 y hy
  refine ⟨x, hx, Nat.le_trans hxy hyz, ?_⟩
  rcases hp2 with e2 | e2
  · rcases hp1 with e1 | e1
    · exact .inl (e2.trans e1)
    · right; rw [e2]; exact e1
  · exact .inr e2

theorem DF.refl (s : Streams) : DF s s :=
  ⟨CD.refl _, rfl, fun _ h => h, fun _ h => h, fun _ x' h => ⟨x', h, SameD.refl _⟩, SameKeys.refl _, fun _ _ => rfl, NextOK.refl _ _⟩

theorem DF.trans {a b c : Streams} (h1 : DF a b) (h2 : DF b c) : DF a c := by
  refine ⟨h1.counts.trans h2.counts, h2.nextKey.trans h1.nextKey, fun p hp => h1.ids p (h2.ids p hp),
    fun k hk => h1.openQ k (h2.openQ k hk), ?_, h1.keys.trans h2.keys, fun h sv => (h2.cnt (h1.keys.keysOK h) sv).trans (h1.cnt h sv),
    h1.next.trans (by rw [← h1.counts.isServer]; exact h2.next)⟩
  intro k x'' hx''
  obtain ⟨x', hx', d'⟩ := h2.desc k x'' hx''
  obtain ⟨x, hx, d⟩ := h1.desc k x' hx'
  exact ⟨x, hx, d.trans d'⟩

theorem DF.of_store_eq {s s' : Streams} (hst : s'.store = s.store) (hc : CD s.counts s'.counts)
    (hq : ∀ k ∈ s'.prio.pendingOpen, k ∈ s.prio.pendingOpen)
    (hn : NextOK s.counts.isServer s.actions.send.nextStreamId s'.actions.send.nextStreamId) : DF s s' :=
  ⟨hc, by rw [hst], fun p hp => by rw [hst] at hp; exact hp, hq,
   fun k x' hx => ⟨x', by rw [← hst]; exact hx, SameD.refl _⟩, SameKeys.of_store_eq hst,
   fun _ sv => cntP_of_store_eq _ hst, hn⟩

theorem DF.panic' (s : Streams) (m : String) : DF s (s.panic m) :=
  DF.of_store_eq (panic_store _ _) (by rw [panic_counts]; exact CD.refl _) (by unfold Streams.prio; rw [panic_actions]; exact fun _ h => h)
    (by rw [panic_actions]; exact NextOK.refl _ _)

theorem DF.setQ (s : Streams) (q : QName) (l : List Nat) (hq : q ≠ .pendingOpen ∨ ∀ k ∈ l, k ∈ s.prio.pendingOpen) : DF s (s.setQ q l) :=
  DF.of_store_eq (setQ_store _ _ _) (by rw [setQ_counts]; exact CD.refl _)
    (by
      cases q
      case pendingOpen =>
        rcases hq with hq | hq
        · exact absurd rfl hq
        · exact hq
      all_goals exact fun _ h => h)
    (by cases q <;> exact NextOK.refl _ _)

theorem DF.of_frame {s s' : Streams} (h : Frame s s') : DF s s' :=
  DF.of_store_eq h.store (CD.of_cstep h.counts) (by
    have hq : s'.prio.pendingOpen = s.prio.pendingOpen := h.q .pendingOpen
    intro k hk; rw [hq] at hk; exact hk) h.next

theorem DF.setCounts (s : Streams) (c : Counts) (h : CD s.counts c) : DF s { s with counts := c } :=
  DF.of_store_eq rfl h (fun _ h => h) (NextOK.refl _ _)

theorem DF.setStream (s : Streams) (st' : Stream) (h : ∀ x, s.store.get? st'.key = some x → SameD x st') :
    DF s (s.setStream st') := by
  refine ⟨CD.refl _, rfl, fun _ hp => hp, fun _ hk => hk, ?_, SameKeys.setStream _ _, ?_, NextOK.refl _ _⟩
  · intro k x' hx'
    rw [setStream_get?] at hx'
    cases hk : s.store.get? k with
    | none => rw [hk] at hx'; cases hx'
    | some x =>
      rw [hk] at hx'
      simp only [Option.map_some, Option.some.injEq] at hx'
      by_cases hkey : x.key == st'.key
      · simp only [hkey, if_true] at hx'
        subst hx'
        have : st'.key = k := by simp at hkey; rw [← hkey]; exact get?_key hk
        rw [this] at h
        exact ⟨x, rfl, h x hk⟩
      · simp only [hkey] at hx'
        subst hx'
        exact ⟨x, rfl, SameD.refl _⟩
  · intro hA sv
    cases hx : s.store.get? st'.key with
    | none => exact cntP_of_store_eq _ (setStream_dangling s st' hx)
    | some x =>
      have e := cntP_setStream (sendCounted sv) hA st' x hx
      have hd := h x hx
      have heq : sendCounted sv st' = sendCounted sv x := by unfold sendCounted; rw [hd.counted, hd.id]
      rw [heq] at e
      omega

theorem modStream_prio2 (s : Streams) (k : Nat) (f : Stream → Stream) : (s.modStream k f).prio = s.prio := by
  unfold Streams.modStream Streams.prio; split
  · rfl
  · rw [panic_actions]

theorem DF.modStream (s : Streams) (k : Nat) (f : Stream → Stream) (hf : ∀ x, (f x).key = x.key)
    (hd : ∀ x, SameD x (f x)) : DF s (s.modStream k f) := by
  unfold Streams.modStream
  split
  · next st hst =>
    refine DF.setStream s _ ?_
    intro x hx
    rw [hf, get?_key hst, hst] at hx
    cases hx; exact hd st
  · exact DF.panic' _ _

theorem setQueued_sameD (x : Stream) (q : QName) (v : Bool) : SameD x (x.setQueued q v) := by
  cases q <;> exact ⟨rfl, rfl, fun h => h, fun _ h _ => h⟩

/-- the same when the per-entry relation is only known for the entry found -/
theorem DF.modStreamAt (s : Streams) (k : Nat) (f : Stream → Stream) (hf : ∀ x, (f x).key = x.key)
    (hd : ∀ x, s.store.get? k = some x → SameD x (f x)) : DF s (s.modStream k f) := by
  unfold Streams.modStream
  split
  · next st hst =>
    refine DF.setStream s _ ?_
    intro x hx
    rw [hf, get?_key hst, hst] at hx
    cases hx; exact hd st hst
  · exact DF.panic' _ _

theorem DF.qPush (s : Streams) (q : QName) (k : Nat) (hq : q ≠ .pendingOpen) : DF s (s.qPush q k).1 := by
  unfold Streams.qPush
  split
  · exact DF.refl _
  · exact (DF.modStream s k _ (fun x => setQueued_key x q true) (fun x => setQueued_sameD x q true)).trans (DF.setQ _ _ _ (.inl hq))

theorem DF.qPushFront (s : Streams) (q : QName) (k : Nat) (hq : q ≠ .pendingOpen) : DF s (s.qPushFront q k).1 := by
  unfold Streams.qPushFront
  split
  · exact DF.refl _
  · exact (DF.modStream s k _ (fun x => setQueued_key x q true) (fun x => setQueued_sameD x q true)).trans (DF.setQ _ _ _ (.inl hq))

theorem DF.qPop (s : Streams) (q : QName) : DF s (s.qPop q).1 := by
  unfold Streams.qPop
  split
  · exact DF.refl _
  · next id rest hq =>
    refine (DF.setQ _ _ _ ?_).trans (DF.modStream _ _ _ (fun x => setQueued_key x q false) (fun x => setQueued_sameD x q false))
    cases q
    case pendingOpen =>
      right
      intro k hk
      have : s.prio.pendingOpen = id :: rest := hq
      rw [this]; exact List.mem_cons_of_mem _ hk
    all_goals exact .inl (by decide)

theorem DF.modCountsA (s : Streams) (w : String) (f : Counts → Option Counts) (h : ∀ c', f s.counts = some c' → CD s.counts c') :
    DF s (s.modCountsA w f) := by
  unfold Streams.modCountsA
  split
  · next c hc => exact DF.setCounts s c (h c hc)
  · exact DF.panic' _ _

end H2V.Lemmas.ConnCountsP
