import H2V.Lemmas.ConnNoPanicPDsNew
/-
  C08 (no panic) — `DSum` / `Coupled` as invariants, part 7: the step theorems.

  * every operation of ConnResetP's `Op` other than the two that hand the codec's writer to the stream layer
    (`pollComplete`, `pollSendPendingRefusal`) is a `GK` step (`op_gk`), given
      - `OH s` (no stream in `pending_open` has DATA at the front of its queue): needed by the `pending_open` branch of
        `Send::send_reset`, which keeps the front frame and zeroes `buffered_send_data`;
      - for `refSendData k len _`: `buffered_send_data + len` fits a `usize` (`opLen`);
  * hence `DSum` is kept (`DSum_step`);
  * `Coupled` is NOT inductive by itself: `clear_queue k` turns the marker `DataFrame k'` into `Drop` only when `k' = k`,
    so one has to know that the marker names the stream of the frame the codec holds: `KM`.  `Coupled ∧ KM` is kept by
    every `GK` step (`Coupled_step`), by every writer step that holds no new DATA frame (`WLE`), and `KM` is kept by
    `poll_complete` / `send_pending_refusal` (ConnNoPanicPDsPoll).
-/
namespace H2V.Lemmas.ConnNoPanicP
open H2V H2V.Model H2V.Model.Conn H2V.Lemmas.ConnCountsP
open H2V.Lemmas.ConnResetP (Op run)
attribute [local irreducible] wrapSubU32 wrapSubUsize

/-- the argument bound of `send_data`: the new total fits a `usize` (in the Rust the payload is in memory) -/
def opLen (s : Streams) : Op → Prop
  | .refSendData k len _ => (s.stream k).bufferedSendData + len < USIZE_MOD
  | _ => True

/-- the operations that do not hand the codec's writer to the stream layer -/
def opNoWriter : Op → Prop
  | .pollComplete .. => False
  | .pollSendPendingRefusal .. => False
  | _ => True

/-- **every operation outside the write path is a `GK` step** -/
theorem op_gk (s : Streams) (op : Op) (hk : KeysFresh s) (ho : OH s) (hl : opLen s op) (hw : opNoWriter op) :
    GK s (op.apply s) := by
  cases op
  case recvHeaders h => exact recvHeaders_gh s h ho
  case recvData id p eos pad => exact ((recvData_go s id p eos pad).imp ho).1
  case recvReset id r => exact recvReset_gk s id r
  case recvWindowUpdate id inc => exact ((recvWindowUpdate_go s id inc).imp ho).1
  case recvPushPromise id h => exact ((recvPushPromise_go s id h).imp ho).1
  case handleError e => exact handleError_gk s e
  case recvGoAwayFrame l r d => exact recvGoAwayFrame_gk s l r d
  case recvGoAway l => exact (recvGoAway_uk s l).toGK
  case recvEof c => exact recvEof_gk s c
  case innerSendReset id r => exact ((innerSendReset_go s id r).imp ho).1
  case setTargetConnectionWindow t => exact (setTargetConnectionWindow_uk s t).toGK
  case applyRemoteSettings v b => exact ((applyRemoteSettings_go s v b).imp ho).1
  case applyLocalSettingsFrame v => exact (applyLocalSettingsFrame_uk s v).toGK
  case pollComplete => exact hw.elim
  case pollSendPendingRefusal => exact hw.elim
  case clearExpiredResetStreams n => exact (clearExpiredResetStreams_uk n s).toGK
  case wake t => exact (wake_uk s t).toGK
  case clearWakes => exact (UK.of_eqs (s := s) (s' := { s with wakes := [] }) rfl rfl).toGK
  case panic m => exact (panic_uk s m).toGK
  case cloneHandle => exact (cloneHandle_uk s).toGK
  case dropHandle => exact (dropHandle_uk s).toGK
  case sendRequest a b c d => exact sendRequest_gk s hk a b c d
  case pollPendingOpen p t => exact (pollPendingOpen_uk s p t).toGK
  case nextIncoming => exact (nextIncoming_uk s).toGK
  case recvTakeRequest k => exact (recvTakeRequest_uk s k).toGK
  case cloneStreamRef k => exact (cloneStreamRef_uk s k).toGK
  case dropStreamRef k => exact (dropStreamRef_uk s k).toGK
  case refSendResponse k f eos => exact refSendResponse_gk s k f eos
  case refSendInformationalHeaders k f => exact (refSendInformationalHeaders_uk s k f).toGK
  case refSendPushPromise p v f => exact (refSendPushPromise_uk s hk p v f).toGK
  case refSendData k len eos => exact refSendData_gk s k len eos hl
  case refSendTrailers k f => exact (refSendTrailers_uk s k f).toGK
  case refReserveCapacity k c => exact (refReserveCapacity_uk s k c).toGK
  case pollCapacity k t => exact (pollCapacity_uk s k t).toGK
  case refSendReset k r => exact ((refSendReset_go s k r).imp ho).1
  case pollReset k m t => exact (pollReset_uk s k m t).toGK
  case recvPollResponse n k t => exact (recvPollResponse_uk n s k t).toGK
  case recvPollInformational k t => exact (recvPollInformational_uk s k t).toGK
  case refPollData k t => exact (refPollData_uk s k t).toGK
  case recvPollTrailers k t => exact (recvPollTrailers_uk s k t).toGK
  case refReleaseCapacity k c => exact (refReleaseCapacity_uk s k c).toGK
  case refClearRecvBuffer k => exact (refClearRecvBuffer_uk s k).toGK

-- ===================================================================== `DSum`

theorem blank_streamD {s : Streams} (h : s.store.slab = []) (k : Nat) : s.stream k = { key := k, id := 0 } := by
  unfold Streams.stream Store.get?; rw [h]; rfl

theorem DSum_blank {s : Streams} (h : Blank s) : DSum s := fun k => by rw [blank_streamD h.slab k]; exact DS.blank k
theorem OH_blank {s : Streams} (h : Blank s) : OH s := fun k => by rw [blank_streamD h.slab k]; exact OHead.blank k

/-- **`DSum` is kept by every operation outside the write path** (for the write path: `pollComplete_w`,
    `pollSendPendingRefusal_w`) -/
theorem DSum_step {s : Streams} (hn : NPI (fun _ => False) s) (hd : DSum s) (ho : OH s) (op : Op)
    (hl : opLen s op) (hw : opNoWriter op) : DSum (op.apply s) :=
  (op_gk s op hn.keys.fresh ho hl hw).dsum hd

-- ===================================================================== `Coupled`

/-- the marker `in_flight_data_frame = DataFrame k` names the stream of the DATA frame the codec holds -/
def KM (s : Streams) (w : Writer) : Prop :=
  ∀ fr, held w fr → ∀ k, s.prio.inFlightDataFrame = .dataFrame k → k = fr.key

theorem KM.wle {s : Streams} {w w' : Writer} (h : KM s w) (hw : WLE w w') : KM s w' := fun fr hf => h fr (hw.sub fr hf)
theorem KM.nf {s s' : Streams} {w : Writer} (h : KM s w)
    (hn : InflLE s.prio.inFlightDataFrame s'.prio.inFlightDataFrame) : KM s' w :=
  fun fr hf k hk => h fr hf k (inflLE_back hn hk)
theorem KM.of_none {s : Streams} {w : Writer} (h1 : w.lastDataFrame = none) (h2 : w.next = none) : KM s w :=
  fun fr hf => absurd hf (held_none h1 h2 fr)
theorem KM.of_nothing {s : Streams} {w : Writer} (h : s.prio.inFlightDataFrame = .nothing) : KM s w :=
  fun _ _ k hk => by rw [h] at hk; cases hk

/-- a `GK` step of the stream layer keeps the coupling with an unchanged writer -/
theorem GK.coupled {s s' : Streams} {w : Writer} (h : GK s s') (hc : Coupled s w) (hk : KM s w) :
    Coupled s' w ∧ KM s' w := by
  refine ⟨⟨hc.one, fun fr hf => ?_, fun fr hf hd => ?_⟩, hk.nf h.nf⟩
  · have := hc.inflight fr hf
    rcases h.nf with e | ⟨e, _⟩
    · rw [e]; exact this
    · rw [e]; intro h'; cases h'
  · obtain ⟨k, hk'⟩ := hd
    have hk0 := inflLE_back h.nf hk'
    have hkey : k = fr.key := hk fr hf k hk0
    subst hkey
    intro hr
    have ho := hc.ok fr hf ⟨_, hk0⟩ hr
    have := h.cov fr.key fr.rest hr hk' ⟨ho.2.1, ho.2.2⟩
    exact ⟨this.2 ho.1, this.1.1, this.1.2⟩

/-- **`Coupled` (with `KM`) is kept by every operation outside the write path** -/
theorem Coupled_step {s : Streams} {w : Writer} (hn : NPI (fun _ => False) s) (hc : Coupled s w) (hk : KM s w) (ho : OH s)
    (op : Op) (hl : opLen s op) (hw : opNoWriter op) : Coupled (op.apply s) w ∧ KM (op.apply s) w :=
  (op_gk s op hn.keys.fresh ho hl hw).coupled hc hk

-- ===================================================================== the writer side

theorem put_wle (w : Writer) (seg : Seg) : WLE w (w.put seg) := .of_eq rfl rfl
theorem bufferSimple_wle (w : Writer) (n : Nat) (r : String) : WLE w (w.bufferSimple n r) := .of_eq rfl rfl
theorem bufferHeaders_wle (w : Writer) (sid : Nat) (eos : Bool) (f : List Hpack.Field) : WLE w (w.bufferHeaders sid eos f) :=
  .of_eq (bufferHeaders_keeps w sid eos f).1 (bufferHeaders_keeps w sid eos f).2
theorem bufferPushPromise_wle (w : Writer) (sid p : Nat) (f : List Hpack.Field) : WLE w (w.bufferPushPromise sid p f) :=
  .of_eq (bufferPushPromise_keeps w sid p f).1 (bufferPushPromise_keeps w sid p f).2
theorem shutdownW_wle (w : Writer) (io : Tio) (tag : String) : WLE w (shutdownW w io tag).1 := by
  have hfl := (flush_wle w io tag).1
  unfold shutdownW
  generalize flush w io tag = p at hfl ⊢
  obtain ⟨w1, io1, r1⟩ := p
  have h2 : WLE w ({ w1 with finalFlushDone := true } : Writer) := hfl.trans (.of_eq rfl rfl)
  cases hf : w.finalFlushDone <;> cases r1 <;>
    simp only [Bool.not_false, Bool.not_true, if_true, Bool.false_eq_true, if_false] <;>
    first | exact hfl | exact h2 | exact .refl _

/-- the invariant of the write path that the stream layer and the codec share -/
structure DSW (s : Streams) (w : Writer) : Prop where
  ds : DSum s
  cp : Coupled s w
  km : KM s w

theorem DSW_blank {s : Streams} {w : Writer} (h : Blank s) (h1 : w.lastDataFrame = none) (h2 : w.next = none) : DSW s w :=
  ⟨DSum_blank h, .of_none h1 h2, .of_none h1 h2⟩

/-- every operation outside the write path -/
theorem DSW_step {s : Streams} {w : Writer} (hn : NPI (fun _ => False) s) (h : DSW s w) (ho : OH s)
    (op : Op) (hl : opLen s op) (hw : opNoWriter op) : DSW (op.apply s) w :=
  have g := op_gk s op hn.keys.fresh ho hl hw
  ⟨g.dsum h.ds, (g.coupled h.cp h.km).1, (g.coupled h.cp h.km).2⟩

/-- every step of the codec that holds no new DATA frame (`put`-based writes, `flush`, `poll_ready`, `shutdown`) -/
theorem DSW.wle {s : Streams} {w w' : Writer} (h : DSW s w) (hw : WLE w w') : DSW s w' :=
  ⟨h.ds, h.cp.wle hw, h.km.wle hw⟩

end H2V.Lemmas.ConnNoPanicP
