import H2V.Lemmas.ConnCountsPInvB
/-
  C05 / C18 / C19 — invariants, part C: the counters.
  `Inv1`: `num_send_streams + num_recv_streams` = number of counted slab entries,
  `num_local_reset_streams` = length of `pending_reset_expired`, and the four quotas.
  It holds along `Ev` / `EvT` as long as no `assert!` of the real code fires (`panicked = none`).
-/
namespace H2V.Lemmas.ConnCountsP
open H2V H2V.Model H2V.Model.Conn

/-- updates of `Counts` that keep the three stream counters and the quotas -/
structure CB (c c' : Counts) : Prop where
  numSend : c'.numSendStreams = c.numSendStreams
  numRecv : c'.numRecvStreams = c.numRecvStreams
  numReset : c'.numLocalResetStreams = c.numLocalResetStreams
  maxRecv : c'.maxRecvStreams = c.maxRecvStreams
  maxReset : c'.maxLocalResetStreams = c.maxLocalResetStreams
  err : (∀ m, c.maxLocalErrorResetStreams = some m → c.numLocalErrorResetStreams ≤ m) →
        (∀ m, c'.maxLocalErrorResetStreams = some m → c'.numLocalErrorResetStreams ≤ m)
  remote : c.numRemoteResetStreams ≤ c.maxRemoteResetStreams → c'.numRemoteResetStreams ≤ c'.maxRemoteResetStreams

theorem CB.refl (c : Counts) : CB c c := ⟨rfl, rfl, rfl, rfl, rfl, id, id⟩
theorem CB.trans {a b c : Counts} (h1 : CB a b) (h2 : CB b c) : CB a c :=
  ⟨h2.numSend.trans h1.numSend, h2.numRecv.trans h1.numRecv, h2.numReset.trans h1.numReset,
   h2.maxRecv.trans h1.maxRecv, h2.maxReset.trans h1.maxReset, fun h => h2.err (h1.err h), fun h => h2.remote (h1.remote h)⟩

theorem CB.of_cstep {c c' : Counts} (h : CStep c c') : CB c c' := by
  refine ⟨h.numSend, h.numRecv, h.numReset, h.maxRecv, h.maxReset, ?_, ?_⟩
  · intro hb m hm
    rw [h.maxErr] at hm
    rcases h.err with e | ⟨e, hc⟩
    · rw [e]; exact hb m hm
    · rw [e]
      unfold Counts.canIncNumLocalErrorResets at hc
      rw [hm] at hc
      simp only [decide_eq_true_eq] at hc
      omega
  · intro hb
    rw [h.maxRemote]
    rcases h.remote with e | ⟨e, hc⟩
    · omega
    · rw [e]
      unfold Counts.canIncNumRemoteResetStreams at hc
      simp only [decide_eq_true_eq] at hc
      omega

/-- a step that touches neither the counters, nor `pending_reset_expired`, nor the counted entries -/
structure CF (s s' : Streams) : Prop where
  counts : CB s.counts s'.counts
  resetQ : s'.recv.pendingResetExpired = s.recv.pendingResetExpired
  keys : SameKeys s s'
  cnt : KeysOK s → cntAll s' = cntAll s

theorem CF.refl (s : Streams) : CF s s := ⟨CB.refl _, rfl, SameKeys.refl _, fun _ => rfl⟩
theorem CF.trans {a b c : Streams} (h1 : CF a b) (h2 : CF b c) : CF a c :=
  ⟨h1.counts.trans h2.counts, h2.resetQ.trans h1.resetQ, h1.keys.trans h2.keys,
   fun h => (h2.cnt (h1.keys.keysOK h)).trans (h1.cnt h)⟩

theorem CF.panic' (s : Streams) (m : String) : CF s (s.panic m) :=
  ⟨by rw [panic_counts]; exact CB.refl _, by unfold Streams.recv; rw [panic_actions], SameKeys.panic' _ _,
   fun _ => cntAll_of_store_eq (panic_store _ _)⟩

theorem CF.setQ (s : Streams) (q : QName) (l : List Nat) (hq : q ≠ .pendingResetExpired) : CF s (s.setQ q l) :=
  ⟨by rw [setQ_counts]; exact CB.refl _, by cases q <;> first | rfl | exact absurd rfl hq, SameKeys.setQ _ _ _,
   fun _ => cntAll_of_store_eq (setQ_store _ _ _)⟩

theorem modStream_recv (s : Streams) (k : Nat) (f : Stream → Stream) : (s.modStream k f).recv = s.recv := by
  unfold Streams.modStream Streams.recv; split
  · rfl
  · rw [panic_actions]

theorem modStream_counts2 (s : Streams) (k : Nat) (f : Stream → Stream) : (s.modStream k f).counts = s.counts := by
  unfold Streams.modStream; split
  · rfl
  · rw [panic_counts]

theorem CF.modStream (s : Streams) (k : Nat) (f : Stream → Stream) (hf : ∀ x, (f x).key = x.key)
    (hc : ∀ x, (f x).isCounted = x.isCounted) : CF s (s.modStream k f) :=
  ⟨by rw [modStream_counts2]; exact CB.refl _, by rw [modStream_recv], SameKeys.modStream _ _ _,
   fun h => cntAll_modStream_same h k f hf hc⟩

theorem CF.setStream (s : Streams) (st' : Stream) (h : ∀ x, s.store.get? st'.key = some x → st'.isCounted = x.isCounted) :
    CF s (s.setStream st') := by
  refine ⟨CB.refl _, rfl, SameKeys.setStream _ _, ?_⟩
  intro hA
  cases hx : s.store.get? st'.key with
  | none => exact cntAll_of_store_eq (setStream_dangling s st' hx)
  | some x =>
    have := cntAll_setStream hA st' x hx
    rw [h x hx] at this; omega

theorem CF.setCounts (s : Streams) (c : Counts) (h : CB s.counts c) : CF s { s with counts := c } :=
  ⟨h, rfl, SameKeys.of_store_eq rfl, fun _ => rfl⟩

theorem CF.of_frame {s s' : Streams} (h : Frame s s') : CF s s' :=
  ⟨CB.of_cstep h.counts, by have := h.q .pendingResetExpired; exact this, SameKeys.of_store_eq h.store,
   fun _ => cntAll_of_store_eq h.store⟩

theorem setQueued_counted (x : Stream) (q : QName) (v : Bool) : (x.setQueued q v).isCounted = x.isCounted := by cases q <;> rfl

theorem CF.qPush (s : Streams) (q : QName) (k : Nat) (hq : q ≠ .pendingResetExpired) : CF s (s.qPush q k).1 := by
  unfold Streams.qPush
  split
  · exact CF.refl _
  · exact (CF.modStream s k _ (fun x => setQueued_key x q true) (fun x => setQueued_counted x q true)).trans (CF.setQ _ _ _ hq)

theorem CF.qPushFront (s : Streams) (q : QName) (k : Nat) (hq : q ≠ .pendingResetExpired) : CF s (s.qPushFront q k).1 := by
  unfold Streams.qPushFront
  split
  · exact CF.refl _
  · exact (CF.modStream s k _ (fun x => setQueued_key x q true) (fun x => setQueued_counted x q true)).trans (CF.setQ _ _ _ hq)

theorem CF.qPop (s : Streams) (q : QName) (hq : q ≠ .pendingResetExpired) : CF s (s.qPop q).1 := by
  unfold Streams.qPop
  split
  · exact CF.refl _
  · exact (CF.setQ _ _ _ hq).trans (CF.modStream _ _ _ (fun x => setQueued_key x q false) (fun x => setQueued_counted x q false))

-- ===================================================================== the invariant

structure Inv1 (s : Streams) : Prop where
  sum : s.counts.numSendStreams + s.counts.numRecvStreams = cntAll s
  reset : s.counts.numLocalResetStreams = s.recv.pendingResetExpired.length
  recvLe : s.counts.numRecvStreams ≤ s.counts.maxRecvStreams
  resetLe : s.counts.numLocalResetStreams ≤ s.counts.maxLocalResetStreams
  remoteLe : s.counts.numRemoteResetStreams ≤ s.counts.maxRemoteResetStreams
  errLe : ∀ m, s.counts.maxLocalErrorResetStreams = some m → s.counts.numLocalErrorResetStreams ≤ m

theorem CF.inv1 {s s' : Streams} (h : CF s s') (hA : KeysOK s) (hi : Inv1 s) : Inv1 s' :=
  ⟨by rw [h.counts.numSend, h.counts.numRecv, h.cnt hA]; exact hi.sum,
   by rw [h.counts.numReset, h.resetQ]; exact hi.reset,
   by rw [h.counts.numRecv, h.counts.maxRecv]; exact hi.recvLe,
   by rw [h.counts.numReset, h.counts.maxReset]; exact hi.resetLe,
   h.counts.remote hi.remoteLe, h.counts.err hi.errLe⟩

end H2V.Lemmas.ConnCountsP
