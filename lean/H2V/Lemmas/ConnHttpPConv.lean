import H2V.Lemmas.ConnHttpPTrack
/-
  C13 (ConnHttpP), part 4 — `server::Peer::convert_poll_message` (+ the `:status` / `:protocol` checks of
  `Recv::recv_headers`) against the request rules of RFC 9113 §8.3.1 (`Spec.Http.request`).
-/
namespace H2V.Lemmas.ConnHttpP
open H2V H2V.Model H2V.Model.Frame H2V.Model.Hpack H2V.Model.Conn

/-- the request rules of `Spec.Http.request` (without the common ones) on the pseudo-header part of a
    block that holds each pseudo-header field at most once -/
def reqRules (method scheme authority path : Option Bytes) (hasProto : Bool) (status : Option Bytes)
    (ecp : Bool) : List String :=
  let m := method.toList
  let isConnect := m == [Spec.Http.ascii "CONNECT"]
  (if !status.toList.isEmpty then ["status-in-request"] else []) ++
  (if m.length != 1 then ["missing-method"] else []) ++
  (if isConnect && !hasProto then
     (if authority.toList.isEmpty then ["connect-without-authority"] else []) ++
     (if !scheme.toList.isEmpty || !path.toList.isEmpty then ["connect-with-scheme-or-path"] else [])
   else
     (if scheme.toList.length != 1 then ["missing-scheme"] else []) ++
     (if path.toList.length != 1 || path.toList == [[]] then ["missing-path"] else [])) ++
  (if hasProto && !(isConnect && ecp) then ["protocol-without-extended-connect"] else [])

/-- what the server accepts: `convert_poll_message` succeeds, no `:status`, `:protocol` only with the
    extended CONNECT setting.  Every request rule holds. -/
theorem convert_ok_rules (h : HeadersIn) (ecp : Bool) (m u : Bytes)
    (hc : convertPollMessageServer h = .ok m u) (hst : h.status = none)
    (hpr : h.hasProtocol = true → ecp = true) :
    reqRules h.method h.scheme h.authority h.path h.hasProtocol h.status ecp = [] := by
  obtain ⟨sid, eos, status, method, scheme, authority, path, hasProtocol, fields, over⟩ := h
  simp only at hst hpr ⊢
  subst hst
  unfold convertPollMessageServer at hc
  simp only at hc
  cases method with
  | none => cases hc
  | some meth =>
    simp only [str_CONNECT, str_http, str_https] at hc
    by_cases hcon : meth = [67, 79, 78, 78, 69, 67, 84]
    · subst hcon
      cases hasProtocol <;> cases scheme <;> cases authority <;> cases path <;>
        simp [reqRules, ascii_CONNECT] at hc ⊢
      all_goals (repeat' (split at hc))
      all_goals (try cases hc)
      all_goals simp_all
    · have hb : (meth == [67, 79, 78, 78, 69, 67, 84]) = false := by simpa using hcon
      cases hasProtocol <;> cases scheme <;> cases authority <;> cases path <;>
        simp [reqRules, ascii_CONNECT, hb, hcon] at hc ⊢
      all_goals (repeat' (split at hc))
      all_goals (try cases hc)
      all_goals simp_all


theorem convert_ok_method (h : HeadersIn) (m u : Bytes) (hc : convertPollMessageServer h = .ok m u) :
    h.method = some m := by
  obtain ⟨sid, eos, status, method, scheme, authority, path, hasProtocol, fields, over⟩ := h
  unfold convertPollMessageServer at hc
  simp only at hc ⊢
  cases method with
  | none => cases hc
  | some meth =>
    simp only at hc
    cases hasProtocol <;> cases scheme <;> cases authority <;> cases path <;> cases status <;>
      simp at hc
    all_goals (repeat' (split at hc))
    all_goals (try cases hc)
    all_goals simp_all

theorem getPseudo_method (p : Pseudo) : getPseudo p pMethod = p.method := by simp [getPseudo]
theorem getPseudo_scheme (p : Pseudo) : getPseudo p pScheme = p.scheme := by
  simp [getPseudo, pMethod, pScheme]
theorem getPseudo_authority (p : Pseudo) : getPseudo p pAuthority = p.authority := by
  simp [getPseudo, pMethod, pScheme, pAuthority]
theorem getPseudo_path (p : Pseudo) : getPseudo p pPath = p.path := by
  simp [getPseudo, pMethod, pScheme, pAuthority, pPath]
theorem getPseudo_protocol (p : Pseudo) : getPseudo p pProtocol = p.protocol := by
  simp [getPseudo, pMethod, pScheme, pAuthority, pPath, pProtocol]
theorem getPseudo_status (p : Pseudo) : getPseudo p pStatus = p.status := by
  simp [getPseudo, pMethod, pScheme, pAuthority, pPath, pProtocol, pStatus]

/-- the values of the six pseudo-header names in a field list that went through the callback clean -/
structure PseudoExact (fs : List Header) (p : Pseudo) : Prop where
  method : Spec.Http.get fs ":method" = p.method.toList
  scheme : Spec.Http.get fs ":scheme" = p.scheme.toList
  authority : Spec.Http.get fs ":authority" = p.authority.toList
  path : Spec.Http.get fs ":path" = p.path.toList
  protocol : Spec.Http.get fs ":protocol" = p.protocol.toList
  status : Spec.Http.get fs ":status" = p.status.toList

theorem track_pseudoExact (fs : List Header) (st' : TSt) (ht : track fs (false, {}, []) = some st')
    (hok : ∀ f ∈ fs, fieldOk f = true) : PseudoExact fs st'.2.1 := by
  have h := track_vals fs st' ht hok
  refine ⟨?_, ?_, ?_, ?_, ?_, ?_⟩
  · rw [get_eq_vals, ascii_method, h _ (by simp [known]), getPseudo_method]
  · rw [get_eq_vals, ascii_scheme, h _ (by simp [known]), getPseudo_scheme]
  · rw [get_eq_vals, ascii_authority, h _ (by simp [known]), getPseudo_authority]
  · rw [get_eq_vals, ascii_path, h _ (by simp [known]), getPseudo_path]
  · rw [get_eq_vals, ascii_protocol, h _ (by simp [known]), getPseudo_protocol]
  · rw [get_eq_vals, ascii_status, h _ (by simp [known]), getPseudo_status]

/-- `Spec.Http.request` on a field list that went through the callback clean -/
theorem request_eq_reqRules (fs : List Header) (p : Pseudo) (ecp : Bool)
    (hc : Spec.Http.common fs = []) (hp : PseudoExact fs p) :
    Spec.Http.request fs ecp = reqRules p.method p.scheme p.authority p.path p.protocol.isSome p.status ecp := by
  unfold Spec.Http.request reqRules
  simp only [hc, hp.method, hp.scheme, hp.authority, hp.path, hp.protocol, hp.status, List.nil_append]
  cases p.protocol <;> rfl

end H2V.Lemmas.ConnHttpP
