import H2V.Lemmas.ConnNoPanicPAccTear
/-
  C08 (no panic) — the server accept path, part 9: the stream errors that `recv_headers` / `recv_trailers` /
  `recv_data` hand to `reset_on_recv_stream_err` are never `Reset(_, _, Initiator::Remote)` (they are all raised by
  the library), so the reset they cause does not make a queued stream "reset by the peer".
-/
namespace H2V.Lemmas.ConnNoPanicP
open H2V H2V.Model H2V.Model.Conn H2V.Lemmas.ConnCountsP
attribute [local irreducible] wrapSubU32 wrapSubUsize

/-- `Reset(_, _, Initiator::Remote)` -/
def isRR : PErr → Bool
  | .reset _ _ .remote => true
  | _ => false

def resRR {α : Type} : Except PErr α → Bool
  | .error e => isRR e
  | .ok _ => false

theorem notRR_of_isRR {e : PErr} (h : isRR e = false) : NotRR e := by
  intro id r he; subst he; cases h

theorem notRemote_of_resRR {res : Except PErr Unit} (h : resRR res = false) : NotRemote res := by
  intro e he; subst he; exact notRR_of_isRR h

theorem rr_of_eq {α : Type} {p : Streams × Except PErr α} {s : Streams} {e : PErr} (h : resRR p.2 = false)
    (heq : p = (s, .error e)) : isRR e = false := by subst heq; exact h

theorem recvClose_err_rr {x y : State} {e : PErr} (h : x.recvClose = (y, .error e)) : isRR e = false := by
  rcases x with ⟨_ | _ | _ | ⟨_ | _, _ | _⟩ | ⟨_ | _⟩ | ⟨_ | _⟩ | _⟩ <;> simp [State.recvClose] at h <;>
    (obtain ⟨_, h⟩ := h; subst h; rfl)

theorem recvOpen_err_rr {x y : State} {eos inf : Bool} {e : PErr} (h : x.recvOpen eos inf = (y, .error e)) : isRR e = false := by
  rcases x with ⟨_ | _ | _ | ⟨_ | _, _ | _⟩ | ⟨_ | _⟩ | ⟨_ | _⟩ | _⟩ <;> cases eos <;> cases inf <;> simp [State.recvOpen] at h <;>
    (obtain ⟨_, h⟩ := h; subst h; rfl)

theorem consumeConnectionWindow_rr (s : Streams) (sz : Nat) : resRR (s.consumeConnectionWindow sz).2 = false := by
  unfold Streams.consumeConnectionWindow
  repeat' split
  all_goals rfl

theorem ignoreData_rr (s : Streams) (sz : Nat) : resRR (s.ignoreData sz).2 = false := by
  unfold Streams.ignoreData
  split
  · next heq => exact rr_of_eq (consumeConnectionWindow_rr _ _) heq
  · rfl

theorem recvRecvTrailers_rr (s : Streams) (k : Nat) (h : HeadersIn) : resRR (s.recvRecvTrailers k h).2 = false := by
  unfold Streams.recvRecvTrailers
  split
  · next heq => exact recvClose_err_rr heq
  · dsimp only
    repeat' split
    all_goals rfl

theorem recvRecvData_rr (s : Streams) (k : Nat) (payload : Bytes) (eos : Bool) (pad : Option Nat) :
    resRR (s.recvRecvData k payload eos pad).2 = false := by
  unfold Streams.recvRecvData
  cases pad <;> dsimp only
  all_goals (
    generalize (if _ > Generated.Consts.MAX_WINDOW_SIZE then s.panic _ else s) = s0
    split
    · rfl
    split
    · exact ignoreData_rr _ _
    split
    · next heq => exact rr_of_eq (consumeConnectionWindow_rr _ _) heq
    · next s1 _ heq1 =>
      split
      · rfl
      · split
        · rfl
        · next st1 hdc =>
          generalize s1.setStream st1 = s2
          generalize hs3 : (if eos = true then _ else (s2, (none : Option PErr))) = p3
          have h3 : ∀ e, p3.2 = some e → isRR e = false := by
            rw [← hs3]; intro e he
            split at he
            · split at he
              · cases he; rfl
              · split at he
                · cases he; rfl
                · cases he
            · cases he
          clear hs3
          obtain ⟨s4, o⟩ := p3
          cases o with
          | some e => exact h3 e rfl
          | none =>
            dsimp only
            repeat' split
            all_goals rfl)

/-- the `Err` of `Recv::recv_headers` -/
def hdrRR : RecvHeadersRes → Bool
  | .state e => isRR e
  | _ => false

theorem recvRecvHeaders_rr (s : Streams) (k : Nat) (h : HeadersIn) : hdrRR (s.recvRecvHeaders k h).2 = false := by
  unfold Streams.recvRecvHeaders
  split
  · next heq => exact recvOpen_err_rr heq
  · next st' isInitial heq =>
    dsimp only
    generalize Streams.modStream s k _ = s1
    split
    · rfl
    · generalize (if (isInitial && !(s1.stream k).isCounted) = true then _ else s1) = s2
      generalize hs3 : (if ((s2.stream k).contentLength != ContentLength.head) = true then _ else (s2, (none : Option PErr))) = p3
      have h3 : ∀ e, p3.2 = some e → isRR e = false := by
        rw [← hs3]; intro e he
        repeat' split at he
        all_goals first | (cases he; rfl) | cases he
      clear hs3
      obtain ⟨s3, o⟩ := p3
      cases o with
      | some e => exact h3 e rfl
      | none =>
        dsimp only
        repeat' split
        all_goals rfl

end H2V.Lemmas.ConnNoPanicP
