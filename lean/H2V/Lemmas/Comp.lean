import H2V.Lemmas.CompBasic
import H2V.Lemmas.CompState
import H2V.Lemmas.CompFlow
import H2V.Lemmas.CompLedger
/-
  Component lemmas: stream state machine vs RFC 9113 §5.1 (`CompState`), flow-control arithmetic
  (`CompFlow`) and its ledger over histories (`CompLedger`).  This file only re-exports and prints
  the axioms the main theorems rest on.
-/
namespace H2V.Lemmas.Comp

-- Part 1
#print axioms sendOpen_refines
#print axioms sendOpen_error_iff
#print axioms recvOpen_refines
#print axioms recvOpen_error_iff
#print axioms recvOpen_informational
#print axioms reserveRemote_refines
#print axioms reserveLocal_refines
#print axioms recvClose_refines
#print axioms sendClose_refines
#print axioms recvReset_refines
#print axioms recvReset_idle_exception
#print axioms setReset_refines
#print axioms setReset_idle_exception
#print axioms isClosed_iff
#print axioms ensureRecvOpen_isOk
#print axioms sendClose_none_iff
#print axioms recvReset_preserves_eos
#print axioms handleError_preserves_eos
#print axioms recvEof_preserves_eos
#print axioms closed_is_absorbing
#print axioms closed_still_changes
#print axioms reachable_all
#print axioms reachable_states
#print axioms eos_accepted_at_most_once
#print axioms errorAfterEndStream_only_after_eos
#print axioms op_refines
#print axioms op_forbidden
#print axioms trace_refines
-- Part 2
#print axioms incWindow_ok
#print axioms incWindow_err
#print axioms decSendWindow_ok
#print axioms assignCapacity_ok
#print axioms claimCapacity_ok
#print axioms sendData_ok
#print axioms sendData_assert_iff
#print axioms decRecvWindow_partial_iff
#print axioms sendData_partial_iff
#print axioms unclaimedCapacity_spec
#print axioms unclaimedCapacity_spec'
#print axioms unclaimed_when_exhausted
#print axioms unclaimed_when_exhausted_iff
#print axioms window_ledger
#print axioms available_ledger
#print axioms window_never_above_max
#print axioms window_never_above_max_small
#print axioms values_stay_i32

end H2V.Lemmas.Comp
