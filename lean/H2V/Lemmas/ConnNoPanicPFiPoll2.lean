import H2V.Lemmas.ConnNoPanicPFiPoll1
/-
  C08 (no panic) — `FI` is a reachable invariant, part 12: the bundle `FB` through `Prioritize::buffer_pending`,
  `Inner::buffer_pending` and `Streams::poll_complete`, next to the write path's own invariants `WI`
  (`reclaim_frame` pushes the remainder of a DATA frame back to a stream that has data buffered — `Coupled`/`HeldOK` —,
  hence, by `FX.q`, to one whose send half is open).
-/
namespace H2V.Lemmas.ConnNoPanicP
open H2V H2V.Model H2V.Model.Conn H2V.Lemmas.ConnCountsP
attribute [local irreducible] wrapSubU32 wrapSubUsize

variable {sv : Bool} {E E' : Nat → Prop}

/-- `FB` only looks at the store and `next_stream_id` -/
theorem FB.of_store {s t : Streams} (hb : FB sv E s) (hst : t.store = s.store)
    (hn : t.actions.send.nextStreamId = s.actions.send.nextStreamId) : FB sv E t := by
  have hs : ∀ j, t.stream j = s.stream j := stream_of_store_eqP hst
  have hq : ∀ j, ppq t j = ppq s j := fun j => by unfold ppq; rw [hs]
  have hl : ∀ j, Live t j → Live s j := fun j h => by unfold Live at *; rw [← hst]; exact h
  refine ⟨by rw [hst]; exact hb.nd, fun id k hf hlk => ?_, hb.fi.of_store hst,
    ⟨fun k h1 h2 => ?_, fun k pid hp pushed hf hlk h2 => ?_, fun k pid hp n hn' => ?_, fun k hp => ?_, fun k hp => ?_,
     fun k pid hp => hb.fx.lq k pid (by rw [← hq]; exact hp)⟩⟩
  · rw [hs]; exact hb.idm id k (by rw [← hst]; exact hf) (hl k hlk)
  · rw [hs] at h1 h2 ⊢; exact hb.fx.q k h1 h2
  · rw [hs] at h2 ⊢; rw [hq] at hp; rw [hst] at hf; exact hb.fx.tg k pid hp pushed hf (hl _ hlk) h2
  · rw [hq] at hp; rw [hn] at hn'; exact hb.fx.lt k pid hp n hn'
  · rw [hs] at hp ⊢; exact hb.fx.pl k hp
  · rw [hs] at hp ⊢; exact hb.fx.ol k hp

theorem panic_next (s : Streams) (m : String) : (s.panic m).actions.send.nextStreamId = s.actions.send.nextStreamId := by
  rw [panic_actions]

-- ===================================================================== reclaim_frame

/-- **`Prioritize::reclaim_frame_inner`**: the remainder goes back to a stream with buffered data, whose send half
    is therefore open -/
theorem reclaimFrameInner_fb {s : Streams} {fr : DataFrame} (hb : FB sv E s)
    (hok : (∃ k, s.prio.inFlightDataFrame = .dataFrame k) → HeldOK s fr) : FB sv E (s.reclaimFrameInner fr).1 := by
  unfold Streams.reclaimFrameInner
  dsimp only
  have hb0 : FB sv E (s.modPrio fun p => { p with inFlightDataFrame := .nothing }) := hb.of_store rfl rfl
  generalize hs0 : (s.modPrio fun p => { p with inFlightDataFrame := .nothing }) = s0 at hb0
  have hst0 : ∀ j, s0.stream j = s.stream j := fun j => by rw [← hs0]; rfl
  cases hin : s.prio.inFlightDataFrame with
  | nothing => exact hb0.of_store (panic_store _ _) (panic_next _ _)
  | drop => exact hb0
  | dataFrame k =>
    dsimp only
    split
    · next hr =>
      have ho := hok ⟨k, hin⟩ hr
      have hbd : (s0.stream fr.key).bufferedSendData ≠ 0 := by rw [hst0]; omega
      have hopn : Opn sv s0 fr.key := by
        cases hloc : locId sv (s0.stream fr.key).id with
        | false => exact .inr (.inr hloc)
        | true =>
          cases hsu : suB (s0.stream fr.key).state with
          | false => exact .inr (.inl hsu)
          | true => exact absurd (hb0.fx.q fr.key hloc hsu).bd hbd
      have hb1 : FB sv E (s0.modStream fr.key fun st => { st with pendingSend := .data fr.rest fr.eos :: st.pendingSend }) :=
        hb0.st (modStream_fk _ _ _ (fun x => ⟨rfl, id, id, id, by
            show (ppIdsOf (.data fr.rest fr.eos :: x.pendingSend)).Sublist _
            rw [ppIdsOf_data]; exact .refl _⟩))
          (modStream_sk_opn hopn (fun st => { st with pendingSend := .data fr.rest fr.eos :: st.pendingSend })
            (fun _ => ⟨rfl, rfl, rfl, rfl⟩))
      split
      · exact hb1.st (qPush_fk _ _ _ (by decide)) (qPush_sk _ _ _ (by decide))
      · exact hb1
    · exact hb0

theorem reclaimFrame_fb {s : Streams} {w : Writer} (hb : FB sv E s) (hc : Coupled s w) : FB sv E (s.reclaimFrame w).1 := by
  unfold Streams.reclaimFrame Writer.takeLastDataFrame
  cases hld : w.lastDataFrame with
  | none => exact hb
  | some fr =>
    dsimp only
    exact reclaimFrameInner_fb hb (hc.ok fr (.inl hld))

-- ===================================================================== dst.buffer(frame)

theorem bufferOut_next (s : Streams) (w : Writer) (f : Streams.OutFrame) :
    (s.bufferOut w f).1.actions.send.nextStreamId = s.actions.send.nextStreamId := by
  unfold Streams.bufferOut
  cases f with
  | data len e fr =>
    dsimp only
    split
    · rfl
    · exact panic_next _ _
  | headers sid eos fields => rfl
  | reset sid reason => rfl
  | pushPromise sid p fields => rfl

/-- the coupling after `dst.buffer(frame)` (as inside `bufferReclaim_w`) -/
theorem bufferOut_coupled {s : Streams} {w : Writer} {f : Streams.OutFrame} (h : PI E' s)
    (hw1 : w.lastDataFrame = none) (hw2 : w.next = none)
    (hlen : ∀ len e fr, f = .data len e fr → len ≤ w.maxFrameSize)
    (hheld : ∀ len e fr, f = .data len e fr → HeldOK s fr) : Coupled (s.bufferOut w f).1 (s.bufferOut w f).2 := by
  have hb := bufferOut_pi h w f hlen
  cases f with
  | data len e fr =>
    have hb' := hb.2.2
    dsimp only at hb'
    have hfr : ∀ fr', held (s.bufferOut w (.data len e fr)).2 fr' → fr' = fr := by
      intro fr' hf
      rcases hb'.2 with ⟨h1, h2⟩ | ⟨h1, nd, h2, h3⟩
      · rcases hf with e1 | ⟨nd', e1, _⟩
        · rw [h1] at e1; cases e1; rfl
        · rw [h2, hw2] at e1; cases e1
      · rcases hf with e1 | ⟨nd', e1, e2⟩
        · rw [h1, hw1] at e1; cases e1
        · rw [h2] at e1; cases e1; rw [← e2, h3]
    refine ⟨?_, fun fr' hf => ?_, fun fr' hf _ => ?_⟩
    · rcases hb'.2 with ⟨_, h2⟩ | ⟨h1, _⟩
      · exact .inr (h2.trans hw2)
      · exact .inl (h1.trans hw1)
    · rw [hb'.1]; intro h'; cases h'
    · rw [hfr fr' hf]
      exact (HK.of_store hb.2.1).heldOK (hheld len e fr rfl)
  | headers sid eos fields =>
    have hb' := hb.2.2; dsimp only at hb'
    exact .of_none (hb'.2.1.trans hw1) (hb'.2.2.trans hw2)
  | reset sid reason =>
    have hb' := hb.2.2; dsimp only at hb'
    exact .of_none (hb'.2.1.trans hw1) (hb'.2.2.trans hw2)
  | pushPromise sid p fields =>
    have hb' := hb.2.2; dsimp only at hb'
    exact .of_none (hb'.2.1.trans hw1) (hb'.2.2.trans hw2)

/-- one frame goes to the codec and what the codec hands back at once is reclaimed -/
theorem bufferReclaim_fb {s : Streams} {w : Writer} {f : Streams.OutFrame} (h : PI E' s) (hb : FB sv E s)
    (hw1 : w.lastDataFrame = none) (hw2 : w.next = none)
    (hlen : ∀ len e fr, f = .data len e fr → len ≤ w.maxFrameSize)
    (hheld : ∀ len e fr, f = .data len e fr → HeldOK s fr) :
    FB sv E ((s.bufferOut w f).1.reclaimFrame (s.bufferOut w f).2).1 :=
  reclaimFrame_fb (hb.of_store (bufferOut_pi h w f hlen).2.1 (bufferOut_next s w f)) (bufferOut_coupled h hw1 hw2 hlen hheld)

-- ===================================================================== the loop of buffer_pending

theorem loopOpen_fb {s : Streams} (h : PI E' s) (hb : FB sv E s) :
    ∀ s1, s1 = (match s.popPendingOpen.2 with
      | some id => ((s.popPendingOpen.1.qPushFront .pendingSend id).1).tryAssignCapacity id
      | none => s.popPendingOpen.1) → FB sv E s1 := by
  intro s1 hs1
  subst hs1
  have hp := popPendingOpen_fb h.npi hb
  generalize s.popPendingOpen = p at hp ⊢
  obtain ⟨s0, o⟩ := p
  cases o with
  | some id =>
    dsimp only at hp ⊢
    refine hp.st ?_ ?_
    · fk_auto
    · sk_auto
  | none => exact hp

set_option hygiene false in
local macro "loop_rest_fb" : tactic => `(tactic|
  (have hp := popFrame_pi ho.1 ho.2.1 (Streams.popFrameFuel s1) w.maxFrameSize
   have hps := ho.2.1.popFrame (Streams.popFrameFuel s1) w.maxFrameSize
   have hpr := ho.2.2.1.of_ext (ConnRecvP.popFrame_ext (Streams.popFrameFuel s1) s1 w.maxFrameSize)
   have hpd := popFrame_ds ho.1 ho.2.1 ho.2.2.2 (Streams.popFrameFuel s1) w.maxFrameSize
   have hpf := popFrame_fb ho.1 hf1 ho.2.1 (Streams.popFrameFuel s1) w.maxFrameSize
   split
   · next s2 f heq =>
     rw [heq] at hp hps hpr hpd hpf
     have hbr := bufferReclaim_w (f := f) hp hps hpr hpd.1 hw1 hw2
       (fun len e fr hf => by subst hf; exact popFrame_len_le ho.2.1 heq)
       (fun len e fr hf => hpd.2 len e fr (by rw [hf]))
     have hbf := bufferReclaim_fb (f := f) hp hpf hw1 hw2
       (fun len e fr hf => by subst hf; exact popFrame_len_le ho.2.1 heq)
       (fun len e fr hf => hpd.2 len e fr (by rw [hf]))
     exact ih hbr.1 hbf hbr.2
   · next s2 heq =>
     rw [heq] at hp hps hpr hpd hpf
     exact .inr ⟨⟨hp, hps, hpr, hpd.1, .of_none hw1 hw2⟩, hpf⟩))

/-- **the loop of `Prioritize::buffer_pending`** -/
theorem prioBufferPendingLoop_wx {g : ConnRecvP.Ghost} (fuel : Nat) :
    ∀ {s : Streams} {w : Writer}, WI E' g s w → FB sv E s → w.lastDataFrame = none →
      OutOfFuel (Streams.prioBufferPendingLoop fuel s w).1 ∨
      (WI E' g (Streams.prioBufferPendingLoop fuel s w).1 (Streams.prioBufferPendingLoop fuel s w).2.1 ∧
       FB sv E (Streams.prioBufferPendingLoop fuel s w).1) := by
  induction fuel with
  | zero =>
    intro s w h _ _
    unfold Streams.prioBufferPendingLoop
    exact .inl (.inl (panic_of_noneP h.pi.npi.np _))
  | succ n ih =>
    intro s w h hb hw1
    unfold Streams.prioBufferPendingLoop
    split
    · exact .inr ⟨h, hb⟩
    · next hcap =>
      have hw2 : w.next = none := hasCapacity_nextP (by simpa using hcap)
      have ho := loopOpen_w h.pi h.safe h.recv h.ds
      have hf1 := loopOpen_fb h.pi hb
      dsimp only
      cases hpo : s.popPendingOpen with
      | mk s0 o =>
      rw [hpo] at ho hf1
      dsimp only at ho hf1
      cases o with
      | some id =>
        dsimp only at ho hf1 ⊢
        have ho := ho _ rfl
        have hf1 := hf1 _ rfl
        generalize ((s0.qPushFront .pendingSend id).1).tryAssignCapacity id = s1 at ho hf1 ⊢
        loop_rest_fb
      | none =>
        dsimp only at ho hf1 ⊢
        have ho := ho _ rfl
        have hf1 := hf1 _ rfl
        generalize s0 = s1 at ho hf1 ⊢
        loop_rest_fb

-- ===================================================================== buffer_pending, poll_complete

theorem sendConnectionWindowUpdate_sk (s : Streams) (w : Writer) : SK sv s (s.sendConnectionWindowUpdate w).1 := by
  unfold Streams.sendConnectionWindowUpdate; sk_auto
theorem sendStreamWindowUpdates_sk (n : Nat) : ∀ (s : Streams) (w : Writer), SK sv s (Streams.sendStreamWindowUpdates n s w).1 := by
  induction n with
  | zero => intro s w; unfold Streams.sendStreamWindowUpdates; exact .refl _
  | succ n ih => intro s w; unfold Streams.sendStreamWindowUpdates; sk_auto_ih ih
theorem recvBufferPending_sk (s : Streams) (w : Writer) : SK sv s (s.recvBufferPending w).1 := by
  unfold Streams.recvBufferPending; sk_auto

/-- **`Prioritize::buffer_pending`** -/
theorem prioBufferPending_wx {g : ConnRecvP.Ghost} (fuel : Nat) {s : Streams} {w : Writer} (h : WI E' g s w) (hb : FB sv E s) :
    OutOfFuel (Streams.prioBufferPending fuel s w).1 ∨
    (WI E' g (Streams.prioBufferPending fuel s w).1 (Streams.prioBufferPending fuel s w).2.1 ∧
     FB sv E (Streams.prioBufferPending fuel s w).1) := by
  unfold Streams.prioBufferPending
  have hr := reclaimFrame_w h
  exact prioBufferPendingLoop_wx fuel hr.1 (reclaimFrame_fb hb h.cp) hr.2

/-- **`Inner::buffer_pending`** -/
theorem bufferPending_wx {g : ConnRecvP.Ghost} (fuel : Nat) {s : Streams} {w : Writer} (h : WI E' g s w) (hb : FB sv E s) :
    OutOfFuel (Streams.bufferPending fuel s w).1 ∨
    (WI E' g (Streams.bufferPending fuel s w).1 (Streams.bufferPending fuel s w).2.1 ∧ FB sv E (Streams.bufferPending fuel s w).1) := by
  unfold Streams.bufferPending
  have h1 := recvBufferPending_w h
  have hb1 : FB sv E (s.recvBufferPending w).1 := hb.st (recvBufferPending_fk s w) (recvBufferPending_sk s w)
  split
  · next s1 w1 heq => rw [heq] at h1 hb1; exact .inr ⟨h1, hb1⟩
  · next s1 w1 heq => rw [heq] at h1 hb1; exact prioBufferPending_wx fuel h1 hb1

/-- **`Streams::poll_complete` keeps the write path's invariants AND the bundle `FB`** (or ends with the model's own
    out-of-fuel marker) -/
theorem pollComplete_wx {g : ConnRecvP.Ghost} (fuel : Nat) :
    ∀ {s : Streams} {w : Writer}, WI E' g s w → FB sv E s → ∀ (io : Tio) (tag : String),
      OutOfFuel (Streams.pollComplete fuel s w io tag).1 ∨
      (WI E' g (Streams.pollComplete fuel s w io tag).1 (Streams.pollComplete fuel s w io tag).2.1 ∧
       FB sv E (Streams.pollComplete fuel s w io tag).1) := by
  induction fuel with
  | zero =>
    intro s w h _ io tag
    unfold Streams.pollComplete
    exact .inl (.inr (panic_of_noneP h.pi.npi.np _))
  | succ n ih =>
    intro s w h hb io tag
    unfold Streams.pollComplete
    have hw1 := pollReadyW_wle w io tag
    split
    · next w1 io1 heq =>
      rw [heq] at hw1
      have h1 : WI E' g s w1 := ⟨h.pi, h.safe, h.recv, h.ds, h.cp.wle hw1⟩
      have hbp := bufferPending_wx (sv := sv) (E := E) (n + 1) h1 hb
      have hbk := bufferPending_pk (n + 1) s w1
      generalize Streams.bufferPending (n + 1) s w1 = r at hbp hbk ⊢
      obtain ⟨s2, w2, status⟩ := r
      dsimp only at hbp hbk ⊢
      cases status with
      | codecFull =>
        dsimp only
        rcases hbp with hbp | hbp
        · exact .inl (hbp.pk (pollComplete_pk n s2 w2 io1 tag))
        · exact ih hbp.1 hbp.2 io1 tag
      | complete =>
        dsimp only
        have hfl := flush_wle w2 io1 tag
        split
        · next w3 io3 heq3 =>
          rw [heq3] at hfl
          dsimp only at hfl
          rcases hbp with hbp | hbp
          · have hk1 : PK s2 ({ s2 with actions := { s2.actions with task := some tag } } : Streams) := .of_eq rfl
            have hk2 := hk1.trans (reclaimFrame_pk _ w3)
            split
            · exact .inl (hbp.pk hk2)
            · exact .inl (hbp.pk (hk2.trans (pollComplete_pk n _ _ io3 tag)))
          · have h3 := setTask_w hbp.1 (some tag)
            have hb3 : FB sv E ({ s2 with actions := { s2.actions with task := some tag } } : Streams) := hbp.2.of_store rfl rfl
            have h3' : WI E' g ({ s2 with actions := { s2.actions with task := some tag } } : Streams) w3 :=
              ⟨h3.pi, h3.safe, h3.recv, h3.ds, h3.cp.wle hfl.1⟩
            have h4 := reclaimFrame_w h3'
            have hb4 := reclaimFrame_fb hb3 h3'.cp
            split
            · exact .inr ⟨h4.1, hb4⟩
            · exact ih h4.1 hb4 io3 tag
        · next w3 io3 r3 hne heq3 =>
          rw [heq3] at hfl
          dsimp only at hfl
          rcases hbp with hbp | hbp
          · exact .inl (hbp.pk (.of_eq rfl))
          · have h3 := setTask_w hbp.1 (some tag)
            exact .inr ⟨⟨h3.pi, h3.safe, h3.recv, h3.ds, h3.cp.wle hfl.1⟩, hbp.2.of_store rfl rfl⟩
    · next w1 io1 r1 hne heq =>
      rw [heq] at hw1
      exact .inr ⟨⟨h.pi, h.safe, h.recv, h.ds, h.cp.wle hw1⟩, hb⟩

/-- **`Streams::poll_complete` keeps `FJ`** (hence `FI`): from a state in which the write path's invariants `WI` and `FJ`
    hold it ends with the model's out-of-fuel marker, or in a state in which both hold again -/
theorem FJ_pollComplete {g : ConnRecvP.Ghost} {s : Streams} {w : Writer} (h : WI E' g s w) (hj : FJ s) (fuel : Nat) (io : Tio)
    (tag : String) :
    OutOfFuel (Streams.pollComplete fuel s w io tag).1 ∨
    (WI E' g (Streams.pollComplete fuel s w io tag).1 (Streams.pollComplete fuel s w io tag).2.1 ∧
     FJ (Streams.pollComplete fuel s w io tag).1) := by
  rcases pollComplete_wx (sv := s.counts.isServer) (E := fun _ => False) fuel h hj io tag with h1 | h1
  · exact .inl h1
  · exact .inr ⟨h1.1, FJ.of_role (pollComplete_ev (ρ := true) fuel s w io tag).nx.role h1.2⟩

end H2V.Lemmas.ConnNoPanicP
