import H2V.Lemmas.ConnNoPanicPBase
/-
  C08 (no panic) — part 2: queue primitives under `LT`, `Inert` for the stream methods, and the
  peeling tactic `lt_auto` (same design as `ev_auto` of ConnCountsPTac: the head function `f` of the
  target state is peeled with the lemma `f_lt`, found by name in this namespace).
-/
namespace H2V.Lemmas.ConnNoPanicP
open H2V H2V.Model H2V.Model.Conn H2V.Lemmas.ConnCountsP
attribute [local irreducible] wrapSubU32 wrapSubUsize

-- ===================================================================== panicked / counts through the primitives

theorem modStream_panicked_live {s : Streams} {k : Nat} (h : Live s k) (f : Stream → Stream) :
    (s.modStream k f).panicked = s.panicked := by
  obtain ⟨x, hx⟩ := h
  unfold Streams.modStream; rw [hx]; rfl

theorem modStreamW_panicked_live {s : Streams} {k : Nat} (h : Live s k) (f : Stream → Stream × List String) :
    (s.modStreamW k f).panicked = s.panicked := by
  obtain ⟨x, hx⟩ := h
  unfold Streams.modStreamW; rw [hx]; rfl

theorem setQ_counts' (s : Streams) (q : QName) (l : List Nat) : (s.setQ q l).counts = s.counts := by cases q <;> rfl

theorem modStream_counts (s : Streams) (k : Nat) (f : Stream → Stream) : (s.modStream k f).counts = s.counts := by
  unfold Streams.modStream; split
  · rfl
  · unfold Streams.panic; split <;> rfl

theorem live_setQ {s : Streams} {q : QName} {l : List Nat} {k : Nat} : Live (s.setQ q l) k ↔ Live s k := by
  unfold Live; rw [setQ_store]

theorem setQueued_inert (x : Stream) (q : QName) (v : Bool) (h : q ≠ .pendingCapacity) : Inert x (x.setQueued q v) := by
  cases q <;> first | exact ⟨rfl, rfl, rfl, rfl, fun h => h⟩ | exact absurd rfl h

theorem avOK_of_sameFlow {s s' : Streams}
    (h : ∀ y ∈ s'.store.slab, ∃ x ∈ s.store.slab, y.sendFlow = x.sendFlow) (ha : AvOK s) : AvOK s' := by
  intro y hy
  obtain ⟨x, hx, e⟩ := h y hy
  rw [e]; exact ha x hx

theorem avOK_modStream_flow {s : Streams} (k : Nat) (f : Stream → Stream) (hf : ∀ x, (f x).sendFlow = x.sendFlow)
    (ha : AvOK s) : AvOK (s.modStream k f) := by
  unfold Streams.modStream
  split
  · next st hst =>
    refine avOK_setStream _ ha ?_
    rw [hf]; exact ha _ (get?_mem hst)
  · unfold AvOK; rw [panic_store]; exact ha

theorem setQueued_flow (x : Stream) (q : QName) (v : Bool) : (x.setQueued q v).sendFlow = x.sendFlow := by cases q <;> rfl

theorem avOK_setQ {s : Streams} (q : QName) (l : List Nat) (ha : AvOK s) : AvOK (s.setQ q l) := by
  unfold AvOK; rw [setQ_store]; exact ha

-- ===================================================================== queues

theorem modStream_ids (s : Streams) (k : Nat) (f : Stream → Stream) : (s.modStream k f).store.ids = s.store.ids := by
  unfold Streams.modStream; split
  · rfl
  · rw [panic_store]

theorem setQueued_id (x : Stream) (q : QName) (v : Bool) : (x.setQueued q v).id = x.id := by cases q <;> rfl
theorem setQueued_ref (x : Stream) (q : QName) (v : Bool) : (x.setQueued q v).refCount = x.refCount := by cases q <;> rfl
theorem setQueued_key (x : Stream) (q : QName) (v : Bool) : (x.setQueued q v).key = x.key := by cases q <;> rfl

theorem qPush_spr {α : Type} {P : Stream → α} (s : Streams) (q : QName) (k : Nat) (h : ∀ x v, P (x.setQueued q v) = P x) :
    SPr P s (s.qPush q k).1 := by
  unfold Streams.qPush; split
  · exact .refl _ _
  · exact (SPr.modStream s k _ (fun x => setQueued_key x q true) (fun x => h x true)).trans (.of_store (setQ_store _ _ _))
theorem qPushFront_spr {α : Type} {P : Stream → α} (s : Streams) (q : QName) (k : Nat) (h : ∀ x v, P (x.setQueued q v) = P x) :
    SPr P s (s.qPushFront q k).1 := by
  unfold Streams.qPushFront; split
  · exact .refl _ _
  · exact (SPr.modStream s k _ (fun x => setQueued_key x q true) (fun x => h x true)).trans (.of_store (setQ_store _ _ _))
theorem qPop_spr {α : Type} {P : Stream → α} (s : Streams) (q : QName) (h : ∀ x v, P (x.setQueued q v) = P x) :
    SPr P s (s.qPop q).1 := by
  unfold Streams.qPop; split
  · exact .refl _ _
  · exact (SPr.of_store (setQ_store _ _ _)).trans (SPr.modStream _ _ _ (fun x => setQueued_key x q false) (fun x => h x false))

theorem qPush_ids (s : Streams) (q : QName) (k : Nat) : (s.qPush q k).1.store.ids = s.store.ids := by
  unfold Streams.qPush; split
  · rfl
  · dsimp only; rw [setQ_store, modStream_ids]
theorem qPushFront_ids (s : Streams) (q : QName) (k : Nat) : (s.qPushFront q k).1.store.ids = s.store.ids := by
  unfold Streams.qPushFront; split
  · rfl
  · dsimp only; rw [setQ_store, modStream_ids]
theorem qPop_ids (s : Streams) (q : QName) : (s.qPop q).1.store.ids = s.store.ids := by
  unfold Streams.qPop; split
  · rfl
  · dsimp only; rw [modStream_ids, setQ_store]

theorem qPush_lt (s : Streams) (q : QName) (k : Nat) : LT [k] s (s.qPush q k).1 := by
  refine ⟨SameKeys.qPush _ _ _, qPush_ids _ _ _, qPush_spr _ _ _ (fun x v => setQueued_id x q v),
    qPush_spr _ _ _ (fun x v => setQueued_ref x q v), ?_, ?_⟩
  · unfold Streams.qPush; split
    · exact ErrSame.refl _
    · dsimp only; unfold ErrSame; rw [setQ_counts', modStream_counts]; exact ⟨rfl, rfl⟩
  · intro hl hq
    have hk : Live s k := hl k (List.mem_cons_self ..)
    have hp : (s.qPush q k).1.panicked = none := by
      unfold Streams.qPush; split
      · exact hq.np
      · dsimp only; rw [setQ_panicked, modStream_panicked_live hk]; exact hq.np
    refine ⟨hp, (SameKeys.qPush _ _ _).keysOK hq.keys, ?_, ?_⟩
    · by_cases h : q = .pendingCapacity
      · subst h; exact QOK.qPush k hq.qc hp
      · exact (QF.qPush _ _ s k (fun e => h e.symm)).qok hq.qc
    · unfold Streams.qPush; split
      · exact hq.av
      · exact avOK_setQ _ _ (avOK_modStream_flow _ _ (fun x => setQueued_flow x q true) hq.av)

theorem qPushFront_lt (s : Streams) (q : QName) (k : Nat) : LT [k] s (s.qPushFront q k).1 := by
  refine ⟨SameKeys.qPushFront _ _ _, qPushFront_ids _ _ _, qPushFront_spr _ _ _ (fun x v => setQueued_id x q v),
    qPushFront_spr _ _ _ (fun x v => setQueued_ref x q v), ?_, ?_⟩
  · unfold Streams.qPushFront; split
    · exact ErrSame.refl _
    · dsimp only; unfold ErrSame; rw [setQ_counts', modStream_counts]; exact ⟨rfl, rfl⟩
  · intro hl hq
    have hk : Live s k := hl k (List.mem_cons_self ..)
    have hp : (s.qPushFront q k).1.panicked = none := by
      unfold Streams.qPushFront; split
      · exact hq.np
      · dsimp only; rw [setQ_panicked, modStream_panicked_live hk]; exact hq.np
    refine ⟨hp, (SameKeys.qPushFront _ _ _).keysOK hq.keys, ?_, ?_⟩
    · by_cases h : q = .pendingCapacity
      · subst h; exact QOK.qPushFront k hq.qc hp
      · exact (QF.qPushFront _ _ s k (fun e => h e.symm)).qok hq.qc
    · unfold Streams.qPushFront; split
      · exact hq.av
      · exact avOK_setQ _ _ (avOK_modStream_flow _ _ (fun x => setQueued_flow x q true) hq.av)

/-- the key popped from `pending_capacity` is live -/
theorem qPopCap_live {s : Streams} (hq : NPQ s) {s' : Streams} {id : Nat}
    (h : s.qPop .pendingCapacity = (s', some id)) : Live s id ∧ Live s' id := by
  unfold Streams.qPop at h
  split at h
  · cases h
  · next id' rest heq =>
    cases h
    obtain ⟨x, hx, _⟩ := (hq.qc.mem id).mp (by rw [heq]; exact List.mem_cons_self ..)
    refine ⟨⟨x, hx⟩, ?_⟩
    exact (SameKeys.modStream _ _ _).live.mpr (live_setQ.mpr ⟨x, hx⟩)

theorem qPopCap_lt (s : Streams) : LT [] s (s.qPop .pendingCapacity).1 := by
  refine ⟨SameKeys.qPop _ _, qPop_ids _ _, qPop_spr _ _ (fun x v => setQueued_id x _ v),
    qPop_spr _ _ (fun x v => setQueued_ref x _ v), ?_, ?_⟩
  · unfold Streams.qPop; split
    · exact ErrSame.refl _
    · dsimp only; unfold ErrSame; rw [modStream_counts, setQ_counts']; exact ⟨rfl, rfl⟩
  · intro _ hq
    have hp : (s.qPop .pendingCapacity).1.panicked = none := by
      unfold Streams.qPop; split
      · exact hq.np
      · next id rest heq =>
        dsimp only
        obtain ⟨x, hx, _⟩ := (hq.qc.mem id).mp (by rw [heq]; exact List.mem_cons_self ..)
        rw [modStream_panicked_live (live_setQ.mpr ⟨x, hx⟩), setQ_panicked]; exact hq.np
    refine ⟨hp, (SameKeys.qPop _ _).keysOK hq.keys, QOK.qPop hq.qc, ?_⟩
    unfold Streams.qPop; split
    · exact hq.av
    · exact avOK_modStream_flow _ _ (fun x => setQueued_flow x _ false) (avOK_setQ _ _ hq.av)

-- ===================================================================== `Inert` for the stream methods

macro "inert_fields" : tactic => `(tactic| with_reducible exact ⟨rfl, rfl, rfl, rfl, fun h => h⟩)

theorem notifySend_inert (x : Stream) : Inert x x.notifySend.1 := by
  unfold Stream.notifySend
  cases h1 : x.sendTask <;> cases h2 : x.openTask <;> simp only [h1, h2] <;> inert_fields
theorem notifyRecv_inert (x : Stream) : Inert x x.notifyRecv.1 := by
  unfold Stream.notifyRecv; split <;> inert_fields
theorem notifyPush_inert (x : Stream) : Inert x x.notifyPush.1 := by
  unfold Stream.notifyPush; split <;> inert_fields
theorem notifyCapacity_inert (x : Stream) : Inert x x.notifyCapacity.1 := by
  unfold Stream.notifyCapacity
  exact Inert.trans (b := { x with sendCapacityInc := true }) (by inert_fields) (notifySend_inert _)
theorem waitSend_inert (x : Stream) (t : String) : Inert x (x.waitSend t) := by unfold Stream.waitSend; inert_fields
theorem waitOpen_inert (x : Stream) (t : String) : Inert x (x.waitOpen t) := by unfold Stream.waitOpen; inert_fields
theorem setReset_inert (x : Stream) (r : Reason) (i : Initiator) : Inert x (x.setReset r i).1 := by
  unfold Stream.setReset
  simp only []
  refine Inert.trans (b := { x with state := x.state.setReset x.id r i }) (by inert_fields) ?_
  exact (notifySend_inert _).trans ((notifyPush_inert _).trans (notifyRecv_inert _))

/-- `i32` arithmetic of the flow-control methods keeps `available` an `i32` -/
theorem decreaseBy_le (w : Window) (n : Nat) (h : w.val ≤ 2147483647) : (w.decreaseBy n).1.val ≤ 2147483647 := by
  unfold Window.decreaseBy checkedSub
  split
  · next v hv =>
    split at hv
    · next hi => cases hv; simp [inI32, I32_MAX] at hi; exact of_decide_eq_true hi.2
    · cases hv
  · exact h
theorem increaseBy_le (w : Window) (n : Nat) (h : w.val ≤ 2147483647) : (w.increaseBy n).1.val ≤ 2147483647 := by
  unfold Window.increaseBy Window.add checkedAdd
  split
  · next w' hw =>
    split at hw
    · next v hv =>
      split at hv
      · next hi => cases hv; cases hw; simp [inI32, I32_MAX] at hi; exact of_decide_eq_true hi.2
      · cases hv
    · cases hw
  · exact h
theorem claimCapacity_le (f : FlowControl) (n : Nat) (h : f.available.val ≤ 2147483647) :
    (f.claimCapacity n).1.available.val ≤ 2147483647 := by
  unfold FlowControl.claimCapacity; exact decreaseBy_le _ _ h
theorem assignCapacity_le (f : FlowControl) (n : Nat) (h : f.available.val ≤ 2147483647) :
    (f.assignCapacity n).1.available.val ≤ 2147483647 := by
  unfold FlowControl.assignCapacity; exact increaseBy_le _ _ h

theorem setSendFlow_inert (x : Stream) (fl : FlowControl)
    (h : x.sendFlow.available.val ≤ 2147483647 → fl.available.val ≤ 2147483647) : Inert x { x with sendFlow := fl } :=
  ⟨rfl, rfl, rfl, rfl, h⟩

theorem assignCapacity_inert (x : Stream) (a b : Nat) : Inert x (x.assignCapacity a b).1 := by
  unfold Stream.assignCapacity; simp only []; split
  · exact Inert.trans (b := { x with sendFlow := (x.sendFlow.assignCapacity a).1 })
      (setSendFlow_inert _ _ (assignCapacity_le _ _)) (notifyCapacity_inert _)
  · exact setSendFlow_inert _ _ (assignCapacity_le _ _)

/-- proves `Inert x (… x …)` -/
macro "inert_tac" : tactic => `(tactic| with_reducible first
  | exact ⟨rfl, rfl, rfl, rfl, fun h => h⟩
  | exact notifySend_inert _ | exact notifyRecv_inert _ | exact notifyPush_inert _ | exact notifyCapacity_inert _
  | exact assignCapacity_inert _ _ _ | exact waitSend_inert _ _ | exact waitOpen_inert _ _
  | exact setReset_inert _ _ _
  | exact setSendFlow_inert _ _ (claimCapacity_le _ _)
  | exact setSendFlow_inert _ _ (assignCapacity_le _ _))

-- ===================================================================== the peeling tactic

/-- side conditions of the building-block lemmas -/
syntax "lt_side" : tactic
macro_rules | `(tactic| lt_side) => `(tactic| (intro _; rfl))
macro_rules | `(tactic| lt_side) => `(tactic| (intro _; inert_tac))
macro_rules | `(tactic| lt_side) => `(tactic| exact ⟨rfl, rfl⟩)
macro_rules | `(tactic| lt_side) => `(tactic| assumption)
/-- `∀ k ∈ ks', k ∈ ks` -/
macro "lt_sub" : tactic => `(tactic| first
  | exact (fun _ h => h)
  | (intro _ hk; exact absurd hk List.not_mem_nil)
  | (intro x hx; simp only [List.mem_cons, List.mem_nil_iff, or_false, List.not_mem_nil, List.mem_singleton] at hx ⊢; omega))
macro_rules | `(tactic| lt_side) => `(tactic| lt_sub)

open Lean Elab Tactic Meta in
/-- goal `LT ks s0 (f … s …)` (possibly under `.1`): peel `f` with the lemma `f_lt` found by name -/
elab "lt_head" : tactic => withMainContext do
  let g ← getMainGoal
  let t ← instantiateMVars (← g.getType)
  let t := t.cleanupAnnotations
  unless t.isAppOfArity ``LT 3 do throwError "lt_head: not an LT goal"
  let e := t.appArg!
  let rec headOf (e : Expr) (fuel : Nat) : Option Name :=
    match fuel with
    | 0 => none
    | fuel + 1 =>
      match e with
      | .proj _ _ b => headOf b fuel
      | .mdata _ b => headOf b fuel
      | _ =>
        match e.getAppFn with
        | .const n _ =>
          if n == ``Prod.fst || n == ``Prod.snd then
            match e.getAppArgs.back? with
            | some a =>
              if a.isAppOfArity ``Prod.mk 4 then
                headOf (if n == ``Prod.fst then a.getAppArgs[2]! else a.getAppArgs[3]!) fuel
              else headOf a fuel
            | none => none
          else some n
        | _ => none
  match headOf e 8 with
  | none => throwError "lt_head: no head constant"
  | some n =>
    if n == ``Streams.mk then
      evalTactic (← `(tactic| first
        | with_reducible refine LT.trans (ks' := []) ?_ (setMisc_lt _ _ _ _ _ _ rfl) (fun _ h => absurd h List.not_mem_nil)
        | with_reducible refine LT.trans (ks' := []) ?_ (setCounts_lt _ _ ?_) (fun _ h => absurd h List.not_mem_nil)))
    else
    let last := match n with
      | .str _ s => s
      | _ => "?"
    let lemmaName := (`H2V.Lemmas.ConnNoPanicP).str (last ++ "_lt")
    unless (← getEnv).contains lemmaName do throwError "lt_head: no lemma {lemmaName}"
    let gs ← g.apply (← mkConstWithFreshMVarLevels ``LT.trans)
    -- goals: LT ks a b, LT ks' b c, subset (+ possibly instantiated mvars)
    let mut ltGoals : List MVarId := []
    let mut others : List MVarId := []
    for m in gs do
      let ty ← instantiateMVars (← m.getType)
      if ty.cleanupAnnotations.isAppOfArity ``LT 3 then ltGoals := ltGoals ++ [m]
      else
        -- keep only proposition goals (the subset side condition)
        if (← isProp ty) then others := others ++ [m]
    match ltGoals with
    | [g1, g2] =>
      let side ← withReducible (g2.apply (← mkConstWithFreshMVarLevels lemmaName))
      replaceMainGoal (g1 :: side ++ others)
    | _ => throwError "lt_head: unexpected goals after LT.trans"

/-- one step on an `LT` goal (alternatives are tried bottom-up) -/
syntax "lt_step" : tactic
macro_rules | `(tactic| lt_step) => `(tactic| lt_head)
macro_rules | `(tactic| lt_step) => `(tactic| with_reducible refine LT.of_fst_eq (by with_reducible assumption) ?_)
macro_rules | `(tactic| lt_step) => `(tactic| with_reducible assumption)
macro_rules | `(tactic| lt_step) => `(tactic| with_reducible exact LT.refl _ _)

macro "lt_auto" : tactic => `(tactic| repeat (first | lt_step | lt_side | intro _ | split | dsimp only))
macro "lt_auto_ih" ih:ident : tactic =>
  `(tactic| repeat (first | lt_step | with_reducible refine LT.trans ?_ ($ih ..) ?_ | lt_side | intro _ | split | dsimp only))

end H2V.Lemmas.ConnNoPanicP
