import H2V.Lemmas.ConnNoPanicPPushInvBackIns
import H2V.Lemmas.ConnNoPanicPPushInvBackWrite
/-
  C08 (no panic) — PUSH_PROMISE bookkeeping, stage 2, part 16: `PRH` along every operation of ConnResetP's `Op`
  except `recv_push_promise` (ConnNoPanicPPushInvBackRecv).
-/
namespace H2V.Lemmas.ConnNoPanicP
open H2V H2V.Model H2V.Model.Conn H2V.Lemmas.ConnCountsP
open H2V.Lemmas.ConnResetP (Op run)
attribute [local irreducible] wrapSubU32 wrapSubUsize

/-- the stream whose `ref_count` / `pending_recv` an operation may lower / pop: the handle it is called through -/
def popKey : Op → Option Nat
  | .cloneStreamRef k => some k
  | .dropStreamRef k => some k
  | .recvTakeRequest k => some k
  | .recvPollResponse _ k _ => some k
  | .recvPollInformational k _ => some k
  | .refPollData k _ => some k
  | .recvPollTrailers k _ => some k
  | .refClearRecvBuffer k => some k
  | _ => none

/-- every operation but `recv_push_promise` is a backward frame, given that the stream of the handle it is called
    through is not held -/
theorem op_hb {s : Streams} (hk : KeysOK s) (op : Op) (hne : ∀ id h, op ≠ .recvPushPromise id h)
    (hkey : ∀ k, popKey op = some k → ¬ Held s k) : HB s (op.apply s) := by
  cases op <;> simp only [Op.apply]
  case recvPushPromise id h => exact absurd rfl (hne id h)
  case dropStreamRef k => exact dropStreamRef_hb s k (hkey k rfl)
  case cloneStreamRef k => exact cloneStreamRef_hb s k (hkey k rfl)
  case recvTakeRequest k => exact recvTakeRequest_hb s k (hkey k rfl)
  case recvPollResponse fuel k t => exact recvPollResponse_hb fuel s k t (hkey k rfl)
  case recvPollInformational k t => exact recvPollInformational_hb s k t (hkey k rfl)
  case refPollData k t => exact refPollData_hb s k t (hkey k rfl)
  case recvPollTrailers k t => exact recvPollTrailers_hb s k t (hkey k rfl)
  case refClearRecvBuffer k => exact refClearRecvBuffer_hb s k (hkey k rfl)
  case recvHeaders h => exact recvHeaders_hb s h
  case recvData id p eos pad => exact recvData_hb s id p eos pad
  case recvReset id r => exact recvReset_hb s id r
  case recvWindowUpdate id inc => exact recvWindowUpdate_hb s id inc
  case handleError e => exact handleError_hb s e
  case recvGoAwayFrame l r d => exact recvGoAwayFrame_hb s l r d
  case recvGoAway l => exact recvGoAway_hb s l
  case recvEof b => exact recvEof_hb s b
  case innerSendReset id r => exact innerSendReset_hb s id r
  case setTargetConnectionWindow t => exact setTargetConnectionWindow_hb s t
  case applyRemoteSettings v b => exact applyRemoteSettings_hb s v b
  case applyLocalSettingsFrame v => exact applyLocalSettingsFrame_hb s v
  case pollComplete fuel w io tag => exact pollComplete_hb fuel s w io tag
  case pollSendPendingRefusal fuel w io tag => exact pollSendPendingRefusal_hb fuel s w io tag
  case clearExpiredResetStreams fuel => exact clearExpiredResetStreams_hb fuel s
  case wake t => exact wake_hb s t
  case clearWakes => exact HB.of_store (s' := { s with wakes := [] }) rfl rfl
  case panic m => exact panic_hb s m
  case cloneHandle => exact cloneHandle_hb s
  case dropHandle => exact dropHandle_hb s
  case sendRequest a b c d => exact sendRequest_hb hk a b c d
  case pollPendingOpen p t => exact pollPendingOpen_hb s p t
  case nextIncoming => exact nextIncoming_hb s
  case refSendResponse k f eos => exact refSendResponse_hb s k f eos
  case refSendInformationalHeaders k f => exact refSendInformationalHeaders_hb s k f
  case refSendPushPromise p v f => exact refSendPushPromise_hb hk p v f
  case refSendData k len eos => exact refSendData_hb s k len eos
  case refSendTrailers k f => exact refSendTrailers_hb s k f
  case refReserveCapacity k c => exact refReserveCapacity_hb s k c
  case pollCapacity k t => exact pollCapacity_hb s k t
  case refSendReset k r => exact refSendReset_hb s k r
  case pollReset k m t => exact pollReset_hb s k m t
  case refReleaseCapacity k c => exact refReleaseCapacity_hb s k c

/-- **`PRH` is kept by every operation but `recv_push_promise`**, given the handle discipline: the stream of the handle
    the operation is called through has `ref_count > 0` (`HOK` of ConnNoPanicPHist for the keys of `popKey`) -/
theorem PRH_step {s : Streams} (hk : KeysOK s) (hp : PRH s) (op : Op) (hne : ∀ id h, op ≠ .recvPushPromise id h)
    (hkey : ∀ k, popKey op = some k → (s.stream k).refCount > 0) : PRH (op.apply s) :=
  hp.step (op_hb hk op hne (fun k hk' => hp.not_held (hkey k hk')))

end H2V.Lemmas.ConnNoPanicP
