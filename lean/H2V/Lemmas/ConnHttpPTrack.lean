import H2V.Lemmas.ConnHttpPLoad
/-
  C13 (ConnHttpP), part 3 — `track` (what a clean run of `HeaderBlock::load`'s callback has checked
  and stored) against the reference predicates of `H2V.Spec.Http`: pure list reasoning.
-/
namespace H2V.Lemmas.ConnHttpP
open H2V H2V.Model H2V.Model.Frame H2V.Model.Hpack

/-- what the HPACK layer guarantees about every decoded field (`Header::new` / `Name::into_entry`):
    a well-formed lower-case name, no pseudo-header name other than the six known ones, and a
    three-digit `:status` -/
def fieldOk (f : Header) : Bool :=
  Spec.Http.nameOk f.1 && (!Spec.Http.isPseudo f || Spec.Http.knownPseudo.contains f.1) &&
  (f.1 != pStatus || Spec.Http.statusOk f.2)

def known : List Bytes := [pMethod, pScheme, pAuthority, pPath, pStatus, pProtocol]

/-- the values of the fields named `n`, in wire order (`Spec.Http.get` on a byte-string name) -/
def vals (fs : List Header) (n : Bytes) : List Bytes := (fs.filter (·.1 == n)).map (·.2)

theorem get_eq_vals (fs : List Header) (s : String) : Spec.Http.get fs s = vals fs (Spec.Http.ascii s) := rfl

theorem known_head (n : Bytes) (h : n ∈ known) : n.head? = some 58 := by
  simp only [known, List.mem_cons, List.not_mem_nil, or_false] at h
  rcases h with rfl | rfl | rfl | rfl | rfl | rfl <;> rfl

theorem getPseudo_empty (n : Bytes) : getPseudo {} n = none := by
  unfold getPseudo; repeat' split
  all_goals rfl

theorem getPseudo_setPseudo (p : Pseudo) (a b v : Bytes) (ha : a ∈ known) (hb : b ∈ known) :
    getPseudo (setPseudo p a v) b = if b = a then some v else getPseudo p b := by
  simp only [known, List.mem_cons, List.not_mem_nil, or_false] at ha hb
  rcases ha with rfl | rfl | rfl | rfl | rfl | rfl <;> rcases hb with rfl | rfl | rfl | rfl | rfl | rfl <;>
    simp [getPseudo, setPseudo, pMethod, pScheme, pAuthority, pPath, pStatus, pProtocol]


theorem fieldOk_iff (f : Header) : fieldOk f = true ↔
    Spec.Http.nameOk f.1 = true ∧ (Spec.Http.isPseudo f = true → Spec.Http.knownPseudo.contains f.1 = true) ∧
    (f.1 = pStatus → Spec.Http.statusOk f.2 = true) := by
  unfold fieldOk
  cases Spec.Http.nameOk f.1 <;> cases Spec.Http.isPseudo f <;> cases Spec.Http.knownPseudo.contains f.1 <;>
    cases Spec.Http.statusOk f.2 <;> by_cases e : f.1 = pStatus <;> simp [e]

theorem fieldOk_pseudo (f : Header) (hf : fieldOk f = true) (hp : f.1.head? = some 58) : f.1 ∈ known := by
  have := ((fieldOk_iff f).mp hf).2.1 (by simp [Spec.Http.isPseudo, hp])
  rw [knownPseudo_eq] at this
  simpa [known] using this

theorem trackStep_some (st st1 : TSt) (h : Header) (hs : trackStep st h = some st1) :
    (h.1.head? = some 58 ∧ st.1 = false ∧ getPseudo st.2.1 h.1 = none ∧
      st1 = (false, setPseudo st.2.1 h.1 h.2, st.2.2)) ∨
    (h.1.head? ≠ some 58 ∧ connHeaders.contains h.1 = false ∧ (h.1 = Http.str "te" → h.2 = Http.str "trailers") ∧
      st1 = (true, st.2.1, appendField st.2.2 h.1 h.2)) := by
  unfold trackStep at hs
  by_cases hp : h.1.head? = some 58
  · rw [if_pos hp] at hs
    split at hs
    · rename_i hc
      exact Or.inl ⟨hp, hc.1, hc.2, (Option.some.inj hs).symm⟩
    · cases hs
  · rw [if_neg hp] at hs
    split at hs
    · cases hs
    · rename_i hc
      have hc := not_or.mp hc
      refine Or.inr ⟨hp, by simpa using hc.1, fun e => ?_, (Option.some.inj hs).symm⟩
      exact Decidable.byContradiction fun hne => hc.2 ⟨e, hne⟩

theorem vals_cons (h : Header) (fs : List Header) (n : Bytes) :
    vals (h :: fs) n = if h.1 = n then h.2 :: vals fs n else vals fs n := by
  unfold vals
  by_cases e : h.1 = n
  · simp [e]
  · simp [e]

/-- pseudo-header bookkeeping of a clean run: every known pseudo name occurs at most once, and the
    block holds exactly that occurrence -/
theorem track_pseudo : ∀ (fs : List Header) (st st' : TSt), track fs st = some st' →
    (∀ f ∈ fs, fieldOk f = true) → ∀ n ∈ known,
    (vals fs n = [] ∧ getPseudo st'.2.1 n = getPseudo st.2.1 n) ∨
    (getPseudo st.2.1 n = none ∧ ∃ v, vals fs n = [v] ∧ getPseudo st'.2.1 n = some v)
  | [], st, st', ht, _, n, _ => by
    simp only [track, Option.some.injEq] at ht
    subst ht
    exact Or.inl ⟨rfl, rfl⟩
  | h :: rest, st, st', ht, hok, n, hn => by
    unfold track at ht
    split at ht
    · cases ht
    · rename_i st1 hs
      have ih := track_pseudo rest st1 st' ht (fun f hf => hok f (List.mem_cons_of_mem _ hf)) n hn
      rw [vals_cons]
      rcases trackStep_some st st1 h hs with ⟨hp, -, hg, rfl⟩ | ⟨hp, -, -, rfl⟩
      · have hk := fieldOk_pseudo h (hok h (List.mem_cons_self ..)) hp
        simp only [getPseudo_setPseudo _ _ _ _ hk hn] at ih
        by_cases e : h.1 = n
        · subst e
          simp only [if_true] at ih ⊢
          rcases ih with ⟨i1, i2⟩ | ⟨i1, -⟩
          · exact Or.inr ⟨hg, h.2, by rw [i1], i2⟩
          · cases i1
        · rw [if_neg e]
          rw [if_neg (fun x => e x.symm)] at ih
          exact ih
      · have e : h.1 ≠ n := fun x => hp (x ▸ known_head n hn)
        rw [if_neg e]
        exact ih

/-- a clean run has seen no pseudo-header field behind a regular one -/
theorem track_order : ∀ (fs : List Header) (st st' : TSt), track fs st = some st' →
    Spec.Http.pseudoAfterRegular fs st.1 = false
  | [], _, _, _ => rfl
  | h :: rest, st, st', ht => by
    unfold track at ht
    split at ht
    · cases ht
    · rename_i st1 hs
      have ih := track_order rest st1 st' ht
      unfold Spec.Http.pseudoAfterRegular Spec.Http.isPseudo
      rcases trackStep_some st st1 h hs with ⟨hp, hr, -, rfl⟩ | ⟨hp, -, -, rfl⟩
      · simp only [hp, beq_self_eq_true, if_true, hr, Bool.false_or]
        rw [hr] at *
        exact ih
      · have : (h.1.head? == some 58) = false := by simpa using hp
        simp only [this, Bool.false_eq_true, if_false]
        exact ih

/-- a clean run has seen no connection-specific field and no `te` other than `trailers` -/
theorem track_regular : ∀ (fs : List Header) (st st' : TSt), track fs st = some st' →
    ∀ f ∈ fs, Spec.Http.connectionSpecific.contains f.1 = false ∧
      (f.1 = Spec.Http.ascii "te" → f.2 = Spec.Http.ascii "trailers")
  | [], _, _, _, f, hf => by cases hf
  | h :: rest, st, st', ht, f, hf => by
    unfold track at ht
    split at ht
    · cases ht
    · rename_i st1 hs
      rcases List.mem_cons.mp hf with rfl | hf'
      · rcases trackStep_some st st1 f hs with ⟨hp, -, -, -⟩ | ⟨-, hc, hte, -⟩
        · constructor
          · rw [connectionSpecific_eq]
            obtain ⟨n, v⟩ := f
            cases n with
            | nil => cases hp
            | cons a t =>
              simp only [List.head?_cons, Option.some.injEq] at hp
              subst hp
              simp
          · intro e; rw [e] at hp; cases hp
        · rw [← connHeaders_contains]
          rw [str_te, str_trailers] at hte
          rw [ascii_te, ascii_trailers]
          exact ⟨hc, hte⟩
      · exact track_regular rest st1 st' ht f hf'


/-- `HeaderMap` built by appending the fields of `l` one by one -/
def groupInto (acc : List (Bytes × List Bytes)) (l : List Header) : List (Bytes × List Bytes) :=
  l.foldl (fun a h => appendField a h.1 h.2) acc

/-- the regular (non-pseudo) fields of a list, in wire order -/
def regular (fs : List Header) : List Header := fs.filter fun f => !(f.1.head? == some 58)

/-- a clean run stores the regular fields in wire order, grouped by name -/
theorem track_fields : ∀ (fs : List Header) (st st' : TSt), track fs st = some st' →
    st'.2.2 = groupInto st.2.2 (regular fs)
  | [], st, st', ht => by
    simp only [track, Option.some.injEq] at ht
    subst ht; rfl
  | h :: rest, st, st', ht => by
    unfold track at ht
    split at ht
    · cases ht
    · rename_i st1 hs
      have ih := track_fields rest st1 st' ht
      rcases trackStep_some st st1 h hs with ⟨hp, -, -, rfl⟩ | ⟨hp, -, -, rfl⟩
      · rw [ih]; unfold regular
        simp [hp]
      · rw [ih]; unfold regular groupInto
        simp [hp]

theorem any_false_of {α} (l : List α) (p : α → Bool) (h : ∀ x ∈ l, p x = false) : l.any p = false := by
  induction l with
  | nil => rfl
  | cons a t ih =>
    simp only [List.any_cons, h a (List.mem_cons_self ..), Bool.false_or]
    exact ih fun x hx => h x (List.mem_cons_of_mem _ hx)

/-- **the rules common to every header section**: a block whose fields passed the HPACK layer and
    went through the callback without raising a flag violates none of them -/
theorem track_common (fs : List Header) (st' : TSt) (ht : track fs (false, {}, []) = some st')
    (hok : ∀ f ∈ fs, fieldOk f = true) : Spec.Http.common fs = [] := by
  have hreg := track_regular fs _ _ ht
  have hord := track_order fs _ _ ht
  have hps := track_pseudo fs _ _ ht hok
  have c1 : fs.any (fun f => !Spec.Http.nameOk f.1) = false := any_false_of _ _ fun f hf => by
    simp [((fieldOk_iff f).mp (hok f hf)).1]
  have c2 : fs.any (fun f => Spec.Http.connectionSpecific.contains f.1) = false :=
    any_false_of _ _ fun f hf => (hreg f hf).1
  have c3 : (Spec.Http.get fs "te").any (· != Spec.Http.ascii "trailers") = false := by
    rw [get_eq_vals]
    unfold vals
    refine any_false_of _ _ fun v hv => ?_
    obtain ⟨f, hf, rfl⟩ := List.mem_map.mp hv
    have hf' := List.mem_filter.mp hf
    have := (hreg f hf'.1).2 (by simpa using hf'.2)
    simp [this]
  have c4 : fs.any (fun f => Spec.Http.isPseudo f && !Spec.Http.knownPseudo.contains f.1) = false :=
    any_false_of _ _ fun f hf => by
      have := ((fieldOk_iff f).mp (hok f hf)).2.1
      cases h : Spec.Http.isPseudo f
      · rfl
      · rw [this h]; rfl
  have c5 : Spec.Http.dupPseudo fs = false := by
    unfold Spec.Http.dupPseudo
    rw [knownPseudo_eq]
    refine any_false_of _ _ fun n hn => ?_
    have hl : (fs.filter (·.1 == n)).length = (vals fs n).length := by simp [vals]
    rw [hl]
    rcases hps n hn with ⟨e, -⟩ | ⟨-, v, e, -⟩ <;> simp [e]
  unfold Spec.Http.common
  simp only [c1, c2, c3, c4, c5, hord, Bool.false_eq_true, if_false, List.append_nil]

/-- … and its pseudo-header part holds, for each of the six names, exactly the field list's values -/
theorem track_vals (fs : List Header) (st' : TSt) (ht : track fs (false, {}, []) = some st')
    (hok : ∀ f ∈ fs, fieldOk f = true) (n : Bytes) (hn : n ∈ known) :
    vals fs n = (getPseudo st'.2.1 n).toList := by
  rcases track_pseudo fs _ _ ht hok n hn with ⟨e, g⟩ | ⟨-, v, e, g⟩
  · rw [e, g, getPseudo_empty]; rfl
  · rw [e, g]; rfl

end H2V.Lemmas.ConnHttpP
