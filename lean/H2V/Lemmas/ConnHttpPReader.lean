import H2V.Lemmas.ConnHttpPBlock
/-
  C13 (ConnHttpP), part 7 — `decode_frame`: over any sequence of frames, the header block a HEADERS /
  PUSH_PROMISE frame is delivered with stands for the concatenation of the field lists HPACK decoded
  from its fragments (a ghost list carried next to the reader), all of them `fieldOk`.
-/
namespace H2V.Lemmas.ConnHttpP
open H2V H2V.Model H2V.Model.Frame H2V.Model.Hpack H2V.Model.CodecRead

/-- ghost: the fields decoded so far for the header block in progress, after `decodeFrame r bytes` -/
def ghostNext (g : List Header) (r : Reader) (bytes : Bytes) : List Header :=
  let head := Head.parse bytes
  let payload := bytes.drop 9
  if r.partialBlk.isSome ∧ head.kind ≠ 9 then g
  else match head.kind with
    | 1 => match loadHeadersHead head payload with
      | .ok (_, _, _, _, frag) => loadedFields r.hpack frag
      | .error _ => g
    | 5 => match loadPushPromiseHead head payload with
      | .ok (_, _, _, frag) => loadedFields r.hpack frag
      | .error _ => g
    | 9 => match r.partialBlk with
      | some p => g ++ loadedFields r.hpack.continueBlock (p.buf ++ payload)
      | none => g
    | _ => g

/-- the reader invariant: the dynamic table holds accepted fields only, and the partial block stands
    for the ghost list -/
structure RInv (r : Reader) (g : List Header) : Prop where
  table : TableOk r.hpack.table
  part : ∀ p, r.partialBlk = some p → BlockInv p.frame.blk g ∧ ∀ f ∈ g, fieldOk f = true

/-- the block of a delivered header frame -/
def dfBlock : DF → Option HeaderBlock
  | .frame (.headers _ _ _ blk) => some blk
  | .frame (.pushPromise _ _ blk) => some blk
  | _ => none

theorem afterHpack_cases (r : Reader) (c : Continuable) (tail : Bytes) (count : Nat) (eh : Bool) (sid : Nat)
    (res : Except FErr Unit) :
    (afterHpack r c tail count eh sid res).1.hpack = r.hpack ∧
    ((afterHpack r c tail count eh sid res).1.partialBlk = none ∨
      ((afterHpack r c tail count eh sid res).1.partialBlk = some { frame := c, buf := tail, count := count } ∧
        res ≠ .error .headerListWayTooLarge)) ∧
    (∀ b, dfBlock (afterHpack r c tail count eh sid res).2 = some b → b = c.blk ∧ res = .ok ()) := by
  unfold afterHpack
  cases res with
  | ok u =>
    cases eh
    · exact ⟨rfl, Or.inr ⟨rfl, by simp⟩, fun b hb => by cases hb⟩
    · refine ⟨rfl, Or.inl rfl, fun b hb => ?_⟩
      cases c <;> (simp only [if_true, Continuable.toFrame, dfBlock, Option.some.injEq] at hb; exact ⟨hb.symm, rfl⟩)
  | error e =>
    cases e with
    | hpack e =>
      simp only
      split
      · rename_i hc
        have : eh = false := by simpa using hc.2
        subst this
        exact ⟨rfl, Or.inr ⟨rfl, by simp⟩, fun b hb => by cases hb⟩
      · exact ⟨rfl, Or.inl rfl, fun b hb => by cases hb⟩
    | _ => exact ⟨rfl, Or.inl rfl, fun b hb => by cases hb⟩


/-- `load_hpack` followed by the `header_block!` tail, for a first frame (`b = {}`, `g0 = []`) or a
    CONTINUATION (`b` = the partial block, `g0` = the ghost list) -/
theorem load_after (r : Reader) (b : HeaderBlock) (g0 : List Header) (src : Bytes) (dec : Decoder)
    (mk : HeaderBlock → Continuable) (hmk : ∀ x, (mk x).blk = x) (cnt : Nat) (eh : Bool) (sid : Nat)
    (ht : TableOk dec.table) (hb : BlockInv b g0) (hg : ∀ f ∈ g0, fieldOk f = true)
    (out : Reader × DF)
    (ho : out = afterHpack { r with hpack := (HeaderBlock.load b src r.maxHeaderListSize dec).2.1 }
      (mk (HeaderBlock.load b src r.maxHeaderListSize dec).1) (HeaderBlock.load b src r.maxHeaderListSize dec).2.2.1
      cnt eh sid (HeaderBlock.load b src r.maxHeaderListSize dec).2.2.2) :
    RInv out.1 (g0 ++ loadedFields dec src) ∧
    ∀ blk, dfBlock out.2 = some blk → blk.isMalformed = false ∧ BlockInv blk (g0 ++ loadedFields dec src) ∧
      ∀ f ∈ g0 ++ loadedFields dec src, fieldOk f = true := by
  subst ho
  obtain ⟨a1, a2, a3⟩ := afterHpack_cases { r with hpack := (HeaderBlock.load b src r.maxHeaderListSize dec).2.1 }
    (mk (HeaderBlock.load b src r.maxHeaderListSize dec).1) (HeaderBlock.load b src r.maxHeaderListSize dec).2.2.1
    cnt eh sid (HeaderBlock.load b src r.maxHeaderListSize dec).2.2.2
  obtain ⟨d1, d2⟩ := decode_ok dec src ht
  have hall : ∀ f ∈ g0 ++ loadedFields dec src, fieldOk f = true := fun f hf => by
    rcases List.mem_append.mp hf with h | h
    · exact hg f h
    · exact d2 f h
  refine ⟨⟨?_, fun p hp => ?_⟩, fun blk hblk => ?_⟩
  · rw [a1]
    simp only [load_eq]
    exact d1
  · rcases a2 with a2 | ⟨a2, hw⟩
    · rw [a2] at hp; cases hp
    · rw [a2] at hp
      cases hp
      simp only [hmk]
      exact ⟨load_inv b g0 src _ dec hb hw, hall⟩
  · obtain ⟨e1, e2⟩ := a3 blk hblk
    rw [hmk] at e1
    subst e1
    exact ⟨load_ok_not_malformed _ _ _ _ e2, load_inv b g0 src _ dec hb (by rw [e2]; simp), hall⟩

theorem rinv_same (r r' : Reader) (g : List Header) (hi : RInv r g) (h1 : r'.hpack = r.hpack)
    (h2 : r'.partialBlk = r.partialBlk) : RInv r' g :=
  ⟨by rw [h1]; exact hi.table, fun p hp => hi.part p (by rw [← h2]; exact hp)⟩

theorem rinv_drop (r r' : Reader) (g g' : List Header) (hi : RInv r g) (h1 : r'.hpack = r.hpack)
    (h2 : r'.partialBlk = none) : RInv r' g' :=
  ⟨by rw [h1]; exact hi.table, fun p hp => by rw [h2] at hp; cases hp⟩

theorem nb_settings (h : Head) (p : Bytes) (f : Frame) (hl : loadSettings h p = .ok f) : dfBlock (.frame f) = none := by
  unfold loadSettings at hl
  repeat' split at hl
  all_goals (cases hl; try rfl)
theorem nb_ping (h : Head) (p : Bytes) (f : Frame) (hl : loadPing h p = .ok f) : dfBlock (.frame f) = none := by
  unfold loadPing at hl
  repeat' split at hl
  all_goals (cases hl; try rfl)
theorem nb_wu (h : Head) (p : Bytes) (f : Frame) (hl : loadWindowUpdate h p = .ok f) : dfBlock (.frame f) = none := by
  unfold loadWindowUpdate at hl
  simp only at hl
  repeat' split at hl
  all_goals (cases hl; try rfl)
theorem nb_data (h : Head) (p : Bytes) (f : Frame) (hl : loadData h p = .ok f) : dfBlock (.frame f) = none := by
  unfold loadData at hl
  simp only at hl
  repeat' split at hl
  all_goals (cases hl; try rfl)
theorem nb_reset (h : Head) (p : Bytes) (f : Frame) (hl : loadReset h p = .ok f) : dfBlock (.frame f) = none := by
  unfold loadReset at hl
  repeat' split at hl
  all_goals (cases hl; try rfl)
theorem nb_goaway (p : Bytes) (f : Frame) (hl : loadGoAway p = .ok f) : dfBlock (.frame f) = none := by
  unfold loadGoAway at hl
  repeat' split at hl
  all_goals (cases hl; try rfl)
theorem nb_priority (h : Head) (p : Bytes) (f : Frame) (hl : loadPriority h p = .ok f) : dfBlock (.frame f) = none := by
  unfold loadPriority at hl
  simp only at hl
  repeat' split at hl
  all_goals (cases hl; try rfl)

/-- the `simple` arms of `decode_frame`: reader untouched, no header block delivered -/
theorem simple_arm (r : Reader) (g : List Header) (x : Except FErr Frame) (hi : RInv r g)
    (hx : ∀ f, x = .ok f → dfBlock (.frame f) = none) (P : HeaderBlock → Prop) :
    RInv (match x with | .ok f => (r, DF.frame f) | .error _ => (r, connErr)).1 g ∧
    ∀ blk, dfBlock (match x with | .ok f => (r, DF.frame f) | .error _ => (r, connErr)).2 = some blk → P blk := by
  cases x with
  | ok f => exact ⟨hi, fun blk hb => by simp only at hb; rw [hx f rfl] at hb; cases hb⟩
  | error e => exact ⟨hi, fun blk hb => by cases hb⟩

/-- **`decode_frame` keeps the reader invariant, and a header block it delivers is unflagged and stands
    for the ghost list** — for every reader state, every frame -/
theorem decodeFrame_inv (r : Reader) (g : List Header) (bytes : Bytes) (hi : RInv r g) :
    RInv (decodeFrame r bytes).1 (ghostNext g r bytes) ∧
    ∀ blk, dfBlock (decodeFrame r bytes).2 = some blk →
      blk.isMalformed = false ∧ BlockInv blk (ghostNext g r bytes) ∧ ∀ f ∈ ghostNext g r bytes, fieldOk f = true := by
  unfold decodeFrame ghostNext
  simp only
  by_cases hp : r.partialBlk.isSome = true ∧ (Head.parse bytes).kind ≠ 9
  · simp only [if_pos hp]
    exact ⟨hi, fun blk hb => by cases hb⟩
  · simp only [if_neg hp]
    split
    · rename_i hk; simp only [hk]; exact simple_arm r g _ hi (nb_settings _ _) _
    · rename_i hk; simp only [hk]; exact simple_arm r g _ hi (nb_ping _ _) _
    · rename_i hk; simp only [hk]; exact simple_arm r g _ hi (nb_wu _ _) _
    · rename_i hk; simp only [hk]; exact simple_arm r g _ hi (nb_data _ _) _
    · rename_i hk; simp only [hk]; exact simple_arm r g _ hi (nb_reset _ _) _
    · rename_i hk; simp only [hk]
      split
      · exact ⟨hi, fun blk hb => by cases hb⟩
      · exact simple_arm r g _ hi (nb_goaway _) _
    · -- PRIORITY
      rename_i hk; simp only [hk]
      split
      · exact ⟨hi, fun blk hb => by cases hb⟩
      · split
        · rename_i f hf
          exact ⟨hi, fun blk hb => by simp only at hb; rw [nb_priority _ _ _ hf] at hb; cases hb⟩
        · exact ⟨hi, fun blk hb => by cases hb⟩
        · exact ⟨hi, fun blk hb => by cases hb⟩
    · -- HEADERS
      rename_i hk; simp only [hk]
      have hnone : r.partialBlk = none := by
        cases hpb : r.partialBlk with
        | none => rfl
        | some p => exact absurd ⟨by simp [hpb], by rw [hk]; decide⟩ hp
      cases hl : loadHeadersHead (Head.parse bytes) (List.drop 9 bytes) with
      | error e =>
        simp only
        split <;> first | exact ⟨hi, fun blk hb => by cases hb⟩ | contradiction
      | ok x =>
        obtain ⟨sid, eos, eh, dep, frag⟩ := x
        simp only
        have := load_after r {} [] frag r.hpack (fun b => .headers sid eos dep b) (fun _ => rfl) 0 eh
          (Head.parse bytes).sid hi.table blockInv_empty (fun f hf => by cases hf) _ rfl
        simpa using this
    · -- PUSH_PROMISE
      rename_i hk; simp only [hk]
      cases hl : loadPushPromiseHead (Head.parse bytes) (List.drop 9 bytes) with
      | error e =>
        simp only
        split <;> first | exact ⟨hi, fun blk hb => by cases hb⟩ | contradiction
      | ok x =>
        obtain ⟨sid, promised, eh, frag⟩ := x
        simp only
        have := load_after r {} [] frag r.hpack (fun b => .pushPromise sid promised b) (fun _ => rfl) 0 eh
          (Head.parse bytes).sid hi.table blockInv_empty (fun f hf => by cases hf) _ rfl
        simpa using this
    · -- CONTINUATION
      rename_i hk; simp only [hk]
      cases hpb : r.partialBlk with
      | none => exact ⟨hi, fun blk hb => by cases hb⟩
      | some p =>
        simp only
        obtain ⟨pinv, pok⟩ := hi.part p hpb
        have hdrop : ∀ (df : DF) (g' : List Header), dfBlock df = none →
            RInv ({ r with partialBlk := none }, df).1 g' ∧ ∀ blk, dfBlock ({ r with partialBlk := none }, df).2 = some blk →
              blk.isMalformed = false ∧ BlockInv blk g' ∧ ∀ f ∈ g', fieldOk f = true :=
          fun df g' hd => ⟨rinv_drop r _ g g' hi rfl rfl, fun blk hb => by simp only at hb; rw [hd] at hb; cases hb⟩
        by_cases h1 : p.frame.sid ≠ (Head.parse bytes).sid
        · simp only [if_pos h1]; exact hdrop _ _ rfl
        · simp only [if_neg h1]
          by_cases h2 : ¬(Head.parse bytes).flag &&& 4 = 4 ∧
              (if (Head.parse bytes).flag &&& 4 = 4 then 0 else p.count + 1) > r.maxContinuationFrames
          · simp only [if_pos h2]; exact hdrop _ _ rfl
          · simp only [if_neg h2]
            by_cases h3 : ¬List.isEmpty p.buf = true ∧
                p.frame.blk.isOverSize = true ∧ List.length p.buf + List.length bytes > r.maxHeaderListSize
            · simp only [if_pos h3]; exact hdrop _ _ rfl
            · simp only [if_neg h3]
              exact load_after { r with partialBlk := none } p.frame.blk g (p.buf ++ List.drop 9 bytes)
                r.hpack.continueBlock (fun b => p.frame.setBlk b) (fun x => by cases p.frame <;> rfl)
                (if (Head.parse bytes).flag &&& 4 = 4 then 0 else p.count + 1)
                (decide ((Head.parse bytes).flag &&& 4 = 4))
                (Head.parse bytes).sid hi.table pinv pok _ rfl
    · -- unknown frame types
      rename_i hk1 hk2 hk3 hk4 hk5 hk6 hk7 hk8 hk9 hk10
      split
      · rename_i hk; exact absurd hk hk8
      · rename_i hk; exact absurd hk hk9
      · rename_i hk; exact absurd hk hk10
      · exact ⟨hi, fun blk hb => by cases hb⟩


/-! ### every reader state a connection can reach satisfies the invariant -/

theorem rinv_new (mfs : Nat) : RInv (Reader.new mfs) [] :=
  ⟨new_tableOk _, fun p hp => by cases hp⟩

/-- what the connection does to its reader: decode a frame, or apply acknowledged local settings -/
inductive ROp where
  | frame (bytes : Bytes)
  | setMaxFrameSize (v : Nat)
  | setMaxHeaderListSize (v : Nat)
  | queueSizeUpdate (v : Nat)
  | buffer (buf : Bytes) (need : Option Nat)      -- the reassembly buffer (`LengthDelimitedCodec`)

def ROp.apply (rg : Reader × List Header) : ROp → Reader × List Header
  | .frame bytes => ((decodeFrame rg.1 bytes).1, ghostNext rg.2 rg.1 bytes)
  | .setMaxFrameSize v => (rg.1.setMaxFrameSize v, rg.2)
  | .setMaxHeaderListSize v => (rg.1.setMaxHeaderListSize v, rg.2)
  | .queueSizeUpdate v => ({ rg.1 with hpack := rg.1.hpack.queueSizeUpdate v }, rg.2)
  | .buffer buf need => ({ rg.1 with buf := buf, need := need }, rg.2)

def runROps (rg : Reader × List Header) (ops : List ROp) : Reader × List Header := ops.foldl ROp.apply rg

theorem rinv_apply (rg : Reader × List Header) (op : ROp) (hi : RInv rg.1 rg.2) :
    RInv (op.apply rg).1 (op.apply rg).2 := by
  cases op with
  | frame bytes => exact (decodeFrame_inv rg.1 rg.2 bytes hi).1
  | setMaxFrameSize v => exact rinv_same _ _ _ hi rfl rfl
  | setMaxHeaderListSize v => exact rinv_same _ _ _ hi rfl rfl
  | queueSizeUpdate v => exact ⟨hi.table, hi.part⟩
  | buffer buf need => exact rinv_same _ _ _ hi rfl rfl

/-- the invariant holds after ANY sequence of frames and settings changes from a fresh reader -/
theorem rinv_reachable (mfs : Nat) (ops : List ROp) :
    RInv (runROps (Reader.new mfs, []) ops).1 (runROps (Reader.new mfs, []) ops).2 := by
  suffices h : ∀ (ops : List ROp) (rg : Reader × List Header), RInv rg.1 rg.2 → RInv (runROps rg ops).1 (runROps rg ops).2 from
    h ops _ (rinv_new mfs)
  intro ops
  induction ops with
  | nil => intro rg h; exact h
  | cons op rest ih => intro rg h; exact ih _ (rinv_apply rg op h)

end H2V.Lemmas.ConnHttpP
