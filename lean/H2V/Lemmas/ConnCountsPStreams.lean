import H2V.Lemmas.ConnCountsPRecv
import H2V.Lemmas.ConnCountsPEarly
/-
  C05 / C18 / C19 — part 9: `Ev` for `streams.rs` (`ConnStreams.lean`).
-/
namespace H2V.Lemmas.ConnCountsP
open H2V H2V.Model H2V.Model.Conn
variable {ρ : Bool}
attribute [local irreducible] wrapSubU32 wrapSubUsize

theorem resetOnRecvStreamErr_ev (s : Streams) (id : Nat) (res : Except PErr Unit) : EvB ρ s (s.resetOnRecvStreamErr id res).1 := by
  unfold Streams.resetOnRecvStreamErr
  ev_auto

theorem actionsSendReset_ev (s : Streams) (id : Nat) (reason : Reason) (init : Initiator) :
    EvB ρ s (s.actionsSendReset id reason init).1 := by
  unfold Streams.actionsSendReset
  ev_auto

theorem recvData_ev (s : Streams) (id : Nat) (payload : Bytes) (eos : Bool) (pad : Option Nat) :
    EvB ρ s (s.recvData id payload eos pad).1 := by
  unfold Streams.recvData
  ev_auto

theorem recvReset_ev (s : Streams) (id : Nat) (reason : Reason) : EvB ρ s (s.recvReset id reason).1 := by
  unfold Streams.recvReset
  ev_auto

theorem recvWindowUpdate_ev (s : Streams) (id inc : Nat) : EvB ρ s (s.recvWindowUpdate id inc).1 := by
  unfold Streams.recvWindowUpdate
  ev_auto

theorem closeStream_ev (s : Streams) (id : Nat) (err : PErr) :
    EvB ρ s (s.transition id fun s => ((s.recvHandleError id err).sendHandleError id, ())).1 := by
  ev_auto

theorem handleError_ev (s : Streams) (err : PErr) : EvB ρ s (s.handleError err).1 := by
  unfold Streams.handleError
  dsimp only
  generalize hS : s.storeForEach _ = S
  have e : EvB ρ s S := by
    rw [← hS]
    exact storeForEach_ev _ _ (fun s id => closeStream_ev s id err)
  exact .trans e (setMisc_ev _ _ _ _ _ _ ⟨rfl, rfl, rfl, rfl, rfl⟩)

theorem recvGoAwayFrame_ev (s : Streams) (last : Nat) (reason : Reason) (debug : Bytes) :
    EvB ρ s (s.recvGoAwayFrame last reason debug).1 := by
  unfold Streams.recvGoAwayFrame
  ev_auto

theorem bufferPending_ev (fuel : Nat) (s : Streams) (w : Writer) : EvB ρ s (Streams.bufferPending fuel s w).1 := by
  unfold Streams.bufferPending
  ev_auto

theorem pollComplete_ev : ∀ (fuel : Nat) (s : Streams) (w : Writer) (io : Tio) (tag : String),
    EvB ρ s (Streams.pollComplete fuel s w io tag).1 := by
  intro fuel
  induction fuel with
  | zero => intro s w io tag; exact panic_ev _ _
  | succ n ih =>
    intro s w io tag
    unfold Streams.pollComplete
    ev_auto_ih ih

theorem pollSendPendingRefusal_ev : ∀ (fuel : Nat) (s : Streams) (w : Writer) (io : Tio) (tag : String),
    EvB ρ s (Streams.pollSendPendingRefusal fuel s w io tag).1 := by
  intro fuel
  induction fuel with
  | zero => intro s w io tag; exact .refl _
  | succ n ih =>
    intro s w io tag
    unfold Streams.pollSendPendingRefusal
    ev_auto_ih ih

theorem applyRemoteSettings_ev (s : Streams) (vals : List (Nat × Nat)) (b : Bool) : EvB ρ s (s.applyRemoteSettings vals b).1 := by
  unfold Streams.applyRemoteSettings
  ev_auto

theorem applyLocalSettingsFrame_ev (s : Streams) (vals : List (Nat × Nat)) : EvB ρ s (s.applyLocalSettingsFrame vals).1 := by
  unfold Streams.applyLocalSettingsFrame
  ev_auto

theorem refInc_ev (s : Streams) (id : Nat) : EvB ρ s (s.refInc id) := by
  unfold Streams.refInc
  ev_auto

theorem cloneStreamRef_ev (s : Streams) (id : Nat) : EvB ρ s (s.cloneStreamRef id) := by
  unfold Streams.cloneStreamRef
  ev_auto

theorem maybeCancel_ev (s : Streams) (id : Nat) : EvB ρ s (s.maybeCancel id) := by
  unfold Streams.maybeCancel
  ev_auto

theorem pollPendingOpen_ev (s : Streams) (p : Option Nat) (tag : String) : EvB ρ s (s.pollPendingOpen p tag).1 := by
  unfold Streams.pollPendingOpen
  ev_auto

theorem nextIncoming_ev (s : Streams) : EvB ρ s s.nextIncoming.1 := by
  unfold Streams.nextIncoming
  ev_auto

theorem refSendResponse_ev (s : Streams) (k : Nat) (f : List Hpack.Field) (eos : Bool) : EvB ρ s (s.refSendResponse k f eos).1 := by
  unfold Streams.refSendResponse
  ev_auto

theorem refSendInformationalHeaders_ev (s : Streams) (k : Nat) (f : List Hpack.Field) : EvB ρ s (s.refSendInformationalHeaders k f).1 := by
  unfold Streams.refSendInformationalHeaders
  ev_auto

theorem cloneHandle_ev (s : Streams) : EvB ρ s s.cloneHandle := by
  unfold Streams.cloneHandle
  ev_auto

theorem dropHandle_ev (s : Streams) : EvB ρ s s.dropHandle := by
  unfold Streams.dropHandle
  ev_auto

theorem refSendData_ev (s : Streams) (id len : Nat) (eos : Bool) : EvB ρ s (s.refSendData id len eos).1 := by
  unfold Streams.refSendData
  ev_auto

theorem refSendTrailers_ev (s : Streams) (id : Nat) (f : List Hpack.Field) : EvB ρ s (s.refSendTrailers id f).1 := by
  unfold Streams.refSendTrailers
  ev_auto

theorem refSendReset_ev (s : Streams) (id : Nat) (r : Reason) : EvB ρ s (s.refSendReset id r) := by
  unfold Streams.refSendReset
  ev_auto

theorem refReserveCapacity_ev (s : Streams) (id cap : Nat) : EvB ρ s (s.refReserveCapacity id cap) := by
  unfold Streams.refReserveCapacity
  ev_auto

theorem refPollPushed_ev (s : Streams) (id : Nat) (tag : String) : EvB ρ s (s.refPollPushed id tag).1 := by
  unfold Streams.refPollPushed
  ev_auto

theorem refPollData_ev (s : Streams) (id : Nat) (tag : String) : EvB ρ s (s.refPollData id tag).1 := by
  unfold Streams.refPollData
  ev_auto

theorem refReleaseCapacity_ev (s : Streams) (id cap : Nat) : EvB ρ s (s.refReleaseCapacity id cap).1 := by
  unfold Streams.refReleaseCapacity
  ev_auto

theorem refClearRecvBuffer_ev (s : Streams) (id : Nat) : EvB ρ s (s.refClearRecvBuffer id) := by
  unfold Streams.refClearRecvBuffer
  ev_auto

-- ===================================================================== drop_stream_ref

theorem foldl_ev {α : Type} (f : Streams → α → Streams) (hf : ∀ s x, EvB ρ s (f s x)) :
    ∀ (l : List α) (s : Streams), EvB ρ s (l.foldl f s) := by
  intro l
  induction l with
  | nil => intro s; exact .refl _
  | cons a l ih => intro s; exact .trans (hf s a) (ih _)

theorem dropPromise_ev (s : Streams) (promise : Nat) :
    EvB ρ s ((s.modStream promise fun st => { st with isPendingAccept := false }).transition promise fun s =>
            (if ((s.maybeCancel promise).stream promise).refCount == 0 then (s.maybeCancel promise).releaseClosedCapacity promise
             else s.maybeCancel promise, ())).1 := by
  refine .trans (.acceptFlag promise false) ?_
  ev_auto

theorem dropStreamRef_ev (s : Streams) (id : Nat) : EvB ρ s (s.dropStreamRef id) := by
  unfold Streams.dropStreamRef
  dsimp only
  refine .trans ?_ (transition_ev _ _ _ ?_)
  · ev_auto
  · intro s5
    split
    · show EvB ρ s5 (List.foldl _ _ _)
      have hf : ∀ (s : Streams) (p : Nat), EvB ρ s ((s.modStream p fun st => { st with isPendingAccept := false }).transition p fun s =>
            (if ((s.maybeCancel p).stream p).refCount == 0 then (s.maybeCancel p).releaseClosedCapacity p
             else s.maybeCancel p, ())).1 :=
        fun s p => dropPromise_ev s p
      refine EvB.trans ?_ (foldl_ev _ hf _ _)
      refine EvB.trans ?_ (modStream_ev _ _ _ ?_)
      · exact .trans (maybeCancel_ev _ _) (releaseClosedCapacity_ev _ _)
      · intro _ _; same_tac
    · exact maybeCancel_ev _ _

-- ===================================================================== recv_headers / recv_push_promise

theorem recvOpen_isServer (s : Streams) (id : Nat) (pp : Bool) : (s.recvOpen id pp).1.counts = s.counts := by
  unfold Streams.recvOpen
  dsimp only
  repeat' split
  all_goals simp only [Streams.modRecv, panic_counts]

/-- an id that `Recv::open` accepts is not locally initiated -/
theorem recvOpen_remote {s s1 : Streams} {id : Nat} {pp : Bool} (h : s.recvOpen id pp = (s1, .ok true)) :
    s1.counts.isLocalInit id = false := by
  have hc : s1.counts = s.counts := by
    have := recvOpen_isServer s id pp; rw [h] at this; exact this
  rw [hc]
  have hsv : ∀ m, (if s.recv.refused.isSome = true then s.panic m else s).counts.isServer = s.counts.isServer := by
    intro m; split
    · rw [panic_counts]
    · rfl
  have key : (if s.counts.isServer = true then !(pp || id % 2 == 0) else !(!pp || !(id % 2 == 0))) = true := by
    cases hcan : (if s.counts.isServer = true then !(pp || id % 2 == 0) else !(!pp || !(id % 2 == 0))) with
    | true => rfl
    | false =>
      exfalso
      unfold Streams.recvOpen at h
      simp only [hsv, hcan, Bool.not_false, if_true] at h
      cases h
  unfold Counts.isLocalInit
  cases hs : s.counts.isServer <;> simp only [hs, Bool.false_eq_true, if_false, if_true] at key <;>
    cases pp <;> simp_all

theorem fresh_new (id a b : Nat) : Fresh (Stream.new id a b) :=
  ⟨rfl, fun q => by cases q <;> rfl, rfl, rfl⟩

theorem recvHeaders_ev (s : Streams) (h : HeadersIn) : EvB true s (s.recvHeaders h).1 := by
  unfold Streams.recvHeaders
  extract_lets id entry f431
  split
  · exact .refl _
  · have eE : EvB true s entry.1 := by
      simp only [entry]
      split
      · exact .refl _
      · split
        · exact .refl _
        · split
          · next s1 e heq => exact .of_fst_eq heq (recvOpen_ev _ _ _)
          · next s1 heq => exact .of_fst_eq heq (recvOpen_ev _ _ _)
          · next s1 heq =>
            refine .trans (.of_fst_eq heq (recvOpen_ev _ _ _)) ?_
            exact .insert _ (fresh_new _ _ _) (recvOpen_remote heq)
    clear_value entry
    split
    · exact eE
    · exact eE
    · refine .trans eE ?_
      clear eE
      ev_auto

end H2V.Lemmas.ConnCountsP
