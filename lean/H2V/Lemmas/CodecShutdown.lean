import H2V.Lemmas.CodecWriter
/-
  C12, closing: `FramedWrite::shutdown` never shuts the transport down while octets are pending,
  whatever the transport does to the writes (short writes, Pending between any two octets).
-/
namespace H2V.Lemmas.Codec
open H2V.Model H2V.Model.CodecWrite H2V.Model.Frame

/-- fuel that is enough for every writer reachable from `w` by flushing: pending only shrinks -/
def enoughFuel (fuel : Nat) (w : Writer) : Prop := 2 * (pendingBytes w).length + 2 ≤ fuel

theorem shutdown_single (w : Writer) (sc : List (Option Nat)) (fuel : Nat)
    (hwf : WF w) (hmf : 0 < w.maxFrame) (hfuel : enoughFuel fuel w) :
    let r := Writer.shutdown fuel w false sc
    r.2.2.1 ++ pendingBytes r.1 = pendingBytes w ∧ WF r.1 ∧ r.1.maxFrame = w.maxFrame ∧
    (r.2.2.2.2 = true → pendingBytes r.1 = [] ∧ r.2.1 = true) ∧
    (r.2.2.2.2 = false → r.2.1 = false) := by
  obtain ⟨h1, _, h3, _, h5, h6, _⟩ := flush_exact w sc fuel hwf hmf hfuel
  unfold Writer.shutdown
  simp only [Bool.false_eq_true, if_false]
  generalize hfl : Writer.flush fuel w sc [] = fl at h1 h3 h5 h6
  obtain ⟨w', sc', out, res⟩ := fl
  cases res <;> simp_all

/-- CLOSING DROPS NOTHING: over any number of `shutdown` calls with any write scripts, if the
    transport's `poll_shutdown` was reached then the transport had accepted exactly the octets that
    were pending when closing started — all of them, in order. -/
theorem shutdownRun_complete (fuel : Nat) (scs : List (List (Option Nat))) :
    ∀ (w : Writer) (acc : Bytes), WF w → 0 < w.maxFrame → enoughFuel fuel w →
      (Writer.shutdownRun fuel w false scs acc).2 = true →
      (Writer.shutdownRun fuel w false scs acc).1 = acc ++ pendingBytes w := by
  induction scs with
  | nil => intro w acc _ _ _ h; simp [Writer.shutdownRun] at h
  | cons sc rest ih =>
    intro w acc hwf hmf hfuel h
    obtain ⟨h1, hwf', hmf', hT, hF⟩ := shutdown_single w sc fuel hwf hmf hfuel
    unfold Writer.shutdownRun at h ⊢
    generalize hs : Writer.shutdown fuel w false sc = s at h1 hwf' hmf' hT hF h
    obtain ⟨w', done', out, res, shut⟩ := s
    simp only at h1 hwf' hmf' hT hF
    cases shut with
    | true =>
      obtain ⟨hp, _⟩ := hT rfl
      simp only [hp, List.append_nil] at h1
      simp [h1]
    | false =>
      have hd : done' = false := hF rfl
      subst hd
      cases res with
      | pending =>
        simp only at h ⊢
        have hfuel' : enoughFuel fuel w' := by
          unfold enoughFuel at hfuel ⊢
          have : (pendingBytes w).length = out.length + (pendingBytes w').length := by
            rw [← h1, List.length_append]
          omega
        rw [ih w' (acc ++ out) hwf' (by omega) hfuel' h, List.append_assoc, h1]
      | ready => simp at h
      | writeZero => simp at h
      | loop => simp at h

end H2V.Lemmas.Codec
