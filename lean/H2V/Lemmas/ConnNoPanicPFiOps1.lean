import H2V.Lemmas.ConnNoPanicPFiFkLoops
/-
  C08 (no panic) — `FI` is a reachable invariant, part 5: the two functions that RAISE a flag outside the write path
  keep the bundle `FB`: `Send::send_headers` (`is_pending_open`) and `Recv::recv_headers` (`is_counted`); with them
  `StreamRef::send_response` and `Inner::recv_headers`.
-/
namespace H2V.Lemmas.ConnNoPanicP
open H2V H2V.Model H2V.Model.Conn H2V.Lemmas.ConnCountsP
attribute [local irreducible] wrapSubU32 wrapSubUsize

variable {sv : Bool} {E : Nat → Prop}

theorem unsup_fk (s : Streams) (m : String) : FK s (s.unsup m) := by
  unfold Streams.unsup; split
  · exact .refl _
  · exact .of_eqs rfl rfl rfl

theorem FB.st {s s' : Streams} (h : FB sv E s) (hfk : FK s s') (hsk : SK sv s s') : FB sv E s' := h.step hfk hsk

theorem modStream_counts' (s : Streams) (k : Nat) (f : Stream → Stream) : (s.modStream k f).counts = s.counts :=
  modStream_counts s k f

-- ===================================================================== send_headers

/-- **`Send::send_headers` keeps the bundle.**  When it puts the stream into `pending_open` (`State::send_open`
    succeeded on a locally initiated stream that is not an unannounced promised one), `FX.q` says the stream is not
    counted and `FX.tg` that no queued PUSH_PROMISE announces it. -/
theorem sendHeaders_fb {s : Streams} (hb : FB sv E s) (hr : s.counts.isServer = sv) {k : Nat} (hl : Live s k) (hnE : ¬ E k)
    (eos : Bool) (f : List Hpack.Field) : FB sv E (s.sendHeaders k eos f).1 := by
  unfold Streams.sendHeaders
  split
  · exact hb
  · split
    · exact hb
    · next st' _ heq =>
      dsimp only
      have hsu : suB (s.stream k).state = true := sendOpen_su heq
      have hnsu : suB st' = false := sendOpen_nsu heq
      have hst1 : (s.modStream k fun st => { st with state := st' }).stream k = { s.stream k with state := st' } :=
        stream_modStream_live hl (fun st => { st with state := st' }) (fun _ => rfl)
      have hfk1 : FK s (s.modStream k fun st => { st with state := st' }) := modStream_fk _ _ _ (fun _ => by flg_fields)
      have hsk1 : SK sv s (s.modStream k fun st => { st with state := st' }) :=
        modStream_sk _ _ _ (fun x => setState_sr x st' hnsu)
      have hb1 := hb.st hfk1 hsk1
      have o1 : Opn sv (s.modStream k fun st => { st with state := st' }) k := opn_setState s k st' hnsu
      have hc1 : (s.modStream k fun st => { st with state := st' }).counts = s.counts := modStream_counts _ _ _
      have hl1 : Live (s.modStream k fun st => { st with state := st' }) k := (SameKeys.modStream _ _ _).live.mpr hl
      generalize (s.modStream k fun st => { st with state := st' }) = s1 at hst1 hfk1 hsk1 hb1 o1 hc1 hl1 ⊢
      -- the queue_open step
      have key : FB sv E (if (s1.counts.isLocalInit (s1.stream k).id && !(s1.stream k).isPendingPush) = true then s1.queueOpen k else s1) ∧
          SK sv s1 (if (s1.counts.isLocalInit (s1.stream k).id && !(s1.stream k).isPendingPush) = true then s1.queueOpen k else s1) := by
        split
        · next hc =>
          refine ⟨?_, queueOpen_sk _ _ o1⟩
          simp only [Bool.and_eq_true, Bool.not_eq_true'] at hc
          have hloc : locId sv (s.stream k).id = true := by
            have := hc.1; rw [hst1, hc1, isLocalInit_eq, hr] at this; exact this
          have hpp : (s.stream k).isPendingPush = false := by have := hc.2; rw [hst1] at this; exact this
          have hnil := hb.fx.q k hloc hsu
          have hnt : ∀ k' pid, pid ∈ ppq s1 k' → s1.store.findKey? pid ≠ some k := by
            intro k' pid hp hf
            have hf' := (hfk1.ids hb.nd).2 pid k hf
            rcases hb.fx.tg k' pid ((hfk1.ppq_sub k').subset hp) k hf' hl hsu with h1 | h1
            · rw [hpp] at h1; cases h1
            · exact hnE h1
          unfold Streams.queueOpen Streams.qPush
          split
          · exact hb1
          · dsimp only
            refine FB.st (FB.modStream hb1 (fun st => st.setQueued .pendingOpen true) (fun _ => rfl) rfl rfl (fun h => h) (.inl (fun _ h => h))
              ?_ ?_ ?_ ?_ (.inl hnt)) (setQ_fk _ _ _) (setQ_sk _ _ _)
            all_goals rw [hst1]
            · intro _; exact hloc
            · intro _; exact hloc
            · refine ⟨fun hp' => ?_, fun _ => hnil.c⟩
              have : (s.stream k).isPendingPush = true := hp'
              rw [hpp] at this; cases this
            · intro _ hs'
              have : suB st' = true := hs'
              rw [hnsu] at this; cases this
        · exact ⟨hb1, .refl _⟩
      generalize (if (s1.counts.isLocalInit (s1.stream k).id && !(s1.stream k).isPendingPush) = true then s1.queueOpen k else s1) = s2 at key ⊢
      have hb3 : FB sv E (s2.queueFrame k (.headers eos f)) :=
        key.1.st (queueFrame_fk _ _ _ rfl) (queueFrame_sk _ _ _ (o1.sk key.2))
      split
      · exact hb3.st (notifyTask_fk _) (notifyTask_sk _)
      · exact hb3

/-- `StreamRef::send_response` -/
theorem refSendResponse_fb {s : Streams} (hb : FB sv E s) (hr : s.counts.isServer = sv) {k : Nat} (hl : Live s k) (hnE : ¬ E k)
    (f : List Hpack.Field) (eos : Bool) : FB sv E (s.refSendResponse k f eos).1 := by
  have : (s.refSendResponse k f eos).1 = (s.sendHeaders k eos f).1.transitionAfter k (s.stream k).isPendingResetExpiration := by
    unfold Streams.refSendResponse Streams.transition; rfl
  rw [this]
  exact (sendHeaders_fb hb hr hl hnE eos f).st (transitionAfter_fk _ _ _) (transitionAfter_sk _ _ _)

-- ===================================================================== Recv::recv_headers

/-- counting entry `k`: not locally initiated, so it carries neither `is_pending_push` nor `is_pending_open` and no
    queued PUSH_PROMISE announces it -/
theorem incNumRecvStreams_fb {s : Streams} (hb : FB sv E s) {k : Nat} (hl : Live s k)
    (hrem : locId sv (s.stream k).id = false) : FB sv E (s.incNumRecvStreams k) := by
  unfold Streams.incNumRecvStreams
  dsimp only
  generalize hs1 : (if s.counts.canIncNumRecvStreams = true then s else s.panic _) = s1
  have h1 : FK s s1 ∧ SK sv s s1 ∧ s1.store = s.store := by
    rw [← hs1]; split; exact ⟨.refl _, .refl _, rfl⟩; exact ⟨panic_fk _ _, panic_sk _ _, panic_store _ _⟩
  generalize hs2 : (if (s1.stream k).isCounted = true then s1.panic _ else s1) = s2
  have h2 : FK s1 s2 ∧ SK sv s1 s2 ∧ s2.store = s1.store := by
    rw [← hs2]; split; exact ⟨panic_fk _ _, panic_sk _ _, panic_store _ _⟩; exact ⟨.refl _, .refl _, rfl⟩
  have hfk := (h1.1.trans h2.1).trans (modCounts_fk s2 fun c => { c with numRecvStreams := c.numRecvStreams + 1 })
  have hsk := (h1.2.1.trans h2.2.1).trans (modCounts_sk (sv := sv) s2 fun c => { c with numRecvStreams := c.numRecvStreams + 1 })
  have hst3 : (s2.modCounts fun c => { c with numRecvStreams := c.numRecvStreams + 1 }).store = s.store := h2.2.2.trans h1.2.2
  have hb3 := hb.st hfk hsk
  generalize (s2.modCounts fun c => { c with numRecvStreams := c.numRecvStreams + 1 }) = s3 at hfk hsk hst3 hb3 ⊢
  have hsk3 : s3.stream k = s.stream k := stream_of_store_eqP hst3 k
  have hnt : ∀ k' pid, pid ∈ ppq s3 k' → s3.store.findKey? pid ≠ some k := by
    intro k' pid hp hf
    have hl3 : Live s3 k := by unfold Live; rw [hst3]; exact hl
    have hid := hb3.idm pid k hf hl3
    have := hb3.fx.lq k' pid hp
    rw [← hid, hsk3, hrem] at this; cases this
  have hpp : (s.stream k).isPendingPush = false := by
    cases hp : (s.stream k).isPendingPush with
    | false => rfl
    | true => have := hb.fx.pl k hp; rw [hrem] at this; cases this
  have hpo : (s.stream k).isPendingOpen = false := by
    cases hp : (s.stream k).isPendingOpen with
    | false => rfl
    | true => have := hb.fx.ol k hp; rw [hrem] at this; cases this
  refine FB.modStream hb3 (fun st => { st with isCounted := true }) (fun _ => rfl) rfl rfl (fun h => h) (.inl (fun _ h => h))
    ?_ ?_ ?_ ?_ (.inl hnt)
  all_goals rw [hsk3]
  · intro hp; have : (s.stream k).isPendingPush = true := hp; rw [hpp] at this; cases this
  · intro hp; have : (s.stream k).isPendingOpen = true := hp; rw [hpo] at this; cases this
  · refine ⟨fun hp => ?_, fun hp => ?_⟩
    · have : (s.stream k).isPendingPush = true := hp; rw [hpp] at this; cases this
    · have : (s.stream k).isPendingOpen = true := hp; rw [hpo] at this; cases this
  · intro hl'; have : locId sv (s.stream k).id = true := hl'; rw [hrem] at this; cases this

/-- **`Recv::recv_headers` keeps the bundle**: the stream it counts was `Idle`/`ReservedRemote`, hence (hypothesis `hE`,
    from `Inv2.p3`) not locally initiated -/
theorem recvRecvHeaders_fb {s : Streams} (hb : FB sv E s) {k : Nat} (hl : Live s k)
    (hE : Early (s.stream k) → locId sv (s.stream k).id = false) (h : HeadersIn) : FB sv E (s.recvRecvHeaders k h).1 := by
  unfold Streams.recvRecvHeaders
  split
  · exact hb
  · next st' isInitial heq =>
    dsimp only
    have hst1 : (s.modStream k fun st => { st with state := st' }).stream k = { s.stream k with state := st' } :=
      stream_modStream_live hl (fun st => { st with state := st' }) (fun _ => rfl)
    have hb1 : FB sv E (s.modStream k fun st => { st with state := st' }) :=
      hb.st (modStream_fk _ _ _ (fun _ => by flg_fields)) (modStream_sk' _ _ _ (setState_sr' _ _ (recvOpen_su heq)))
    have hl1 : Live (s.modStream k fun st => { st with state := st' }) k := (SameKeys.modStream _ _ _).live.mpr hl
    generalize (s.modStream k fun st => { st with state := st' }) = s1 at hst1 hb1 hl1 ⊢
    split
    · exact hb1
    · generalize hs2 : (if (isInitial && !(s1.stream k).isCounted) = true then _ else s1) = s2
      have hb2 : FB sv E s2 := by
        rw [← hs2]
        split
        · next hc =>
          have hi : isInitial = true := by
            cases isInitial
            · simp at hc
            · rfl
          subst hi
          have hrem := hE (recvOpen_initial heq)
          have hA : FB sv E (if h.sid > s1.recv.lastProcessedId then s1.modRecv fun r => { r with lastProcessedId := h.sid } else s1) ∧
              (if h.sid > s1.recv.lastProcessedId then s1.modRecv fun r => { r with lastProcessedId := h.sid } else s1).store = s1.store := by
            split
            · exact ⟨hb1.st (modRecv_fk _ _) (modRecv_sk _ _), rfl⟩
            · exact ⟨hb1, rfl⟩
          generalize (if h.sid > s1.recv.lastProcessedId then s1.modRecv fun r => { r with lastProcessedId := h.sid } else s1) = sA at hA ⊢
          refine incNumRecvStreams_fb hA.1 (by unfold Live; rw [hA.2]; exact hl1) ?_
          rw [stream_of_store_eqP hA.2 k, hst1]; exact hrem
        · exact hb1
      refine FB.st hb2 ?_ ?_
      · fk_auto
      · sk_auto

-- ===================================================================== Inner::recv_headers

theorem recvHeadersClosure_fb {s : Streams} (hb : FB sv E s) (hr : s.counts.isServer = sv) {k : Nat} (hl : Live s k) (hnE : ¬ E k)
    (hE : Early (s.stream k) → locId sv (s.stream k).id = false) (h : HeadersIn) : FB sv E (recvHeadersClosure k h s).1 := by
  unfold recvHeadersClosure
  dsimp only
  split
  · exact hb
  · have hfin : ∀ (t : Streams) (r : Except PErr Unit), FB sv E t → FB sv E (t.resetOnRecvStreamErr k r).1 :=
      fun t r ht => ht.st (resetOnRecvStreamErr_fk _ _ _) (resetOnRecvStreamErr_sk _ _ _)
    split
    · generalize hrh : s.recvRecvHeaders k h = p
      obtain ⟨s1, res⟩ := p
      have h1 : FB sv E s1 := by have := recvRecvHeaders_fb hb hl hE h; rw [hrh] at this; exact this
      have hl1 : Live s1 k := (LT.of_fst_eq hrh (recvRecvHeaders_lt s k h)).keys.live.mpr hl
      have hr1 : s1.counts.isServer = sv := by
        have := (EvB.of_fst_eq hrh (recvRecvHeaders_ev s k h)).nx.role; rw [this]; exact hr
      cases res with
      | ok => exact hfin _ _ h1
      | oversize b =>
        cases b
        · exact hfin _ _ h1
        · refine hfin _ _ ?_
          simp only []
          refine (sendHeaders_fb h1 hr1 hl1 hnE true
            [{ h := (Hpack.pStatus, Http.str "431"), sensitive := false, nameless := false }]).st ?_ ?_
          · fk_auto
          · sk_auto
      | state e => exact hfin _ _ h1
      | unsupported => exact hfin _ _ (h1.st (unsup_fk _ _) (unsup_sk _ _))
    · generalize hrt : s.recvRecvTrailers k h = p
      obtain ⟨s1, res⟩ := p
      exact hfin _ _ (hb.st (FK.of_fst_eq hrt (recvRecvTrailers_fk s k h)) (SK.of_fst_eq hrt (recvRecvTrailers_sk s k h)))

theorem recvHeadersTail_fb {s : Streams} (hb : FB sv E s) (hr : s.counts.isServer = sv) {k : Nat} (hl : Live s k) (hnE : ¬ E k)
    (hE : Early (s.stream k) → locId sv (s.stream k).id = false) (h : HeadersIn) : FB sv E (recvHeadersTail k h s).1 := by
  unfold recvHeadersTail
  dsimp only
  split
  · exact hb
  · split
    · exact hb
    · have : (s.transition k (recvHeadersClosure k h)).1 =
          (recvHeadersClosure k h s).1.transitionAfter k (s.stream k).isPendingResetExpiration := by
        unfold Streams.transition; rfl
      rw [this]
      exact (recvHeadersClosure_fb hb hr hl hnE hE h).st (transitionAfter_fk _ _ _) (transitionAfter_sk _ _ _)

theorem not_early_of_npi {s : Streams} (hn : NPI (fun _ => False) s) (he : ErrOK s) (hr : s.counts.isServer = sv) {k : Nat}
    (hl : Live s k) : Early (s.stream k) → locId sv (s.stream k).id = false := by
  intro hea
  cases hloc : locId sv (s.stream k).id with
  | false => rfl
  | true => exact (hn.inv2.p3 he k _ hl.stream (by rw [hr]; exact hloc) hea).elim

/-- **`Inner::recv_headers` keeps the bundle** -/
theorem recvHeaders_fb {s : Streams} (hn : NPI (fun _ => False) s) (he : ErrOK s) (hb : FB sv (fun _ => False) s)
    (hr : s.counts.isServer = sv) (h : HeadersIn) (href : s.recv.refused = none) :
    FB sv (fun _ => False) (s.recvHeaders h).1 := by
  unfold Streams.recvHeaders
  dsimp only
  split
  · exact hb
  · cases hfk : s.store.findKey? h.sid with
    | some k =>
      have hl := (hn.ids.findKey hfk).1
      exact recvHeadersTail_fb hb hr hl (fun h => h) (not_early_of_npi hn he hr hl) h
    | none =>
      dsimp only
      by_cases hforg : (!s.counts.isServer && s.mayHaveForgottenStream h.sid) = true
      · simp only [hforg, if_true]; exact hb
      · simp only [hforg, Bool.false_eq_true, if_false]
        generalize hro : s.recvOpen h.sid false = p
        obtain ⟨s1, res⟩ := p
        have hlt1 := LT.of_fst_eq hro (recvOpen_lt s h.sid false href)
        have hev1 := EvB.of_fst_eq hro (recvOpen_ev (ρ := true) s h.sid false)
        have h1 : NPI (fun _ => False) s1 := hn.lt hlt1.w (liveAll0 s) hev1 (fun _ _ h => h)
        have hb1 : FB sv (fun _ => False) s1 :=
          hb.st (FK.of_fst_eq hro (recvOpen_fk s h.sid false)) (SK.of_fst_eq hro (recvOpen_sk s h.sid false))
        have hr1 : s1.counts.isServer = sv := by rw [hev1.nx.role]; exact hr
        cases res with
        | error e => exact hb1
        | ok b =>
          cases b
          · exact hb1
          · simp only []
            have hrem : s1.counts.isLocalInit (Stream.new h.sid s1.actions.send.initWindowSz s1.recv.initWindowSz).id = false :=
              recvOpen_true_remote hro
            have hrem' : locId sv h.sid = false := by
              have : s1.counts.isLocalInit h.sid = false := hrem
              rw [isLocalInit_eq, hr1] at this; exact this
            have hfree : s1.store.contains (Stream.new h.sid s1.actions.send.initWindowSz s1.recv.initWindowSz).id = false := by
              show s1.store.contains h.sid = false
              unfold Store.contains Store.findKey?
              rw [hlt1.ids]
              unfold Store.findKey? at hfk
              rw [hfk]; rfl
            have hb2 := hb1.insert h1.keys _ (fresh_new _ _ _) rfl rfl hfree (fun id k hf => (h1.ids.findKey hf).1)
            obtain ⟨h2, hl2⟩ := h1.insert_remote _ (fresh_new _ _ _) (new_av _ _ _) hrem
            have hns : ({ s1 with store := (s1.store.insert (Stream.new h.sid s1.actions.send.initWindowSz s1.recv.initWindowSz)).1 } : Streams).stream
                s1.store.nextKey = { Stream.new h.sid s1.actions.send.initWindowSz s1.recv.initWindowSz with key := s1.store.nextKey } :=
              stream_of_get? (insert_get?_new h1.keys.fresh _)
            have hb2' : FB sv (fun _ => False)
                ({ s1 with store := (s1.store.insert (Stream.new h.sid s1.actions.send.initWindowSz s1.recv.initWindowSz)).1 } : Streams) := by
              refine hb2.dropE (fun j hj hlj => ?_)
              rcases hj with hj | hj
              · exact hj.elim
              · subst hj
                right; right
                intro k' pid hp hf
                have hid := hb2.idm pid _ hf hlj
                rw [hns] at hid
                have : locId sv pid = true := hb2.fx.lq k' pid hp
                have hid' : h.sid = pid := hid
                rw [← hid', hrem'] at this; cases this
            refine recvHeadersTail_fb hb2' hr1 hl2 (fun h => h) ?_ h
            intro _
            rw [hns]; exact hrem'

end H2V.Lemmas.ConnNoPanicP
