import H2V.Lemmas.ConnDrainPCapB
/-
  ConnDrainP, part 16 — `KInv` through `pop_frame`, `buffer_pending`, the resets, `for_each`, SETTINGS
  (shape of ConnFlowPReq2; `pop_frame`'s DATA arm charges stream and connection but leaves the connection's
  `available` where it was: `conn_send`).
-/
namespace H2V.Lemmas.ConnDrainP
open H2V H2V.Model H2V.Model.Conn
open H2V.Lemmas.ConnFlowP H2V.Lemmas.Comp

-- ===================================================================== pop_frame

theorem emitC_pc (sd : Stream → Nat → Nat → Stream × List String × Bool) (s : Streams) (id len : Nat)
    (rest : List SFrame) :
    (emitC sd s id len rest).prio.pendingCapacity = s.prio.pendingCapacity := by
  unfold ConnFlowP.emitC; dsimp only
  split <;> split <;>
    simp only [prio_modPrio, prio_wake, prio_setStream, panic_prio, modStream_prio]

/-- the connection's `available` is where it was after a chunk a stream held capacity for is charged -/
theorem emit_avail {s : Streams} (h : SafeInv s) (id len : Nat)
    (h1 : len ≤ (s.stream id).sendFlow.available.asSize) :
    ((s.prio.flow.assignCapacity len).1.sendData len).1.available.val = s.prio.flow.available.val := by
  cases hget : s.store.get? id with
  | none =>
    have hb : s.stream id = { key := id, id := 0 } := by unfold Streams.stream; rw [hget]; rfl
    have hl0 : len = 0 := by
      rw [hb] at h1
      have : ({ key := id, id := 0 } : Stream).sendFlow.available.asSize = 0 := rfl
      omega
    subst hl0
    have := h.av_le
    exact (conn_send (f := s.prio.flow) h.a0 (n := 0) (by omega) h.whi).1
  | some st =>
    have hm := get?_mem hget
    rw [stream_of_get hget] at h1
    have hok := h.st st hm.1
    have hle := h.st_le hm.1
    have hl : (len : Int) ≤ st.sendFlow.available.val := by
      rw [asSize_eq] at h1; have := hok.av0; omega
    exact (conn_send (f := s.prio.flow) h.a0 (n := len) (by omega) h.whi).1

section
variable {t : Streams}

theorem KInv.emitC {sd : Stream → Nat → Nat → Stream × List String × Bool} (hsd : SdOk sd)
    (hsr : ∀ x len m, (sd x len m).1.requestedSendCapacity < 4294967296) (h : KInv t) (id len : Nat)
    (rest : List SFrame) (h1 : len ≤ (t.stream id).sendFlow.available.asSize)
    (h2 : len = 0 ∨ len ≤ (t.stream id).sendFlow.windowSz) : KInv (emitC sd t id len rest) := by
  refine ⟨SafeInv.emitC hsd h.safe id len rest h1 h2, ReqOk.emitC hsr h.req id len rest, ?_⟩
  rcases h.cap with hc | hc
  · left; rw [emitC_pc]; exact hc
  · right; rw [emitC_flow, emit_avail h.safe id len h1]; exact hc

theorem KInv.popFrameC (sd : Stream → Nat → Nat → Stream × List String × Bool) (hsd : SdOk sd)
    (hsr : ∀ x len m, (sd x len m).1.requestedSendCapacity < 4294967296) (fuel : Nat) :
    ∀ {t : Streams}, KInv t → ∀ maxLen, KInv (popFrameC sd fuel t maxLen).1 := by
  induction fuel with
  | zero => intro t h m; rw [popFrameC_zero]; exact h
  | succ n ih =>
    intro t h maxLen
    rw [popFrameC_succ']
    dsimp only
    k_auto
    all_goals (
      have hc := ‹¬(decide (_ > 0) && decide (_ > _)) = true›
      refine KInv.emitC hsd hsr ?_ _ _ _ (Nat.le_trans (usizeAsU32_le _) (Nat.min_le_right _ _)) ?_
      · k_auto
      · simp only [Bool.and_eq_true, decide_eq_true_eq, not_and, Nat.not_lt] at hc
        omega)

theorem KInv.popFrame (h : KInv t) (fuel maxLen : Nat) : KInv (Streams.popFrame fuel t maxLen).1 := by
  rw [popFrameC.eq]; exact KInv.popFrameC _ sdOk_sendData sendData_req fuel h maxLen
macro_rules | `(tactic| k_peel) => `(tactic| with_reducible apply KInv.popFrame)

theorem KInv.prioBufferPendingLoop (fuel : Nat) :
    ∀ {t : Streams}, KInv t → ∀ w, KInv (Streams.prioBufferPendingLoop fuel t w).1 := by
  induction fuel with
  | zero => intro t h w; unfold Streams.prioBufferPendingLoop; k_auto
  | succ n ih => intro t h w; unfold Streams.prioBufferPendingLoop; dsimp only; k_auto
macro_rules | `(tactic| k_peel) => `(tactic| with_reducible apply KInv.prioBufferPendingLoop)

theorem KInv.prioBufferPending (h : KInv t) (fuel : Nat) (w : Writer) : KInv (Streams.prioBufferPending fuel t w).1 := by
  k_by Streams.prioBufferPending
macro_rules | `(tactic| k_peel) => `(tactic| with_reducible apply KInv.prioBufferPending)

theorem KInv.sendSendReset (h : KInv t) (id : Nat) (r : Reason) (i : Initiator) : KInv (t.sendSendReset id r i) := by
  k_by Streams.sendSendReset
macro_rules | `(tactic| k_peel) => `(tactic| with_reducible apply KInv.sendSendReset)

theorem KInv.scheduleImplicitReset (h : KInv t) (id : Nat) (r : Reason) : KInv (t.scheduleImplicitReset id r) := by
  k_by Streams.scheduleImplicitReset
macro_rules | `(tactic| k_peel) => `(tactic| with_reducible apply KInv.scheduleImplicitReset)

theorem KInv.sendTrailers (h : KInv t) (id : Nat) (f : List Hpack.Field) : KInv (t.sendTrailers id f).1 := by
  k_by Streams.sendTrailers
macro_rules | `(tactic| k_peel) => `(tactic| with_reducible apply KInv.sendTrailers)

theorem KInv.sendHandleError (h : KInv t) (id : Nat) : KInv (t.sendHandleError id) := by
  k_by Streams.sendHandleError
macro_rules | `(tactic| k_peel) => `(tactic| with_reducible apply KInv.sendHandleError)

theorem KInv.sendRecvStreamWindowUpdate (h : KInv t) (id inc : Nat) (hinc : inc ≤ 2147483647) :
    KInv (t.sendRecvStreamWindowUpdate id inc).1 := by
  unfold Streams.sendRecvStreamWindowUpdate
  have h1 := h.prioRecvStreamWindowUpdate id inc hinc
  split
  · rename_i s' e he
    rw [he] at h1
    exact KInv.sendSendReset h1 _ _ _
  · rename_i s' _ he
    rw [he] at h1
    exact h1

end

-- ===================================================================== for_each, SETTINGS

theorem KInv.tryForEach (f : Streams → Nat → Streams × Option PErr)
    (hf : ∀ t id, KInv t → KInv (f t id).1) (fuel : Nat) :
    ∀ (i len : Nat) {t : Streams}, KInv t → KInv (Streams.tryForEach f fuel i len t).1 := by
  induction fuel with
  | zero => intro i len t h; exact h
  | succ n ih =>
    intro i len t h
    unfold Streams.tryForEach
    split
    · split
      · exact h.panic _
      · rename_i id _
        have := hf t id h
        split
        · rename_i heq; rw [heq] at this; exact this
        · rename_i heq; rw [heq] at this
          dsimp only
          split
          · exact ih _ _ this
          · exact ih _ _ this
    · exact h

theorem KInv.storeTryForEach' {t : Streams} {f : Streams → Nat → Streams × Option PErr}
    (hf : ∀ t id, KInv t → KInv (f t id).1) (h : KInv t) : KInv (t.storeTryForEach f).1 := by
  unfold Streams.storeTryForEach; exact KInv.tryForEach f hf _ _ _ h

theorem KInv.storeForEach' {t : Streams} {f : Streams → Nat → Streams}
    (hf : ∀ t id, KInv t → KInv (f t id)) (h : KInv t) : KInv (t.storeForEach f) := by
  unfold Streams.storeForEach; exact KInv.storeTryForEach' (fun t id ht => hf t id ht) h

macro_rules | `(tactic| k_peel) => `(tactic| first
  | (with_reducible apply KInv.storeTryForEach'; (· intro _ _ _; (try unfold Streams.transition); (try dsimp only); k_auto))
  | (with_reducible apply KInv.storeForEach'; (· intro _ _ _; (try unfold Streams.transition); (try dsimp only); k_auto)))

-- ===================================================================== SETTINGS_INITIAL_WINDOW_SIZE

theorem decStreamWindow_prio (dec acc : Nat) (t : Streams) (id : Nat) :
    (Streams.decStreamWindow dec acc t id).1.prio = t.prio := by
  unfold Streams.decStreamWindow
  dsimp only
  repeat' split
  all_goals first | rfl | exact modStream_prio _ _ _

theorem tryForEachAcc_prio (dec : Nat) (fuel : Nat) :
    ∀ (i len acc : Nat) (t : Streams),
      (Streams.tryForEachAcc (Streams.decStreamWindow dec) fuel i len acc t).1.prio = t.prio := by
  induction fuel with
  | zero => intro i len acc t; rfl
  | succ n ih =>
    intro i len acc t
    unfold Streams.tryForEachAcc
    split
    · split
      · exact panic_prio _ _
      · rename_i id _
        have := decStreamWindow_prio dec acc t id
        split
        · rename_i heq; rw [heq] at this; exact this
        · rename_i heq; rw [heq] at this
          dsimp only
          split
          · rw [ih]; exact this
          · rw [ih]; exact this
    · rfl

/-- the `Less` loop: what it leaves, as `SafeInvG total` plus the two other parts -/
theorem KInv.acc_eq {dec fuel i len : Nat} {t s' : Streams} {tot : Nat} {r : Option PErr}
    (heq : Streams.tryForEachAcc (Streams.decStreamWindow dec) fuel i len 0 t = (s', tot, r)) (h : KInv t) :
    SafeInvG tot s' ∧ ReqOk s' ∧ CapInv s' := by
  refine ⟨SafeInv.tryForEachAcc_eq heq h.safe, ?_, ?_⟩
  · have := ReqOk.tryForEachAcc dec fuel i len 0 h.req
    rw [heq] at this; exact this
  · have := tryForEachAcc_prio dec fuel i len 0 t
    rw [heq] at this
    exact h.cap.of_prio (by rw [this]) (by rw [this])

/-- `Send::apply_remote_settings`; the new SETTINGS_INITIAL_WINDOW_SIZE is a 31-bit value -/
theorem KInv.sendApplyRemoteSettings {s : Streams} (h : KInv s) (iws push conn : Option Nat)
    (hiws : ∀ v, iws = some v → v ≤ 2147483647) : KInv (s.sendApplyRemoteSettings iws push conn).1 := by
  unfold Streams.sendApplyRemoteSettings
  cases conn <;> cases iws <;> dsimp only
  case none.none => k_auto
  case some.none => k_auto
  all_goals (
    have hv := hiws _ rfl
    generalize hX : (if (_ : Nat) < _ then _ else _ : Streams × Option PErr) = X
    have hX1 : KInv X.1 := by
      rw [← hX]
      split
      · split
        · have h3 := KInv.acc_eq ‹_› (show KInv _ by k_auto)
          exact ⟨h3.1.weaken, h3.2.1, h3.2.2⟩
        · have h3 := KInv.acc_eq ‹_› (show KInv _ by k_auto)
          exact KInv.ofG h3.1 h3.2.1
      · split
        · refine KInv.storeTryForEach' (fun t id ht => ?_) (by k_auto)
          split
          · rename_i heq; exact KInv.of_fst_eq heq (ht.sendRecvStreamWindowUpdate _ _ (by omega))
          · rename_i heq; exact KInv.of_fst_eq heq (ht.sendRecvStreamWindowUpdate _ _ (by omega))
        · k_auto
    clear hX
    split
    · exact hX1
    · split <;> k_auto)

end H2V.Lemmas.ConnDrainP
