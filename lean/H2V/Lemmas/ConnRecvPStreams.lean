import H2V.Lemmas.ConnRecvPRecv
/-
  C03 — part 10: the entry points of `ConnStreams.lean` (streams.rs) that do not touch receive flow
  control are `Ext` steps (new streams are `Fresh`).
-/
namespace H2V.Lemmas.ConnRecvP
open H2V H2V.Model H2V.Model.Conn
open H2V.Model.Conn.Streams
attribute [local irreducible] wrapSubU32 wrapSubUsize

/-- `counts.transition(stream, f)` around an `Ext` step -/
theorem transition_ext {α : Type} (s : Streams) (id : Nat) (f : Streams → Streams × α) (h : Ext s (f s).1) :
    Ext s (s.transition id f).1 := by
  unfold Streams.transition
  exact h.trans (transitionAfter_ext _ _ _)

theorem resetOnRecvStreamErr_ext (s : Streams) (id : Nat) (r : Except PErr Unit) : Ext s (s.resetOnRecvStreamErr id r).1 := by
  unfold Streams.resetOnRecvStreamErr; ext_auto

theorem actionsSendReset_ext (s : Streams) (id : Nat) (r : Reason) (i : Initiator) : Ext s (s.actionsSendReset id r i).1 := by
  unfold Streams.actionsSendReset; ext_auto

theorem clearQueues_ext (s : Streams) (b : Bool) : Ext s (s.clearQueues b) := by
  unfold Streams.clearQueues; ext_auto

theorem recvReset_ext (s : Streams) (id : Nat) (r : Reason) : Ext s (s.recvReset id r).1 := by
  unfold Streams.recvReset; ext_auto

theorem recvWindowUpdate_ext (s : Streams) (id inc : Nat) : Ext s (s.recvWindowUpdate id inc).1 := by
  unfold Streams.recvWindowUpdate; ext_auto

theorem handleError_ext (s : Streams) (e : PErr) : Ext s (s.handleError e).1 := by
  unfold Streams.handleError; ext_auto

theorem recvGoAwayFrame_ext (s : Streams) (l : Nat) (r : Reason) (d : Bytes) : Ext s (s.recvGoAwayFrame l r d).1 := by
  unfold Streams.recvGoAwayFrame; ext_auto

theorem recvEof_ext (s : Streams) (b : Bool) : Ext s (s.recvEof b) := by
  unfold Streams.recvEof; ext_auto

theorem pollSendPendingRefusal_ext (n : Nat) (s : Streams) (w : Writer) (io : Tio) (t : String) :
    Ext s (pollSendPendingRefusal n s w io t).1 := by
  induction n generalizing s w io with
  | zero => unfold pollSendPendingRefusal; ext_auto
  | succ n ih => unfold pollSendPendingRefusal; ext_auto_ih ih

theorem applyRemoteSettings_ext (s : Streams) (v : List (Nat × Nat)) (b : Bool) : Ext s (s.applyRemoteSettings v b).1 := by
  unfold Streams.applyRemoteSettings; ext_auto

theorem refInc_ext (s : Streams) (id : Nat) : Ext s (s.refInc id) := by
  unfold Streams.refInc; ext_auto

theorem cloneStreamRef_ext (s : Streams) (id : Nat) : Ext s (s.cloneStreamRef id) := by
  unfold Streams.cloneStreamRef; ext_auto

theorem maybeCancel_ext (s : Streams) (id : Nat) : Ext s (s.maybeCancel id) := by
  unfold Streams.maybeCancel; ext_auto

theorem pollPendingOpen_ext (s : Streams) (p : Option Nat) (t : String) : Ext s (s.pollPendingOpen p t).1 := by
  unfold Streams.pollPendingOpen; ext_auto

theorem nextIncoming_ext (s : Streams) : Ext s s.nextIncoming.1 := by
  unfold Streams.nextIncoming; ext_auto

theorem refSendResponse_ext (s : Streams) (k : Nat) (f : List Hpack.Field) (e : Bool) : Ext s (s.refSendResponse k f e).1 := by
  unfold Streams.refSendResponse; ext_auto

theorem refSendInformationalHeaders_ext (s : Streams) (k : Nat) (f : List Hpack.Field) :
    Ext s (s.refSendInformationalHeaders k f).1 := by
  unfold Streams.refSendInformationalHeaders; ext_auto

theorem cloneHandle_ext (s : Streams) : Ext s s.cloneHandle := by
  unfold Streams.cloneHandle; ext_auto

theorem dropHandle_ext (s : Streams) : Ext s s.dropHandle := by
  unfold Streams.dropHandle; ext_auto

theorem refSendData_ext (s : Streams) (id len : Nat) (e : Bool) : Ext s (s.refSendData id len e).1 := by
  unfold Streams.refSendData; ext_auto

theorem refSendTrailers_ext (s : Streams) (id : Nat) (f : List Hpack.Field) : Ext s (s.refSendTrailers id f).1 := by
  unfold Streams.refSendTrailers; ext_auto

theorem refSendReset_ext (s : Streams) (id : Nat) (r : Reason) : Ext s (s.refSendReset id r) := by
  unfold Streams.refSendReset; ext_auto

theorem refReserveCapacity_ext (s : Streams) (id c : Nat) : Ext s (s.refReserveCapacity id c) := by
  unfold Streams.refReserveCapacity; ext_auto

theorem refPollData_ext (s : Streams) (id : Nat) (t : String) : Ext s (s.refPollData id t).1 := by
  unfold Streams.refPollData; ext_auto

theorem recvHeaders_ext (s : Streams) (h : HeadersIn) : Ext s (s.recvHeaders h).1 := by
  unfold Streams.recvHeaders; ext_auto
  all_goals rfl

theorem recvPushPromise_ext (s : Streams) (id : Nat) (h : HeadersIn) : Ext s (s.recvPushPromise id h).1 := by
  unfold Streams.recvPushPromise; ext_auto
  all_goals (first | rfl | skip)

theorem sendRequest_ext (s : Streams) (b : Bool) (f : List Hpack.Field) (e : Bool) (p : Option Nat) :
    Ext s (s.sendRequest b f e p).1 := by
  unfold Streams.sendRequest; ext_auto
  all_goals (first | rfl | skip)
  all_goals
    have h1 := (‹Ext _ _› : Ext _ _).init
    have h2 := Ext.init (Ext.of_fst_eq ‹Streams.sendOpenId _ = _› (sendOpenId_ext _))
    rw [Stream.new_recvFlow, h2, h1]

theorem reserveLocal_state_same {s : Streams} {id : Nat} {st' : State} {r : Except UserError Unit}
    (h : (s.stream id).state.reserveLocal = (st', r)) (x : Stream) (hx : s.store.get? id = some x) :
    SameR x { x with state := st', isPendingPush := true } := by
  refine ⟨rfl, rfl, rfl, fun hc => ?_, fun h => h⟩
  rw [stream_eq_of_get? hx] at h
  have := reserveLocal_closed x.state hc
  rw [h] at this; exact this

theorem refSendPushPromise_ext (s : Streams) (p : Nat) (v : Bool) (f : List Hpack.Field) :
    Ext s (s.refSendPushPromise p v f).1 := by
  unfold Streams.refSendPushPromise; ext_auto
  all_goals (first | rfl | exact reserveLocal_state_same (by assumption) | skip)

theorem refPollPushed_ext (s : Streams) (id : Nat) (tag : String) : Ext s (s.refPollPushed id tag).1 := by
  unfold Streams.refPollPushed; ext_auto

end H2V.Lemmas.ConnRecvP
