import H2V.Lemmas.ConnCountsPSend
/-
  C05 / C18 / C19 — part 7: `Ev` for the rest of `prioritize.rs` and for `send.rs` (`ConnSend.lean`).
-/
namespace H2V.Lemmas.ConnCountsP
open H2V H2V.Model H2V.Model.Conn
variable {ρ : Bool}
attribute [local irreducible] wrapSubU32 wrapSubUsize

theorem mem_cons_pp {l : List SFrame} {g : SFrame} (hg : SFrame.isPP g = false) :
    ∀ f ∈ g :: l, SFrame.isPP f = true → f ∈ l := by
  intro f hf hp
  rcases List.mem_cons.mp hf with h | h
  · rw [h, hg] at hp; cases hp
  · exact h

macro_rules | `(tactic| ev_side) => `(tactic| (intro _ _; exact setPendingSend_same' _ _ (mem_cons_pp rfl)))

theorem reclaimFrameInner_ev (s : Streams) (frame : DataFrame) : EvB ρ s (s.reclaimFrameInner frame).1 := by
  unfold Streams.reclaimFrameInner
  ev_auto

theorem reclaimFrame_ev (s : Streams) (w : Writer) : EvB ρ s (s.reclaimFrame w).1 := by
  unfold Streams.reclaimFrame
  ev_auto

theorem bufferOut_ev (s : Streams) (w : Writer) (f : Streams.OutFrame) : EvB ρ s (s.bufferOut w f).1 := by
  unfold Streams.bufferOut
  ev_auto

theorem prioBufferPendingLoop_ev : ∀ (fuel : Nat) (s : Streams) (w : Writer), EvB ρ s (Streams.prioBufferPendingLoop fuel s w).1 := by
  intro fuel
  induction fuel with
  | zero => intro s w; exact panic_ev _ _
  | succ n ih =>
    intro s w
    unfold Streams.prioBufferPendingLoop
    ev_auto_ih ih

theorem prioBufferPending_ev (fuel : Nat) (s : Streams) (w : Writer) : EvB ρ s (Streams.prioBufferPending fuel s w).1 := by
  unfold Streams.prioBufferPending
  ev_auto

-- ===================================================================== send.rs

theorem isLocalInit_add_two (c : Counts) (id : Nat) : c.isLocalInit (id + 2) = c.isLocalInit id := by
  unfold Counts.isLocalInit
  have : (id + 2) % 2 = id % 2 := by omega
  rw [this]

theorem sendOpenId_ev (s : Streams) : EvB ρ s s.sendOpenId.1 := by
  unfold Streams.sendOpenId
  split
  · exact .refl _
  · next id hid =>
    dsimp only
    refine modSend_ev _ _ ?_ ?_
    · intro _; rfl
    intro y hy
    refine ⟨id, hid, ?_⟩
    dsimp only at hy
    split at hy
    · cases hy
    · cases hy; exact ⟨by omega, .inl (by omega)⟩

theorem sendMaybeResetNextStreamId_ev (s : Streams) (id : Nat) (h : s.counts.isLocalInit id = true) :
    EvB ρ s (s.sendMaybeResetNextStreamId id) := by
  unfold Streams.sendMaybeResetNextStreamId
  split
  · next nxt hn =>
    split
    · next hge =>
      refine modSend_ev _ _ ?_ ?_
      · intro _; rfl
      intro y hy
      refine ⟨nxt, hn, ?_⟩
      dsimp only at hy
      split at hy
      · cases hy
      · cases hy
        refine ⟨by omega, .inr ?_⟩
        have := isLocalInit_add_two s.counts id
        unfold Counts.isLocalInit at this h
        rw [this]; exact h
    · exact .refl _
  · exact .refl _

theorem sendHeaders_ev (s : Streams) (id : Nat) (eos : Bool) (fields : List Hpack.Field) :
    EvB ρ s (s.sendHeaders id eos fields).1 := by
  unfold Streams.sendHeaders
  split
  · exact .refl _
  · split
    · exact .refl _
    · next st' u heq =>
      dsimp only
      have e1 : EvB ρ s (s.modStream id fun st => { st with state := st' }) :=
        modStream_ev' _ _ _ (setState_same _ _ (fun h => absurd h (sendOpen_not_early heq)))
      refine .trans e1 ?_
      generalize (s.modStream id fun st => { st with state := st' }) = s1
      split
      · next hpo =>
        have hl : s1.counts.isLocalInit (s1.stream id).id = true := by
          simp only [Bool.and_eq_true] at hpo; exact hpo.1
        refine .trans (queueOpen_ev _ _ hl) (.trans (queueFrame_ev _ _ _ rfl) (notifyTask_ev _))
      · exact queueFrame_ev _ _ _ rfl

/-- `Send::send_push_promise`: the PUSH_PROMISE frame is queued on the parent -/
theorem sendInterimInformationalHeaders_ev (s : Streams) (id : Nat) (fields : List Hpack.Field) :
    EvB ρ s (s.sendInterimInformationalHeaders id fields).1 := by
  unfold Streams.sendInterimInformationalHeaders
  ev_auto

theorem scheduleImplicitReset_ev (s : Streams) (id : Nat) (reason : Reason) : EvB ρ s (s.scheduleImplicitReset id reason) := by
  unfold Streams.scheduleImplicitReset
  ev_auto

theorem sendTrailers_ev (s : Streams) (id : Nat) (fields : List Hpack.Field) : EvB ρ s (s.sendTrailers id fields).1 := by
  unfold Streams.sendTrailers
  ev_auto

theorem pollCapacity_ev (s : Streams) (id : Nat) (tag : String) : EvB ρ s (s.pollCapacity id tag).1 := by
  unfold Streams.pollCapacity
  ev_auto

theorem pollReset_ev (s : Streams) (id : Nat) (mode : PollReset) (tag : String) : EvB ρ s (s.pollReset id mode tag).1 := by
  unfold Streams.pollReset
  ev_auto

theorem sendRecvGoAway_ev (s : Streams) (last : Nat) : EvB ρ s (s.sendRecvGoAway last).1 := by
  unfold Streams.sendRecvGoAway
  ev_auto

theorem sendHandleError_ev (s : Streams) (id : Nat) : EvB ρ s (s.sendHandleError id) := by
  unfold Streams.sendHandleError
  ev_auto

theorem decStreamWindow_ev (dec acc : Nat) (s : Streams) (id : Nat) : EvB ρ s (Streams.decStreamWindow dec acc s id).1 := by
  unfold Streams.decStreamWindow
  ev_auto

theorem sendClearQueues_ev (s : Streams) : EvB ρ s s.sendClearQueues := by
  unfold Streams.sendClearQueues
  exact .trans (.trans (clearPendingCapacity_ev _ _) (clearPendingSend_ev _ _)) (clearPendingOpen_ev _ _)

-- ===================================================================== send_reset

theorem panic_panic (s : Streams) (a b : String) : (s.panic a).panic b = s.panic a := by
  unfold Streams.panic
  cases h : s.panicked <;> simp [h]

theorem setStream_setStream (s : Streams) (a b : Stream) (h : b.key = a.key) : (s.setStream a).setStream b = s.setStream b := by
  unfold Streams.setStream Store.set
  simp only [List.map_map]
  congr 2
  apply List.map_congr_left
  intro x _
  simp only [Function.comp]
  by_cases hx : x.key == a.key
  · simp only [hx, if_true]
    have : (a.key == b.key) = true := by simp [h]
    have hx' : (x.key == b.key) = true := by simp at hx ⊢; omega
    simp [this, hx']
  · have hx' : (x.key == b.key) = false := by simp at hx ⊢; omega
    simp [hx, hx']

theorem modStream_modStream (s : Streams) (k : Nat) (f g : Stream → Stream) (hf : ∀ x, (f x).key = x.key)
    (hg : ∀ x, (g x).key = x.key) : (s.modStream k f).modStream k g = s.modStream k (fun x => g (f x)) := by
  unfold Streams.modStream
  cases h : s.store.get? k with
  | none =>
    simp only [panic_store, h, panic_panic]
  | some st =>
    have hk := get?_key h
    have : (s.setStream (f st)).store.get? k = some (f st) := by
      rw [setStream_get?, h]; simp [hf, hk]
    simp only [this]
    exact setStream_setStream _ _ _ (by rw [hg])

theorem modPrio_modStream (s : Streams) (k : Nat) (g : Stream → Stream) (h : Prioritize → Prioritize) :
    (s.modPrio h).modStream k g = (s.modStream k g).modPrio h := by
  unfold Streams.modStream
  have : (s.modPrio h).store = s.store := rfl
  rw [this]
  cases s.store.get? k with
  | none =>
    unfold Streams.panic
    show (match s.panicked with | some _ => s.modPrio h | none => _) = _
    cases s.panicked <;> rfl
  | some st => rfl

def fDrop : Stream → Stream := fun st => { st with pendingSend := st.pendingSend.drop 1 }
def fClr : Stream → Stream := fun st => { st with pendingSend := [], bufferedSendData := 0, requestedSendCapacity := 0 }
def fApp (f : SFrame) : Stream → Stream := fun st => { st with pendingSend := st.pendingSend ++ [f] }
def pDrop : Prioritize → Prioritize := fun p => { p with inFlightDataFrame := .drop }

theorem modStream_prio (s : Streams) (k : Nat) (f : Stream → Stream) : (s.modStream k f).prio = s.prio := by
  unfold Streams.modStream Streams.prio; split
  · rfl
  · rw [panic_actions]

theorem clearQueue_eq (t : Streams) (id : Nat) :
    t.clearQueue id =
      (match t.prio.inFlightDataFrame with
       | .dataFrame k => if k = id then (t.modStream id fClr).modPrio pDrop else t.modStream id fClr
       | _ => t.modStream id fClr) := by
  unfold Streams.clearQueue
  show (match (t.modStream id fClr).prio.inFlightDataFrame with
        | .dataFrame k => if k = id then (t.modStream id fClr).modPrio pDrop else t.modStream id fClr
        | _ => t.modStream id fClr) = _
  rw [modStream_prio]

/-- the `pending_open` branch of `send_reset`: only the first queued frame (the HEADERS) survives.
    The three updates of the entry are one update whose PUSH_PROMISE frames were queued before. -/
theorem keepHead_ev (s : Streams) (id : Nat) (f : SFrame) (hf : (s.stream id).pendingSend.head? = some f) :
    EvB ρ s (((s.modStream id fDrop).clearQueue id).modStream id (fApp f)) := by
  have hcomp : ((s.modStream id fDrop).modStream id fClr).modStream id (fApp f) =
      s.modStream id (fun x => fApp f (fClr (fDrop x))) := by
    rw [modStream_modStream s id fDrop fClr (fun _ => rfl) (fun _ => rfl),
        modStream_modStream s id (fun x => fClr (fDrop x)) (fApp f) (fun _ => rfl) (fun _ => rfl)]
  have hev : EvB ρ s (s.modStream id (fun x => fApp f (fClr (fDrop x)))) := by
    refine modStream_ev' _ _ _ ?_
    refine ⟨rfl, rfl, rfl, fun q => by cases q <;> rfl, fun h => h, ?_⟩
    intro g hg _
    have : g = f := by simpa [fApp, fClr, fDrop] using hg
    rw [this]
    exact List.mem_of_mem_head? hf
  rw [clearQueue_eq, modStream_prio]
  split
  · split
    · rw [modPrio_modStream, hcomp]
      exact .trans hev (modPrio_ev _ _ (fun _ => ⟨rfl, rfl, rfl⟩))
    · rw [hcomp]; exact hev
  · rw [hcomp]; exact hev

theorem sendSendReset_ev (s : Streams) (id : Nat) (reason : Reason) (init : Initiator) :
    EvB ρ s (s.sendSendReset id reason init) := by
  unfold Streams.sendSendReset
  dsimp only
  split
  · exact .refl _
  · have e1 : EvB ρ s (s.modStreamW id fun st => st.setReset reason init) := modStreamW_ev' _ _ _ (setReset_same _ _ _)
    refine .trans e1 ?_
    generalize (s.modStreamW id fun st => st.setReset reason init) = s1
    split
    · exact .refl _
    · refine .trans ?_ (reclaimAllCapacity_ev _ _)
      refine .trans ?_ (queueFrame_ev _ _ _ rfl)
      split
      · split
        · next f hf => exact keepHead_ev s1 id f hf
        · exact .trans (modStream_ev' _ _ _ (setPendingSend_same' _ _ (fun _ h _ => List.mem_of_mem_drop h))) (clearQueue_ev _ _)
      · exact clearQueue_ev _ _

theorem sendPushPromise_ev (s : Streams) (parent pk pid : Nat) (fields : List Hpack.Field)
    (hl : s.counts.isLocalInit pid = true) : EvB ρ s (s.sendPushPromise parent pk pid fields).1 := by
  unfold Streams.sendPushPromise
  split
  · exact .refl _
  · split
    · exact .refl _
    · split
      · exact .refl _
      · unfold Streams.queueFrame
        exact .trans (.queuePP parent pk pid fields hl) (scheduleSend_ev _ _)

theorem sendRecvStreamWindowUpdate_ev (s : Streams) (id sz : Nat) : EvB ρ s (s.sendRecvStreamWindowUpdate id sz).1 := by
  unfold Streams.sendRecvStreamWindowUpdate
  ev_auto

theorem sendApplyRemoteSettings_ev (s : Streams) (a b c : Option Nat) : EvB ρ s (s.sendApplyRemoteSettings a b c).1 := by
  unfold Streams.sendApplyRemoteSettings
  ev_auto

end H2V.Lemmas.ConnCountsP
