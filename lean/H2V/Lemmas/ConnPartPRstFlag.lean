import H2V.Lemmas.ConnWakePTear
/-
  ConnPartP, part 5 — C09: a stream that `Send::send_reset` resets is SCHEDULED (its `is_pending_send`
  link is set, i.e. it sits in the connection's `pending_send` queue) whenever it is send-ready (not
  waiting in `pending_open`, not an unannounced pushed stream), and nothing `reset_on_recv_stream_err` /
  `Actions::send_reset` does afterwards takes it out again.

  `Rdy a b`: key, id, `is_pending_open`, `is_pending_push` unchanged; `is_pending_send` not cleared.
-/
namespace H2V.Lemmas.ConnPartP
open H2V H2V.Model H2V.Model.Conn H2V.Lemmas.ConnWakeP

structure Rdy (a b : Stream) : Prop where
  key : b.key = a.key
  id : b.id = a.id
  isPendingOpen : b.isPendingOpen = a.isPendingOpen
  isPendingPush : b.isPendingPush = a.isPendingPush
  isPendingSend : a.isPendingSend = true → b.isPendingSend = true

instance : IsPre Rdy where
  refl _ := ⟨rfl, rfl, rfl, rfl, fun h => h⟩
  trans h1 h2 := ⟨h2.key.trans h1.key, h2.id.trans h1.id, h2.isPendingOpen.trans h1.isPendingOpen,
    h2.isPendingPush.trans h1.isPendingPush, fun h => h2.isPendingSend (h1.isPendingSend h)⟩
  key h := h.key

@[grind =] theorem rdy_iff (a b : Stream) : Rdy a b ↔ (b.key = a.key ∧ b.id = a.id ∧ b.isPendingOpen = a.isPendingOpen ∧
    b.isPendingPush = a.isPendingPush ∧ (a.isPendingSend = true → b.isPendingSend = true)) :=
  ⟨fun h => ⟨h.1, h.2, h.3, h.4, h.5⟩, fun ⟨h1, h2, h3, h4, h5⟩ => ⟨h1, h2, h3, h4, h5⟩⟩

theorem Rdy.isSendReady {a b : Stream} (h : Rdy a b) : b.isSendReady = a.isSendReady := by
  unfold Stream.isSendReady; rw [h.isPendingOpen, h.isPendingPush]

@[grind ←] theorem rdy_notifySend (x : Stream) : Rdy x x.notifySend.1 := by
  cases h1 : x.sendTask <;> cases h2 : x.openTask <;> simp [rdy_iff, Stream.notifySend, h1, h2]
@[grind ←] theorem rdy_notifyRecv (x : Stream) : Rdy x x.notifyRecv.1 := by
  cases h1 : x.recvTask <;> simp [rdy_iff, Stream.notifyRecv, h1]
@[grind ←] theorem rdy_notifyPush (x : Stream) : Rdy x x.notifyPush.1 := by
  cases h1 : x.pushTask <;> simp [rdy_iff, Stream.notifyPush, h1]
@[grind ←] theorem rdy_setReset (x : Stream) (r : Reason) (i : Initiator) : Rdy x (x.setReset r i).1 := by
  cases h1 : x.sendTask <;> cases h2 : x.openTask <;> cases h3 : x.recvTask <;> cases h4 : x.pushTask <;>
    simp [rdy_iff, Stream.setReset, Stream.notifySend, Stream.notifyPush, Stream.notifyRecv, h1, h2, h3, h4]
@[grind ←] theorem rdy_assignCapacity (x : Stream) (c m : Nat) : Rdy x (x.assignCapacity c m).1 := by
  unfold Stream.assignCapacity Stream.notifyCapacity
  simp only
  split
  · have := rdy_notifySend { x with sendFlow := (x.sendFlow.assignCapacity c).1, sendCapacityInc := true }
    exact ⟨this.key, this.id, this.isPendingOpen, this.isPendingPush, this.isPendingSend⟩
  · exact ⟨rfl, rfl, rfl, rfl, fun h => h⟩
@[grind ←] theorem rdy_setQueued_pendingSend (x : Stream) : Rdy x (x.setQueued .pendingSend true) :=
  ⟨rfl, rfl, rfl, rfl, fun _ => rfl⟩
@[grind ←] theorem rdy_setQueued_pendingCapacity (x : Stream) (v : Bool) : Rdy x (x.setQueued .pendingCapacity v) :=
  ⟨rfl, rfl, rfl, rfl, fun h => h⟩
@[grind ←] theorem rdy_setQueued_pendingResetExpired (x : Stream) (v : Bool) : Rdy x (x.setQueued .pendingResetExpired v) :=
  ⟨rfl, rfl, rfl, rfl, fun h => h⟩

/-- no entry removed, id map untouched, every entry `Rdy` -/
abbrev YS := GStep False Rdy

section
variable {s0 s : Streams}

@[grind ←] theorem y_qPush_pendingSend (k : Nat) (h : YS s0 s) : YS s0 (s.qPush .pendingSend k).1 := by
  unfold Streams.qPush; tear_grind
@[grind ←] theorem y_qPush_pendingCapacity (k : Nat) (h : YS s0 s) : YS s0 (s.qPush .pendingCapacity k).1 := by
  unfold Streams.qPush; tear_grind
@[grind ←] theorem y_qPush_pendingResetExpired (k : Nat) (h : YS s0 s) : YS s0 (s.qPush .pendingResetExpired k).1 := by
  unfold Streams.qPush; tear_grind
@[grind ←] theorem y_qPop_pendingCapacity (h : YS s0 s) : YS s0 (s.qPop .pendingCapacity).1 := by
  unfold Streams.qPop; tear_grind
@[grind ←] theorem y_tryAssignCapacity (k : Nat) (h : YS s0 s) : YS s0 (s.tryAssignCapacity k) := by
  unfold Streams.tryAssignCapacity; tear_grind

theorem y_assignConnectionCapacityLoop (n : Nat) (h : YS s0 s) : YS s0 (Streams.assignConnectionCapacityLoop n s) := by
  induction n generalizing s with
  | zero => unfold Streams.assignConnectionCapacityLoop; exact h
  | succ n ih =>
    unfold Streams.assignConnectionCapacityLoop
    split
    · split
      · next s1 heq => exact (y_qPop_pendingCapacity h).of_fst heq
      · next s1 id heq =>
        have h1 : YS s0 s1 := (y_qPop_pendingCapacity h).of_fst heq
        simp only
        split
        · exact ih h1
        · next hc =>
          have hc' : ((s1.stream id).state.isSendStreaming || decide ((s1.stream id).bufferedSendData > 0)) = true := by
            cases hh : ((s1.stream id).state.isSendStreaming || decide ((s1.stream id).bufferedSendData > 0)) with
            | true => rfl
            | false => rw [hh] at hc; simp at hc
          have hnc : ((s1.tryAssignCapacity id).stream id).isClosed = false := by
            rw [FS.isClosed_eq (f_tryAssignCapacity id (GStep.refl s1))]
            exact not_closed_of_streaming hc'
          exact ih ((y_tryAssignCapacity id h1).trans (.of_store_eq (transitionAfter_store_of_not_closed hnc)))
    · exact h
attribute [grind ←] y_assignConnectionCapacityLoop

@[grind ←] theorem y_assignConnectionCapacity (inc : Nat) (h : YS s0 s) : YS s0 (s.assignConnectionCapacity inc) := by
  unfold Streams.assignConnectionCapacity; tear_grind
@[grind ←] theorem y_reclaimAllCapacity (k : Nat) (h : YS s0 s) : YS s0 (s.reclaimAllCapacity k) := by
  unfold Streams.reclaimAllCapacity; tear_grind
@[grind ←] theorem y_clearQueue (k : Nat) (h : YS s0 s) : YS s0 (s.clearQueue k) := by
  unfold Streams.clearQueue; tear_grind
@[grind ←] theorem y_scheduleSend (k : Nat) (h : YS s0 s) : YS s0 (s.scheduleSend k) := by
  unfold Streams.scheduleSend; tear_grind
@[grind ←] theorem y_queueFrame (k : Nat) (f : SFrame) (h : YS s0 s) : YS s0 (s.queueFrame k f) := by
  unfold Streams.queueFrame; tear_grind
@[grind ←] theorem y_enqueueResetExpiration (k : Nat) (h : YS s0 s) : YS s0 (s.enqueueResetExpiration k) := by
  unfold Streams.enqueueResetExpiration; tear_grind
@[grind ←] theorem y_sendSendReset (k : Nat) (r : Reason) (i : Initiator) (h : YS s0 s) : YS s0 (s.sendSendReset k r i) := by
  unfold Streams.sendSendReset; tear_grind

/-- `Queue::push` leaves the stream linked -/
theorem qPush_flag (q : QName) (k : Nat) (x : Stream) (hx : s.store.get? k = some x) :
    ∃ y, (s.qPush q k).1.store.get? k = some y ∧ y.isQueued q = true := by
  unfold Streams.qPush
  have hst : s.stream k = x := stream_eq_of_get? hx
  rw [hst]
  by_cases hq : x.isQueued q = true
  · rw [if_pos hq]; exact ⟨x, hx, hq⟩
  · rw [if_neg hq]
    refine ⟨x.setQueued q true, ?_, by cases q <;> rfl⟩
    have h1 := get?_modStream_same (fun st => st.setQueued q true) hx (by cases q <;> rfl)
    cases q <;> exact h1

/-- `queue_frame` on a send-ready stream leaves it linked in `pending_send` -/
theorem queueFrame_flag (k : Nat) (f : SFrame) (x : Stream) (hx : s.store.get? k = some x) (hr : x.isSendReady = true) :
    ∃ y, (s.queueFrame k f).store.get? k = some y ∧ y.isPendingSend = true := by
  unfold Streams.queueFrame Streams.scheduleSend
  have h1 := get?_modStream_same (fun st => { st with pendingSend := st.pendingSend ++ [f] }) hx rfl
  have hst := stream_eq_of_get? h1
  rw [hst]
  have : ({ x with pendingSend := x.pendingSend ++ [f] } : Stream).isSendReady = true := hr
  rw [if_pos this]
  obtain ⟨y, hy, hq⟩ := qPush_flag (s := s.modStream k fun st => { st with pendingSend := st.pendingSend ++ [f] })
    .pendingSend k _ h1
  refine ⟨y, ?_, hq⟩
  have : ((s.modStream k fun st => { st with pendingSend := st.pendingSend ++ [f] }).qPush .pendingSend k).1.notifyTask.store =
      ((s.modStream k fun st => { st with pendingSend := st.pendingSend ++ [f] }).qPush .pendingSend k).1.store := by
    unfold Streams.notifyTask; split <;> rfl
  rw [this]; exact hy

end

end H2V.Lemmas.ConnPartP
