import H2V.Lemmas.ConnCountsPStreams2
/-
  C05 / C18 / C19 — invariants, part A: keys.  One slab entry per key, keys handed out in increasing
  order, along every evolution `Ev` / `EvT`.  Everything else about the slab is stated through
  look-ups, which this invariant makes unambiguous.
-/
namespace H2V.Lemmas.ConnCountsP
open H2V H2V.Model H2V.Model.Conn
variable {ρ : Bool}

structure KeysOK (s : Streams) : Prop where
  nodup : (s.store.slab.map (·.key)).Nodup
  fresh : KeysFresh s

/-- a step that keeps the list of keys of the slab -/
structure SameKeys (s s' : Streams) : Prop where
  keys : s'.store.slab.map (·.key) = s.store.slab.map (·.key)
  nextKey : s'.store.nextKey = s.store.nextKey

theorem SameKeys.refl (s : Streams) : SameKeys s s := ⟨rfl, rfl⟩
theorem SameKeys.trans {a b c : Streams} (h1 : SameKeys a b) (h2 : SameKeys b c) : SameKeys a c :=
  ⟨h2.keys.trans h1.keys, h2.nextKey.trans h1.nextKey⟩
theorem SameKeys.of_store_eq {s s' : Streams} (h : s'.store = s.store) : SameKeys s s' := ⟨by rw [h], by rw [h]⟩

theorem SameKeys.keysOK {s s' : Streams} (h : SameKeys s s') (hk : KeysOK s) : KeysOK s' := by
  refine ⟨by rw [h.keys]; exact hk.nodup, ?_⟩
  intro x hx
  have : x.key ∈ s'.store.slab.map (·.key) := List.mem_map_of_mem hx
  rw [h.keys] at this
  obtain ⟨y, hy, hyk⟩ := List.mem_map.mp this
  rw [h.nextKey, ← hyk]; exact hk.fresh y hy

theorem SameKeys.setStream (s : Streams) (st' : Stream) : SameKeys s (s.setStream st') := by
  refine ⟨?_, rfl⟩
  unfold Streams.setStream Store.set
  simp only [List.map_map]
  apply List.map_congr_left
  intro x _
  simp only [Function.comp]
  by_cases h : x.key == st'.key
  · simp only [h, if_true]; simp at h; exact h.symm
  · simp only [h]; rfl

theorem SameKeys.panic' (s : Streams) (m : String) : SameKeys s (s.panic m) := .of_store_eq (panic_store _ _)
theorem SameKeys.setQ (s : Streams) (q : QName) (l : List Nat) : SameKeys s (s.setQ q l) := .of_store_eq (setQ_store _ _ _)

theorem SameKeys.modStream (s : Streams) (k : Nat) (f : Stream → Stream) : SameKeys s (s.modStream k f) := by
  unfold Streams.modStream
  split
  · exact SameKeys.setStream _ _
  · exact SameKeys.panic' _ _

theorem SameKeys.modCountsA (s : Streams) (w : String) (f : Counts → Option Counts) : SameKeys s (s.modCountsA w f) := by
  unfold Streams.modCountsA
  split
  · exact .of_store_eq rfl
  · exact SameKeys.panic' _ _

theorem SameKeys.modCounts (s : Streams) (f : Counts → Counts) : SameKeys s (s.modCounts f) := .of_store_eq rfl

/-- goals `SameKeys s E` where `E` is built from `s` by `panic`, counter updates, `modStream`s, `setQ`s and `if`s -/
macro "sk_auto" : tactic =>
  `(tactic| repeat (first
      | with_reducible exact SameKeys.refl _
      | with_reducible refine SameKeys.trans ?_ (SameKeys.panic' _ _)
      | with_reducible refine SameKeys.trans ?_ (SameKeys.modStream _ _ _)
      | with_reducible refine SameKeys.trans ?_ (SameKeys.setQ _ _ _)
      | with_reducible refine SameKeys.trans ?_ (SameKeys.modCountsA _ _ _)
      | with_reducible refine SameKeys.trans ?_ (SameKeys.modCounts _ _)
      | split))

theorem SameKeys.qPush (s : Streams) (q : QName) (k : Nat) : SameKeys s (s.qPush q k).1 := by
  unfold Streams.qPush; sk_auto
theorem SameKeys.qPushFront (s : Streams) (q : QName) (k : Nat) : SameKeys s (s.qPushFront q k).1 := by
  unfold Streams.qPushFront; sk_auto
theorem SameKeys.qPop (s : Streams) (q : QName) : SameKeys s (s.qPop q).1 := by
  unfold Streams.qPop; sk_auto
theorem SameKeys.incNumSendStreams (s : Streams) (k : Nat) : SameKeys s (s.incNumSendStreams k) := by
  unfold Streams.incNumSendStreams; dsimp only; sk_auto
theorem SameKeys.incNumRecvStreams (s : Streams) (k : Nat) : SameKeys s (s.incNumRecvStreams k) := by
  unfold Streams.incNumRecvStreams; dsimp only; sk_auto
theorem SameKeys.decNumStreams (s : Streams) (k : Nat) : SameKeys s (s.decNumStreams k) := by
  unfold Streams.decNumStreams; dsimp only; sk_auto

theorem KeysOK.insert {s : Streams} (h : KeysOK s) (st : Stream) : KeysOK { s with store := (s.store.insert st).1 } := by
  refine ⟨?_, ?_⟩
  · show ((s.store.slab ++ [({ st with key := s.store.nextKey } : Stream)]).map (fun x : Stream => x.key)).Nodup
    rw [List.map_append, List.nodup_append]
    refine ⟨h.nodup, by simp, ?_⟩
    intro a ha b hb
    simp only [List.map_cons, List.map_nil, List.mem_singleton] at hb
    obtain ⟨y, hy, hyk⟩ := List.mem_map.mp ha
    have := h.fresh y hy
    omega
  · intro x hx
    have hx' : x ∈ s.store.slab ++ [({ st with key := s.store.nextKey } : Stream)] := hx
    show x.key < s.store.nextKey + 1
    rcases List.mem_append.mp hx' with h1 | h1
    · have := h.fresh x h1; omega
    · simp only [List.mem_singleton] at h1; rw [h1]; exact Nat.lt_succ_self _

theorem KeysOK.remove {s : Streams} (h : KeysOK s) (k n : Nat) :
    KeysOK { s with store := s.store.remove k, recvBufferLeaked := n } := by
  refine ⟨?_, ?_⟩
  · show ((s.store.slab.filter (·.key != k)).map (·.key)).Nodup
    exact ((List.filter_sublist (l := s.store.slab) (p := fun x => x.key != k)).map (fun x : Stream => x.key)).nodup h.nodup
  · intro x hx
    have hx' : x ∈ s.store.slab.filter (·.key != k) := hx
    exact h.fresh x (List.mem_filter.mp hx').1

theorem EvB.keysOK {s s' : Streams} (h : EvB ρ s s') : KeysOK s → KeysOK s' := by
  induction h with
  | refl s => exact id
  | trans _ _ ih1 ih2 => exact fun h => ih2 (ih1 h)
  | free h => exact (SameKeys.of_store_eq h.store).keysOK
  | setStream st' _ => exact (SameKeys.setStream _ _).keysOK
  | qPush q k _ _ => exact (SameKeys.qPush _ _ _).keysOK
  | qPushFront q k _ _ => exact (SameKeys.qPushFront _ _ _).keysOK
  | qPushOpen k _ => exact (SameKeys.qPush _ _ _).keysOK
  | qPop q _ _ => exact (SameKeys.qPop _ _).keysOK
  | qPopOpen => exact (SameKeys.qPop _ _).keysOK
  | resetEnq k _ _ _ => exact ((SameKeys.modCountsA _ _ _).trans (SameKeys.qPush _ _ _)).keysOK
  | insert st _ _ => exact fun h => h.insert st
  | bracket st _ _ _ ih => exact fun h => ih (h.insert st)
  | unlink _ => exact fun h => ⟨h.nodup, h.fresh⟩
  | remove k n _ => exact fun h => h.remove k n
  | popOpen _ =>
    rename_i s0 _
    have := SameKeys.qPop s0 QName.pendingOpen
    split
    · next s1 id heq => rw [heq] at this; exact (this.trans (SameKeys.incNumSendStreams _ _)).keysOK
    · next s1 heq => rw [heq] at this; exact this.keysOK
  | acceptFlag k v => exact (SameKeys.modStream _ _ _).keysOK
  | queuePP k pk pid fields _ => exact (SameKeys.modStream _ _ _).keysOK
  | ppAct sid pk pid fields rest pushed _ _ =>
    rename_i s0 _ _
    refine (SameKeys.trans (SameKeys.modStream s0 sid (fun st => { st with pendingSend := rest })) ?_).keysOK
    generalize s0.modStream sid (fun st => { st with pendingSend := rest }) = s1
    unfold ppActivate Streams.queueOpen
    dsimp only
    repeat (first
      | with_reducible exact SameKeys.refl _
      | with_reducible refine SameKeys.trans ?_ (SameKeys.qPush _ _ _)
      | with_reducible refine SameKeys.trans ?_ (SameKeys.incNumSendStreams _ _)
      | with_reducible refine SameKeys.trans ?_ (SameKeys.modStream _ _ _)
      | split)
  | incRecv k st' s1 _ hf =>
    exact ((SameKeys.modStream _ _ _).trans ((SameKeys.of_store_eq hf.store).trans (SameKeys.incNumRecvStreams _ _))).keysOK
  | decNum k => exact (SameKeys.decNumStreams _ _).keysOK

/-- `transition_after(stream, true)` = the reset-counter decrement (when the stream has left
    `pending_reset_expired`) followed by `transition_after(stream, false)` -/
theorem transitionAfter_split (s : Streams) (k : Nat) (b : Bool) :
    s.transitionAfter k b =
      (if (b && !(s.stream k).isPendingResetExpiration) = true then
        s.modCountsA "self.num_local_reset_streams > 0" Counts.decNumResetStreams else s).transitionAfter k false := by
  generalize hs1 : (if (b && !(s.stream k).isPendingResetExpiration) = true then
        s.modCountsA "self.num_local_reset_streams > 0" Counts.decNumResetStreams else s) = s1
  have hst : s1.stream k = s.stream k := by
    rw [← hs1]; split
    · unfold Streams.modCountsA Streams.stream; split
      · rfl
      · rw [panic_store]
    · rfl
  unfold Streams.transitionAfter
  simp only [Bool.false_and, Bool.false_eq_true, if_false, hst, hs1]

/-- the tail of `EvT`'s `resetPop` -/
theorem transitionAfter_false_ev (s : Streams) (k : Nat) : Ev s (s.transitionAfter k false) :=
  transitionAfter_ev s k false (fun h => Bool.noConfusion h)

theorem EvT.keysOK {s s' : Streams} (h : EvT s s') : KeysOK s → KeysOK s' := by
  induction h with
  | ev h => exact h.keysOK
  | trans _ _ ih1 ih2 => exact fun h => ih2 (ih1 h)
  | resetPop =>
    rename_i s0
    intro h
    have := (SameKeys.qPop s0 QName.pendingResetExpired).keysOK h
    split
    · next s1 id heq =>
      rw [heq] at this
      rw [transitionAfter_split]
      refine (transitionAfter_false_ev _ _).keysOK ?_
      split
      · exact (SameKeys.modCountsA _ _ _).keysOK this
      · exact this
    · next s1 heq => rw [heq] at this; exact this

end H2V.Lemmas.ConnCountsP
