import H2V.Lemmas.ConnHttpPRecv
/-
  C13 (ConnHttpP), part 11 — `Inner::recv_headers` (streams.rs): for EVERY state and EVERY received
  head, all that reaches any receive queue is one event for a head that passed every check of
  `Recv::recv_headers`, or one trailers event.
-/
namespace H2V.Lemmas.ConnHttpP
open H2V H2V.Model H2V.Model.Conn

/-- `find_entry(id)` / opening a new stream -/
def rhEntry (s : Streams) (h : HeadersIn) : Streams × Except PErr (Option Nat) :=
  match s.store.findKey? h.sid with
  | some k => (s, .ok (some k))
  | none =>
    if !s.counts.isServer && s.mayHaveForgottenStream h.sid then (s, .error (PErr.libraryReset h.sid STREAM_CLOSED))
    else
      match s.recvOpen h.sid false with
      | (s, .error e) => (s, .error e)
      | (s, .ok false) => (s, .ok none)
      | (s, .ok true) =>
        let st := Stream.new h.sid s.actions.send.initWindowSz s.recv.initWindowSz
        let (store, k) := s.store.insert st
        ({ s with store := store }, .ok (some k))

/-- the closure handed to `counts.transition` -/
def rhBody (s : Streams) (k : Nat) (h : HeadersIn) : Streams × Except PErr Unit :=
  if !(s.stream k).state.isRecvHeaders && !h.eos then (s, .error (PErr.libraryReset h.sid PROTOCOL_ERROR))
  else
  let (s, res) : Streams × Except PErr Unit :=
    if (s.stream k).state.isRecvHeaders then
      match s.recvRecvHeaders k h with
      | (s, .ok) => (s, .ok ())
      | (s, .oversize true) =>
        let f431 : List Hpack.Field := [{ h := (Hpack.pStatus, Http.str "431"), sensitive := false, nameless := false }]
        let s := (s.sendHeaders k true f431).1
        let s := s.scheduleImplicitReset k PROTOCOL_ERROR
        (s.enqueueResetExpiration k, .ok ())
      | (s, .oversize false) => (s, .error (PErr.libraryReset h.sid PROTOCOL_ERROR))
      | (s, .state e) => (s, .error e)
      | (s, .unsupported) => (s.unsup "request URI outside the modelled subset", .ok ())
    else s.recvRecvTrailers k h
  s.resetOnRecvStreamErr k res

theorem recvHeaders_eq (s : Streams) (h : HeadersIn) :
    s.recvHeaders h =
      if h.sid > s.recv.maxStreamId then (s, .ok ())
      else
        match rhEntry s h with
        | (s, .error e) => (s, .error e)
        | (s, .ok none) => (s, .ok ())
        | (s, .ok (some k)) =>
          if (s.stream k).isPendingOpen then (s, .error (PErr.libraryGoAway PROTOCOL_ERROR))
          else if (s.stream k).state.isLocalError then (s, .ok ())
          else s.transition k fun s => rhBody s k h := rfl


theorem cfg_recvOpen (s : Streams) (id : Nat) (pp : Bool) : cfgOf (s.recvOpen id pp).1 = cfgOf s := by
  generalize hr : s.recvOpen id pp = r
  unfold Streams.recvOpen at hr
  simp only at hr
  have h1 : cfgOf (if s.recv.refused.isSome = true then s.panic "assertion failed: self.refused.is_none()" else s)
      = cfgOf s := by
    split
    · exact cfg_panic _ _
    · rfl
  generalize (if s.recv.refused.isSome = true then s.panic "assertion failed: self.refused.is_none()" else s) = s1 at h1 hr
  repeat' split at hr
  all_goals (subst hr; first | exact h1 | (rw [← h1]; rfl))

theorem rhEntry_quiet (s : Streams) (h : HeadersIn) :
    Quiet s (rhEntry s h).1 ∧ cfgOf (rhEntry s h).1 = cfgOf s := by
  unfold rhEntry
  split
  · exact ⟨Quiet.refl _, rfl⟩
  · split
    · exact ⟨Quiet.refl _, rfl⟩
    · have q := (Quiet.refl s).recvOpen h.sid false
      have c := cfg_recvOpen s h.sid false
      generalize s.recvOpen h.sid false = r at q c ⊢
      obtain ⟨s1, res⟩ := r
      simp only at q c
      split
      · rename_i heq; cases heq; exact ⟨q, c⟩
      · rename_i heq; cases heq; exact ⟨q, c⟩
      · rename_i heq
        cases heq
        simp only
        exact ⟨q.trans (quiet_insert _ _ rfl), c⟩


/-- what `Inner::recv_headers` may hand over for the frame `h` -/
def FrameAccepted (cfg : Bool × Bool) (h : HeadersIn) (ev : REvent) : Prop :=
  HeadAccepted cfg h ev ∨ TrailersAccepted h ev

theorem rhBody_delivers (s : Streams) (k : Nat) (h : HeadersIn) :
    Delivers (fun _ ev => FrameAccepted (cfgOf s) h ev) s (rhBody s k h).1 := by
  unfold rhBody
  split
  · exact (Quiet.refl s).delivers
  · have mid : ∀ (x : Streams × Except PErr Unit),
        x = (if (s.stream k).state.isRecvHeaders then
          match s.recvRecvHeaders k h with
          | (s, .ok) => (s, .ok ())
          | (s, .oversize true) =>
            let f431 : List Hpack.Field := [{ h := (Hpack.pStatus, Http.str "431"), sensitive := false, nameless := false }]
            let s := (s.sendHeaders k true f431).1
            let s := s.scheduleImplicitReset k PROTOCOL_ERROR
            (s.enqueueResetExpiration k, .ok ())
          | (s, .oversize false) => (s, .error (PErr.libraryReset h.sid PROTOCOL_ERROR))
          | (s, .state e) => (s, .error e)
          | (s, .unsupported) => (s.unsup "request URI outside the modelled subset", .ok ())
        else s.recvRecvTrailers k h) →
        Delivers (fun _ ev => FrameAccepted (cfgOf s) h ev) s x.1 := by
      intro x hx
      split at hx
      · have d := (recvRecvHeaders_delivers s k h).1.mono (Q := fun _ ev => FrameAccepted (cfgOf s) h ev)
          (fun _ ev hp => Or.inl hp.2)
        generalize s.recvRecvHeaders k h = r at d hx
        obtain ⟨s1, res⟩ := r
        simp only at d
        split at hx
        all_goals (rename_i heq; cases heq; subst hx; simp only)
        · exact d
        · exact d.step (by quiet; exact (Quiet.refl s1).sendHeaders _ _ _)
        · exact d
        · exact d
        · exact d.step (by quiet)
      · subst hx
        exact (recvRecvTrailers_delivers s k h).1.mono (fun _ ev hp => Or.inr hp.2)
    have := mid _ rfl
    generalize (if (s.stream k).state.isRecvHeaders then
          match s.recvRecvHeaders k h with
          | (s, .ok) => (s, .ok ())
          | (s, .oversize true) =>
            let f431 : List Hpack.Field := [{ h := (Hpack.pStatus, Http.str "431"), sensitive := false, nameless := false }]
            let s := (s.sendHeaders k true f431).1
            let s := s.scheduleImplicitReset k PROTOCOL_ERROR
            (s.enqueueResetExpiration k, .ok ())
          | (s, .oversize false) => (s, .error (PErr.libraryReset h.sid PROTOCOL_ERROR))
          | (s, .state e) => (s, .error e)
          | (s, .unsupported) => (s.unsup "request URI outside the modelled subset", .ok ())
        else s.recvRecvTrailers k h) = x at this ⊢
    obtain ⟨s1, res⟩ := x
    exact this.step ((Quiet.refl s1).resetOnRecvStreamErr k res)

/-- **`Inner::recv_headers`, every state, every frame**: every receive queue afterwards is empty, or
    what it was, or that plus ONE event — the head of `h` if it passed every check of
    `Recv::recv_headers` (`HeadAccepted`), or `h` as trailers -/
theorem recvHeaders_delivers (s : Streams) (h : HeadersIn) :
    Delivers (fun _ ev => FrameAccepted (cfgOf s) h ev) s (s.recvHeaders h).1 := by
  rw [recvHeaders_eq]
  split
  · exact (Quiet.refl s).delivers
  · obtain ⟨q, c⟩ := rhEntry_quiet s h
    generalize rhEntry s h = r at q c ⊢
    obtain ⟨s1, res⟩ := r
    simp only at q c
    split
    all_goals (rename_i heq; cases heq)
    · exact q.delivers
    · exact q.delivers
    · rename_i k
      split
      · exact q.delivers
      · split
        · exact q.delivers
        · unfold Streams.transition
          simp only
          have d := rhBody_delivers s1 k h
          rw [c] at d
          exact (q.then d).step ((Quiet.refl _).transitionAfter _ _)

end H2V.Lemmas.ConnHttpP
