import H2V.Lemmas.ConnNoPanicPHeaders
/-
  C08 (no panic) — part 10: the handle calls keep `NPI`.
-/
namespace H2V.Lemmas.ConnNoPanicP
open H2V H2V.Model H2V.Model.Conn H2V.Lemmas.ConnCountsP
attribute [local irreducible] wrapSubU32 wrapSubUsize


-- ===================================================================== handle calls that are light steps

theorem refReserveCapacity_npi {E : Nat → Prop} {s : Streams} (h : NPI E s) {k : Nat} (hk : Live s k) (c : Nat) :
    NPI E (s.refReserveCapacity k c) :=
  h.lt (refReserveCapacity_lt s k c).w (liveAll1 hk) (refReserveCapacity_ev (ρ := false) s k c) noE
theorem pollCapacity_npi {E : Nat → Prop} {s : Streams} (h : NPI E s) {k : Nat} (hk : Live s k) (t : String) :
    NPI E (s.pollCapacity k t).1 :=
  h.lt (pollCapacity_lt s k t).w (liveAll1 hk) (pollCapacity_ev (ρ := false) s k t) noE
theorem pollReset_npi {E : Nat → Prop} {s : Streams} (h : NPI E s) {k : Nat} (hk : Live s k) (m : PollReset) (t : String) :
    NPI E (s.pollReset k m t).1 :=
  h.lt (pollReset_lt s k m t).w (liveAll1 hk) (pollReset_ev (ρ := false) s k m t) noE
theorem refPollData_npi {E : Nat → Prop} {s : Streams} (h : NPI E s) {k : Nat} (hk : Live s k) (t : String) :
    NPI E (s.refPollData k t).1 :=
  h.lt (refPollData_lt s k t).w (liveAll1 hk) (refPollData_ev (ρ := false) s k t) noE
theorem recvPollTrailers_npi {E : Nat → Prop} {s : Streams} (h : NPI E s) {k : Nat} (hk : Live s k) (t : String) :
    NPI E (s.recvPollTrailers k t).1 :=
  h.lt (recvPollTrailers_lt s k t).w (liveAll1 hk) (recvPollTrailers_ev (ρ := false) s k t) noE
theorem recvPollInformational_npi {E : Nat → Prop} {s : Streams} (h : NPI E s) {k : Nat} (hk : Live s k) (t : String) :
    NPI E (s.recvPollInformational k t).1 :=
  h.lt (recvPollInformational_lt s k t).w (liveAll1 hk) (recvPollInformational_ev (ρ := false) s k t) noE
theorem refReleaseCapacity_npi {E : Nat → Prop} {s : Streams} (h : NPI E s) {k : Nat} (hk : Live s k) (c : Nat) :
    NPI E (s.refReleaseCapacity k c).1 :=
  h.lt (refReleaseCapacity_lt s k c).w (liveAll1 hk) (refReleaseCapacity_ev (ρ := false) s k c) noE
theorem refClearRecvBuffer_npi {E : Nat → Prop} {s : Streams} (h : NPI E s) {k : Nat} (hk : Live s k) :
    NPI E (s.refClearRecvBuffer k) :=
  h.lt (refClearRecvBuffer_lt s k).w (liveAll1 hk) (refClearRecvBuffer_ev (ρ := false) s k) noE
theorem pollPendingOpen_npi {E : Nat → Prop} {s : Streams} (h : NPI E s) (p : Option Nat) (hp : ∀ k, p = some k → Live s k) (t : String) :
    NPI E (s.pollPendingOpen p t).1 :=
  h.lt (pollPendingOpen_lt s p t).w (fun k hk => hp k (by cases p <;> simp_all)) (pollPendingOpen_ev (ρ := false) s p t) noE
theorem cloneHandle_npi {E : Nat → Prop} {s : Streams} (h : NPI E s) : NPI E s.cloneHandle :=
  h.lt (cloneHandle_lt s).w (liveAll0 s) (cloneHandle_ev (ρ := false) s) noE
theorem dropHandle_npi {E : Nat → Prop} {s : Streams} (h : NPI E s) : NPI E s.dropHandle :=
  h.lt (dropHandle_lt s).w (liveAll0 s) (dropHandle_ev (ρ := false) s) noE
theorem recvGoAway_npi {E : Nat → Prop} {s : Streams} (h : NPI E s) (l : Nat) (hl : s.recv.maxStreamId ≥ l) : NPI E (s.recvGoAway l) :=
  h.lt (recvGoAway_lt s l hl).w (liveAll0 s) (recvGoAway_ev (ρ := false) s l) noE
theorem wake_npi {E : Nat → Prop} {s : Streams} (h : NPI E s) (t : List String) : NPI E (s.wake t) :=
  h.lt (wake_lt (ks := []) s t).w (liveAll0 s) (wake_ev (ρ := false) s t) noE

theorem NPI.parts {E : Nat → Prop} {ρ : Bool} {s s' : Streams} (h : NPI E s) (hk : SameKeys s s')
    (hids : s'.store.ids = s.store.ids) (hsid : SPr (·.id) s s') (hq : NPQ s') (e : EvB ρ s s')
    (hE : ρ = true → ∀ k, ¬ E k) : NPI E s' :=
  h.ev e hE hq.np hq.av (h.ids.of_frame hk hids hsid)

theorem npq_modStream_flagfree {s : Streams} (hq : NPQ s) {k : Nat} (hk : Live s k) (f : Stream → Stream)
    (h1 : ∀ x, (f x).key = x.key) (h2 : ∀ x, (f x).isQueued .pendingCapacity = x.isQueued .pendingCapacity)
    (h3 : ∀ x, (f x).sendFlow = x.sendFlow) : NPQ (s.modStream k f) :=
  ⟨by rw [modStream_panicked_live hk]; exact hq.np, (SameKeys.modStream _ _ _).keysOK hq.keys,
   (QF.modStream _ s k f h1 h2).qok hq.qc, avOK_modStream_flow _ _ h3 hq.av⟩

theorem refInc_npi {E : Nat → Prop} {s : Streams} (h : NPI E s) {k : Nat} (hk : Live s k) : NPI E (s.refInc k) := by
  unfold Streams.refInc
  exact h.parts (SameKeys.modStream _ _ _) (modStream_ids _ _ _) (SPr.modStream _ _ _ (fun _ => rfl) (fun _ => rfl))
    (npq_modStream_flagfree h.npq hk _ (fun _ => rfl) (fun _ => rfl) (fun _ => rfl)) (refInc_ev (ρ := false) s k) noE

theorem cloneStreamRef_npi {E : Nat → Prop} {s : Streams} (h : NPI E s) {k : Nat} (hk : Live s k) : NPI E (s.cloneStreamRef k) := by
  have h1 := refInc_npi h hk
  unfold Streams.cloneStreamRef
  exact h1.lt (setMisc_lt (ks := []) _ _ _ _ _ _ rfl).w (liveAll0 _) (setMisc_ev (ρ := false) _ _ _ _ _ _ ⟨rfl, rfl, rfl, rfl, rfl⟩) noE


theorem sendOpenId_store (s : Streams) : s.sendOpenId.1.store = s.store := by
  unfold Streams.sendOpenId; split <;> rfl

theorem sendOpenId_ok {s s1 : Streams} {id : Nat} (h : s.sendOpenId = (s1, .ok id)) : s.actions.send.nextStreamId = some id := by
  unfold Streams.sendOpenId at h
  split at h
  · cases h
  · next id' hn => simp only [Prod.mk.injEq, Except.ok.injEq] at h; rw [hn, h.2]

/-- `Streams::send_request` after its guards (copied from the model) -/
def sendRequestCore (isHead : Bool) (fields : List Hpack.Field) (eos : Bool) (s : Streams) : Streams × Except ApiErr (Nat × Bool) :=
      match s.sendOpenId with
      | (s, .error e) => (s, .error (.user e))
      | (s, .ok id) =>
        let st := Stream.new id s.actions.send.initWindowSz s.recv.initWindowSz
        let st := if isHead then { st with contentLength := .head } else st
        let s := if s.store.contains id then s.panic "assertion failed: self.ids.insert(id, index).is_none()" else s
        let (store, k) := s.store.insert st
        let s := { s with store := store }
        match s.sendHeaders k eos fields with
        | (s, .error e) =>
          ({ s with store := (s.store.unlink id).remove k }, .error (.user e))
        | (s, .ok _) =>
          let s := { s with refs := s.refs + 1 }
          let isFull := s.counts.nextSendStreamWillReachCapacity
          (s.refInc k, .ok (k, isFull))

theorem sendRequest_cases (s : Streams) (isHead : Bool) (fields : List Hpack.Field) (eos : Bool) (pending : Option Nat) :
    (s.sendRequest isHead fields eos pending).1 = s ∨
    s.sendRequest isHead fields eos pending = sendRequestCore isHead fields eos s := by
  unfold Streams.sendRequest
  repeat (first | (left; rfl) | (right; rfl) | split)

theorem sendRequestCore_npi {s : Streams} (h : NPI (fun _ => False) s) (isHead : Bool) (fields : List Hpack.Field) (eos : Bool)
    (hfree : ∀ id, s.actions.send.nextStreamId = some id → s.store.contains id = false)
    (ew : Ev s (sendRequestCore isHead fields eos s).1) :
    NPI (fun _ => False) (sendRequestCore isHead fields eos s).1 := by
  unfold sendRequestCore at ew ⊢
  generalize hso : s.sendOpenId = p at ew ⊢
  obtain ⟨s1, r⟩ := p
  have hst1 : s1.store = s.store := by have := sendOpenId_store s; rw [hso] at this; exact this
  have h1 : NPI (fun _ => False) s1 :=
    h.lt (LT.of_fst_eq hso (sendOpenId_lt s)).w (liveAll0 s) (EvB.of_fst_eq hso (sendOpenId_ev (ρ := true) s)) (fun _ _ h => h)
  cases r with
  | error e => exact h1
  | ok id =>
    simp only [] at ew ⊢
    have hnc : s1.store.contains id = false := by rw [hst1]; exact hfree id (sendOpenId_ok hso)
    simp only [hnc, Bool.false_eq_true, if_false] at ew ⊢
    generalize hst : (if isHead = true then _ else Stream.new id s1.actions.send.initWindowSz s1.recv.initWindowSz) = st at ew ⊢
    have hfr : Fresh st := by
      rw [← hst]; split
      · exact ⟨rfl, fun q => by cases q <;> rfl, rfl, rfl⟩
      · exact fresh_new _ _ _
    have hav : st.sendFlow.available.val ≤ 2147483647 := by
      rw [← hst]; split
      · exact new_av id s1.actions.send.initWindowSz s1.recv.initWindowSz
      · exact new_av id s1.actions.send.initWindowSz s1.recv.initWindowSz
    obtain ⟨h2, hl2⟩ := h1.insert st hfr hav
    have hkk : (s1.store.insert st).2 = s1.store.nextKey := rfl
    rw [hkk] at ew ⊢
    generalize hsh : Streams.sendHeaders _ s1.store.nextKey eos fields = q at ew ⊢
    obtain ⟨s3, r3⟩ := q
    have h3 : NPI (fun j => j = s1.store.nextKey) s3 :=
      h2.lt (LT.of_fst_eq hsh (sendHeaders_lt _ _ _ _)).w (liveAll1 hl2) (EvB.of_fst_eq hsh (sendHeaders_ev (ρ := false) _ _ _ _)) noE
    have hlt3 := LT.of_fst_eq hsh (sendHeaders_lt _ s1.store.nextKey eos fields)
    have hl3 : Live s3 s1.store.nextKey := hlt3.keys.live.mpr hl2
    cases r3 with
    | error e =>
      simp only [] at ew ⊢
      have hid3 : (s3.stream s1.store.nextKey).id = id := by
        have hs := hlt3.sid s1.store.nextKey
        simp only [] at hs
        rw [hs]
        have : ({ s1 with store := (s1.store.insert st).1 } : Streams).stream s1.store.nextKey = { st with key := s1.store.nextKey } :=
          stream_of_get? (insert_get?_new h1.keys.fresh st)
        rw [this]
        show st.id = id
        rw [← hst]; split <;> rfl
      have hne : ∀ x ∈ Store.swapRemove s3.store.ids id, x.2 ≠ s1.store.nextKey := by
        intro x hx hxk
        have hx' := ConnWakeP.mem_of_mem_swapRemove hx
        have := (h3.ids.live x hx').2
        rw [hxk, hid3] at this
        exact swapRemove_not_mem h3.ids.nodup id x hx this.symm
      refine h.ev ew (fun _ _ h => h) h3.np ?_ ⟨ConnWakeP.swapRemove_nodup h3.ids.nodup _, ?_⟩
      · intro x hx
        exact h3.av x (List.mem_filter.mp hx).1
      · intro x hx
        have hx' := ConnWakeP.mem_of_mem_swapRemove hx
        have hl := h3.ids.live x hx'
        have hn := hne x hx
        refine ⟨?_, ?_⟩
        · obtain ⟨y, hy⟩ := hl.1
          exact ⟨y, by show ((s3.store.unlink id).remove s1.store.nextKey).get? x.2 = some y; rw [get?_remove_ne _ _ _ hn]; exact hy⟩
        · have : ({ s3 with store := (s3.store.unlink id).remove s1.store.nextKey } : Streams).stream x.2 = s3.stream x.2 := by
            unfold Streams.stream
            show (((s3.store.unlink id).remove s1.store.nextKey).get? x.2).getD _ = _
            rw [get?_remove_ne _ _ _ hn]; rfl
          rw [this]; exact hl.2
    | ok u =>
      simp only [] at ew ⊢
      have h4 := h3.lt (setMisc_lt (ks := []) s3 s3.actions (s3.refs + 1) s3.recvBufferLeaked s3.wakes s3.unsupported rfl).w (liveAll0 _)
        (setMisc_ev (ρ := false) _ _ _ _ _ _ ⟨rfl, rfl, rfl, rfl, rfl⟩) noE
      have hX := refInc_npi h4 (k := s1.store.nextKey) hl3
      exact h.ev ew (fun _ _ h => h) hX.np hX.av hX.ids

/-- `Streams::send_request` keeps the invariant, given that the next stream id is not yet in the id map
    (the `assert!(self.ids.insert(id, index).is_none())` of `Store::insert`) -/
theorem sendRequest_npi {s : Streams} (h : NPI (fun _ => False) s) (isHead : Bool) (fields : List Hpack.Field) (eos : Bool)
    (pending : Option Nat)
    (hfree : ∀ id, s.actions.send.nextStreamId = some id → s.store.contains id = false) :
    NPI (fun _ => False) (s.sendRequest isHead fields eos pending).1 := by
  have ew := sendRequest_ev s h.keys.fresh isHead fields eos pending
  rcases sendRequest_cases s isHead fields eos pending with e | e
  · rw [e]; exact h
  · rw [e] at ew ⊢; exact sendRequestCore_npi h isHead fields eos hfree ew


/-- the state `drop_stream_ref` hands to its `transition`: handle count decremented, task notified -/
def dropPre (s : Streams) (k : Nat) : Streams :=
  let s := { s with refs := s.refs - 1 }
  let s := if (s.stream k).refCount > 0 then s else s.panic "assertion failed: self.ref_count > 0"
  let s := s.modStream k fun st => { st with refCount := st.refCount - 1 }
  let st := s.stream k
  if (st.refCount == 0 && st.isClosed) || s.refs == 1 then s.notifyTask else s

/-- the loop over the promised streams in `drop_stream_ref` -/
def dropFold (ppp : List Nat) (s : Streams) : Streams :=
  ppp.foldl (fun s promise =>
        let s := s.modStream promise fun st => { st with isPendingAccept := false }
        (s.transition promise fun s =>
          let s := s.maybeCancel promise
          (if (s.stream promise).refCount == 0 then s.releaseClosedCapacity promise else s, ())).1) s

/-- the closure of `drop_stream_ref` -/
def dropClosure (k : Nat) (s : Streams) : Streams × Unit :=
    let s := s.maybeCancel k
    if (s.stream k).refCount == 0 then
      let s := s.releaseClosedCapacity k
      let ppp := (s.stream k).pendingPushPromises
      let s := s.modStream k fun st => { st with pendingPushPromises := [] }
      (dropFold ppp s, ())
    else (s, ())

theorem dropClosure_nil (t : Streams) (k : Nat)
    (hppp : (((t.maybeCancel k).releaseClosedCapacity k).stream k).pendingPushPromises = []) :
    (dropClosure k t).1 = if ((t.maybeCancel k).stream k).refCount == 0 then
      (((t.maybeCancel k).releaseClosedCapacity k).modStream k fun st => { st with pendingPushPromises := [] })
      else t.maybeCancel k := by
  unfold dropClosure
  dsimp only
  split
  · rw [hppp]; rfl
  · rfl

theorem dropStreamRef_eq (s : Streams) (k : Nat) : s.dropStreamRef k = ((dropPre s k).transition k (dropClosure k)).1 := rfl

/-- the promised streams `drop_stream_ref` would visit -/
def dropPPP (s : Streams) (k : Nat) : List Nat :=
  ((((dropPre s k).maybeCancel k).releaseClosedCapacity k).stream k).pendingPushPromises

theorem dropPre_npi {E : Nat → Prop} {s : Streams} (h : NPI E s) {k : Nat} (hk : Live s k) (hr : (s.stream k).refCount > 0) :
    NPI E (dropPre s k) ∧ Live (dropPre s k) k ∧ ErrSame s (dropPre s k) := by
  unfold dropPre
  dsimp only
  have hs0 : ({ s with refs := s.refs - 1 } : Streams).stream k = s.stream k := rfl
  rw [hs0]
  simp only [hr, if_true]
  have h0 : NPI E { s with refs := s.refs - 1 } :=
    h.lt (setMisc_lt (ks := []) s s.actions (s.refs - 1) s.recvBufferLeaked s.wakes s.unsupported rfl).w (liveAll0 _)
      (setMisc_ev (ρ := false) _ _ _ _ _ _ ⟨rfl, rfl, rfl, rfl, rfl⟩) noE
  have hk0 : Live ({ s with refs := s.refs - 1 } : Streams) k := hk
  have h1 : NPI E (({ s with refs := s.refs - 1 } : Streams).modStream k fun st => { st with refCount := st.refCount - 1 }) :=
    h0.parts (SameKeys.modStream _ _ _) (modStream_ids _ _ _) (SPr.modStream _ _ _ (fun _ => rfl) (fun _ => rfl))
      (npq_modStream_flagfree h0.npq hk0 _ (fun _ => rfl) (fun _ => rfl) (fun _ => rfl))
      (modStream_ev (ρ := false) _ k _ (fun st _ => by same_fields)) noE
  have hk1 := (SameKeys.modStream ({ s with refs := s.refs - 1 } : Streams) k fun st => { st with refCount := st.refCount - 1 }).live.mpr hk0
  have he1 : ErrSame s (({ s with refs := s.refs - 1 } : Streams).modStream k fun st => { st with refCount := st.refCount - 1 }) := by
    unfold ErrSame; rw [modStream_counts]; exact ⟨rfl, rfl⟩
  split
  · exact ⟨h1.lt (notifyTask_lt (ks := []) _).w (liveAll0 _) (notifyTask_ev (ρ := false) _) noE,
      (notifyTask_lt (ks := []) _).keys.live.mpr hk1, he1.trans (notifyTask_lt (ks := []) _).err⟩
  · exact ⟨h1, hk1, he1⟩

/-- **`drop_stream_ref` keeps the invariant** when the handle exists (`ref_count > 0`) and the stream has no
    promised streams left to cancel (always on a server; on a client unless PUSH_PROMISEs were received on
    this stream and never polled) -/
theorem dropStreamRef_npi {s : Streams} (h : NPI (fun _ => False) s) {k : Nat} (hk : Live s k)
    (hr : (s.stream k).refCount > 0) (hppp : dropPPP s k = []) (he : ErrOK s) : NPI (fun _ => False) (s.dropStreamRef k) := by
  rw [dropStreamRef_eq]
  obtain ⟨h1, hk1, he1⟩ := dropPre_npi h hk hr
  unfold dropPPP at hppp
  generalize dropPre s k = t at h1 hk1 he1 hppp ⊢
  have hle : LE [k] t (dropClosure k t).1 ∧ ErrSame t (dropClosure k t).1 := by
    rw [dropClosure_nil t k hppp]
    have hm := maybeCancel_lt t k
    split
    · have h2 : LT [k] t (((t.maybeCancel k).releaseClosedCapacity k).modStream k
          fun st => { st with pendingPushPromises := [] }) := by lt_auto
      refine ⟨LE.of h2 ?_, h2.err⟩
      exact .trans (.trans (maybeCancel_ev _ _) (releaseClosedCapacity_ev _ _)) (modStream_ev _ _ _ (fun st _ => by same_fields))
    · exact ⟨LE.of hm (maybeCancel_ev _ _), hm.err⟩
  exact transition_npi k _ (h1.lt hle.1.lt (liveAll1 hk1) (ρ := true) hle.1.ev (fun _ _ h => h)) (ρ := true) hle.1.ev (hle.2.errOK (he1.errOK he))

end H2V.Lemmas.ConnNoPanicP
