import H2V.Lemmas.ConnCountsPReach
import H2V.Lemmas.CompBasic
import H2V.Lemmas.ConnCountsPLocal
/-
  C05 / C18 / C19 — concrete reachable states (non-vacuity witnesses), evaluated by the kernel.
-/
namespace H2V.Lemmas.ConnCountsP
open H2V H2V.Model H2V.Model.Conn

def wConn : Conn := Conn.init {}
def wFld (n v : String) : Hpack.Field := { h := (Http.str n, Http.str v), sensitive := false, nameless := false }
def wGet : List Hpack.Field := [wFld ":method" "GET", wFld ":scheme" "http", wFld ":authority" "example.com", wFld ":path" "/"]
/-- a client that has called `send_request(GET /, end_of_stream)` … -/
def wS1 : Streams := (wConn.streams.sendRequest false wGet true none).1
/-- … and whose connection task has written the request (`poll_complete`) -/
def wS2 : Streams := (Streams.pollComplete 10 wS1 wConn.codec.w wConn.codec.io "c").1

theorem wS2_reach : Reach wS2 :=
  .step (.step (.init (.client {} rfl)) (.sendRequest _ false wGet true none)) (.pollComplete 10 _ _ _ "c")

theorem wS2_facts : wS2.panicked = none ∧ wS2.counts.numSendStreams = 1 ∧ wS2.counts.numRecvStreams = 0 ∧
    cntAll wS2 = 1 ∧ wS2.store.slab.length = 1 := by decide +kernel

-- ===================================================================== Q1 and Q3 of ConnNOTES.md, replayed

def wPost : List Hpack.Field := [wFld ":method" "POST", wFld ":scheme" "http", wFld ":authority" "example.com", wFld ":path" "/a"]

/-- stream state + codec writer + transport, threaded through `poll_complete` -/
abbrev SWI := Streams × Writer × Tio
def wPoll (x : SWI) : SWI := let r := Streams.pollComplete 20 x.1 x.2.1 x.2.2 "c"; (r.1, r.2.1, r.2.2.1)
def wOn (f : Streams → Streams) (x : SWI) : SWI := (f x.1, x.2)

theorem wPoll_reach {x : SWI} (h : Reach x.1) : Reach (wPoll x).1 := .step h (.pollComplete 20 _ _ _ "c")
theorem wOn_reach {x : SWI} {f : Streams → Streams} (h : Reach x.1) (hs : ApiStep x.1 (f x.1)) : Reach (wOn f x).1 := .step h hs

attribute [local instance] H2V.Lemmas.Comp.instDecidableEqExcept

/-- Q1 (`notes/conn/q1-double-rst.ops`): `max_concurrent_reset_streams = 0`; POST sent; both handles
    dropped while the response HEADERS is still in flight; the late HEADERS frame -/
def q1Conn : Conn := Conn.init { resetMax := 0 }
def q1a : SWI := (q1Conn.streams, q1Conn.codec.w, q1Conn.codec.io)
def q1a1 : SWI := wOn (fun s => (s.sendRequest false wPost false none).1) q1a
def q1a2 : SWI := wOn (fun s => s.cloneStreamRef 0) q1a1
def q1b : SWI := wPoll q1a2
def q1b1 : SWI := wOn (fun s => s.dropStreamRef 0) q1b
def q1c : SWI := wOn (fun s => s.dropStreamRef 0) q1b1
def q1Headers : HeadersIn := { sid := 1, eos := false, status := some (Http.str "200") }
def q1c1 : SWI := wOn (fun s => (s.recvHeaders q1Headers).1) q1c
def q1d : SWI := wOn (fun s => (s.innerSendReset 1 STREAM_CLOSED).1) q1c1
def q1e : SWI := wPoll q1d

theorem q1_reach : Reach q1d.1 := by
  have h0 : Reach q1a.1 := .init (.client { resetMax := 0 } rfl)
  have h1 : Reach q1a1.1 := wOn_reach h0 (.sendRequest _ false wPost false none)
  have h2 : Reach q1a2.1 := wOn_reach h1 (.cloneStreamRef _ 0)
  have h3 : Reach q1b.1 := wPoll_reach h2
  have h4 : Reach q1b1.1 := wOn_reach h3 (.dropStreamRef _ 0)
  have h5 : Reach q1c.1 := wOn_reach h4 (.dropStreamRef _ 0)
  have h6 : Reach q1c1.1 := wOn_reach h5 (.recvHeaders _ q1Headers)
  exact wOn_reach h6 (.innerSendReset _ 1 STREAM_CLOSED)

/-- **Q1 counterexample** (a defect of the real code that is still there): a reachable state, no
    panic, in which the store holds TWO slab entries for stream id 1 (the candidate invariant "one
    slab entry per stream id" fails; one entry per *key* holds, see `Reach.inv`), one of them a bogus
    entry created by `Inner::send_reset` for a stream the protocol had forgotten too early; the late
    frame was answered as "for a forgotten stream" (`STREAM_CLOSED`), the bogus reset is counted in
    `num_local_error_reset_streams`, and the peer is sent RST_STREAM twice for the same stream
    (`CANCEL`, then `STREAM_CLOSED`). -/
theorem q1_counterexample :
    q1d.1.panicked = none ∧
    q1c.1.store.ids = [] ∧                                        -- forgotten: unlinked …
    (q1c.1.store.slab.map fun x => (x.id, x.pendingSend.length, x.isPendingSend)) = [(1, 0, true)] ∧  -- … but still to be reset
    (q1c.1.recvHeaders q1Headers).2 = .error (.reset 1 STREAM_CLOSED .library) ∧
    (q1d.1.store.slab.filter (·.id == 1)).length = 2 ∧
    q1d.1.counts.numLocalErrorResetStreams = 1 ∧
    q1e.2.2.tx.drop 3 = ["R:1:8", "R:1:5"] := by decide +kernel

/-- Q3 (`notes/conn/q3-slab-leak.ops`): a cancelled upload parked in `pending_capacity` -/
def q3Conn : Conn := Conn.init { resetMax := 0 }
def q3a : SWI := (q3Conn.streams, q3Conn.codec.w, q3Conn.codec.io)
def q3b : SWI := wOn (fun s => (s.applyRemoteSettings [(4, 100000)] true).1) q3a
def q3b1 : SWI := wOn (fun s => (s.sendRequest false wPost false none).1) q3b
def q3c : SWI := wPoll (wOn (fun s => s.cloneStreamRef 0) q3b1)
def q3d : SWI := wPoll (wOn (fun s => (s.refSendData 0 70000 false).1) q3c)
def q3e : SWI := wPoll (wOn (fun s => s.refSendReset 0 8) q3d)
def q3e1 : SWI := wOn (fun s => s.dropStreamRef 0) q3e
def q3f : SWI := wOn (fun s => s.dropStreamRef 0) q3e1
def q3g : SWI := wPoll (wOn (fun s => (s.recvWindowUpdate 0 1000).1) q3f)

theorem q3_reach : Reach q3g.1 := by
  have h0 : Reach q3a.1 := .init (.client { resetMax := 0 } rfl)
  have h1 : Reach q3b.1 := wOn_reach h0 (.applyRemoteSettings _ [(4, 100000)] true)
  have h2 : Reach q3b1.1 := wOn_reach h1 (.sendRequest _ false wPost false none)
  have h3 : Reach q3c.1 := wPoll_reach (wOn_reach h2 (.cloneStreamRef _ 0))
  have h4 : Reach q3d.1 := wPoll_reach (wOn_reach h3 (.refSendData _ 0 70000 false))
  have h5 : Reach q3e.1 := wPoll_reach (wOn_reach h4 (.refSendReset _ 0 8))
  have h6 : Reach q3e1.1 := wOn_reach h5 (.dropStreamRef _ 0)
  have h7 : Reach q3f.1 := wOn_reach h6 (.dropStreamRef _ 0)
  exact wPoll_reach (wOn_reach h7 (.recvWindowUpdate _ 0 1000))

/-- **Q3 counterexample** (a defect of the real code that is still there): a reachable state, no
    panic, with a slab entry that nothing can reach any more: it is in no queue, has no handle
    (`ref_count = 0`), is not in the id map — and stays in the slab (another `poll_complete` does
    not change that): the `continue` of `assign_connection_capacity` popped it from
    `pending_capacity` without `transition`. -/
theorem q3_counterexample :
    q3g.1.panicked = none ∧
    (q3f.1.store.slab.map fun x => (x.id, x.refCount, x.isPendingSendCapacity)) = [(1, 0, true)] ∧   -- before: parked
    q3g.1.store.ids = [] ∧
    (q3g.1.store.slab.map fun x => (x.id, x.refCount, x.isClosed,
        x.isPendingSend || x.isPendingSendCapacity || x.isPendingOpen || x.isPendingAccept || x.isPendingWindowUpdate || x.resetAt))
      = [(1, 0, true, false)] ∧
    (q3g.1.prio.pendingSend, q3g.1.prio.pendingCapacity, q3g.1.prio.pendingOpen) = ([], [], []) ∧
    (q3g.1.recv.pendingWindowUpdates, q3g.1.recv.pendingAccept, q3g.1.recv.pendingResetExpired) = ([], [], []) ∧
    (wPoll q3g).1.store.slab.length = 1 := by decide +kernel

-- ===================================================================== per direction

/-- counted and initiated by the peer -/
def recvCounted (sv : Bool) (x : Stream) : Bool := x.isCounted && !locId sv x.id

theorem cnt_split (sv : Bool) (l : List Stream) :
    l.countP (·.isCounted) = l.countP (sendCounted sv) + l.countP (recvCounted sv) := by
  induction l with
  | nil => rfl
  | cons a l ih =>
    simp only [List.countP_cons, ih]
    unfold sendCounted recvCounted
    cases a.isCounted <;> cases locId sv a.id <;> simp <;> omega

/-- per-direction slot accounting in every reachable state -/
theorem Reach.direction {s : Streams} (h : Reach s) (hp : s.panicked = none) (herr : s.counts.canIncNumLocalErrorResets = true) :
    s.counts.numSendStreams = cntP (sendCounted s.counts.isServer) s ∧
    s.counts.numRecvStreams = cntP (recvCounted s.counts.isServer) s := by
  obtain ⟨hi1, hi2⟩ := h.inv.2.2 hp
  have hd := hi2.dir herr
  refine ⟨hd, ?_⟩
  have hs := hi1.sum
  unfold cntAll at hs
  rw [cnt_split s.counts.isServer] at hs
  unfold cntP at hd ⊢
  omega

/-- the invariants in the state right after any evolution of a reachable state -/
theorem Reach.inv_after {s s' : Streams} (h : Reach s) (e : Ev s s') (hp : s'.panicked = none) :
    Inv1 s' ∧ Inv2 s'.counts.isServer (fun _ => False) s' := by
  have hp0 := noPanic_of_mono e.mono hp
  obtain ⟨hA, _, hi⟩ := h.inv
  obtain ⟨hi1, hi2⟩ := hi hp0
  refine ⟨e.inv1 hp hA hi1, ?_⟩
  rw [e.nx.role]
  exact e.inv2 _ _ hp hA (fun _ _ h => h) hi2

/-- whenever `pop_pending_open` opens a stream in a reachable state, the number of counted locally
    initiated slab entries afterwards is within the peer's limit -/
theorem open_within_limit {s s' : Streams} {k : Nat} (h : Reach s) (hpop : s.popPendingOpen = (s', some k))
    (hp : s'.panicked = none) (herr : s'.counts.canIncNumLocalErrorResets = true) :
    cntP (sendCounted s'.counts.isServer) s' ≤ s'.counts.maxSendStreams := by
  have e : Ev s s' := .of_fst_eq hpop (popPendingOpen_ev s)
  have hd := (h.inv_after e hp).2.dir herr
  have := popPendingOpen_takes_slot s s' k hpop
  rw [← hd]; omega

end H2V.Lemmas.ConnCountsP
