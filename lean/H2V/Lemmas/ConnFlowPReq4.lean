import H2V.Lemmas.ConnFlowPReq3
/-
  ConnFlowP, part 20 — `ReqOk` through `streams.rs`, and on every reachable state; the drain theorem
  for reachable states.
-/
namespace H2V.Lemmas.ConnFlowP
open H2V H2V.Model H2V.Model.Conn H2V.Lemmas.Comp

theorem ReqOk.applyLocalSettings {t : Streams} (h : ReqOk t) (a b : Option Nat) : ReqOk (t.applyLocalSettings a b).1 := by
  req_by Streams.applyLocalSettings
macro_rules | `(tactic| req_peel) => `(tactic| with_reducible apply ReqOk.applyLocalSettings)

section
variable {s : Streams}

theorem ReqOk.resetOnRecvStreamErr (h : ReqOk s) (id : Nat) (r : Except PErr Unit) :
    ReqOk (s.resetOnRecvStreamErr id r).1 := by
  req_by Streams.resetOnRecvStreamErr
macro_rules | `(tactic| req_peel) => `(tactic| with_reducible apply ReqOk.resetOnRecvStreamErr)

theorem ReqOk.actionsSendReset (h : ReqOk s) (id : Nat) (r : Reason) (i : Initiator) :
    ReqOk (s.actionsSendReset id r i).1 := by
  req_by Streams.actionsSendReset
macro_rules | `(tactic| req_peel) => `(tactic| with_reducible apply ReqOk.actionsSendReset)

theorem ReqOk.clearQueues (h : ReqOk s) (b : Bool) : ReqOk (s.clearQueues b) := by
  req_by Streams.clearQueues
macro_rules | `(tactic| req_peel) => `(tactic| with_reducible apply ReqOk.clearQueues)

theorem ReqOk.recvHeaders (h : ReqOk s) (hd : HeadersIn) : ReqOk (s.recvHeaders hd).1 := by
  req_by Streams.recvHeaders

theorem ReqOk.recvData (h : ReqOk s) (id : Nat) (p : Bytes) (eos : Bool) (pad : Option Nat) :
    ReqOk (s.recvData id p eos pad).1 := by
  req_by Streams.recvData

theorem ReqOk.recvReset (h : ReqOk s) (id : Nat) (r : Reason) : ReqOk (s.recvReset id r).1 := by
  req_by Streams.recvReset

theorem ReqOk.recvWindowUpdate (h : ReqOk s) (id inc : Nat) : ReqOk (s.recvWindowUpdate id inc).1 := by
  req_by Streams.recvWindowUpdate

set_option maxHeartbeats 800000 in
theorem ReqOk.recvPushPromise (h : ReqOk s) (id : Nat) (hd : HeadersIn) : ReqOk (s.recvPushPromise id hd).1 := by
  req_by Streams.recvPushPromise

theorem ReqOk.handleError (h : ReqOk s) (e : PErr) : ReqOk (s.handleError e).1 := by
  req_by Streams.handleError

theorem ReqOk.recvGoAwayFrame (h : ReqOk s) (l : Nat) (r : Reason) (d : Bytes) :
    ReqOk (s.recvGoAwayFrame l r d).1 := by
  req_by Streams.recvGoAwayFrame

theorem ReqOk.recvEof (h : ReqOk s) (b : Bool) : ReqOk (s.recvEof b) := by
  req_by Streams.recvEof

theorem ReqOk.innerSendReset (h : ReqOk s) (id : Nat) (r : Reason) : ReqOk (s.innerSendReset id r).1 := by
  req_by Streams.innerSendReset

theorem ReqOk.bufferPending (h : ReqOk s) (fuel : Nat) (w : Writer) : ReqOk (Streams.bufferPending fuel s w).1 := by
  req_by Streams.bufferPending
macro_rules | `(tactic| req_peel) => `(tactic| with_reducible apply ReqOk.bufferPending)

theorem ReqOk.pollComplete (fuel : Nat) :
    ∀ {s : Streams}, ReqOk s → ∀ w io tag, ReqOk (Streams.pollComplete fuel s w io tag).1 := by
  induction fuel with
  | zero => intro s h w io tag; unfold Streams.pollComplete; req_auto
  | succ n ih => intro s h w io tag; unfold Streams.pollComplete; dsimp only; req_auto

theorem ReqOk.pollSendPendingRefusal (fuel : Nat) :
    ∀ {s : Streams}, ReqOk s → ∀ w io tag, ReqOk (Streams.pollSendPendingRefusal fuel s w io tag).1 := by
  induction fuel with
  | zero => intro s h w io tag; unfold Streams.pollSendPendingRefusal; req_auto
  | succ n ih => intro s h w io tag; unfold Streams.pollSendPendingRefusal; req_auto

theorem ReqOk.applyRemoteSettings (h : ReqOk s) (vals : List (Nat × Nat)) (b : Bool) :
    ReqOk (s.applyRemoteSettings vals b).1 := by
  req_by Streams.applyRemoteSettings

theorem ReqOk.applyLocalSettingsFrame (h : ReqOk s) (vals : List (Nat × Nat)) :
    ReqOk (s.applyLocalSettingsFrame vals).1 := by
  req_by Streams.applyLocalSettingsFrame

theorem ReqOk.refInc (h : ReqOk s) (id : Nat) : ReqOk (s.refInc id) := by
  req_by Streams.refInc
macro_rules | `(tactic| req_peel) => `(tactic| with_reducible apply ReqOk.refInc)

theorem ReqOk.cloneStreamRef (h : ReqOk s) (id : Nat) : ReqOk (s.cloneStreamRef id) := by
  req_by Streams.cloneStreamRef

theorem ReqOk.maybeCancel (h : ReqOk s) (id : Nat) : ReqOk (s.maybeCancel id) := by
  req_by Streams.maybeCancel
macro_rules | `(tactic| req_peel) => `(tactic| with_reducible apply ReqOk.maybeCancel)

theorem ReqOk.foldl' {α : Type} {f : Streams → α → Streams} {l : List α} {t : Streams}
    (hf : ∀ t a, ReqOk t → ReqOk (f t a)) (h : ReqOk t) : ReqOk (l.foldl f t) := by
  induction l generalizing t with
  | nil => exact h
  | cons a l ih => exact ih (hf _ a h)

macro_rules | `(tactic| req_peel) => `(tactic|
  (with_reducible apply ReqOk.foldl'; (· intro _ _ _; (try unfold Streams.transition); (try dsimp only); req_auto)))

theorem ReqOk.dropStreamRef (h : ReqOk s) (id : Nat) : ReqOk (s.dropStreamRef id) := by
  req_by Streams.dropStreamRef

theorem ReqOk.sendRequest (h : ReqOk s) (b : Bool) (f : List Hpack.Field) (eos : Bool) (p : Option Nat) :
    ReqOk (s.sendRequest b f eos p).1 := by
  req_by Streams.sendRequest

theorem ReqOk.pollPendingOpen (h : ReqOk s) (p : Option Nat) (tag : String) : ReqOk (s.pollPendingOpen p tag).1 := by
  req_by Streams.pollPendingOpen

theorem ReqOk.nextIncoming (h : ReqOk s) : ReqOk s.nextIncoming.1 := by
  req_by Streams.nextIncoming

theorem ReqOk.refSendResponse (h : ReqOk s) (k : Nat) (f : List Hpack.Field) (eos : Bool) :
    ReqOk (s.refSendResponse k f eos).1 := by
  req_by Streams.refSendResponse

theorem ReqOk.refSendInformationalHeaders (h : ReqOk s) (k : Nat) (f : List Hpack.Field) :
    ReqOk (s.refSendInformationalHeaders k f).1 := by
  req_by Streams.refSendInformationalHeaders

theorem ReqOk.refSendPushPromise (h : ReqOk s) (k : Nat) (b : Bool) (f : List Hpack.Field) :
    ReqOk (s.refSendPushPromise k b f).1 := by
  req_by Streams.refSendPushPromise

theorem ReqOk.cloneHandle (h : ReqOk s) : ReqOk s.cloneHandle := by
  req_by Streams.cloneHandle

theorem ReqOk.dropHandle (h : ReqOk s) : ReqOk s.dropHandle := by
  req_by Streams.dropHandle

theorem ReqOk.refSendData (h : ReqOk s) (id len : Nat) (eos : Bool) : ReqOk (s.refSendData id len eos).1 := by
  req_by Streams.refSendData

theorem ReqOk.refSendTrailers (h : ReqOk s) (id : Nat) (f : List Hpack.Field) : ReqOk (s.refSendTrailers id f).1 := by
  req_by Streams.refSendTrailers

theorem ReqOk.refSendReset (h : ReqOk s) (id : Nat) (r : Reason) : ReqOk (s.refSendReset id r) := by
  req_by Streams.refSendReset

theorem ReqOk.refReserveCapacity (h : ReqOk s) (id c : Nat) : ReqOk (s.refReserveCapacity id c) := by
  req_by Streams.refReserveCapacity

theorem ReqOk.refPollData (h : ReqOk s) (id : Nat) (tag : String) : ReqOk (s.refPollData id tag).1 := by
  req_by Streams.refPollData

theorem ReqOk.refReleaseCapacity (h : ReqOk s) (id c : Nat) : ReqOk (s.refReleaseCapacity id c).1 := by
  req_by Streams.refReleaseCapacity

theorem ReqOk.refClearRecvBuffer (h : ReqOk s) (id : Nat) : ReqOk (s.refClearRecvBuffer id) := by
  req_by Streams.refClearRecvBuffer

end

theorem Init.reqOk {s : Streams} (h : Init s) : ReqOk s := by
  intro x hx; rw [h.slab] at hx; cases hx

/-- `requested_send_capacity` is a `u32` in every reachable state -/
theorem Reach.reqOk {s : Streams} (h : Reach s) : ReqOk s := by
  induction h with
  | init h => exact h.reqOk
  | recvHeaders hd _ ih => exact ih.recvHeaders hd
  | recvData id p eos pad _ ih => exact ih.recvData id p eos pad
  | recvReset id r _ ih => exact ih.recvReset id r
  | recvWindowUpdate id inc _ _ ih => exact ih.recvWindowUpdate id inc
  | recvPushPromise id hd _ ih => exact ih.recvPushPromise id hd
  | recvGoAwayFrame l r d _ ih => exact ih.recvGoAwayFrame l r d
  | recvGoAway id _ ih => exact ih.recvGoAway id
  | recvEof b _ ih => exact ih.recvEof b
  | handleError e _ ih => exact ih.handleError e
  | innerSendReset id r _ ih => exact ih.innerSendReset id r
  | applyRemoteSettings vals b _ _ ih => exact ih.applyRemoteSettings vals b
  | applyLocalSettingsFrame vals _ ih => exact ih.applyLocalSettingsFrame vals
  | setTargetConnectionWindow n _ ih => exact ih.setTargetConnectionWindow n
  | clearExpiredResetStreams fuel _ ih => exact ReqOk.clearExpiredResetStreams fuel ih
  | pollComplete fuel w io tag _ ih => exact ReqOk.pollComplete fuel ih w io tag
  | pollSendPendingRefusal fuel w io tag _ ih => exact ReqOk.pollSendPendingRefusal fuel ih w io tag
  | wake w _ ih => exact ih.wake w
  | panic m _ ih => exact ih.panic m
  | clearWakes _ ih => exact ih.withWakes []
  | cloneHandle _ ih => exact ih.cloneHandle
  | dropHandle _ ih => exact ih.dropHandle
  | cloneStreamRef id _ ih => exact ih.cloneStreamRef id
  | dropStreamRef id _ ih => exact ih.dropStreamRef id
  | sendRequest b f eos p _ ih => exact ih.sendRequest b f eos p
  | pollPendingOpen p tag _ ih => exact ih.pollPendingOpen p tag
  | nextIncoming _ ih => exact ih.nextIncoming
  | recvTakeRequest id _ ih => exact ih.recvTakeRequest id
  | refSendResponse k f eos _ ih => exact ih.refSendResponse k f eos
  | refSendInformationalHeaders k f _ ih => exact ih.refSendInformationalHeaders k f
  | refSendPushPromise k b f _ ih => exact ih.refSendPushPromise k b f
  | refSendData id len eos _ ih => exact ih.refSendData id len eos
  | refSendTrailers id f _ ih => exact ih.refSendTrailers id f
  | refSendReset id r _ ih => exact ih.refSendReset id r
  | refReserveCapacity id c _ ih => exact ih.refReserveCapacity id c
  | pollCapacity id tag _ ih => exact ih.pollCapacity id tag
  | pollReset id m tag _ ih => exact ih.pollReset id m tag
  | recvPollResponse fuel id tag _ ih => exact ReqOk.recvPollResponse fuel ih id tag
  | recvPollInformational id tag _ ih => exact ih.recvPollInformational id tag
  | refPollData id tag _ ih => exact ih.refPollData id tag
  | recvPollTrailers id tag _ ih => exact ih.recvPollTrailers id tag
  | refReleaseCapacity id c _ ih => exact ih.refReleaseCapacity id c
  | refClearRecvBuffer id _ ih => exact ih.refClearRecvBuffer id

end H2V.Lemmas.ConnFlowP
