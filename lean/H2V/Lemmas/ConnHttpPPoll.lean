import H2V.Lemmas.ConnHttpPFrame
/-
  C13 (ConnHttpP), part 24 — the read half of the connection: `FramedRead::poll_next` (`Reader.drain`,
  `pollNext`) keeps the reader invariant, and every frame it yields carries an unflagged block that
  stands for a field list of well-formed fields; together with `recvFrame_delivers`: one turn of the read
  loop hands over checked messages only.
-/
namespace H2V.Lemmas.ConnHttpP
open H2V H2V.Model H2V.Model.Frame H2V.Model.Hpack H2V.Model.Conn H2V.Model.CodecRead

/-- a frame as `decode_frame` delivers it: if it carries a header block, the block is unflagged and
    stands for some list of fields that passed HPACK -/
def GoodFrame (f : Frame.Frame) : Prop :=
  ∀ blk, dfBlock (.frame f) = some blk →
    blk.isMalformed = false ∧ ∃ g, BlockInv blk g ∧ ∀ x ∈ g, fieldOk x = true

def GoodItem : Item → Prop
  | .frame f => GoodFrame f
  | .err _ => True

/-- the reader invariant with the ghost list hidden -/
def RInv' (r : Reader) : Prop := ∃ g, RInv r g

theorem rinv'_buf (r : Reader) (buf : Bytes) (need : Option Nat) (h : RInv' r) : RInv' { r with buf := buf, need := need } := by
  obtain ⟨g, hg⟩ := h
  exact ⟨g, rinv_same _ _ _ hg rfl rfl⟩

theorem decodeFrame_good (r : Reader) (bytes : Bytes) (h : RInv' r) :
    RInv' (decodeFrame r bytes).1 ∧ ∀ f, (decodeFrame r bytes).2 = .frame f → GoodFrame f := by
  obtain ⟨g, hg⟩ := h
  obtain ⟨h1, h2⟩ := decodeFrame_inv r g bytes hg
  refine ⟨⟨_, h1⟩, fun f hf blk hb => ?_⟩
  rw [← hf] at hb
  obtain ⟨a, b, c⟩ := h2 blk hb
  exact ⟨a, _, b, c⟩

theorem drain_good : ∀ (fuel : Nat) (r : Reader) (acc : List Item), RInv' r → (∀ i ∈ acc, GoodItem i) →
    RInv' (Reader.drain fuel r acc).1 ∧ ∀ i ∈ (Reader.drain fuel r acc).2.1, GoodItem i
  | 0, r, acc, h, ha => ⟨h, ha⟩
  | fuel + 1, r, acc, h, ha => by
    unfold Reader.drain
    simp only
    split
    · exact ⟨h, ha⟩
    · refine ⟨h, fun i hi => ?_⟩
      rcases List.mem_append.mp hi with hi | hi
      · exact ha i hi
      · simp only [List.mem_singleton] at hi; subst hi; trivial
    · rename_i n _
      split
      · exact ⟨rinv'_buf r r.buf (some n) h, ha⟩
      · have hb := rinv'_buf r (r.buf.drop n) none h
        obtain ⟨d1, d2⟩ := decodeFrame_good _ (r.buf.take n) hb
        generalize decodeFrame { r with buf := r.buf.drop n, need := none } (r.buf.take n) = x at d1 d2 ⊢
        obtain ⟨r2, df⟩ := x
        cases df with
        | frame f =>
          simp only
          exact drain_good fuel r2 _ d1 (fun i hi => by
            rcases List.mem_append.mp hi with hi | hi
            · exact ha i hi
            · simp only [List.mem_singleton] at hi; subst hi; exact d2 f rfl)
        | none => exact drain_good fuel r2 acc d1 ha
        | err e =>
          simp only
          refine ⟨d1, fun i hi => ?_⟩
          rcases List.mem_append.mp hi with hi | hi
          · exact ha i hi
          · simp only [List.mem_singleton] at hi; subst hi; trivial

/-- **`FramedRead::poll_next`**: the reader invariant is kept, and a frame it yields is a `GoodFrame` -/
theorem pollNext_good : ∀ (fuel : Nat) (c : Codec) (tag : String), RInv' c.r →
    RInv' (pollNext fuel c tag).1.r ∧ ∀ f, (pollNext fuel c tag).2 = .frame f → GoodFrame f
  | 0, c, tag, h => ⟨h, fun f hf => by cases hf⟩
  | fuel + 1, c, tag, h => by
    unfold pollNext
    split
    · exact ⟨h, fun f hf => by cases hf⟩
    · simp only
      have hb := rinv'_buf c.r (c.r.buf ++ c.io.rd) c.r.need h
      have hd := drain_good 1 { c.r with buf := c.r.buf ++ c.io.rd } [] hb (fun i hi => by cases hi)
      generalize Reader.drain 1 { c.r with buf := c.r.buf ++ c.io.rd } [] = x at hd ⊢
      obtain ⟨r1, items, dead⟩ := x
      simp only at hd ⊢
      obtain ⟨d1, d2⟩ := hd
      split
      · rename_i f rest
        exact ⟨d1, fun f' hf' => by cases hf'; exact d2 _ (List.mem_cons_self ..)⟩
      · exact ⟨d1, fun f' hf' => by cases hf'⟩
      · repeat' split
        all_goals first
          | exact pollNext_good fuel _ tag d1
          | exact ⟨d1, fun f' hf' => by cases hf'⟩

end H2V.Lemmas.ConnHttpP
