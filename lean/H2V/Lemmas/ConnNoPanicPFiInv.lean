import H2V.Lemmas.ConnNoPanicPFiBase
/-
  C08 (no panic) — `FI` is a reachable invariant, part 2: the invariant `FB` that contains `FI` and is inductive.
  `FX` adds to `FI`:
  * `q`  : a locally initiated entry whose send half is not open carries nothing (`Nil`);
  * `tg` : the entry a queued PUSH_PROMISE resolves to is `is_pending_push`, or its send half is open/closed
           (keys in `E` excepted: the `Idle` entry `Inner::send_reset` has just created);
  * `lt` : the promised ids of queued PUSH_PROMISE frames are below `next_stream_id`;
  * `pl` : `is_pending_push` only on locally initiated entries.
  `FB.step`: a step that is a frame for the flags (`FK`) and for the send-unopened entries and `next_stream_id` (`SK`)
  keeps `FB`.  `FB.one`: a step that changes one entry.  `FB.insert`: a new entry.
-/
namespace H2V.Lemmas.ConnNoPanicP
open H2V H2V.Model H2V.Model.Conn H2V.Lemmas.ConnCountsP
attribute [local irreducible] wrapSubU32 wrapSubUsize

variable {sv : Bool} {E : Nat → Prop}

theorem stream_blank_of_not_live {s : Streams} {k : Nat} (h : ¬ Live s k) : s.stream k = { key := k, id := 0 } := by
  unfold Streams.stream
  cases hx : s.store.get? k with
  | none => rfl
  | some x => exact absurd ⟨x, hx⟩ h

theorem nil_blank (k : Nat) : Nil { key := k, id := 0 } := ⟨rfl, rfl, rfl, rfl⟩

structure FX (sv : Bool) (E : Nat → Prop) (s : Streams) : Prop where
  q : ∀ k, locId sv (s.stream k).id = true → suB (s.stream k).state = true → Nil (s.stream k)
  tg : ∀ k pid, pid ∈ ppq s k → ∀ pushed, s.store.findKey? pid = some pushed → Live s pushed →
    suB (s.stream pushed).state = true → (s.stream pushed).isPendingPush = true ∨ E pushed
  lt : ∀ k pid, pid ∈ ppq s k → ∀ n, s.actions.send.nextStreamId = some n → pid < n
  pl : ∀ k, (s.stream k).isPendingPush = true → locId sv (s.stream k).id = true
  ol : ∀ k, (s.stream k).isPendingOpen = true → locId sv (s.stream k).id = true
  lq : ∀ k pid, pid ∈ ppq s k → locId sv pid = true

/-- the inductive bundle: the id map is a map, `FI`, `FX` -/
structure FB (sv : Bool) (E : Nat → Prop) (s : Streams) : Prop where
  nd : (s.store.ids.map (·.1)).Nodup
  idm : ∀ id k, s.store.findKey? id = some k → Live s k → (s.stream k).id = id
  fi : FI s
  fx : FX sv E s

theorem blank_fb {s : Streams} (h : s.store.slab = []) (hi : s.store.ids = []) : FB sv E s := by
  have hb : ∀ k, s.stream k = { key := k, id := 0 } := fun k => by unfold Streams.stream Store.get?; rw [h]; rfl
  have hq : ∀ k, ppq s k = [] := fun k => by unfold ppq; rw [hb]; rfl
  refine ⟨by rw [hi]; exact List.nodup_nil, fun id k hf => (by unfold Store.findKey? at hf; rw [hi] at hf; cases hf),
    ⟨fun k => ?_, ⟨fun k => by rw [hq]; exact List.nodup_nil, fun k k' pid h1 _ => by rw [hq] at h1; cases h1⟩,
     fun k pid hp => by rw [hq] at hp; cases hp⟩,
    ⟨fun k _ _ => ?_, fun k pid hp => ?_, fun k pid hp => ?_, fun k hp => ?_, fun k hp => ?_, fun k pid hp => ?_⟩⟩
  · rw [hb]; exact ⟨fun hp => Bool.noConfusion hp, fun hp => Bool.noConfusion hp⟩
  · rw [hb]; exact nil_blank k
  · rw [hq] at hp; cases hp
  · rw [hq] at hp; cases hp
  · rw [hb] at hp; cases hp
  · rw [hb] at hp; cases hp
  · rw [hq] at hp; cases hp

theorem FB.mono {E' : Nat → Prop} {s : Streams} (h : FB sv E s) (he : ∀ j, E j → E' j) : FB sv E' s :=
  ⟨h.nd, h.idm, h.fi, ⟨h.fx.q, fun k pid hp pushed hf hl hs => (h.fx.tg k pid hp pushed hf hl hs).imp id (he pushed), h.fx.lt, h.fx.pl,
    h.fx.ol, h.fx.lq⟩⟩

/-- an exception is dropped when the entry is no target, or behaves -/
theorem FB.dropE {E' : Nat → Prop} {s : Streams} (h : FB sv E' s)
    (he : ∀ j, E' j → Live s j → E j ∨ (suB (s.stream j).state = true → (s.stream j).isPendingPush = true) ∨
      (∀ k pid, pid ∈ ppq s k → s.store.findKey? pid ≠ some j)) : FB sv E s := by
  refine ⟨h.nd, h.idm, h.fi, ⟨h.fx.q, fun k pid hp pushed hf hl hs => ?_, h.fx.lt, h.fx.pl, h.fx.ol, h.fx.lq⟩⟩
  rcases h.fx.tg k pid hp pushed hf hl hs with h1 | h1
  · exact .inl h1
  · rcases he pushed h1 hl with h2 | h2 | h2
    · exact .inr h2
    · exact .inl (h2 hs)
    · exact absurd hf (h2 k pid hp)

/-- both frames at once -/
structure Sx (sv : Bool) (s s' : Streams) : Prop where
  fk : FK s s'
  sk : SK sv s s'

theorem Sx.refl (s : Streams) : Sx sv s s := ⟨.refl _, .refl _⟩
theorem Sx.trans {a b c : Streams} (h1 : Sx sv a b) (h2 : Sx sv b c) : Sx sv a c :=
  ⟨h1.fk.trans h2.fk, h1.sk.trans h2.sk⟩
theorem Sx.of_fst_eq {s : Streams} {α : Type} {p : Streams × α} {a : Streams} {x : α}
    (h : p = (a, x)) (e : Sx sv s p.1) : Sx sv s a := by subst h; exact e

/-- **the generic step** -/
theorem FB.step {s s' : Streams} (h : FB sv E s) (hfk : FK s s') (hsk : SK sv s s') : FB sv E s' := by
  refine ⟨(hfk.ids h.nd).1, fun id k hf hl => ?_, hfk.fi h.nd h.fi, ⟨fun k hl hs => ?_, fun k pid hp pushed hf hl hs => ?_,
    fun k pid hp n' hn' => ?_, fun k hp => ?_, fun k hp => ?_, fun k pid hp => h.fx.lq k pid ((hfk.ppq_sub k).subset hp)⟩⟩
  · rw [(hsk.st k hl).id]; exact h.idm id k ((hfk.ids h.nd).2 id k hf) (hsk.live k hl)
  · by_cases hk : Live s' k
    · have r := hsk.st k hk
      exact r.nil hs (by rw [← r.id]; exact hl) (h.fx.q k (by rw [← r.id]; exact hl) (r.su hs))
    · rw [stream_blank_of_not_live hk]; exact nil_blank k
  · have r := hsk.st pushed hl
    rcases h.fx.tg k pid ((hfk.ppq_sub k).subset hp) pushed ((hfk.ids h.nd).2 pid pushed hf) (hsk.live pushed hl) (r.su hs) with h1 | h1
    · exact .inl (r.pp hs h1)
    · exact .inr h1
  · obtain ⟨n, hn, hle⟩ := hsk.nx n' hn'
    exact Nat.lt_of_lt_of_le (h.fx.lt k pid ((hfk.ppq_sub k).subset hp) n hn) hle
  · by_cases hk : Live s' k
    · have r := hsk.st k hk
      rw [r.id]; exact h.fx.pl k (r.ppu hp)
    · rw [stream_blank_of_not_live hk] at hp; cases hp
  · by_cases hk : Live s' k
    · have r := hsk.st k hk
      rw [r.id]; exact h.fx.ol k ((hfk.fl k).po hp)
    · rw [stream_blank_of_not_live hk] at hp; cases hp

theorem FB.sx {s s' : Streams} (h : FB sv E s) (hx : Sx sv s s') : FB sv E s' := h.step hx.fk hx.sk

-- ===================================================================== one entry changes

/-- a step that changes entry `k` only, keeping its id and queue; the new entry satisfies the per-entry parts, and
    is either no target of a queued PUSH_PROMISE, or neither counted nor waiting to be opened -/
theorem FB.one {s s' : Streams} {k : Nat} (h : FB sv E s)
    (hids : s'.store.ids = s.store.ids) (hnext : s'.actions.send.nextStreamId = s.actions.send.nextStreamId)
    (hlive : ∀ j, Live s' j → Live s j)
    (hother : ∀ j, j ≠ k → s'.stream j = s.stream j)
    (hid : (s'.stream k).id = (s.stream k).id)
    (hsend : (s'.stream k).pendingSend = (s.stream k).pendingSend)
    (hsu : suB (s'.stream k).state = true → suB (s.stream k).state = true)
    (hpp : (suB (s'.stream k).state = true → (s.stream k).isPendingPush = true → (s'.stream k).isPendingPush = true) ∨
      (∀ k' pid, pid ∈ ppq s k' → s.store.findKey? pid ≠ some k))
    (hpl : (s'.stream k).isPendingPush = true → locId sv (s'.stream k).id = true)
    (hol : (s'.stream k).isPendingOpen = true → locId sv (s'.stream k).id = true)
    (hone : One (s'.stream k))
    (hq : locId sv (s'.stream k).id = true → suB (s'.stream k).state = true → Nil (s'.stream k))
    (hfresh : (∀ k' pid, pid ∈ ppq s k' → s.store.findKey? pid ≠ some k) ∨
      ((s'.stream k).isCounted = false ∧ (s'.stream k).isPendingOpen = false)) : FB sv E s' := by
  have hppq : ∀ j, ppq s' j = ppq s j := fun j => by
    unfold ppq
    by_cases hj : j = k
    · subst hj; rw [hsend]
    · rw [hother j hj]
  have hfind : ∀ id, s'.store.findKey? id = s.store.findKey? id := fun id => by unfold Store.findKey?; rw [hids]
  refine ⟨by rw [hids]; exact h.nd, fun id j hf hl => ?_,
    ⟨fun j => ?_, ⟨fun j => by rw [hppq]; exact h.fi.ppu.nodup j, fun a b pid ha hb => ?_⟩, ?_⟩,
    ⟨fun j hl hs => ?_, fun k' pid hp pushed hf hl hs => ?_, fun k' pid hp n hn => ?_, fun j hp => ?_, fun j hp => ?_,
     fun k' pid hp => h.fx.lq k' pid (by rw [← hppq]; exact hp)⟩⟩
  · rw [hfind] at hf
    by_cases hj : j = k
    · subst hj; rw [hid]; exact h.idm id j hf (hlive _ hl)
    · rw [hother j hj]; exact h.idm id j hf (hlive _ hl)
  · by_cases hj : j = k
    · subst hj; exact hone
    · rw [hother j hj]; exact h.fi.unc j
  · rw [hppq] at ha hb; exact h.fi.ppu.disj a b pid ha hb
  · intro k' pid hp pushed hf
    rw [hppq] at hp; rw [hfind] at hf
    by_cases hj : pushed = k
    · subst hj
      rcases hfresh with h1 | h1
      · exact absurd hf (h1 k' pid hp)
      · exact h1
    · rw [hother pushed hj]; exact h.fi.ppf k' pid hp pushed hf
  · by_cases hj : j = k
    · subst hj; exact hq hl hs
    · rw [hother j hj] at hl hs ⊢; exact h.fx.q j hl hs
  · rw [hppq] at hp; rw [hfind] at hf
    by_cases hj : pushed = k
    · subst hj
      rcases hpp with hpp | hpp
      · rcases h.fx.tg k' pid hp pushed hf (hlive _ hl) (hsu hs) with h1 | h1
        · exact .inl (hpp hs h1)
        · exact .inr h1
      · exact absurd hf (hpp k' pid hp)
    · rw [hother pushed hj] at hs ⊢
      exact h.fx.tg k' pid hp pushed hf (hlive _ hl) hs
  · rw [hppq] at hp; rw [hnext] at hn; exact h.fx.lt k' pid hp n hn
  · by_cases hj : j = k
    · subst hj; exact hpl hp
    · rw [hother j hj] at hp ⊢; exact h.fx.pl j hp
  · by_cases hj : j = k
    · subst hj; exact hol hp
    · rw [hother j hj] at hp ⊢; exact h.fx.ol j hp

/-- what `modStream` does to the entries -/
theorem modStream_streams (s : Streams) (k : Nat) (f : Stream → Stream) (hk : ∀ x, (f x).key = x.key) (j : Nat) :
    (s.modStream k f).stream j = s.stream j ∨ (j = k ∧ Live s k ∧ (s.modStream k f).stream k = f (s.stream k)) := by
  by_cases hl : Live s k
  · by_cases hj : j = k
    · subst hj; exact .inr ⟨rfl, hl, stream_modStream_live hl f hk⟩
    · left
      obtain ⟨x, hx⟩ := hl
      unfold Streams.modStream; rw [hx]
      rcases setStream_stream s (f x) j with e | ⟨_, hj', _⟩
      · exact e
      · exact absurd (hj'.trans ((hk x).trans (get?_key hx))) hj
  · left
    have : s.store.get? k = none := by
      cases hx : s.store.get? k with
      | none => rfl
      | some x => exact absurd ⟨x, hx⟩ hl
    unfold Streams.modStream; rw [this]; exact panic_stream _ _ _

theorem modStream_next (s : Streams) (k : Nat) (f : Stream → Stream) :
    (s.modStream k f).actions.send.nextStreamId = s.actions.send.nextStreamId := by
  unfold Streams.modStream; split
  · rfl
  · rw [panic_actions]

/-- `FB.one` for a `modStream` -/
theorem FB.modStream {s : Streams} {k : Nat} (h : FB sv E s) (f : Stream → Stream) (hk : ∀ x, (f x).key = x.key)
    (hid : (f (s.stream k)).id = (s.stream k).id)
    (hsend : (f (s.stream k)).pendingSend = (s.stream k).pendingSend)
    (hsu : suB (f (s.stream k)).state = true → suB (s.stream k).state = true)
    (hpp : (suB (f (s.stream k)).state = true → (s.stream k).isPendingPush = true → (f (s.stream k)).isPendingPush = true) ∨
      (∀ k' pid, pid ∈ ppq s k' → s.store.findKey? pid ≠ some k))
    (hpl : (f (s.stream k)).isPendingPush = true → locId sv (f (s.stream k)).id = true)
    (hol : (f (s.stream k)).isPendingOpen = true → locId sv (f (s.stream k)).id = true)
    (hone : One (f (s.stream k)))
    (hq : locId sv (f (s.stream k)).id = true → suB (f (s.stream k)).state = true → Nil (f (s.stream k)))
    (hfresh : (∀ k' pid, pid ∈ ppq s k' → s.store.findKey? pid ≠ some k) ∨
      ((f (s.stream k)).isCounted = false ∧ (f (s.stream k)).isPendingOpen = false)) : FB sv E (s.modStream k f) := by
  by_cases hl : Live s k
  · have hst := stream_modStream_live hl f hk
    refine h.one (k := k) (modStream_ids _ _ _) (modStream_next _ _ _) (fun j hj => (SameKeys.modStream _ _ _).live.mp hj)
      (fun j hj => ?_) ?_ ?_ ?_ ?_ ?_ ?_ ?_ ?_ ?_
    · rcases modStream_streams s k f hk j with e | ⟨e, _⟩
      · exact e
      · exact absurd e hj
    all_goals rw [hst]
    · exact hid
    · exact hsend
    · exact hsu
    · exact hpp
    · exact hpl
    · exact hol
    · exact hone
    · exact hq
    · exact hfresh
  · have : s.store.get? k = none := by
      cases hx : s.store.get? k with
      | none => rfl
      | some x => exact absurd ⟨x, hx⟩ hl
    unfold Streams.modStream; rw [this]
    exact h.step (panic_fk _ _) (panic_sk _ _)

-- ===================================================================== a new entry

theorem findKey?_insert {s : Streams} (st : Stream) (hfree : s.store.contains st.id = false) (id : Nat) :
    (s.store.insert st).1.findKey? id = if id = st.id then some s.store.nextKey else s.store.findKey? id := by
  have hany : s.store.ids.any (·.1 == st.id) = false := by
    cases ha : s.store.ids.any (·.1 == st.id) with
    | false => rfl
    | true =>
      exfalso
      obtain ⟨e, he, hid⟩ := List.any_eq_true.mp ha
      unfold Store.contains Store.findKey? at hfree
      cases hf : s.store.ids.find? (·.1 == st.id) with
      | none => exact absurd hid (by have := List.find?_eq_none.mp hf e he; simpa using this)
      | some x => rw [hf] at hfree; cases hfree
  have hnone : s.store.ids.find? (·.1 == st.id) = none := by
    refine List.find?_eq_none.mpr (fun e he => ?_)
    intro hh
    have : s.store.ids.any (·.1 == st.id) = true := List.any_eq_true.mpr ⟨e, he, by simpa using hh⟩
    rw [hany] at this; cases this
  have hids : (s.store.insert st).1.ids = s.store.ids ++ [(st.id, s.store.nextKey)] := by
    unfold Store.insert; simp only [hany, Bool.false_eq_true, if_false]
  unfold Store.findKey?
  rw [hids, List.find?_append]
  by_cases hid : id = st.id
  · subst hid
    rw [hnone]; simp
  · rw [if_neg hid]
    have : ([(st.id, s.store.nextKey)] : List (Nat × Nat)).find? (·.1 == id) = none := by
      simp only [List.find?_cons, List.find?_nil]
      have : (st.id == id) = false := by simpa using fun e => hid e.symm
      rw [this]
    rw [this, Option.or_none]

theorem insert_nodup {s : Streams} (st : Stream) (hfree : s.store.contains st.id = false)
    (hn : (s.store.ids.map (·.1)).Nodup) : ((s.store.insert st).1.ids.map (·.1)).Nodup := by
  have hnot : st.id ∉ s.store.ids.map (·.1) := by
    intro hm
    obtain ⟨e, he, hid⟩ := List.mem_map.mp hm
    unfold Store.contains Store.findKey? at hfree
    cases hf : s.store.ids.find? (·.1 == st.id) with
    | none => exact absurd hid (by have := List.find?_eq_none.mp hf e he; simpa using this)
    | some x => rw [hf] at hfree; cases hfree
  have hany : s.store.ids.any (·.1 == st.id) = false := by
    cases ha : s.store.ids.any (·.1 == st.id) with
    | false => rfl
    | true =>
      obtain ⟨e, he, hid⟩ := List.any_eq_true.mp ha
      exact absurd (List.mem_map.mpr ⟨e, he, by simpa using hid⟩) hnot
  have hids : (s.store.insert st).1.ids = s.store.ids ++ [(st.id, s.store.nextKey)] := by
    unfold Store.insert; simp only [hany, Bool.false_eq_true, if_false]
  rw [hids, List.map_append, List.nodup_append]
  refine ⟨hn, by simp, ?_⟩
  intro a ha b hb
  simp only [List.map_cons, List.map_nil, List.mem_singleton] at hb
  subst hb
  intro e; subst e; exact hnot ha

/-- **a new entry** (fresh, blank flags) whose id is not mapped: the new key becomes an exception of `tg` -/
theorem FB.insert {s : Streams} (h : FB sv E s) (hk : KeysOK s) (st : Stream) (hf : Fresh st) (hpp : st.isPendingPush = false)
    (hbd : st.bufferedSendData = 0) (hfree : s.store.contains st.id = false)
    (hio : ∀ id k, s.store.findKey? id = some k → Live s k) :
    FB sv (fun j => E j ∨ j = s.store.nextKey) { s with store := (s.store.insert st).1 } := by
  have hnew : (s.store.insert st).1.get? s.store.nextKey = some { st with key := s.store.nextKey } := insert_get?_new hk.fresh st
  have hold : ∀ j, j ≠ s.store.nextKey → ({ s with store := (s.store.insert st).1 } : Streams).stream j = s.stream j := by
    intro j hj
    unfold Streams.stream
    rcases insert_get?_cases s.store st j with e | ⟨_, e, _⟩
    · show ((s.store.insert st).1.get? j).getD _ = _
      rw [e]
    · exact absurd e hj
  have hns : ({ s with store := (s.store.insert st).1 } : Streams).stream s.store.nextKey = { st with key := s.store.nextKey } :=
    stream_of_get? hnew
  have hbl : s.stream s.store.nextKey = { key := s.store.nextKey, id := 0 } :=
    stream_blank_of_not_live (not_live_of_none (get?_nextKey_none hk.fresh))
  have hppq : ∀ j, ppq ({ s with store := (s.store.insert st).1 } : Streams) j = ppq s j := by
    intro j
    unfold ppq
    by_cases hj : j = s.store.nextKey
    · subst hj; rw [hns, hbl]; show ppIdsOf st.pendingSend = _; rw [hf.send]
    · rw [hold j hj]
  have hfind : ∀ id pushed, ({ s with store := (s.store.insert st).1 } : Streams).store.findKey? id = some pushed →
      pushed = s.store.nextKey ∨ s.store.findKey? id = some pushed := by
    intro id pushed hfd
    have : (s.store.insert st).1.findKey? id = some pushed := hfd
    rw [findKey?_insert st hfree] at this
    split at this
    · left; cases this; rfl
    · right; exact this
  have holdl : ∀ j, j ≠ s.store.nextKey → Live ({ s with store := (s.store.insert st).1 } : Streams) j → Live s j := by
    intro j hj hl
    obtain ⟨x, hx⟩ := hl
    have hx' : (s.store.insert st).1.get? j = some x := hx
    rcases insert_get?_cases s.store st j with e' | ⟨_, e', _⟩
    · rw [e'] at hx'; exact ⟨x, hx'⟩
    · exact absurd e' hj
  refine ⟨insert_nodup st hfree h.nd, fun id j hfd hl => ?_,
    ⟨fun j => ?_, ⟨fun j => by rw [hppq]; exact h.fi.ppu.nodup j, fun a b pid ha hb => ?_⟩, ?_⟩,
    ⟨fun j hl hs => ?_, fun k' pid hp pushed hfd hl hs => ?_, fun k' pid hp n hn => ?_, fun j hp => ?_, fun j hp => ?_,
     fun k' pid hp => h.fx.lq k' pid (by rw [← hppq]; exact hp)⟩⟩
  · have hfd' : (s.store.insert st).1.findKey? id = some j := hfd
    rw [findKey?_insert st hfree] at hfd'
    split at hfd'
    · next hid => cases hfd'; rw [hns]; exact hid.symm
    · have hj : j ≠ s.store.nextKey := by
        intro e; subst e
        exact not_live_of_none (get?_nextKey_none hk.fresh) (hio id _ hfd')
      rw [hold j hj]; exact h.idm id j hfd' (holdl j hj hl)
  · by_cases hj : j = s.store.nextKey
    · subst hj; rw [hns]
      refine ⟨fun hp => ?_, fun ho => ?_⟩
      · have hp' : st.isPendingPush = true := hp
        rw [hpp] at hp'; cases hp'
      · have ho' : st.isPendingOpen = true := ho
        have h2 : st.isPendingOpen = false := hf.fl .pendingOpen
        rw [ho'] at h2; cases h2
    · rw [hold j hj]; exact h.fi.unc j
  · rw [hppq] at ha hb; exact h.fi.ppu.disj a b pid ha hb
  · intro k' pid hp pushed hfd
    rw [hppq] at hp
    rcases hfind pid pushed hfd with e | e
    · subst e; rw [hns]
      exact ⟨hf.counted, hf.fl .pendingOpen⟩
    · by_cases hj : pushed = s.store.nextKey
      · subst hj; rw [hns]; exact ⟨hf.counted, hf.fl .pendingOpen⟩
      · rw [hold pushed hj]; exact h.fi.ppf k' pid hp pushed e
  · by_cases hj : j = s.store.nextKey
    · subst hj; rw [hns]
      exact ⟨hf.counted, hf.fl .pendingOpen, hf.send, hbd⟩
    · rw [hold j hj] at hl hs ⊢; exact h.fx.q j hl hs
  · rw [hppq] at hp
    by_cases hj : pushed = s.store.nextKey
    · exact .inr (.inr hj)
    · rcases hfind pid pushed hfd with e | e
      · exact absurd e hj
      · rw [hold pushed hj] at hs ⊢
        exact (h.fx.tg k' pid hp pushed e (holdl pushed hj hl) hs).imp id .inl
  · rw [hppq] at hp; exact h.fx.lt k' pid hp n hn
  · by_cases hj : j = s.store.nextKey
    · subst hj; rw [hns] at hp
      have hp' : st.isPendingPush = true := hp
      rw [hpp] at hp'; cases hp'
    · rw [hold j hj] at hp ⊢; exact h.fx.pl j hp
  · by_cases hj : j = s.store.nextKey
    · subst hj; rw [hns] at hp
      have hp' : st.isPendingOpen = true := hp
      have h2 : st.isPendingOpen = false := hf.fl .pendingOpen
      rw [hp'] at h2; cases h2
    · rw [hold j hj] at hp ⊢; exact h.fx.ol j hp

end H2V.Lemmas.ConnNoPanicP
