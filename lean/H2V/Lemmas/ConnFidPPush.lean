import H2V.Lemmas.ConnFidPOps
/-
  ConnFidP, part 22 — histories are also closed under `send_push_promise` (PUSH_PROMISE accepted on the parent stream):
  a closed parent refuses the call (the reserved child entry is inserted and removed again, nothing is queued).
-/
set_option linter.unusedSectionVars false
namespace H2V.Lemmas.ConnFidP
open H2V H2V.Model H2V.Model.Conn H2V.Lemmas.ConnWakeP

/-- silent steps and removals only -/
def permRm : Perm := { gone := True }

theorem stream_panic' (t : Streams) (m : String) (k : Nat) : (t.panic m).stream k = t.stream k := by
  unfold Streams.panic; split <;> rfl

/-- a closed entry exists -/
theorem closed_present {t : Streams} {k : Nat} (h : (t.stream k).state.isClosed = true) : ∃ a, t.store.get? k = some a := by
  cases hq : t.store.get? k with
  | some a => exact ⟨a, rfl⟩
  | none =>
    have : t.stream k = { key := k, id := 0 } := by unfold Streams.stream; rw [hq]; rfl
    rw [this] at h; cases h

theorem sendPushPromise_closed (t : Streams) (parent pk pid : Nat) (f : List Hpack.Field)
    (h : (t.stream parent).state.isClosed = true) : ∃ e, t.sendPushPromise parent pk pid f = (t, .error e) := by
  unfold Streams.sendPushPromise
  split
  · exact ⟨_, rfl⟩
  · simp only [closed_sendClosed _ h, if_true]; exact ⟨_, rfl⟩

/-- `send_push_promise` on a closed parent queues nothing -/
theorem refSendPushPromise_closed_tr (s : Streams) (parent : Nat) (v : Bool) (f : List Hpack.Field)
    (hc : (s.stream parent).state.isClosed = true) (hkb : KeysBelow s) :
    Tr permRm s (s.refSendPushPromise parent v f).1 := by
  have hg : permRm.gone := trivial
  obtain ⟨a, ha⟩ := closed_present hc
  have hlt : parent < s.store.nextKey := hkb parent a ha
  unfold Streams.refSendPushPromise
  have h1 := sendReserveLocal_acc (P := permRm) hg (Tr.refl permRm s)
  have e1 : s.sendReserveLocal.1.store = s.store := by
    unfold Streams.sendReserveLocal; exact sendOpenId_store s
  rcases hso : s.sendReserveLocal with ⟨s1, res⟩
  rw [hso] at h1 e1
  simp only at h1 e1
  cases res with
  | error e => exact h1
  | ok pid =>
    simp only
    have e2 : ∀ (t : Streams) (m : String), (t.panic m).store = t.store := by
      intro t m; unfold Streams.panic; split <;> rfl
    generalize hs2 : (if s1.store.contains pid = true then
        s1.panic "assertion failed: self.ids.insert(id, index).is_none()" else s1) = s2
    have h2 : Tr permRm s s2 := by subst hs2; split; exact panic_acc _ h1; exact h1
    have e3 : s2.store = s.store := by subst hs2; split; rw [e2, e1]; exact e1
    have h3 := insert_acc (P := permRm) (Stream.new pid s2.actions.send.initWindowSz s2.recv.initWindowSz) rfl rfl h2
    have hk : (s2.store.insert (Stream.new pid s2.actions.send.initWindowSz s2.recv.initWindowSz)).2 = s.store.nextKey := by
      rw [Store.insert_key, e3]
    rw [hk]
    generalize hs3 : ({ s2 with store := (s2.store.insert (Stream.new pid s2.actions.send.initWindowSz s2.recv.initWindowSz)).1 } : Streams) = s3 at h3 ⊢
    have hp3 : s3.store.get? parent = some a := by
      subst hs3
      show (s2.store.insert _).1.get? parent = some a
      rw [Store.get?_insert, e3, ha]
    split
    · exact h3
    · next st' u heq =>
      have h4 : Tr permRm s (s3.modStream s.store.nextKey fun st => { st with state := st', isPendingPush := true }) := by
        refine modStream_acc _ _ ?_ h3
        refine ⟨rfl, rfl, ?_, rfl, rfl⟩
        have := reserveLocal_cl (s3.stream s.store.nextKey).state
        rw [heq] at this; exact this
      split
      · exact h4
      · generalize hs4 : (s3.modStream s.store.nextKey fun st => { st with state := st', isPendingPush := true }) = s4 at h4 ⊢
        have hc4 : (s4.stream parent).state.isClosed = true := by
          subst hs4
          rw [stream_modStream s3 s.store.nextKey (fun st => { st with state := st', isPendingPush := true }) (fun _ => rfl)]
          rw [if_neg (fun h' => absurd h'.1 (Nat.ne_of_lt hlt))]
          rw [stream_eq_of_get? hp3]
          rw [stream_eq_of_get? ha] at hc; exact hc
        obtain ⟨e, he⟩ := sendPushPromise_closed s4 parent s.store.nextKey pid f hc4
        rw [he]
        simp only
        exact unlinkRemove_acc _ _ hg h4

/-- what `send_push_promise(parent, fields)` may queue: a PUSH_PROMISE with these fields, on the parent -/
def permPushPromise (parent : Nat) (f : List Hpack.Field) : Perm :=
  { push := fun j x => j = parent ∧ ∃ pk pid, x = .pushPromise pk pid f, gone := True }

theorem Hist.refSendPushPromise {s : Streams} {w : Writer} {g : Ghost} (h : Hist s w g) (parent : Nat) (v : Bool)
    (f : List Hpack.Field) : ∃ g', Hist (s.refSendPushPromise parent v f).1 w g' := by
  have t : Tr (permPushPromise parent f) s (s.refSendPushPromise parent v f).1 :=
    refSendPushPromise_acc (P := permPushPromise parent f) trivial parent v f
      (fun pk pid => Or.inl ⟨rfl, pk, pid, rfl⟩) (Tr.refl _ _)
  cases hwd : g.weird with
  | true =>
    obtain ⟨g', r⟩ := t.run g
    exact ⟨g', .api _ h (fun h => h) (fun h => h) (Or.inl hwd) r⟩
  | false =>
    have hI := (h.inv hwd).1
    rcases closed_cases s parent with hc | hnc
    · obtain ⟨g', h', _⟩ := h.tr_quiet permRm (fun h => h) (fun h => h) (fun _ _ _ h => h)
        (refSendPushPromise_closed_tr s parent v f hc hI.kb)
      exact ⟨g', h'⟩
    · obtain ⟨g', h', _⟩ := h.accept (permPushPromise parent f) parent (fun h => h) (fun h => h) (fun _ h => h)
        (fun j x _ hp => hp.1) hnc t
      exact ⟨g', h'⟩

end H2V.Lemmas.ConnFidP
