import H2V.Lemmas.ConnNoPanicPPushInvIns
import H2V.Lemmas.ConnResetPFuel
import H2V.Lemmas.ConnNoPanicPPollBase
/-
  C08 (no panic) — PUSH_PROMISE bookkeeping, stage 2 (push-enabled client), part 1: the frame `HR`.
  `Held s c`: entry `c` is live, carries the `NextAccept` link flag and is NOT in `recv.pending_accept` — i.e. the link
  is used by some parent's `pending_push_promises` (or leaked with a released parent).  Such an entry is never released
  and nobody but `drop_stream_ref` (and `recv_push_promise`, which sets it) touches its flag: `Queue::push` on
  `pending_accept` skips it, `Queue::pop` pops only keys of the queue.
  `HR s s'`: held entries stay held, and `recv.next_stream_id` only moves forward (for the receive-side analogue of `IBS`).
  Peeling tactic `hr_auto` (lemmas `f_hr` found by name; generic peeler `relHead` of ConnNoPanicPPollBase).
-/
namespace H2V.Lemmas.ConnNoPanicP
open H2V H2V.Model H2V.Model.Conn H2V.Lemmas.ConnCountsP
attribute [local irreducible] wrapSubU32 wrapSubUsize

/-- a live entry whose `NextAccept` link is in use, but not by `recv.pending_accept` -/
def Held (s : Streams) (c : Nat) : Prop := Flagged .pendingAccept s c ∧ c ∉ s.recv.pendingAccept

/-- `next_stream_id` (`Err(StreamIdOverflow)` = `none`) only moves forward -/
def RNext (a b : Option Nat) : Prop := ∀ y, b = some y → ∃ x, a = some x ∧ x ≤ y

theorem RNext.refl (a : Option Nat) : RNext a a := fun y h => ⟨y, h, Nat.le_refl _⟩
theorem RNext.trans {a b c : Option Nat} (h1 : RNext a b) (h2 : RNext b c) : RNext a c := fun z hz => by
  obtain ⟨y, hy, hyz⟩ := h2 z hz
  obtain ⟨x, hx, hxy⟩ := h1 y hy
  exact ⟨x, hx, Nat.le_trans hxy hyz⟩

structure HR (s s' : Streams) : Prop where
  held : ∀ c, Held s c → Held s' c
  next : RNext s.recv.nextStreamId s'.recv.nextStreamId

theorem HR.refl (s : Streams) : HR s s := ⟨fun _ h => h, .refl _⟩
theorem HR.trans {a b c : Streams} (h1 : HR a b) (h2 : HR b c) : HR a c :=
  ⟨fun k h => h2.held k (h1.held k h), h1.next.trans h2.next⟩
theorem HR.of_fst_eq {s : Streams} {α : Type} {p : Streams × α} {a : Streams} {x : α}
    (h : p = (a, x)) (e : HR s p.1) : HR s a := by subst h; exact e

/-- a step that leaves `pending_accept`, the flagged entries and `next_stream_id` alone -/
theorem HR.of_qf {s s' : Streams} (h : QF .pendingAccept s s') (hn : s'.recv.nextStreamId = s.recv.nextStreamId) : HR s s' := by
  refine ⟨fun c hc => ⟨(h.fl c).mpr hc.1, ?_⟩, by rw [hn]; exact .refl _⟩
  have : s'.recv.pendingAccept = s.recv.pendingAccept := h.queue
  rw [this]; exact hc.2

theorem HR.of_store {s s' : Streams} (h1 : s'.store = s.store) (h2 : s'.recv.pendingAccept = s.recv.pendingAccept)
    (h3 : s'.recv.nextStreamId = s.recv.nextStreamId) : HR s s' := .of_qf (.of_store_q h1 h2) h3

theorem panic_recv (s : Streams) (m : String) : (s.panic m).recv = s.recv := by
  unfold Streams.recv; rw [panic_actions]

theorem wake_hr (s : Streams) (t : List String) : HR s (s.wake t) := .of_store rfl rfl rfl
theorem notifyTask_hr (s : Streams) : HR s s.notifyTask := by
  unfold Streams.notifyTask; split
  · exact .of_store rfl rfl rfl
  · exact .refl _
theorem unsup_hr (s : Streams) (m : String) : HR s (s.unsup m) := by
  unfold Streams.unsup; split
  · exact .refl _
  · exact .of_store rfl rfl rfl
theorem panic_hr (s : Streams) (m : String) : HR s (s.panic m) :=
  .of_store (panic_store _ _) (by rw [panic_recv]) (by rw [panic_recv])
theorem modPrio_hr (s : Streams) (f : Prioritize → Prioritize) : HR s (s.modPrio f) := .of_store rfl rfl rfl
theorem modRecv_hr (s : Streams) (f : Recv → Recv)
    (h : ∀ r, (f r).pendingAccept = r.pendingAccept ∧ (f r).nextStreamId = r.nextStreamId) : HR s (s.modRecv f) :=
  .of_store rfl (h _).1 (h _).2
theorem modSend_hr (s : Streams) (f : Send → Send) : HR s (s.modSend f) := .of_store rfl rfl rfl
theorem modCounts_hr (s : Streams) (f : Counts → Counts) : HR s (s.modCounts f) := .of_store rfl rfl rfl
theorem modCountsA_hr (s : Streams) (w : String) (f : Counts → Option Counts) : HR s (s.modCountsA w f) := by
  unfold Streams.modCountsA; split
  · exact .of_store rfl rfl rfl
  · exact panic_hr _ _
theorem setMisc_hr (s : Streams) (a : Actions) (refs leaked : Nat) (wk : List String) (un : Option String)
    (ha : a.recv.pendingAccept = s.actions.recv.pendingAccept ∧ a.recv.nextStreamId = s.actions.recv.nextStreamId) :
    HR s { s with actions := a, refs := refs, recvBufferLeaked := leaked, wakes := wk, unsupported := un } :=
  .of_store rfl ha.1 ha.2
theorem setCounts_hr (s : Streams) (c : Counts) : HR s { s with counts := c } := .of_store rfl rfl rfl

theorem modStream_hr (s : Streams) (k : Nat) (f : Stream → Stream)
    (h : ∀ x, (f x).key = x.key ∧ (f x).isPendingAccept = x.isPendingAccept) : HR s (s.modStream k f) :=
  .of_qf (modStream_af s k f h) (by rw [ConnResetP.modStream_recv])
theorem modStreamW_hr (s : Streams) (k : Nat) (f : Stream → Stream × List String)
    (h : ∀ x, (f x).1.key = x.key ∧ (f x).1.isPendingAccept = x.isPendingAccept) : HR s (s.modStreamW k f) := by
  refine .of_qf (modStreamW_af s k f h) ?_
  unfold Streams.modStreamW; split
  · rfl
  · rw [panic_recv]
theorem setStream_hr (s : Streams) (k : Nat) (st' : Stream) (hk : st'.key = k)
    (h : st'.isPendingAccept = (s.stream k).isPendingAccept) : HR s (s.setStream st') := by
  refine .of_qf (QF.setStream _ s st' ?_) rfl
  intro x hx
  rw [hk] at hx
  show st'.isPendingAccept = x.isPendingAccept
  rw [h, stream_of_get? hx]

theorem transitionAfter_hr (s : Streams) (k : Nat) (b : Bool) : HR s (s.transitionAfter k b) :=
  .of_qf (transitionAfter_af s k b) (by unfold Streams.recv; rw [ConnResetP.transitionAfter_actions])

theorem setQ_recv_next (s : Streams) (q : QName) (l : List Nat) : (s.setQ q l).recv.nextStreamId = s.recv.nextStreamId := by
  cases q <;> rfl

theorem qPush_next (s : Streams) (q : QName) (k : Nat) : (s.qPush q k).1.recv.nextStreamId = s.recv.nextStreamId := by
  unfold Streams.qPush; split
  · rfl
  · rw [setQ_recv_next, ConnResetP.modStream_recv]
theorem qPushFront_next (s : Streams) (q : QName) (k : Nat) : (s.qPushFront q k).1.recv.nextStreamId = s.recv.nextStreamId := by
  unfold Streams.qPushFront; split
  · rfl
  · rw [setQ_recv_next, ConnResetP.modStream_recv]
theorem qPop_next (s : Streams) (q : QName) : (s.qPop q).1.recv.nextStreamId = s.recv.nextStreamId := by
  unfold Streams.qPop; split
  · rfl
  · rw [ConnResetP.modStream_recv, setQ_recv_next]

/-- setting the flag of another entry and appending / prepending that entry to the queue -/
theorem held_push {s : Streams} {k : Nat} {l : List Nat} (hk : (s.stream k).isQueued .pendingAccept = false)
    (hl : ∀ c, c ∈ l → c ∈ s.recv.pendingAccept ∨ c = k) {c : Nat} (hc : Held s c) :
    Held ((s.modStream k fun st => st.setQueued .pendingAccept true).setQ .pendingAccept l) c := by
  obtain ⟨⟨x, hx, hq⟩, hnot⟩ := hc
  have hck : c ≠ k := by
    intro e; subst e
    rw [stream_of_get? hx, hq] at hk; cases hk
  refine ⟨?_, ?_⟩
  · unfold Flagged
    rw [setQ_store]
    cases hg : s.store.get? k with
    | none =>
      unfold Streams.modStream; rw [hg]; dsimp only; rw [panic_store]; exact ⟨x, hx, hq⟩
    | some y =>
      have := (flagged_modStream_set .pendingAccept s k true y hg c).mpr (by rw [if_neg hck]; exact ⟨x, hx, hq⟩)
      exact this
  · have : ((s.modStream k fun st => st.setQueued .pendingAccept true).setQ .pendingAccept l).recv.pendingAccept = l := rfl
    rw [this]
    intro hm
    rcases hl c hm with h | h
    · exact hnot h
    · exact hck h

theorem qPush_hr (s : Streams) (q : QName) (k : Nat) : HR s (s.qPush q k).1 := by
  by_cases hq : QName.pendingAccept = q
  · subst hq
    refine ⟨fun c hc => ?_, by rw [qPush_next]; exact .refl _⟩
    unfold Streams.qPush; split
    · exact hc
    · next hk =>
      refine held_push (by simpa using hk) (fun c hm => ?_) hc
      rcases List.mem_append.mp hm with h | h
      · exact .inl h
      · exact .inr (List.mem_singleton.mp h)
  · exact .of_qf (QF.qPush _ _ _ _ hq) (qPush_next _ _ _)

theorem qPushFront_hr (s : Streams) (q : QName) (k : Nat) : HR s (s.qPushFront q k).1 := by
  by_cases hq : QName.pendingAccept = q
  · subst hq
    refine ⟨fun c hc => ?_, by rw [qPushFront_next]; exact .refl _⟩
    unfold Streams.qPushFront; split
    · exact hc
    · next hk =>
      refine held_push (by simpa using hk) (fun c hm => ?_) hc
      rcases List.mem_cons.mp hm with h | h
      · exact .inr h
      · exact .inl h
  · exact .of_qf (QF.qPushFront _ _ _ _ hq) (qPushFront_next _ _ _)

theorem qPop_hr (s : Streams) (q : QName) : HR s (s.qPop q).1 := by
  by_cases hq : QName.pendingAccept = q
  · subst hq
    refine ⟨fun c hc => ?_, by rw [qPop_next]; exact .refl _⟩
    unfold Streams.qPop; split
    · exact hc
    · next id rest hrest =>
      obtain ⟨⟨x, hx, hfl⟩, hnot⟩ := hc
      have hql : s.recv.pendingAccept = id :: rest := hrest
      rw [hql] at hnot
      have hck : c ≠ id := fun e => hnot (e ▸ List.mem_cons_self ..)
      have hcr : c ∉ rest := fun e => hnot (List.mem_cons_of_mem _ e)
      refine ⟨?_, ?_⟩
      · unfold Flagged
        cases hg : (s.setQ .pendingAccept rest).store.get? id with
        | none =>
          unfold Streams.modStream; rw [hg]; dsimp only; rw [panic_store, setQ_store]; exact ⟨x, hx, hfl⟩
        | some y =>
          have := (flagged_modStream_set .pendingAccept (s.setQ .pendingAccept rest) id false y hg c).mpr
            (by rw [if_neg hck]; unfold Flagged; rw [setQ_store]; exact ⟨x, hx, hfl⟩)
          exact this
      · rw [ConnResetP.modStream_recv]
        exact hcr
  · exact .of_qf (QF.qPop _ _ _ hq) (qPop_next _ _)

-- ===================================================================== peeling

syntax "hr_side" : tactic
macro_rules | `(tactic| hr_side) => `(tactic| (intro _; with_reducible exact ⟨rfl, rfl⟩))
macro_rules | `(tactic| hr_side) => `(tactic| (intro _; exact accOf (by same_tac)))
macro_rules | `(tactic| hr_side) => `(tactic| with_reducible exact ⟨rfl, rfl⟩)
macro_rules | `(tactic| hr_side) => `(tactic| assumption)

elab "hr_head" : tactic => do
  relHead ``HR "_hr" (← `(tactic| first
    | with_reducible refine HR.trans ?_ (setMisc_hr _ _ _ _ _ _ ⟨rfl, rfl⟩)
    | with_reducible refine HR.trans ?_ (setCounts_hr _ _)))

syntax "hr_step" : tactic
macro_rules | `(tactic| hr_step) => `(tactic| hr_head)
macro_rules | `(tactic| hr_step) => `(tactic| with_reducible refine HR.of_fst_eq (by with_reducible assumption) ?_)
macro_rules | `(tactic| hr_step) => `(tactic| with_reducible assumption)
macro_rules | `(tactic| hr_step) => `(tactic| with_reducible exact HR.refl _)

macro "hr_auto" : tactic => `(tactic| repeat (first | hr_step | hr_side | intro _ | split | dsimp only))
macro "hr_auto_ih" ih:ident : tactic =>
  `(tactic| repeat (first | hr_step | with_reducible refine HR.trans ?_ ($ih ..) | hr_side | intro _ | split | dsimp only))

theorem scheduleSend_hr (s : Streams) (k : Nat) : HR s (s.scheduleSend k) := by
  unfold Streams.scheduleSend; hr_auto
theorem queueFrame_hr (s : Streams) (k : Nat) (f : SFrame) : HR s (s.queueFrame k f) := by
  unfold Streams.queueFrame; hr_auto
theorem tryAssignCapacity_hr (s : Streams) (k : Nat) : HR s (s.tryAssignCapacity k) := by
  unfold Streams.tryAssignCapacity; hr_auto

end H2V.Lemmas.ConnNoPanicP
