import H2V.Lemmas.ConnNoPanicPAccRes
/-
  C08 (no panic) — the server accept path, part 10: every frame entry point of `Inner` keeps `J`.
-/
namespace H2V.Lemmas.ConnNoPanicP
open H2V H2V.Model H2V.Model.Conn H2V.Lemmas.ConnCountsP
attribute [local irreducible] wrapSubU32 wrapSubUsize

-- ===================================================================== `recv_headers`

theorem recvHeadersClosure_j {s : Streams} (hj : J s) {k : Nat} (hk : Live s k) (h : HeadersIn) :
    J (recvHeadersClosure k h s).1 := by
  unfold recvHeadersClosure
  dsimp only
  split
  · exact hj
  · have hfin : ∀ (t : Streams) (r : Except PErr Unit), J t → resRR r = false → J (t.resetOnRecvStreamErr k r).1 :=
      fun t r ht hr => ht.al0 (resetOnRecvStreamErr_al t k r (notRemote_of_resRR hr))
    split
    · have h1 := recvRecvHeaders_j hj hk h
      have hr := recvRecvHeaders_rr s k h
      generalize s.recvRecvHeaders k h = p at h1 hr
      obtain ⟨s1, res⟩ := p
      cases res with
      | ok => exact hfin _ _ h1 rfl
      | oversize b =>
        cases b
        · exact hfin _ _ h1 rfl
        · refine hfin _ _ ?_ rfl
          refine h1.al0 ?_
          al_auto
      | state e => exact hfin _ _ h1 hr
      | unsupported => exact hfin _ _ (h1.al0 (unsup_al _ _)) rfl
    · have h1 := hj.al0 (recvRecvTrailers_al s k h hk)
      have hr := recvRecvTrailers_rr s k h
      generalize s.recvRecvTrailers k h = p at h1 hr
      obtain ⟨s1, res⟩ := p
      exact hfin _ _ h1 hr

theorem recvHeadersTail_j {s : Streams} (hj : J s) {k : Nat} (hk : Live s k) (h : HeadersIn) : J (recvHeadersTail k h s).1 := by
  unfold recvHeadersTail
  dsimp only
  split
  · exact hj
  · split
    · exact hj
    · exact J.transition k _ (recvHeadersClosure_j hj hk h)

theorem recvHeaders_j {s : Streams} (hn : NPI (fun _ => False) s) (hj : J s) (h : HeadersIn) : J (s.recvHeaders h).1 := by
  unfold Streams.recvHeaders
  dsimp only
  split
  · exact hj
  · cases hfk : s.store.findKey? h.sid with
    | some k =>
      simp only []
      exact recvHeadersTail_j hj (hn.ids.findKey hfk).1 h
    | none =>
      simp only []
      by_cases hforg : (!s.counts.isServer && s.mayHaveForgottenStream h.sid) = true
      · simp only [hforg, if_true]; exact hj
      · simp only [hforg, Bool.false_eq_true, if_false]
        have h1 := hj.al0 (recvOpen_al s h.sid false)
        have hk1 : KeysOK (s.recvOpen h.sid false).1 := (recvOpen_al s h.sid false).keys.keysOK hn.keys
        generalize s.recvOpen h.sid false = p at h1 hk1
        obtain ⟨s1, res⟩ := p
        cases res with
        | error e => exact h1
        | ok b =>
          cases b
          · exact h1
          · simp only []
            have h2 := h1.insert (Stream.new h.sid s1.actions.send.initWindowSz s1.recv.initWindowSz) rfl rfl rfl
            exact recvHeadersTail_j h2 ⟨_, insert_get?_new hk1.fresh _⟩ h

-- ===================================================================== `recv_data`

theorem recvDataClosure_j {s : Streams} (hj : J s) (k : Nat) (payload : Bytes) (eos : Bool) (pad : Option Nat) :
    J (recvDataClosure k payload eos pad s).1 := by
  unfold recvDataClosure
  have h1 := hj.al0 (recvRecvData_al s k payload eos pad)
  have hr := recvRecvData_rr s k payload eos pad
  generalize s.recvRecvData k payload eos pad = r at h1 hr
  obtain ⟨s1, res⟩ := r
  have hc : J { s1 with counts := (s1.counts.recordDataFrame payload.length).1 } :=
    h1.al0 (setCounts_al _ _ (cok_recordDataFrame _ _))
  have hfin : ∀ (t : Streams) (r : Except PErr Unit), J t → resRR r = false → J (t.resetOnRecvStreamErr k r).1 :=
    fun t r ht hr => ht.al0 (resetOnRecvStreamErr_al t k r (notRemote_of_resRR hr))
  cases res with
  | ok u =>
    cases eos
    · cases hok : (s1.counts.recordDataFrame payload.length).2
      · simp only [hok, Bool.not_false, if_true, Bool.false_eq_true, if_false]
        exact hfin _ _ hc rfl
      · simp only [hok, Bool.not_false, if_true]
        exact hfin _ _ hc rfl
    · simp only [Bool.not_true, Bool.false_eq_true, if_false]
      exact hfin _ _ h1 rfl
  | error e =>
    simp only []
    refine hfin _ _ ?_ hr
    split
    · exact h1.al0 (releaseConnectionCapacity_al _ _ _)
    · exact h1

theorem recvData_j {s : Streams} (hj : J s) (id : Nat) (payload : Bytes) (eos : Bool) (pad : Option Nat) :
    J (s.recvData id payload eos pad).1 := by
  cases hfk : s.store.findKey? id with
  | none =>
    unfold Streams.recvData
    simp only [hfk]
    refine hj.al0 ?_
    al_auto
  | some k =>
    rw [recvData_some payload eos pad hfk]
    exact J.transition k _ (recvDataClosure_j hj k payload eos pad)

-- ===================================================================== `recv_reset`

theorem recvResetClosure_j {s : Streams} (hj : J s) {k : Nat} (hk : Live s k) (r : Reason) : J (recvResetClosure k r s).1 := by
  unfold recvResetClosure
  have h1 := recvRecvReset_j hj hk r
  generalize s.recvRecvReset k r = p at h1
  obtain ⟨s1, res⟩ := p
  cases res with
  | error e => exact h1
  | ok u =>
    simp only []
    refine h1.al0 ?_
    al_auto

theorem recvReset_j {s : Streams} (hn : NPI (fun _ => False) s) (hj : J s) (id : Nat) (r : Reason) : J (s.recvReset id r).1 := by
  unfold Streams.recvReset
  split
  · exact hj
  split
  · exact hj
  cases hfk : s.store.findKey? id with
  | none => simp only []; split <;> exact hj
  | some k =>
    simp only []
    split
    · exact hj
    · exact J.transition k (recvResetClosure k r) (recvResetClosure_j hj (hn.ids.findKey hfk).1 r)

-- ===================================================================== `recv_window_update`, `send_reset`, GOAWAY

theorem recvWindowUpdate_j {s : Streams} (hj : J s) (id inc : Nat) : J (s.recvWindowUpdate id inc).1 := by
  refine hj.al0 ?_
  unfold Streams.recvWindowUpdate
  split
  · al_auto
  · cases hfk : s.store.findKey? id with
    | none => simp only []; split <;> exact .refl _ _
    | some k =>
      simp only []
      split
      · exact .refl _ _
      · have h1 := sendRecvStreamWindowUpdate_al s k inc
        generalize s.sendRecvStreamWindowUpdate k inc = p at h1
        obtain ⟨s1, res⟩ := p
        refine AL.trans (ks' := []) h1 (resetOnRecvStreamErr_al _ _ _ ?_) (fun _ h => h)
        cases res with
        | error reason => exact notRemote_lib _ _
        | ok u => exact notRemote_ok _

theorem actionsSendReset_j {s : Streams} (hj : J s) (k : Nat) (reason : Reason) (init : Initiator) (hi : init ≠ .remote) :
    J (s.actionsSendReset k reason init).1 := by
  rw [actionsSendReset_eq]
  exact J.transition k _ (hj.al0 (actionsSendResetClosure_al k reason init hi s))

theorem innerSendReset_j {s : Streams} (hj : J s) (id : Nat) (reason : Reason) : J (s.innerSendReset id reason).1 := by
  unfold Streams.innerSendReset
  cases hfk : s.store.findKey? id with
  | some k =>
    simp only []
    exact actionsSendReset_j hj k reason .library (by decide)
  | none =>
    simp only []
    generalize hs1 : (if s.counts.isLocalInit id = true then s.sendMaybeResetNextStreamId id else s.recvMaybeResetNextStreamId id) = s1
    have h1 : J s1 := by
      rw [← hs1]; split
      · exact hj.al0 (sendMaybeResetNextStreamId_al s id)
      · exact hj.al0 (recvMaybeResetNextStreamId_al s id)
    exact actionsSendReset_j (h1.insert (Stream.new id 0 0) rfl rfl rfl) _ reason .library (by decide)

theorem refSendReset_j {s : Streams} (hj : J s) (k : Nat) (reason : Reason) : J (s.refSendReset k reason) := by
  unfold Streams.refSendReset
  have h1 := actionsSendReset_j hj k reason .user (by decide)
  generalize s.actionsSendReset k reason .user = p at h1
  obtain ⟨s1, res⟩ := p
  cases res with
  | ok u => exact h1
  | error e => exact h1.al0 (panic_al _ _)

end H2V.Lemmas.ConnNoPanicP
