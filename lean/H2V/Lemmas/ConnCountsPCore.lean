import H2V.Lemmas.ConnCountsPMono
/-
  C05 / C18 / C19 — part 5: `Ev` for `transition_after`, `counts.transition`, `Store::try_for_each`.
-/
namespace H2V.Lemmas.ConnCountsP
open H2V H2V.Model H2V.Model.Conn
variable {ρ : Bool}
attribute [local irreducible] wrapSubU32 wrapSubUsize

-- ===================================================================== look-ups through the counter primitives

theorem modStream_get?_self (s : Streams) (k : Nat) (f : Stream → Stream) (st : Stream)
    (h : s.store.get? k = some st) (hk : (f st).key = st.key) : (s.modStream k f).store.get? k = some (f st) := by
  unfold Streams.modStream
  rw [h]
  simp only [setStream_get?, h, Option.map_some]
  rw [hk]; simp

theorem decNumStreams_get?_self (s : Streams) (k : Nat) (st : Stream) (h : s.store.get? k = some st) :
    (s.decNumStreams k).store.get? k = some { st with isCounted := false } := by
  unfold Streams.decNumStreams
  dsimp only
  repeat' split
  all_goals
    refine modStream_get?_self _ k (fun st => { st with isCounted := false }) st ?_ rfl
    simp only [Streams.modCounts, panic_store, h]

theorem isReleased_flags {x : Stream} (h : x.isReleased = true) : ∀ q, x.isQueued q = false := by
  unfold Stream.isReleased at h
  simp only [Bool.and_eq_true, Bool.not_eq_true'] at h
  intro q
  cases q <;> simp only [Stream.isQueued] <;> simp [h]

theorem stream_get?_or (s : Streams) (k : Nat) :
    (∃ x, s.store.get? k = some x ∧ s.stream k = x) ∨ (s.store.get? k = none) := by
  cases h : s.store.get? k with
  | none => right; rfl
  | some x => left; exact ⟨x, rfl, stream_of_get? h⟩

-- ===================================================================== transition_after

theorem unlink_ev (s : Streams) (id : Nat) : EvB ρ s { s with store := s.store.unlink id } := .unlink id

theorem decNumStreams_ev (s : Streams) (k : Nat) : EvB ρ s (s.decNumStreams k) := .decNum k

/-- `transition_after(stream, is_reset_counted)` for a stream that did not leave
    `pending_reset_expired` in between -/
theorem transitionAfter_ev (s : Streams) (k : Nat) (b : Bool) (h : b = true → (s.stream k).resetAt = true) :
    EvB ρ s (s.transitionAfter k b) := by
  unfold Streams.transitionAfter
  have h0 : (b && !(s.stream k).isPendingResetExpiration) = false := by
    cases b with
    | false => rfl
    | true => simp [Stream.isPendingResetExpiration, h rfl]
  simp only [h0, Bool.false_eq_true, if_false]
  -- the `unlink` / `dec_num_streams` part
  generalize hs1 : (if (s.stream k).isClosed = true then
      (if (!(s.stream k).state.isScheduledReset && (s.stream k).isCounted) = true then
        Streams.decNumStreams (if (!(s.stream k).isPendingResetExpiration) = true then { s with store := s.store.unlink (s.stream k).id } else s) k
       else (if (!(s.stream k).isPendingResetExpiration) = true then { s with store := s.store.unlink (s.stream k).id } else s))
      else s) = s1
  have e1 : EvB ρ s s1 := by
    subst hs1
    split
    · split
      · refine .trans ?_ (.decNum k)
        split
        · exact .unlink _
        · exact .refl _
      · split
        · exact .unlink _
        · exact .refl _
    · exact .refl _
  refine .trans e1 ?_
  split
  · next hrel =>
    rcases stream_get?_or s1 k with ⟨x, hx, hxs⟩ | hn
    · rw [hxs] at hrel ⊢
      split
      · next hc =>
        refine .trans (.decNum k) (.remove k _ ?_)
        intro st hst
        rw [decNumStreams_get?_self s1 k x hx] at hst
        cases hst
        exact ⟨rfl, fun q => by have := isReleased_flags hrel q; cases q <;> exact this⟩
      · next hc =>
        refine .remove k _ ?_
        intro st hst
        rw [hx] at hst; cases hst
        exact ⟨by simpa using hc, isReleased_flags hrel⟩
    · -- a dangling key: the blank stream is not released (its state is `Idle`)
      exfalso
      unfold Streams.stream at hrel
      rw [hn] at hrel
      simp [Stream.isReleased, Stream.isClosed, State.isClosed] at hrel
  · exact .refl _

/-- `counts.transition(stream, f)` -/
theorem transition_ev {α : Type} (s : Streams) (k : Nat) (f : Streams → Streams × α) (hf : ∀ s, EvB ρ s (f s).1) :
    EvB ρ s (s.transition k f).1 := by
  have : (s.transition k f).1 = (f s).1.transitionAfter k (s.stream k).isPendingResetExpiration := by
    unfold Streams.transition; rfl
  rw [this]
  exact .trans (hf s) (transitionAfter_ev _ _ _ (fun hb => (hf s).mono.resetAt k hb))

-- ===================================================================== Store::try_for_each

theorem tryForEach_ev (f : Streams → Nat → Streams × Option PErr) (hf : ∀ s k, EvB ρ s (f s k).1) :
    ∀ (fuel i len : Nat) (s : Streams), EvB ρ s (Streams.tryForEach f fuel i len s).1 := by
  intro fuel
  induction fuel with
  | zero => intro i len s; exact .refl _
  | succ n ih =>
    intro i len s
    unfold Streams.tryForEach
    split
    · split
      · exact panic_ev _ _
      · next id _ =>
        have := hf s id
        split
        · next s' e heq => rw [heq] at this; exact this
        · next s' heq =>
          rw [heq] at this
          dsimp only
          split
          · exact .trans this (ih _ _ _)
          · exact .trans this (ih _ _ _)
    · exact .refl _

theorem storeTryForEach_ev (s : Streams) (f : Streams → Nat → Streams × Option PErr) (hf : ∀ s k, EvB ρ s (f s k).1) :
    EvB ρ s (s.storeTryForEach f).1 := tryForEach_ev f hf _ _ _ s

theorem storeForEach_ev (s : Streams) (f : Streams → Nat → Streams) (hf : ∀ s k, EvB ρ s (f s k)) :
    EvB ρ s (s.storeForEach f) := storeTryForEach_ev s _ (fun s k => hf s k)

theorem tryForEachAcc_ev (f : Nat → Streams → Nat → Streams × Nat × Option PErr) (hf : ∀ a s k, EvB ρ s (f a s k).1) :
    ∀ (fuel i len acc : Nat) (s : Streams), EvB ρ s (Streams.tryForEachAcc f fuel i len acc s).1 := by
  intro fuel
  induction fuel with
  | zero => intro i len acc s; exact .refl _
  | succ n ih =>
    intro i len acc s
    unfold Streams.tryForEachAcc
    split
    · split
      · exact panic_ev _ _
      · next id _ =>
        have := hf acc s id
        split
        · next s' acc' e heq => rw [heq] at this; exact this
        · next s' acc' heq =>
          rw [heq] at this
          dsimp only
          split
          · exact .trans this (ih _ _ _ _)
          · exact .trans this (ih _ _ _ _)
    · exact .refl _

end H2V.Lemmas.ConnCountsP
