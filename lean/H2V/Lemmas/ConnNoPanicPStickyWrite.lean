import H2V.Lemmas.ConnNoPanicPStickyLoops
import H2V.Lemmas.ConnNoPanicPStickyClone
/-
  C08 (no panic) — the first recorded panic message is never overwritten, part 4: the write path
  (`pop_frame`, `buffer_pending`, `Streams::poll_complete`, `send_pending_refusal`).
  `pop_frame` through the clone `popFrameS` (ConnNoPanicPStickyClone): `Stream.sendData` is a variable there
  (whatever stream it returns, `setStream` keeps the message).
-/
namespace H2V.Lemmas.ConnNoPanicP.Sticky
open H2V H2V.Model H2V.Model.Conn
attribute [local irreducible] wrapSubU32 wrapSubUsize

theorem sendConnectionWindowUpdate_st (s : Streams) (w : Writer) : ST s (s.sendConnectionWindowUpdate w).1 := by
  unfold Streams.sendConnectionWindowUpdate; st_auto
theorem sendStreamWindowUpdates_st (n : Nat) : ∀ (s : Streams) (w : Writer), ST s (Streams.sendStreamWindowUpdates n s w).1 := by
  induction n with
  | zero => intro s w; unfold Streams.sendStreamWindowUpdates; exact .refl _
  | succ n ih => intro s w; unfold Streams.sendStreamWindowUpdates; st_auto_ih ih
theorem recvBufferPending_st (s : Streams) (w : Writer) : ST s (s.recvBufferPending w).1 := by
  unfold Streams.recvBufferPending; st_auto

theorem popPendingOpen_st (s : Streams) : ST s s.popPendingOpen.1 := by
  unfold Streams.popPendingOpen; st_auto

theorem popFrameS_st (sd : Stream → Nat → Nat → Stream × List String × Bool) (fuel : Nat) :
    ∀ (s : Streams) (maxLen : Nat), ST s (popFrameS sd fuel s maxLen).1 := by
  induction fuel with
  | zero => intro s m; rw [popFrameS_zero]; exact .refl _
  | succ n ih =>
    intro s m; rw [popFrameS_succ]
    split
    · st_auto
    · next s' id heq =>
      have h0 : ST s s' := .of_fst_eq heq (qPop_st _ _)
      extract_lets +onlyGivenNames st isPendingReset finish
      -- the closure `finish` (requeue, transition, return) is kept opaque: it occurs five times
      have hfin : ∀ t f, ST t (finish t f).1 := by intro t f; dsimp only [finish]; st_auto
      clear_value finish
      repeat (first | st_step | with_reducible refine ST.trans ?_ (ih ..) | with_reducible refine ST.trans ?_ (hfin ..)
                    | split | dsimp only)

theorem popFrame_st (fuel : Nat) (s : Streams) (maxLen : Nat) : ST s (Streams.popFrame fuel s maxLen).1 := by
  rw [popFrameS.eq]; exact popFrameS_st _ fuel s maxLen

theorem reclaimFrameInner_st (s : Streams) (fr : DataFrame) : ST s (s.reclaimFrameInner fr).1 := by
  unfold Streams.reclaimFrameInner; st_auto
theorem reclaimFrame_st (s : Streams) (w : Writer) : ST s (s.reclaimFrame w).1 := by
  unfold Streams.reclaimFrame; st_auto
theorem bufferOut_st (s : Streams) (w : Writer) (f : Streams.OutFrame) : ST s (s.bufferOut w f).1 := by
  unfold Streams.bufferOut; st_auto
theorem prioBufferPendingLoop_st (n : Nat) : ∀ (s : Streams) (w : Writer), ST s (Streams.prioBufferPendingLoop n s w).1 := by
  induction n with
  | zero => intro s w; unfold Streams.prioBufferPendingLoop; exact panic_st _ _
  | succ n ih => intro s w; unfold Streams.prioBufferPendingLoop; st_auto_ih ih
theorem prioBufferPending_st (n : Nat) (s : Streams) (w : Writer) : ST s (Streams.prioBufferPending n s w).1 := by
  unfold Streams.prioBufferPending; st_auto
theorem bufferPending_st (n : Nat) (s : Streams) (w : Writer) : ST s (Streams.bufferPending n s w).1 := by
  unfold Streams.bufferPending; st_auto
theorem pollComplete_st (n : Nat) : ∀ (s : Streams) (w : Writer) (io : Tio) (t : String), ST s (Streams.pollComplete n s w io t).1 := by
  induction n with
  | zero => intro s w io t; unfold Streams.pollComplete; exact panic_st _ _
  | succ n ih => intro s w io t; unfold Streams.pollComplete; st_auto_ih ih
theorem pollSendPendingRefusal_st (n : Nat) :
    ∀ (s : Streams) (w : Writer) (io : Tio) (t : String), ST s (Streams.pollSendPendingRefusal n s w io t).1 := by
  induction n with
  | zero => intro s w io t; unfold Streams.pollSendPendingRefusal; exact .refl _
  | succ n ih => intro s w io t; unfold Streams.pollSendPendingRefusal; st_auto_ih ih

end H2V.Lemmas.ConnNoPanicP.Sticky
