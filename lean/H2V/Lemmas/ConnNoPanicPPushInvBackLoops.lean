import H2V.Lemmas.ConnNoPanicPPushInvBackFns
/-
  C08 (no panic) — PUSH_PROMISE bookkeeping, part 3: the frame `HB` for the teardown loops, `Store::for_each`,
  `counts.transition`, the settings functions and the frame entry points that do not insert.
-/
namespace H2V.Lemmas.ConnNoPanicP
open H2V H2V.Model H2V.Model.Conn H2V.Lemmas.ConnCountsP
attribute [local irreducible] wrapSubU32 wrapSubUsize

-- ===================================================================== queue-draining loops

theorem clearPendingCapacity_hb (n : Nat) (s : Streams) : HB s (Streams.clearPendingCapacity n s) := by
  induction n generalizing s with
  | zero => unfold Streams.clearPendingCapacity; exact .refl _
  | succ n ih => unfold Streams.clearPendingCapacity; hb_auto_ih ih
theorem clearPendingSend_hb (n : Nat) (s : Streams) : HB s (Streams.clearPendingSend n s) := by
  induction n generalizing s with
  | zero => unfold Streams.clearPendingSend; exact .refl _
  | succ n ih => unfold Streams.clearPendingSend; hb_auto_ih ih
theorem clearPendingOpen_hb (n : Nat) (s : Streams) : HB s (Streams.clearPendingOpen n s) := by
  induction n generalizing s with
  | zero => unfold Streams.clearPendingOpen; exact .refl _
  | succ n ih => unfold Streams.clearPendingOpen; hb_auto_ih ih
theorem sendClearQueues_hb (s : Streams) : HB s s.sendClearQueues := by
  unfold Streams.sendClearQueues; hb_auto
theorem clearExpiredResetStreams_hb (n : Nat) (s : Streams) : HB s (Streams.clearExpiredResetStreams n s) := by
  induction n generalizing s with
  | zero => unfold Streams.clearExpiredResetStreams; exact .refl _
  | succ n ih => unfold Streams.clearExpiredResetStreams; hb_auto_ih ih
theorem clearStreamWindowUpdateQueue_hb (n : Nat) (s : Streams) : HB s (Streams.clearStreamWindowUpdateQueue n s) := by
  induction n generalizing s with
  | zero => unfold Streams.clearStreamWindowUpdateQueue; exact .refl _
  | succ n ih => unfold Streams.clearStreamWindowUpdateQueue; hb_auto_ih ih
theorem clearAllResetStreams_hb (n : Nat) (s : Streams) : HB s (Streams.clearAllResetStreams n s) := by
  induction n generalizing s with
  | zero => unfold Streams.clearAllResetStreams; exact .refl _
  | succ n ih => unfold Streams.clearAllResetStreams; hb_auto_ih ih
theorem clearAllPendingAccept_hb (n : Nat) (s : Streams) : HB s (Streams.clearAllPendingAccept n s) := by
  induction n generalizing s with
  | zero => unfold Streams.clearAllPendingAccept; exact .refl _
  | succ n ih => unfold Streams.clearAllPendingAccept; hb_auto_ih ih
theorem recvClearQueues_hb (s : Streams) (b : Bool) : HB s (s.recvClearQueues b) := by
  unfold Streams.recvClearQueues; hb_auto
theorem clearQueues_hb (s : Streams) (b : Bool) : HB s (s.clearQueues b) := by
  unfold Streams.clearQueues; hb_auto

-- ===================================================================== `counts.transition`, `Store::for_each`

theorem transition_hb {α : Type} (s : Streams) (k : Nat) (f : Streams → Streams × α) (hf : ∀ s, HB s (f s).1) :
    HB s (s.transition k f).1 := by
  have : (s.transition k f).1 = (f s).1.transitionAfter k (s.stream k).isPendingResetExpiration := by
    unfold Streams.transition; rfl
  rw [this]
  exact (hf s).trans (transitionAfter_hb _ _ _)

theorem tryForEach_hb (f : Streams → Nat → Streams × Option PErr) (hf : ∀ s k, HB s (f s k).1) :
    ∀ (fuel i len : Nat) (s : Streams), HB s (Streams.tryForEach f fuel i len s).1 := by
  intro fuel
  induction fuel with
  | zero => intro i len s; exact .refl _
  | succ n ih =>
    intro i len s
    unfold Streams.tryForEach
    split
    · split
      · exact panic_hb _ _
      · next id _ =>
        have := hf s id
        split
        · next s' e heq => rw [heq] at this; exact this
        · next s' heq =>
          rw [heq] at this
          dsimp only
          split
          · exact .trans this (ih _ _ _)
          · exact .trans this (ih _ _ _)
    · exact .refl _

theorem storeTryForEach_hb (s : Streams) (f : Streams → Nat → Streams × Option PErr) (hf : ∀ s k, HB s (f s k).1) :
    HB s (s.storeTryForEach f).1 := tryForEach_hb f hf _ _ _ s

theorem storeForEach_hb (s : Streams) (f : Streams → Nat → Streams) (hf : ∀ s k, HB s (f s k)) :
    HB s (s.storeForEach f) := storeTryForEach_hb s _ (fun s k => hf s k)

theorem tryForEachAcc_hb (f : Nat → Streams → Nat → Streams × Nat × Option PErr) (hf : ∀ a s k, HB s (f a s k).1) :
    ∀ (fuel i len acc : Nat) (s : Streams), HB s (Streams.tryForEachAcc f fuel i len acc s).1 := by
  intro fuel
  induction fuel with
  | zero => intro i len acc s; exact .refl _
  | succ n ih =>
    intro i len acc s
    unfold Streams.tryForEachAcc
    split
    · split
      · exact panic_hb _ _
      · next id _ =>
        have := hf acc s id
        split
        · next s' a' e heq => rw [heq] at this; exact this
        · next s' a' heq =>
          rw [heq] at this
          dsimp only
          split
          · exact .trans this (ih _ _ _ _)
          · exact .trans this (ih _ _ _ _)
    · exact .refl _

theorem setConnError_hb (s : Streams) (o : Option PErr) :
    HB s { s with actions := { s.actions with connError := o } } := .of_store rfl rfl

theorem errClosure_hb (s : Streams) (k : Nat) (e : PErr) :
    HB s (s.transition k fun s => ((s.recvHandleError k e).sendHandleError k, ())).1 :=
  transition_hb s k _ (fun s => (recvHandleError_hb s k e).trans (sendHandleError_hb _ k))

theorem handleError_hb (s : Streams) (err : PErr) : HB s (s.handleError err).1 := by
  unfold Streams.handleError
  exact (storeForEach_hb s _ (fun s k => errClosure_hb s k err)).trans (setConnError_hb _ _)

theorem recvGoAwayFrame_hb (s : Streams) (last : Nat) (r : Reason) (d : Bytes) : HB s (s.recvGoAwayFrame last r d).1 := by
  unfold Streams.recvGoAwayFrame
  have h0 := sendRecvGoAway_hb s last
  split
  · next s1 e heq => rw [heq] at h0; exact h0
  · next s1 _ heq =>
    rw [heq] at h0
    refine h0.trans (.trans (storeForEach_hb _ _ (fun s k => ?_)) (setConnError_hb _ _))
    dsimp only
    split
    · exact errClosure_hb _ _ _
    · exact .refl _

theorem recvEof_hb (s : Streams) (b : Bool) : HB s (s.recvEof b) := by
  unfold Streams.recvEof
  dsimp only
  generalize hs1 : (if s.actions.connError.isNone = true then _ else s) = s1
  have h1 : HB s s1 := by
    rw [← hs1]; split
    · exact setConnError_hb _ _
    · exact .refl _
  have a2 := storeForEach_hb s1 (fun s id => (s.transition id fun s => ((s.recvRecvEof id).sendHandleError id, ())).1)
    (fun s k => transition_hb s k _ (fun s => (recvRecvEof_hb s k).trans (sendHandleError_hb _ k)))
  exact (h1.trans a2).trans (clearQueues_hb _ _)

-- ===================================================================== settings

theorem sarsWindow_hb (s : Streams) (a : Option Nat) : HB s (sarsWindow s a).1 := by
  unfold sarsWindow
  split
  · exact .refl _
  · next val =>
    dsimp only
    have h2 : HB s (s.modSend fun sd => { sd with initWindowSz := val }) := modSend_hb _ _
    generalize (s.modSend fun sd => { sd with initWindowSz := val }) = s2 at h2 ⊢
    split
    · have h3 := tryForEachAcc_hb (Streams.decStreamWindow (s.actions.send.initWindowSz - val))
        (fun a t k => decStreamWindow_hb _ a t k) (2 * s2.store.ids.length + 1) 0 s2.store.ids.length 0 s2
      split
      · next s3 _ e heq => rw [heq] at h3; exact h2.trans h3
      · next s3 total heq => rw [heq] at h3; exact h2.trans (h3.trans (assignConnectionCapacity_hb _ _))
    · split
      · refine h2.trans (storeTryForEach_hb _ _ (fun t k => ?_))
        have := sendRecvStreamWindowUpdate_hb t k (val - s.actions.send.initWindowSz)
        split
        · next s' r heq => rw [heq] at this; exact this
        · next s' _ heq => rw [heq] at this; exact this
      · exact h2

theorem sendApplyRemoteSettings_hb (s : Streams) (a b c : Option Nat) : HB s (s.sendApplyRemoteSettings a b c).1 := by
  rw [sars_eq]
  have h1 : HB s (match c with
      | some v => s.modSend fun sd => { sd with isExtendedConnectProtocolEnabled := v != 0 }
      | none => s) := by
    split
    · exact modSend_hb _ _
    · exact .refl _
  have h2 := h1.trans (sarsWindow_hb _ a)
  generalize sarsWindow _ a = p at h2 ⊢
  obtain ⟨s2, res⟩ := p
  dsimp only at h2 ⊢
  split
  · exact h2
  · dsimp only
    split
    · exact h2.trans (modSend_hb _ _)
    · exact h2

theorem applyRemoteSettings_hb (s : Streams) (vals : List (Nat × Nat)) (b : Bool) : HB s (s.applyRemoteSettings vals b).1 := by
  unfold Streams.applyRemoteSettings
  exact (modCounts_hb _ _).trans (sendApplyRemoteSettings_hb _ _ _ _)

theorem alsDec_hb (dec : Nat) (s : Streams) (k : Nat) : HB s (alsDec dec s k).1 := by
  unfold alsDec; hb_auto
theorem alsInc_hb (inc : Nat) (s : Streams) (k : Nat) : HB s (alsInc inc s k).1 := by
  unfold alsInc; hb_auto

theorem alsRest_hb (s s1 : Streams) (h1 : HB s s1) (a : Option Nat) :
    HB s (match a with
      | none => (s1, (.ok () : Except PErr Unit))
      | some target =>
        let oldSz := s1.recv.initWindowSz
        let s := s1.modRecv fun r => { r with initWindowSz := target }
        let (s, res) : Streams × Option PErr :=
          if target < oldSz then s.storeTryForEach (alsDec (oldSz - target))
          else if target > oldSz then s.storeTryForEach (alsInc (target - oldSz))
          else (s, none)
        match res with
        | some e => (s, .error e)
        | none => (s, .ok ())).1 := by
  split
  · exact h1
  · next target =>
    dsimp only
    have h2 : HB s (s1.modRecv fun r => { r with initWindowSz := target }) := h1.trans (modRecv_hb _ _ (fun _ => rfl))
    generalize (s1.modRecv fun r => { r with initWindowSz := target }) = s2 at h2 ⊢
    have h3 : HB s (if target < s1.recv.initWindowSz then s2.storeTryForEach (alsDec (s1.recv.initWindowSz - target))
        else if target > s1.recv.initWindowSz then s2.storeTryForEach (alsInc (target - s1.recv.initWindowSz))
        else (s2, none)).1 := by
      split
      · exact h2.trans (storeTryForEach_hb _ _ (fun t k => alsDec_hb _ t k))
      · split
        · exact h2.trans (storeTryForEach_hb _ _ (fun t k => alsInc_hb _ t k))
        · exact h2
    generalize (if target < s1.recv.initWindowSz then s2.storeTryForEach (alsDec (s1.recv.initWindowSz - target))
        else if target > s1.recv.initWindowSz then s2.storeTryForEach (alsInc (target - s1.recv.initWindowSz))
        else (s2, none)) = p at h3 ⊢
    obtain ⟨s3, res⟩ := p
    dsimp only at h3 ⊢
    split <;> exact h3

theorem applyLocalSettings_hb (s : Streams) (a b : Option Nat) : HB s (s.applyLocalSettings a b).1 := by
  rw [als_eq]
  cases b with
  | none => exact alsRest_hb s s (.refl _) a
  | some v =>
    refine alsRest_hb s _ ?_ a
    exact modRecv_hb _ _ (fun _ => rfl)

theorem applyLocalSettingsFrame_hb (s : Streams) (vals : List (Nat × Nat)) : HB s (s.applyLocalSettingsFrame vals).1 := by
  unfold Streams.applyLocalSettingsFrame; exact applyLocalSettings_hb _ _ _

theorem setTargetConnectionWindow_hb (s : Streams) (t : Nat) : HB s (s.setTargetConnectionWindow t).1 := by
  unfold Streams.setTargetConnectionWindow; hb_auto

-- ===================================================================== frames and handle calls that do not insert

theorem resetOnRecvStreamErr_hb (s : Streams) (k : Nat) (r : Except PErr Unit) : HB s (s.resetOnRecvStreamErr k r).1 := by
  unfold Streams.resetOnRecvStreamErr; hb_auto

theorem actionsSendReset_hb (s : Streams) (k : Nat) (r : Reason) (i : Initiator) : HB s (s.actionsSendReset k r i).1 := by
  unfold Streams.actionsSendReset
  refine transition_hb s k _ (fun s => ?_)
  hb_auto

theorem refSendReset_hb (s : Streams) (k : Nat) (r : Reason) : HB s (s.refSendReset k r) := by
  unfold Streams.refSendReset
  have := actionsSendReset_hb s k r .user
  hb_auto

theorem recvData_hb (s : Streams) (id : Nat) (p : Bytes) (eos : Bool) (pad : Option Nat) : HB s (s.recvData id p eos pad).1 := by
  unfold Streams.recvData
  dsimp only
  split
  · hb_auto
  · next k _ =>
    refine transition_hb s k _ (fun s => ?_)
    hb_auto

theorem recvReset_hb (s : Streams) (id : Nat) (r : Reason) : HB s (s.recvReset id r).1 := by
  unfold Streams.recvReset
  split
  · exact .refl _
  split
  · exact .refl _
  split
  · split <;> exact .refl _
  · next k _ =>
    split
    · exact .refl _
    · refine transition_hb s k _ (fun s => ?_)
      hb_auto

theorem recvWindowUpdate_hb (s : Streams) (id inc : Nat) : HB s (s.recvWindowUpdate id inc).1 := by
  unfold Streams.recvWindowUpdate; hb_auto

theorem refSendResponse_hb (s : Streams) (k : Nat) (f : List Hpack.Field) (eos : Bool) : HB s (s.refSendResponse k f eos).1 :=
  transition_hb s k _ (fun s => sendHeaders_hb s k eos f)
theorem refSendInformationalHeaders_hb (s : Streams) (k : Nat) (f : List Hpack.Field) :
    HB s (s.refSendInformationalHeaders k f).1 :=
  transition_hb s k _ (fun s => sendInterimInformationalHeaders_hb s k f)
theorem refSendData_hb (s : Streams) (k len : Nat) (eos : Bool) : HB s (s.refSendData k len eos).1 :=
  transition_hb s k _ (fun s => prioSendData_hb s k len eos)
theorem refSendTrailers_hb (s : Streams) (k : Nat) (f : List Hpack.Field) : HB s (s.refSendTrailers k f).1 :=
  transition_hb s k _ (fun s => sendTrailers_hb s k f)

theorem refInc_hb (s : Streams) (k : Nat) (hk : ¬ Held s k) : HB s (s.refInc k) := by
  unfold Streams.refInc; hb_auto
theorem cloneStreamRef_hb (s : Streams) (k : Nat) (hk : ¬ Held s k) : HB s (s.cloneStreamRef k) := by
  unfold Streams.cloneStreamRef
  exact (refInc_hb s k hk).trans (setMisc_hb _ _ _ _ _ _ rfl)
theorem recvNextIncoming_hb (s : Streams) : HB s s.recvNextIncoming.1 := by
  unfold Streams.recvNextIncoming; hb_auto

/-- the key `Queue::pop` hands out is not flagged any more -/
theorem qPopAcc_not_held {s s1 : Streams} {k : Nat} (h : s.qPop .pendingAccept = (s1, some k)) : ¬ Held s1 k := by
  unfold Streams.qPop at h
  split at h
  · cases h
  · next id rest _ =>
    simp only [Prod.mk.injEq, Option.some.injEq] at h
    obtain ⟨h1, h2⟩ := h
    subst h2; subst h1
    intro hc
    obtain ⟨x, hx, hfl⟩ := hc.1
    cases hg : (s.setQ .pendingAccept rest).store.get? id with
    | none =>
      have hst : ((s.setQ .pendingAccept rest).modStream id fun st => st.setQueued .pendingAccept false).store =
          (s.setQ .pendingAccept rest).store := by
        unfold Streams.modStream; rw [hg]; dsimp only; rw [panic_store]
      rw [hst, hg] at hx; cases hx
    | some y =>
      have h2 := (flagged_modStream_set .pendingAccept (s.setQ .pendingAccept rest) id false y hg id).mp ⟨x, hx, hfl⟩
      rw [if_pos rfl] at h2; cases h2

theorem nextIncoming_hb (s : Streams) : HB s s.nextIncoming.1 := by
  unfold Streams.nextIncoming
  split
  · next s1 k heq =>
    have h1 : HB s s1 := HB.of_fst_eq heq (recvNextIncoming_hb s)
    have hk1 : ¬ Held s1 k := qPopAcc_not_held (by unfold Streams.recvNextIncoming at heq; exact heq)
    dsimp only
    generalize hs3 : (if (({ s1 with refs := s1.refs + 1 } : Streams).stream k).state.isRemoteReset = true then _ else ({ s1 with refs := s1.refs + 1 } : Streams)) = s3
    have h3 : HB s1 s3 := by
      rw [← hs3]
      have h0 : HB s1 ({ s1 with refs := s1.refs + 1 } : Streams) := .of_store rfl rfl
      split
      · exact h0.trans (modCountsA_hb _ _ _)
      · exact h0
    exact (h1.trans h3).trans (refInc_hb s3 k (fun h => hk1 (h3.back k h).1))
  · next s1 heq => exact HB.of_fst_eq heq (recvNextIncoming_hb s)
theorem recvTakeRequest_hb (s : Streams) (k : Nat) (hk : ¬ Held s k) : HB s (s.recvTakeRequest k).1 := by
  unfold Streams.recvTakeRequest; hb_auto
theorem recvPollResponse_hb (n : Nat) : ∀ (s : Streams) (k : Nat) (t : String), ¬ Held s k → HB s (Streams.recvPollResponse n s k t).1 := by
  induction n with
  | zero => intro s k t _; unfold Streams.recvPollResponse; exact .refl _
  | succ n ih =>
    intro s k t hk
    unfold Streams.recvPollResponse
    split
    · hb_auto
    · next rest _ =>
      have h1 : HB s (s.modStream k fun st => { st with pendingRecv := rest }) :=
        modStream_hb _ _ _ (.inr ⟨hk, fun _ => ⟨rfl, rfl⟩⟩)
      exact h1.trans (ih _ _ _ (fun h => hk (h1.back k h).1))
    · hb_auto
    · hb_auto
theorem dropPre_hb (s : Streams) (k : Nat) (hk : ¬ Held s k) : HB s (dropPre s k) := by
  unfold dropPre
  dsimp only
  generalize hs1 : (if (({ s with refs := s.refs - 1 } : Streams).stream k).refCount > 0 then ({ s with refs := s.refs - 1 } : Streams)
    else ({ s with refs := s.refs - 1 } : Streams).panic _) = s1
  have h1 : HB s s1 := by
    rw [← hs1]
    have h0 : HB s ({ s with refs := s.refs - 1 } : Streams) := .of_store rfl rfl
    split
    · exact h0
    · exact h0.trans (panic_hb _ _)
  have h2 : HB s1 (s1.modStream k fun st => { st with refCount := st.refCount - 1 }) :=
    modStream_hb _ _ _ (.inr ⟨fun h => hk (h1.back k h).1, fun _ => ⟨rfl, rfl⟩⟩)
  split
  · exact (h1.trans h2).trans (notifyTask_hb _)
  · exact h1.trans h2

end H2V.Lemmas.ConnNoPanicP
