import H2V.Lemmas.ConnNoPanicPApi
/-
  C08 (no panic) — part 8: the loops that drain an intrusive queue and release the streams they pop
  (`clear_pending_capacity`, `clear_pending_send`, `clear_pending_open`, `clear_stream_window_update_queue`)
  keep the full invariant `NPI`.
-/
namespace H2V.Lemmas.ConnNoPanicP
open H2V H2V.Model H2V.Model.Conn H2V.Lemmas.ConnCountsP

-- ===================================================================== `Queue::pop` on a consistent queue

/-- the key popped from a consistent queue is live, before and after the pop -/
theorem qPop_live {q : QName} {s : Streams} (hq : QOK q s) {s' : Streams} {id : Nat}
    (h : s.qPop q = (s', some id)) : Live s id ∧ Live s' id := by
  unfold Streams.qPop at h
  split at h
  · cases h
  · next id' rest heq =>
    cases h
    obtain ⟨x, hx, _⟩ := (hq.mem id).mp (by rw [heq]; exact List.mem_cons_self ..)
    exact ⟨⟨x, hx⟩, (SameKeys.modStream _ _ _).live.mpr (live_setQ.mpr ⟨x, hx⟩)⟩

theorem qPop_panicked {q : QName} {s : Streams} (hq : QOK q s) : (s.qPop q).1.panicked = s.panicked := by
  unfold Streams.qPop; split
  · rfl
  · next id rest heq =>
    dsimp only
    obtain ⟨x, hx, _⟩ := (hq.mem id).mp (by rw [heq]; exact List.mem_cons_self ..)
    rw [modStream_panicked_live (live_setQ.mpr ⟨x, hx⟩), setQ_panicked]

theorem qPop_av {s : Streams} (q : QName) (h : AvOK s) : AvOK (s.qPop q).1 := by
  unfold Streams.qPop; split
  · exact h
  · exact avOK_modStream_flow _ _ (fun x => setQueued_flow x _ false) (avOK_setQ _ _ h)

theorem qPop_errSame (s : Streams) (q : QName) : ErrSame s (s.qPop q).1 := by
  unfold Streams.qPop; split
  · exact .refl _
  · dsimp only; unfold ErrSame; rw [modStream_counts, setQ_counts']; exact ⟨rfl, rfl⟩

theorem qPop_idsOK {s : Streams} (q : QName) (h : IdsOK s) : IdsOK (s.qPop q).1 :=
  h.of_frame (SameKeys.qPop _ _) (qPop_ids _ _) (qPop_spr _ _ (fun x v => setQueued_id x q v))

theorem qPop_evB {ρ : Bool} (s : Streams) (q : QName) (h : q ≠ .pendingResetExpired) : EvB ρ s (s.qPop q).1 := by
  by_cases h2 : q = .pendingOpen
  · subst h2; exact .qPopOpen
  · exact .qPop q h h2

/-- popping any queue but `pending_accept` / `pending_reset_expired` keeps the full invariant -/
theorem qPop_npi {E : Nat → Prop} {s : Streams} (h : NPI E s) (q : QName) (h1 : q ≠ .pendingAccept)
    (h2 : q ≠ .pendingResetExpired) : NPI E (s.qPop q).1 :=
  h.ev (ρ := false) (qPop_evB s q h2) noE ((qPop_panicked (h.qs q h1)).trans h.np) (qPop_av q h.av) (qPop_idsOK q h.ids)

theorem qPop_npi' {E : Nat → Prop} {s s' : Streams} {o : Option Nat} (h : NPI E s) (q : QName) (h1 : q ≠ .pendingAccept)
    (h2 : q ≠ .pendingResetExpired) (heq : s.qPop q = (s', o)) : NPI E s' := by
  have := qPop_npi h q h1 h2; rw [heq] at this; exact this

theorem qPop_errOK {s s' : Streams} {o : Option Nat} {q : QName} (he : ErrOK s) (heq : s.qPop q = (s', o)) : ErrOK s' := by
  have := (qPop_errSame s q).errOK he; rw [heq] at this; exact this

-- ===================================================================== the queue-draining loops

/-- one round of a draining loop: pop `q`, (optionally a light step on the popped stream), `transition_after` -/
theorem popRound_npi {E : Nat → Prop} {s s' s2 : Streams} {id : Nat} {q : QName} (h : NPI E s) (he : ErrOK s)
    (h1 : q ≠ .pendingAccept) (h2 : q ≠ .pendingResetExpired) (heq : s.qPop q = (s', some id))
    (hlt : LT [id] s' s2) (hev : EvB false s' s2) :
    NPI E (s2.transitionAfter id (s'.stream id).isPendingResetExpiration) ∧
    ErrOK (s2.transitionAfter id (s'.stream id).isPendingResetExpiration) := by
  have h' := qPop_npi' h q h1 h2 heq
  have he' := qPop_errOK he heq
  have hl := (qPop_live (h.qs q h1) heq).2
  have h2 : NPI E s2 := h'.lt hlt.w (liveAll1 hl) hev noE
  have he2 : ErrOK s2 := hlt.err.errOK he'
  exact ⟨transitionAfter_npi h2 he2 id _ (fun hb => hev.mono.resetAt id hb), (transitionAfter_errSame _ _ _).errOK he2⟩

theorem clearPendingCapacity_npe {E : Nat → Prop} (n : Nat) {s : Streams} (h : NPI E s) (he : ErrOK s) :
    NPI E (Streams.clearPendingCapacity n s) ∧ ErrOK (Streams.clearPendingCapacity n s) := by
  induction n generalizing s with
  | zero => exact ⟨h, he⟩
  | succ n ih =>
    unfold Streams.clearPendingCapacity
    split
    · next s' heq => exact ⟨qPop_npi' h _ (by decide) (by decide) heq, qPop_errOK he heq⟩
    · next s' id heq =>
      have := popRound_npi h he (by decide) (by decide) heq (.refl _ _) (.refl _)
      exact ih this.1 this.2

theorem clearPendingOpen_npe {E : Nat → Prop} (n : Nat) {s : Streams} (h : NPI E s) (he : ErrOK s) :
    NPI E (Streams.clearPendingOpen n s) ∧ ErrOK (Streams.clearPendingOpen n s) := by
  induction n generalizing s with
  | zero => exact ⟨h, he⟩
  | succ n ih =>
    unfold Streams.clearPendingOpen
    split
    · next s' heq => exact ⟨qPop_npi' h _ (by decide) (by decide) heq, qPop_errOK he heq⟩
    · next s' id heq =>
      have := popRound_npi h he (by decide) (by decide) heq (.refl _ _) (.refl _)
      exact ih this.1 this.2

theorem clearStreamWindowUpdateQueue_npe {E : Nat → Prop} (n : Nat) {s : Streams} (h : NPI E s) (he : ErrOK s) :
    NPI E (Streams.clearStreamWindowUpdateQueue n s) ∧ ErrOK (Streams.clearStreamWindowUpdateQueue n s) := by
  induction n generalizing s with
  | zero => exact ⟨h, he⟩
  | succ n ih =>
    unfold Streams.clearStreamWindowUpdateQueue
    split
    · next s' heq => exact ⟨qPop_npi' h _ (by decide) (by decide) heq, qPop_errOK he heq⟩
    · next s' id heq =>
      have := popRound_npi h he (by decide) (by decide) heq (.refl _ _) (.refl _)
      exact ih this.1 this.2

theorem clearPendingSend_npe {E : Nat → Prop} (n : Nat) {s : Streams} (h : NPI E s) (he : ErrOK s) :
    NPI E (Streams.clearPendingSend n s) ∧ ErrOK (Streams.clearPendingSend n s) := by
  induction n generalizing s with
  | zero => exact ⟨h, he⟩
  | succ n ih =>
    unfold Streams.clearPendingSend
    split
    · next s' heq => exact ⟨qPop_npi' h _ (by decide) (by decide) heq, qPop_errOK he heq⟩
    · next s' id heq =>
      dsimp only
      split
      · next reason _ =>
        have := popRound_npi h he (by decide) (by decide) heq
          (modStreamW_lt _ _ _ (fun x => setReset_inert x reason .library))
          (modStreamW_ev' s' id (fun st => st.setReset reason .library) (setReset_same (s'.stream id) reason .library))
        exact ih this.1 this.2
      · have := popRound_npi h he (by decide) (by decide) heq (.refl _ _) (.refl _)
        exact ih this.1 this.2

theorem clearPendingCapacity_npi {E : Nat → Prop} (n : Nat) {s : Streams} (h : NPI E s) (he : ErrOK s) :
    NPI E (Streams.clearPendingCapacity n s) := (clearPendingCapacity_npe n h he).1
theorem clearPendingSend_npi {E : Nat → Prop} (n : Nat) {s : Streams} (h : NPI E s) (he : ErrOK s) :
    NPI E (Streams.clearPendingSend n s) := (clearPendingSend_npe n h he).1
theorem clearPendingOpen_npi {E : Nat → Prop} (n : Nat) {s : Streams} (h : NPI E s) (he : ErrOK s) :
    NPI E (Streams.clearPendingOpen n s) := (clearPendingOpen_npe n h he).1
theorem clearStreamWindowUpdateQueue_npi {E : Nat → Prop} (n : Nat) {s : Streams} (h : NPI E s) (he : ErrOK s) :
    NPI E (Streams.clearStreamWindowUpdateQueue n s) := (clearStreamWindowUpdateQueue_npe n h he).1

/-- `Send::clear_queues` -/
theorem sendClearQueues_npe {E : Nat → Prop} {s : Streams} (h : NPI E s) (he : ErrOK s) :
    NPI E s.sendClearQueues ∧ ErrOK s.sendClearQueues := by
  unfold Streams.sendClearQueues
  dsimp only
  have h1 := clearPendingCapacity_npe (s.prio.pendingCapacity.length + 1) h he
  have h2 := clearPendingSend_npe ((Streams.clearPendingCapacity (s.prio.pendingCapacity.length + 1) s).prio.pendingSend.length + 1) h1.1 h1.2
  exact clearPendingOpen_npe _ h2.1 h2.2

theorem sendClearQueues_npi {E : Nat → Prop} {s : Streams} (h : NPI E s) (he : ErrOK s) : NPI E s.sendClearQueues :=
  (sendClearQueues_npe h he).1

end H2V.Lemmas.ConnNoPanicP
