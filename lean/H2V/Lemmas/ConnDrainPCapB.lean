import H2V.Lemmas.ConnDrainPCapA
/-
  ConnDrainP, part 15 — `KInv` through prioritize.rs / send.rs (generated from the shape of ConnFlowP's `ReqOk` pass;
  the capacity-moving functions by hand, on top of `tryAssign_queue` and `assignConnectionCapacity_drains`).
-/
namespace H2V.Lemmas.ConnDrainP
open H2V H2V.Model H2V.Model.Conn
open H2V.Lemmas.ConnFlowP H2V.Lemmas.Comp

syntax "k_peel" : tactic
macro_rules | `(tactic| k_peel) => `(tactic| first
  | with_reducible apply KInv.panic
  | with_reducible apply KInv.unsup
  | with_reducible apply KInv.wake
  | with_reducible apply KInv.notifyTask
  | with_reducible apply KInv.modRecv
  | with_reducible apply KInv.modCounts
  | with_reducible apply KInv.modCountsA
  | (guard_mk; with_reducible apply KInv.withCounts)
  | (guard_mk; with_reducible apply KInv.withRefs)
  | (guard_mk; with_reducible apply KInv.withWakes)
  | (guard_mk; with_reducible apply KInv.withConnError)
  | (guard_mk; with_reducible apply KInv.withTask)
  | (guard_mk; with_reducible apply KInv.withStoreUnlink)
  | (guard_mk; with_reducible apply KInv.withStoreRemoveLeak)
  | (guard_mk; with_reducible apply KInv.withStoreUnlinkRemove)
  | (guard_mk; with_reducible apply KInv.withStoreRemove)
  | (guard_mk; with_reducible apply KInv.withStoreInsert; (· fresh_tac); (· first | exact new_req _ _ _ | (split <;> exact new_req _ _ _)))
  | (with_reducible apply KInv.qPush; (· decide))
  | (with_reducible apply KInv.qPushFront; (· decide))
  | with_reducible apply KInv.qPop
  | (with_reducible apply KInv.modStream'; (· noflow); (· reqf))
  | (with_reducible apply KInv.modStreamW'; (· noflow); (· reqf))
  | (with_reducible apply KInv.modSend'; (· exact fun _ => rfl))
  | (with_reducible apply KInv.modPrio'; (· exact fun _ => ⟨rfl, rfl, rfl⟩)))

macro "k_auto" : tactic => `(tactic| repeat' (first
  | with_reducible assumption
  | (guard_not_mk; k_peel)
  | (guard_mk; k_peel)
  | apply_ih
  | (with_reducible apply KInv.of_fst_eq; (· with_reducible assumption))
  | split
  | dsimp only))
macro "k_by" f:ident : tactic => `(tactic| (unfold $f; (try unfold Streams.transition); (try dsimp only); k_auto))

theorem KInv.decNumStreams {t : Streams} (h : KInv t) (id : Nat) : KInv (t.decNumStreams id) := by
  k_by Streams.decNumStreams
macro_rules | `(tactic| k_peel) => `(tactic| with_reducible apply KInv.decNumStreams)

theorem KInv.transitionAfter {t : Streams} (h : KInv t) (id : Nat) (b : Bool) : KInv (t.transitionAfter id b) := by
  unfold Streams.transitionAfter; dsimp only; k_auto
macro_rules | `(tactic| k_peel) => `(tactic| with_reducible apply KInv.transitionAfter)

theorem KInv.incNumSendStreams {t : Streams} (h : KInv t) (id : Nat) : KInv (t.incNumSendStreams id) := by
  k_by Streams.incNumSendStreams
theorem KInv.incNumRecvStreams {t : Streams} (h : KInv t) (id : Nat) : KInv (t.incNumRecvStreams id) := by
  k_by Streams.incNumRecvStreams
macro_rules | `(tactic| k_peel) => `(tactic| first
  | with_reducible apply KInv.incNumSendStreams
  | with_reducible apply KInv.incNumRecvStreams)

section
variable {t : Streams}

theorem KInv.scheduleSend (h : KInv t) (id : Nat) : KInv (t.scheduleSend id) := by
  k_by Streams.scheduleSend
macro_rules | `(tactic| k_peel) => `(tactic| with_reducible apply KInv.scheduleSend)

theorem KInv.queueFrame (h : KInv t) (id : Nat) (f : SFrame) : KInv (t.queueFrame id f) := by
  k_by Streams.queueFrame
macro_rules | `(tactic| k_peel) => `(tactic| with_reducible apply KInv.queueFrame)

theorem KInv.queueOpen (h : KInv t) (id : Nat) : KInv (t.queueOpen id) := by
  k_by Streams.queueOpen
macro_rules | `(tactic| k_peel) => `(tactic| with_reducible apply KInv.queueOpen)

theorem KInv.clearQueue (h : KInv t) (id : Nat) : KInv (t.clearQueue id) := by
  k_by Streams.clearQueue
macro_rules | `(tactic| k_peel) => `(tactic| with_reducible apply KInv.clearQueue)

theorem KInv.clearPendingCapacity (fuel : Nat) : ∀ {t : Streams}, KInv t → KInv (Streams.clearPendingCapacity fuel t) := by
  induction fuel with
  | zero => intro t h; exact h
  | succ n ih => intro t h; k_by Streams.clearPendingCapacity
macro_rules | `(tactic| k_peel) => `(tactic| with_reducible apply KInv.clearPendingCapacity)

theorem KInv.clearPendingSend (fuel : Nat) : ∀ {t : Streams}, KInv t → KInv (Streams.clearPendingSend fuel t) := by
  induction fuel with
  | zero => intro t h; exact h
  | succ n ih => intro t h; k_by Streams.clearPendingSend
macro_rules | `(tactic| k_peel) => `(tactic| with_reducible apply KInv.clearPendingSend)

theorem KInv.clearPendingOpen (fuel : Nat) : ∀ {t : Streams}, KInv t → KInv (Streams.clearPendingOpen fuel t) := by
  induction fuel with
  | zero => intro t h; exact h
  | succ n ih => intro t h; k_by Streams.clearPendingOpen
macro_rules | `(tactic| k_peel) => `(tactic| with_reducible apply KInv.clearPendingOpen)

theorem KInv.popPendingOpen (h : KInv t) : KInv t.popPendingOpen.1 := by
  k_by Streams.popPendingOpen
macro_rules | `(tactic| k_peel) => `(tactic| with_reducible apply KInv.popPendingOpen)

theorem KInv.reclaimFrameInner (h : KInv t) (f : DataFrame) : KInv (t.reclaimFrameInner f).1 := by
  k_by Streams.reclaimFrameInner
macro_rules | `(tactic| k_peel) => `(tactic| with_reducible apply KInv.reclaimFrameInner)

theorem KInv.reclaimFrame (h : KInv t) (w : Writer) : KInv (t.reclaimFrame w).1 := by
  k_by Streams.reclaimFrame
macro_rules | `(tactic| k_peel) => `(tactic| with_reducible apply KInv.reclaimFrame)

theorem KInv.bufferOut (h : KInv t) (w : Writer) (f : Streams.OutFrame) : KInv (t.bufferOut w f).1 := by
  k_by Streams.bufferOut
macro_rules | `(tactic| k_peel) => `(tactic| with_reducible apply KInv.bufferOut)

theorem KInv.sendOpenId (h : KInv t) : KInv t.sendOpenId.1 := by
  k_by Streams.sendOpenId
macro_rules | `(tactic| k_peel) => `(tactic| with_reducible apply KInv.sendOpenId)

theorem KInv.sendHeaders (h : KInv t) (id : Nat) (eos : Bool) (f : List Hpack.Field) : KInv (t.sendHeaders id eos f).1 := by
  k_by Streams.sendHeaders
macro_rules | `(tactic| k_peel) => `(tactic| with_reducible apply KInv.sendHeaders)

theorem KInv.sendReserveLocal (h : KInv t) : KInv t.sendReserveLocal.1 := by
  k_by Streams.sendReserveLocal
macro_rules | `(tactic| k_peel) => `(tactic| with_reducible apply KInv.sendReserveLocal)

theorem KInv.sendPushPromise (h : KInv t) (p k i : Nat) (f : List Hpack.Field) : KInv (t.sendPushPromise p k i f).1 := by
  k_by Streams.sendPushPromise
macro_rules | `(tactic| k_peel) => `(tactic| with_reducible apply KInv.sendPushPromise)

theorem KInv.sendInterimInformationalHeaders (h : KInv t) (id : Nat) (f : List Hpack.Field) :
    KInv (t.sendInterimInformationalHeaders id f).1 := by
  k_by Streams.sendInterimInformationalHeaders
macro_rules | `(tactic| k_peel) => `(tactic| with_reducible apply KInv.sendInterimInformationalHeaders)

theorem KInv.pollCapacity (h : KInv t) (id : Nat) (tag : String) : KInv (t.pollCapacity id tag).1 := by
  k_by Streams.pollCapacity
macro_rules | `(tactic| k_peel) => `(tactic| with_reducible apply KInv.pollCapacity)

theorem KInv.pollReset (h : KInv t) (id : Nat) (m : PollReset) (tag : String) : KInv (t.pollReset id m tag).1 := by
  k_by Streams.pollReset
macro_rules | `(tactic| k_peel) => `(tactic| with_reducible apply KInv.pollReset)

theorem KInv.sendRecvGoAway (h : KInv t) (l : Nat) : KInv (t.sendRecvGoAway l).1 := by
  k_by Streams.sendRecvGoAway
macro_rules | `(tactic| k_peel) => `(tactic| with_reducible apply KInv.sendRecvGoAway)

theorem KInv.sendClearQueues (h : KInv t) : KInv t.sendClearQueues := by
  k_by Streams.sendClearQueues
macro_rules | `(tactic| k_peel) => `(tactic| with_reducible apply KInv.sendClearQueues)

theorem KInv.sendMaybeResetNextStreamId (h : KInv t) (id : Nat) : KInv (t.sendMaybeResetNextStreamId id) := by
  k_by Streams.sendMaybeResetNextStreamId
macro_rules | `(tactic| k_peel) => `(tactic| with_reducible apply KInv.sendMaybeResetNextStreamId)



-- ===================================================================== `try_assign_capacity` (by hand)

theorem tryAssign_flow_of_nonpos {t : Streams} (h : t.prio.flow.available.val ≤ 0) (id : Nat) :
    (t.tryAssignCapacity id).prio.flow = t.prio.flow := by
  have h0 : ¬ t.prio.flow.available.asSize > 0 := by rw [asSize_eq]; omega
  unfold Streams.tryAssignCapacity
  dsimp only
  simp only [if_neg h0]
  repeat' split
  all_goals first | rfl | (rw [qPush_flow]; try rw [qPush_flow])

theorem KInv.tryAssignCapacity {t : Streams} (h : KInv t) (id : Nat) : KInv (t.tryAssignCapacity id) := by
  refine ⟨h.safe.tryAssignCapacity id, h.req.tryAssignCapacity id, ?_⟩
  rcases (tryAssign_queue h.safe h.req id).1 with e | ⟨_, ha⟩
  · rcases h.cap with hc | hc
    · left; rw [e]; exact hc
    · right; rw [tryAssign_flow_of_nonpos hc]; exact hc
  · exact Or.inr ha
macro_rules | `(tactic| k_peel) => `(tactic| with_reducible apply KInv.tryAssignCapacity)

theorem KInv.assignConnectionCapacityLoop (fuel : Nat) :
    ∀ {t : Streams}, KInv t → KInv (Streams.assignConnectionCapacityLoop fuel t) := by
  induction fuel with
  | zero => intro t h; exact h
  | succ n ih => intro t h; k_by Streams.assignConnectionCapacityLoop
macro_rules | `(tactic| k_peel) => `(tactic| with_reducible apply KInv.assignConnectionCapacityLoop)

-- ===================================================================== the capacity-moving functions (by hand)

/-- `assign_connection_capacity(inc)` on a state that holds `inc` units of pending credit: all three parts -/
theorem KInv.ofG {s : Streams} {inc : Nat} (hg : SafeInvG inc s) (hr : ReqOk s) : KInv (s.assignConnectionCapacity inc) :=
  ⟨hg.assignConnectionCapacity, hr.assignConnectionCapacity inc, (assignConnectionCapacity_drains hg hr).symm⟩

theorem KInv.reclaimAllCapacity (h : KInv t) (id : Nat) : KInv (t.reclaimAllCapacity id) := by
  unfold Streams.reclaimAllCapacity
  dsimp only
  split
  · exact KInv.ofG (claim_step h.safe id _ (Nat.le_refl _)) (ReqOk.modStreamF (fun _ => Or.inl rfl) h.req)
  · exact h
macro_rules | `(tactic| k_peel) => `(tactic| with_reducible apply KInv.reclaimAllCapacity)

theorem KInv.reclaimReservedCapacity (h : KInv t) (id : Nat) : KInv (t.reclaimReservedCapacity id) := by
  unfold Streams.reclaimReservedCapacity
  dsimp only
  split
  · rename_i hgt
    have hlt := (h.safe.stream_ok id).windowSz_lt
    have hle := (h.safe.stream_ok id).asSize_le
    have hres : wrapSubU32 (t.stream id).sendFlow.available.asSize (usizeAsU32 (t.stream id).bufferedSendData) ≤
        (t.stream id).sendFlow.available.asSize := by
      rw [usizeAsU32_small (by omega), wrapSubU32_le (by omega) (by omega)]; omega
    split
    · exact KInv.ofG (claim_step_const h.safe id _ hres) (ReqOk.modStreamF (fun _ => Or.inl rfl) h.req)
    · have h' : SafeInv (t.panic "window size should be greater than reserved") := h.safe.fr ((Fr.refl _).panic _)
      have := claim_step_const h' id _ (by rw [stream_panic]; exact hres)
      rw [stream_panic] at this
      exact KInv.ofG this (ReqOk.modStreamF (fun _ => Or.inl rfl) (h.req.panic _))
  · exact h
macro_rules | `(tactic| k_peel) => `(tactic| with_reducible apply KInv.reclaimReservedCapacity)

theorem KInv.reserveCapacity (h : KInv t) (id capacity : Nat) : KInv (t.reserveCapacity id capacity) := by
  unfold Streams.reserveCapacity
  dsimp only
  split
  · exact h
  split
  · split
    · rename_i hgt
      have hlt := (h.safe.stream_ok id).windowSz_lt
      have hle := (h.safe.stream_ok id).asSize_le
      have h1 : KInv (t.modStream id fun st =>
          { st with requestedSendCapacity := usizeAsU32 (capacity + (t.stream id).bufferedSendData) }) :=
        KInv.modStream' (fun _ => ⟨rfl, rfl⟩) (fun _ => Or.inr (usizeAsU32_lt _)) h
      refine KInv.ofG (claim_step h1.safe id _ ?_) (ReqOk.modStreamF (fun _ => Or.inl rfl) h1.req)
      have e := stream_modStream_flow (s := t) id id (fun st : Stream =>
        { st with requestedSendCapacity := usizeAsU32 (capacity + (t.stream id).bufferedSendData) }) (fun _ => ⟨rfl, rfl⟩)
      rw [e]
      rw [usizeAsU32_small (by omega), wrapSubU32_le (by omega) (by omega)]; omega
    · k_auto
  · k_auto
macro_rules | `(tactic| k_peel) => `(tactic| with_reducible apply KInv.reserveCapacity)

theorem KInv.prioSendData (h : KInv t) (id len : Nat) (eos : Bool) : KInv (t.prioSendData id len eos).1 := by
  k_by Streams.prioSendData
macro_rules | `(tactic| k_peel) => `(tactic| with_reducible apply KInv.prioSendData)

theorem KInv.prioRecvStreamWindowUpdate (h : KInv t) (id inc : Nat) (hinc : inc ≤ 2147483647) :
    KInv (t.prioRecvStreamWindowUpdate id inc).1 := by
  unfold Streams.prioRecvStreamWindowUpdate
  dsimp only
  split
  · exact h
  · split
    · exact h
    · exact h
    · rename_i fl _ he
      have h1 : KInv (t.modStream id fun st => { st with sendFlow := fl }) :=
        ⟨incWindow_step h.safe id inc hinc he, ReqOk.modStreamF (fun _ => Or.inl rfl) h.req,
          h.cap.of_prio (by rw [modStream_prio]) (by rw [modStream_prio])⟩
      exact h1.tryAssignCapacity id

theorem KInv.recvConnectionWindowUpdate (h : KInv t) (inc : Nat) (hinc : inc ≤ 2147483647) :
    KInv (t.recvConnectionWindowUpdate inc).1 := by
  unfold Streams.recvConnectionWindowUpdate
  split
  · exact h
  · exact h
  · rename_i fl _ he
    refine KInv.ofG ?_ (h.req.modPrio _)
    rw [Flow.incWindow_eq, u32AsI32_small hinc] at he
    split at he
    · rename_i hc
      simp only [Prod.mk.injEq, and_true] at he
      subst he
      have hc2 := hc.2
      have hM : (Generated.Consts.MAX_WINDOW_SIZE : Int) = 2147483647 := by decide
      refine h.safe.conn rfl (Int.natCast_nonneg _) h.safe.a0 ?_ ?_
      · show t.prio.flow.windowSize.val + (inc : Int) ≤ I32_MAX; omega32
      · show t.prio.flow.available.val - t.prio.flow.available.val + ((inc : Int) - 0) ≤
          t.prio.flow.windowSize.val + (inc : Int) - t.prio.flow.windowSize.val
        omega
    · simp at he

end

end H2V.Lemmas.ConnDrainP
