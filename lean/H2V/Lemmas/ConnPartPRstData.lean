import H2V.Lemmas.ConnPartPRstWu
/-
  ConnPartP, part 9b — C09: the entry point `Inner::recv_data` as a whole.  When `Recv::recv_data` answers a
  stream error (window overrun of the stream, content-length mismatch, …) the frame's octets are given back to
  the connection, `reset_on_recv_stream_err` runs inside the `transition` closure and `transition_after`
  follows: the result is `Ok(())` and the RST_STREAM is owed in the state `recv_data` returns.
-/
set_option linter.unusedSectionVars false
namespace H2V.Lemmas.ConnPartP
open H2V H2V.Model H2V.Model.Conn H2V.Lemmas.ConnResetP

/-- the dispatcher followed by `transition_after` (the shape of every in-place call site) -/
theorem dispatch_then_transition_owes (x : Streams) (k sid : Nat) (reason : Reason) (init : Initiator) (st : Stream) (b : Bool)
    (hkb : KeysBelow x.store) (hg : x.store.get? k = some st)
    (hq : x.counts.canIncNumLocalErrorResets = true) (hr : st.state.isReset = false)
    (hne : (st.state.isClosed && (st.pendingSend.isEmpty && st.bufferedSendData == 0)) = false) :
    (x.resetOnRecvStreamErr k (.error (.reset sid reason init))).2 = .ok () ∧
    (∃ st', ((x.resetOnRecvStreamErr k (.error (.reset sid reason init))).1.transitionAfter k b).store.get? k = some st' ∧
      st'.id = st.id ∧ st'.state = ⟨.closed (.error (.reset st.id reason init))⟩ ∧
      st'.pendingSend = (if st.isPendingOpen then st.pendingSend.head?.toList else []) ++ [.reset reason] ∧
      (st.isSendReady = true → st'.isPendingSend = true)) ∧
    OthersKept x ((x.resetOnRecvStreamErr k (.error (.reset sid reason init))).1.transitionAfter k b) k := by
  rw [resetOnRecvStreamErr_ok x k sid reason init hq]
  generalize hy : x.modCountsA "can_inc_num_local_error_resets" Counts.incNumLocalErrorResets = y
  have hys : y.store = x.store := by subst hy; exact modCountsA_store _ _ _
  have hgy : y.store.get? k = some st := by rw [hys]; exact hg
  have hsy : y.stream k = st := stream_of_get? _ hgy
  have hcore : resetCore y k reason init =
      ((((sendResetPre y k reason init).reclaimAllCapacity k).enqueueResetExpiration k).modStreamW k Stream.notifyRecv) := by
    unfold resetCore
    rw [sendSendReset_eq y k reason init (by rw [hsy]; exact hr) (by rw [hsy]; exact hne)]
  obtain ⟨⟨st', h1, h2, h3, h4⟩, c2, c3⟩ := reset_spec_of_tail y k reason init st (hys ▸ hkb) hgy
    ((resetCore y k reason init).transitionAfter k b) (by rw [hcore]; exact resetTail_frame _ k _)
  refine ⟨rfl, ⟨st', h1, h2, h3, h4, fun hrdy => ?_⟩, ?_, ?_⟩
  · obtain ⟨z, hz, hf⟩ := resetCore_flag y k reason init st hgy hr hne hrdy
    exact transitionAfter_flag _ k _ z st' hz hf h1
  · intro k' st'' hk hlt h'
    have := c2 k' st'' hk (by rw [hys]; exact hlt) h'
    rw [hys] at this; exact this
  · intro k' st0 hk h0 hq'
    exact c3 k' st0 hk (by rw [hys]; exact h0) hq'

/-- the flow-controlled length of a DATA frame: payload plus padding (pad length octet included) -/
def flowLenOf (p : Bytes) (pad : Option Nat) : Nat := p.length + (match pad with | some x => x + 1 | none => 0)

/-- `Inner::recv_data` when `Recv::recv_data` answers a stream error -/
theorem recvData_eq_of_stream_error (s : Streams) (id : Nat) (p : Bytes) (eos : Bool) (pad : Option Nat) (k : Nat)
    (s1 : Streams) (sid : Nat) (reason : Reason) (init : Initiator) (hf : s.store.findKey? id = some k)
    (h1 : s.recvRecvData k p eos pad = (s1, .error (.reset sid reason init))) :
    s.recvData id p eos pad =
      (((s1.releaseConnectionCapacity (usizeAsU32 (flowLenOf p pad)) false
          ).resetOnRecvStreamErr k (.error (.reset sid reason init))).1.transitionAfter k (s.stream k).isPendingResetExpiration,
       ((s1.releaseConnectionCapacity (usizeAsU32 (flowLenOf p pad)) false
          ).resetOnRecvStreamErr k (.error (.reset sid reason init))).2) := by
  unfold Streams.recvData Streams.transition flowLenOf
  simp only [hf, h1]
  cases pad <;> rfl

theorem releaseConnectionCapacity_counts (s : Streams) (c : Nat) (b : Bool) :
    (s.releaseConnectionCapacity c b).counts = s.counts := by
  unfold Streams.releaseConnectionCapacity
  simp only
  split
  · unfold Streams.notifyTask; split <;> rfl
  · rfl

/-- **`Inner::recv_data`: a stream error of `Recv::recv_data` leaves the RST_STREAM owed**, in the state
    `recv_data` returns; `s1`/`st1` = the stream layer / the stream's entry at the moment the error arose -/
theorem recvData_stream_error_owes (s : Streams) (id : Nat) (p : Bytes) (eos : Bool) (pad : Option Nat) (k : Nat)
    (s1 : Streams) (sid : Nat) (reason : Reason) (init : Initiator) (st1 : Stream)
    (hf : s.store.findKey? id = some k)
    (h1 : s.recvRecvData k p eos pad = (s1, .error (.reset sid reason init)))
    (hkb : KeysBelow s1.store) (hg : s1.store.get? k = some st1)
    (hq : s1.counts.canIncNumLocalErrorResets = true) (hr : st1.state.isReset = false)
    (hne : (st1.state.isClosed && (st1.pendingSend.isEmpty && st1.bufferedSendData == 0)) = false) :
    (s.recvData id p eos pad).2 = .ok () ∧
    (∃ st', (s.recvData id p eos pad).1.store.get? k = some st' ∧ st'.id = st1.id ∧
      st'.state = ⟨.closed (.error (.reset st1.id reason init))⟩ ∧
      st'.pendingSend = (if st1.isPendingOpen then st1.pendingSend.head?.toList else []) ++ [.reset reason] ∧
      (st1.isSendReady = true → st'.isPendingSend = true ∧
        (ConnCountsP.QOK .pendingSend s → (s.recvData id p eos pad).1.panicked = none →
          k ∈ (s.recvData id p eos pad).1.prio.pendingSend))) ∧
    OthersKept s1 (s.recvData id p eos pad).1 k := by
  have hev := ConnCountsP.recvData_ev (ρ := true) s id p eos pad
  rw [recvData_eq_of_stream_error s id p eos pad k s1 sid reason init hf h1] at hev ⊢
  generalize hx : s1.releaseConnectionCapacity (usizeAsU32 (flowLenOf p pad)) false = x at hev ⊢
  have hxs : x.store = s1.store := by subst hx; exact releaseConnectionCapacity_store _ _ _
  have hxc : x.counts = s1.counts := by subst hx; exact releaseConnectionCapacity_counts _ _ _
  obtain ⟨r1, ⟨st', g1, g2, g3, g4, g5⟩, ok⟩ := dispatch_then_transition_owes x k sid reason init st1
    (s.stream k).isPendingResetExpiration (hxs ▸ hkb) (by rw [hxs]; exact hg) (by rw [hxc]; exact hq) hr hne
  refine ⟨r1, ⟨st', g1, g2, g3, g4, fun hrdy => ⟨g5 hrdy, fun hqok hp => ?_⟩⟩, ?_⟩
  · exact mem_pendingSend_of_flag ((hev.qstep .pendingSend (by decide)).ok hp hqok) g1 (g5 hrdy)
  · unfold OthersKept at ok ⊢
    rw [hxs] at ok
    exact ok

end H2V.Lemmas.ConnPartP
