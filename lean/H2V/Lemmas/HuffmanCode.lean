import H2V.Generated.Huffman
import H2V.Spec.Huffman
/-
  Finite facts about the RFC 7541 Huffman code (`Spec.Rfc7541.huffmanCode`), each established by a
  structurally recursive Boolean checker evaluated in the kernel (`decide +kernel`) and then lifted
  to a semantic statement by a general lemma about the checker.
-/
namespace H2V.Lemmas.Huffman
open H2V H2V.Spec.Rfc7541

/-- The code table h2 encodes with is the RFC table (re-proved here to keep imports minimal). -/
theorem encL_eq : Generated.Huffman.encL = huffmanCode := by decide +kernel

/-- symbol `s` has the code `c` of `n` bits -/
def Code (s n c : Nat) : Prop := huffmanCode[s]? = some (n, c)

/-! ### prefix-freeness -/

/-- neither of `(n, c)` and any entry of the list is a prefix of the other -/
def noConflict (n c : Nat) : List (Nat × Nat) → Bool
  | [] => true
  | (n', c') :: rest =>
    (if n ≤ n' then c' / 2 ^ (n' - n) != c else c / 2 ^ (n - n') != c') && noConflict n c rest

def pfCheck : List (Nat × Nat) → Bool
  | [] => true
  | (n, c) :: rest => noConflict n c rest && pfCheck rest

theorem pfCheck_huffmanCode : pfCheck huffmanCode = true := by decide +kernel

theorem noConflict_spec {n c : Nat} : ∀ {L : List (Nat × Nat)}, noConflict n c L = true →
    ∀ {j n' c' : Nat}, L[j]? = some (n', c') →
      (n ≤ n' → c' / 2 ^ (n' - n) ≠ c) ∧ (n' ≤ n → c / 2 ^ (n - n') ≠ c')
  | [], _, j, n', c', h => by simp at h
  | (n1, c1) :: rest, hc, j, n', c', h => by
    simp only [noConflict, Bool.and_eq_true] at hc
    cases j with
    | zero =>
      simp only [List.getElem?_cons_zero, Option.some.injEq, Prod.mk.injEq] at h
      obtain ⟨rfl, rfl⟩ := h
      have h1 := hc.1
      by_cases hle : n ≤ n1
      · simp only [hle, if_true, bne_iff_ne, ne_eq] at h1
        refine ⟨fun _ => h1, fun hle' => ?_⟩
        have : n1 = n := Nat.le_antisymm hle' hle
        subst this
        simp only [Nat.sub_self, Nat.pow_zero, Nat.div_one] at h1 ⊢
        exact fun e => h1 e.symm
      · simp only [hle, if_false, bne_iff_ne, ne_eq] at h1
        exact ⟨fun h => absurd h hle, fun _ => h1⟩
    | succ j =>
      simp only [List.getElem?_cons_succ] at h
      exact noConflict_spec hc.2 h

theorem pfCheck_spec : ∀ {L : List (Nat × Nat)}, pfCheck L = true →
    ∀ {i j n c n' c' : Nat}, i < j → L[i]? = some (n, c) → L[j]? = some (n', c') →
      (n ≤ n' → c' / 2 ^ (n' - n) ≠ c) ∧ (n' ≤ n → c / 2 ^ (n - n') ≠ c')
  | [], _, i, j, n, c, n', c', _, h, _ => by simp at h
  | (n1, c1) :: rest, hc, i, j, n, c, n', c', hij, hi, hj => by
    simp only [pfCheck, Bool.and_eq_true] at hc
    cases j with
    | zero => omega
    | succ j =>
      simp only [List.getElem?_cons_succ] at hj
      cases i with
      | zero =>
        simp only [List.getElem?_cons_zero, Option.some.injEq, Prod.mk.injEq] at hi
        obtain ⟨rfl, rfl⟩ := hi
        exact noConflict_spec hc.1 hj
      | succ i =>
        simp only [List.getElem?_cons_succ] at hi
        exact pfCheck_spec hc.2 (by omega) hi hj

/-- **The RFC 7541 Huffman code is prefix-free**: no code word is a prefix of (or equal to) the
    code word of a different symbol. -/
theorem prefix_free {s s' n c n' c' : Nat} (h : Code s n c) (h' : Code s' n' c')
    (hne : s ≠ s') (hle : n ≤ n') : c' / 2 ^ (n' - n) ≠ c := by
  unfold Code at h h'
  rcases Nat.lt_or_gt_of_ne hne with hlt | hgt
  · exact (pfCheck_spec pfCheck_huffmanCode hlt h h').1 hle
  · exact (pfCheck_spec pfCheck_huffmanCode hgt h' h).2 hle

/-- distinct symbols have distinct codes -/
theorem code_inj {s s' n c : Nat} (h : Code s n c) (h' : Code s' n c) : s = s' := by
  apply Classical.byContradiction
  intro hne
  have := prefix_free h h' hne (Nat.le_refl _)
  simp at this

/-! ### code lengths and ranges -/

def rangeCheck : List (Nat × Nat) → Bool
  | [] => true
  | (n, c) :: rest => decide (5 ≤ n) && decide (n ≤ 30) && decide (c < 2 ^ n) && rangeCheck rest

theorem rangeCheck_huffmanCode : rangeCheck huffmanCode = true := by decide +kernel

theorem rangeCheck_spec : ∀ {L : List (Nat × Nat)}, rangeCheck L = true →
    ∀ {j n c : Nat}, L[j]? = some (n, c) → 5 ≤ n ∧ n ≤ 30 ∧ c < 2 ^ n
  | [], _, j, n, c, h => by simp at h
  | (n1, c1) :: rest, hc, j, n, c, h => by
    simp only [rangeCheck, Bool.and_eq_true, decide_eq_true_eq] at hc
    cases j with
    | zero =>
      simp only [List.getElem?_cons_zero, Option.some.injEq, Prod.mk.injEq] at h
      obtain ⟨rfl, rfl⟩ := h
      exact ⟨hc.1.1.1, hc.1.1.2, hc.1.2⟩
    | succ j =>
      simp only [List.getElem?_cons_succ] at h
      exact rangeCheck_spec hc.2 h

/-- every code word has between 5 and 30 bits and fits its length -/
theorem code_range {s n c : Nat} (h : Code s n c) : 5 ≤ n ∧ n ≤ 30 ∧ c < 2 ^ n :=
  rangeCheck_spec rangeCheck_huffmanCode h

theorem huffmanCode_length : huffmanCode.length = 257 := by decide +kernel

theorem code_lt {s n c : Nat} (h : Code s n c) : s < 257 := by
  unfold Code at h
  have := (List.getElem?_eq_some_iff.mp h).1
  rwa [huffmanCode_length] at this

theorem code_exists {s : Nat} (h : s < 257) : ∃ n c, Code s n c := by
  unfold Code
  have : s < huffmanCode.length := by rw [huffmanCode_length]; exact h
  exact ⟨huffmanCode[s].1, huffmanCode[s].2, by simp [List.getElem?_eq_getElem this]⟩

end H2V.Lemmas.Huffman
