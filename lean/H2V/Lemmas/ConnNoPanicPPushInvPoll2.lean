import H2V.Lemmas.ConnNoPanicPPushInvBackStep
import H2V.Lemmas.ConnNoPanicPPushInvPoll
/-
  C08 (no panic) — PUSH_PROMISE bookkeeping, stage 2, part 17: `OpaqueStreamRef::poll_pushed` in general.
  With `PPPOK` the key at the front of the list resolves; with `PRH` its `pending_recv` starts with the promised
  request, so `panic!("Headers not set on pushed stream")` is dead; the promised stream leaves the list, loses the link
  flag and gets its first handle.
-/
namespace H2V.Lemmas.ConnNoPanicP
open H2V H2V.Model H2V.Model.Conn H2V.Lemmas.ConnCountsP
attribute [local irreducible] wrapSubU32 wrapSubUsize

/-- `Recv::poll_pushed` when the list is `child :: rest` (copied from the model) -/
def pollPushedCons (s : Streams) (id child : Nat) (rest : List Nat) : Streams × Streams.PollPushed :=
    let s := s.modStream id fun st => { st with pendingPushPromises := rest }
    let s := s.modStream child fun st => { st with isPendingAccept := false }
    match (s.stream child).pendingRecv with
    | .request method uri f :: r => (s.modStream child fun st => { st with pendingRecv := r }, .pushed child method uri f)
    | _ => (s.panic "Headers not set on pushed stream", .panic)

theorem recvPollPushed_cons {s : Streams} {k child : Nat} {rest : List Nat}
    (h : (s.stream k).pendingPushPromises = child :: rest) (t : String) : s.recvPollPushed k t = pollPushedCons s k child rest := by
  unfold Streams.recvPollPushed pollPushedCons
  rw [h]
  rfl

/-- the state after the two bookkeeping updates -/
def pollPushedMid (s : Streams) (id child : Nat) (rest : List Nat) : Streams :=
  (s.modStream id fun st => { st with pendingPushPromises := rest }).modStream child fun st => { st with isPendingAccept := false }

theorem pollPushedMid_hb (s : Streams) (k child : Nat) (rest : List Nat) :
    HB s (pollPushedMid s k child rest) ∧ ¬ Held (pollPushedMid s k child rest) child := by
  unfold pollPushedMid
  have h1 : HB s (s.modStream k fun st => { st with pendingPushPromises := rest }) :=
    modStream_hb _ _ _ (.inl fun _ => ⟨rfl, rfl, rfl, [], (List.append_nil _).symm⟩)
  obtain ⟨h2, hn⟩ := unflag_hb (s.modStream k fun st => { st with pendingPushPromises := rest }) child
  exact ⟨h1.trans h2, hn⟩

theorem pollPushedMid_recv (s : Streams) (k child : Nat) (rest : List Nat) (j : Nat) :
    ((pollPushedMid s k child rest).stream j).pendingRecv = (s.stream j).pendingRecv ∧
    ((pollPushedMid s k child rest).stream j).refCount = (s.stream j).refCount := by
  unfold pollPushedMid
  have a1 := SPr.modStream (P := (·.pendingRecv)) s k (fun st => { st with pendingPushPromises := rest }) (fun _ => rfl) (fun _ => rfl) j
  have a2 := SPr.modStream (P := (·.pendingRecv)) (s.modStream k fun st => { st with pendingPushPromises := rest }) child
    (fun st => { st with isPendingAccept := false }) (fun _ => rfl) (fun _ => rfl) j
  have b1 := SPr.modStream (P := (·.refCount)) s k (fun st => { st with pendingPushPromises := rest }) (fun _ => rfl) (fun _ => rfl) j
  have b2 := SPr.modStream (P := (·.refCount)) (s.modStream k fun st => { st with pendingPushPromises := rest }) child
    (fun st => { st with isPendingAccept := false }) (fun _ => rfl) (fun _ => rfl) j
  exact ⟨a2.trans a1, b2.trans b1⟩

/-- the two outcomes of the non-empty branch -/
theorem pollPushedCons_cases (s : Streams) (k child : Nat) (rest : List Nat) :
    (∃ m u f r, ((pollPushedMid s k child rest).stream child).pendingRecv = .request m u f :: r ∧
      pollPushedCons s k child rest =
        ((pollPushedMid s k child rest).modStream child fun st => { st with pendingRecv := r }, .pushed child m u f)) ∨
    pollPushedCons s k child rest = ((pollPushedMid s k child rest).panic "Headers not set on pushed stream", .panic) := by
  have hform : pollPushedCons s k child rest = (match ((pollPushedMid s k child rest).stream child).pendingRecv with
      | .request method uri f :: r => ((pollPushedMid s k child rest).modStream child fun st => { st with pendingRecv := r },
          Streams.PollPushed.pushed child method uri f)
      | _ => ((pollPushedMid s k child rest).panic "Headers not set on pushed stream", Streams.PollPushed.panic)) := rfl
  rw [hform]
  cases hpr : ((pollPushedMid s k child rest).stream child).pendingRecv with
  | nil => exact .inr rfl
  | cons e r =>
    cases e with
    | request m u f => exact .inl ⟨m, u, f, r, rfl, rfl⟩
    | _ => exact .inr rfl

/-- **`poll_pushed` is a backward frame** (the promised stream is unflagged before anything is popped or counted) -/
theorem recvPollPushed_hb (s : Streams) (k : Nat) (t : String) : HB s (s.recvPollPushed k t).1 := by
  cases hl : (s.stream k).pendingPushPromises with
  | nil => rw [recvPollPushed_nil hl]; unfold pollPushedNil; hb_auto
  | cons child rest =>
    rw [recvPollPushed_cons hl]
    obtain ⟨h1, hn⟩ := pollPushedMid_hb s k child rest
    rcases pollPushedCons_cases s k child rest with ⟨m, u, f, r, _, e⟩ | e
    · rw [e]; exact h1.trans (modStream_hb _ _ _ (.inr ⟨hn, fun _ => ⟨rfl, rfl⟩⟩))
    · rw [e]; exact h1.trans (panic_hb _ _)

theorem refPollPushed_hb (s : Streams) (k : Nat) (t : String) : HB s (s.refPollPushed k t).1 := by
  cases hl : (s.stream k).pendingPushPromises with
  | nil => rw [refPollPushed_nil hl, ← recvPollPushed_nil hl]; exact recvPollPushed_hb s k t
  | cons child rest =>
    unfold Streams.refPollPushed
    rw [recvPollPushed_cons hl]
    obtain ⟨h1, hn⟩ := pollPushedMid_hb s k child rest
    rcases pollPushedCons_cases s k child rest with ⟨m, u, f, r, _, e⟩ | e
    · rw [e]
      have h2 : HB (pollPushedMid s k child rest) ((pollPushedMid s k child rest).modStream child fun st => { st with pendingRecv := r }) :=
        modStream_hb _ _ _ (.inr ⟨hn, fun _ => ⟨rfl, rfl⟩⟩)
      exact (h1.trans h2).trans (cloneStreamRef_hb _ _ (fun h => hn (h2.back _ h).1))
    · rw [e]; exact h1.trans (panic_hb _ _)

theorem refPollPushed_prh {s : Streams} (hp : PRH s) (k : Nat) (t : String) : PRH (s.refPollPushed k t).1 :=
  hp.step (refPollPushed_hb s k t)

-- ===================================================================== the invariants along `poll_pushed`

theorem pollPushedNil_hr (s : Streams) (k : Nat) (t : String) : HR s (pollPushedNil s k t).1 := by
  unfold pollPushedNil; hr_auto

theorem pollPushedCons_req {s : Streams} {k child : Nat} {rest : List Nat} {m u : Bytes} {f : Fields} {r : List REvent}
    (h : ((pollPushedMid s k child rest).stream child).pendingRecv = .request m u f :: r) :
    pollPushedCons s k child rest =
      ((pollPushedMid s k child rest).modStream child fun st => { st with pendingRecv := r }, .pushed child m u f) := by
  rcases pollPushedCons_cases s k child rest with ⟨m', u', f', r', h', e⟩ | e
  · rw [h] at h'
    simp only [List.cons.injEq, REvent.request.injEq] at h'
    obtain ⟨⟨e1, e2, e3⟩, e4⟩ := h'
    subst e1; subst e2; subst e3; subst e4
    exact e
  · exfalso
    have hform : pollPushedCons s k child rest = (match ((pollPushedMid s k child rest).stream child).pendingRecv with
      | .request method uri f :: r => ((pollPushedMid s k child rest).modStream child fun st => { st with pendingRecv := r },
          Streams.PollPushed.pushed child method uri f)
      | _ => ((pollPushedMid s k child rest).panic "Headers not set on pushed stream", Streams.PollPushed.panic)) := rfl
    rw [hform, h] at e
    have := congrArg Prod.snd e
    cases this

/-- the state `poll_pushed` hands back when it hands out the promised stream `child` -/
def pollPushedOut (s : Streams) (k child : Nat) (rest : List Nat) (r : List REvent) : Streams :=
  ((pollPushedMid s k child rest).modStream child fun st => { st with pendingRecv := r }).cloneStreamRef child

theorem pollPushedOut_ppp (s : Streams) {k : Nat} (hk : Live s k) (child : Nat) (rest : List Nat) (r : List REvent) (j : Nat) :
    ((pollPushedOut s k child rest r).stream j).pendingPushPromises = if j = k then rest else (s.stream j).pendingPushPromises := by
  unfold pollPushedOut Streams.cloneStreamRef Streams.refInc pollPushedMid
  have a4 := modStream_ppp_frame (((s.modStream k fun st => { st with pendingPushPromises := rest }).modStream child
      fun st => { st with isPendingAccept := false }).modStream child fun st => { st with pendingRecv := r }) child
    (fun st => { st with refCount := st.refCount + 1 }) (fun _ => rfl) (fun _ => rfl) j
  have a3 := modStream_ppp_frame ((s.modStream k fun st => { st with pendingPushPromises := rest }).modStream child
      fun st => { st with isPendingAccept := false }) child (fun st => { st with pendingRecv := r }) (fun _ => rfl) (fun _ => rfl) j
  have a2 := modStream_ppp_frame (s.modStream k fun st => { st with pendingPushPromises := rest }) child
    (fun st => { st with isPendingAccept := false }) (fun _ => rfl) (fun _ => rfl) j
  refine (a4.trans (a3.trans a2)).trans ?_
  by_cases hjk : j = k
  · subst hjk
    rw [if_pos rfl, stream_modStream_live hk (fun st => { st with pendingPushPromises := rest }) (fun _ => rfl)]
  · rw [if_neg hjk, stream_modStream_other s k (fun st => { st with pendingPushPromises := rest }) (fun _ => rfl) hjk]

theorem pollPushedOut_held {s : Streams} {k child c : Nat} (rest : List Nat) (r : List REvent) (h : Held s c) (hne : c ≠ child) :
    Held (pollPushedOut s k child rest r) c := by
  unfold pollPushedOut Streams.cloneStreamRef Streams.refInc pollPushedMid
  have h1 : Held (s.modStream k fun st => { st with pendingPushPromises := rest }) c :=
    (modStream_hr s k (fun st => { st with pendingPushPromises := rest }) (fun _ => ⟨rfl, rfl⟩)).held c h
  have h2 := held_modStream_ne h1 hne (fun st => { st with isPendingAccept := false }) (fun _ => rfl)
  have h3 := held_modStream_ne h2 hne (fun st => { st with pendingRecv := r }) (fun _ => rfl)
  have h4 := held_modStream_ne h3 hne (fun st => { st with refCount := st.refCount + 1 }) (fun _ => rfl)
  exact h4

/-- **`poll_pushed` keeps the invariants**; `panic!("Headers not set on pushed stream")` is dead under `PRH` -/
theorem refPollPushed_npi_gen {s : Streams} (hn : NPI (fun _ => False) s) (hj : PPPOK s) (hp : PRH s) {k : Nat} (hk : Live s k)
    (t : String) :
    NPI (fun _ => False) (s.refPollPushed k t).1 ∧ PPPOK (s.refPollPushed k t).1 ∧ PRH (s.refPollPushed k t).1 ∧
    (∀ c m u f, (s.refPollPushed k t).2 = .pushed c m u f →
      (s.stream k).pendingPushPromises.head? = some c ∧ Live s c ∧
      ∃ x, (s.refPollPushed k t).1.store.get? c = some x ∧ x.refCount = 1) := by
  refine ⟨?_, ?_, refPollPushed_prh hp k t, ?_⟩ <;> cases hl : (s.stream k).pendingPushPromises with
  | nil =>
    first
    | (have e := refPollPushed_ev (ρ := false) s k t
       rw [refPollPushed_nil hl] at e ⊢
       exact hn.lt (pollPushedNil_lt s k t).w (liveAll1 hk) e noE)
    | (rw [refPollPushed_nil hl]
       exact hj.step (pollPushedNil_pp s k t).pw (pollPushedNil_hr s k t))
    | (rw [refPollPushed_nil hl]
       intro c m u f hc
       exact absurd hc (pollPushedNil_not_pushed s k t c m u f))
  | cons child rest =>
    have hmem : child ∈ (s.stream k).pendingPushPromises := by rw [hl]; exact List.mem_cons_self ..
    have hheld : Held s child := hj.held k child hmem
    have hlc : Live s child := held_live hheld
    obtain ⟨hr0, m, u, f, r, hreq⟩ := hp child hheld
    have hreq' : ((pollPushedMid s k child rest).stream child).pendingRecv = .request m u f :: r := by
      rw [(pollPushedMid_recv s k child rest child).1]; exact hreq
    have hres : s.refPollPushed k t = (pollPushedOut s k child rest r, .pushed child m u f) := by
      unfold Streams.refPollPushed
      rw [recvPollPushed_cons hl, pollPushedCons_req hreq']
      rfl
    rw [hres]
    first
    | -- NPI
      (unfold pollPushedOut pollPushedMid
       have h1 : NPI (fun _ => False) (s.modStream k fun st => { st with pendingPushPromises := rest }) :=
         hn.lt (modStream_lt s k _ (fun _ => by inert_tac)).w (liveAll1 hk) (modStream_ev (ρ := false) _ _ _ (fun st _ => by same_fields)) noE
       have hl1 : Live (s.modStream k fun st => { st with pendingPushPromises := rest }) child := (SameKeys.modStream _ _ _).live.mpr hlc
       generalize (s.modStream k fun st => { st with pendingPushPromises := rest }) = s1 at h1 hl1 ⊢
       have h2 : NPI (fun _ => False) (s1.modStream child fun st => { st with isPendingAccept := false }) :=
         h1.lt (modStream_lt s1 child _ (fun _ => by inert_tac)).w (liveAll1 hl1) (ρ := false) (.acceptFlag child false) noE
       have hl2 : Live (s1.modStream child fun st => { st with isPendingAccept := false }) child := (SameKeys.modStream _ _ _).live.mpr hl1
       generalize (s1.modStream child fun st => { st with isPendingAccept := false }) = s2 at h2 hl2 ⊢
       have h3 : NPI (fun _ => False) (s2.modStream child fun st => { st with pendingRecv := r }) :=
         h2.lt (modStream_lt s2 child _ (fun _ => by inert_tac)).w (liveAll1 hl2) (modStream_ev (ρ := false) _ _ _ (fun st _ => by same_fields)) noE
       have hl3 : Live (s2.modStream child fun st => { st with pendingRecv := r }) child := (SameKeys.modStream _ _ _).live.mpr hl2
       exact cloneStreamRef_npi h3 hl3)
    | -- PPPOK
      (have hnd := hj.nodup k
       rw [hl] at hnd
       have hnd' := List.nodup_cons.mp hnd
       have hsub : ∀ j c, c ∈ ((pollPushedOut s k child rest r).stream j).pendingPushPromises →
           c ∈ (s.stream j).pendingPushPromises ∧ c ≠ child := by
         intro j c hm
         rw [pollPushedOut_ppp s hk] at hm
         by_cases hjk : j = k
         · subst hjk
           rw [if_pos rfl] at hm
           exact ⟨by rw [hl]; exact List.mem_cons_of_mem _ hm, fun e => hnd'.1 (e ▸ hm)⟩
         · rw [if_neg hjk] at hm
           exact ⟨hm, fun e => hjk (hj.disj j k c hm (e ▸ hmem))⟩
       refine ⟨fun j => ?_, fun j j' c h1 h2 => hj.disj j j' c (hsub j c h1).1 (hsub j' c h2).1,
         fun j c hm => pollPushedOut_held rest r (hj.held j c (hsub j c hm).1) (hsub j c hm).2⟩
       rw [pollPushedOut_ppp s hk]
       by_cases hjk : j = k
       · rw [if_pos hjk]; exact hnd'.2
       · rw [if_neg hjk]; exact hj.nodup j)
    | -- the handle handed out
      (intro c m' u' f' hc
       simp only [Streams.PollPushed.pushed.injEq] at hc
       obtain ⟨e1, _⟩ := hc
       subst e1
       refine ⟨rfl, hlc, ?_⟩
       unfold pollPushedOut
       have hl3 : Live ((pollPushedMid s k child rest).modStream child fun st => { st with pendingRecv := r }) child := by
         unfold pollPushedMid
         exact (SameKeys.modStream _ _ _).live.mpr ((SameKeys.modStream _ _ _).live.mpr ((SameKeys.modStream _ _ _).live.mpr hlc))
       obtain ⟨y, hy⟩ := hl3
       refine ⟨_, cloneStreamRef_get hy, ?_⟩
       show y.refCount + 1 = 1
       have hy' := stream_of_get? hy
       have e3 := SPr.modStream (P := (·.refCount)) (pollPushedMid s k child rest) child (fun st => { st with pendingRecv := r })
         (fun _ => rfl) (fun _ => rfl) child
       have : y.refCount = 0 := by
         rw [← hy']
         exact e3.trans (((pollPushedMid_recv s k child rest child).2).trans hr0)
       omega)

/-- `poll_pushed` touches neither the counters nor `recv` -/
theorem refPollPushed_counts_recv (s : Streams) (k : Nat) (t : String) :
    (s.refPollPushed k t).1.counts = s.counts ∧ (s.refPollPushed k t).1.recv = s.recv := by
  cases hl : (s.stream k).pendingPushPromises with
  | nil =>
    rw [refPollPushed_nil hl]
    unfold pollPushedNil
    split
    · exact ⟨rfl, rfl⟩
    · exact ⟨modStream_counts _ _ _, by show (Streams.modStream _ _ _).recv = _; rw [ConnResetP.modStream_recv]⟩
    · exact ⟨rfl, rfl⟩
  | cons child rest =>
    unfold Streams.refPollPushed
    rw [recvPollPushed_cons hl]
    have hmid : (pollPushedMid s k child rest).counts = s.counts ∧ (pollPushedMid s k child rest).recv = s.recv := by
      unfold pollPushedMid
      exact ⟨by rw [modStream_counts, modStream_counts], by rw [ConnResetP.modStream_recv, ConnResetP.modStream_recv]⟩
    rcases pollPushedCons_cases s k child rest with ⟨m, u, f, r, _, e⟩ | e
    · rw [e]
      show (((pollPushedMid s k child rest).modStream child fun st => { st with pendingRecv := r }).cloneStreamRef child).counts = _ ∧
        (((pollPushedMid s k child rest).modStream child fun st => { st with pendingRecv := r }).cloneStreamRef child).recv = _
      unfold Streams.cloneStreamRef Streams.refInc
      refine ⟨?_, ?_⟩
      · show (Streams.modStream _ child _).counts = _
        rw [modStream_counts, modStream_counts]; exact hmid.1
      · show (Streams.modStream _ child _).recv = _
        rw [ConnResetP.modStream_recv, ConnResetP.modStream_recv]; exact hmid.2
    · rw [e]
      exact ⟨by show ((pollPushedMid s k child rest).panic _).counts = _; rw [panic_counts]; exact hmid.1,
        by show ((pollPushedMid s k child rest).panic _).recv = _; rw [panic_recv]; exact hmid.2⟩

theorem refPollPushed_errSame (s : Streams) (k : Nat) (t : String) : ErrSame s (s.refPollPushed k t).1 := by
  unfold ErrSame; rw [(refPollPushed_counts_recv s k t).1]; exact ⟨rfl, rfl⟩

theorem refPollPushed_ibr {s : Streams} (hn : NPI (fun _ => False) s) (hi : IBR s) (k : Nat) (t : String) :
    IBR (s.refPollPushed k t).1 := by
  have e := refPollPushed_ev (ρ := false) s k t
  exact hi.of_dr (e.keysOK hn.keys) (.of_ld (evF_ld e) e.nx.role (by rw [(refPollPushed_counts_recv s k t).2]; exact .refl _))

end H2V.Lemmas.ConnNoPanicP
