import H2V.Lemmas.ConnDrainPReach
/-
  ConnDrainP, part 19 — a witness that the `pending_capacity` invariant (`dreach_capacity`) is not vacuous: a
  connection state, reached from `Conn.init {}` by handle calls and a poll, in which a stream does wait in
  `pending_capacity`, the connection window being used up by another stream.  Evaluated by the kernel.
-/
namespace H2V.Lemmas.ConnDrainP.PC
open H2V H2V.Model H2V.Model.Conn

def c0 : Conn := Conn.init {}
/-- two requests (no END_STREAM) through the handle -/
def c1 : Conn := { c0 with streams := (c0.streams.sendRequest false [] false none).1 }
def c2 : Conn := { c1 with streams := (c1.streams.sendRequest false [] false none).1 }
/-- the connection is polled: both streams are opened, their HEADERS written -/
def c3 : Conn := (Conn.clientPoll 10 c2).1
/-- `send_data` of 65535 octets on the first stream: it is assigned the whole connection window -/
def c4 : Conn := { c3 with streams := (c3.streams.refSendData 0 65535 false).1 }
/-- `send_data` of 10 octets on the second: nothing is left for it, it waits in `pending_capacity` -/
def c5 : Conn := { c4 with streams := (c4.streams.refSendData 1 10 false).1 }

theorem c5_reach : DReach c5 :=
  .handle (.handle (.clientPoll 10 (.handle (.handle (.client {} (by decide) (by intro _ h; cases h) (by intro _ h; cases h))
    (.sendRequest _ false [] false none)) (.sendRequest _ false [] false none))) (.refSendData _ 0 65535 false))
    (.refSendData _ 1 10 false)

theorem c5_waits : c5.streams.panicked = none ∧ c5.streams.prio.pendingCapacity = [1] ∧
    c5.streams.prio.flow.available.val = 0 := by decide

end H2V.Lemmas.ConnDrainP.PC
