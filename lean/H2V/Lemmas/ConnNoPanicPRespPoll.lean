import H2V.Lemmas.ConnNoPanicPRespSelf
import H2V.Lemmas.ConnFlowPSend
/-
  C08 (no panic) — the client response path, part 8: the write path (`Streams::poll_complete`,
  `send_pending_refusal`) is a frame step: it never touches a receive queue, and it changes a state only by
  `set_reset` on a stream whose reset was scheduled.  `pop_frame` through the clone `ConnFlowP.popFrameC`
  (`Stream::send_data` abstract), like the other families.
-/
namespace H2V.Lemmas.ConnNoPanicP
open H2V H2V.Model H2V.Model.Conn H2V.Lemmas.ConnCountsP
attribute [local irreducible] wrapSubU32 wrapSubUsize

theorem sendDataG_rs (inst : ∀ p q : Nat, Decidable (p < q)) (x : Stream) (a b : Nat) :
    RS x (ConnResetP.sendDataG inst x a b).1 := by
  unfold ConnResetP.sendDataG
  generalize x.sendFlow.sendData a = p
  obtain ⟨fl, r⟩ := p
  dsimp only
  generalize inst _ _ = d
  cases d with
  | isTrue h =>
    simp only [if_pos h]
    have := notifyCapacity_rs { x with sendFlow := fl, bufferedSendData := wrapSubUsize x.bufferedSendData a, requestedSendCapacity := wrapSubU32 x.requestedSendCapacity a }
    exact ⟨this.key, this.q, this.ref, this.str⟩
  | isFalse h =>
    simp only [if_neg h]
    exact ⟨rfl, rfl, Nat.le_refl _, fun h => h⟩

theorem sendData_rs (x : Stream) (a b : Nat) : RS x (x.sendData a b).1 := by
  rw [ConnResetP.sendData_eq_G]; exact sendDataG_rs _ x a b

theorem sendConnectionWindowUpdate_rp {X : List Nat} (s : Streams) (w : Writer) : RP X s (s.sendConnectionWindowUpdate w).1 := by
  unfold Streams.sendConnectionWindowUpdate; rp_auto

theorem sendStreamWindowUpdates_rp {X : List Nat} (n : Nat) (s : Streams) (w : Writer) :
    RP X s (Streams.sendStreamWindowUpdates n s w).1 := by
  induction n generalizing s w with
  | zero => exact .refl _ _
  | succ n ih =>
    unfold Streams.sendStreamWindowUpdates
    split
    · exact .refl _ _
    · have h0 := qPop_rp (X := X) s .pendingWindowUpdates
      split
      · next s1 heq => rw [heq] at h0; exact h0
      · next s1 id heq =>
        rw [heq] at h0
        dsimp only
        refine RP.trans ?_ (ih _ _)
        refine RP.trans ?_ (transitionAfter_rp _ _ _)
        rp_auto

theorem recvBufferPending_rp {X : List Nat} (s : Streams) (w : Writer) : RP X s (s.recvBufferPending w).1 := by
  unfold Streams.recvBufferPending
  have h0 := sendConnectionWindowUpdate_rp (X := X) s w
  split
  · next s1 w1 heq => rw [heq] at h0; exact h0
  · next s1 w1 heq => rw [heq] at h0; exact h0.trans (sendStreamWindowUpdates_rp _ _ _)

theorem reclaimFrameInner_rp {X : List Nat} (s : Streams) (f : DataFrame) : RP X s (s.reclaimFrameInner f).1 := by
  unfold Streams.reclaimFrameInner; rp_auto
theorem reclaimFrame_rp {X : List Nat} (s : Streams) (w : Writer) : RP X s (s.reclaimFrame w).1 := by
  unfold Streams.reclaimFrame
  split
  · next w1 f _ => exact reclaimFrameInner_rp _ _
  · exact .refl _ _
theorem bufferOut_rp {X : List Nat} (s : Streams) (w : Writer) (f : Streams.OutFrame) : RP X s (s.bufferOut w f).1 := by
  unfold Streams.bufferOut; rp_auto

-- ===================================================================== `pop_frame`

theorem emitC_rp {X : List Nat} (sd : Stream → Nat → Nat → Stream × List String × Bool) (hsd : ∀ x a b, RS x (sd x a b).1)
    (s : Streams) (id len : Nat) (rest : List SFrame) : RP X s (ConnFlowP.emitC sd s id len rest) := by
  unfold ConnFlowP.emitC
  dsimp only
  generalize hs1 : (s.modStream id fun st => { st with pendingSend := rest }) = s1
  have h1 : RP X s s1 := by rw [← hs1]; exact modStream_rp _ _ _ (fun _ => ⟨rfl, rfl, Nat.le_refl _, fun h => h⟩)
  have h2 : RP X s (s1.setStream (sd (s1.stream id) len s1.prio.maxBufferSize).1) := by
    refine h1.trans (setStream_rp _ _ ?_)
    have := hsd (s1.stream id) len s1.prio.maxBufferSize
    rw [this.key, stream_key]; exact this
  rp_auto

theorem finish_rp {X : List Nat} {s' t : Streams} (id : Nat) (c : Prop) [Decidable c] (b : Bool) (h : RP X s' t) :
    RP X s' ((if c then (t.qPush .pendingSend id).1 else t).transitionAfter id b) := by
  refine RP.trans ?_ (transitionAfter_rp _ _ _)
  split
  · exact h.trans (qPush_rp _ _ _)
  · exact h

set_option hygiene false in
local macro "rp_data_rest" : tactic => `(tactic|
  (split
   · exact ih _ _
   · split
     · exact ih _ _
     · exact finish_rp id _ _ (emitC_rp _ hsd _ _ _ _)))

theorem popFrameC_rp {X : List Nat} (sd : Stream → Nat → Nat → Stream × List String × Bool) (hsd : ∀ x a b, RS x (sd x a b).1)
    (fuel : Nat) : ∀ (s : Streams) (maxLen : Nat), RP X s (ConnFlowP.popFrameC sd fuel s maxLen).1 := by
  induction fuel with
  | zero => intro s m; rw [ConnFlowP.popFrameC_zero]; exact .refl _ _
  | succ n ih =>
    intro s maxLen
    rw [ConnFlowP.popFrameC_succ']
    split
    · next s' heq => exact .of_fst_eq heq (qPop_rp _ _)
    · next s' id heq =>
      refine RP.trans (.of_fst_eq heq (qPop_rp _ _)) ?_
      dsimp only
      split
      · split
        · split
          · refine RP.trans ?_ (ih _ _)
            rp_auto
          · rp_data_rest
        · simp only [Bool.false_eq_true, if_false]
          rp_data_rest
      · exact finish_rp id _ _ (modStream_rp _ _ _ (fun _ => ⟨rfl, rfl, Nat.le_refl _, fun h => h⟩))
      · exact finish_rp id _ _ (modStream_rp _ _ _ (fun _ => ⟨rfl, rfl, Nat.le_refl _, fun h => h⟩))
      · split
        · refine RP.trans ?_ (ih _ _)
          exact finish_rp id _ _ (modStream_rp _ _ _ (fun _ => ⟨rfl, rfl, Nat.le_refl _, fun h => h⟩))
        · refine finish_rp id _ _ ?_
          rp_auto
      · split
        · exact finish_rp id _ _ (modStreamW_rp _ _ _ (fun x => setReset_rs x _ _))
        · exact (transitionAfter_rp _ _ _).trans (ih _ _)

theorem popFrame_rp {X : List Nat} (fuel : Nat) (s : Streams) (maxLen : Nat) : RP X s (Streams.popFrame fuel s maxLen).1 := by
  rw [ConnFlowP.popFrameC.eq]; exact popFrameC_rp _ sendData_rs fuel s maxLen

-- ===================================================================== `buffer_pending`, `poll_complete`

theorem pbpTail_rp {X : List Nat} (n : Nat) (ih : ∀ (s : Streams) (w : Writer), RP X s (Streams.prioBufferPendingLoop n s w).1)
    (s1 : Streams) (w : Writer) :
    RP X s1 (match Streams.popFrame (Streams.popFrameFuel s1) s1 w.maxFrameSize with
      | (s, some f) =>
        let (s, w) := s.bufferOut w f
        let (s, w, _) := s.reclaimFrame w
        Streams.prioBufferPendingLoop n s w
      | (s, none) => (s, w, .complete)).1 := by
  have h2 := popFrame_rp (X := X) (Streams.popFrameFuel s1) s1 w.maxFrameSize
  generalize Streams.popFrame (Streams.popFrameFuel s1) s1 w.maxFrameSize = p at h2
  obtain ⟨s2, o⟩ := p
  cases o with
  | none => exact h2
  | some f =>
    dsimp only at h2 ⊢
    have h3 := h2.trans (bufferOut_rp s2 w f)
    generalize s2.bufferOut w f = q at h3
    obtain ⟨s3, w3⟩ := q
    dsimp only at h3 ⊢
    have h4 := h3.trans (reclaimFrame_rp s3 w3)
    generalize s3.reclaimFrame w3 = q4 at h4
    obtain ⟨s4, w4, b4⟩ := q4
    exact h4.trans (ih _ _)

theorem prioBufferPendingLoop_rp {X : List Nat} (n : Nat) : ∀ (s : Streams) (w : Writer),
    RP X s (Streams.prioBufferPendingLoop n s w).1 := by
  induction n with
  | zero => intro s w; exact panic_rp _ _
  | succ n ih =>
    intro s w
    unfold Streams.prioBufferPendingLoop
    split
    · exact .refl _ _
    · have h0 := popPendingOpen_rp (X := X) s
      generalize s.popPendingOpen = po at h0
      obtain ⟨s0, o0⟩ := po
      cases o0 with
      | none => exact h0.trans (pbpTail_rp n ih s0 w)
      | some id =>
        exact ((h0.trans (qPushFront_rp _ _ _)).trans (tryAssignCapacity_rp _ _)).trans (pbpTail_rp n ih _ w)

theorem prioBufferPending_rp {X : List Nat} (fuel : Nat) (s : Streams) (w : Writer) :
    RP X s (Streams.prioBufferPending fuel s w).1 := by
  unfold Streams.prioBufferPending
  have h1 := reclaimFrame_rp (X := X) s w
  generalize s.reclaimFrame w = q at h1
  obtain ⟨s1, w1, b1⟩ := q
  exact h1.trans (prioBufferPendingLoop_rp _ _ _)

theorem bufferPending_rp {X : List Nat} (fuel : Nat) (s : Streams) (w : Writer) : RP X s (Streams.bufferPending fuel s w).1 := by
  unfold Streams.bufferPending
  have h0 := recvBufferPending_rp (X := X) s w
  split
  · next s1 w1 heq => rw [heq] at h0; exact h0
  · next s1 w1 heq => rw [heq] at h0; exact h0.trans (prioBufferPending_rp _ _ _)

theorem setTask_rp {X : List Nat} (s : Streams) (o : Option String) : RP X s { s with actions := { s.actions with task := o } } :=
  .of_store rfl

theorem pollComplete_rp {X : List Nat} (fuel : Nat) : ∀ (s : Streams) (w : Writer) (io : Tio) (tag : String),
    RP X s (Streams.pollComplete fuel s w io tag).1 := by
  induction fuel with
  | zero => intro s w io tag; exact panic_rp _ _
  | succ n ih =>
    intro s w io tag
    unfold Streams.pollComplete
    split
    · next w1 io1 _ =>
      have h1 := bufferPending_rp (X := X) (n + 1) s w1
      generalize Streams.bufferPending (n + 1) s w1 = q at h1
      obtain ⟨s1, w2, st⟩ := q
      dsimp only at h1 ⊢
      cases st with
      | codecFull => exact h1.trans (ih _ _ _ _)
      | complete =>
        dsimp only
        have h2 := h1.trans (setTask_rp s1 (some tag))
        split
        · next w3 io3 _ =>
          have h3 := h2.trans (reclaimFrame_rp _ w3)
          generalize Streams.reclaimFrame _ w3 = q3 at h3
          obtain ⟨s3, w4, b⟩ := q3
          dsimp only at h3 ⊢
          split
          · exact h3
          · exact h3.trans (ih _ _ _ _)
        · exact h2
    · exact .refl _ _

theorem pollSendPendingRefusal_rp {X : List Nat} (fuel : Nat) : ∀ (s : Streams) (w : Writer) (io : Tio) (tag : String),
    RP X s (Streams.pollSendPendingRefusal fuel s w io tag).1 := by
  induction fuel with
  | zero => intro s w io tag; exact .refl _ _
  | succ n ih =>
    intro s w io tag
    unfold Streams.pollSendPendingRefusal
    have h0 := sendPendingRefusal_rp (X := X) s w
    split
    · next s1 w1 heq => rw [heq] at h0; exact h0
    · next s1 w1 heq =>
      rw [heq] at h0
      split
      · exact h0.trans (ih _ _ _ _)
      · exact h0

end H2V.Lemmas.ConnNoPanicP
