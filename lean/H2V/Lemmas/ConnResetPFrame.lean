import H2V.Lemmas.ConnResetPEvolve
/-
  ConnResetP — frame lemmas: the operations of the model that never touch the core fields
  (`key`, `id`, `state`, `pendingSend`) of any slab entry.  Stated for an arbitrary per-stream
  relation `P` (class `Good`): `Evolves P N s0 s → Evolves P N s0 (op s …)`.
  Covered here: the queues, the counters, `transition_after`, the whole capacity machinery of
  prioritize.rs (`try_assign_capacity`, `assign_connection_capacity`, `reserve_capacity`,
  `reclaim_*`), and the receive-side bookkeeping of recv.rs that does not move the state machine.
-/
namespace H2V.Lemmas.ConnResetP
open H2V H2V.Model H2V.Model.Conn

section
variable {P : Stream → Stream → Prop} {N : Stream → Prop} [Good P N] {s0 s : Streams}

@[simp] theorem setQ_store (s : Streams) (q : QName) (l : List Nat) : (s.setQ q l).store = s.store := by
  cases q <;> rfl
@[simp] theorem setQ_counts (s : Streams) (q : QName) (l : List Nat) : (s.setQ q l).counts = s.counts := by
  cases q <;> rfl
@[simp] theorem setQ_panicked (s : Streams) (q : QName) (l : List Nat) : (s.setQ q l).panicked = s.panicked := by
  cases q <;> rfl

theorem coreEq_setQueued (st : Stream) (q : QName) (v : Bool) : CoreEq st (st.setQueued q v) := by
  cases q <;> exact ⟨rfl, rfl, rfl, rfl⟩

macro_rules | `(tactic| core_tac) => `(tactic| exact coreEq_setQueued _ _ _)

theorem coreEq_notifySend (st : Stream) : CoreEq st st.notifySend.1 := by
  unfold Stream.notifySend
  cases h1 : st.sendTask <;> dsimp only <;> split <;> exact ⟨rfl, rfl, rfl, rfl⟩
theorem coreEq_notifyRecv (st : Stream) : CoreEq st st.notifyRecv.1 := by
  unfold Stream.notifyRecv; split <;> exact ⟨rfl, rfl, rfl, rfl⟩
theorem coreEq_notifyPush (st : Stream) : CoreEq st st.notifyPush.1 := by
  unfold Stream.notifyPush; split <;> exact ⟨rfl, rfl, rfl, rfl⟩
theorem coreEq_notifyCapacity (st : Stream) : CoreEq st st.notifyCapacity.1 := by
  unfold Stream.notifyCapacity
  have := coreEq_notifySend { st with sendCapacityInc := true }
  exact ⟨this.key, this.id, this.state, this.pendingSend⟩
theorem coreEq_assignCapacity (st : Stream) (c m : Nat) : CoreEq st (st.assignCapacity c m).1 := by
  unfold Stream.assignCapacity
  simp only
  split
  · have := coreEq_notifyCapacity { st with sendFlow := (st.sendFlow.assignCapacity c).1 }
    exact ⟨this.key, this.id, this.state, this.pendingSend⟩
  · exact ⟨rfl, rfl, rfl, rfl⟩

macro_rules | `(tactic| core_tac) => `(tactic| exact coreEq_notifySend _)
macro_rules | `(tactic| core_tac) => `(tactic| exact coreEq_notifyRecv _)
macro_rules | `(tactic| core_tac) => `(tactic| exact coreEq_notifyPush _)
macro_rules | `(tactic| core_tac) => `(tactic| exact coreEq_notifyCapacity _)
macro_rules | `(tactic| core_tac) => `(tactic| exact coreEq_assignCapacity _ _ _)

theorem qPush_ev (h : Evolves P N s0 s) (q : QName) (id : Nat) : Evolves P N s0 (s.qPush q id).1 := by
  unfold Streams.qPush; ev
macro_rules | `(tactic| ev_step) => `(tactic| apply qPush_ev)

theorem qPushFront_ev (h : Evolves P N s0 s) (q : QName) (id : Nat) : Evolves P N s0 (s.qPushFront q id).1 := by
  unfold Streams.qPushFront; ev
macro_rules | `(tactic| ev_step) => `(tactic| apply qPushFront_ev)

theorem qPop_ev (h : Evolves P N s0 s) (q : QName) : Evolves P N s0 (s.qPop q).1 := by
  unfold Streams.qPop; ev
macro_rules | `(tactic| ev_step) => `(tactic| apply qPop_ev)

theorem incNumSendStreams_ev (h : Evolves P N s0 s) (id : Nat) : Evolves P N s0 (s.incNumSendStreams id) := by
  unfold Streams.incNumSendStreams; ev
macro_rules | `(tactic| ev_step) => `(tactic| apply incNumSendStreams_ev)

theorem incNumRecvStreams_ev (h : Evolves P N s0 s) (id : Nat) : Evolves P N s0 (s.incNumRecvStreams id) := by
  unfold Streams.incNumRecvStreams; ev
macro_rules | `(tactic| ev_step) => `(tactic| apply incNumRecvStreams_ev)

theorem decNumStreams_ev (h : Evolves P N s0 s) (id : Nat) : Evolves P N s0 (s.decNumStreams id) := by
  unfold Streams.decNumStreams; ev
macro_rules | `(tactic| ev_step) => `(tactic| apply decNumStreams_ev)

theorem unlink_ev (h : Evolves P N s0 s) (id : Nat) : Evolves P N s0 { s with store := s.store.unlink id } :=
  h.of_get?_eq (fun _ => rfl) rfl
macro_rules | `(tactic| ev_step) => `(tactic| apply unlink_ev)

theorem remove_ev (h : Evolves P N s0 s) (k n : Nat) :
    Evolves P N s0 { s with store := s.store.remove k, recvBufferLeaked := n } := h.remove k rfl
macro_rules | `(tactic| ev_step) => `(tactic| apply remove_ev)

theorem transitionAfter_ev (h : Evolves P N s0 s) (id : Nat) (b : Bool) : Evolves P N s0 (s.transitionAfter id b) := by
  unfold Streams.transitionAfter; ev
macro_rules | `(tactic| ev_step) => `(tactic| apply transitionAfter_ev)

theorem scheduleSend_ev (h : Evolves P N s0 s) (id : Nat) : Evolves P N s0 (s.scheduleSend id) := by
  unfold Streams.scheduleSend; ev
macro_rules | `(tactic| ev_step) => `(tactic| apply scheduleSend_ev)

theorem queueOpen_ev (h : Evolves P N s0 s) (id : Nat) : Evolves P N s0 (s.queueOpen id) := by
  unfold Streams.queueOpen; ev
macro_rules | `(tactic| ev_step) => `(tactic| apply queueOpen_ev)

theorem tryAssignCapacity_ev (h : Evolves P N s0 s) (id : Nat) : Evolves P N s0 (s.tryAssignCapacity id) := by
  unfold Streams.tryAssignCapacity; ev
macro_rules | `(tactic| ev_step) => `(tactic| apply tryAssignCapacity_ev)

theorem assignConnectionCapacityLoop_ev (fuel : Nat) (h : Evolves P N s0 s) :
    Evolves P N s0 (Streams.assignConnectionCapacityLoop fuel s) := by
  induction fuel generalizing s with
  | zero => unfold Streams.assignConnectionCapacityLoop; exact h
  | succ n ih => unfold Streams.assignConnectionCapacityLoop; ev
macro_rules | `(tactic| ev_step) => `(tactic| apply assignConnectionCapacityLoop_ev)

theorem assignConnectionCapacity_ev (h : Evolves P N s0 s) (inc : Nat) : Evolves P N s0 (s.assignConnectionCapacity inc) := by
  unfold Streams.assignConnectionCapacity; ev
macro_rules | `(tactic| ev_step) => `(tactic| apply assignConnectionCapacity_ev)

theorem reserveCapacity_ev (h : Evolves P N s0 s) (id c : Nat) : Evolves P N s0 (s.reserveCapacity id c) := by
  unfold Streams.reserveCapacity; ev
macro_rules | `(tactic| ev_step) => `(tactic| apply reserveCapacity_ev)

theorem reclaimAllCapacity_ev (h : Evolves P N s0 s) (id : Nat) : Evolves P N s0 (s.reclaimAllCapacity id) := by
  unfold Streams.reclaimAllCapacity; ev
macro_rules | `(tactic| ev_step) => `(tactic| apply reclaimAllCapacity_ev)

theorem reclaimReservedCapacity_ev (h : Evolves P N s0 s) (id : Nat) : Evolves P N s0 (s.reclaimReservedCapacity id) := by
  unfold Streams.reclaimReservedCapacity; ev
macro_rules | `(tactic| ev_step) => `(tactic| apply reclaimReservedCapacity_ev)

theorem clearPendingCapacity_ev (fuel : Nat) (h : Evolves P N s0 s) :
    Evolves P N s0 (Streams.clearPendingCapacity fuel s) := by
  induction fuel generalizing s with
  | zero => unfold Streams.clearPendingCapacity; exact h
  | succ n ih => unfold Streams.clearPendingCapacity; ev
macro_rules | `(tactic| ev_step) => `(tactic| apply clearPendingCapacity_ev)

theorem clearPendingOpen_ev (fuel : Nat) (h : Evolves P N s0 s) :
    Evolves P N s0 (Streams.clearPendingOpen fuel s) := by
  induction fuel generalizing s with
  | zero => unfold Streams.clearPendingOpen; exact h
  | succ n ih => unfold Streams.clearPendingOpen; ev
macro_rules | `(tactic| ev_step) => `(tactic| apply clearPendingOpen_ev)

theorem popPendingOpen_ev (h : Evolves P N s0 s) : Evolves P N s0 s.popPendingOpen.1 := by
  unfold Streams.popPendingOpen; ev
macro_rules | `(tactic| ev_step) => `(tactic| apply popPendingOpen_ev)

theorem prioRecvStreamWindowUpdate_ev (h : Evolves P N s0 s) (id inc : Nat) :
    Evolves P N s0 (s.prioRecvStreamWindowUpdate id inc).1 := by
  unfold Streams.prioRecvStreamWindowUpdate; ev
macro_rules | `(tactic| ev_step) => `(tactic| apply prioRecvStreamWindowUpdate_ev)

theorem recvConnectionWindowUpdate_ev (h : Evolves P N s0 s) (inc : Nat) :
    Evolves P N s0 (s.recvConnectionWindowUpdate inc).1 := by
  unfold Streams.recvConnectionWindowUpdate; ev
macro_rules | `(tactic| ev_step) => `(tactic| apply recvConnectionWindowUpdate_ev)

theorem sendOpenId_ev (h : Evolves P N s0 s) : Evolves P N s0 s.sendOpenId.1 := by
  unfold Streams.sendOpenId; ev
macro_rules | `(tactic| ev_step) => `(tactic| apply sendOpenId_ev)

theorem pollCapacity_ev (h : Evolves P N s0 s) (id : Nat) (tag : String) : Evolves P N s0 (s.pollCapacity id tag).1 := by
  unfold Streams.pollCapacity Stream.waitSend; ev
macro_rules | `(tactic| ev_step) => `(tactic| apply pollCapacity_ev)

theorem pollReset_ev (h : Evolves P N s0 s) (id : Nat) (m : PollReset) (tag : String) :
    Evolves P N s0 (s.pollReset id m tag).1 := by
  unfold Streams.pollReset Stream.waitSend; ev
macro_rules | `(tactic| ev_step) => `(tactic| apply pollReset_ev)

theorem sendRecvGoAway_ev (h : Evolves P N s0 s) (l : Nat) : Evolves P N s0 (s.sendRecvGoAway l).1 := by
  unfold Streams.sendRecvGoAway; ev
macro_rules | `(tactic| ev_step) => `(tactic| apply sendRecvGoAway_ev)

theorem sendMaybeResetNextStreamId_ev (h : Evolves P N s0 s) (id : Nat) :
    Evolves P N s0 (s.sendMaybeResetNextStreamId id) := by
  unfold Streams.sendMaybeResetNextStreamId; ev
macro_rules | `(tactic| ev_step) => `(tactic| apply sendMaybeResetNextStreamId_ev)

end
end H2V.Lemmas.ConnResetP
