import H2V.Lemmas.ConnResetPEvolve
/-
  ConnResetP — frame lemmas: the operations of the model that never touch the core fields
  (`key`, `id`, `state`, `pendingSend`) of any slab entry.  Stated for an arbitrary per-stream
  relation `P` (class `Good`): `Evolves P N a s.store → Evolves P N a (op s …).store`.
  Covered here: the queues, the counters, `transition_after`, the whole capacity machinery of
  prioritize.rs (`try_assign_capacity`, `assign_connection_capacity`, `reserve_capacity`,
  `reclaim_*`), and the receive-side bookkeeping of recv.rs that does not move the state machine.
-/
set_option linter.unusedSectionVars false
namespace H2V.Lemmas.ConnResetP
open H2V H2V.Model H2V.Model.Conn

section
variable {P : Stream → Stream → Prop} {N : Stream → Prop} [Good P N] {a : Store} {s : Streams}

@[simp, crp_store] theorem setQ_store (s : Streams) (q : QName) (l : List Nat) : (s.setQ q l).store = s.store := by
  cases q <;> rfl
@[simp] theorem setQ_counts (s : Streams) (q : QName) (l : List Nat) : (s.setQ q l).counts = s.counts := by
  cases q <;> rfl
@[simp] theorem setQ_panicked (s : Streams) (q : QName) (l : List Nat) : (s.setQ q l).panicked = s.panicked := by
  cases q <;> rfl

theorem coreEq_setQueued (st : Stream) (q : QName) (v : Bool) : CoreEq st (st.setQueued q v) := by
  cases q <;> exact ⟨rfl, rfl, rfl, rfl, rfl⟩

macro_rules | `(tactic| core_tac) => `(tactic| exact coreEq_setQueued _ _ _)

theorem coreEq_notifySend (st : Stream) : CoreEq st st.notifySend.1 := by
  unfold Stream.notifySend
  cases h1 : st.sendTask <;> dsimp only <;> split <;> exact ⟨rfl, rfl, rfl, rfl, rfl⟩
theorem coreEq_notifyRecv (st : Stream) : CoreEq st st.notifyRecv.1 := by
  unfold Stream.notifyRecv; split <;> exact ⟨rfl, rfl, rfl, rfl, rfl⟩
theorem coreEq_notifyPush (st : Stream) : CoreEq st st.notifyPush.1 := by
  unfold Stream.notifyPush; split <;> exact ⟨rfl, rfl, rfl, rfl, rfl⟩
theorem coreEq_notifyCapacity (st : Stream) : CoreEq st st.notifyCapacity.1 := by
  unfold Stream.notifyCapacity
  have := coreEq_notifySend { st with sendCapacityInc := true }
  exact ⟨this.key, this.id, this.state, this.pendingSend, this.refCount⟩
theorem coreEq_assignCapacity (st : Stream) (c m : Nat) : CoreEq st (st.assignCapacity c m).1 := by
  unfold Stream.assignCapacity
  simp only
  split
  · have := coreEq_notifyCapacity { st with sendFlow := (st.sendFlow.assignCapacity c).1 }
    exact ⟨this.key, this.id, this.state, this.pendingSend, this.refCount⟩
  · exact ⟨rfl, rfl, rfl, rfl, rfl⟩

macro_rules | `(tactic| core_tac) => `(tactic| exact coreEq_notifySend _)
macro_rules | `(tactic| core_tac) => `(tactic| exact coreEq_notifyRecv _)
macro_rules | `(tactic| core_tac) => `(tactic| exact coreEq_notifyPush _)
macro_rules | `(tactic| core_tac) => `(tactic| exact coreEq_notifyCapacity _)
macro_rules | `(tactic| core_tac) => `(tactic| exact coreEq_assignCapacity _ _ _)

theorem qPush_ev (h : Evolves P N a s.store) (q : QName) (id : Nat) : Evolves P N a (s.qPush q id).1.store := by
  unfold Streams.qPush; ev
macro_rules | `(tactic| ev_step) => `(tactic| with_reducible apply qPush_ev)

theorem qPushFront_ev (h : Evolves P N a s.store) (q : QName) (id : Nat) : Evolves P N a (s.qPushFront q id).1.store := by
  unfold Streams.qPushFront; ev
macro_rules | `(tactic| ev_step) => `(tactic| with_reducible apply qPushFront_ev)

theorem qPop_ev (h : Evolves P N a s.store) (q : QName) : Evolves P N a (s.qPop q).1.store := by
  unfold Streams.qPop; ev
macro_rules | `(tactic| ev_step) => `(tactic| with_reducible apply qPop_ev)

theorem incNumSendStreams_ev (h : Evolves P N a s.store) (id : Nat) : Evolves P N a (s.incNumSendStreams id).store := by
  unfold Streams.incNumSendStreams; ev
macro_rules | `(tactic| ev_step) => `(tactic| with_reducible apply incNumSendStreams_ev)

theorem incNumRecvStreams_ev (h : Evolves P N a s.store) (id : Nat) : Evolves P N a (s.incNumRecvStreams id).store := by
  unfold Streams.incNumRecvStreams; ev
macro_rules | `(tactic| ev_step) => `(tactic| with_reducible apply incNumRecvStreams_ev)

theorem decNumStreams_ev (h : Evolves P N a s.store) (id : Nat) : Evolves P N a (s.decNumStreams id).store := by
  unfold Streams.decNumStreams; ev
macro_rules | `(tactic| ev_step) => `(tactic| with_reducible apply decNumStreams_ev)

theorem isReleased_removable {st : Stream} (h : st.isReleased = true) : Removable st := by
  unfold Stream.isReleased Stream.isClosed at h
  simp only [Bool.and_eq_true] at h
  exact ⟨List.isEmpty_iff.mp h.1.1.1.1.1.1.1.1.2, by simpa using h.1.1.1.1.1.1.2⟩

/-- the part of `transition_after` before the release test -/
def taPrefix (s : Streams) (id : Nat) (isResetCounted : Bool) : Streams :=
  let st := s.stream id
  let s :=
    if isResetCounted && !st.isPendingResetExpiration then
      s.modCountsA "self.num_local_reset_streams > 0" Counts.decNumResetStreams
    else s
  if st.isClosed then
    let s := if !st.isPendingResetExpiration then { s with store := s.store.unlink st.id } else s
    if !st.state.isScheduledReset && st.isCounted then s.decNumStreams id else s
  else s

/-- the release test of `transition_after` -/
def releaseStep (s : Streams) (id : Nat) : Streams :=
  if (s.stream id).isReleased then
    let s := if (s.stream id).isCounted then s.decNumStreams id else s
    { s with store := s.store.remove id, recvBufferLeaked := s.recvBufferLeaked + (s.stream id).pendingRecv.length }
  else s

theorem transitionAfter_eq (s : Streams) (id : Nat) (b : Bool) :
    s.transitionAfter id b = releaseStep (taPrefix s id b) id := rfl

theorem taPrefix_ev (h : Evolves P N a s.store) (id : Nat) (b : Bool) : Evolves P N a (taPrefix s id b).store := by
  unfold taPrefix; ev

theorem releaseStep_ev (h : Evolves P N a s.store) (id : Nat) : Evolves P N a (releaseStep s id).store := by
  unfold releaseStep
  by_cases hrel : (s.stream id).isReleased = true
  · simp only [hrel, if_true]
    rw [stream_eq] at hrel
    by_cases hc : (s.stream id).isCounted = true
    · simp only [hc, if_true]
      simp only [crp_store]
      refine Evolves.remove (by ev) _ (fun _ st hg => ?_)
      rw [Store.get?_mod' _ _ _ (by intro; rfl), if_pos rfl] at hg
      cases hg0 : s.store.get? id with
      | none => rw [hg0] at hg; cases hg
      | some st0 =>
        rw [hg0] at hg; simp only [Option.map_some, Option.some.injEq] at hg
        rw [Store.getD'_of_get? hg0] at hrel
        have := isReleased_removable hrel
        subst hg; exact this
    · simp only [hc, Bool.false_eq_true, if_false]
      refine Evolves.remove h _ (fun _ st hg => ?_)
      rw [Store.getD'_of_get? hg] at hrel
      exact isReleased_removable hrel
  · simp only [hrel, Bool.false_eq_true, if_false]; exact h

theorem transitionAfter_ev (h : Evolves P N a s.store) (id : Nat) (b : Bool) : Evolves P N a (s.transitionAfter id b).store := by
  rw [transitionAfter_eq]; exact releaseStep_ev (taPrefix_ev h id b) id
macro_rules | `(tactic| ev_step) => `(tactic| with_reducible apply transitionAfter_ev)

theorem scheduleSend_ev (h : Evolves P N a s.store) (id : Nat) : Evolves P N a (s.scheduleSend id).store := by
  unfold Streams.scheduleSend; ev
macro_rules | `(tactic| ev_step) => `(tactic| with_reducible apply scheduleSend_ev)

theorem queueOpen_ev (h : Evolves P N a s.store) (id : Nat) : Evolves P N a (s.queueOpen id).store := by
  unfold Streams.queueOpen; ev
macro_rules | `(tactic| ev_step) => `(tactic| with_reducible apply queueOpen_ev)

theorem tryAssignCapacity_ev (h : Evolves P N a s.store) (id : Nat) : Evolves P N a (s.tryAssignCapacity id).store := by
  unfold Streams.tryAssignCapacity; ev
macro_rules | `(tactic| ev_step) => `(tactic| with_reducible apply tryAssignCapacity_ev)

theorem assignConnectionCapacityLoop_ev (fuel : Nat) (h : Evolves P N a s.store) :
    Evolves P N a (Streams.assignConnectionCapacityLoop fuel s).store := by
  induction fuel generalizing s with
  | zero => unfold Streams.assignConnectionCapacityLoop; exact h
  | succ n ih => unfold Streams.assignConnectionCapacityLoop; ev
macro_rules | `(tactic| ev_step) => `(tactic| with_reducible apply assignConnectionCapacityLoop_ev)

theorem assignConnectionCapacity_ev (h : Evolves P N a s.store) (inc : Nat) : Evolves P N a (s.assignConnectionCapacity inc).store := by
  unfold Streams.assignConnectionCapacity; ev
macro_rules | `(tactic| ev_step) => `(tactic| with_reducible apply assignConnectionCapacity_ev)

theorem reserveCapacity_ev (h : Evolves P N a s.store) (id c : Nat) : Evolves P N a (s.reserveCapacity id c).store := by
  unfold Streams.reserveCapacity; ev
macro_rules | `(tactic| ev_step) => `(tactic| with_reducible apply reserveCapacity_ev)

theorem reclaimAllCapacity_ev (h : Evolves P N a s.store) (id : Nat) : Evolves P N a (s.reclaimAllCapacity id).store := by
  unfold Streams.reclaimAllCapacity; ev
macro_rules | `(tactic| ev_step) => `(tactic| with_reducible apply reclaimAllCapacity_ev)

theorem reclaimReservedCapacity_ev (h : Evolves P N a s.store) (id : Nat) : Evolves P N a (s.reclaimReservedCapacity id).store := by
  unfold Streams.reclaimReservedCapacity; ev
macro_rules | `(tactic| ev_step) => `(tactic| with_reducible apply reclaimReservedCapacity_ev)

theorem clearPendingCapacity_ev (fuel : Nat) (h : Evolves P N a s.store) :
    Evolves P N a (Streams.clearPendingCapacity fuel s).store := by
  induction fuel generalizing s with
  | zero => unfold Streams.clearPendingCapacity; exact h
  | succ n ih => unfold Streams.clearPendingCapacity; ev
macro_rules | `(tactic| ev_step) => `(tactic| with_reducible apply clearPendingCapacity_ev)

theorem clearPendingOpen_ev (fuel : Nat) (h : Evolves P N a s.store) :
    Evolves P N a (Streams.clearPendingOpen fuel s).store := by
  induction fuel generalizing s with
  | zero => unfold Streams.clearPendingOpen; exact h
  | succ n ih => unfold Streams.clearPendingOpen; ev
macro_rules | `(tactic| ev_step) => `(tactic| with_reducible apply clearPendingOpen_ev)

theorem popPendingOpen_ev (h : Evolves P N a s.store) : Evolves P N a s.popPendingOpen.1.store := by
  unfold Streams.popPendingOpen; ev
macro_rules | `(tactic| ev_step) => `(tactic| with_reducible apply popPendingOpen_ev)

theorem prioRecvStreamWindowUpdate_ev (h : Evolves P N a s.store) (id inc : Nat) :
    Evolves P N a (s.prioRecvStreamWindowUpdate id inc).1.store := by
  unfold Streams.prioRecvStreamWindowUpdate; ev
macro_rules | `(tactic| ev_step) => `(tactic| with_reducible apply prioRecvStreamWindowUpdate_ev)

theorem recvConnectionWindowUpdate_ev (h : Evolves P N a s.store) (inc : Nat) :
    Evolves P N a (s.recvConnectionWindowUpdate inc).1.store := by
  unfold Streams.recvConnectionWindowUpdate; ev
macro_rules | `(tactic| ev_step) => `(tactic| with_reducible apply recvConnectionWindowUpdate_ev)

theorem sendOpenId_ev (h : Evolves P N a s.store) : Evolves P N a s.sendOpenId.1.store := by
  unfold Streams.sendOpenId; ev
macro_rules | `(tactic| ev_step) => `(tactic| with_reducible apply sendOpenId_ev)

theorem pollCapacity_ev (h : Evolves P N a s.store) (id : Nat) (tag : String) : Evolves P N a (s.pollCapacity id tag).1.store := by
  unfold Streams.pollCapacity Stream.waitSend; ev
macro_rules | `(tactic| ev_step) => `(tactic| with_reducible apply pollCapacity_ev)

theorem pollReset_ev (h : Evolves P N a s.store) (id : Nat) (m : PollReset) (tag : String) :
    Evolves P N a (s.pollReset id m tag).1.store := by
  unfold Streams.pollReset Stream.waitSend; ev
macro_rules | `(tactic| ev_step) => `(tactic| with_reducible apply pollReset_ev)

theorem sendRecvGoAway_ev (h : Evolves P N a s.store) (l : Nat) : Evolves P N a (s.sendRecvGoAway l).1.store := by
  unfold Streams.sendRecvGoAway; ev
macro_rules | `(tactic| ev_step) => `(tactic| with_reducible apply sendRecvGoAway_ev)

theorem sendMaybeResetNextStreamId_ev (h : Evolves P N a s.store) (id : Nat) :
    Evolves P N a (s.sendMaybeResetNextStreamId id).store := by
  unfold Streams.sendMaybeResetNextStreamId; ev
macro_rules | `(tactic| ev_step) => `(tactic| with_reducible apply sendMaybeResetNextStreamId_ev)


-- ===================================================================== Store::for_each / try_for_each

theorem tryForEach_ev (f : Streams → Nat → Streams × Option PErr)
    (hf : ∀ (s : Streams) (id : Nat), Evolves P N a s.store → Evolves P N a (f s id).1.store)
    (fuel i len : Nat) (h : Evolves P N a s.store) :
    Evolves P N a (Streams.tryForEach f fuel i len s).1.store := by
  induction fuel generalizing s i len with
  | zero => unfold Streams.tryForEach; exact h
  | succ n ih => unfold Streams.tryForEach; ev

theorem storeTryForEach_ev (f : Streams → Nat → Streams × Option PErr)
    (hf : ∀ (s : Streams) (id : Nat), Evolves P N a s.store → Evolves P N a (f s id).1.store)
    (h : Evolves P N a s.store) : Evolves P N a (s.storeTryForEach f).1.store := by
  unfold Streams.storeTryForEach; exact tryForEach_ev f hf _ _ _ h

theorem storeForEach_ev (f : Streams → Nat → Streams)
    (hf : ∀ (s : Streams) (id : Nat), Evolves P N a s.store → Evolves P N a (f s id).store)
    (h : Evolves P N a s.store) : Evolves P N a (s.storeForEach f).store := by
  unfold Streams.storeForEach; exact storeTryForEach_ev _ (fun s id h => hf s id h) h

macro_rules | `(tactic| ev_step) => `(tactic| with_reducible refine storeTryForEach_ev _ (fun _ _ _ => ?_) ?_)
macro_rules | `(tactic| ev_step) => `(tactic| with_reducible refine storeForEach_ev _ (fun _ _ _ => ?_) ?_)

theorem tryForEachAcc_ev (f : Nat → Streams → Nat → Streams × Nat × Option PErr)
    (hf : ∀ (acc : Nat) (s : Streams) (id : Nat), Evolves P N a s.store → Evolves P N a (f acc s id).1.store)
    (fuel i len acc : Nat) (h : Evolves P N a s.store) :
    Evolves P N a (Streams.tryForEachAcc f fuel i len acc s).1.store := by
  induction fuel generalizing s i len acc with
  | zero => unfold Streams.tryForEachAcc; exact h
  | succ n ih => unfold Streams.tryForEachAcc; ev

macro_rules | `(tactic| ev_step) => `(tactic| with_reducible refine tryForEachAcc_ev _ (fun _ _ _ _ => ?_) _ _ _ _ ?_)

theorem transition_ev {α : Type} (id : Nat) (f : Streams → Streams × α)
    (hf : Evolves P N a (f s).1.store) : Evolves P N a (s.transition id f).1.store := by
  unfold Streams.transition; ev

macro_rules | `(tactic| ev_step) => `(tactic| with_reducible refine transition_ev _ _ ?_)

theorem decStreamWindow_ev (h : Evolves P N a s.store) (dec acc id : Nat) :
    Evolves P N a (Streams.decStreamWindow dec acc s id).1.store := by
  unfold Streams.decStreamWindow; ev
macro_rules | `(tactic| ev_step) => `(tactic| with_reducible apply decStreamWindow_ev)

-- ===================================================================== recv.rs

theorem notifyPushIfRecvEnded_ev (h : Evolves P N a s.store) (id : Nat) :
    Evolves P N a (s.notifyPushIfRecvEnded id).store := by
  unfold Streams.notifyPushIfRecvEnded; ev
macro_rules | `(tactic| ev_step) => `(tactic| with_reducible apply notifyPushIfRecvEnded_ev)

theorem releaseConnectionCapacity_ev (h : Evolves P N a s.store) (c : Nat) (u : Bool) :
    Evolves P N a (s.releaseConnectionCapacity c u).store := by
  unfold Streams.releaseConnectionCapacity; ev
macro_rules | `(tactic| ev_step) => `(tactic| with_reducible apply releaseConnectionCapacity_ev)

theorem releaseCapacity_ev (h : Evolves P N a s.store) (id c : Nat) (u : Bool) :
    Evolves P N a (s.releaseCapacity id c u).1.store := by
  unfold Streams.releaseCapacity; ev
macro_rules | `(tactic| ev_step) => `(tactic| with_reducible apply releaseCapacity_ev)

theorem clearRecvBuffer_ev (h : Evolves P N a s.store) (id : Nat) (u : Bool) :
    Evolves P N a (s.clearRecvBuffer id u).store := by
  unfold Streams.clearRecvBuffer; ev
macro_rules | `(tactic| ev_step) => `(tactic| with_reducible apply clearRecvBuffer_ev)

theorem releaseClosedCapacity_ev (h : Evolves P N a s.store) (id : Nat) :
    Evolves P N a (s.releaseClosedCapacity id).store := by
  unfold Streams.releaseClosedCapacity; ev
macro_rules | `(tactic| ev_step) => `(tactic| with_reducible apply releaseClosedCapacity_ev)

theorem setTargetConnectionWindow_ev (h : Evolves P N a s.store) (t : Nat) :
    Evolves P N a (s.setTargetConnectionWindow t).1.store := by
  unfold Streams.setTargetConnectionWindow; ev
macro_rules | `(tactic| ev_step) => `(tactic| with_reducible apply setTargetConnectionWindow_ev)

theorem consumeConnectionWindow_ev (h : Evolves P N a s.store) (sz : Nat) :
    Evolves P N a (s.consumeConnectionWindow sz).1.store := by
  unfold Streams.consumeConnectionWindow; ev
macro_rules | `(tactic| ev_step) => `(tactic| with_reducible apply consumeConnectionWindow_ev)

theorem ignoreData_ev (h : Evolves P N a s.store) (sz : Nat) : Evolves P N a (s.ignoreData sz).1.store := by
  unfold Streams.ignoreData; ev
macro_rules | `(tactic| ev_step) => `(tactic| with_reducible apply ignoreData_ev)

theorem recvOpen_ev (h : Evolves P N a s.store) (id : Nat) (pp : Bool) : Evolves P N a (s.recvOpen id pp).1.store := by
  unfold Streams.recvOpen; ev
macro_rules | `(tactic| ev_step) => `(tactic| with_reducible apply recvOpen_ev)

theorem recvTakeRequest_ev (h : Evolves P N a s.store) (id : Nat) : Evolves P N a (s.recvTakeRequest id).1.store := by
  unfold Streams.recvTakeRequest; ev
macro_rules | `(tactic| ev_step) => `(tactic| with_reducible apply recvTakeRequest_ev)

theorem recvNextIncoming_ev (h : Evolves P N a s.store) : Evolves P N a s.recvNextIncoming.1.store := by
  unfold Streams.recvNextIncoming; ev
macro_rules | `(tactic| ev_step) => `(tactic| with_reducible apply recvNextIncoming_ev)

theorem enqueueResetExpiration_ev (h : Evolves P N a s.store) (id : Nat) :
    Evolves P N a (s.enqueueResetExpiration id).store := by
  unfold Streams.enqueueResetExpiration; ev
macro_rules | `(tactic| ev_step) => `(tactic| with_reducible apply enqueueResetExpiration_ev)

theorem sendPendingRefusal_ev (h : Evolves P N a s.store) (w : Writer) : Evolves P N a (s.sendPendingRefusal w).1.store := by
  unfold Streams.sendPendingRefusal; ev
macro_rules | `(tactic| ev_step) => `(tactic| with_reducible apply sendPendingRefusal_ev)

theorem clearExpiredResetStreams_ev (fuel : Nat) (h : Evolves P N a s.store) :
    Evolves P N a (Streams.clearExpiredResetStreams fuel s).store := by
  induction fuel generalizing s with
  | zero => unfold Streams.clearExpiredResetStreams; exact h
  | succ n ih => unfold Streams.clearExpiredResetStreams; ev
macro_rules | `(tactic| ev_step) => `(tactic| with_reducible apply clearExpiredResetStreams_ev)

theorem clearStreamWindowUpdateQueue_ev (fuel : Nat) (h : Evolves P N a s.store) :
    Evolves P N a (Streams.clearStreamWindowUpdateQueue fuel s).store := by
  induction fuel generalizing s with
  | zero => unfold Streams.clearStreamWindowUpdateQueue; exact h
  | succ n ih => unfold Streams.clearStreamWindowUpdateQueue; ev
macro_rules | `(tactic| ev_step) => `(tactic| with_reducible apply clearStreamWindowUpdateQueue_ev)

theorem clearAllResetStreams_ev (fuel : Nat) (h : Evolves P N a s.store) :
    Evolves P N a (Streams.clearAllResetStreams fuel s).store := by
  induction fuel generalizing s with
  | zero => unfold Streams.clearAllResetStreams; exact h
  | succ n ih => unfold Streams.clearAllResetStreams; ev
macro_rules | `(tactic| ev_step) => `(tactic| with_reducible apply clearAllResetStreams_ev)

theorem clearAllPendingAccept_ev (fuel : Nat) (h : Evolves P N a s.store) :
    Evolves P N a (Streams.clearAllPendingAccept fuel s).store := by
  induction fuel generalizing s with
  | zero => unfold Streams.clearAllPendingAccept; exact h
  | succ n ih => unfold Streams.clearAllPendingAccept; ev
macro_rules | `(tactic| ev_step) => `(tactic| with_reducible apply clearAllPendingAccept_ev)

theorem recvClearQueues_ev (h : Evolves P N a s.store) (c : Bool) : Evolves P N a (s.recvClearQueues c).store := by
  unfold Streams.recvClearQueues; ev
macro_rules | `(tactic| ev_step) => `(tactic| with_reducible apply recvClearQueues_ev)

theorem sendConnectionWindowUpdate_ev (h : Evolves P N a s.store) (w : Writer) :
    Evolves P N a (s.sendConnectionWindowUpdate w).1.store := by
  unfold Streams.sendConnectionWindowUpdate; ev
macro_rules | `(tactic| ev_step) => `(tactic| with_reducible apply sendConnectionWindowUpdate_ev)

theorem sendStreamWindowUpdates_ev (fuel : Nat) (w : Writer) (h : Evolves P N a s.store) :
    Evolves P N a (Streams.sendStreamWindowUpdates fuel s w).1.store := by
  induction fuel generalizing s w with
  | zero => unfold Streams.sendStreamWindowUpdates; exact h
  | succ n ih => unfold Streams.sendStreamWindowUpdates; ev
macro_rules | `(tactic| ev_step) => `(tactic| with_reducible apply sendStreamWindowUpdates_ev)

theorem recvBufferPending_ev (h : Evolves P N a s.store) (w : Writer) : Evolves P N a (s.recvBufferPending w).1.store := by
  unfold Streams.recvBufferPending; ev
macro_rules | `(tactic| ev_step) => `(tactic| with_reducible apply recvBufferPending_ev)

theorem scheduleRecv_ev (h : Evolves P N a s.store) (id : Nat) (t : String) : Evolves P N a (s.scheduleRecv id t).1.store := by
  unfold Streams.scheduleRecv; ev
macro_rules | `(tactic| ev_step) => `(tactic| with_reducible apply scheduleRecv_ev)

theorem recvPollData_ev (h : Evolves P N a s.store) (id : Nat) (t : String) : Evolves P N a (s.recvPollData id t).1.store := by
  unfold Streams.recvPollData; ev
macro_rules | `(tactic| ev_step) => `(tactic| with_reducible apply recvPollData_ev)

theorem recvPollTrailers_ev (h : Evolves P N a s.store) (id : Nat) (t : String) :
    Evolves P N a (s.recvPollTrailers id t).1.store := by
  unfold Streams.recvPollTrailers; ev
macro_rules | `(tactic| ev_step) => `(tactic| with_reducible apply recvPollTrailers_ev)

theorem recvPollResponse_ev (fuel : Nat) (id : Nat) (t : String) (h : Evolves P N a s.store) :
    Evolves P N a (Streams.recvPollResponse fuel s id t).1.store := by
  induction fuel generalizing s with
  | zero => unfold Streams.recvPollResponse; exact h
  | succ n ih => unfold Streams.recvPollResponse; ev
macro_rules | `(tactic| ev_step) => `(tactic| with_reducible apply recvPollResponse_ev)

theorem recvPollInformational_ev (h : Evolves P N a s.store) (id : Nat) (t : String) :
    Evolves P N a (s.recvPollInformational id t).1.store := by
  unfold Streams.recvPollInformational
  rcases hp : (s.stream id).pendingRecv with _ | ⟨_ | _ | _ | _ | _, rest⟩ <;> dsimp only <;> ev
macro_rules | `(tactic| ev_step) => `(tactic| with_reducible apply recvPollInformational_ev)

theorem recvGoAway_ev (h : Evolves P N a s.store) (l : Nat) : Evolves P N a (s.recvGoAway l).store := by
  unfold Streams.recvGoAway; ev
macro_rules | `(tactic| ev_step) => `(tactic| with_reducible apply recvGoAway_ev)

theorem recvMaybeResetNextStreamId_ev (h : Evolves P N a s.store) (id : Nat) :
    Evolves P N a (s.recvMaybeResetNextStreamId id).store := by
  unfold Streams.recvMaybeResetNextStreamId; ev
macro_rules | `(tactic| ev_step) => `(tactic| with_reducible apply recvMaybeResetNextStreamId_ev)

theorem applyLocalSettings_ev (h : Evolves P N a s.store) (i e : Option Nat) :
    Evolves P N a (s.applyLocalSettings i e).1.store := by
  unfold Streams.applyLocalSettings; ev
macro_rules | `(tactic| ev_step) => `(tactic| with_reducible apply applyLocalSettings_ev)

-- ===================================================================== streams.rs (handle bookkeeping)

theorem refInc_ev {P : Stream → Stream → Prop} {N : Stream → Prop} [GoodRef P N] {a : Store} {s : Streams}
    (h : Evolves P N a s.store) (id : Nat) : Evolves P N a (s.refInc id).store := by
  unfold Streams.refInc
  simp only [crp_store]
  exact h.mod _ _ (fun st _ => GoodRef.refInc st)
macro_rules | `(tactic| ev_step) => `(tactic| with_reducible apply refInc_ev)

theorem cloneStreamRef_ev {P : Stream → Stream → Prop} {N : Stream → Prop} [GoodRef P N] {a : Store} {s : Streams}
    (h : Evolves P N a s.store) (id : Nat) : Evolves P N a (s.cloneStreamRef id).store := by
  unfold Streams.cloneStreamRef; ev
macro_rules | `(tactic| ev_step) => `(tactic| with_reducible apply cloneStreamRef_ev)

theorem cloneHandle_ev (h : Evolves P N a s.store) : Evolves P N a s.cloneHandle.store := by
  unfold Streams.cloneHandle; ev
macro_rules | `(tactic| ev_step) => `(tactic| with_reducible apply cloneHandle_ev)

theorem dropHandle_ev (h : Evolves P N a s.store) : Evolves P N a s.dropHandle.store := by
  unfold Streams.dropHandle; ev
macro_rules | `(tactic| ev_step) => `(tactic| with_reducible apply dropHandle_ev)

theorem pollPendingOpen_ev (h : Evolves P N a s.store) (p : Option Nat) (t : String) :
    Evolves P N a (s.pollPendingOpen p t).1.store := by
  unfold Streams.pollPendingOpen Stream.waitOpen; ev
macro_rules | `(tactic| ev_step) => `(tactic| with_reducible apply pollPendingOpen_ev)

theorem nextIncoming_ev {P : Stream → Stream → Prop} {N : Stream → Prop} [GoodRef P N] {a : Store} {s : Streams}
    (h : Evolves P N a s.store) : Evolves P N a s.nextIncoming.1.store := by
  unfold Streams.nextIncoming; ev
macro_rules | `(tactic| ev_step) => `(tactic| with_reducible apply nextIncoming_ev)

theorem refReserveCapacity_ev (h : Evolves P N a s.store) (id c : Nat) : Evolves P N a (s.refReserveCapacity id c).store := by
  unfold Streams.refReserveCapacity; ev
macro_rules | `(tactic| ev_step) => `(tactic| with_reducible apply refReserveCapacity_ev)

theorem refPollData_ev (h : Evolves P N a s.store) (id : Nat) (t : String) : Evolves P N a (s.refPollData id t).1.store := by
  unfold Streams.refPollData; ev
macro_rules | `(tactic| ev_step) => `(tactic| with_reducible apply refPollData_ev)

theorem refReleaseCapacity_ev (h : Evolves P N a s.store) (id c : Nat) : Evolves P N a (s.refReleaseCapacity id c).1.store := by
  unfold Streams.refReleaseCapacity; ev
macro_rules | `(tactic| ev_step) => `(tactic| with_reducible apply refReleaseCapacity_ev)

theorem refClearRecvBuffer_ev (h : Evolves P N a s.store) (id : Nat) : Evolves P N a (s.refClearRecvBuffer id).store := by
  unfold Streams.refClearRecvBuffer; ev
macro_rules | `(tactic| ev_step) => `(tactic| with_reducible apply refClearRecvBuffer_ev)

theorem pollSendPendingRefusal_ev (fuel : Nat) (w : Writer) (io : Tio) (t : String) (h : Evolves P N a s.store) :
    Evolves P N a (Streams.pollSendPendingRefusal fuel s w io t).1.store := by
  induction fuel generalizing s w io with
  | zero => unfold Streams.pollSendPendingRefusal; exact h
  | succ n ih => unfold Streams.pollSendPendingRefusal; ev
macro_rules | `(tactic| ev_step) => `(tactic| with_reducible apply pollSendPendingRefusal_ev)

theorem applyLocalSettingsFrame_ev (h : Evolves P N a s.store) (v : List (Nat × Nat)) :
    Evolves P N a (s.applyLocalSettingsFrame v).1.store := by
  unfold Streams.applyLocalSettingsFrame; ev
macro_rules | `(tactic| ev_step) => `(tactic| with_reducible apply applyLocalSettingsFrame_ev)

end
end H2V.Lemmas.ConnResetP
