import H2V.Lemmas.ConnNoPanicPHist
/-
  C08 (no panic) — `transition_after` keeps every projection of the entries that does not look at `is_counted`
  (generic version of `transitionAfter_shape`).
-/
namespace H2V.Lemmas.ConnNoPanicP
open H2V H2V.Model H2V.Model.Conn H2V.Lemmas.ConnCountsP

/-- `Fr` together with the frame of one more projection -/
structure FrP {α : Type} (P : Stream → α) (s m : Streams) : Prop where
  fr : Fr s m
  p : SPr P s m

theorem FrP.refl {α : Type} (P : Stream → α) (s : Streams) : FrP P s s := ⟨Fr.refl s, SPr.refl _ _⟩
theorem FrP.trans {α : Type} {P : Stream → α} {a b c : Streams} (h1 : FrP P a b) (h2 : FrP P b c) : FrP P a c :=
  ⟨h1.fr.trans h2.fr, h1.p.trans h2.p⟩
theorem FrP.of_store {α : Type} {P : Stream → α} {s m : Streams} (h : m.store = s.store) : FrP P s m :=
  ⟨Fr.of_store h, SPr.of_store h⟩
theorem FrP.of_slab {α : Type} {P : Stream → α} {s m : Streams} (h : m.store.slab = s.store.slab)
    (hn : m.store.nextKey = s.store.nextKey) : FrP P s m :=
  ⟨Fr.of_slab h hn, fun j => by
    have : m.stream j = s.stream j := by unfold Streams.stream Store.get?; rw [h]
    rw [this]⟩
theorem FrP.decNumStreams {α : Type} {P : Stream → α} (hP : ∀ x b, P ({ x with isCounted := b } : Stream) = P x)
    (s : Streams) (k : Nat) : FrP P s (s.decNumStreams k) :=
  ⟨Fr.decNumStreams s k, decNumStreams_spr s k hP⟩

/-- **what `transition_after` does to the store**: up to a frame step `m` (counters, `is_counted`) the id
    map loses the stream's id exactly when the stream is closed and not remembered for reset expiration,
    and the slab loses exactly entry `k`, and only in that case -/
theorem transitionAfter_shapeP {α : Type} (P : Stream → α) (hP : ∀ x b, P ({ x with isCounted := b } : Stream) = P x)
    (s : Streams) (k : Nat) (b : Bool) :
    ∃ m : Streams, FrP P s m ∧
      (m.store.ids = if ((s.stream k).isClosed && !(s.stream k).resetAt) = true
                     then Store.swapRemove s.store.ids (s.stream k).id else s.store.ids) ∧
      ((s.transitionAfter k b).store = m.store ∨
       ((s.stream k).isClosed = true ∧ (s.stream k).resetAt = false ∧ (s.transitionAfter k b).store = m.store.remove k)) := by
  rw [transitionAfter_split]
  generalize hs1 : (if (b && !(s.stream k).isPendingResetExpiration) = true then
      s.modCountsA "self.num_local_reset_streams > 0" Counts.decNumResetStreams else s) = s1
  have h1 : s1.store = s.store := by rw [← hs1]; split; exact modCountsA_store' _ _ _; rfl
  have hst : s1.stream k = s.stream k := by unfold Streams.stream; rw [h1]
  unfold Streams.transitionAfter
  simp only [Bool.false_and, Bool.false_eq_true, if_false]
  rw [hst]
  generalize hs2 : (if (s.stream k).isClosed = true then _ else s1) = s2
  have h2 : FrP P s s2 ∧ s2.store.ids = (if ((s.stream k).isClosed && !(s.stream k).resetAt) = true
      then Store.swapRemove s.store.ids (s.stream k).id else s.store.ids) := by
    rw [← hs2]
    split
    · next hc =>
      generalize hs3 : (if (!(s.stream k).isPendingResetExpiration) = true then
          ({ s1 with store := s1.store.unlink (s.stream k).id } : Streams) else s1) = s3
      have h3 : FrP P s s3 ∧ s3.store.ids = (if ((s.stream k).isClosed && !(s.stream k).resetAt) = true
          then Store.swapRemove s.store.ids (s.stream k).id else s.store.ids) := by
        rw [← hs3]
        cases hr : (s.stream k).resetAt
        · simp only [Stream.isPendingResetExpiration, hr, hc, Bool.not_false, Bool.and_self, if_true]
          exact ⟨FrP.of_slab (by show s1.store.slab = _; rw [h1]) (by show s1.store.nextKey = _; rw [h1]),
            by show Store.swapRemove s1.store.ids _ = _; rw [h1]⟩
        · simp only [Stream.isPendingResetExpiration, hr, hc, Bool.not_true, Bool.and_false, Bool.false_eq_true, if_false]
          exact ⟨FrP.of_store h1, by rw [h1]⟩
      split
      · exact ⟨h3.1.trans (FrP.decNumStreams hP _ _), by rw [ConnWakeP.decNumStreams_ids]; exact h3.2⟩
      · exact h3
    · next hc =>
      simp only [hc, Bool.false_and, Bool.false_eq_true, if_false]
      exact ⟨FrP.of_store h1, by rw [h1]⟩
  by_cases hrel : (s2.stream k).isReleased = true
  · simp only [hrel, if_true]
    have hcl : (s.stream k).isClosed = true ∧ (s.stream k).resetAt = false := by
      have hc2 : (s2.stream k).isClosed = true ∧ (s2.stream k).resetAt = false := by
        unfold Stream.isReleased at hrel
        simp only [Bool.and_eq_true, Bool.not_eq_true', beq_iff_eq] at hrel
        exact ⟨hrel.1.1.1.1.1.1.1, hrel.2⟩
      rw [isClosed_of_core (h2.1.fr.core k), resetAt_of_core (h2.1.fr.core k)] at hc2
      exact hc2
    refine ⟨if (s2.stream k).isCounted = true then s2.decNumStreams k else s2, ?_, ?_, Or.inr ⟨hcl.1, hcl.2, rfl⟩⟩
    · split
      · exact h2.1.trans (FrP.decNumStreams hP _ _)
      · exact h2.1
    · split
      · rw [ConnWakeP.decNumStreams_ids]; exact h2.2
      · exact h2.2
  · simp only [hrel, Bool.false_eq_true, if_false]
    exact ⟨s2, h2.1, h2.2, Or.inl rfl⟩


end H2V.Lemmas.ConnNoPanicP
