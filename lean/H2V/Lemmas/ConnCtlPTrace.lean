import H2V.Model.ConnProto
/-
  ConnCtlP, part 1 — ghost instrumentation of the connection loop.

  The model (`H2V/Model/ConnProto.lean`) is frozen and keeps no history.  To state "exactly one
  acknowledgement per SETTINGS / PING, in arrival order" and "the last-stream-id of successive
  GOAWAYs" over whole runs, the functions of `Connection::poll` are copied here with ONE addition:
  a list of ghost events (`Ev`) emitted at the very call that hands a frame to the codec
  (`bufferSettings true []`, `bufferSimple 8 "P:0:1:…"`, the GOAWAY `bufferSimple`) and at the very
  call that takes a frame from the peer (`recvSettings`, `recvFrame`).  The erasure theorems
  (`…T_fst`) prove that the copies compute exactly the model's values, so every statement about the
  events of a `…T` run is a statement about the corresponding run of the model.
-/
set_option autoImplicit false
namespace H2V.Lemmas.ConnCtlP
open H2V H2V.Model H2V.Model.Conn

/-- ghost events of one `Connection::poll` -/
inductive Ev where
  /-- a non-ACK SETTINGS frame was handed to `Settings::recv_settings` -/
  | rxSettings (vals : List (Nat × Nat))
  /-- a SETTINGS ACK was handed to the codec; `vals` (the frame it answers) is applied right after;
      `applied = false`: `apply_remote_settings` failed (connection error) -/
  | ackSettings (vals : List (Nat × Nat)) (applied : Bool)
  /-- a SETTINGS ACK of the peer was handed to `Settings::recv_settings` -/
  | rxSettingsAck
  /-- the local SETTINGS frame was handed to the codec -/
  | txSettings (vals : List (Nat × Nat))
  /-- a non-ACK PING was handed to `PingPong::recv_ping` -/
  | rxPing (payload : Bytes)
  /-- a PING ACK with this payload was handed to the codec -/
  | pong (payload : Bytes)
  /-- the pending pong was dropped because the transport answered an I/O error -/
  | pongLost (payload : Bytes)
  /-- a GOAWAY frame was handed to the codec -/
  | goAwaySent (f : GoAwayFrame)
  /-- the pending GOAWAY was dropped because the transport answered an I/O error -/
  | goAwayLost (f : GoAwayFrame)
  /-- any other frame (or end of input) was handed to `recv_frame` -/
  | rxOther
  deriving Repr, DecidableEq

/-- `send_pending_go_away` + events -/
def sendPendingGoAwayT (c : Conn) : (Conn × Conn.GoAwayPoll) × List Ev :=
  match c.goAway.pending with
  | some frame =>
    match c.codecPollReady with
    | (c, .pending) => ((c, .pending), [])
    | (c, .err e) => (({ c with goAway := { c.goAway with pending := none } }, .err e), [.goAwayLost frame])
    | (c, .ok) =>
      let c := { c with goAway := { c.goAway with pending := none } }
      let c := c.bufferSimple (8 + frame.debugData.length)
        s!"G:0:{frame.lastStreamId}:{frame.reason}:{Hex.render frame.debugData}"
      ((c, .reason frame.reason), [.goAwaySent frame])
  | none =>
    if c.goAway.shouldCloseNow then
      match c.goAway.goingAway with
      | some ga => ((c, .reason ga.reason), [])
      | none => ((c, .none), [])
    else ((c, .none), [])

theorem sendPendingGoAwayT_fst (c : Conn) : (sendPendingGoAwayT c).1 = c.sendPendingGoAway := by
  unfold sendPendingGoAwayT Conn.sendPendingGoAway
  repeat' split
  all_goals simp_all

/-- `send_pending_pong` + events -/
def sendPendingPongT (c : Conn) : (Conn × Step) × List Ev :=
  match c.pingPong.pendingPong with
  | some pong =>
    match c.codecPollReady with
    | (c, .pending) => ((c, .pending), [])
    | (c, .err e) => (({ c with pingPong := { c.pingPong with pendingPong := none } }, .err e), [.pongLost pong])
    | (c, .ok) =>
      let c := { c with pingPong := { c.pingPong with pendingPong := none } }
      ((c.bufferSimple 8 s!"P:0:1:{Hex.ofBytes pong}", .ok), [.pong pong])
  | none => ((c, .ok), [])

theorem sendPendingPongT_fst (c : Conn) : (sendPendingPongT c).1 = c.sendPendingPong := by
  unfold sendPendingPongT Conn.sendPendingPong
  repeat' split
  all_goals simp_all

/-- `Settings::poll_send` once `dst.poll_ready` answered `Ready`: buffer the ACK, then apply the
    values of the frame it answers (a copy of that branch of the model) -/
def ackAndApply (c : Conn) (settings : List (Nat × Nat)) : Conn × Step :=
  let c := c.bufferSettings true []
  let isInitial := !c.settings.hasReceivedRemoteInitialSettings
  let c := { c with settings := { c.settings with hasReceivedRemoteInitialSettings := true } }
  match c.streams.applyRemoteSettings settings isInitial with
  | (s, .error e) => ({ c with streams := s }, .err e)
  | (s, .ok _) =>
    let c := { c with streams := s }
    let get := fun (id : Nat) => (settings.find? (·.1 = id)).map (·.2)
    let w := c.codec.w
    let w := match get 1 with | some v => { w with hpack := w.hpack.updateMaxSize v } | none => w
    let w := match get 5 with | some v => { w with maxFrameSize := v } | none => w
    ({ c with codec := { c.codec with w := w } }, .ok)

/-- first half of `Settings::poll_send` (the `if let Some(settings) = self.remote.clone()` block):
    a copy of the model's `first` -/
def settingsRemotePart (c : Conn) : Conn × Step :=
  match c.settings.remote with
  | some settings =>
    match c.codecPollReady with
    | (c, .pending) => (c, .pending)
    | (c, .err e) => (c, .err e)
    | (c, .ok) => ackAndApply c settings
  | none => (c, .ok)

/-- the `Local::ToSend` block of `Settings::poll_send` -/
def settingsLocalSend (c : Conn) : Conn × Step :=
  match c.settings.loc with
  | .toSend settings =>
    match c.codecPollReady with
    | (c, .ok) =>
      let c := c.bufferSettings false settings
      ({ c with settings := { c.settings with loc := .waitingAck settings } }, .ok)
    | r => r
  | _ => (c, .ok)

/-- second half of `Settings::poll_send` (`self.remote = None`, then the `Local::ToSend` block) -/
def settingsLocalPart (c : Conn) : Conn × Step :=
  settingsLocalSend { c with settings := { c.settings with remote := none } }

/-- the model's `settingsPollSend` is literally the two halves in sequence -/
theorem settingsPollSend_eq (c : Conn) :
    c.settingsPollSend = match settingsRemotePart c with
      | (c, .ok) => settingsLocalPart c
      | r => r := rfl

def stepOk : Step → Bool
  | .ok => true
  | _ => false

/-- first half + events: the ACK event sits at the call of `ackAndApply`, whose first action is
    `bufferSettings true []` -/
def settingsRemotePartT (c : Conn) : (Conn × Step) × List Ev :=
  match c.settings.remote with
  | some settings =>
    match c.codecPollReady with
    | (c, .pending) => ((c, .pending), [])
    | (c, .err e) => ((c, .err e), [])
    | (c, .ok) => (ackAndApply c settings, [.ackSettings settings (stepOk (ackAndApply c settings).2)])
  | none => ((c, .ok), [])

theorem settingsRemotePartT_fst (c : Conn) : (settingsRemotePartT c).1 = settingsRemotePart c := by
  unfold settingsRemotePartT settingsRemotePart
  repeat' split
  all_goals simp_all

/-- the `Local::ToSend` block + events -/
def settingsLocalSendT (c : Conn) : (Conn × Step) × List Ev :=
  match c.settings.loc with
  | .toSend settings =>
    match c.codecPollReady with
    | (c, .ok) =>
      let c := c.bufferSettings false settings
      (({ c with settings := { c.settings with loc := .waitingAck settings } }, .ok), [.txSettings settings])
    | r => (r, [])
  | _ => ((c, .ok), [])

theorem settingsLocalSendT_fst (c : Conn) : (settingsLocalSendT c).1 = settingsLocalSend c := by
  unfold settingsLocalSendT settingsLocalSend
  cases h : c.settings.loc with
  | toSend vals =>
    simp only []
    rcases h2 : c.codecPollReady with ⟨c1, st⟩
    cases st <;> rfl
  | waitingAck _ => rfl
  | synced => rfl

/-- second half + events -/
def settingsLocalPartT (c : Conn) : (Conn × Step) × List Ev :=
  settingsLocalSendT { c with settings := { c.settings with remote := none } }

theorem settingsLocalPartT_fst (c : Conn) : (settingsLocalPartT c).1 = settingsLocalPart c :=
  settingsLocalSendT_fst _

/-- `Settings::poll_send` + events -/
def settingsPollSendT (c : Conn) : (Conn × Step) × List Ev :=
  match settingsRemotePartT c with
  | ((c, .ok), e1) => let (r, e2) := settingsLocalPartT c; (r, e1 ++ e2)
  | r => r

theorem settingsPollSendT_fst (c : Conn) : (settingsPollSendT c).1 = c.settingsPollSend := by
  rw [settingsPollSend_eq, ← settingsRemotePartT_fst]
  unfold settingsPollSendT
  rcases h : settingsRemotePartT c with ⟨⟨c1, st⟩, e1⟩
  cases st <;> simp [← settingsLocalPartT_fst]

/-- `Connection::poll_ready` + events -/
def pollReadyT (c : Conn) : (Conn × Step) × List Ev :=
  match sendPendingPongT c with
  | ((c, .ok), e1) =>
    match c.sendPendingPing with
    | (c, .ok) =>
      match settingsPollSendT c with
      | ((c, .ok), e2) =>
        let (s, w, io, r) := Streams.pollSendPendingRefusal 4 c.streams c.codec.w c.codec.io c.cx
        let c := { c with streams := s, codec := { c.codec with w := w, io := io } }
        ((c, match r with | .ready => .ok | .pending => .pending | .err k => .err (.io k none)), e1 ++ e2)
      | (r, e2) => (r, e1 ++ e2)
    | r => (r, e1)
  | r => r

theorem pollReadyT_fst (c : Conn) : (pollReadyT c).1 = c.pollReady := by
  unfold pollReadyT Conn.pollReady
  rw [← sendPendingPongT_fst]
  rcases h1 : sendPendingPongT c with ⟨⟨c1, st1⟩, e1⟩
  cases st1 <;> try rfl
  simp only []
  rcases h2 : c1.sendPendingPing with ⟨c2, st2⟩
  cases st2 <;> try rfl
  simp only []
  rw [← settingsPollSendT_fst]
  rcases h3 : settingsPollSendT c2 with ⟨⟨c3, st3⟩, e2⟩
  cases st3 <;> rfl

/-- the events of taking one frame from the peer (`recv_frame` / `recv_settings`) -/
def frameEv : Option Frame.Frame → List Ev
  | some (.settings false vals) => [.rxSettings vals]
  | some (.settings true _) => [.rxSettingsAck]
  | some (.ping false payload) => [.rxPing payload]
  | _ => [.rxOther]

/-- `recv_frame` and the dispatch on its answer; `k` is the next turn of the loop (a copy of the
    model's code) -/
def poll2Dispatch (k : Conn → Conn × PollRes) (c : Conn) (frame : Option Frame.Frame) : Conn × PollRes :=
  match c.recvFrame frame with
  | (c, .error e) => (c, .ready (.error e))
  | (c, .ok .continue) => k c
  | (c, .ok .done) => (c, .ready (.ok ()))
  | (c, .ok (.settings ack vals)) =>
    match c.recvSettings ack vals with
    | (c, .error e) => (c, .ready (.error e))
    | (c, .ok _) => k c

/-- the part of the `loop` of `poll2` after `poll_ready` answered `Ready`: read one frame and
    dispatch it -/
def poll2Read (k : Conn → Conn × PollRes) (c : Conn) : Conn × PollRes :=
  let (codec, polled) := pollNext (c.codec.r.buf.length + c.codec.io.rd.length + 2) c.codec c.cx
  let c := { c with codec := codec }
  match polled with
  | .pending => (c, .pending)
  | .err e => (c, .ready (.error (Conn.rerrToPErr e)))
  | .ioErr kind msg => (c, .ready (.error (.io kind msg)))
  | other => poll2Dispatch k c (match other with | .frame f => some f | _ => none)

/-- `goOn` of the model's `poll2Loop` -/
def poll2GoOn (k : Conn → Conn × PollRes) (c : Conn) : Conn × PollRes :=
  match c.pollReady with
  | (c, .pending) => (c, PollRes.pending)
  | (c, .err e) => (c, .ready (.error e))
  | (c, .ok) => poll2Read k c

/-- one turn of the model's `poll2Loop`, literally -/
theorem poll2Loop_succ (fuel : Nat) (c : Conn) :
    Conn.poll2Loop (fuel + 1) c =
      match c.sendPendingGoAway with
      | (c, .pending) => (c, .pending)
      | (c, .err e) => (c, .ready (.error e))
      | (c, .reason reason) =>
        if c.goAway.shouldCloseNow then
          if c.goAway.isUserInitiated then (c, .ready (.ok ()))
          else (c, .ready (.error (PErr.libraryGoAway reason)))
        else poll2GoOn (Conn.poll2Loop fuel) c
      | (c, .none) => poll2GoOn (Conn.poll2Loop fuel) c := rfl

/-- `poll2Dispatch` + events: the event of the frame is emitted where `recvFrame` is called -/
def poll2DispatchT (k : Conn → (Conn × PollRes) × List Ev) (c : Conn) (frame : Option Frame.Frame) :
    (Conn × PollRes) × List Ev :=
  match c.recvFrame frame with
  | (c, .error e) => ((c, .ready (.error e)), frameEv frame)
  | (c, .ok .continue) => let (r, e2) := k c; (r, frameEv frame ++ e2)
  | (c, .ok .done) => ((c, .ready (.ok ())), frameEv frame)
  | (c, .ok (.settings ack vals)) =>
    match c.recvSettings ack vals with
    | (c, .error e) => ((c, .ready (.error e)), frameEv frame)
    | (c, .ok _) => let (r, e2) := k c; (r, frameEv frame ++ e2)

theorem poll2DispatchT_fst (k : Conn → Conn × PollRes) (kT : Conn → (Conn × PollRes) × List Ev)
    (hk : ∀ c, (kT c).1 = k c) (c : Conn) (frame : Option Frame.Frame) :
    (poll2DispatchT kT c frame).1 = poll2Dispatch k c frame := by
  unfold poll2DispatchT poll2Dispatch
  split <;> try rfl
  · simp [← hk]
  · split <;> try rfl
    simp [← hk]

/-- `poll2Read` + events -/
def poll2ReadT (k : Conn → (Conn × PollRes) × List Ev) (c : Conn) : (Conn × PollRes) × List Ev :=
  let (codec, polled) := pollNext (c.codec.r.buf.length + c.codec.io.rd.length + 2) c.codec c.cx
  let c := { c with codec := codec }
  match polled with
  | .pending => ((c, .pending), [])
  | .err e => ((c, .ready (.error (Conn.rerrToPErr e))), [])
  | .ioErr kind msg => ((c, .ready (.error (.io kind msg))), [])
  | other => poll2DispatchT k c (match other with | .frame f => some f | _ => none)

theorem poll2ReadT_fst (k : Conn → Conn × PollRes) (kT : Conn → (Conn × PollRes) × List Ev)
    (hk : ∀ c, (kT c).1 = k c) (c : Conn) : (poll2ReadT kT c).1 = poll2Read k c := by
  unfold poll2ReadT poll2Read
  rcases h1 : pollNext (c.codec.r.buf.length + c.codec.io.rd.length + 2) c.codec c.cx with ⟨codec, polled⟩
  dsimp only
  split <;> try rfl
  exact poll2DispatchT_fst k kT hk _ _

/-- `goOn` + events -/
def poll2GoOnT (k : Conn → (Conn × PollRes) × List Ev) (c : Conn) : (Conn × PollRes) × List Ev :=
  match pollReadyT c with
  | ((c, .pending), e1) => ((c, PollRes.pending), e1)
  | ((c, .err e), e1) => ((c, .ready (.error e)), e1)
  | ((c, .ok), e1) => let (r, e2) := poll2ReadT k c; (r, e1 ++ e2)

theorem poll2GoOnT_fst (k : Conn → Conn × PollRes) (kT : Conn → (Conn × PollRes) × List Ev)
    (hk : ∀ c, (kT c).1 = k c) (c : Conn) : (poll2GoOnT kT c).1 = poll2GoOn k c := by
  unfold poll2GoOnT poll2GoOn
  rw [← pollReadyT_fst]
  rcases h1 : pollReadyT c with ⟨⟨c1, st1⟩, e1⟩
  cases st1 <;> try rfl
  simp [poll2ReadT_fst k kT hk]

/-- the `loop` of `Connection::poll2` + events -/
def poll2LoopT : Nat → Conn → (Conn × PollRes) × List Ev
  | 0, c => ((c.panic "model: poll2 out of fuel", .pending), [])
  | fuel + 1, c =>
    match sendPendingGoAwayT c with
    | ((c, .pending), e0) => ((c, .pending), e0)
    | ((c, .err e), e0) => ((c, .ready (.error e)), e0)
    | ((c, .reason reason), e0) =>
      if c.goAway.shouldCloseNow then
        if c.goAway.isUserInitiated then ((c, .ready (.ok ())), e0)
        else ((c, .ready (.error (PErr.libraryGoAway reason))), e0)
      else let (r, e1) := poll2GoOnT (poll2LoopT fuel) c; (r, e0 ++ e1)
    | ((c, .none), e0) => let (r, e1) := poll2GoOnT (poll2LoopT fuel) c; (r, e0 ++ e1)

theorem poll2LoopT_fst : ∀ (fuel : Nat) (c : Conn), (poll2LoopT fuel c).1 = Conn.poll2Loop fuel c
  | 0, c => rfl
  | fuel + 1, c => by
    rw [poll2Loop_succ, ← sendPendingGoAwayT_fst]
    unfold poll2LoopT
    rcases h1 : sendPendingGoAwayT c with ⟨⟨c1, st1⟩, e0⟩
    cases st1 <;> try rfl
    · exact poll2GoOnT_fst _ _ (poll2LoopT_fst fuel) c1
    · dsimp only
      split
      · split <;> rfl
      · exact poll2GoOnT_fst _ _ (poll2LoopT_fst fuel) c1

/-- `Connection::poll2` + events -/
def poll2T (fuel : Nat) (c : Conn) : (Conn × PollRes) × List Ev :=
  let c := { c with streams := Streams.clearExpiredResetStreams (c.streams.recv.pendingResetExpired.length + 1) c.streams }
  poll2LoopT fuel c

theorem poll2T_fst (fuel : Nat) (c : Conn) : (poll2T fuel c).1 = Conn.poll2 fuel c :=
  poll2LoopT_fst fuel _

/-- `proto::Connection::poll` + events -/
def protoPollT : Nat → Conn → (Conn × PollRes) × List Ev
  | 0, c => ((c.panic "model: poll out of fuel", .pending), [])
  | fuel + 1, c =>
    match c.state with
    | .open =>
      match poll2T (fuel + 1) c with
      | ((c, .ready result), e0) =>
        match c.handlePoll2Result result with
        | (c, .ok _) => let (r, e1) := protoPollT fuel c; (r, e0 ++ e1)
        | (c, .error e) => ((c, .ready (.error e)), e0)
      | ((c, .pending), e0) =>
        let (s, w, io, r) := Streams.pollComplete (fuel + 1) c.streams c.codec.w c.codec.io c.cx
        let c := { c with streams := s, codec := { c.codec with w := w, io := io } }
        match r with
        | .pending => ((c, .pending), e0)
        | .err k => ((c, .ready (.error (.io k none))), e0)
        | .ready =>
        if (c.error.isSome || c.goAway.shouldCloseOnIdle) && !c.streams.counts.hasStreams then
          let (r, e1) := protoPollT fuel (c.goAwayNow NO_ERROR); (r, e0 ++ e1)
        else ((c, .pending), e0)
    | .closing reason init =>
      let (w, io, r) := shutdownW c.codec.w c.codec.io c.cx
      let c := { c with codec := { c.codec with w := w, io := io } }
      match r with
      | .pending => ((c, .pending), [])
      | .err k => ((c, .ready (.error (.io k none))), [])
      | .ready => protoPollT fuel { c with state := .closed reason init }
    | .closed reason init =>
      let (c, r) := c.takeError reason init
      ((c, .ready r), [])

theorem protoPollT_fst : ∀ (fuel : Nat) (c : Conn), (protoPollT fuel c).1 = Conn.protoPoll fuel c
  | 0, c => rfl
  | fuel + 1, c => by
    unfold protoPollT Conn.protoPoll
    cases hs : c.state with
    | «open» =>
      simp only []
      rw [← poll2T_fst]
      rcases h1 : poll2T (fuel + 1) c with ⟨⟨c1, r1⟩, e0⟩
      cases r1 with
      | ready result =>
        simp only []
        rcases h2 : c1.handlePoll2Result result with ⟨c2, r2⟩
        cases r2 <;> simp [protoPollT_fst fuel]
      | pending =>
        simp only []
        rcases h2 : Streams.pollComplete (fuel + 1) c1.streams c1.codec.w c1.codec.io c1.cx with ⟨s, w, io, r⟩
        cases r <;> try rfl
        simp only []
        split <;> simp [protoPollT_fst fuel]
    | closing reason init =>
      simp only []
      rcases h2 : shutdownW c.codec.w c.codec.io c.cx with ⟨w, io, r⟩
      cases r <;> try rfl
      simp [protoPollT_fst fuel]
    | closed reason init => rfl

/-- `impl Future for client::Connection` + events -/
def clientPollT (fuel : Nat) (c : Conn) : (Conn × PollRes) × List Ev :=
  let c := if !c.hasStreamsOrOtherReferences then c.goAwayNow NO_ERROR else c
  let had := c.hasStreamsOrOtherReferences
  let ((c, r), evs) := protoPollT fuel c
  let pending := match r with | .pending => true | _ => false
  let c := if pending && had && !c.hasStreamsOrOtherReferences then
      { c with streams := c.streams.wake [c.cx] }
    else c
  ((c, r), evs)

theorem clientPollT_fst (fuel : Nat) (c : Conn) : (clientPollT fuel c).1 = Conn.clientPoll fuel c := by
  unfold clientPollT Conn.clientPoll
  simp only [← protoPollT_fst]
  rfl

theorem clientPollT_snd (fuel : Nat) (c : Conn) :
    (clientPollT fuel c).2 =
      (protoPollT fuel (if !c.hasStreamsOrOtherReferences then c.goAwayNow NO_ERROR else c)).2 := rfl

end H2V.Lemmas.ConnCtlP
