import H2V.Lemmas.ConnNoPanicPDsGk
/-
  C08 (no panic) — `DSum` / `Coupled` as invariants, part 3: `UK` for prioritize.rs / send.rs / recv.rs
  (every function that neither calls `clear_queue` nor `queue_open` nor queues DATA).
-/
namespace H2V.Lemmas.ConnNoPanicP
open H2V H2V.Model H2V.Model.Conn H2V.Lemmas.ConnCountsP
attribute [local irreducible] wrapSubU32 wrapSubUsize

-- ===================================================================== prioritize.rs

theorem scheduleSend_uk (s : Streams) (k : Nat) : UK s (s.scheduleSend k) := by
  unfold Streams.scheduleSend; uk_auto
theorem queueFrame_uk (s : Streams) (k : Nat) (f : SFrame) (hf : f.isData = false) : UK s (s.queueFrame k f) := by
  unfold Streams.queueFrame
  refine UK.trans (modStream_uk _ _ _ ?_) (scheduleSend_uk _ _)
  intro x; exact ⟨rfl, pushBack_kp x f hf⟩
theorem tryAssignCapacity_uk (s : Streams) (k : Nat) : UK s (s.tryAssignCapacity k) := by
  unfold Streams.tryAssignCapacity; uk_auto
theorem assignConnectionCapacityLoop_uk (n : Nat) (s : Streams) : UK s (Streams.assignConnectionCapacityLoop n s) := by
  induction n generalizing s with
  | zero => unfold Streams.assignConnectionCapacityLoop; exact .refl _
  | succ n ih => unfold Streams.assignConnectionCapacityLoop; uk_auto_ih ih
theorem assignConnectionCapacity_uk (s : Streams) (inc : Nat) : UK s (s.assignConnectionCapacity inc) := by
  unfold Streams.assignConnectionCapacity; uk_auto
theorem reserveCapacity_uk (s : Streams) (k cap : Nat) : UK s (s.reserveCapacity k cap) := by
  unfold Streams.reserveCapacity; uk_auto
theorem prioRecvStreamWindowUpdate_uk (s : Streams) (k inc : Nat) : UK s (s.prioRecvStreamWindowUpdate k inc).1 := by
  unfold Streams.prioRecvStreamWindowUpdate; uk_auto
theorem recvConnectionWindowUpdate_uk (s : Streams) (inc : Nat) : UK s (s.recvConnectionWindowUpdate inc).1 := by
  unfold Streams.recvConnectionWindowUpdate; uk_auto
theorem reclaimAllCapacity_uk (s : Streams) (k : Nat) : UK s (s.reclaimAllCapacity k) := by
  unfold Streams.reclaimAllCapacity; uk_auto
theorem reclaimReservedCapacity_uk (s : Streams) (k : Nat) : UK s (s.reclaimReservedCapacity k) := by
  unfold Streams.reclaimReservedCapacity; uk_auto
theorem clearPendingCapacity_uk (n : Nat) (s : Streams) : UK s (Streams.clearPendingCapacity n s) := by
  induction n generalizing s with
  | zero => unfold Streams.clearPendingCapacity; exact .refl _
  | succ n ih => unfold Streams.clearPendingCapacity; uk_auto_ih ih
theorem clearPendingSend_uk (n : Nat) (s : Streams) : UK s (Streams.clearPendingSend n s) := by
  induction n generalizing s with
  | zero => unfold Streams.clearPendingSend; exact .refl _
  | succ n ih => unfold Streams.clearPendingSend; uk_auto_ih ih
theorem clearPendingOpen_uk (n : Nat) (s : Streams) : UK s (Streams.clearPendingOpen n s) := by
  induction n generalizing s with
  | zero => unfold Streams.clearPendingOpen; exact .refl _
  | succ n ih => unfold Streams.clearPendingOpen; uk_auto_ih ih

-- ===================================================================== send.rs

theorem sendOpenId_uk (s : Streams) : UK s s.sendOpenId.1 := by
  unfold Streams.sendOpenId; uk_auto
theorem sendReserveLocal_uk (s : Streams) : UK s s.sendReserveLocal.1 := by
  unfold Streams.sendReserveLocal; exact sendOpenId_uk s
theorem sendPushPromise_uk (s : Streams) (p pk pid : Nat) (f : List Hpack.Field) : UK s (s.sendPushPromise p pk pid f).1 := by
  unfold Streams.sendPushPromise; uk_auto
theorem sendInterimInformationalHeaders_uk (s : Streams) (k : Nat) (f : List Hpack.Field) :
    UK s (s.sendInterimInformationalHeaders k f).1 := by
  unfold Streams.sendInterimInformationalHeaders; uk_auto
theorem scheduleImplicitReset_uk (s : Streams) (k : Nat) (r : Reason) : UK s (s.scheduleImplicitReset k r) := by
  unfold Streams.scheduleImplicitReset; uk_auto
theorem sendTrailers_uk (s : Streams) (k : Nat) (f : List Hpack.Field) : UK s (s.sendTrailers k f).1 := by
  unfold Streams.sendTrailers; uk_auto
theorem pollCapacity_uk (s : Streams) (k : Nat) (tag : String) : UK s (s.pollCapacity k tag).1 := by
  unfold Streams.pollCapacity; uk_auto
theorem pollReset_uk (s : Streams) (k : Nat) (m : PollReset) (tag : String) : UK s (s.pollReset k m tag).1 := by
  unfold Streams.pollReset; uk_auto
theorem sendRecvGoAway_uk (s : Streams) (l : Nat) : UK s (s.sendRecvGoAway l).1 := by
  unfold Streams.sendRecvGoAway; uk_auto
theorem sendMaybeResetNextStreamId_uk (s : Streams) (id : Nat) : UK s (s.sendMaybeResetNextStreamId id) := by
  unfold Streams.sendMaybeResetNextStreamId; uk_auto
theorem decStreamWindow_uk (dec acc : Nat) (s : Streams) (k : Nat) : UK s (Streams.decStreamWindow dec acc s k).1 := by
  unfold Streams.decStreamWindow; uk_auto
theorem sendClearQueues_uk (s : Streams) : UK s s.sendClearQueues := by
  unfold Streams.sendClearQueues; uk_auto

-- ===================================================================== recv.rs

theorem releaseConnectionCapacity_uk (s : Streams) (c : Nat) (b : Bool) : UK s (s.releaseConnectionCapacity c b) := by
  unfold Streams.releaseConnectionCapacity; uk_auto
theorem releaseCapacity_uk (s : Streams) (k c : Nat) (b : Bool) : UK s (s.releaseCapacity k c b).1 := by
  unfold Streams.releaseCapacity; uk_auto
theorem clearRecvBuffer_uk (s : Streams) (k : Nat) (b : Bool) : UK s (s.clearRecvBuffer k b) := by
  unfold Streams.clearRecvBuffer; uk_auto
theorem releaseClosedCapacity_uk (s : Streams) (k : Nat) : UK s (s.releaseClosedCapacity k) := by
  unfold Streams.releaseClosedCapacity; uk_auto
theorem setTargetConnectionWindow_uk (s : Streams) (t : Nat) : UK s (s.setTargetConnectionWindow t).1 := by
  unfold Streams.setTargetConnectionWindow; uk_auto
theorem applyLocalSettings_uk (s : Streams) (a b : Option Nat) : UK s (s.applyLocalSettings a b).1 := by
  unfold Streams.applyLocalSettings; uk_auto
theorem consumeConnectionWindow_uk (s : Streams) (sz : Nat) : UK s (s.consumeConnectionWindow sz).1 := by
  unfold Streams.consumeConnectionWindow; uk_auto
theorem ignoreData_uk (s : Streams) (sz : Nat) : UK s (s.ignoreData sz).1 := by
  unfold Streams.ignoreData; uk_auto
theorem recvOpen_uk (s : Streams) (id : Nat) (b : Bool) : UK s (s.recvOpen id b).1 := by
  unfold Streams.recvOpen; uk_auto
theorem notifyPushIfRecvEnded_uk (s : Streams) (k : Nat) : UK s (s.notifyPushIfRecvEnded k) := by
  unfold Streams.notifyPushIfRecvEnded; uk_auto
theorem recvRecvHeaders_uk (s : Streams) (k : Nat) (h : HeadersIn) : UK s (s.recvRecvHeaders k h).1 := by
  unfold Streams.recvRecvHeaders
  split
  · exact .refl _
  · next st' isInitial heq =>
    dsimp only
    generalize hs1 : Streams.modStream s k _ = s1
    have h1 : UK s s1 := by rw [← hs1]; exact modStream_uk _ _ _ (fun _ => by kp_tac)
    split
    · exact h1
    · generalize hs2 : (if (isInitial && !(s1.stream k).isCounted) = true then _ else s1) = s2
      have h2 : UK s s2 := by rw [← hs2]; uk_auto
      uk_auto
theorem recvRecvTrailers_uk (s : Streams) (k : Nat) (h : HeadersIn) : UK s (s.recvRecvTrailers k h).1 := by
  unfold Streams.recvRecvTrailers; uk_auto
theorem decContentLength_kp {x y : Stream} {n : Nat} (h : x.decContentLength n = some y) : y.key = x.key ∧ Kp x y := by
  unfold Stream.decContentLength at h
  split at h
  · split at h
    · cases h; exact ⟨rfl, .of_fields rfl rfl rfl⟩
    · cases h
  · split at h
    · cases h
    · cases h; exact ⟨rfl, .refl _⟩
  · cases h; exact ⟨rfl, .refl _⟩
theorem recvRecvData_uk (s : Streams) (k : Nat) (p : Bytes) (eos : Bool) (pad : Option Nat) :
    UK s (s.recvRecvData k p eos pad).1 := by
  unfold Streams.recvRecvData
  cases pad <;> dsimp only
  all_goals (
    generalize hs0 : (if _ > Generated.Consts.MAX_WINDOW_SIZE then s.panic _ else s) = s0
    have h0 : UK s s0 := by rw [← hs0]; split; exact panic_uk _ _; exact .refl _
    split
    · exact h0
    split
    · exact h0.trans (ignoreData_uk _ _)
    split
    · next s1 e heq1 => exact h0.trans (UK.of_fst_eq heq1 (consumeConnectionWindow_uk _ _))
    · next s1 _ heq1 =>
      have h1 : UK s s1 := h0.trans (UK.of_fst_eq heq1 (consumeConnectionWindow_uk _ _))
      split
      · exact h1
      · split
        · exact h1
        · next st1 hdc =>
          have hsp := decContentLength_kp hdc
          have h2 : UK s (s1.setStream st1) := h1.trans (setStream_uk _ _ (by rw [hsp.1, stream_key]; exact hsp.2))
          generalize hs2 : s1.setStream st1 = s2 at h2 ⊢
          generalize hs3 : (if eos = true then _ else (s2, (none : Option PErr))) = p3
          have h3 : UK s p3.1 := by rw [← hs3]; uk_auto
          obtain ⟨s3, o3⟩ := p3
          cases o3 with
          | some e => exact h3
          | none =>
            dsimp only at h3 ⊢
            uk_auto)
theorem recvRecvPushPromise_uk (s : Streams) (k : Nat) (h : HeadersIn) : UK s (s.recvRecvPushPromise k h).1 := by
  unfold Streams.recvRecvPushPromise; uk_auto
theorem recvNextIncoming_uk (s : Streams) : UK s s.recvNextIncoming.1 := by
  unfold Streams.recvNextIncoming; uk_auto
theorem recvTakeRequest_uk (s : Streams) (k : Nat) : UK s (s.recvTakeRequest k).1 := by
  unfold Streams.recvTakeRequest; uk_auto
theorem recvRecvReset_uk (s : Streams) (k : Nat) (r : Reason) : UK s (s.recvRecvReset k r).1 := by
  unfold Streams.recvRecvReset; uk_auto
theorem recvHandleError_uk (s : Streams) (k : Nat) (e : PErr) : UK s (s.recvHandleError k e) := by
  unfold Streams.recvHandleError; uk_auto
theorem recvGoAway_uk (s : Streams) (l : Nat) : UK s (s.recvGoAway l) := by
  unfold Streams.recvGoAway; uk_auto
theorem recvRecvEof_uk (s : Streams) (k : Nat) : UK s (s.recvRecvEof k) := by
  unfold Streams.recvRecvEof; uk_auto
theorem recvMaybeResetNextStreamId_uk (s : Streams) (id : Nat) : UK s (s.recvMaybeResetNextStreamId id) := by
  unfold Streams.recvMaybeResetNextStreamId; uk_auto
theorem enqueueResetExpiration_uk (s : Streams) (k : Nat) : UK s (s.enqueueResetExpiration k) := by
  unfold Streams.enqueueResetExpiration; uk_auto
theorem sendPendingRefusal_uk (s : Streams) (w : Writer) : UK s (s.sendPendingRefusal w).1 := by
  unfold Streams.sendPendingRefusal; uk_auto
theorem clearExpiredResetStreams_uk (n : Nat) (s : Streams) : UK s (Streams.clearExpiredResetStreams n s) := by
  induction n generalizing s with
  | zero => unfold Streams.clearExpiredResetStreams; exact .refl _
  | succ n ih => unfold Streams.clearExpiredResetStreams; uk_auto_ih ih
theorem clearStreamWindowUpdateQueue_uk (n : Nat) (s : Streams) : UK s (Streams.clearStreamWindowUpdateQueue n s) := by
  induction n generalizing s with
  | zero => unfold Streams.clearStreamWindowUpdateQueue; exact .refl _
  | succ n ih => unfold Streams.clearStreamWindowUpdateQueue; uk_auto_ih ih
theorem clearAllResetStreams_uk (n : Nat) (s : Streams) : UK s (Streams.clearAllResetStreams n s) := by
  induction n generalizing s with
  | zero => unfold Streams.clearAllResetStreams; exact .refl _
  | succ n ih => unfold Streams.clearAllResetStreams; uk_auto_ih ih
theorem clearAllPendingAccept_uk (n : Nat) (s : Streams) : UK s (Streams.clearAllPendingAccept n s) := by
  induction n generalizing s with
  | zero => unfold Streams.clearAllPendingAccept; exact .refl _
  | succ n ih => unfold Streams.clearAllPendingAccept; uk_auto_ih ih
theorem recvClearQueues_uk (s : Streams) (b : Bool) : UK s (s.recvClearQueues b) := by
  unfold Streams.recvClearQueues; uk_auto
theorem scheduleRecv_uk (s : Streams) (k : Nat) (t : String) : UK s (s.scheduleRecv k t).1 := by
  unfold Streams.scheduleRecv; uk_auto
theorem recvPollData_uk (s : Streams) (k : Nat) (t : String) : UK s (s.recvPollData k t).1 := by
  unfold Streams.recvPollData; uk_auto
theorem recvPollTrailers_uk (s : Streams) (k : Nat) (t : String) : UK s (s.recvPollTrailers k t).1 := by
  unfold Streams.recvPollTrailers; uk_auto
theorem recvPollResponse_uk (n : Nat) : ∀ (s : Streams) (k : Nat) (t : String), UK s (Streams.recvPollResponse n s k t).1 := by
  induction n with
  | zero => intro s k t; unfold Streams.recvPollResponse; exact .refl _
  | succ n ih => intro s k t; unfold Streams.recvPollResponse; uk_auto_ih ih
theorem recvPollInformational_uk (s : Streams) (k : Nat) (t : String) : UK s (s.recvPollInformational k t).1 := by
  unfold Streams.recvPollInformational; uk_auto
theorem recvPollPushed_uk (s : Streams) (k : Nat) (t : String) : UK s (s.recvPollPushed k t).1 := by
  unfold Streams.recvPollPushed; uk_auto

end H2V.Lemmas.ConnNoPanicP
