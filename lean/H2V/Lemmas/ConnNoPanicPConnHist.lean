import H2V.Lemmas.ConnResetPHist
import H2V.Lemmas.ConnCtlPGoAwayAll
import H2V.Lemmas.ConnNoPanicPReach
import H2V.Lemmas.ConnFlowPWire
/-
  C08 (no panic) — connection layer, part 1: histories with per-call guarantees.
  `Hist P s t`: `t` is reached from `s` by a sequence of stream-layer operations (`ConnResetP.Op`), the
  operation `op` applied in state `u` satisfying `P u op`.  `ConnP`: what the connection layer
  (ConnProto.lean) guarantees at each of its calls into `streams`.  `HistX P X`: the same, but the
  connection layer may also record a panic of its own (`Conn.panic m`, `X m`).
  `ConnOK`: the connection invariant under which the guarantees hold (ConnCtlP's GOAWAY invariant, the
  shutdown-PING invariant `PingInv`, the length-delimited decoder's `RdOK`).
-/
namespace H2V.Lemmas.ConnNoPanicP
open H2V H2V.Model H2V.Model.Conn
open H2V.Lemmas.ConnResetP (Op run)
open H2V.Lemmas.ConnCtlP (GoAwayInv Keep15 Step15 GaLe gaLast view)

-- ===================================================================== histories

/-- `t` is reached from `s` by stream-layer operations; each one satisfies `P` in the state it is applied to -/
inductive Hist (P : Streams → Op → Prop) : Streams → Streams → Prop
  | refl (s : Streams) : Hist P s s
  | step {s t : Streams} (op : Op) : Hist P s t → P t op → Hist P s (op.apply t)

theorem Hist.trans {P : Streams → Op → Prop} {a b c : Streams} (h1 : Hist P a b) (h2 : Hist P b c) : Hist P a c := by
  induction h2 with
  | refl => exact h1
  | step op _ hp ih => exact .step op ih hp

theorem Hist.mono {P Q : Streams → Op → Prop} (hpq : ∀ s op, P s op → Q s op) {a b : Streams} (h : Hist P a b) :
    Hist Q a b := by
  induction h with
  | refl => exact .refl _
  | step op _ hp ih => exact .step op ih (hpq _ _ hp)

theorem Hist.of_eq {P : Streams → Op → Prop} {s t : Streams} (h : t = s) : Hist P s t := by subst h; exact .refl _

theorem Hist.one {P : Streams → Op → Prop} {s : Streams} (op : Op) (hp : P s op) : Hist P s (op.apply s) :=
  .step op (.refl s) hp

/-- one operation, the result given up to an equation (`rfl` in all uses) -/
theorem Hist.one' {P : Streams → Op → Prop} {s t : Streams} (op : Op) (hp : P s op) (e : t = op.apply s) : Hist P s t := by
  subst e; exact Hist.one op hp

theorem Hist.snoc {P : Streams → Op → Prop} {a b c : Streams} (h : Hist P a b) (op : Op) (hp : P b op)
    (e : c = op.apply b) : Hist P a c := by subst e; exact .step op h hp

/-- a history is a `run` of a list of operations -/
theorem Hist.run {P : Streams → Op → Prop} {s t : Streams} (h : Hist P s t) : ∃ ops, t = run s ops := by
  induction h with
  | refl => exact ⟨[], rfl⟩
  | step op _ _ ih =>
    obtain ⟨ops, e⟩ := ih
    exact ⟨ops ++ [op], by rw [e]; unfold ConnResetP.run; rw [List.foldl_append]; rfl⟩

/-- an invariant kept by every guarded operation is kept by a history -/
theorem Hist.inv {P : Streams → Op → Prop} {I : Streams → Prop} (hI : ∀ s op, I s → P s op → I (op.apply s))
    {a b : Streams} (h : Hist P a b) (ha : I a) : I b := by
  induction h with
  | refl => exact ha
  | step op _ hp ih => exact hI _ op ih hp

-- ===================================================================== the guarantees of the connection layer

/-- what the length-delimited decoder guarantees about a frame it hands to `recv_frame` -/
def WireOK : Frame.Frame → Prop
  | .windowUpdate _ inc => inc ≤ 2147483647
  | .data _ payload _ pad => FrameLenOK payload pad
  | .settings _ vals => ConnFlowP.SettingsOk vals
  | _ => True

/-- **the guarantees of the connection layer** at each call it makes on `streams`; `False` = the connection
    layer (ConnProto.lean) never makes this call.  `handle_error` is never given a reset of the peer (the connection
    passes GOAWAYs — library, remote, user — and I/O errors only). -/
def ConnP (s : Streams) : Op → Prop
  | .recvHeaders _ => s.recv.refused = none
  | .recvPushPromise _ _ => s.recv.refused = none
  | .recvGoAway l => s.recv.maxStreamId ≥ l
  | .recvData _ p _ pad => FrameLenOK p pad
  | .recvWindowUpdate _ inc => inc ≤ 2147483647
  | .recvEof b => b = false
  | .recvReset _ _ => True
  | .handleError e => ∀ id r, e ≠ .reset id r .remote
  | .recvGoAwayFrame _ _ _ => True
  | .innerSendReset _ _ => True
  | .setTargetConnectionWindow t => t ≤ 2147483647
  | .applyRemoteSettings vals _ => ConnFlowP.SettingsOk vals
  | .applyLocalSettingsFrame _ => True
  | .pollComplete _ _ _ _ => True
  | .pollSendPendingRefusal _ _ _ _ => True
  | .clearExpiredResetStreams _ => True
  | .wake _ => True
  | .cloneHandle => True
  | _ => False

/-- `P`, and `Conn.panic m` (`Op.panic m`) for the messages `X` -/
def withPanic (P : Streams → Op → Prop) (X : String → Prop) (s : Streams) : Op → Prop
  | .panic m => X m
  | op => P s op

/-- histories in which the connection layer may record its own panics `X` -/
abbrev HistX (P : Streams → Op → Prop) (X : String → Prop) : Streams → Streams → Prop := Hist (withPanic P X)

/-- the two fuel markers of the model (`poll2Loop`, `protoPoll`): not part of the real code -/
def FuelMsg (m : String) : Prop := m = "model: poll2 out of fuel" ∨ m = "model: poll out of fuel"

theorem connP_withPanic {X : String → Prop} (s : Streams) (op : Op) (h : ConnP s op) : withPanic ConnP X s op := by
  cases op <;> first | exact h | exact h.elim

theorem Hist.toX {X : String → Prop} {a b : Streams} (h : Hist ConnP a b) : HistX ConnP X a b :=
  h.mono connP_withPanic

theorem HistX.monoX {P : Streams → Op → Prop} {X Y : String → Prop} (hxy : ∀ m, X m → Y m) {a b : Streams}
    (h : HistX P X a b) : HistX P Y a b :=
  Hist.mono (fun s op hp => by cases op <;> first | exact hp | exact hxy _ hp) h

/-- no panic of the connection layer allowed: a plain history -/
theorem HistX.toHist {a b : Streams} (h : HistX ConnP (fun _ => False) a b) : Hist ConnP a b :=
  Hist.mono (fun s op hp => by cases op <;> first | exact hp | exact hp.elim) h

theorem HistX.panic {P : Streams → Op → Prop} {X : String → Prop} {a b : Streams} (h : HistX P X a b) (m : String) (hm : X m) :
    HistX P X a (b.panic m) := .step (.panic m) h hm

-- ===================================================================== histories of (streams, writer)

/-- the two operations that run against the codec's `Writer` -/
def usesWriter : Op → Bool
  | .pollComplete _ _ _ _ => true
  | .pollSendPendingRefusal _ _ _ _ => true
  | _ => false

/-- **what the connection layer itself does to the codec's `Writer`** (`FramedWrite`): control frames
    (`buffer` of SETTINGS / PING / GOAWAY: `Writer.bufferSimple`), `poll_ready`, `flush`, `shutdown`, and the two
    settings of the peer (`set_max_send_frame_size`, `set_send_header_table_size`).  `buffer_data`,
    `take_last_data_frame`, `buffer_headers`, `unset_frame` … occur only inside `Streams::poll_complete`. -/
inductive WStep : Writer → Writer → Prop
  | bufferSimple (w : Writer) (payloadLen : Nat) (render : String) : WStep w (w.bufferSimple payloadLen render)
  | pollReadyW (w : Writer) (io : Tio) (tag : String) : WStep w (pollReadyW w io tag).1
  | flush (w : Writer) (io : Tio) (tag : String) : WStep w (flush w io tag).1
  | shutdownW (w : Writer) (io : Tio) (tag : String) : WStep w (shutdownW w io tag).1
  | setHpackMax (w : Writer) (v : Nat) : WStep w { w with hpack := w.hpack.updateMaxSize v }
  | setMaxFrameSize (w : Writer) (v : Nat) : WStep w { w with maxFrameSize := v }

/-- `(s, w)` is reached from `(s0, w0)` by (1) stream-layer operations that do not see the writer, (2)
    `poll_complete` / `send_pending_refusal` run WITH THE CURRENT WRITER, (3) writer steps of the connection -/
inductive HistW (P : Streams → Op → Prop) (s0 : Streams) (w0 : Writer) : Streams → Writer → Prop
  | refl : HistW P s0 w0 s0 w0
  | op {s : Streams} {w : Writer} (op : Op) : HistW P s0 w0 s w → P s op → usesWriter op = false → HistW P s0 w0 (op.apply s) w
  | pollComplete {s : Streams} {w : Writer} (fuel : Nat) (io : Tio) (tag : String) : HistW P s0 w0 s w →
      P s (.pollComplete fuel w io tag) →
      HistW P s0 w0 (Streams.pollComplete fuel s w io tag).1 (Streams.pollComplete fuel s w io tag).2.1
  | pollSendPendingRefusal {s : Streams} {w : Writer} (fuel : Nat) (io : Tio) (tag : String) : HistW P s0 w0 s w →
      P s (.pollSendPendingRefusal fuel w io tag) →
      HistW P s0 w0 (Streams.pollSendPendingRefusal fuel s w io tag).1 (Streams.pollSendPendingRefusal fuel s w io tag).2.1
  | writer {s : Streams} {w w' : Writer} : HistW P s0 w0 s w → WStep w w' → HistW P s0 w0 s w'

theorem HistW.trans {P : Streams → Op → Prop} {s0 s1 s2 : Streams} {w0 w1 w2 : Writer} (h1 : HistW P s0 w0 s1 w1)
    (h2 : HistW P s1 w1 s2 w2) : HistW P s0 w0 s2 w2 := by
  induction h2 with
  | refl => exact h1
  | op o _ hp hu ih => exact .op o ih hp hu
  | pollComplete f io t _ hp ih => exact .pollComplete f io t ih hp
  | pollSendPendingRefusal f io t _ hp ih => exact .pollSendPendingRefusal f io t ih hp
  | writer _ hw ih => exact .writer ih hw

theorem HistW.mono {P Q : Streams → Op → Prop} (hpq : ∀ s op, P s op → Q s op) {s0 s : Streams} {w0 w : Writer}
    (h : HistW P s0 w0 s w) : HistW Q s0 w0 s w := by
  induction h with
  | refl => exact .refl
  | op o _ hp hu ih => exact .op o ih (hpq _ _ hp) hu
  | pollComplete f io t _ hp ih => exact .pollComplete f io t ih (hpq _ _ hp)
  | pollSendPendingRefusal f io t _ hp ih => exact .pollSendPendingRefusal f io t ih (hpq _ _ hp)
  | writer _ hw ih => exact .writer ih hw

/-- forgetting the writer: a history of `streams` -/
theorem HistW.hist {P : Streams → Op → Prop} {s0 s : Streams} {w0 w : Writer} (h : HistW P s0 w0 s w) : Hist P s0 s := by
  induction h with
  | refl => exact .refl _
  | op o _ hp _ ih => exact .step o ih hp
  | pollComplete f io t _ hp ih => exact .step (.pollComplete f _ io t) ih hp
  | pollSendPendingRefusal f io t _ hp ih => exact .step (.pollSendPendingRefusal f _ io t) ih hp
  | writer _ _ ih => exact ih

theorem HistW.same {P : Streams → Op → Prop} {s s' : Streams} {w w' : Writer} (hs : s' = s) (hw : w' = w) : HistW P s w s' w' := by
  subst hs; subst hw; exact .refl

/-- one operation that does not see the writer -/
theorem HistW.op1 {P : Streams → Op → Prop} {s s' : Streams} {w w' : Writer} (o : Op) (hp : P s o) (hu : usesWriter o = false)
    (es : s' = o.apply s) (ew : w' = w) : HistW P s w s' w' := by
  subst es; subst ew; exact .op o .refl hp hu

/-- one writer step of the connection -/
theorem HistW.w1 {P : Streams → Op → Prop} {s s' : Streams} {w w' : Writer} (hw : WStep w w') (es : s' = s) : HistW P s w s' w' := by
  subst es; exact .writer .refl hw

/-- histories of `(streams, writer)` in which the connection layer may record its own panics `X` -/
abbrev HistWX (P : Streams → Op → Prop) (X : String → Prop) := HistW (withPanic P X)

theorem HistW.toX {X : String → Prop} {s0 s : Streams} {w0 w : Writer} (h : HistW ConnP s0 w0 s w) : HistWX ConnP X s0 w0 s w :=
  h.mono connP_withPanic

theorem HistWX.monoX {P : Streams → Op → Prop} {X Y : String → Prop} (hxy : ∀ m, X m → Y m) {s0 s : Streams} {w0 w : Writer}
    (h : HistWX P X s0 w0 s w) : HistWX P Y s0 w0 s w :=
  HistW.mono (fun s op hp => by cases op <;> first | exact hp | exact hxy _ hp) h

theorem HistWX.toHistW {s0 s : Streams} {w0 w : Writer} (h : HistWX ConnP (fun _ => False) s0 w0 s w) : HistW ConnP s0 w0 s w :=
  HistW.mono (fun s op hp => by cases op <;> first | exact hp | exact hp.elim) h

theorem HistWX.panic {P : Streams → Op → Prop} {X : String → Prop} {s0 s : Streams} {w0 w : Writer} (h : HistWX P X s0 w0 s w)
    (m : String) (hm : X m) : HistWX P X s0 w0 (s.panic m) w := .op (.panic m) h hm rfl

-- ===================================================================== the refusal gate

/-- `poll_ready`'s last step answered `Ready`: no refused stream is left to answer -/
theorem pollSendPendingRefusal_ready (fuel : Nat) (s : Streams) (w : Writer) (io : Tio) (tag : String)
    (h : (Streams.pollSendPendingRefusal fuel s w io tag).2.2.2 = .ready) :
    (Streams.pollSendPendingRefusal fuel s w io tag).1.recv.refused = none := by
  induction fuel generalizing s w io with
  | zero => unfold Streams.pollSendPendingRefusal at h; cases h
  | succ n ih =>
    unfold Streams.pollSendPendingRefusal at h ⊢
    have hc : ∀ s1 w1, s.sendPendingRefusal w = (s1, w1, .complete) → s1.recv.refused = none := by
      intro s1 w1 he
      unfold Streams.sendPendingRefusal at he
      split at he
      · split at he
        · cases he
        · cases he; rfl
      · rename_i hn; cases he; exact hn
    rcases hr : s.sendPendingRefusal w with ⟨s1, w1, st⟩
    rw [hr] at h
    cases st with
    | complete => exact hc s1 w1 hr
    | codecFull =>
      dsimp only at h ⊢
      rcases hp : pollReadyW w1 io tag with ⟨w2, io2, r⟩
      rw [hp] at h
      cases r with
      | ready => exact ih _ _ _ h
      | pending => cases h
      | err k => cases h

-- ===================================================================== the connection invariant

/-- a pending PING of the connection is the shutdown PING of `go_away_gracefully` (the only PING the connection
    itself sends), and the first GOAWAY of the graceful shutdown has been built -/
def PingInv (c : Conn) : Prop :=
  ∀ p, c.pingPong.pendingPing = some p →
    p.payload = Generated.Consts.PING_SHUTDOWN_PAYLOAD ∧ c.goAway.goingAway.isSome = true

/-- the local SETTINGS values `v` are in flight (queued, or sent and waiting for the peer's ACK) -/
def LocIn (c : Conn) (v : List (Nat × Nat)) : Prop := c.settings.loc = .toSend v ∨ c.settings.loc = .waitingAck v

/-- the length-delimited decoder: `max_frame_size` is at most 2^24-1 (`MAX_MAX_FRAME_SIZE`; the builder asserts it), the
    frame awaited (`DecodeState::Data(n)`) passed the size check, and a SETTINGS_MAX_FRAME_SIZE in flight is legal too -/
structure RdOK (c : Conn) : Prop where
  max : c.codec.r.maxFrameLen ≤ 16777215
  need : ∀ n, c.codec.r.need = some n → n ≤ 16777224
  loc : ∀ v m, LocIn c v → ConnCtlP.getS v 5 = some m → m ≤ 16777215
  /-- the peer's SETTINGS waiting for their ACK came through the decoder (INITIAL_WINDOW_SIZE ≤ 2^31-1) -/
  rem : ∀ v, c.settings.remote = some v → ConnFlowP.SettingsOk v

/-- no new local SETTINGS come into flight, no new SETTINGS of the peer are remembered -/
def LocLe (c c' : Conn) : Prop :=
  (∀ v, LocIn c' v → LocIn c v) ∧ (∀ v, c'.settings.remote = some v → c.settings.remote = some v)

theorem LocLe.refl (c : Conn) : LocLe c c := ⟨fun _ h => h, fun _ h => h⟩
theorem LocLe.trans {a b c : Conn} (h1 : LocLe a b) (h2 : LocLe b c) : LocLe a c :=
  ⟨fun v h => h1.1 v (h2.1 v h), fun v h => h1.2 v (h2.2 v h)⟩
theorem LocLe.of_eq {c c' : Conn} (h : c'.settings.loc = c.settings.loc) (hr : c'.settings.remote = c.settings.remote) :
    LocLe c c' := by
  refine ⟨?_, fun v hv => by rw [← hr]; exact hv⟩
  intro v hv; unfold LocIn at *; rw [← h]; exact hv

theorem RdOK.keep {c c' : Conn} (h : RdOK c) (hr : c'.codec.r = c.codec.r) (hl : LocLe c c') : RdOK c' :=
  ⟨by rw [hr]; exact h.max, by rw [hr]; exact h.need, fun v m hv hm => h.loc v m (hl.1 v hv) hm,
    fun v hv => h.rem v (hl.2 v hv)⟩

/-- the connection invariant -/
structure ConnOK (c : Conn) : Prop where
  ga : GoAwayInv c
  ping : PingInv c
  rd : RdOK c

/-- a step that keeps the pending PING (up to its `sent` flag) or drops it, and keeps `going_away` set -/
def PingLe (c c' : Conn) : Prop :=
  (∀ p', c'.pingPong.pendingPing = some p' → ∃ p, c.pingPong.pendingPing = some p ∧ p'.payload = p.payload) ∧
  (c.goAway.goingAway.isSome = true → c'.goAway.goingAway.isSome = true)

theorem PingLe.refl (c : Conn) : PingLe c c := ⟨fun p h => ⟨p, h, rfl⟩, id⟩
theorem PingLe.trans {a b c : Conn} (h1 : PingLe a b) (h2 : PingLe b c) : PingLe a c := by
  refine ⟨fun p hp => ?_, fun h => h2.2 (h1.2 h)⟩
  obtain ⟨q, hq, e1⟩ := h2.1 p hp
  obtain ⟨r, hr, e2⟩ := h1.1 q hq
  exact ⟨r, hr, e1.trans e2⟩
theorem PingLe.of_eq {c c' : Conn} (hp : c'.pingPong.pendingPing = c.pingPong.pendingPing)
    (hg : c'.goAway.goingAway = c.goAway.goingAway) : PingLe c c' :=
  ⟨fun p h => ⟨p, by rw [← hp]; exact h, rfl⟩, fun h => by rw [hg]; exact h⟩
theorem PingLe.inv {c c' : Conn} (h : PingLe c c') (hi : PingInv c) : PingInv c' := by
  intro p' hp'
  obtain ⟨p, hp, e⟩ := h.1 p' hp'
  exact ⟨e.trans (hi p hp).1, h.2 (hi p hp).2⟩

theorem gaLe_isSome {c c' : Conn} (h : GaLe c c') (hs : c.goAway.goingAway.isSome = true) :
    c'.goAway.goingAway.isSome = true := by
  cases hg : c.goAway.goingAway with
  | none => rw [hg] at hs; cases hs
  | some ga =>
    obtain ⟨m', hm', -⟩ := h.1 ga.lastProcessedId (by unfold gaLast; rw [hg]; rfl)
    unfold gaLast at hm'
    cases hg' : c'.goAway.goingAway with
    | none => rw [hg'] at hm'; cases hm'
    | some _ => rfl

/-- a step seen from the invariant: what it must keep -/
structure OKStep (c c' : Conn) : Prop where
  ga : GoAwayInv c'
  gale : GaLe c c'
  ping : ∀ p', c'.pingPong.pendingPing = some p' → ∃ p, c.pingPong.pendingPing = some p ∧ p'.payload = p.payload
  rd : RdOK c → RdOK c'

theorem OKStep.ok {c c' : Conn} (h : OKStep c c') (hc : ConnOK c) : ConnOK c' :=
  ⟨h.ga, PingLe.inv ⟨h.ping, gaLe_isSome h.gale⟩ hc.ping, h.rd hc.rd⟩

theorem OKStep.of_step15 {c c' : Conn} (h : Step15 c c') (hp : c'.pingPong.pendingPing = c.pingPong.pendingPing)
    (hr : c'.codec.r = c.codec.r) (hl : LocLe c c') : OKStep c c' :=
  ⟨h.1, h.2, fun p hp' => ⟨p, by rw [← hp]; exact hp', rfl⟩, fun hn => hn.keep hr hl⟩

theorem OKStep.of_keep {c c' : Conn} (hi : GoAwayInv c) (h : Keep15 c c') (hp : c'.pingPong.pendingPing = c.pingPong.pendingPing)
    (hr : c'.codec.r = c.codec.r) (hl : LocLe c c') : OKStep c c' := .of_step15 (h.step hi) hp hr hl

theorem ConnOK.keep {c c' : Conn} (hc : ConnOK c) (h : Keep15 c c') (hp : c'.pingPong.pendingPing = c.pingPong.pendingPing)
    (hr : c'.codec.r = c.codec.r) (hl : LocLe c c') : ConnOK c' := (OKStep.of_keep hc.ga h hp hr hl).ok hc

/-- a connection that differs only in parts the invariant does not look at -/
theorem ConnOK.congr {c c' : Conn} (hc : ConnOK c) (hg : c'.goAway = c.goAway) (hs : c'.streams = c.streams)
    (hp : c'.pingPong.pendingPing = c.pingPong.pendingPing) (hr : c'.codec.r = c.codec.r)
    (hl : c'.settings.loc = c.settings.loc) (hrem : c'.settings.remote = c.settings.remote) : ConnOK c' :=
  hc.keep (Keep15.of_view hg (by rw [hs])) hp hr (.of_eq hl hrem)

end H2V.Lemmas.ConnNoPanicP
