import H2V.Lemmas.ConnNoPanicPPushInvPoll2
/-
  C08 (no panic) — PUSH_PROMISE bookkeeping, stage 2, part 18: `recv_push_promise` keeps `PRH`: the promised stream it
  links is fresh (`ref_count = 0`) and `Recv::recv_push_promise` has just queued the promised request on its empty
  `pending_recv`.
-/
namespace H2V.Lemmas.ConnNoPanicP
open H2V H2V.Model H2V.Model.Conn H2V.Lemmas.ConnCountsP
open H2V.Lemmas.ConnCtlP (ppParent ppChild ppRest recvPushPromise_eq)
attribute [local irreducible] wrapSubU32 wrapSubUsize

theorem ppChild_hb (child : Nat) (h : HeadersIn) (s : Streams) : HB s (ppChild child h s).1 := by
  unfold ppChild; hb_auto

theorem ReqHd.of_app {x y : Stream} (h : ReqHd x) {l : List REvent} (e : y.pendingRecv = x.pendingRecv ++ l) : ReqHd y := by
  obtain ⟨m, u, f, rest, hq⟩ := h
  exact ⟨m, u, f, rest ++ l, by rw [e, hq]; rfl⟩

/-- raising the link flag of one entry (`ppp.push(child)`): `PRH` survives if that entry has no handle and its
    `pending_recv` starts with the request -/
theorem PRH.flagTrue {s : Streams} (hp : PRH s) (child : Nat)
    (hnew : Live s child → (s.stream child).refCount = 0 ∧ ReqHd (s.stream child)) :
    PRH (s.modStream child fun st => { st with isPendingAccept := true }) := by
  intro c hc
  have hl' : Live (s.modStream child fun st => { st with isPendingAccept := true }) c := held_live hc
  have hl : Live s c := (SameKeys.modStream _ _ _).live.mp hl'
  by_cases hcc : c = child
  · subst hcc
    rw [stream_modStream_live hl (fun st => { st with isPendingAccept := true }) (fun _ => rfl)]
    exact hnew hl
  · have hst := stream_modStream_other s child (fun st => { st with isPendingAccept := true }) (fun _ => rfl) hcc
    rw [hst]
    refine hp c ?_
    obtain ⟨⟨x, hx, hfl⟩, hq⟩ := hc
    obtain ⟨y, hy⟩ := hl
    have hxy : x = y := by rw [← stream_of_get? hx, hst, stream_of_get? hy]
    refine ⟨⟨y, hy, hxy ▸ hfl⟩, ?_⟩
    rw [ConnResetP.modStream_recv] at hq; exact hq

theorem new_ref_recv (id a b : Nat) : (Stream.new id a b).refCount = 0 ∧ (Stream.new id a b).pendingRecv = [] := ⟨rfl, rfl⟩

theorem ppRest_prh {s : Streams} (hn : NPI (fun _ => False) s) (hp : PRH s) (pk : Nat) (h : HeadersIn)
    (href : s.recv.refused = none) : PRH (ppRest s pk h).1 := by
  unfold ppRest
  generalize s.ensureCanReserve = ec
  cases ec with
  | error e => exact hp
  | ok u =>
    dsimp only
    generalize hro : s.recvOpen h.sid true = p
    obtain ⟨s1, res⟩ := p
    have h1 : HB s s1 := HB.of_fst_eq hro (recvOpen_hb s h.sid true)
    cases res with
    | error e => exact hp.step h1
    | ok b =>
      cases b
      · exact hp.step h1
      · simp only []
        obtain ⟨_, _, hst1, _, _⟩ := recvOpen_pp_true href hro
        generalize hsP : (if s1.store.contains h.sid = true then s1.panic _ else s1) = sP
        have hP : HB s sP := by
          rw [← hsP]; split
          · exact h1.trans (panic_hb _ _)
          · exact h1
        have hstP : sP.store = s.store := by rw [← hsP]; split; rw [panic_store, hst1]; exact hst1
        have hfrP : KeysFresh sP := by unfold KeysFresh; rw [hstP]; exact hn.keys.fresh
        have h2 := hP.trans (insert_hb sP (Stream.new h.sid sP.actions.send.initWindowSz sP.recv.initWindowSz) (new_acc' _ _ _))
        have hkk : (sP.store.insert (Stream.new h.sid sP.actions.send.initWindowSz sP.recv.initWindowSz)).2 = sP.store.nextKey := rfl
        rw [hkk]
        have hget2 : ({ sP with store := (sP.store.insert (Stream.new h.sid sP.actions.send.initWindowSz sP.recv.initWindowSz)).1 } : Streams).store.get? sP.store.nextKey =
            some { Stream.new h.sid sP.actions.send.initWindowSz sP.recv.initWindowSz with key := sP.store.nextKey } :=
          insert_get?_new hfrP _
        have hs2 : (({ sP with store := (sP.store.insert (Stream.new h.sid sP.actions.send.initWindowSz sP.recv.initWindowSz)).1 } : Streams).stream sP.store.nextKey).refCount = 0 ∧
            (({ sP with store := (sP.store.insert (Stream.new h.sid sP.actions.send.initWindowSz sP.recv.initWindowSz)).1 } : Streams).stream sP.store.nextKey).pendingRecv = [] := by
          rw [stream_of_get? hget2]; exact ⟨rfl, rfl⟩
        have hl2 : Live ({ sP with store := (sP.store.insert (Stream.new h.sid sP.actions.send.initWindowSz sP.recv.initWindowSz)).1 } : Streams) sP.store.nextKey :=
          ⟨_, hget2⟩
        generalize ({ sP with store := (sP.store.insert (Stream.new h.sid sP.actions.send.initWindowSz sP.recv.initWindowSz)).1 } : Streams) = s2 at h2 hs2 hl2 ⊢
        generalize sP.store.nextKey = child at hs2 hl2 ⊢
        have htr : (s2.transition child (ppChild child h)) =
            ((ppChild child h s2).1.transitionAfter child (s2.stream child).isPendingResetExpiration, (ppChild child h s2).2) := rfl
        rw [htr]
        have h3 : HB s (ppChild child h s2).1 := h2.trans (ppChild_hb child h s2)
        generalize hpc : ppChild child h s2 = q at h3 ⊢
        obtain ⟨s3, r3⟩ := q
        dsimp only at h3 ⊢
        have h4 : HB s (s3.transitionAfter child (s2.stream child).isPendingResetExpiration) := h3.trans (transitionAfter_hb _ _ _)
        have p4 : PRH (s3.transitionAfter child (s2.stream child).isPendingResetExpiration) := hp.step h4
        cases r3 with
        | error e => exact p4
        | ok b =>
          cases b
          · exact p4
          · dsimp only
            have hok := recvRecvPushPromise_ok hl2 (ppChild_true hpc)
            have hnew4 : Live (s3.transitionAfter child (s2.stream child).isPendingResetExpiration) child →
                ((s3.transitionAfter child (s2.stream child).isPendingResetExpiration).stream child).refCount = 0 ∧
                ReqHd ((s3.transitionAfter child (s2.stream child).isPendingResetExpiration).stream child) := by
              intro hl4
              have e := transitionAfter_proj (fun x => (x.refCount, x.pendingRecv)) (fun _ _ => rfl)
                (s2.stream child).isPendingResetExpiration hl4 (s := s3)
              simp only [Prod.mk.injEq] at e
              obtain ⟨m, u, hreq⟩ := hok.2.2.2
              refine ⟨by rw [e.1, hok.2.1]; exact hs2.1, m, u, h.fields, [], ?_⟩
              rw [e.2, hreq, hs2.2]; rfl
            generalize (s3.transitionAfter child (s2.stream child).isPendingResetExpiration) = s4 at p4 hnew4 ⊢
            have hfin : ∀ t : Streams, PRH t → PRH (t.modStreamW pk Stream.notifyPush) := fun t ht =>
              ht.step (modStreamW_hb t pk _ (.inl fun x => HBP.of_rp (rp_notifyPush x)))
            split
            · exact hfin _ p4
            · refine hfin _ ?_
              refine (p4.flagTrue child hnew4).step ?_
              exact modStream_hb _ _ _ (.inl fun _ => ⟨rfl, rfl, rfl, [], (List.append_nil _).symm⟩)

/-- **`recv_push_promise` keeps `PRH`** -/
theorem recvPushPromise_prh {s : Streams} (hn : NPI (fun _ => False) s) (hp : PRH s) (id : Nat) (h : HeadersIn)
    (href : s.recv.refused = none) : PRH (s.recvPushPromise id h).1 := by
  rw [recvPushPromise_eq]
  split
  · exact hp
  · have hopen : PRH (s.recvOpen h.sid true).1 := hp.step (recvOpen_hb s h.sid true)
    have hpar : PRH (ppParent s id h.sid).1 := by
      rcases ppParent_cases s id h.sid with e | e
      · rw [e]; exact hp
      · rw [e]; exact hopen
    generalize hpp : ppParent s id h.sid = p at hpar ⊢
    obtain ⟨s1, r⟩ := p
    cases r with
    | error e => exact hpar
    | ok o =>
      cases o with
      | none => exact hpar
      | some pk =>
        obtain ⟨e1, _⟩ := ppParent_some hpp
        subst e1
        exact ppRest_prh hn hp pk h href

/-- all of stage 2 for `recv_push_promise` at once -/
theorem recvPushPromise_all {s : Streams} (hn : NPI (fun _ => False) s) (hj : PPPOK s) (hi : IBR s) (hp : PRH s)
    (hacc : ∀ k ∈ s.recv.pendingAccept, Live s k) (id : Nat) (h : HeadersIn) (href : s.recv.refused = none)
    (he' : ErrOK (s.recvPushPromise id h).1) :
    NPI (fun _ => False) (s.recvPushPromise id h).1 ∧ PPPOK (s.recvPushPromise id h).1 ∧ IBR (s.recvPushPromise id h).1 ∧
    PRH (s.recvPushPromise id h).1 :=
  let r := recvPushPromise_npi hn hj hi hacc id h href he'
  ⟨r.1, r.2, recvPushPromise_ibr hn hi id h, recvPushPromise_prh hn hp id h href⟩

end H2V.Lemmas.ConnNoPanicP
