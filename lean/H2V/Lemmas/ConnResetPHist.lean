import H2V.Lemmas.ConnResetPStreams
/-
  ConnResetP — histories.  `Op` lists every operation that the connection (`Conn`, ConnProto.lean)
  or the driver (`step`, ConnDriver.lean) performs on a `Streams` value, with arbitrary arguments
  (so any interleaving of peer frames, connection progress and user calls is a list of `Op`s);
  `run` applies a list of them.  `run_evolves`: the slab entries of the final state are related to
  those of the initial one by `SRel` — for every history.
-/
namespace H2V.Lemmas.ConnResetP
open H2V H2V.Model H2V.Model.Conn
variable {D : Nat → Prop}

/-- the operations on `Streams` -/
inductive Op where
  -- frames and events of the connection (connection.rs → streams.rs)
  | recvHeaders (h : HeadersIn)
  | recvData (id : Nat) (payload : Bytes) (eos : Bool) (padLen : Option Nat)
  | recvReset (id : Nat) (reason : Reason)
  | recvWindowUpdate (id inc : Nat)
  | recvPushPromise (id : Nat) (h : HeadersIn)
  | handleError (e : PErr)
  | recvGoAwayFrame (last : Nat) (reason : Reason) (debug : Bytes)
  | recvGoAway (last : Nat)
  | recvEof (clearPendingAccept : Bool)
  | innerSendReset (id : Nat) (reason : Reason)
  | setTargetConnectionWindow (target : Nat)
  | applyRemoteSettings (vals : List (Nat × Nat)) (isInitial : Bool)
  | applyLocalSettingsFrame (vals : List (Nat × Nat))
  | pollComplete (fuel : Nat) (w : Writer) (io : Tio) (tag : String)
  | pollSendPendingRefusal (fuel : Nat) (w : Writer) (io : Tio) (tag : String)
  | clearExpiredResetStreams (fuel : Nat)
  | wake (tags : List String)
  | clearWakes
  | panic (msg : String)
  -- handles (client.rs / server.rs / share.rs → streams.rs)
  | cloneHandle
  | dropHandle
  | sendRequest (isHead : Bool) (fields : List Hpack.Field) (eos : Bool) (pending : Option Nat)
  | pollPendingOpen (pending : Option Nat) (tag : String)
  | nextIncoming
  | recvTakeRequest (k : Nat)
  | cloneStreamRef (k : Nat)
  | dropStreamRef (k : Nat)
  | refSendResponse (k : Nat) (fields : List Hpack.Field) (eos : Bool)
  | refSendInformationalHeaders (k : Nat) (fields : List Hpack.Field)
  | refSendPushPromise (parent : Nat) (requestValid : Bool) (fields : List Hpack.Field)
  | refSendData (k len : Nat) (eos : Bool)
  | refSendTrailers (k : Nat) (fields : List Hpack.Field)
  | refReserveCapacity (k cap : Nat)
  | pollCapacity (k : Nat) (tag : String)
  | refSendReset (k : Nat) (reason : Reason)
  | pollReset (k : Nat) (mode : PollReset) (tag : String)
  | recvPollResponse (fuel k : Nat) (tag : String)
  | recvPollInformational (k : Nat) (tag : String)
  | refPollData (k : Nat) (tag : String)
  | recvPollTrailers (k : Nat) (tag : String)
  | refReleaseCapacity (k n : Nat)
  | refClearRecvBuffer (k : Nat)

def Op.apply (s : Streams) : Op → Streams
  | .recvHeaders h => (s.recvHeaders h).1
  | .recvData id p eos pad => (s.recvData id p eos pad).1
  | .recvReset id r => (s.recvReset id r).1
  | .recvWindowUpdate id inc => (s.recvWindowUpdate id inc).1
  | .recvPushPromise id h => (s.recvPushPromise id h).1
  | .handleError e => (s.handleError e).1
  | .recvGoAwayFrame l r d => (s.recvGoAwayFrame l r d).1
  | .recvGoAway l => s.recvGoAway l
  | .recvEof c => s.recvEof c
  | .innerSendReset id r => (s.innerSendReset id r).1
  | .setTargetConnectionWindow t => (s.setTargetConnectionWindow t).1
  | .applyRemoteSettings v b => (s.applyRemoteSettings v b).1
  | .applyLocalSettingsFrame v => (s.applyLocalSettingsFrame v).1
  | .pollComplete fuel w io tag => (Streams.pollComplete fuel s w io tag).1
  | .pollSendPendingRefusal fuel w io tag => (Streams.pollSendPendingRefusal fuel s w io tag).1
  | .clearExpiredResetStreams fuel => Streams.clearExpiredResetStreams fuel s
  | .wake t => s.wake t
  | .clearWakes => { s with wakes := [] }
  | .panic m => s.panic m
  | .cloneHandle => s.cloneHandle
  | .dropHandle => s.dropHandle
  | .sendRequest isHead f eos p => (s.sendRequest isHead f eos p).1
  | .pollPendingOpen p tag => (s.pollPendingOpen p tag).1
  | .nextIncoming => s.nextIncoming.1
  | .recvTakeRequest k => (s.recvTakeRequest k).1
  | .cloneStreamRef k => s.cloneStreamRef k
  | .dropStreamRef k => s.dropStreamRef k
  | .refSendResponse k f eos => (s.refSendResponse k f eos).1
  | .refSendInformationalHeaders k f => (s.refSendInformationalHeaders k f).1
  | .refSendPushPromise p v f => (s.refSendPushPromise p v f).1
  | .refSendData k len eos => (s.refSendData k len eos).1
  | .refSendTrailers k f => (s.refSendTrailers k f).1
  | .refReserveCapacity k c => s.refReserveCapacity k c
  | .pollCapacity k tag => (s.pollCapacity k tag).1
  | .refSendReset k r => s.refSendReset k r
  | .pollReset k m tag => (s.pollReset k m tag).1
  | .recvPollResponse fuel k tag => (Streams.recvPollResponse fuel s k tag).1
  | .recvPollInformational k tag => (s.recvPollInformational k tag).1
  | .refPollData k tag => (s.refPollData k tag).1
  | .recvPollTrailers k tag => (s.recvPollTrailers k tag).1
  | .refReleaseCapacity k n => (s.refReleaseCapacity k n).1
  | .refClearRecvBuffer k => s.refClearRecvBuffer k

/-- a history -/
def run (s : Streams) (ops : List Op) : Streams := ops.foldl Op.apply s

set_option allowUnsafeReducibility true in
attribute [local reducible] Streams.stream Store.getD'

theorem Op.apply_evolves {a : Store} {s : Streams} (h : Evolves (SRel D) RInv a s.store) (op : Op)
    (hD : ∀ k, op = .dropStreamRef k → D k) : Evolves (SRel D) RInv a (op.apply s).store := by
  cases op
  case dropStreamRef k => exact dropStreamRef_sr h k (hD k rfl)
  all_goals (unfold Op.apply; ev)

theorem run_evolves' {a : Store} (ops : List Op) {s : Streams} (h : Evolves (SRel D) RInv a s.store)
    (hD : ∀ op ∈ ops, ∀ k, op = .dropStreamRef k → D k) : Evolves (SRel D) RInv a (run s ops).store := by
  induction ops generalizing s with
  | nil => exact h
  | cons op ops ih =>
    exact ih (Op.apply_evolves h op (hD op (List.mem_cons_self ..))) (fun o ho => hD o (List.mem_cons_of_mem _ ho))

/-- **every history**: the final slab relates to the initial one by `SRel` -/
theorem run_evolves (s : Streams) (ops : List Op) : Evolves SRelAny RInv s.store (run s ops).store :=
  run_evolves' ops (Evolves.refl _) (fun _ _ _ _ => trivial)

/-- a history in which no handle of entry `k` is dropped -/
theorem run_evolves_keep (s : Streams) (ops : List Op) (k : Nat) (hk : Op.dropStreamRef k ∉ ops) :
    Evolves (SRel (· ≠ k)) RInv s.store (run s ops).store :=
  run_evolves' ops (Evolves.refl _) (fun op ho k' e hkk => hk (by rw [← hkk, ← e]; exact ho))

/-- the reset invariant holds in every state reachable from a state in which it holds -/
theorem run_rinv (s : Streams) (ops : List Op) (h : AllStreams RInv s.store) : AllStreams RInv (run s ops).store :=
  (run_evolves s ops).allStreams (fun _ _ i p => p.inv i) (fun _ n => n) h

/-- …in particular from an empty store -/
theorem allStreams_empty (I : Stream → Prop) (s : Streams) (h : s.store.slab = []) : AllStreams I s.store := by
  intro k st hg; unfold Store.get? at hg; rw [h] at hg; cases hg

theorem keysBelow_empty (s : Streams) (h : s.store.slab = []) : KeysBelow s.store := by
  intro k st hg; unfold Store.get? at hg; rw [h] at hg; cases hg

theorem run_keysBelow (s : Streams) (ops : List Op) (h : KeysBelow s.store) : KeysBelow (run s ops).store :=
  (run_evolves s ops).keysBelow h

/-- the entry a key names at two moments of a history: the later one evolved from the earlier one -/
theorem run_srel (s : Streams) (ops : List Op) (hk : KeysBelow s.store) {k : Nat} {st st' : Stream}
    (h0 : s.store.get? k = some st) (h1 : (run s ops).store.get? k = some st') : SRelAny st st' := by
  obtain ⟨st0, hg, p⟩ := (run_evolves s ops).same_key h1 (hk k st h0)
  rw [h0] at hg; cases hg; exact p


/-- **a stream is never released while a handle is alive**: along a history that does not drop a handle
    of entry `k`, an entry with `ref_count > 0` stays in the slab and its `ref_count` does not go down -/
theorem run_keeps_referenced (s : Streams) (ops : List Op) (k : Nat) (st : Stream) (hkb : KeysBelow s.store)
    (h0 : s.store.get? k = some st) (hr : 0 < st.refCount) (hk : Op.dropStreamRef k ∉ ops) :
    ∃ st', (run s ops).store.get? k = some st' ∧ st.refCount ≤ st'.refCount ∧ st'.id = st.id := by
  have e := run_evolves_keep s ops k hk
  have hkey : st.key = k := Store.get?_key h0
  rcases e.fwd k st h0 (hkb k st h0) with ⟨st', h', r⟩ | ⟨st'', r, d⟩
  · exact ⟨st', h', r.refs (by rw [hkey]; exact fun h => h rfl), r.id⟩
  · exfalso
    have := r.refs (by rw [hkey]; exact fun h => h rfl)
    rw [d.2] at this
    omega

end H2V.Lemmas.ConnResetP
