import H2V.Lemmas.ConnNoPanicPStickyFns
/-
  C08 (no panic) — the first recorded panic message is never overwritten, part 3: the teardown loops, `Store::for_each`,
  `counts.transition`, the settings functions, the frame entry points and the handle calls (inserting ones included).
-/
namespace H2V.Lemmas.ConnNoPanicP.Sticky
open H2V H2V.Model H2V.Model.Conn
attribute [local irreducible] wrapSubU32 wrapSubUsize

-- ===================================================================== queue-draining loops

theorem clearPendingCapacity_st (n : Nat) (s : Streams) : ST s (Streams.clearPendingCapacity n s) := by
  induction n generalizing s with
  | zero => unfold Streams.clearPendingCapacity; exact .refl _
  | succ n ih => unfold Streams.clearPendingCapacity; st_auto_ih ih
theorem clearPendingSend_st (n : Nat) (s : Streams) : ST s (Streams.clearPendingSend n s) := by
  induction n generalizing s with
  | zero => unfold Streams.clearPendingSend; exact .refl _
  | succ n ih => unfold Streams.clearPendingSend; st_auto_ih ih
theorem clearPendingOpen_st (n : Nat) (s : Streams) : ST s (Streams.clearPendingOpen n s) := by
  induction n generalizing s with
  | zero => unfold Streams.clearPendingOpen; exact .refl _
  | succ n ih => unfold Streams.clearPendingOpen; st_auto_ih ih
theorem sendClearQueues_st (s : Streams) : ST s s.sendClearQueues := by
  unfold Streams.sendClearQueues; st_auto
theorem clearExpiredResetStreams_st (n : Nat) (s : Streams) : ST s (Streams.clearExpiredResetStreams n s) := by
  induction n generalizing s with
  | zero => unfold Streams.clearExpiredResetStreams; exact .refl _
  | succ n ih => unfold Streams.clearExpiredResetStreams; st_auto_ih ih
theorem clearStreamWindowUpdateQueue_st (n : Nat) (s : Streams) : ST s (Streams.clearStreamWindowUpdateQueue n s) := by
  induction n generalizing s with
  | zero => unfold Streams.clearStreamWindowUpdateQueue; exact .refl _
  | succ n ih => unfold Streams.clearStreamWindowUpdateQueue; st_auto_ih ih
theorem clearAllResetStreams_st (n : Nat) (s : Streams) : ST s (Streams.clearAllResetStreams n s) := by
  induction n generalizing s with
  | zero => unfold Streams.clearAllResetStreams; exact .refl _
  | succ n ih => unfold Streams.clearAllResetStreams; st_auto_ih ih
theorem clearAllPendingAccept_st (n : Nat) (s : Streams) : ST s (Streams.clearAllPendingAccept n s) := by
  induction n generalizing s with
  | zero => unfold Streams.clearAllPendingAccept; exact .refl _
  | succ n ih => unfold Streams.clearAllPendingAccept; st_auto_ih ih
theorem recvClearQueues_st (s : Streams) (b : Bool) : ST s (s.recvClearQueues b) := by
  unfold Streams.recvClearQueues; st_auto
theorem clearQueues_st (s : Streams) (b : Bool) : ST s (s.clearQueues b) := by
  unfold Streams.clearQueues; st_auto

-- ===================================================================== `counts.transition`, `Store::for_each`, folds

theorem transition_st {α : Type} (s : Streams) (k : Nat) (f : Streams → Streams × α) (hf : ∀ s, ST s (f s).1) :
    ST s (s.transition k f).1 := by
  have : (s.transition k f).1 = (f s).1.transitionAfter k (s.stream k).isPendingResetExpiration := by
    unfold Streams.transition; rfl
  rw [this]
  exact (hf s).trans (transitionAfter_st _ _ _)

theorem tryForEach_st (f : Streams → Nat → Streams × Option PErr) (hf : ∀ s k, ST s (f s k).1) :
    ∀ (fuel i len : Nat) (s : Streams), ST s (Streams.tryForEach f fuel i len s).1 := by
  intro fuel
  induction fuel with
  | zero => intro i len s; exact .refl _
  | succ n ih =>
    intro i len s
    unfold Streams.tryForEach
    split
    · split
      · exact panic_st _ _
      · next id _ =>
        have := hf s id
        split
        · next s' e heq => rw [heq] at this; exact this
        · next s' heq =>
          rw [heq] at this
          dsimp only
          split
          · exact .trans this (ih _ _ _)
          · exact .trans this (ih _ _ _)
    · exact .refl _

theorem storeTryForEach_st (s : Streams) (f : Streams → Nat → Streams × Option PErr) (hf : ∀ s k, ST s (f s k).1) :
    ST s (s.storeTryForEach f).1 := tryForEach_st f hf _ _ _ s

theorem storeForEach_st (s : Streams) (f : Streams → Nat → Streams) (hf : ∀ s k, ST s (f s k)) :
    ST s (s.storeForEach f) := storeTryForEach_st s _ (fun s k => hf s k)

theorem tryForEachAcc_st (f : Nat → Streams → Nat → Streams × Nat × Option PErr) (hf : ∀ a s k, ST s (f a s k).1) :
    ∀ (fuel i len acc : Nat) (s : Streams), ST s (Streams.tryForEachAcc f fuel i len acc s).1 := by
  intro fuel
  induction fuel with
  | zero => intro i len acc s; exact .refl _
  | succ n ih =>
    intro i len acc s
    unfold Streams.tryForEachAcc
    split
    · split
      · exact panic_st _ _
      · next id _ =>
        have := hf acc s id
        split
        · next s' a' e heq => rw [heq] at this; exact this
        · next s' a' heq =>
          rw [heq] at this
          dsimp only
          split
          · exact .trans this (ih _ _ _ _)
          · exact .trans this (ih _ _ _ _)
    · exact .refl _

theorem foldl_st {β : Type} (f : Streams → β → Streams) (hf : ∀ s b, ST s (f s b)) : ∀ (l : List β) (s : Streams), ST s (l.foldl f s) := by
  intro l
  induction l with
  | nil => intro s; exact .refl _
  | cons a l ih => intro s; rw [List.foldl_cons]; exact (hf s a).trans (ih _)

-- ===================================================================== connection errors, EOF

theorem handleError_st (s : Streams) (err : PErr) : ST s (s.handleError err).1 := by
  unfold Streams.handleError; st_auto
theorem recvGoAwayFrame_st (s : Streams) (last : Nat) (r : Reason) (d : Bytes) : ST s (s.recvGoAwayFrame last r d).1 := by
  unfold Streams.recvGoAwayFrame; st_auto
theorem recvEof_st (s : Streams) (b : Bool) : ST s (s.recvEof b) := by
  unfold Streams.recvEof; st_auto

-- ===================================================================== settings

theorem sendApplyRemoteSettings_st (s : Streams) (a b c : Option Nat) : ST s (s.sendApplyRemoteSettings a b c).1 := by
  unfold Streams.sendApplyRemoteSettings; st_auto
theorem applyRemoteSettings_st (s : Streams) (vals : List (Nat × Nat)) (b : Bool) : ST s (s.applyRemoteSettings vals b).1 := by
  unfold Streams.applyRemoteSettings; st_auto
theorem applyLocalSettings_st (s : Streams) (a b : Option Nat) : ST s (s.applyLocalSettings a b).1 := by
  unfold Streams.applyLocalSettings; st_auto
theorem applyLocalSettingsFrame_st (s : Streams) (vals : List (Nat × Nat)) : ST s (s.applyLocalSettingsFrame vals).1 := by
  unfold Streams.applyLocalSettingsFrame; st_auto

-- ===================================================================== frames and handle calls

theorem actionsSendReset_st (s : Streams) (k : Nat) (r : Reason) (i : Initiator) : ST s (s.actionsSendReset k r i).1 := by
  unfold Streams.actionsSendReset; st_auto
theorem refSendReset_st (s : Streams) (k : Nat) (r : Reason) : ST s (s.refSendReset k r) := by
  unfold Streams.refSendReset; st_auto
theorem recvData_st (s : Streams) (id : Nat) (p : Bytes) (eos : Bool) (pad : Option Nat) : ST s (s.recvData id p eos pad).1 := by
  unfold Streams.recvData; st_auto
theorem recvReset_st (s : Streams) (id : Nat) (r : Reason) : ST s (s.recvReset id r).1 := by
  unfold Streams.recvReset; st_auto
theorem refSendResponse_st (s : Streams) (k : Nat) (f : List Hpack.Field) (eos : Bool) : ST s (s.refSendResponse k f eos).1 := by
  unfold Streams.refSendResponse; st_auto
theorem refSendInformationalHeaders_st (s : Streams) (k : Nat) (f : List Hpack.Field) :
    ST s (s.refSendInformationalHeaders k f).1 := by
  unfold Streams.refSendInformationalHeaders; st_auto
theorem refSendData_st (s : Streams) (k len : Nat) (eos : Bool) : ST s (s.refSendData k len eos).1 := by
  unfold Streams.refSendData; st_auto
theorem refSendTrailers_st (s : Streams) (k : Nat) (f : List Hpack.Field) : ST s (s.refSendTrailers k f).1 := by
  unfold Streams.refSendTrailers; st_auto

-- ===================================================================== the operations that insert an entry

theorem recvHeaders_st (s : Streams) (h : HeadersIn) : ST s (s.recvHeaders h).1 := by
  unfold Streams.recvHeaders; st_auto
theorem recvPushPromise_st (s : Streams) (id : Nat) (h : HeadersIn) : ST s (s.recvPushPromise id h).1 := by
  unfold Streams.recvPushPromise; st_auto
theorem innerSendReset_st (s : Streams) (id : Nat) (r : Reason) : ST s (s.innerSendReset id r).1 := by
  unfold Streams.innerSendReset; st_auto
theorem sendRequest_st (s : Streams) (isHead : Bool) (fields : List Hpack.Field) (eos : Bool) (pending : Option Nat) :
    ST s (s.sendRequest isHead fields eos pending).1 := by
  unfold Streams.sendRequest; st_auto
theorem refSendPushPromise_st (s : Streams) (parent : Nat) (valid : Bool) (fields : List Hpack.Field) :
    ST s (s.refSendPushPromise parent valid fields).1 := by
  unfold Streams.refSendPushPromise; st_auto
theorem dropStreamRef_st (s : Streams) (k : Nat) : ST s (s.dropStreamRef k) := by
  unfold Streams.dropStreamRef; st_auto

end H2V.Lemmas.ConnNoPanicP.Sticky
