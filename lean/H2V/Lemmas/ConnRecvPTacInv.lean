import Lean
import H2V.Lemmas.ConnRecvPTac
import H2V.Lemmas.ConnRecvPInv
/-
  C03 — proof automation for `InvD full g d t` goals (same engine as `ext_step`/`ext_let`):
  the head function `f` of `t` is peeled with `f_inv` (an invariant lemma, found by name) or, when
  there is none, with `f_ext` through `InvD.of_ext`.
-/
namespace H2V.Lemmas.ConnRecvP
open H2V H2V.Model H2V.Model.Conn

theorem InvD.of_fst_eq {α : Type} {full : Bool} {g : Ghost} {d : Int} {s' : Streams} {r : α} {p : Streams × α}
    (h : p = (s', r)) (hp : InvD full g d p.1) : InvD full g d s' := by subst h; exact hp

open Lean Elab Tactic Meta in
/-- close a `SameR`/`modRecv` side condition if the standard tactics can -/
def trySide (g : MVarId) (tac : Syntax) : TacticM (List MVarId) := do
  let saved ← saveState
  try
    let gs ← Lean.Elab.Tactic.run g (evalTactic tac)
    if gs.isEmpty then pure [] else do saved.restore; pure [g]
  catch _ => saved.restore; pure [g]

open Lean Elab Tactic Meta in
elab "inv_step" ih:(ident)? : tactic => withMainContext do
  let g ← getMainGoal
  let t ← whnfR (← instantiateMVars (← g.getType))
  unless t.isAppOfArity ``InvD 4 do throwError "inv_step: not an InvD goal"
  let P := t.appFn!
  let pargs := t.getAppArgs     -- full g d t
  let e := t.appArg!
  match extHeadOf e with
  | none => throwError "inv_step: no head"
  | some (.fvar _) =>
    evalTactic (← `(tactic| first
      | with_reducible assumption
      | with_reducible refine InvD.of_fst_eq (by assumption) ?_))
  | some (.const n _) =>
    if n == ``ite || n == ``dite || (← isMatcher n) then throwError "inv_step: control structure"
    let last := match n with
      | .str _ s => s
      | _ => "?"
    let invName := (`H2V.Lemmas.ConnRecvP).str (last ++ "_inv")
    if (← getEnv).contains invName then
      -- apply the invariant lemma: its conclusion must be the goal
      let lem ← mkConstWithFreshMVarLevels invName
      let (args, _, concl) ← forallMetaTelescopeReducing (← inferType lem)
      let concl ← whnfR concl
      unless (← withReducible <| isDefEq concl t) do throwError "inv_step: {invName} does not apply"
      let mut newGoals : Array MVarId := #[]
      for a in args do
        let a ← instantiateMVars a
        if a.isMVar then
          unless (← a.mvarId!.isAssigned) do
            unless (← isProp (← inferType a)) do throwError "inv_step: {invName} leaves data undetermined"
            newGoals := newGoals.push a.mvarId!
      g.assign (mkAppN lem args)
      replaceMainGoal newGoals.toList
    else
      -- an `Ext` step: the field-update lemmas, `modStream`…, or `f_ext` by name
      let candidates : List Name :=
        if n == ``Streams.mk then
          [``setCounts_ext, ``setRefs_ext, ``setConnError_ext, ``setTask_ext, ``unlink_ext, ``remove_ext,
           ``unlinkRemove_ext, ``remove_ext']
        else if n == ``Streams.modStream then [``modStream_ext]
        else if n == ``Streams.modStreamW then [``modStreamW_ext]
        else if n == ``Streams.modRecv then [``modRecv_ext]
        else [(`H2V.Lemmas.ConnRecvP).str (last ++ "_ext")]
      for extName in candidates do
        unless (← getEnv).contains extName do continue
        let saved ← saveState
        let lem ← mkConstWithFreshMVarLevels extName
        let (args, _, concl) ← forallMetaTelescopeReducing (← inferType lem)
        unless concl.isAppOfArity ``Ext 2 do saved.restore; continue
        let mid := concl.appFn!.appArg!
        unless (← withReducible <| isDefEq concl.appArg! e) do saved.restore; continue
        let g1 ← mkFreshExprSyntheticOpaqueMVar (mkApp P mid)
        let mut side : Array MVarId := #[]
        let mut ok := true
        for a in args do
          let a ← instantiateMVars a
          if a.isMVar then
            unless (← a.mvarId!.isAssigned) do
              unless (← isProp (← inferType a)) do ok := false
              side := side.push a.mvarId!
        unless ok do saved.restore; continue
        g.assign (mkApp7 (mkConst ``InvD.of_ext) pargs[0]! pargs[1]! pargs[2]! mid e g1 (mkAppN lem args))
        let mut rest : List MVarId := []
        for sg in side do
          let tac ← if extName == ``modRecv_ext then `(tactic| (intro _; exact ⟨rfl, rfl, rfl⟩))
                    else `(tactic| (intro _ _; samer))
          rest := rest ++ (← trySide sg tac)
        replaceMainGoal (g1.mvarId! :: rest)
        return
      match ih with
      | some ih => evalTactic (← `(tactic| with_reducible exact $ih ..))
      | none => throwError "inv_step: no lemma for {n}"
  | _ => throwError "inv_step: no head"

open Lean Elab Tactic Meta in
/-- goal `InvD full g d (let x := v; b)` (possibly under `.1`): as `ext_let` -/
elab "inv_let" : tactic => withMainContext do
  let g ← getMainGoal
  let t ← whnfR (← instantiateMVars (← g.getType))
  unless t.isAppOfArity ``InvD 4 do throwError "inv_let: not an InvD goal"
  let P := t.appFn!
  let e := t.appArg!
  let rec strip (e : Expr) (fuel : Nat) : Option (Expr × (Expr → Expr)) :=
    match fuel with
    | 0 => none
    | fuel + 1 =>
      match e with
      | .letE .. => some (e, id)
      | .mdata _ b => strip b fuel
      | .proj n i b => (strip b fuel).map fun (l, k) => (l, fun x => .proj n i (k x))
      | .app f a =>
        if (f.isAppOfArity ``Prod.fst 2 || f.isAppOfArity ``Prod.snd 2) then
          (strip a fuel).map fun (l, k) => (l, fun x => .app f (k x))
        else none
      | _ => none
  match strip e 6 with
  | some (.letE n ty v b _, k) =>
    if ty.isConstOf ``Streams then
      let g1 ← mkFreshExprSyntheticOpaqueMVar (mkApp P v)
      let ty2 ← withLocalDeclD n ty fun x => do
        withLocalDeclD `hx (mkApp P x) fun hx => do
          mkForallFVars #[x, hx] (mkApp P (k ((b.instantiate1 x).replace fun e => if e == v then some x else none)))
      let g2 ← mkFreshExprSyntheticOpaqueMVar ty2
      g.assign (mkApp2 g2 v g1)
      let (_, g2') ← g2.mvarId!.introNP 2
      replaceMainGoal [g1.mvarId!, g2']
    else
      let g' ← g.replaceTargetDefEq (mkApp P (k (b.instantiate1 v)))
      replaceMainGoal [g']
  | _ => throwError "inv_let: no let"

macro "inv_auto" : tactic =>
  `(tactic| repeat (any_goals (first | inv_step | inv_let | ext_step | ext_intro | ext_let | split |
      dsimp (config := { zeta := false }) only)))
macro "inv_auto_ih" ih:ident : tactic =>
  `(tactic| repeat (any_goals (first | inv_step $ih | inv_let | ext_step | ext_intro | ext_let | split |
      dsimp (config := { zeta := false }) only)))

end H2V.Lemmas.ConnRecvP

namespace H2V.Lemmas.ConnRecvP
open H2V H2V.Model H2V.Model.Conn

open Lean Elab Tactic Meta in
/-- the outermost `let` of the last argument of the goal `Q (… let x := v; b …)`, looking through `.1`/`.2` -/
def outerLet (e : Expr) : Option (Expr × (Expr → Expr)) :=
  let rec strip (e : Expr) (fuel : Nat) : Option (Expr × (Expr → Expr)) :=
    match fuel with
    | 0 => none
    | fuel + 1 =>
      match e with
      | .letE .. => some (e, id)
      | .mdata _ b => strip b fuel
      | .proj n i b => (strip b fuel).map fun (l, k) => (l, fun x => .proj n i (k x))
      | .app f a =>
        if (f.isAppOfArity ``Prod.fst 2 || f.isAppOfArity ``Prod.snd 2) then
          (strip a fuel).map fun (l, k) => (l, fun x => .app f (k x))
        else none
      | _ => none
  strip e 6

open Lean Elab Tactic Meta in
/-- `abs_let x hx : T` on a goal `Q (let y := v; b)`: two goals, `T[v/x]` and `Q b[x/y]` with `x` and
    `hx : T` in the context: the value of the `let` is forgotten, only `T` is remembered -/
elab "abs_let " x:ident hx:ident " : " T:term : tactic => withMainContext do
  let g ← getMainGoal
  let t := (← instantiateMVars (← g.getType)).consumeMData
  unless t.isApp do throwError "abs_let: goal is not an application {t}"
  let Q := t.appFn!
  let e := t.appArg!
  match outerLet e with
  | some (.letE _ ty v b _, k) =>
    let (ty1, ty2) ← withLocalDeclD x.getId ty fun xv => do
      let Te ← Lean.Elab.Tactic.elabTermEnsuringType T (mkSort .zero)
      let Te ← instantiateMVars Te
      let ty1 := (← mkLambdaFVars #[xv] Te).beta #[v]
      let ty2 ← withLocalDeclD hx.getId Te fun hv => do
        mkForallFVars #[xv, hv] (mkApp Q (k ((b.instantiate1 xv).replace fun e => if e == v then some xv else none)))
      pure (ty1, ty2)
    let g1 ← mkFreshExprSyntheticOpaqueMVar ty1
    let g2 ← mkFreshExprSyntheticOpaqueMVar ty2
    g.assign (mkApp2 g2 v g1)
    let (_, g2') ← g2.mvarId!.introN 2 [x.getId, hx.getId]
    replaceMainGoal [g1.mvarId!, g2']
  | _ => throwError "abs_let: no let"

open Lean Elab Tactic Meta in
/-- substitute the outermost `let` of the last argument of the goal -/
elab "zeta_let" : tactic => withMainContext do
  let g ← getMainGoal
  let t := (← instantiateMVars (← g.getType)).consumeMData
  unless t.isApp do throwError "zeta_let: goal is not an application"
  let Q := t.appFn!
  let e := t.appArg!
  match outerLet e with
  | some (.letE _ _ v b _, k) =>
    let g' ← g.replaceTargetDefEq (mkApp Q (k (b.instantiate1 v)))
    replaceMainGoal [g']
  | _ => throwError "zeta_let: no let"

end H2V.Lemmas.ConnRecvP
