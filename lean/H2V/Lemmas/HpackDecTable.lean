import H2V.Model.HpackDec
import H2V.Spec.Hpack
import H2V.Props.C11Tables
/-
  Part B (table level) — the dynamic-table invariant of h2's `Table` (`size` is the sum of the entry
  sizes and never exceeds `max_size`), its preservation by `insert` / `set_max_size`, the
  unreachability of the `panic!` in `consolidate`, and the equivalence of h2's back-eviction
  (`reserve`, `consolidate`) with the reference's front-recursive `Spec.Hpack.evict`.
-/
namespace H2V.Lemmas.HpackDec
open H2V H2V.Model.Hpack H2V.Generated.Static

/-- sum of the RFC 7541 §4.1 entry sizes -/
def sumSizes (l : List Header) : Nat := (l.map Header.size).sum

@[simp] theorem sumSizes_nil : sumSizes [] = 0 := rfl
@[simp] theorem sumSizes_cons (h : Header) (l : List Header) :
    sumSizes (h :: l) = h.size + sumSizes l := by simp [sumSizes]
@[simp] theorem sumSizes_concat (h : Header) (l : List Header) :
    sumSizes (l ++ [h]) = sumSizes l + h.size := by simp [sumSizes]

/-- `size` is exact -/
def Table.SizeOk (t : Table) : Prop := t.size = sumSizes t.entries

/-- the table invariant: `size` is exact and within `max_size` -/
def Table.Inv (t : Table) : Prop := t.size = (t.entries.map Header.size).sum ∧ t.size ≤ t.maxSize

theorem Table.Inv.sizeOk {t : Table} (h : Table.Inv t) : Table.SizeOk t := h.1

instance (t : Table) : Decidable (Table.Inv t) := by unfold Table.Inv; infer_instance

/-! ### the reference's `evict` -/

theorem fieldSize_eq (h : Header) : Spec.Hpack.fieldSize h = h.size := by
  simp [Spec.Hpack.fieldSize, Header.size]; omega

theorem tableSize_eq (l : List Header) : Spec.Hpack.tableSize l = sumSizes l := by
  induction l with
  | nil => rfl
  | cons h t ih => simp [Spec.Hpack.tableSize, ih, fieldSize_eq]

theorem evict_of_le (l : List Header) (m : Nat) (h : sumSizes l ≤ m) :
    Spec.Hpack.evict l m = l := by
  induction l generalizing m with
  | nil => rfl
  | cons f t ih =>
    simp only [sumSizes_cons] at h
    simp only [Spec.Hpack.evict, fieldSize_eq]
    rw [if_pos (by omega), ih _ (by omega)]

/-- dropping the oldest entry when the whole list does not fit: what h2's back-eviction does -/
theorem evict_concat (l : List Header) (x : Header) (m : Nat) :
    Spec.Hpack.evict (l ++ [x]) m =
      if sumSizes (l ++ [x]) ≤ m then l ++ [x] else Spec.Hpack.evict l m := by
  induction l generalizing m with
  | nil =>
    simp only [List.nil_append, Spec.Hpack.evict, fieldSize_eq, sumSizes_cons, sumSizes_nil,
      Nat.add_zero]
  | cons f t ih =>
    simp only [List.cons_append, Spec.Hpack.evict, fieldSize_eq, sumSizes_cons, ih]
    by_cases h1 : f.size ≤ m
    · simp only [if_pos h1]
      by_cases h2 : sumSizes (t ++ [x]) ≤ m - f.size
      · rw [if_pos h2, if_pos (by omega)]
      · rw [if_neg h2, if_neg (by omega)]
    · simp only [if_neg h1]
      rw [if_neg (by omega)]

theorem sumSizes_evict_le (l : List Header) (m : Nat) : sumSizes (Spec.Hpack.evict l m) ≤ m := by
  induction l generalizing m with
  | nil => simp [Spec.Hpack.evict]
  | cons f t ih =>
    simp only [Spec.Hpack.evict, fieldSize_eq]
    split
    · have := ih (m - f.size)
      simp only [sumSizes_cons]; omega
    · simp

/-! ### `Table::reserve` -/

theorem reserve_go_spec (n : Nat) : ∀ (fuel : Nat) (t : Table),
    Table.SizeOk t → t.entries.length ≤ fuel →
    Table.SizeOk (Table.reserve.go n fuel t) ∧
    (Table.reserve.go n fuel t).maxSize = t.maxSize ∧
    (Table.reserve.go n fuel t).size ≤ t.size ∧
    (Table.reserve.go n fuel t).entries =
      (if n ≤ t.maxSize then Spec.Hpack.evict t.entries (t.maxSize - n) else []) := by
  intro fuel
  induction fuel with
  | zero =>
    intro t hs hl
    have he : t.entries = [] := List.eq_nil_of_length_eq_zero (by omega)
    simp [Table.reserve.go, hs, he, Spec.Hpack.evict]
  | succ fuel ih =>
    intro t hs hl
    simp only [Table.reserve.go]
    split
    · rename_i hgt
      split
      · rename_i last hlast
        obtain ⟨ini, hini⟩ := List.getLast?_eq_some_iff.1 hlast
        have hs' : Table.SizeOk { t with entries := t.entries.dropLast, size := t.size - last.size } := by
          unfold Table.SizeOk at hs ⊢
          simp only [hini, List.dropLast_concat, sumSizes_concat] at hs ⊢
          omega
        obtain ⟨i1, i2, i3, i4⟩ := ih _ hs' (by simp [hini] at hl ⊢; omega)
        refine ⟨i1, i2, by simp only at i3; omega, ?_⟩
        rw [i4]
        simp only [hini, List.dropLast_concat]
        split
        · rename_i hle
          rw [evict_concat, if_neg]
          unfold Table.SizeOk at hs
          rw [hini] at hs
          omega
        · rfl
      · rename_i hnone
        have he : t.entries = [] := List.getLast?_eq_none_iff.1 hnone
        refine ⟨hs, rfl, Nat.le_refl _, ?_⟩
        simp [he, Spec.Hpack.evict]
    · rename_i hle
      refine ⟨hs, rfl, Nat.le_refl _, ?_⟩
      rw [if_pos (by omega), evict_of_le]
      unfold Table.SizeOk at hs
      omega

theorem reserve_spec (t : Table) (n : Nat) (hs : Table.SizeOk t) :
    Table.SizeOk (t.reserve n) ∧ (t.reserve n).maxSize = t.maxSize ∧ (t.reserve n).size ≤ t.size ∧
    (t.reserve n).entries =
      (if n ≤ t.maxSize then Spec.Hpack.evict t.entries (t.maxSize - n) else []) :=
  reserve_go_spec n _ t hs (Nat.le_refl _)

/-! ### `Table::insert` -/

theorem insert_maxSize (t : Table) (h : Header) (hs : Table.SizeOk t) :
    (t.insert h).maxSize = t.maxSize := by
  obtain ⟨_, r2, _, _⟩ := reserve_spec t h.size hs
  unfold Table.insert
  simp only
  split <;> simp [r2]

/-- B — `insert` preserves the invariant -/
theorem insert_preserves_inv (t : Table) (h : Header) (hi : Table.Inv t) : Table.Inv (t.insert h) := by
  obtain ⟨r1, r2, r3, _⟩ := reserve_spec t h.size hi.sizeOk
  unfold Table.insert
  simp only
  split
  · rename_i hfit
    refine ⟨?_, hfit⟩
    have : (t.reserve h.size).size = sumSizes (t.reserve h.size).entries := r1
    simp only [List.map_cons, List.sum_cons]
    unfold sumSizes at this
    omega
  · exact ⟨r1, by have := hi.2; omega⟩

/-- `insert` is the reference's §4.4 insertion -/
theorem insert_entries (t : Table) (h : Header) (hi : Table.Inv t) :
    (t.insert h).entries =
      (if h.size ≤ t.maxSize then h :: Spec.Hpack.evict t.entries (t.maxSize - h.size) else []) := by
  obtain ⟨r1, r2, r3, r4⟩ := reserve_spec t h.size hi.sizeOk
  unfold Table.insert
  simp only
  by_cases hle : h.size ≤ t.maxSize
  · rw [if_pos hle] at r4 ⊢
    have hsum := sumSizes_evict_le t.entries (t.maxSize - h.size)
    have : (t.reserve h.size).size = sumSizes (t.reserve h.size).entries := r1
    rw [r4] at this
    rw [if_pos (by omega)]
    simp [r4]
  · rw [if_neg hle] at r4 ⊢
    rw [if_neg (by omega)]
    exact r4

/-! ### `Table::consolidate` / `set_max_size` -/

theorem consolidate_spec : ∀ (fuel : Nat) (t : Table),
    Table.SizeOk t → t.entries.length ≤ fuel →
    ∃ r, Table.consolidate fuel t = some r ∧ Table.Inv r ∧ r.maxSize = t.maxSize ∧
      r.entries = Spec.Hpack.evict t.entries t.maxSize := by
  intro fuel
  induction fuel with
  | zero =>
    intro t hs hl
    have he : t.entries = [] := List.eq_nil_of_length_eq_zero (by omega)
    have hz : t.size = 0 := by rw [hs, he]; rfl
    refine ⟨t, ?_, ⟨?_, by omega⟩, rfl, ?_⟩
    · simp only [Table.consolidate]; rw [if_neg (by omega)]
    · exact hs
    · simp [he, Spec.Hpack.evict]
  | succ fuel ih =>
    intro t hs hl
    simp only [Table.consolidate]
    split
    · rename_i hgt
      split
      · rename_i last hlast
        obtain ⟨ini, hini⟩ := List.getLast?_eq_some_iff.1 hlast
        have hs' : Table.SizeOk { t with entries := t.entries.dropLast, size := t.size - last.size } := by
          unfold Table.SizeOk at hs ⊢
          simp only [hini, List.dropLast_concat, sumSizes_concat] at hs ⊢
          omega
        obtain ⟨r, i1, i2, i3, i4⟩ := ih _ hs' (by simp [hini] at hl ⊢; omega)
        refine ⟨r, i1, i2, i3, ?_⟩
        rw [i4]
        simp only [hini, List.dropLast_concat]
        rw [evict_concat, if_neg]
        unfold Table.SizeOk at hs
        rw [hini] at hs
        omega
      · rename_i hnone
        have he : t.entries = [] := List.getLast?_eq_none_iff.1 hnone
        have hz : t.size = 0 := by rw [hs, he]; rfl
        omega
    · rename_i hle
      refine ⟨t, rfl, ⟨hs, by omega⟩, rfl, ?_⟩
      rw [evict_of_le]
      unfold Table.SizeOk at hs
      omega

/-- B — `set_max_size` never reaches the `panic!` of `consolidate`, re-establishes the invariant,
    and is the reference's §4.3 eviction -/
theorem setMaxSize_spec (t : Table) (n : Nat) (hs : Table.SizeOk t) :
    ∃ r, t.setMaxSize n = some r ∧ Table.Inv r ∧ r.maxSize = n ∧
      r.entries = Spec.Hpack.evict t.entries n :=
  consolidate_spec _ { t with maxSize := n } hs (Nat.le_refl _)

/-- B — the `panic!` in `consolidate` is unreachable (only `size = Σ entry sizes` is needed) -/
theorem consolidate_ne_none (t : Table) (n : Nat) (hs : Table.SizeOk t) : t.setMaxSize n ≠ none := by
  obtain ⟨r, h, _⟩ := setMaxSize_spec t n hs
  rw [h]; simp

theorem setMaxSize_preserves_inv (t r : Table) (n : Nat) (hi : Table.Inv t)
    (h : t.setMaxSize n = some r) : Table.Inv r ∧ r.maxSize = n := by
  obtain ⟨r', h', i1, i2, _⟩ := setMaxSize_spec t n hi.sizeOk
  rw [h] at h'
  cases h'
  exact ⟨i1, i2⟩

/-- B — the table of a fresh decoder satisfies the invariant -/
theorem new_inv (n : Nat) : Table.Inv (Decoder.new n).table := by
  simp [Decoder.new, Table.Inv]

/-! ### `Table::get` against the reference's index space -/

theorem get_eq_lookup (t : Table) (st : Spec.Hpack.St) (i : Nat) (he : st.entries = t.entries) :
    t.get i = (match Spec.Hpack.lookup st i with | some h => .ok h | none => .error .invalidTableIndex) := by
  unfold Table.get Spec.Hpack.lookup
  simp only [STATIC_LEN, DYN_OFFSET, H2V.Props.C11.static_table_is_rfc, he]
  split
  · rfl
  · split
    · split <;> simp_all
    · split <;> simp_all

end H2V.Lemmas.HpackDec
