import H2V.Lemmas.ConnCountsPInvH
/-
  C05 — invariants, part I: `Inv2` along `EvB` and `EvT`.
-/
namespace H2V.Lemmas.ConnCountsP
open H2V H2V.Model H2V.Model.Conn

theorem cd_incReset {c c' : Counts} (h : c.incNumResetStreams = some c') : CD c c' := by
  unfold Counts.incNumResetStreams at h
  split at h
  · cases h; exact ⟨rfl, rfl, rfl, Nat.le_refl _⟩
  · cases h

theorem cd_decReset {c c' : Counts} (h : c.decNumResetStreams = some c') : CD c c' := by
  unfold Counts.decNumResetStreams at h
  split at h
  · cases h; exact ⟨rfl, rfl, rfl, Nat.le_refl _⟩
  · cases h

theorem EvB.inv2 {ρ : Bool} {s s' : Streams} (h : EvB ρ s s') :
    ∀ (sv : Bool) (E : Nat → Prop), s'.panicked = none → KeysOK s → (ρ = true → ∀ k, ¬ E k) → Inv2 sv E s → Inv2 sv E s' := by
  induction h with
  | refl s => exact fun _ _ _ _ _ h => h
  | trans e1 e2 ih1 ih2 =>
    intro sv E hp hA hE hi
    have hpb := noPanic_of_mono e2.mono hp
    exact ih2 sv E hp (e1.keysOK hA) hE (ih1 sv E hpb hA hE hi)
  | free h => exact fun _ _ _ hA _ hi => (DF.of_frame h).inv2 hA hi
  | setStream st' h => exact fun _ _ _ hA _ hi => (DF.setStream _ _ (fun x hx => SameD.of_same (h x hx))).inv2 hA hi
  | qPush q k _ hq => exact fun _ _ _ hA _ hi => (DF.qPush _ _ _ hq).inv2 hA hi
  | qPushFront q k _ hq => exact fun _ _ _ hA _ hi => (DF.qPushFront _ _ _ hq).inv2 hA hi
  | qPushOpen k hl => exact fun _ _ hp hA _ hi => hi.qPushOpen hA hp hl
  | qPop q _ _ => exact fun _ _ _ hA _ hi => (DF.qPop _ _).inv2 hA hi
  | qPopOpen => exact fun _ _ _ hA _ hi => (DF.qPop _ _).inv2 hA hi
  | resetEnq k _ _ _ =>
    exact fun _ _ _ hA _ hi => ((DF.modCountsA _ _ _ (fun _ hc => cd_incReset hc)).trans (DF.qPush _ _ _ (by decide))).inv2 hA hi
  | insert st hf hrem =>
    intro sv E _ hA _ hi
    refine hi.insert hA st hf ?_
    intro hl
    rw [isLocalInit_eq, hi.role] at hrem
    rw [hrem] at hl; cases hl
  | bracket st hf body post ih =>
    rename_i s0 s1
    intro sv E hp hA hE hi
    -- inside the bracket the new entry may be unopened although locally initiated
    have hi1 : Inv2 sv (fun j => j = s0.store.nextKey) { s0 with store := (s0.store.insert st).1 } := by
      have hi' : Inv2 sv (fun j => j = s0.store.nextKey) s0 :=
        ⟨hi.role, hi.p1, hi.ids, hi.fr, fun herr k x hx hl he => absurd (hi.p3 herr k x hx hl he) (hE rfl k), hi.dir, hi.next⟩
      exact hi'.insert hA st hf (fun _ => rfl)
    have hi2 := ih sv _ hp (hA.insert st) (fun h => nomatch h) hi1
    refine ⟨hi2.role, hi2.p1, hi2.ids, hi2.fr, ?_, hi2.dir, hi2.next⟩
    intro herr k x hx hl he
    have hk := hi2.p3 herr k x hx hl he
    subst hk
    exact absurd he (post herr x hx)
  | unlink id => exact fun _ _ _ hA _ hi => (DF.unlink _ id).inv2 hA hi
  | remove k n hg => exact fun _ _ _ hA _ hi => hi.remove hA k n (fun st hst => (hg st hst).1)
  | popOpen _ =>
    rename_i s0 _
    intro sv E hp hA _ hi
    have hdf := DF.qPop s0 QName.pendingOpen
    unfold Streams.qPop at hdf hp ⊢
    cases hq : s0.getQ .pendingOpen with
    | nil => simp only [hq] at hdf hp ⊢; exact hi
    | cons id rest =>
      simp only [hq] at hdf hp ⊢
      have hmem : id ∈ s0.prio.pendingOpen := by
        have : s0.prio.pendingOpen = id :: rest := hq
        rw [this]; exact List.mem_cons_self
      have hp1 := (hi.p1 id hmem).2
      generalize ((s0.setQ .pendingOpen rest).modStream id fun st => st.setQueued .pendingOpen false) = s1 at hdf hp ⊢
      refine (hdf.inv2 hA hi).incSend (hdf.keys.keysOK hA) hp ?_
      intro y hy
      obtain ⟨y0, hy0, d⟩ := hdf.desc id y hy
      rw [d.id]; exact hp1 y0 hy0
  | acceptFlag k v =>
    exact fun _ _ _ hA _ hi => (DF.modStream _ k (fun st => { st with isPendingAccept := v }) (fun _ => rfl)
      (fun _ => ⟨rfl, rfl, fun h => h, fun _ h _ => h⟩)).inv2 hA hi
  | queuePP k pk pid fields hl => exact fun _ _ _ hA _ hi => hi.queuePP hA k pk pid fields hl
  | ppAct sid pk pid fields rest pushed hhead hfind =>
    exact fun _ _ hp hA _ hi => hi.ppAct hA sid pk pid fields rest pushed hhead hfind hp
  | incRecv k st' s1 he hf =>
    rename_i s0
    intro sv E hp hA hE hi
    have hdf1 : DF s0 (s0.modStream k fun st => { st with state := st' }) := by
      refine DF.modStreamAt s0 k _ (fun _ => rfl) ?_
      intro x hx
      refine ⟨rfl, rfl, fun _ => ?_, fun _ h _ => h⟩
      rw [stream_of_get? hx] at he; exact he
    have hdf := hdf1.trans (DF.of_frame hf)
    refine (hdf.inv2 hA hi).incRecvStep (hdf.keys.keysOK hA) hp ?_
    intro herr y hy
    obtain ⟨y0, hy0, d⟩ := hdf.desc k y hy
    have herr0 : ErrOK s0 := by
      have h1 := (DE.incNumRecvStreams (G := fun _ => False) s1 k).counts.errOK herr
      exact hdf.counts |> fun c => CE.errOK (CE.of_cd c) h1
    rw [d.id]
    cases hloc : locId sv y0.id with
    | false => rfl
    | true =>
      exfalso
      rw [stream_of_get? hy0] at he
      exact hE rfl k (hi.p3 herr0 k y0 hy0 hloc he)
  | decNum k => exact fun _ _ hp hA _ hi => hi.decNum hA hp

theorem EvT.inv2 {s s' : Streams} (h : EvT s s') :
    ∀ (sv : Bool), s'.panicked = none → KeysOK s → Inv2 sv (fun _ => False) s → Inv2 sv (fun _ => False) s' := by
  induction h with
  | ev h => exact fun sv hp hA hi => h.inv2 sv _ hp hA (fun _ _ h => h) hi
  | trans e1 e2 ih1 ih2 =>
    intro sv hp hA hi
    exact ih2 sv hp (e1.keysOK hA) (ih1 sv (e2.mono_panic hp) hA hi)
  | resetPop =>
    rename_i s0
    intro sv hp hA hi
    have hdf := DF.qPop s0 QName.pendingResetExpired
    cases hq : s0.qPop .pendingResetExpired with
    | mk s1 o =>
      rw [hq] at hdf
      cases o with
      | none => simp only [hq] at hp ⊢; exact hdf.inv2 hA hi
      | some id =>
        simp only [hq] at hp ⊢
        rw [transitionAfter_split] at hp ⊢
        have hi1 := hdf.inv2 hA hi
        have hA1 := hdf.keys.keysOK hA
        have e2 := transitionAfter_false_ev (if (true && !(s1.stream id).isPendingResetExpiration) = true then
            s1.modCountsA "self.num_local_reset_streams > 0" Counts.decNumResetStreams else s1) id
        refine e2.inv2 sv _ hp ?_ (fun _ _ h => h) ?_
        · split
          · exact (SameKeys.modCountsA _ _ _).keysOK hA1
          · exact hA1
        · split
          · exact (DF.modCountsA _ _ _ (fun _ hc => cd_decReset hc)).inv2 hA1 hi1
          · exact hi1

end H2V.Lemmas.ConnCountsP
