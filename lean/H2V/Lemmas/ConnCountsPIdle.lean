import H2V.Model.ConnDriver
/-
  C19 — the idle-close rule of `client::Connection::poll`.
-/
namespace H2V.Lemmas.ConnCountsP
open H2V H2V.Model H2V.Model.Conn

theorem ite_panic_goAway (p : Prop) [Decidable p] (x : Conn) (m : String) :
    (if p then x else x.panic m).goAway = x.goAway := by
  split <;> rfl

/-- `go_away_now(NO_ERROR)`: afterwards the connection is going away with `NO_ERROR` and closes as
    soon as the GOAWAY frame is out; the frame is pending unless the very same GOAWAY was already
    announced -/
theorem goAwayNow_noError (c : Conn) :
    (c.goAwayNow NO_ERROR).goAway.closeNow = true ∧
    (∃ ga, (c.goAwayNow NO_ERROR).goAway.goingAway = some ga ∧ ga.reason = NO_ERROR ∧
           ga.lastProcessedId = c.streams.recv.lastProcessedId) ∧
    ((c.goAwayNow NO_ERROR).goAway.pending =
        some { lastStreamId := c.streams.recv.lastProcessedId, reason := NO_ERROR, debugData := [] } ∨
     (c.goAway.goingAway = some { lastProcessedId := c.streams.recv.lastProcessedId, reason := NO_ERROR } ∧
      (c.goAwayNow NO_ERROR).goAway.pending = c.goAway.pending)) := by
  have hg : (c.goAwayNow NO_ERROR).goAway =
      (c.goAway.goAwayNow { lastStreamId := c.streams.recv.lastProcessedId, reason := NO_ERROR, debugData := [] }).1 := by
    unfold Conn.goAwayNow Conn.goAwayNowData
    dsimp only
    rw [ite_panic_goAway]
  rw [hg]
  unfold GoAway.goAwayNow
  dsimp only
  cases hga : c.goAway.goingAway with
  | none => exact ⟨rfl, ⟨_, rfl, rfl, rfl⟩, .inl rfl⟩
  | some ga =>
    dsimp only
    split
    · next heq =>
      simp only [Bool.and_eq_true, beq_iff_eq] at heq
      refine ⟨rfl, ⟨ga, rfl, heq.2, heq.1⟩, .inr ⟨?_, rfl⟩⟩
      obtain ⟨l, r⟩ := ga
      simp only at heq
      rw [heq.1, heq.2]
    · exact ⟨rfl, ⟨_, rfl, rfl, rfl⟩, .inl rfl⟩

/-- `client::Connection::poll` with no stream and no handle left starts with `go_away_now(NO_ERROR)` -/
theorem clientPoll_idle (fuel : Nat) (c : Conn) (h : c.hasStreamsOrOtherReferences = false) :
    (c.clientPoll fuel).2 = (Conn.protoPoll fuel (c.goAwayNow NO_ERROR)).2 := by
  unfold Conn.clientPoll
  simp only [h, Bool.not_false, if_true]

/-- … and with streams or handles left it does not -/
theorem clientPoll_busy (fuel : Nat) (c : Conn) (h : c.hasStreamsOrOtherReferences = true) :
    (c.clientPoll fuel).2 = (Conn.protoPoll fuel c).2 := by
  unfold Conn.clientPoll
  simp only [h, Bool.not_true, Bool.false_eq_true, if_false]

/-- the connection of a fresh client whose only `SendRequest` has been dropped -/
def idleClient : Conn := let c := Conn.init {}; { c with streams := c.streams.dropHandle }

def isDone : PollRes → Bool
  | .ready (.ok _) => true
  | _ => false

/-- a complete run: the idle client writes GOAWAY(NO_ERROR), shuts the transport down and its future
    completes with `Ok(())` -/
theorem idleClient_run :
    idleClient.hasStreamsOrOtherReferences = false ∧
    isDone (idleClient.clientPoll 50).2 = true ∧
    (idleClient.clientPoll 50).1.codec.io.tx = ["PREFACE", "S:0:0:-", "G:0:0:0:-"] ∧
    (idleClient.clientPoll 50).1.codec.io.shutdownCalled = true := by
  decide +kernel

end H2V.Lemmas.ConnCountsP
