import H2V.Lemmas.ConnWakePGoodFns
import H2V.Lemmas.ConnWakePFindings
/-
  ConnWakeP, part 16 — the operations of the stream layer as one inductive type, `Reachable`, and the
  invariants that hold in every reachable state.

  `Op` lists every function of `Streams` that `ConnProto.lean` (the connection task) and
  `ConnDriver.lean` (the handles) call and that is not a `poll_*` function; `Poll` lists the `poll_*`
  functions (the only ones that park wakers).  A state is `Reachable` when it is obtained from an
  initial state of either role (`Conn.init g`, `Conn.initServer g ecp first`) by any sequence of `Op`s
  and `Poll`s with ANY arguments, interleaved with the driver's clearing of the wake log — an
  over-approximation of what the connection and the harness can do (arguments are not restricted to
  the ones the callers compute, e.g. the writer handed to `buffer_pending` is arbitrary).
-/
namespace H2V.Lemmas.ConnWakeP
open H2V H2V.Model H2V.Model.Conn

/-- the non-`poll_*` operations -/
inductive Op where
  -- what the connection task does
  | recvHeaders (h : HeadersIn)
  | recvData (sid : Nat) (p : Bytes) (eos : Bool) (pad : Option Nat)
  | recvReset (sid : Nat) (r : Reason)
  | recvWindowUpdate (sid inc : Nat)
  | recvPushPromise (sid : Nat) (h : HeadersIn)
  | recvGoAwayFrame (last : Nat) (r : Reason) (d : Bytes)
  | recvEof (clearPendingAccept : Bool)
  | handleError (e : PErr)
  | applyRemoteSettings (v : List (Nat × Nat)) (isInitial : Bool)
  | applyLocalSettingsFrame (v : List (Nat × Nat))
  | innerSendReset (sid : Nat) (r : Reason)
  | recvGoAway (last : Nat)
  | clearExpiredResetStreams (n : Nat)
  | bufferPending (n : Nat) (w : Writer)
  | reclaimFrame (w : Writer)
  | pollSendPendingRefusal (n : Nat) (w : Writer) (io : Tio) (tag : String)
  | setTargetConnectionWindow (t : Nat)
  | wake (tags : List String)
  | panic (m : String)
  -- what the handles do
  | sendRequest (isHead : Bool) (f : List Hpack.Field) (eos : Bool) (pending : Option Nat)
  | refSendData (k len : Nat) (eos : Bool)
  | refSendTrailers (k : Nat) (f : List Hpack.Field)
  | refSendReset (k : Nat) (r : Reason)
  | refReserveCapacity (k c : Nat)
  | refReleaseCapacity (k c : Nat)
  | refClearRecvBuffer (k : Nat)
  | dropStreamRef (k : Nat)
  | cloneStreamRef (k : Nat)
  | cloneHandle
  | dropHandle
  | nextIncoming
  | recvTakeRequest (k : Nat)
  | refSendResponse (k : Nat) (f : List Hpack.Field) (eos : Bool)
  | refSendInformationalHeaders (k : Nat) (f : List Hpack.Field)
  | refSendPushPromise (k : Nat) (valid : Bool) (f : List Hpack.Field)

def Op.apply : Op → Streams → Streams
  | .recvHeaders h, s => (s.recvHeaders h).1
  | .recvData sid p eos pad, s => (s.recvData sid p eos pad).1
  | .recvReset sid r, s => (s.recvReset sid r).1
  | .recvWindowUpdate sid inc, s => (s.recvWindowUpdate sid inc).1
  | .recvPushPromise sid h, s => (s.recvPushPromise sid h).1
  | .recvGoAwayFrame l r d, s => (s.recvGoAwayFrame l r d).1
  | .recvEof b, s => s.recvEof b
  | .handleError e, s => (s.handleError e).1
  | .applyRemoteSettings v b, s => (s.applyRemoteSettings v b).1
  | .applyLocalSettingsFrame v, s => (s.applyLocalSettingsFrame v).1
  | .innerSendReset sid r, s => (s.innerSendReset sid r).1
  | .recvGoAway l, s => s.recvGoAway l
  | .clearExpiredResetStreams n, s => Streams.clearExpiredResetStreams n s
  | .bufferPending n w, s => (Streams.bufferPending n s w).1
  | .reclaimFrame w, s => (s.reclaimFrame w).1
  | .pollSendPendingRefusal n w io t, s => (Streams.pollSendPendingRefusal n s w io t).1
  | .setTargetConnectionWindow t, s => (s.setTargetConnectionWindow t).1
  | .wake tags, s => s.wake tags
  | .panic m, s => s.panic m
  | .sendRequest b f eos p, s => (s.sendRequest b f eos p).1
  | .refSendData k len eos, s => (s.refSendData k len eos).1
  | .refSendTrailers k f, s => (s.refSendTrailers k f).1
  | .refSendReset k r, s => s.refSendReset k r
  | .refReserveCapacity k c, s => s.refReserveCapacity k c
  | .refReleaseCapacity k c, s => (s.refReleaseCapacity k c).1
  | .refClearRecvBuffer k, s => s.refClearRecvBuffer k
  | .dropStreamRef k, s => s.dropStreamRef k
  | .cloneStreamRef k, s => s.cloneStreamRef k
  | .cloneHandle, s => s.cloneHandle
  | .dropHandle, s => s.dropHandle
  | .nextIncoming, s => s.nextIncoming.1
  | .recvTakeRequest k, s => (s.recvTakeRequest k).1
  | .refSendResponse k f eos, s => (s.refSendResponse k f eos).1
  | .refSendInformationalHeaders k f, s => (s.refSendInformationalHeaders k f).1
  | .refSendPushPromise k v f, s => (s.refSendPushPromise k v f).1

/-- **every non-`poll_*` operation is a `Step`**: no waker slot is emptied without its tag being
    written to the wake log, none is filled, `Closed` is absorbing, `conn_error` is sticky, the
    capacity flag only rises together with a wake of the send/open wakers, `pending_recv` only
    grows together with a wake of the receive waker -/
theorem Op.step (op : Op) (s : Streams) : Step none s (op.apply s) := by
  have h := Step.refl none s
  cases op <;> simp only [Op.apply]
  case recvHeaders hd => exact recvHeaders_acc hd h
  case recvData sid p eos pad => exact recvData_acc sid p eos pad h
  case recvReset sid r => exact recvReset_acc sid r h
  case recvWindowUpdate sid inc => exact recvWindowUpdate_acc sid inc h
  case recvPushPromise sid hd => exact recvPushPromise_acc sid hd h
  case recvGoAwayFrame l r d => exact recvGoAwayFrame_acc l r d h
  case recvEof b => exact recvEof_acc b h
  case handleError e => exact handleError_acc e h
  case applyRemoteSettings v b => exact applyRemoteSettings_acc v b h
  case applyLocalSettingsFrame v => exact applyLocalSettingsFrame_acc v h
  case innerSendReset sid r => exact innerSendReset_acc sid r h
  case recvGoAway l => exact recvGoAway_acc l h
  case clearExpiredResetStreams n => exact clearExpiredResetStreams_acc n h
  case bufferPending n w => exact bufferPending_acc n w h
  case reclaimFrame w => exact reclaimFrame_acc w h
  case pollSendPendingRefusal n w io t => exact pollSendPendingRefusal_acc n w io t h
  case setTargetConnectionWindow t => exact setTargetConnectionWindow_acc t h
  case wake tags => exact wake_acc tags h
  case panic m => exact panic_acc m h
  case sendRequest b f eos p => exact sendRequest_acc b f eos p h
  case refSendData k len eos => exact refSendData_acc k len eos h
  case refSendTrailers k f => exact refSendTrailers_acc k f h
  case refSendReset k r => exact refSendReset_acc k r h
  case refReserveCapacity k c => exact refReserveCapacity_acc k c h
  case refReleaseCapacity k c => exact refReleaseCapacity_acc k c h
  case refClearRecvBuffer k => exact refClearRecvBuffer_acc k h
  case dropStreamRef k => exact dropStreamRef_acc k h
  case cloneStreamRef k => exact cloneStreamRef_acc k h
  case cloneHandle => exact cloneHandle_acc h
  case dropHandle => exact dropHandle_acc h
  case nextIncoming => exact nextIncoming_acc h
  case recvTakeRequest k => exact recvTakeRequest_acc k h
  case refSendResponse k f eos => exact refSendResponse_acc k f eos h
  case refSendInformationalHeaders k f => exact refSendInformationalHeaders_acc k f h
  case refSendPushPromise k v f => exact refSendPushPromise_acc k v f h

theorem Op.good (op : Op) {s : Streams} (h : Good s) : Good (op.apply s) := by
  cases op <;> simp only [Op.apply]
  case recvHeaders hd => exact recvHeaders_good hd h
  case recvData sid p eos pad => exact recvData_good sid p eos pad h
  case recvReset sid r => exact recvReset_good sid r h
  case recvWindowUpdate sid inc => exact recvWindowUpdate_good sid inc h
  case recvPushPromise sid hd => exact recvPushPromise_good sid hd h
  case recvGoAwayFrame l r d => exact recvGoAwayFrame_good l r d h
  case recvEof b => exact recvEof_good b h
  case handleError e => exact handleError_good e h
  case applyRemoteSettings v b => exact applyRemoteSettings_good v b h
  case applyLocalSettingsFrame v => exact applyLocalSettingsFrame_good v h
  case innerSendReset sid r => exact innerSendReset_good sid r h
  case recvGoAway l => exact recvGoAway_good l h
  case clearExpiredResetStreams n => exact clearExpiredResetStreams_good n h
  case bufferPending n w => exact bufferPending_good n w h
  case reclaimFrame w => exact reclaimFrame_good w h
  case pollSendPendingRefusal n w io t => exact pollSendPendingRefusal_good n w io t h
  case setTargetConnectionWindow t => exact setTargetConnectionWindow_good t h
  case wake tags => exact wake_good tags h
  case panic m => exact panic_good m h
  case sendRequest b f eos p => exact sendRequest_good b f eos p h
  case refSendData k len eos => exact refSendData_good k len eos h
  case refSendTrailers k f => exact refSendTrailers_good k f h
  case refSendReset k r => exact refSendReset_good k r h
  case refReserveCapacity k c => exact refReserveCapacity_good k c h
  case refReleaseCapacity k c => exact refReleaseCapacity_good k c h
  case refClearRecvBuffer k => exact refClearRecvBuffer_good k h
  case dropStreamRef k => exact dropStreamRef_good k h
  case cloneStreamRef k => exact cloneStreamRef_good k h
  case cloneHandle => exact cloneHandle_good h
  case dropHandle => exact dropHandle_good h
  case nextIncoming => exact nextIncoming_good h
  case recvTakeRequest k => exact recvTakeRequest_good k h
  case refSendResponse k f eos => exact refSendResponse_good k f eos h
  case refSendInformationalHeaders k f => exact refSendInformationalHeaders_good k f h
  case refSendPushPromise k v f => exact refSendPushPromise_good k v f h

-- ===================================================================== the `poll_*` functions

/-- the operations that park a waker -/
inductive Poll where
  | capacity (k : Nat) (tag : String)
  | reset (k : Nat) (mode : PollReset) (tag : String)
  | response (n k : Nat) (tag : String)
  | informational (k : Nat) (tag : String)
  | data (k : Nat) (tag : String)
  | trailers (k : Nat) (tag : String)
  | pendingOpen (p : Option Nat) (tag : String)
  /-- `poll_complete` registering the connection task -/
  | parkConnection (tag : String)

def Poll.apply : Poll → Streams → Streams
  | .capacity k t, s => (s.pollCapacity k t).1
  | .reset k m t, s => (s.pollReset k m t).1
  | .response n k t, s => (Streams.recvPollResponse n s k t).1
  | .informational k t, s => (s.recvPollInformational k t).1
  | .data k t, s => (s.refPollData k t).1
  | .trailers k t, s => (s.recvPollTrailers k t).1
  | .pendingOpen p t, s => (s.pollPendingOpen p t).1
  | .parkConnection t, s => { s with actions := { s.actions with task := some t } }

section
variable {s : Streams}

/-- an update that keeps key and stream id keeps the store invariant (the `poll_*` functions: they
    write waker slots, pop the receive queue, clear `send_capacity_inc`) -/
theorem modStream_good_id (k : Nat) (f : Stream → Stream) (hk : (f (s.stream k)).key = (s.stream k).key)
    (hi : (f (s.stream k)).id = (s.stream k).id) (h : Good s) : Good (s.modStream k f) := by
  unfold Streams.modStream
  split
  · next a ha =>
    rw [stream_eq_of_get? ha] at hk hi
    have hak : (f a).key = k := by rw [hk]; exact Store.get?_key ha
    exact setStream_good' (f a) (by rw [hak, stream_eq_of_get? ha]; exact hi) h
  · exact panic_good _ h

theorem pollCapacity_good (k : Nat) (t : String) (h : Good s) : Good (s.pollCapacity k t).1 := by
  unfold Streams.pollCapacity
  simp only
  split
  · exact h
  · split
    · exact modStream_good_id k _ rfl rfl h
    · split
      · exact modStream_good_id k _ rfl rfl (modStream_good_id k _ rfl rfl h)
      · exact modStream_good_id k _ rfl rfl h
theorem pollReset_good (k : Nat) (m : PollReset) (t : String) (h : Good s) : Good (s.pollReset k m t).1 := by
  unfold Streams.pollReset
  split
  · exact h
  · exact h
  · exact modStream_good_id k _ rfl rfl h
theorem scheduleRecv_good (k : Nat) (t : String) (h : Good s) : Good (s.scheduleRecv k t).1 := by
  unfold Streams.scheduleRecv
  split
  · exact h
  · exact modStream_good_id k _ rfl rfl h
  · exact h
theorem recvPollData_good (k : Nat) (t : String) (h : Good s) : Good (s.recvPollData k t).1 := by
  unfold Streams.recvPollData
  split
  · exact modStream_good_id k _ rfl rfl h
  · exact modStreamW_good k _ (notifyRecv_sstep _) h
  · have := scheduleRecv_good k t h
    split <;> next heq => (rw [heq] at this; exact this)
theorem refPollData_good (k : Nat) (t : String) (h : Good s) : Good (s.refPollData k t).1 := by
  unfold Streams.refPollData
  have := recvPollData_good k t h
  split
  · next heq =>
    rw [heq] at this
    simp only at this
    split
    · dsimp only; exact modCounts_good _ this
    · exact this
  · exact this
theorem recvPollTrailers_good (k : Nat) (t : String) (h : Good s) : Good (s.recvPollTrailers k t).1 := by
  unfold Streams.recvPollTrailers
  split
  · exact modStream_good_id k _ rfl rfl h
  · exact modStream_good_id k _ rfl rfl h
  · have := scheduleRecv_good k t h
    split <;> next heq => (rw [heq] at this; exact this)
theorem recvPollResponse_good (n k : Nat) (t : String) (h : Good s) : Good (Streams.recvPollResponse n s k t).1 := by
  induction n generalizing s with
  | zero => unfold Streams.recvPollResponse; exact h
  | succ n ih =>
    unfold Streams.recvPollResponse
    split
    · exact modStream_good_id k _ rfl rfl h
    · exact ih (modStream_good_id k _ rfl rfl h)
    · exact panic_good _ (modStream_good_id k _ rfl rfl h)
    · split
      · exact h
      · exact h
      · exact modStream_good_id k _ rfl rfl h
theorem recvPollInformational_good (k : Nat) (t : String) (h : Good s) : Good (s.recvPollInformational k t).1 := by
  unfold Streams.recvPollInformational
  simp only
  split
  · next r heq =>
    split at heq
    · cases heq; exact h
    · cases heq; exact modStream_good_id k _ rfl rfl h
    · cases heq
  · split
    · exact h
    · exact modStream_good_id k _ rfl rfl h
    · exact h
theorem pollPendingOpen_good (p : Option Nat) (t : String) (h : Good s) : Good (s.pollPendingOpen p t).1 := by
  unfold Streams.pollPendingOpen
  split
  · exact h
  · split
    · exact h
    · split
      · split
        · exact modStream_good_id _ _ rfl rfl h
        · exact h
      · exact h
end

theorem Poll.good (p : Poll) {s : Streams} (h : Good s) : Good (p.apply s) := by
  cases p <;> simp only [Poll.apply]
  case capacity k t => exact pollCapacity_good k t h
  case reset k m t => exact pollReset_good k m t h
  case response n k t => exact recvPollResponse_good n k t h
  case informational k t => exact recvPollInformational_good k t h
  case data k t => exact refPollData_good k t h
  case trailers k t => exact recvPollTrailers_good k t h
  case pendingOpen p t => exact pollPendingOpen_good p t h
  case parkConnection t => exact h.of_store_eq rfl

-- ===================================================================== reachable states

theorem init_good (g : Conn.Cfg) : Good (Conn.init g).streams := by
  unfold Conn.init
  simp only
  split
  · unfold Conn.setTargetWindowSize
    exact setTargetConnectionWindow_good _ (cloneHandle_good (good_of_empty rfl rfl))
  · exact cloneHandle_good (good_of_empty rfl rfl)

theorem initServer_good (g : Conn.Cfg) (ecp : Bool) (first : Bytes) : Good (Conn.initServer g ecp first).streams := by
  unfold Conn.initServer
  simp only
  split
  · unfold Conn.setTargetWindowSize
    exact setTargetConnectionWindow_good _ (good_of_empty rfl rfl)
  · exact good_of_empty rfl rfl

/-- the states of the stream layer that a connection of either role can be in -/
inductive Reachable : Streams → Prop
  | client (g : Conn.Cfg) : Reachable (Conn.init g).streams
  | server (g : Conn.Cfg) (ecp : Bool) (first : Bytes) : Reachable (Conn.initServer g ecp first).streams
  | op {s : Streams} (o : Op) : Reachable s → Reachable (o.apply s)
  | poll {s : Streams} (p : Poll) : Reachable s → Reachable (p.apply s)
  /-- the driver empties the wake log between two operations -/
  | clearWakes {s : Streams} : Reachable s → Reachable { s with wakes := [] }

/-- **the store invariant holds in every reachable state** -/
theorem reachable_good {s : Streams} (h : Reachable s) : Good s := by
  induction h with
  | client g => exact init_good g
  | server g ecp first => exact initServer_good g ecp first
  | op o _ ih => exact o.good ih
  | poll p _ ih => exact p.good ih
  | clearWakes _ ih => exact ih.of_store_eq rfl

theorem exOpen_good : Good exOpen := by
  refine ⟨fun a ha => ?_, ⟨by decide, fun e he a ha => ?_⟩, fun e he => ?_⟩
  · simp [exOpen] at ha; subst ha; decide
  · simp [exOpen] at he; subst he
    simp [exOpen, Store.get?] at ha; subst ha; rfl
  · simp [exOpen] at he; subst he; decide

end H2V.Lemmas.ConnWakeP
