import H2V.Lemmas.ConnResetPFuel
/-
  ConnResetP — the queue invariant `QInv` (C08): every key sitting in one of the six intrusive queues
  resolves to a slab entry whose `is_pending_*` flag for that queue is set, and no queue holds a key
  twice.  (This is `invQueue` of ConnInv.lean, the invariant whose violation is a "dangling store key"
  panic — quirk Q4 was one.)  This file: the definition and the primitive steps.
-/
namespace H2V.Lemmas.ConnResetP
open H2V H2V.Model H2V.Model.Conn

/-- the consistency of queues and flags -/
structure QCore (s : Streams) : Prop where
  mem : ∀ q k, k ∈ s.getQ q → ∃ st, s.store.get? k = some st ∧ st.isQueued q = true
  nodup : ∀ q, (s.getQ q).Nodup

/-- …in every state that has not panicked.  (The model goes on after a panic — e.g. `Queue::push` of a
    dangling key records the panic and still pushes the key — the real code does not; stating the
    invariant for un-panicked states is what makes it inductive without threading "this key resolves"
    through every function.) -/
def QInv (s : Streams) : Prop := s.panicked = none → QCore s

theorem panic_panicked_ne (s : Streams) (m : String) : (s.panic m).panicked ≠ none := by
  unfold Streams.panic; split <;> simp_all

theorem modStream_panicked_none {s : Streams} {id : Nat} {f : Stream → Stream}
    (h : (s.modStream id f).panicked = none) : s.panicked = none ∧ ∃ st, s.store.get? id = some st := by
  unfold Streams.modStream at h
  cases hg : s.store.get? id with
  | none => rw [hg] at h; exact absurd h (panic_panicked_ne _ _)
  | some st => rw [hg] at h; exact ⟨h, st, rfl⟩

theorem modStreamW_panicked_none {s : Streams} {id : Nat} {f : Stream → Stream × List String}
    (h : (s.modStreamW id f).panicked = none) : s.panicked = none ∧ ∃ st, s.store.get? id = some st := by
  unfold Streams.modStreamW at h
  cases hg : s.store.get? id with
  | none => rw [hg] at h; exact absurd h (panic_panicked_ne _ _)
  | some st => rw [hg] at h; exact ⟨h, st, rfl⟩

/-- same store, same queues, panics only added -/
theorem QInv.of_same {s s' : Streams} (h : QInv s) (hs : s'.store = s.store) (hq : ∀ q, s'.getQ q = s.getQ q)
    (hp : s'.panicked = none → s.panicked = none) : QInv s' := fun hn =>
  let c := h (hp hn)
  ⟨fun q k hk => by rw [hs]; rw [hq] at hk; exact c.mem q k hk, fun q => by rw [hq]; exact c.nodup q⟩

/-- same queues, every key names an entry with the same flags (if any) -/
theorem QCore.of_flags {s s' : Streams} (h : QCore s) (hq : ∀ q, s'.getQ q = s.getQ q)
    (hf : ∀ k st, s.store.get? k = some st → ∃ st', s'.store.get? k = some st' ∧ ∀ q, st'.isQueued q = st.isQueued q) :
    QCore s' := by
  refine ⟨fun q k hk => ?_, fun q => by rw [hq]; exact h.nodup q⟩
  rw [hq] at hk
  obtain ⟨st, hg, hfl⟩ := h.mem q k hk
  obtain ⟨st', hg', hfl'⟩ := hf k st hg
  exact ⟨st', hg', by rw [hfl']; exact hfl⟩

/-- `modStream` with a function that keeps the key and the six flags -/
theorem QInv.modStream {s : Streams} (h : QInv s) (id : Nat) (f : Stream → Stream)
    (hk : ∀ st, (f st).key = st.key) (hf : ∀ st q, (f st).isQueued q = st.isQueued q) : QInv (s.modStream id f) := by
  intro hn
  refine (h (modStream_panicked_none hn).1).of_flags (fun q => by simp) (fun k st hg => ?_)
  rw [modStream_store, Store.get?_mod' _ _ _ hk]
  split
  · next e => subst e; rw [hg]; exact ⟨f st, rfl, hf st⟩
  · exact ⟨st, hg, fun _ => rfl⟩

theorem QInv.modStreamW {s : Streams} (h : QInv s) (id : Nat) (f : Stream → Stream × List String)
    (hk : ∀ st, (f st).1.key = st.key) (hf : ∀ st q, (f st).1.isQueued q = st.isQueued q) : QInv (s.modStreamW id f) := by
  intro hn
  refine (h (modStreamW_panicked_none hn).1).of_flags (fun q => by simp) (fun k st hg => ?_)
  rw [modStreamW_store, Store.get?_mod' _ _ _ hk]
  split
  · next e => subst e; rw [hg]; exact ⟨(f st).1, rfl, hf st⟩
  · exact ⟨st, hg, fun _ => rfl⟩

/-- replacing the entry of a key by a stream with the same flags -/
theorem QInv.setStream {s : Streams} (h : QInv s) (id : Nat) (x : Stream) (hk : x.key = id)
    (hf : ∀ q, x.isQueued q = (Store.getD' s.store id).isQueued q) : QInv (s.setStream x) := by
  intro hn
  refine (h hn).of_flags (fun q => rfl) (fun k st hg => ?_)
  rw [setStream_store, Store.get?_set]
  split
  · next e =>
    rw [hg]
    refine ⟨x, rfl, fun q => ?_⟩
    rw [hf, ← hk, ← e, Store.getD'_of_get? hg]
  · exact ⟨st, hg, fun _ => rfl⟩

theorem getQ_setQ_other (s : Streams) (q q' : QName) (l : List Nat) (h : q' ≠ q) : (s.setQ q l).getQ q' = s.getQ q' := by
  cases q <;> cases q' <;> first | rfl | exact absurd rfl h

theorem isQueued_setQueued_other (st : Stream) (q q' : QName) (v : Bool) (h : q' ≠ q) :
    (st.setQueued q v).isQueued q' = st.isQueued q' := by
  cases q <;> cases q' <;> first | rfl | exact absurd rfl h

/-- the common part of `Queue::push` / `push_front`: the flag is set and the key enters the queue once -/
theorem QCore.push {s : Streams} (h : QCore s) (q : QName) (id : Nat) (st : Stream) (hst : s.store.get? id = some st)
    (hnq : ¬ st.isQueued q = true) (l : List Nat) (hl : ∀ x, x ∈ l ↔ x = id ∨ x ∈ s.getQ q) (hnd : id ∉ s.getQ q → l.Nodup) :
    QCore ((s.modStream id fun st => st.setQueued q true).setQ q l) := by
  have hnotin : id ∉ s.getQ q := by
    intro hm
    obtain ⟨st1, h1, h2⟩ := h.mem q id hm
    rw [hst] at h1; cases h1
    exact hnq h2
  have hget : ∀ k, ((s.modStream id fun st => st.setQueued q true).setQ q l).store.get? k =
      if k = id then some (st.setQueued q true) else s.store.get? k := by
    intro k
    rw [setQ_store, modStream_store, Store.get?_mod' _ _ _ (fun x => setQueued_key x q true)]
    split
    · rw [hst]; rfl
    · rfl
  refine ⟨fun q' k hk => ?_, fun q' => ?_⟩
  · rw [hget]
    by_cases hqq : q' = q
    · subst hqq
      rw [getQ_setQ_same] at hk
      rcases (hl k).mp hk with hk | hk
      · subst hk
        rw [if_pos rfl]; exact ⟨_, rfl, setQueued_isQueued _ _ _⟩
      · obtain ⟨st1, h1, h2⟩ := h.mem q' k hk
        split
        · next e => exact ⟨_, rfl, setQueued_isQueued _ _ _⟩
        · exact ⟨st1, h1, h2⟩
    · rw [getQ_setQ_other _ _ _ _ hqq] at hk
      have hk' : k ∈ s.getQ q' := by simpa using hk
      obtain ⟨st1, h1, h2⟩ := h.mem q' k hk'
      split
      · next e =>
        subst e; rw [hst] at h1; cases h1
        exact ⟨_, rfl, by rw [isQueued_setQueued_other _ _ _ _ hqq]; exact h2⟩
      · exact ⟨st1, h1, h2⟩
  · by_cases hqq : q' = q
    · subst hqq
      rw [getQ_setQ_same]; exact hnd hnotin
    · rw [getQ_setQ_other _ _ _ _ hqq]
      have := h.nodup q'; simpa using this

/-- `Queue::push` -/
theorem QInv.qPush {s : Streams} (h : QInv s) (q : QName) (id : Nat) : QInv (s.qPush q id).1 := by
  unfold Streams.qPush
  split
  · exact h
  · next hnq =>
    intro hn
    simp only [setQ_panicked] at hn
    obtain ⟨hn0, st, hst⟩ := modStream_panicked_none hn
    rw [stream_of_get? _ hst] at hnq
    refine (h hn0).push q id st hst hnq _ (fun x => by simp [or_comm]) (fun hni => ?_)
    exact List.nodup_append.mpr ⟨(h hn0).nodup q, by simp, by
      intro x hx y hy; simp only [List.mem_singleton] at hy; subst hy; exact fun e => hni (e ▸ hx)⟩

/-- `Queue::push_front` -/
theorem QInv.qPushFront {s : Streams} (h : QInv s) (q : QName) (id : Nat) : QInv (s.qPushFront q id).1 := by
  unfold Streams.qPushFront
  split
  · exact h
  · next hnq =>
    intro hn
    simp only [setQ_panicked] at hn
    obtain ⟨hn0, st, hst⟩ := modStream_panicked_none hn
    rw [stream_of_get? _ hst] at hnq
    refine (h hn0).push q id st hst hnq _ (fun x => by simp) (fun hni => ?_)
    exact List.nodup_cons.mpr ⟨hni, (h hn0).nodup q⟩

/-- `Queue::pop` -/
theorem QInv.qPop {s : Streams} (h : QInv s) (q : QName) : QInv (s.qPop q).1 := by
  unfold Streams.qPop
  cases hq : s.getQ q with
  | nil => exact h
  | cons id rest =>
    simp only
    intro hn
    obtain ⟨hn0, st, hst⟩ := modStream_panicked_none hn
    simp only [setQ_panicked] at hn0
    have h := h hn0
    have hnd := h.nodup q
    rw [hq] at hnd
    have hnotin : id ∉ rest := (List.nodup_cons.mp hnd).1
    rw [setQ_store] at hst
    have hget : ∀ k, ((s.setQ q rest).modStream id fun st => st.setQueued q false).store.get? k =
        if k = id then some (st.setQueued q false) else s.store.get? k := by
      intro k
      rw [modStream_store, setQ_store, Store.get?_mod' _ _ _ (fun x => setQueued_key x q false)]
      split
      · rw [hst]; rfl
      · rfl
    refine ⟨fun q' k hk => ?_, fun q' => ?_⟩
    · rw [hget]
      rw [getQ_modStream] at hk
      by_cases hqq : q' = q
      · subst hqq
        rw [getQ_setQ_same] at hk
        have hne : k ≠ id := fun e => hnotin (e ▸ hk)
        rw [if_neg hne]
        exact h.mem q' k (by rw [hq]; exact List.mem_cons_of_mem _ hk)
      · rw [getQ_setQ_other _ _ _ _ hqq] at hk
        obtain ⟨st1, h1, h2⟩ := h.mem q' k hk
        split
        · next e =>
          subst e; rw [hst] at h1; cases h1
          exact ⟨_, rfl, by rw [isQueued_setQueued_other _ _ _ _ hqq]; exact h2⟩
        · exact ⟨st1, h1, h2⟩
    · rw [getQ_modStream]
      by_cases hqq : q' = q
      · subst hqq; rw [getQ_setQ_same]; exact (List.nodup_cons.mp hnd).2
      · rw [getQ_setQ_other _ _ _ _ hqq]; exact h.nodup q'

/-- `Ptr::unlink` -/
theorem QInv.unlink {s : Streams} (h : QInv s) (id : Nat) : QInv { s with store := s.store.unlink id } :=
  fun hn => let c := h hn; ⟨fun q k hk => c.mem q k hk, c.nodup⟩

/-- slab removal of an entry that is in no queue (all six flags clear) -/
theorem QInv.remove {s : Streams} (h : QInv s) (k n : Nat)
    (hf : ∀ st, s.store.get? k = some st → ∀ q, st.isQueued q = false) :
    QInv { s with store := s.store.remove k, recvBufferLeaked := n } := by
  intro hn
  have c := h hn
  refine ⟨fun q k' hk => ?_, c.nodup⟩
  obtain ⟨st, hg, hfl⟩ := c.mem q k' hk
  have hne : k' ≠ k := by
    intro e; subst e
    rw [hf st hg q] at hfl; cases hfl
  exact ⟨st, by show (s.store.remove k).get? k' = some st; rw [Store.get?_remove, if_neg hne]; exact hg, hfl⟩

/-- slab insertion -/
theorem QInv.insert {s : Streams} (h : QInv s) (x : Stream) : QInv { s with store := (s.store.insert x).1 } := by
  intro hn
  have c := h hn
  refine ⟨fun q k hk => ?_, c.nodup⟩
  obtain ⟨st, hg, hfl⟩ := c.mem q k hk
  refine ⟨st, ?_, hfl⟩
  show (s.store.insert x).1.get? k = some st
  unfold Store.get? at hg
  unfold Store.insert Store.get?
  simp only [List.find?_append, hg, Option.some_or]

end H2V.Lemmas.ConnResetP
