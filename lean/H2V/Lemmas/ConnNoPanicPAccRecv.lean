import H2V.Lemmas.ConnNoPanicPAccSend
/-
  C08 (no panic) — the server accept path, part 3: `AL` for the functions of recv.rs that work on one
  stream / on the connection-level receive state (generated from ConnNoPanicPRecv.lean), except
  `recv_headers` and `recv_reset`, which belong to the accept path (ConnNoPanicPAccInv).
  The handle calls that pop / clear `pending_recv` are `AL [k]`.
-/
namespace H2V.Lemmas.ConnNoPanicP
open H2V H2V.Model H2V.Model.Conn H2V.Lemmas.ConnCountsP
attribute [local irreducible] wrapSubU32 wrapSubUsize

theorem releaseConnectionCapacity_al (s : Streams) (c : Nat) (b : Bool) : AL [] s (s.releaseConnectionCapacity c b) := by
  unfold Streams.releaseConnectionCapacity; al_auto
theorem releaseCapacity_al (s : Streams) (k c : Nat) (b : Bool) : AL [] s (s.releaseCapacity k c b).1 := by
  unfold Streams.releaseCapacity; al_auto

theorem clearRecvBufferLoop_cok (n : Nat) (l : List REvent) (acc : Nat) (c : Counts) :
    COK c (Streams.clearRecvBufferLoop n l acc c).2 := by
  induction l generalizing acc c with
  | nil => exact ⟨Nat.le_refl _, rfl⟩
  | cons e l ih =>
    cases e <;> unfold Streams.clearRecvBufferLoop <;> try exact ih _ _
    next payload budgeted =>
      dsimp only
      refine COK.trans ?_ (ih _ _)
      split
      · exact cok_releaseDataFrame _ _
      · exact ⟨Nat.le_refl _, rfl⟩

theorem ar_pop {a : Stream} {e : REvent} {rest : List REvent} (h : a.pendingRecv = e :: rest) :
    AR a { a with pendingRecv := rest } := AR.shrink _ _ (fun _ => by rw [h]; exact List.cons_ne_nil _ _)

theorem clearRecvBuffer_al (s : Streams) (k : Nat) (b : Bool) : AL [k] s (s.clearRecvBuffer k b) := by
  unfold Streams.clearRecvBuffer
  dsimp only
  have h0 : AL [k] s (Streams.modStream { s with counts := (Streams.clearRecvBufferLoop (s.stream k).inFlightRecvData (s.stream k).pendingRecv 0 s.counts).2 }
      k fun st => { st with pendingRecv := [] }) :=
    AL.trans (ks' := [k]) (setCounts_al _ _ (clearRecvBufferLoop_cok _ _ _ _))
      (modStream_alp _ _ _ (AR.shrink _ _ (fun h => absurd rfl h))) (fun _ h => h)
  split
  · al_auto
  · al_auto

theorem releaseClosedCapacity_al (s : Streams) (k : Nat) : AL [k] s (s.releaseClosedCapacity k) := by
  unfold Streams.releaseClosedCapacity; al_auto

theorem consumeConnectionWindow_al (s : Streams) (sz : Nat) : AL [] s (s.consumeConnectionWindow sz).1 := by
  unfold Streams.consumeConnectionWindow; al_auto
theorem ignoreData_al (s : Streams) (sz : Nat) : AL [] s (s.ignoreData sz).1 := by
  unfold Streams.ignoreData; al_auto
theorem recvOpen_al (s : Streams) (id : Nat) (b : Bool) : AL [] s (s.recvOpen id b).1 := by
  unfold Streams.recvOpen; al_auto

theorem notifyPushIfRecvEnded_al (s : Streams) (k : Nat) : AL [] s (s.notifyPushIfRecvEnded k) := by
  unfold Streams.notifyPushIfRecvEnded; al_auto

theorem recvRecvTrailers_al (s : Streams) (k : Nat) (h : HeadersIn) (hk : Live s k) : AL [] s (s.recvRecvTrailers k h).1 := by
  unfold Streams.recvRecvTrailers
  split
  · exact .refl _ _
  · next st' u heq =>
    dsimp only
    generalize hs1 : Streams.modStream s k _ = s1
    have h1 : AL [] s s1 := by rw [← hs1]; al_auto
    have hrh : (s1.stream k).state.isRecvHeaders = false := by
      rw [← hs1, stream_modStream_live hk (fun st => { st with state := st' }) (fun _ => rfl)]; exact (recvClose_acc heq).1
    al_auto

theorem recvHandleError_al (s : Streams) (k : Nat) (e : PErr) (he : NotRR e) : AL [] s (s.recvHandleError k e) := by
  unfold Streams.recvHandleError; al_auto
theorem recvGoAway_al (s : Streams) (l : Nat) : AL [] s (s.recvGoAway l) := by
  unfold Streams.recvGoAway; al_auto
theorem recvRecvEof_al (s : Streams) (k : Nat) : AL [] s (s.recvRecvEof k) := by
  unfold Streams.recvRecvEof; al_auto
theorem recvMaybeResetNextStreamId_al (s : Streams) (id : Nat) : AL [] s (s.recvMaybeResetNextStreamId id) := by
  unfold Streams.recvMaybeResetNextStreamId; al_auto
theorem sendPendingRefusal_al (s : Streams) (w : Writer) : AL [] s (s.sendPendingRefusal w).1 := by
  unfold Streams.sendPendingRefusal; al_auto
theorem scheduleRecv_al (s : Streams) (k : Nat) (t : String) : AL [] s (s.scheduleRecv k t).1 := by
  unfold Streams.scheduleRecv; al_auto

theorem recvPollData_al (s : Streams) (k : Nat) (t : String) : AL [k] s (s.recvPollData k t).1 := by
  unfold Streams.recvPollData
  split
  · next heq => exact modStream_alp _ _ _ (ar_pop heq)
  · al_auto
  · al_auto

theorem recvPollTrailers_al (s : Streams) (k : Nat) (t : String) : AL [k] s (s.recvPollTrailers k t).1 := by
  unfold Streams.recvPollTrailers
  split
  · next heq => exact modStream_alp _ _ _ (ar_pop heq)
  · al_auto
  · al_auto

theorem recvPollInformational_al (s : Streams) (k : Nat) (t : String) : AL [k] s (s.recvPollInformational k t).1 := by
  unfold Streams.recvPollInformational
  dsimp only
  split
  · next heq =>
    split at heq
    · cases heq; exact .refl _ _
    · next heq2 => cases heq; exact modStream_alp _ _ _ (ar_pop heq2)
    · cases heq
  · al_auto

theorem enqueueResetExpiration_al (s : Streams) (k : Nat) : AL [] s (s.enqueueResetExpiration k) := by
  unfold Streams.enqueueResetExpiration; al_auto

theorem recvRecvData_al (s : Streams) (k : Nat) (payload : Bytes) (eos : Bool) (pad : Option Nat) :
    AL [] s (s.recvRecvData k payload eos pad).1 := by
  unfold Streams.recvRecvData
  cases pad <;> dsimp only
  all_goals (
    generalize hs0 : (if _ > Generated.Consts.MAX_WINDOW_SIZE then s.panic _ else s) = s0
    have h0 : AL [] s s0 := by rw [← hs0]; al_auto
    split
    · exact h0
    split
    · al_auto
    · next hig hst =>
      have hss : (s0.stream k).state.isRecvHeaders = false := by
        apply not_recvHeaders_of_streaming
        cases h1 : (s0.stream k).state.isRecvStreaming with
        | true => rfl
        | false =>
          cases h2 : (s0.stream k).state.isLocalError with
          | true => rw [h2] at hst; exact absurd rfl hst
          | false => rw [h1, h2] at hig; simp at hig
      have hrh : ∀ t, AL [] s0 t → (t.stream k).state.isRecvHeaders = false := fun t ht => (ht.str k).rh hss
      refine h0.trans (ks' := []) ?_ (fun _ h => h)
      clear h0
      split
      · al_auto
      · next s1 _ heq1 =>
        have h1 : AL [] s0 s1 := AL.of_fst_eq heq1 (consumeConnectionWindow_al s0 _)
        split
        · exact h1
        · split
          · exact h1
          · next st1 hdc =>
            generalize hs2 : s1.setStream st1 = s2
            have h2 : AL [] s0 s2 := by rw [← hs2]; al_auto
            generalize hs3 : (if eos = true then _ else (s2, (none : Option PErr))) = p3
            have h3 : AL [] s0 p3.1 := by rw [← hs3]; al_auto
            clear hs3
            obtain ⟨s4, o⟩ := p3
            have h4 : AL [] s0 s4 := h3
            cases o with
            | some e => exact h4
            | none =>
              dsimp only
              split
              · al_auto
              · split
                · al_auto
                · al_auto
                · next fl _ heq5 =>
                  generalize hs5 : Streams.modStream s4 k _ = s5
                  have h5 : AL [] s0 s5 := by rw [← hs5]; al_auto
                  generalize hs6 : (if usizeAsU32 _ > 0 then _ else s5) = s6
                  have h6 : AL [] s0 s6 := by rw [← hs6]; al_auto
                  have hr6 := hrh s6 h6
                  al_auto)

end H2V.Lemmas.ConnNoPanicP
