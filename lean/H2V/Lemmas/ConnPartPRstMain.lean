import H2V.Lemmas.ConnPartPRst
/-
  ConnPartP, part 7 — C09: the RST_STREAM is owed after
    * `Actions::reset_on_recv_stream_err` (stream errors answered in place),
    * `Actions::send_reset` / `Inner::send_reset` (stream errors that travel up to `handle_poll2_result`:
      frames for a forgotten stream, trailers without END_STREAM, a PUSH_PROMISE on a stream we reset).
-/
set_option linter.unusedSectionVars false
namespace H2V.Lemmas.ConnPartP
open H2V H2V.Model H2V.Model.Conn H2V.Lemmas.ConnResetP

/-- the entry `k` owes RST_STREAM(`st.id`, `reason`): closed with `Reset(id, reason, init)`, the frame
    is the last of its queue (the only one unless the stream still waits to be opened, then its HEADERS
    precede it), and when the stream is send-ready it is linked in `pending_send` — and really in the
    queue, if the queue is consistent and no `assert!` has fired -/
def OwesRst (s s' : Streams) (k : Nat) (st : Stream) (reason : Reason) (init : Initiator) : Prop :=
  ∃ st', s'.store.get? k = some st' ∧ st'.id = st.id ∧
    st'.state = ⟨.closed (.error (.reset st.id reason init))⟩ ∧
    st'.pendingSend = (if st.isPendingOpen then st.pendingSend.head?.toList else []) ++ [.reset reason] ∧
    (st.isSendReady = true → st'.isPendingSend = true ∧
      (ConnCountsP.QOK .pendingSend s → s'.panicked = none → k ∈ s'.prio.pendingSend))

/-- the other entries: those present afterwards kept key, id, state, queue, handle count; those that
    had a frame queued are still there -/
def OthersKept (s s' : Streams) (k : Nat) : Prop :=
  (∀ k' st'', k' ≠ k → k' < s.store.nextKey → s'.store.get? k' = some st'' →
      ∃ st0, s.store.get? k' = some st0 ∧ CoreEq st0 st'') ∧
  (∀ k' st0, k' ≠ k → s.store.get? k' = some st0 → st0.pendingSend ≠ [] →
      ∃ st'', s'.store.get? k' = some st'' ∧ CoreEq st0 st'')

/-- **`reset_on_recv_stream_err(Err(Reset(_, reason, init)))`** within the quota, on a stream that is
    not reset yet and not (closed with nothing unsent): `Ok(())`, the RST_STREAM is owed, the other
    streams are kept -/
theorem resetOnRecvStreamErr_owes (s : Streams) (k sid : Nat) (reason : Reason) (init : Initiator) (st : Stream)
    (hkb : KeysBelow s.store) (hg : s.store.get? k = some st)
    (hq : s.counts.canIncNumLocalErrorResets = true) (hr : st.state.isReset = false)
    (hne : (st.state.isClosed && (st.pendingSend.isEmpty && st.bufferedSendData == 0)) = false) :
    (s.resetOnRecvStreamErr k (.error (.reset sid reason init))).2 = .ok () ∧
    OwesRst s (s.resetOnRecvStreamErr k (.error (.reset sid reason init))).1 k st reason init ∧
    OthersKept s (s.resetOnRecvStreamErr k (.error (.reset sid reason init))).1 k := by
  have hev := ConnCountsP.resetOnRecvStreamErr_ev (ρ := true) s k (.error (.reset sid reason init))
  rw [resetOnRecvStreamErr_ok s k sid reason init hq] at hev ⊢
  generalize hx : s.modCountsA "can_inc_num_local_error_resets" Counts.incNumLocalErrorResets = x at hev ⊢
  have hxs : x.store = s.store := by subst hx; exact modCountsA_store _ _ _
  have hgx : x.store.get? k = some st := by rw [hxs]; exact hg
  have hsx : x.stream k = st := stream_of_get? _ hgx
  have hcore : resetCore x k reason init =
      ((((sendResetPre x k reason init).reclaimAllCapacity k).enqueueResetExpiration k).modStreamW k Stream.notifyRecv) := by
    unfold resetCore
    rw [sendSendReset_eq x k reason init (by rw [hsx]; exact hr) (by rw [hsx]; exact hne)]
  obtain ⟨⟨st', h1, h2, h3, h4⟩, c2, c3⟩ := reset_spec_of_tail x k reason init st (hxs ▸ hkb) hgx
    (resetCore x k reason init) (by rw [hcore]; exact coreTail_frame _ k)
  refine ⟨rfl, ⟨st', h1, h2, h3, h4, fun hrdy => ?_⟩, ?_, ?_⟩
  · obtain ⟨y, hy, hf⟩ := resetCore_flag x k reason init st hgx hr hne hrdy
    have : y = st' := by rw [h1] at hy; cases hy; rfl
    subst this
    exact ⟨hf, fun hqok hp => mem_pendingSend_of_flag ((hev.qstep .pendingSend (by decide)).ok hp hqok) hy hf⟩
  · intro k' st'' hk hlt h'
    have := c2 k' st'' hk (by rw [hxs]; exact hlt) h'
    rw [hxs] at this; exact this
  · intro k' st0 hk h0 hq'
    exact c3 k' st0 hk (by rw [hxs]; exact h0) hq'

/-- `Actions::send_reset` within the quota -/
theorem actionsSendReset_ok (s : Streams) (k : Nat) (reason : Reason) (init : Initiator)
    (hq : init.isLibrary = true → s.counts.canIncNumLocalErrorResets = true) :
    s.actionsSendReset k reason init =
      ((resetCore (if init.isLibrary then s.modCountsA "can_inc_num_local_error_resets" Counts.incNumLocalErrorResets else s)
          k reason init).transitionAfter k (s.stream k).isPendingResetExpiration, .ok ()) := by
  unfold Streams.actionsSendReset Streams.transition resetCore
  by_cases hl : init.isLibrary = true
  · simp only [hl, hq hl, if_true]
  · simp only [hl, Bool.false_eq_true, if_false]

/-- **`Actions::send_reset(stream, reason, init)`** within the quota, on a stream that is not reset yet
    and not (closed with nothing unsent) -/
theorem actionsSendReset_owes (s : Streams) (k : Nat) (reason : Reason) (init : Initiator) (st : Stream)
    (hkb : KeysBelow s.store) (hg : s.store.get? k = some st)
    (hq : init.isLibrary = true → s.counts.canIncNumLocalErrorResets = true) (hr : st.state.isReset = false)
    (hne : (st.state.isClosed && (st.pendingSend.isEmpty && st.bufferedSendData == 0)) = false) :
    (s.actionsSendReset k reason init).2 = .ok () ∧
    OwesRst s (s.actionsSendReset k reason init).1 k st reason init ∧
    OthersKept s (s.actionsSendReset k reason init).1 k := by
  have hev := ConnCountsP.actionsSendReset_ev (ρ := true) s k reason init
  rw [actionsSendReset_ok s k reason init hq] at hev ⊢
  generalize hx : (if init.isLibrary = true then
    s.modCountsA "can_inc_num_local_error_resets" Counts.incNumLocalErrorResets else s) = x at hev ⊢
  have hxs : x.store = s.store := by subst hx; split; exact modCountsA_store _ _ _; rfl
  have hgx : x.store.get? k = some st := by rw [hxs]; exact hg
  have hsx : x.stream k = st := stream_of_get? _ hgx
  have hcore : resetCore x k reason init =
      ((((sendResetPre x k reason init).reclaimAllCapacity k).enqueueResetExpiration k).modStreamW k Stream.notifyRecv) := by
    unfold resetCore
    rw [sendSendReset_eq x k reason init (by rw [hsx]; exact hr) (by rw [hsx]; exact hne)]
  obtain ⟨⟨st', h1, h2, h3, h4⟩, c2, c3⟩ := reset_spec_of_tail x k reason init st (hxs ▸ hkb) hgx
    ((resetCore x k reason init).transitionAfter k (s.stream k).isPendingResetExpiration)
    (by rw [hcore]; exact resetTail_frame _ k _)
  refine ⟨rfl, ⟨st', h1, h2, h3, h4, fun hrdy => ?_⟩, ?_, ?_⟩
  · obtain ⟨y, hy, hf⟩ := resetCore_flag x k reason init st hgx hr hne hrdy
    have hf' := transitionAfter_flag _ k _ y st' hy hf h1
    exact ⟨hf', fun hqok hp => mem_pendingSend_of_flag ((hev.qstep .pendingSend (by decide)).ok hp hqok) h1 hf'⟩
  · intro k' st'' hk hlt h'
    have := c2 k' st'' hk (by rw [hxs]; exact hlt) h'
    rw [hxs] at this; exact this
  · intro k' st0 hk h0 hq'
    exact c3 k' st0 hk (by rw [hxs]; exact h0) hq'

/-- **`Inner::send_reset(id, reason)` for a stream the id map knows** (trailers without END_STREAM) -/
theorem innerSendReset_known_owes (s : Streams) (id k : Nat) (reason : Reason) (st : Stream)
    (hf : s.store.findKey? id = some k)
    (hkb : KeysBelow s.store) (hg : s.store.get? k = some st)
    (hq : s.counts.canIncNumLocalErrorResets = true) (hr : st.state.isReset = false)
    (hne : (st.state.isClosed && (st.pendingSend.isEmpty && st.bufferedSendData == 0)) = false) :
    (s.innerSendReset id reason).2 = .ok () ∧
    OwesRst s (s.innerSendReset id reason).1 k st reason .library ∧
    OthersKept s (s.innerSendReset id reason).1 k := by
  have : s.innerSendReset id reason = s.actionsSendReset k reason .library := by
    unfold Streams.innerSendReset; rw [hf]
  rw [this]
  exact actionsSendReset_owes s k reason .library st hkb hg (fun _ => hq) hr hne

/-- the state `Inner::send_reset` builds for an id the store does not know: next-stream-id bookkeeping,
    then a fresh `Stream::new(id, 0, 0)` under the next key -/
def withFreshEntry (s : Streams) (id : Nat) : Streams :=
  let s := if s.counts.isLocalInit id then s.sendMaybeResetNextStreamId id else s.recvMaybeResetNextStreamId id
  { s with store := (s.store.insert (Stream.new id 0 0)).1 }

theorem withFreshEntry_store (s : Streams) (id : Nat) :
    (withFreshEntry s id).store = (s.store.insert (Stream.new id 0 0)).1 := by
  unfold withFreshEntry
  simp only
  split
  · unfold Streams.sendMaybeResetNextStreamId; (repeat' split) <;> rfl
  · unfold Streams.recvMaybeResetNextStreamId; (repeat' split) <;> rfl

theorem innerSendReset_unknown_eq (s : Streams) (id : Nat) (reason : Reason) (hf : s.store.findKey? id = none) :
    s.innerSendReset id reason = (withFreshEntry s id).actionsSendReset s.store.nextKey reason .library := by
  unfold Streams.innerSendReset withFreshEntry
  rw [hf]
  simp only
  split
  · have : (s.sendMaybeResetNextStreamId id).store = s.store := by
      unfold Streams.sendMaybeResetNextStreamId; (repeat' split) <;> rfl
    rw [this]; rfl
  · have : (s.recvMaybeResetNextStreamId id).store = s.store := by
      unfold Streams.recvMaybeResetNextStreamId; (repeat' split) <;> rfl
    rw [this]; rfl

theorem withFreshEntry_counts (s : Streams) (id : Nat) : (withFreshEntry s id).counts = s.counts := by
  unfold withFreshEntry
  simp only
  split
  · unfold Streams.sendMaybeResetNextStreamId; (repeat' split) <;> rfl
  · unfold Streams.recvMaybeResetNextStreamId; (repeat' split) <;> rfl

/-- **`Inner::send_reset(id, reason)` for a stream the id map does not know** (a frame for a forgotten
    stream, a PUSH_PROMISE on a stream we reset): a fresh entry (key = the old `next_key`, windows 0) is
    created and owes RST_STREAM(id, reason); the entries that were there are kept -/
theorem innerSendReset_unknown_owes (s : Streams) (id : Nat) (reason : Reason)
    (hf : s.store.findKey? id = none) (hkb : KeysBelow s.store)
    (hq : s.counts.canIncNumLocalErrorResets = true) :
    (s.innerSendReset id reason).2 = .ok () ∧
    (∃ st', (s.innerSendReset id reason).1.store.get? s.store.nextKey = some st' ∧ st'.id = id ∧
      st'.state = ⟨.closed (.error (.reset id reason .library))⟩ ∧ st'.pendingSend = [.reset reason] ∧
      st'.isPendingSend = true) ∧
    (∀ k' st'', k' < s.store.nextKey → (s.innerSendReset id reason).1.store.get? k' = some st'' →
      ∃ st0, s.store.get? k' = some st0 ∧ CoreEq st0 st'') ∧
    (∀ k' st0, s.store.get? k' = some st0 → st0.pendingSend ≠ [] →
      ∃ st'', (s.innerSendReset id reason).1.store.get? k' = some st'' ∧ CoreEq st0 st'') := by
  rw [innerSendReset_unknown_eq s id reason hf]
  generalize hw : withFreshEntry s id = w
  have hws : w.store = (s.store.insert (Stream.new id 0 0)).1 := by rw [← hw]; exact withFreshEntry_store s id
  have hnone : s.store.get? s.store.nextKey = none := by
    cases h : s.store.get? s.store.nextKey with
    | none => rfl
    | some x => exact absurd (hkb _ x h) (Nat.lt_irrefl _)
  have hget : ∀ k', w.store.get? k' =
      if k' = s.store.nextKey then some { Stream.new id 0 0 with key := s.store.nextKey } else s.store.get? k' := by
    intro k'
    rw [hws, ConnWakeP.Store.get?_insert]
    by_cases hk : k' = s.store.nextKey
    · subst hk; rw [hnone]
    · rw [if_neg hk]
      cases s.store.get? k' <;> simp [hk]
  have hkbw : KeysBelow w.store := by
    intro k' x hx
    rw [hget] at hx
    have hn : w.store.nextKey = s.store.nextKey + 1 := by rw [hws]; rfl
    rw [hn]
    split at hx
    · next h => omega
    · have := hkb k' x hx; omega
  have hnew : w.store.get? s.store.nextKey = some { Stream.new id 0 0 with key := s.store.nextKey } := by
    rw [hget, if_pos rfl]
  obtain ⟨r1, ⟨st', h1, h2, h3, h4, h5⟩, c2, c3⟩ := actionsSendReset_owes w s.store.nextKey reason .library _ hkbw hnew
    (fun _ => by rw [← hw, withFreshEntry_counts]; exact hq) rfl rfl
  refine ⟨r1, ⟨st', h1, h2, h3, h4, (h5 rfl).1⟩, ?_, ?_⟩
  · intro k' st'' hlt h'
    have hne : k' ≠ s.store.nextKey := by omega
    obtain ⟨st0, h0, hc⟩ := c2 k' st'' hne (by rw [hws]; show k' < s.store.nextKey + 1; omega) h'
    rw [hget, if_neg hne] at h0
    exact ⟨st0, h0, hc⟩
  · intro k' st0 h0 hq'
    have hne : k' ≠ s.store.nextKey := by
      intro h; rw [h, hnone] at h0; cases h0
    exact c3 k' st0 hne (by rw [hget, if_neg hne]; exact h0) hq'

/-- the complementary cases of `Send::send_reset`: a stream that is reset already (by us: the RST_STREAM
    is queued or gone out; by the peer: none is owed) is left alone — no second RST_STREAM —, and a
    stream that is closed with nothing unsent only records the reason -/
theorem sendSendReset_no_rst (s : Streams) (k : Nat) (reason : Reason) (init : Initiator) :
    ((s.stream k).state.isReset = true → s.sendSendReset k reason init = s) ∧
    ((s.stream k).state.isReset = false →
      ((s.stream k).state.isClosed && ((s.stream k).pendingSend.isEmpty && (s.stream k).bufferedSendData == 0)) = true →
      s.sendSendReset k reason init = s.modStreamW k fun st => st.setReset reason init) := by
  constructor
  · intro h; unfold Streams.sendSendReset; simp only [h, if_true]
  · intro h1 h2; unfold Streams.sendSendReset; simp only [h1, Bool.false_eq_true, if_false, h2, if_true]

end H2V.Lemmas.ConnPartP
