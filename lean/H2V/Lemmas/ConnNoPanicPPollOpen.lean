import H2V.Lemmas.ConnNoPanicPPollBase
/-
  C08 (no panic) — part 9: `Prioritize::pop_pending_open`.  The `assert!(!stream.is_counted)` of
  `inc_num_send_streams` holds because a stream waiting in `pending_open` is not counted; that (and its
  sibling for promised streams, needed by `pop_frame`) is the invariant `Unc`: of the three flags
  `is_counted`, `is_pending_push`, `is_pending_open` a stream carries one at most.  It is kept by the
  whole write path (`FK.unc`), NOT derived from `NPI`: it enters the final statements as a hypothesis,
  in the queue form `OpenUncounted ∧ PushUncounted ∧ OpenNotPush` (`unc_iff`).
  For the PUSH_PROMISE arm of `pop_frame` two more facts about queued PUSH_PROMISE frames travel along:
  `PPU` (no promised id is announced twice) and `PPFresh` (the stream a queued PUSH_PROMISE announces is
  neither counted nor in `pending_open`).  `FI = Unc ∧ PPU ∧ PPFresh`, `PI = NPI ∧ ErrOK ∧ FI`.
-/
namespace H2V.Lemmas.ConnNoPanicP
open H2V H2V.Model H2V.Model.Conn H2V.Lemmas.ConnCountsP
attribute [local irreducible] wrapSubU32 wrapSubUsize

-- ===================================================================== one flag at most

/-- of `is_counted`, `is_pending_push`, `is_pending_open` at most one is set -/
def One (x : Stream) : Prop :=
  (x.isPendingPush = true → x.isCounted = false ∧ x.isPendingOpen = false) ∧ (x.isPendingOpen = true → x.isCounted = false)

def Unc (s : Streams) : Prop := ∀ k, One (s.stream k)

theorem bool_false_of_impP {a b : Bool} (h : a = true → b = true) (hb : b = false) : a = false := by
  cases a
  · rfl
  · rw [h rfl] at hb; cases hb

theorem One.flg {a b : Stream} (h : One a) (f : Flg a b) : One b :=
  ⟨fun hp => ⟨bool_false_of_impP f.c (h.1 (f.pp hp)).1, bool_false_of_impP f.po (h.1 (f.pp hp)).2⟩,
   fun ho => bool_false_of_impP f.c (h.2 (f.po ho))⟩

theorem FK.unc {s s' : Streams} (h : FK s s') (hu : Unc s) : Unc s' := fun k => (hu k).flg (h.fl k)

/-- a stream waiting in `pending_open` is not counted -/
def OpenUncounted (s : Streams) : Prop := ∀ k ∈ s.prio.pendingOpen, (s.stream k).isCounted = false
/-- a promised stream whose PUSH_PROMISE has not been written is not counted -/
def PushUncounted (s : Streams) : Prop := ∀ k, (s.stream k).isPendingPush = true → (s.stream k).isCounted = false
/-- a stream waiting in `pending_open` is not one whose PUSH_PROMISE is still to be written -/
def OpenNotPush (s : Streams) : Prop := ∀ k ∈ s.prio.pendingOpen, (s.stream k).isPendingPush = false

theorem flagged_of_flagP {s : Streams} {q : QName} {k : Nat} (h : (s.stream k).isQueued q = true) : Flagged q s k := by
  unfold Streams.stream at h
  cases hx : s.store.get? k with
  | some x => rw [hx] at h; exact ⟨x, hx, h⟩
  | none => rw [hx] at h; cases q <;> cases h

theorem unc_iff {s : Streams} (hq : QOK .pendingOpen s) : Unc s ↔ OpenUncounted s ∧ PushUncounted s ∧ OpenNotPush s := by
  have hfl : ∀ k, k ∈ s.prio.pendingOpen ↔ (s.stream k).isPendingOpen = true := by
    intro k
    constructor
    · intro hk
      obtain ⟨x, hx, hf⟩ := (hq.mem k).mp hk
      rw [stream_of_get? hx]; exact hf
    · intro hk; exact (hq.mem k).mpr (flagged_of_flagP (q := .pendingOpen) hk)
  constructor
  · intro hu
    refine ⟨fun k hk => (hu k).2 ((hfl k).mp hk), fun k hk => ((hu k).1 hk).1, fun k hk => ?_⟩
    cases hp : (s.stream k).isPendingPush with
    | false => rfl
    | true => have := ((hu k).1 hp).2; rw [(hfl k).mp hk] at this; cases this
  · rintro ⟨h1, h2, h3⟩ k
    refine ⟨fun hp => ⟨h2 k hp, ?_⟩, fun ho => h1 k ((hfl k).mpr ho)⟩
    cases ho : (s.stream k).isPendingOpen with
    | false => rfl
    | true => have := h3 k ((hfl k).mpr ho); rw [hp] at this; cases this

-- ===================================================================== queued PUSH_PROMISE frames

/-- promised ids of the PUSH_PROMISE frames queued on entry `k` -/
def ppq (s : Streams) (k : Nat) : List Nat := ppIdsOf (s.stream k).pendingSend

/-- no promised id is announced twice -/
structure PPU (s : Streams) : Prop where
  nodup : ∀ k, (ppq s k).Nodup
  disj : ∀ k k' pid, pid ∈ ppq s k → pid ∈ ppq s k' → k = k'

/-- the stream a queued PUSH_PROMISE announces is neither counted nor waiting in `pending_open` -/
def PPFresh (s : Streams) : Prop :=
  ∀ k pid, pid ∈ ppq s k → ∀ pushed, s.store.findKey? pid = some pushed →
    (s.stream pushed).isCounted = false ∧ (s.stream pushed).isPendingOpen = false

/-- the three facts about flags and queued PUSH_PROMISE frames -/
structure FI (s : Streams) : Prop where
  unc : Unc s
  ppu : PPU s
  ppf : PPFresh s

theorem FK.ppq_sub {s s' : Streams} (h : FK s s') (k : Nat) : (ppq s' k).Sublist (ppq s k) := (h.fl k).pps

theorem FK.fi {s s' : Streams} (h : FK s s') (hn : (s.store.ids.map (·.1)).Nodup) (hi : FI s) : FI s' := by
  refine ⟨h.unc hi.unc, ⟨fun k => (h.ppq_sub k).nodup (hi.ppu.nodup k), fun k k' pid h1 h2 =>
    hi.ppu.disj k k' pid ((h.ppq_sub k).subset h1) ((h.ppq_sub k').subset h2)⟩, ?_⟩
  intro k pid hp pushed hf
  have := hi.ppf k pid ((h.ppq_sub k).subset hp) pushed ((h.ids hn).2 pid pushed hf)
  exact ⟨bool_false_of_impP (h.fl pushed).c this.1, bool_false_of_impP (h.fl pushed).po this.2⟩

/-- a step that changes entry `k` only, keeps its `pending_send`, and leaves the id map alone
    (`inc_num_send_streams`, `pending_open.push`: the two steps that RAISE a flag) -/
structure Raise (k : Nat) (s s' : Streams) : Prop where
  other : ∀ j, j ≠ k → s'.stream j = s.stream j
  send : (s'.stream k).pendingSend = (s.stream k).pendingSend
  ids : s'.store.ids = s.store.ids

theorem Raise.of_store {k : Nat} {s s' : Streams} (h : s'.store = s.store) : Raise k s s' :=
  ⟨fun j _ => by unfold Streams.stream; rw [h], by unfold Streams.stream; rw [h], by rw [h]⟩
theorem Raise.trans {k : Nat} {a b c : Streams} (h1 : Raise k a b) (h2 : Raise k b c) : Raise k a c :=
  ⟨fun j hj => (h2.other j hj).trans (h1.other j hj), h2.send.trans h1.send, h2.ids.trans h1.ids⟩
theorem Raise.modStream (s : Streams) (k : Nat) (f : Stream → Stream) (hk : ∀ x, (f x).key = x.key)
    (hs : ∀ x, (f x).pendingSend = x.pendingSend) : Raise k s (s.modStream k f) := by
  unfold Streams.modStream
  split
  · next st hst =>
    have hkey : (f st).key = k := (hk st).trans (get?_key hst)
    refine ⟨fun j hj => ?_, ?_, rfl⟩
    · rcases setStream_stream s (f st) j with e | ⟨_, hj', _⟩
      · exact e
      · exact absurd (hj'.trans hkey) hj
    · rcases setStream_stream s (f st) k with e | ⟨e, _, _⟩
      · rw [e]
      · rw [e, hs, stream_of_get? hst]
  · exact .of_store (panic_store _ _)

theorem Raise.ppq_eq {k : Nat} {s s' : Streams} (h : Raise k s s') (j : Nat) : ppq s' j = ppq s j := by
  unfold ppq
  by_cases hj : j = k
  · subst hj; rw [h.send]
  · rw [h.other j hj]

theorem Raise.fi {k : Nat} {s s' : Streams} (h : Raise k s s') (hi : FI s) (h1 : One (s'.stream k))
    (hr : ∀ k' pid, pid ∈ ppq s k' → s.store.findKey? pid ≠ some k) : FI s' := by
  refine ⟨fun j => ?_, ⟨fun j => by rw [h.ppq_eq]; exact hi.ppu.nodup j, fun a b pid ha hb => ?_⟩, ?_⟩
  · by_cases hj : j = k
    · subst hj; exact h1
    · rw [h.other j hj]; exact hi.unc j
  · rw [h.ppq_eq] at ha hb; exact hi.ppu.disj a b pid ha hb
  · intro k' pid hp pushed hf
    rw [h.ppq_eq] at hp
    have hf' : s.store.findKey? pid = some pushed := by unfold Store.findKey? at hf ⊢; rw [← h.ids]; exact hf
    have hne : pushed ≠ k := fun e => hr k' pid hp (e ▸ hf')
    rw [h.other pushed hne]
    exact hi.ppf k' pid hp pushed hf'

/-- the bundle the write path keeps -/
structure PI (E : Nat → Prop) (s : Streams) : Prop where
  npi : NPI E s
  err : ErrOK s
  fi : FI s

theorem PI.lt {E : Nat → Prop} {ks : List Nat} {s s' : Streams} (h : PI E s) (hlt : LT ks s s') (hl : LiveAll s ks)
    (e : EvB false s s') (hf : FK s s') : PI E s' :=
  ⟨h.npi.lt hlt.w hl e noE, hlt.err.errOK h.err, hf.fi h.npi.ids.nodup h.fi⟩

theorem PI.ta {E : Nat → Prop} {s : Streams} (h : PI E s) (k : Nat) (b : Bool)
    (hb : b = true → (s.stream k).resetAt = true) : PI E (s.transitionAfter k b) :=
  ⟨transitionAfter_npi h.npi h.err k b hb, (transitionAfter_errSame s k b).errOK h.err,
   (transitionAfter_fk s k b).fi h.npi.ids.nodup h.fi⟩

-- ===================================================================== popping any queue

/-- the key popped from a queue that holds exactly the live flagged entries is live, and its flag is down -/
theorem qPopQ_live {s : Streams} {q : QName} (hq : QOK q s) {s' : Streams} {id : Nat}
    (h : s.qPop q = (s', some id)) : Live s id ∧ Live s' id ∧ (s'.stream id).isQueued q = false := by
  unfold Streams.qPop at h
  split at h
  · cases h
  · next id' rest heq =>
    cases h
    obtain ⟨x, hx, _⟩ := (hq.mem id).mp (by rw [heq]; exact List.mem_cons_self ..)
    have hx' : (s.setQ q rest).store.get? id = some x := by rw [setQ_store]; exact hx
    refine ⟨⟨x, hx⟩, (SameKeys.modStream _ _ _).live.mpr (live_setQ.mpr ⟨x, hx⟩), ?_⟩
    have := modStream_get?_self (s.setQ q rest) id (fun st => st.setQueued q false) x hx' (setQueued_key _ _ _)
    rw [stream_of_get? this]
    cases q <;> rfl

theorem qPopQ_counts (s : Streams) (q : QName) : (s.qPop q).1.counts = s.counts := by
  unfold Streams.qPop; split
  · rfl
  · dsimp only; rw [modStream_counts, setQ_counts']

/-- `Queue::pop` of a queue in good shape is a light step -/
theorem qPop_ltq (s : Streams) (q : QName) (hq : QOK q s) : LT [] s (s.qPop q).1 := by
  refine ⟨SameKeys.qPop _ _, qPop_ids _ _, qPop_spr _ _ (fun x v => setQueued_id x _ v),
    qPop_spr _ _ (fun x v => setQueued_ref x _ v), ?_, ?_⟩
  · unfold ErrSame; rw [qPopQ_counts]; exact ⟨rfl, rfl⟩
  · intro _ hn
    have hp : (s.qPop q).1.panicked = none := by
      unfold Streams.qPop; split
      · exact hn.np
      · next id rest heq =>
        dsimp only
        obtain ⟨x, hx, _⟩ := (hq.mem id).mp (by rw [heq]; exact List.mem_cons_self ..)
        rw [modStream_panicked_live (live_setQ.mpr ⟨x, hx⟩), setQ_panicked]; exact hn.np
    refine ⟨hp, (SameKeys.qPop _ _).keysOK hn.keys, ?_, ?_⟩
    · by_cases h : q = .pendingCapacity
      · subst h; exact QOK.qPop hn.qc
      · exact (QF.qPop _ _ s (fun e => h e.symm)).qok hn.qc
    · unfold Streams.qPop; split
      · exact hn.av
      · exact avOK_modStream_flow _ _ (fun x => setQueued_flow x _ false) (avOK_setQ _ _ hn.av)

/-- composing light steps when the keys of the second one are only known to be live in between -/
theorem LT.trans_live {ks ks' : List Nat} {a b c : Streams} (h1 : LT ks a b) (h2 : LT ks' b c)
    (hl : LiveAll a ks → NPQ a → LiveAll b ks') : LT ks a c :=
  ⟨h1.keys.trans h2.keys, h2.ids.trans h1.ids, h1.sid.trans h2.sid, h1.ref.trans h2.ref, h1.err.trans h2.err,
   fun hla hq => h2.ok (hl hla hq) (h1.ok hla hq)⟩

-- ===================================================================== pop_pending_open

theorem incNumSendStreams_pk (s : Streams) (k : Nat) : PK s (s.incNumSendStreams k) := by
  unfold Streams.incNumSendStreams; pk_auto

theorem popPendingOpen_pk (s : Streams) : PK s s.popPendingOpen.1 := by
  unfold Streams.popPendingOpen; pk_auto

theorem incNumSendStreams_raise (s : Streams) (k : Nat) : Raise k s (s.incNumSendStreams k) := by
  unfold Streams.incNumSendStreams
  dsimp only
  generalize hs1 : (if s.counts.canIncNumSendStreams = true then s else s.panic _) = s1
  have h1 : Raise k s s1 := by rw [← hs1]; split; exact .of_store rfl; exact .of_store (panic_store _ _)
  generalize hs2 : (if (s1.stream k).isCounted = true then s1.panic _ else s1) = s2
  have h2 : Raise k s1 s2 := by rw [← hs2]; split; exact .of_store (panic_store _ _); exact .of_store rfl
  generalize hs3 : s2.modCounts _ = s3
  have h3 : Raise k s2 s3 := by rw [← hs3]; exact .of_store rfl
  exact (h1.trans h2).trans (h3.trans (Raise.modStream s3 k _ (fun _ => rfl) (fun _ => rfl)))

theorem incNumSendStreams_stream {s : Streams} {k : Nat} (hl : Live s k) (h1 : s.counts.canIncNumSendStreams = true)
    (h2 : (s.stream k).isCounted = false) : (s.incNumSendStreams k).stream k = { s.stream k with isCounted := true } := by
  unfold Streams.incNumSendStreams
  simp only [h1, h2, if_true, Bool.false_eq_true, if_false]
  have hg : (s.modCounts fun c => { c with numSendStreams := c.numSendStreams + 1 }).store.get? k = some (s.stream k) := hl.stream
  exact stream_of_get? (modStream_get?_self _ k _ _ hg rfl)

/-- counting an entry that carries no flag and that no queued PUSH_PROMISE announces -/
theorem incNumSendStreams_fi {s : Streams} (hi : FI s) {k : Nat} (hl : Live s k)
    (h1 : s.counts.canIncNumSendStreams = true) (h2 : (s.stream k).isCounted = false)
    (h3 : (s.stream k).isPendingPush = false) (h4 : (s.stream k).isPendingOpen = false)
    (hr : ∀ k' pid, pid ∈ ppq s k' → s.store.findKey? pid ≠ some k) : FI (s.incNumSendStreams k) := by
  refine (incNumSendStreams_raise s k).fi hi ?_ hr
  rw [incNumSendStreams_stream hl h1 h2]
  refine ⟨fun hp => ?_, fun ho => ?_⟩
  · have hp' : (s.stream k).isPendingPush = true := hp
    rw [h3] at hp'; cases hp'
  · have ho' : (s.stream k).isPendingOpen = true := ho
    rw [h4] at ho'; cases ho'

/-- a key just popped from `pending_open` belongs to a stream that (given `Unc`) carries no flag any more -/
theorem popOpen_flags {s s1 : Streams} {id : Nat} (hq : QOK .pendingOpen s) (hu : Unc s)
    (heq : s.qPop .pendingOpen = (s1, some id)) :
    (s.stream id).isPendingOpen = true ∧ (s1.stream id).isCounted = false ∧ (s1.stream id).isPendingPush = false := by
  have hfk : FK s s1 := FK.of_fst_eq heq (qPop_fk s _)
  have hfl : (s.stream id).isPendingOpen = true := by
    have hm : id ∈ s.getQ .pendingOpen := by
      unfold Streams.qPop at heq
      split at heq
      · cases heq
      · next id' rest hq' => cases heq; rw [hq']; exact List.mem_cons_self ..
    obtain ⟨x, hx, hf⟩ := (hq.mem id).mp hm
    rw [stream_of_get? hx]; exact hf
  refine ⟨hfl, bool_false_of_impP (hfk.fl id).c ((hu id).2 hfl), ?_⟩
  cases hp : (s.stream id).isPendingPush with
  | false => exact bool_false_of_impP (hfk.fl id).pp hp
  | true => have := ((hu id).1 hp).2; rw [hfl] at this; cases this

/-- `pop_pending_open` is a light step (`assert!(!stream.is_counted)` holds by `Unc`), the popped key is live -/
theorem popPendingOpen_lt {s : Streams} (hq : QOK .pendingOpen s) (hu : Unc s) :
    LT [] s s.popPendingOpen.1 ∧ (∀ id, s.popPendingOpen.2 = some id → Live s.popPendingOpen.1 id) := by
  unfold Streams.popPendingOpen
  split
  · next hc =>
    split
    · next s1 id heq =>
      dsimp only
      have hl := qPopQ_live hq heq
      have hc1 : s1.counts.canIncNumSendStreams = true := by
        have : s1.counts = s.counts := by
          have := qPopQ_counts s .pendingOpen; rw [heq] at this; exact this
        rw [this]; exact hc
      have hlt2 : LT [id] s1 (s1.incNumSendStreams id) := incNumSendStreams_lt s1 id hc1 (popOpen_flags hq hu heq).2.1
      have hlt3 : LT [id] (s1.incNumSendStreams id) ((s1.incNumSendStreams id).modStreamW id Stream.notifySend) :=
        modStreamW_lt _ _ _ (fun _ => by inert_tac)
      have hlt23 := hlt2.trans hlt3 (fun _ h => h)
      refine ⟨(LT.of_fst_eq heq (qPop_ltq s _ hq)).trans_live hlt23 (fun _ _ => liveAll1 hl.2.1), ?_⟩
      intro id' hid'
      cases hid'
      exact hlt23.keys.live.mpr hl.2.1
    · next s1 heq => exact ⟨LT.of_fst_eq heq (qPop_ltq s _ hq), fun _ h => by cases h⟩
  · exact ⟨.refl _ _, fun _ h => by cases h⟩

/-- **`Prioritize::pop_pending_open` keeps `NPI`** (task form: the flag facts as queue statements) -/
theorem popPendingOpen_npi {E : Nat → Prop} {s : Streams} (h : NPI E s) (h1 : OpenUncounted s)
    (h2 : PushUncounted s) (h3 : OpenNotPush s) : NPI E s.popPendingOpen.1 :=
  have hq := h.qs .pendingOpen (by decide)
  h.lt (popPendingOpen_lt hq ((unc_iff hq).mpr ⟨h1, h2, h3⟩)).1.w (liveAll0 s) (popPendingOpen_ev (ρ := false) s) noE

/-- **`Prioritize::pop_pending_open` keeps the bundle**, and the popped key is live -/
theorem popPendingOpen_pi {E : Nat → Prop} {s : Streams} (h : PI E s) :
    PI E s.popPendingOpen.1 ∧ (∀ id, s.popPendingOpen.2 = some id → Live s.popPendingOpen.1 id) := by
  have hq := h.npi.qs .pendingOpen (by decide)
  have hlt := popPendingOpen_lt hq h.fi.unc
  refine ⟨⟨h.npi.lt hlt.1.w (liveAll0 s) (popPendingOpen_ev (ρ := false) s) noE, hlt.1.err.errOK h.err, ?_⟩, hlt.2⟩
  unfold Streams.popPendingOpen
  split
  · next hc =>
    split
    · next s1 id heq =>
      dsimp only
      have hl := qPopQ_live hq heq
      have hfk : FK s s1 := FK.of_fst_eq heq (qPop_fk s _)
      have hc1 : s1.counts.canIncNumSendStreams = true := by
        have : s1.counts = s.counts := by
          have := qPopQ_counts s .pendingOpen; rw [heq] at this; exact this
        rw [this]; exact hc
      have hf := popOpen_flags hq h.fi.unc heq
      have hr : ∀ k' pid, pid ∈ ppq s1 k' → s1.store.findKey? pid ≠ some id := by
        intro k' pid hp hf'
        have := (h.fi.ppf k' pid ((hfk.ppq_sub k').subset hp) id ((hfk.ids h.npi.ids.nodup).2 pid id hf')).2
        rw [hf.1] at this; cases this
      have hfi2 := incNumSendStreams_fi (hfk.fi h.npi.ids.nodup h.fi) hl.2.1 hc1 hf.2.1 hf.2.2 hl.2.2 hr
      have hn2 : ((s1.incNumSendStreams id).store.ids.map (·.1)).Nodup := by
        rw [(incNumSendStreams_raise s1 id).ids]; exact (hfk.ids h.npi.ids.nodup).1
      exact (modStreamW_fk _ _ _ (fun _ => by flg_tac)).fi hn2 hfi2
    · next s1 heq => exact (FK.of_fst_eq heq (qPop_fk s _)).fi h.npi.ids.nodup h.fi
  · exact h.fi

end H2V.Lemmas.ConnNoPanicP
