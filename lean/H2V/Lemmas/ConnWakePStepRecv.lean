import H2V.Lemmas.ConnWakePStepSend
/-
  ConnWakeP, part 4 — `Step` for every non-`poll_*` function of `ConnRecv.lean` (recv.rs).
  The only new ingredient is the pair "push an event onto `pending_recv`, then `notify_recv`", which is a
  step only as a pair (`push_notifyRecv_acc`): that is the "event ⇒ wake" clause of `SStep`.
-/
namespace H2V.Lemmas.ConnWakeP
open H2V H2V.Model H2V.Model.Conn

section
variable {cx : Option String} {s0 s : Streams}

/-- two successive updates of the same entry, the second one possibly waking: a step if the
    composition is one -/
theorem modStream_modStreamW_step (cx : Option String) (s : Streams) (k : Nat) (g : Stream → Stream)
    (f : Stream → Stream × List String) (hgk : (g (s.stream k)).key = (s.stream k).key)
    (hf : SStep (f (g (s.stream k))).2 (s.stream k) (f (g (s.stream k))).1) :
    Step cx s ((s.modStream k g).modStreamW k f) := by
  cases ha : s.store.get? k with
  | none =>
    have hp : ∀ m, (s.panic m).store.get? k = none := by
      intro m; unfold Streams.panic; split <;> exact ha
    simp only [Streams.modStream, Streams.modStreamW, ha, hp]
    exact (panic_step _ _ _).trans (panic_step _ _ _)
  | some a =>
    rw [stream_eq_of_get? ha] at hgk hf
    have hk : a.key = k := Store.get?_key ha
    have hgk : (g a).key = k := by rw [hgk, hk]
    have e1 : s.modStream k g = s.setStream (g a) := by simp only [Streams.modStream, ha]
    have hget : (s.setStream (g a)).store.get? k = some (g a) := by
      show (s.store.set (g a)).get? k = _
      rw [Store.get?_set]; simp [hgk, ha]
    have e2 : (s.setStream (g a)).modStreamW k f = ((s.setStream (g a)).setStream (f (g a)).1).wake (f (g a)).2 := by
      simp only [Streams.modStreamW, hget]
    rw [e1, e2]
    have h := hf
    have hfk : (f (g a)).1.key = k := by rw [h.key, hk]
    refine ⟨⟨_, rfl⟩, Nat.le_refl _, fun hb => ?_, fun k' _ hn => ?_, fun k' x _ hx => ?_, Or.inl rfl, fun h => h, rfl⟩
    · exact (hb.set (b := g a) (by rw [hgk]; exact hb.get? ha)).set (by rw [hfk]; exact hb.get? ha)
    · show ((s.store.set (g a)).set (f (g a)).1).get? k' = none
      rw [Store.get?_set, Store.get?_set]; split <;> split <;> simp [hn]
    · refine Or.inr ?_
      have hw : newWakes s (((s.setStream (g a)).setStream (f (g a)).1).wake (f (g a)).2) = (f (g a)).2 :=
        newWakes_of_eq rfl
      show ∃ y, ((s.store.set (g a)).set (f (g a)).1).get? k' = some y ∧ _
      rw [hw, Store.get?_set, Store.get?_set]
      by_cases hkk : k' = k
      · subst hkk
        rw [ha] at hx; cases hx
        exact ⟨_, by simp [hfk, hgk, ha], h⟩
      · exact ⟨x, by simp [hfk, hgk, hkk, hx], SStep.refl _ _⟩

/-- everything `SStep` talks about untouched, except `pending_recv` -/
structure InertR (a b : Stream) : Prop where
  key : b.key = a.key
  id : b.id = a.id
  state : b.state = a.state
  sendTask : b.sendTask = a.sendTask
  openTask : b.openTask = a.openTask
  recvTask : b.recvTask = a.recvTask
  pushTask : b.pushTask = a.pushTask
  cap : b.sendCapacityInc = a.sendCapacityInc

@[grind =] theorem inertR_iff (a b : Stream) : InertR a b ↔ (b.key = a.key ∧ b.id = a.id ∧ b.state = a.state ∧
    b.sendTask = a.sendTask ∧ b.openTask = a.openTask ∧ b.recvTask = a.recvTask ∧ b.pushTask = a.pushTask ∧
    b.sendCapacityInc = a.sendCapacityInc) :=
  ⟨fun h => ⟨h.1, h.2, h.3, h.4, h.5, h.6, h.7, h.8⟩,
   fun ⟨h1, h2, h3, h4, h5, h6, h7, h8⟩ => ⟨h1, h2, h3, h4, h5, h6, h7, h8⟩⟩

theorem notifyRecv_fields (x : Stream) :
    x.notifyRecv.1.key = x.key ∧ x.notifyRecv.1.id = x.id ∧ x.notifyRecv.1.state = x.state ∧
    x.notifyRecv.1.sendTask = x.sendTask ∧ x.notifyRecv.1.openTask = x.openTask ∧
    x.notifyRecv.1.pushTask = x.pushTask ∧ x.notifyRecv.1.sendCapacityInc = x.sendCapacityInc ∧
    x.notifyRecv.1.pendingRecv = x.pendingRecv ∧ x.notifyRecv.1.recvTask = none ∧
    (∀ t, x.recvTask = some t → t ∈ x.notifyRecv.2) := by
  unfold Stream.notifyRecv; split <;> simp_all

/-- an update of `pending_recv` (a push, typically) followed by `notify_recv` -/
theorem pushed_notifyRecv_sstep {a b : Stream} (h : InertR a b) : SStep b.notifyRecv.2 a b.notifyRecv.1 := by
  obtain ⟨f1, f2, f3, f4, f5, f6, f7, _, f9, f10⟩ := notifyRecv_fields b
  refine ⟨f1.trans h.key, f2.trans h.id, ?_, ?_, ?_, Or.inl (f4.trans h.sendTask), Or.inl (f5.trans h.openTask),
    Or.inr ⟨f9, fun t ht => f10 t (h.recvTask ▸ ht)⟩, Or.inl (f6.trans h.pushTask), ?_, Or.inl (f7.trans h.cap),
    Or.inr ⟨f9, fun t ht => f10 t (h.recvTask ▸ ht)⟩⟩
  · rw [f3, h.state]; exact fun h => h
  · rw [f3, h.state]; exact fun h => h
  · rw [f3, h.state]; exact Or.inl
  · rw [f7, h.cap]; exact fun h => h

/-- `stream.pending_recv.push_back(event); stream.notify_recv()` -/
@[grind ←] theorem push_notifyRecv_acc (k : Nat) (g : Stream → Stream) (hg : InertR (s.stream k) (g (s.stream k)))
    (h : Step cx s0 s) : Step cx s0 ((s.modStream k g).modStreamW k Stream.notifyRecv) :=
  h.trans (modStream_modStreamW_step cx s k g _ hg.key (pushed_notifyRecv_sstep hg))

@[grind ←] theorem inertPop_of_nil {a b : Stream} (h : InertR a b) (hr : b.pendingRecv = []) : InertPop a b :=
  ⟨h.key, h.id, h.state, h.sendTask, h.openTask, h.recvTask, h.pushTask, h.cap,
    ⟨a.pendingRecv.length, by rw [hr, List.drop_length]⟩⟩

@[grind ←] theorem inertPop_of_tail {a b : Stream} (h : InertR a b) (hr : b.pendingRecv = a.pendingRecv.tail) :
    InertPop a b :=
  ⟨h.key, h.id, h.state, h.sendTask, h.openTask, h.recvTask, h.pushTask, h.cap, ⟨1, by rw [hr, List.drop_one]⟩⟩

-- ===================================================================== recv.rs
@[grind ←] theorem releaseConnectionCapacity_acc (c : Nat) (u : Bool) (h : Step cx s0 s) :
    Step cx s0 (s.releaseConnectionCapacity c u) := by
  unfold Streams.releaseConnectionCapacity; step_grind
@[grind ←] theorem releaseCapacity_acc (k c : Nat) (u : Bool) (h : Step cx s0 s) :
    Step cx s0 (s.releaseCapacity k c u).1 := by
  unfold Streams.releaseCapacity; step_grind
@[grind ←] theorem clearRecvBuffer_acc (k : Nat) (u : Bool) (h : Step cx s0 s) : Step cx s0 (s.clearRecvBuffer k u) := by
  unfold Streams.clearRecvBuffer; step_grind
@[grind ←] theorem releaseClosedCapacity_acc (k : Nat) (h : Step cx s0 s) : Step cx s0 (s.releaseClosedCapacity k) := by
  unfold Streams.releaseClosedCapacity; step_grind
@[grind ←] theorem setTargetConnectionWindow_acc (t : Nat) (h : Step cx s0 s) :
    Step cx s0 (s.setTargetConnectionWindow t).1 := by
  unfold Streams.setTargetConnectionWindow; step_grind
@[grind ←] theorem applyLocalSettings_acc (a b : Option Nat) (h : Step cx s0 s) : Step cx s0 (s.applyLocalSettings a b).1 := by
  unfold Streams.applyLocalSettings
  have h2 := @storeTryForEach_acc cx s0
  step_grind
@[grind ←] theorem consumeConnectionWindow_acc (sz : Nat) (h : Step cx s0 s) : Step cx s0 (s.consumeConnectionWindow sz).1 := by
  unfold Streams.consumeConnectionWindow; step_grind
@[grind ←] theorem ignoreData_acc (sz : Nat) (h : Step cx s0 s) : Step cx s0 (s.ignoreData sz).1 := by
  unfold Streams.ignoreData; step_grind
@[grind ←] theorem recvOpen_acc (k : Nat) (b : Bool) (h : Step cx s0 s) : Step cx s0 (s.recvOpen k b).1 := by
  unfold Streams.recvOpen; step_grind
@[grind ←] theorem notifyPushIfRecvEnded_acc (k : Nat) (h : Step cx s0 s) : Step cx s0 (s.notifyPushIfRecvEnded k) := by
  unfold Streams.notifyPushIfRecvEnded; step_grind
@[grind ←] theorem recvRecvHeaders_acc (k : Nat) (hd : HeadersIn) (h : Step cx s0 s) : Step cx s0 (s.recvRecvHeaders k hd).1 := by
  unfold Streams.recvRecvHeaders; step_grind
@[grind ←] theorem recvRecvTrailers_acc (k : Nat) (hd : HeadersIn) (h : Step cx s0 s) : Step cx s0 (s.recvRecvTrailers k hd).1 := by
  unfold Streams.recvRecvTrailers; step_grind
theorem setStream_acc2 (k : Nat) (b : Stream) (hb : SStep [] (s.stream k) b) (h : Step cx s0 s) :
    Step cx s0 (s.setStream b) := by
  have := setStream_wake_acc k b [] hb h
  have e : (s.setStream b).wake [] = s.setStream b := by simp [Streams.wake]
  rwa [e] at this
grind_pattern setStream_acc2 => SStep [] (s.stream k) b, Step cx s0 (s.setStream b)

@[grind →] theorem decContentLength_inert {a b : Stream} {n : Nat} (h : a.decContentLength n = some b) : Inert a b := by
  unfold Stream.decContentLength at h
  split at h
  · split at h
    · cases h; inert
    · cases h
  · split at h
    · cases h
    · cases h; inert
  · cases h; inert

@[grind ←] theorem recvRecvData_acc (k : Nat) (p : Bytes) (eos : Bool) (pad : Option Nat) (h : Step cx s0 s) :
    Step cx s0 (s.recvRecvData k p eos pad).1 := by
  unfold Streams.recvRecvData; step_grind
@[grind ←] theorem recvRecvPushPromise_acc (k : Nat) (hd : HeadersIn) (h : Step cx s0 s) :
    Step cx s0 (s.recvRecvPushPromise k hd).1 := by
  unfold Streams.recvRecvPushPromise; step_grind
@[grind ←] theorem recvNextIncoming_acc (h : Step cx s0 s) : Step cx s0 s.recvNextIncoming.1 := by
  unfold Streams.recvNextIncoming; step_grind
@[grind ←] theorem recvTakeRequest_acc (k : Nat) (h : Step cx s0 s) : Step cx s0 (s.recvTakeRequest k).1 := by
  unfold Streams.recvTakeRequest; step_grind
@[grind ←] theorem recvRecvReset_acc (k : Nat) (r : Reason) (h : Step cx s0 s) : Step cx s0 (s.recvRecvReset k r).1 := by
  unfold Streams.recvRecvReset; step_grind
@[grind ←] theorem recvHandleError_acc (k : Nat) (e : PErr) (h : Step cx s0 s) : Step cx s0 (s.recvHandleError k e) := by
  unfold Streams.recvHandleError; step_grind
@[grind ←] theorem recvGoAway_acc (l : Nat) (h : Step cx s0 s) : Step cx s0 (s.recvGoAway l) := by
  unfold Streams.recvGoAway; step_grind
@[grind ←] theorem recvRecvEof_acc (k : Nat) (h : Step cx s0 s) : Step cx s0 (s.recvRecvEof k) := by
  unfold Streams.recvRecvEof; step_grind
@[grind ←] theorem recvMaybeResetNextStreamId_acc (k : Nat) (h : Step cx s0 s) :
    Step cx s0 (s.recvMaybeResetNextStreamId k) := by
  unfold Streams.recvMaybeResetNextStreamId; step_grind
@[grind ←] theorem enqueueResetExpiration_acc (k : Nat) (h : Step cx s0 s) : Step cx s0 (s.enqueueResetExpiration k) := by
  unfold Streams.enqueueResetExpiration; step_grind
@[grind ←] theorem sendPendingRefusal_acc (w : Writer) (h : Step cx s0 s) : Step cx s0 (s.sendPendingRefusal w).1 := by
  unfold Streams.sendPendingRefusal; step_grind
@[grind ←] theorem clearExpiredResetStreams_acc (n : Nat) (h : Step cx s0 s) :
    Step cx s0 (Streams.clearExpiredResetStreams n s) := by
  induction n generalizing s with
  | zero => unfold Streams.clearExpiredResetStreams; exact h
  | succ n ih => unfold Streams.clearExpiredResetStreams; step_grind
@[grind ←] theorem clearStreamWindowUpdateQueue_acc (n : Nat) (h : Step cx s0 s) :
    Step cx s0 (Streams.clearStreamWindowUpdateQueue n s) := by
  induction n generalizing s with
  | zero => unfold Streams.clearStreamWindowUpdateQueue; exact h
  | succ n ih => unfold Streams.clearStreamWindowUpdateQueue; step_grind
@[grind ←] theorem clearAllResetStreams_acc (n : Nat) (h : Step cx s0 s) : Step cx s0 (Streams.clearAllResetStreams n s) := by
  induction n generalizing s with
  | zero => unfold Streams.clearAllResetStreams; exact h
  | succ n ih => unfold Streams.clearAllResetStreams; step_grind
@[grind ←] theorem clearAllPendingAccept_acc (n : Nat) (h : Step cx s0 s) : Step cx s0 (Streams.clearAllPendingAccept n s) := by
  induction n generalizing s with
  | zero => unfold Streams.clearAllPendingAccept; exact h
  | succ n ih => unfold Streams.clearAllPendingAccept; step_grind
@[grind ←] theorem recvClearQueues_acc (b : Bool) (h : Step cx s0 s) : Step cx s0 (s.recvClearQueues b) := by
  unfold Streams.recvClearQueues; step_grind
@[grind ←] theorem sendConnectionWindowUpdate_acc (w : Writer) (h : Step cx s0 s) :
    Step cx s0 (s.sendConnectionWindowUpdate w).1 := by
  unfold Streams.sendConnectionWindowUpdate; step_grind
@[grind ←] theorem sendStreamWindowUpdates_acc (n : Nat) (w : Writer) (h : Step cx s0 s) :
    Step cx s0 (Streams.sendStreamWindowUpdates n s w).1 := by
  induction n generalizing s w with
  | zero => unfold Streams.sendStreamWindowUpdates; exact h
  | succ n ih => unfold Streams.sendStreamWindowUpdates; step_grind
@[grind ←] theorem recvBufferPending_acc (w : Writer) (h : Step cx s0 s) : Step cx s0 (s.recvBufferPending w).1 := by
  unfold Streams.recvBufferPending; step_grind
end
end H2V.Lemmas.ConnWakeP
