import H2V.Lemmas.ConnNoPanicPAll2
/-
  C08 (no panic) — the STREAM-level receive-window invariant of ConnRecvP (`Inv true`) along histories.
  It survives every operation that answers Ok; the two operations that can answer an error are
  `Inner::send_reset` (only "too_many_internal_resets": excluded by `ErrOK`) and `apply_local_settings`
  (FLOW_CONTROL_ERROR while applying an acknowledged SETTINGS_INITIAL_WINDOW_SIZE: precondition `okPre`).
-/
namespace H2V.Lemmas.ConnNoPanicP
open H2V H2V.Model H2V.Model.Conn H2V.Lemmas.ConnCountsP
open H2V.Lemmas.ConnResetP (Op run)

theorem actionsSendReset_ok {s : Streams} (he : ErrOK s) (k : Nat) (r : Reason) (i : Initiator) :
    (s.actionsSendReset k r i).2 = .ok () := by
  rw [actionsSendReset_eq]
  unfold Streams.transition actionsSendResetClosure
  unfold ErrOK at he
  simp only [he, if_true]
  cases i.isLibrary <;> rfl

theorem innerSendReset_ok {s : Streams} (he : ErrOK s) (id : Nat) (r : Reason) : (s.innerSendReset id r).2 = .ok () := by
  unfold Streams.innerSendReset
  cases hfk : s.store.findKey? id with
  | some k => exact actionsSendReset_ok he k r .library
  | none =>
    dsimp only
    apply actionsSendReset_ok
    show (if s.counts.isLocalInit id = true then s.sendMaybeResetNextStreamId id else s.recvMaybeResetNextStreamId id).counts.canIncNumLocalErrorResets = true
    have : (if s.counts.isLocalInit id = true then s.sendMaybeResetNextStreamId id else s.recvMaybeResetNextStreamId id).counts = s.counts := by
      unfold Streams.sendMaybeResetNextStreamId Streams.recvMaybeResetNextStreamId
      repeat' split
      all_goals rfl
    rw [this]; exact he

/-- the acknowledged local SETTINGS could be applied -/
def okPre (s : Streams) : Op → Prop
  | .applyLocalSettingsFrame vals => (s.applyLocalSettingsFrame vals).2 = .ok ()
  | _ => True

/-- …in particular when they carry no SETTINGS_INITIAL_WINDOW_SIZE -/
theorem applyLocalSettingsFrame_ok_of_none (s : Streams) (vals : List (Nat × Nat)) (h : ConnRecvP.settingsIws vals = none) :
    (s.applyLocalSettingsFrame vals).2 = .ok () := by
  unfold Streams.applyLocalSettingsFrame Streams.applyLocalSettings
  unfold ConnRecvP.settingsIws at h
  simp only [h]

/-- ConnRecvP's full receive-window invariant (connection and stream level), for some configuration ghost -/
def JF (s : Streams) : Prop := ∃ g, ConnRecvP.Inv true g s

theorem JF_init {s : Streams} (h : ConnRecvP.Init s) : JF s := ⟨_, ConnRecvP.Inv.init h true⟩

theorem JF.jr {s : Streams} (h : JF s) : JR s := let ⟨g, hg⟩ := h; ⟨g, hg.drop_full⟩

theorem JF_step {s : Streams} (hj : JF s) (op : Op) (hv : (toRecvOp op).valid s) (he : ErrOK s) (hok : okPre s op) :
    JF (op.apply s) := by
  obtain ⟨g, hg⟩ := hj
  rw [← toRecvOp_apply]
  refine ⟨_, ((toRecvOp op).step_inv hg hv).2 ?_⟩
  cases op <;> first
    | exact trivial
    | exact hok
    | exact innerSendReset_ok he _ _

end H2V.Lemmas.ConnNoPanicP
