import H2V.Lemmas.ConnNoPanicPPollRecv
/-
  C08 (no panic) — part 12: `buffered_send_data` covers the queued DATA (`DSum`), kept by the write path.
  Needed for ONE fact: when `pop_frame` cuts a DATA frame and a remainder stays with the codec
  (`frame.rest > 0`), the stream is not closed (`buffered_send_data > 0`), so `transition_after` does not
  release it and `reclaim_frame` finds a live entry to push the remainder back to.
  `DK` is the frame relation (third of its kind, same peeling tactic).
-/
namespace H2V.Lemmas.ConnNoPanicP
open H2V H2V.Model H2V.Model.Conn H2V.Lemmas.ConnCountsP
attribute [local irreducible] wrapSubU32 wrapSubUsize

/-- octets of the DATA frames in a `pending_send` list -/
def dsum : List SFrame → Nat
  | [] => 0
  | .data len _ :: l => len + dsum l
  | .headers _ _ :: l => dsum l
  | .reset _ :: l => dsum l
  | .pushPromise _ _ _ :: l => dsum l

/-- `buffered_send_data` (a `usize`) covers the queued DATA -/
def DS (x : Stream) : Prop := dsum x.pendingSend ≤ x.bufferedSendData ∧ x.bufferedSendData < USIZE_MOD

def DSum (s : Streams) : Prop := ∀ k, DS (s.stream k)

theorem dsum_tail_le (f : SFrame) (l : List SFrame) : dsum l ≤ dsum (f :: l) := by
  cases f <;> simp only [dsum] <;> omega

theorem DS.blank (k : Nat) : DS { key := k, id := 0 } := ⟨Nat.le_refl _, (by decide : (0 : Nat) < USIZE_MOD)⟩

/-- no entry loses the property -/
structure DK (s s' : Streams) : Prop where
  ds : ∀ j, DS (s.stream j) → DS (s'.stream j)

theorem DK.refl (s : Streams) : DK s s := ⟨fun _ h => h⟩
theorem DK.trans {a b c : Streams} (h1 : DK a b) (h2 : DK b c) : DK a c := ⟨fun j h => h2.ds j (h1.ds j h)⟩
theorem DK.of_fst_eq {s : Streams} {α : Type} {p : Streams × α} {a : Streams} {x : α}
    (h : p = (a, x)) (e : DK s p.1) : DK s a := by subst h; exact e
theorem DK.of_store {s s' : Streams} (h : s'.store = s.store) : DK s s' :=
  ⟨fun j hj => by unfold Streams.stream at *; rw [h]; exact hj⟩
theorem DK.dsum {s s' : Streams} (h : DK s s') (hd : DSum s) : DSum s' := fun k => h.ds k (hd k)

theorem panic_dk (s : Streams) (m : String) : DK s (s.panic m) := .of_store (panic_store _ _)
theorem wake_dk (s : Streams) (t : List String) : DK s (s.wake t) := .of_store rfl
theorem notifyTask_dk (s : Streams) : DK s s.notifyTask := by
  unfold Streams.notifyTask; split
  · exact .of_store rfl
  · exact .refl _
theorem modPrio_dk (s : Streams) (f : Prioritize → Prioritize) : DK s (s.modPrio f) := .of_store rfl
theorem modRecv_dk (s : Streams) (f : Recv → Recv) : DK s (s.modRecv f) := .of_store rfl
theorem modCounts_dk (s : Streams) (f : Counts → Counts) : DK s (s.modCounts f) := .of_store rfl
theorem modCountsA_dk (s : Streams) (w : String) (f : Counts → Option Counts) : DK s (s.modCountsA w f) := by
  unfold Streams.modCountsA; split
  · exact .of_store rfl
  · exact panic_dk _ _
theorem setQ_dk (s : Streams) (q : QName) (l : List Nat) : DK s (s.setQ q l) := .of_store (setQ_store _ _ _)
theorem setMisc_dk (s : Streams) (a : Actions) (refs leaked : Nat) (wk : List String) (un : Option String) :
    DK s { s with actions := a, refs := refs, recvBufferLeaked := leaked, wakes := wk, unsupported := un } := .of_store rfl
theorem setCounts_dk (s : Streams) (c : Counts) : DK s { s with counts := c } := .of_store rfl

theorem setStream_dk (s : Streams) (st' : Stream) (h : DS (s.stream st'.key) → DS st') : DK s (s.setStream st') := by
  refine ⟨fun j hj => ?_⟩
  rcases setStream_stream s st' j with e | ⟨e, hk, _⟩
  · rw [e]; exact hj
  · rw [e]; rw [hk] at hj; exact h hj

theorem modStream_dk' (s : Streams) (k : Nat) (f : Stream → Stream) (hk : ∀ x, (f x).key = x.key)
    (h : DS (s.stream k) → DS (f (s.stream k))) : DK s (s.modStream k f) := by
  unfold Streams.modStream
  split
  · next st hst =>
    rw [stream_of_get? hst] at h
    refine setStream_dk s _ ?_
    rw [hk, get?_key hst, stream_of_get? hst]; exact h
  · exact panic_dk _ _

theorem modStream_dk (s : Streams) (k : Nat) (f : Stream → Stream) (h : ∀ x, (f x).key = x.key ∧ (DS x → DS (f x))) :
    DK s (s.modStream k f) := modStream_dk' s k f (fun x => (h x).1) (h _).2

theorem modStreamW_dk (s : Streams) (k : Nat) (f : Stream → Stream × List String)
    (h : ∀ x, (f x).1.key = x.key ∧ (DS x → DS (f x).1)) : DK s (s.modStreamW k f) := by
  unfold Streams.modStreamW
  split
  · next st hst =>
    refine (setStream_dk s _ ?_).trans (wake_dk _ _)
    rw [(h st).1, get?_key hst, stream_of_get? hst]; exact (h st).2
  · exact panic_dk _ _

/-- an update that touches neither `pending_send` nor `buffered_send_data` -/
theorem ds_of_fields {a b : Stream} (h1 : b.pendingSend = a.pendingSend) (h2 : b.bufferedSendData = a.bufferedSendData) :
    DS a → DS b := by unfold DS; rw [h1, h2]; exact id

theorem ds_nil {b : Stream} (h1 : b.pendingSend = []) (h2 : b.bufferedSendData = 0) : DS b := by
  unfold DS; rw [h1, h2]; exact ⟨Nat.le_refl _, (by decide : (0 : Nat) < USIZE_MOD)⟩

theorem notifySend_proj (x : Stream) : x.notifySend.1.key = x.key ∧ x.notifySend.1.pendingSend = x.pendingSend ∧
    x.notifySend.1.bufferedSendData = x.bufferedSendData := by
  unfold Stream.notifySend
  cases h1 : x.sendTask <;> cases h2 : x.openTask <;> simp [h2]
theorem notifySend_ds (x : Stream) : x.notifySend.1.key = x.key ∧ (DS x → DS x.notifySend.1) :=
  ⟨(notifySend_proj x).1, ds_of_fields (notifySend_proj x).2.1 (notifySend_proj x).2.2⟩
theorem notifyRecv_ds (x : Stream) : x.notifyRecv.1.key = x.key ∧ (DS x → DS x.notifyRecv.1) := by
  unfold Stream.notifyRecv; split <;> exact ⟨rfl, ds_of_fields rfl rfl⟩
theorem notifyPush_ds (x : Stream) : x.notifyPush.1.key = x.key ∧ (DS x → DS x.notifyPush.1) := by
  unfold Stream.notifyPush; split <;> exact ⟨rfl, ds_of_fields rfl rfl⟩
theorem notifyCapacity_ds (x : Stream) : x.notifyCapacity.1.key = x.key ∧ (DS x → DS x.notifyCapacity.1) := by
  unfold Stream.notifyCapacity
  exact ⟨(notifySend_ds _).1, fun h => (notifySend_ds _).2 (ds_of_fields (a := x) rfl rfl h)⟩
theorem assignCapacity_ds (x : Stream) (a b : Nat) : (x.assignCapacity a b).1.key = x.key ∧ (DS x → DS (x.assignCapacity a b).1) := by
  unfold Stream.assignCapacity; simp only []; split
  · exact ⟨(notifyCapacity_ds _).1, fun h => (notifyCapacity_ds _).2 (ds_of_fields (a := x) rfl rfl h)⟩
  · exact ⟨rfl, ds_of_fields rfl rfl⟩
theorem setReset_ds (x : Stream) (r : Reason) (i : Initiator) : (x.setReset r i).1.key = x.key ∧ (DS x → DS (x.setReset r i).1) := by
  unfold Stream.setReset
  simp only []
  refine ⟨((notifyRecv_ds _).1.trans ((notifyPush_ds _).1.trans (notifySend_ds _).1)), fun h => ?_⟩
  exact (notifyRecv_ds _).2 ((notifyPush_ds _).2 ((notifySend_ds _).2 (ds_of_fields (a := x) rfl rfl h)))
theorem setQueued_ds (x : Stream) (q : QName) (v : Bool) : (x.setQueued q v).key = x.key ∧ (DS x → DS (x.setQueued q v)) := by
  cases q <;> exact ⟨rfl, ds_of_fields rfl rfl⟩

macro "ds_tac" : tactic => `(tactic| with_reducible first
  | exact ⟨rfl, ds_of_fields rfl rfl⟩
  | exact ⟨rfl, fun _ => ds_nil rfl rfl⟩
  | exact notifySend_ds _ | exact notifyRecv_ds _ | exact notifyPush_ds _ | exact notifyCapacity_ds _
  | exact assignCapacity_ds _ _ _ | exact setReset_ds _ _ _ | exact setQueued_ds _ _ _)

syntax "dk_side" : tactic
macro_rules | `(tactic| dk_side) => `(tactic| (intro _; ds_tac))
macro_rules | `(tactic| dk_side) => `(tactic| assumption)

elab "dk_head" : tactic => do
  relHead ``DK "_dk" (← `(tactic| first
    | with_reducible refine DK.trans ?_ (setMisc_dk _ _ _ _ _ _)
    | with_reducible refine DK.trans ?_ (setCounts_dk _ _)))

syntax "dk_step" : tactic
macro_rules | `(tactic| dk_step) => `(tactic| dk_head)
macro_rules | `(tactic| dk_step) => `(tactic| with_reducible refine DK.of_fst_eq (by with_reducible assumption) ?_)
macro_rules | `(tactic| dk_step) => `(tactic| with_reducible assumption)
macro_rules | `(tactic| dk_step) => `(tactic| with_reducible exact DK.refl _)

macro "dk_auto" : tactic => `(tactic| repeat (first | dk_step | dk_side | intro _ | split | dsimp only))
macro "dk_auto_ih" ih:ident : tactic =>
  `(tactic| repeat (first | dk_step | with_reducible refine DK.trans ?_ ($ih ..) | dk_side | intro _ | split | dsimp only))

theorem qPush_dk (s : Streams) (q : QName) (k : Nat) : DK s (s.qPush q k).1 := by
  unfold Streams.qPush; dk_auto
theorem qPushFront_dk (s : Streams) (q : QName) (k : Nat) : DK s (s.qPushFront q k).1 := by
  unfold Streams.qPushFront; dk_auto
theorem qPop_dk (s : Streams) (q : QName) : DK s (s.qPop q).1 := by
  unfold Streams.qPop; dk_auto
theorem decNumStreams_dk (s : Streams) (k : Nat) : DK s (s.decNumStreams k) := by
  unfold Streams.decNumStreams; dk_auto
theorem incNumSendStreams_dk (s : Streams) (k : Nat) : DK s (s.incNumSendStreams k) := by
  unfold Streams.incNumSendStreams; dk_auto
theorem queueOpen_dk (s : Streams) (k : Nat) : DK s (s.queueOpen k) := by
  unfold Streams.queueOpen; dk_auto

theorem remove_dk (s : Streams) (k n : Nat) : DK s { s with store := s.store.remove k, recvBufferLeaked := n } := by
  refine ⟨fun j hj => ?_⟩
  by_cases hjk : j = k
  · subst hjk
    have hb : ({ s with store := s.store.remove j, recvBufferLeaked := n } : Streams).stream j = { key := j, id := 0 } := by
      unfold Streams.stream
      have : (s.store.remove j).get? j = none := by
        unfold Store.remove Store.get?
        refine List.find?_eq_none.mpr ?_
        intro x hx
        have := (List.mem_filter.mp hx).2
        simpa using this
      show ((s.store.remove j).get? j).getD _ = _
      rw [this]; rfl
    rw [hb]; exact DS.blank _
  · have : ({ s with store := s.store.remove k, recvBufferLeaked := n } : Streams).stream j = s.stream j := by
      unfold Streams.stream
      show ((s.store.remove k).get? j).getD _ = _
      rw [get?_remove_ne _ _ _ hjk]
    rw [this]; exact hj

theorem unlink_dk (s : Streams) (id : Nat) : DK s { s with store := s.store.unlink id } :=
  ⟨fun _ hj => hj⟩

theorem transitionAfter_dk (s : Streams) (k : Nat) (b : Bool) : DK s (s.transitionAfter k b) := by
  unfold Streams.transitionAfter
  dsimp only
  generalize hs1 : (if (b && !(s.stream k).isPendingResetExpiration) = true then _ else s) = s1
  have h1 : DK s s1 := by rw [← hs1]; split; exact modCountsA_dk _ _ _; exact .refl _
  generalize hs2 : (if (s.stream k).isClosed = true then _ else s1) = s2
  have h2 : DK s s2 := by
    rw [← hs2]; split
    · generalize hs3 : (if (!(s.stream k).isPendingResetExpiration) = true then
          ({ s1 with store := s1.store.unlink (s.stream k).id } : Streams) else s1) = s3
      have h3 : DK s s3 := by rw [← hs3]; split; exact h1.trans (unlink_dk _ _); exact h1
      split
      · exact h3.trans (decNumStreams_dk _ _)
      · exact h3
    · exact h1
  split
  · generalize hs4 : (if (s2.stream k).isCounted = true then s2.decNumStreams k else s2) = s4
    have h4 : DK s s4 := by rw [← hs4]; split; exact h2.trans (decNumStreams_dk _ _); exact h2
    exact h4.trans (remove_dk _ _ _)
  · exact h2

theorem tryAssignCapacity_dk (s : Streams) (k : Nat) : DK s (s.tryAssignCapacity k) := by
  unfold Streams.tryAssignCapacity; dk_auto
theorem assignConnectionCapacityLoop_dk (n : Nat) (s : Streams) : DK s (Streams.assignConnectionCapacityLoop n s) := by
  induction n generalizing s with
  | zero => unfold Streams.assignConnectionCapacityLoop; exact .refl _
  | succ n ih => unfold Streams.assignConnectionCapacityLoop; dk_auto_ih ih
theorem assignConnectionCapacity_dk (s : Streams) (inc : Nat) : DK s (s.assignConnectionCapacity inc) := by
  unfold Streams.assignConnectionCapacity; dk_auto
theorem reclaimAllCapacity_dk (s : Streams) (k : Nat) : DK s (s.reclaimAllCapacity k) := by
  unfold Streams.reclaimAllCapacity; dk_auto
theorem clearQueue_dk (s : Streams) (k : Nat) : DK s (s.clearQueue k) := by
  unfold Streams.clearQueue; dk_auto
theorem popPendingOpen_dk (s : Streams) : DK s s.popPendingOpen.1 := by
  unfold Streams.popPendingOpen; dk_auto
theorem sendConnectionWindowUpdate_dk (s : Streams) (w : Writer) : DK s (s.sendConnectionWindowUpdate w).1 := by
  unfold Streams.sendConnectionWindowUpdate; dk_auto
theorem sendStreamWindowUpdates_dk (n : Nat) : ∀ (s : Streams) (w : Writer), DK s (Streams.sendStreamWindowUpdates n s w).1 := by
  induction n with
  | zero => intro s w; unfold Streams.sendStreamWindowUpdates; exact .refl _
  | succ n ih => intro s w; unfold Streams.sendStreamWindowUpdates; dk_auto_ih ih
theorem recvBufferPending_dk (s : Streams) (w : Writer) : DK s (s.recvBufferPending w).1 := by
  unfold Streams.recvBufferPending; dk_auto

end H2V.Lemmas.ConnNoPanicP
