import H2V.Lemmas.ConnNoPanicPPushInvStep2
import H2V.Lemmas.ConnNoPanicPIdsStep
/-
  C08 (no panic) — PUSH_PROMISE bookkeeping, stage 2, part 9: `IBR` (every peer-initiated slab entry has an id below
  `recv.next_stream_id`) along every operation — the receive-side analogue of ConnNoPanicPIdsStep (`IBS`).
  Steps without insertion: look-ups descend (`LD`, from `EvB false`), the role is kept, `recv.next_stream_id` moves
  forward (`HR.next`).  Insertions: `Recv::open` / `Recv::maybe_reset_next_stream_id` have just moved
  `next_stream_id` past the new id; locally initiated ids do not matter.
-/
namespace H2V.Lemmas.ConnNoPanicP
open H2V H2V.Model H2V.Model.Conn H2V.Lemmas.ConnCountsP
open H2V.Lemmas.ConnResetP (Op run)
open H2V.Lemmas.ConnCtlP (ppParent ppChild ppRest recvPushPromise_eq view)
attribute [local irreducible] wrapSubU32 wrapSubUsize

/-- look-ups descend with their stream id, role kept, `recv.next_stream_id` forward -/
structure DR (s s' : Streams) : Prop where
  desc : ∀ k x', s'.store.get? k = some x' → ∃ x, s.store.get? k = some x ∧ x'.id = x.id
  role : s'.counts.isServer = s.counts.isServer
  next : RNext s.recv.nextStreamId s'.recv.nextStreamId

theorem DR.refl (s : Streams) : DR s s := ⟨fun _ x' h => ⟨x', h, rfl⟩, rfl, .refl _⟩
theorem DR.trans {a b c : Streams} (h1 : DR a b) (h2 : DR b c) : DR a c := by
  refine ⟨fun k x'' h => ?_, h2.role.trans h1.role, h1.next.trans h2.next⟩
  obtain ⟨x', hx', i'⟩ := h2.desc k x'' h
  obtain ⟨x, hx, i⟩ := h1.desc k x' hx'
  exact ⟨x, hx, i'.trans i⟩
theorem DR.of_ld {s s' : Streams} (h : LD s s') (hr : s'.counts.isServer = s.counts.isServer)
    (hn : RNext s.recv.nextStreamId s'.recv.nextStreamId) : DR s s' :=
  ⟨fun k x' hx' => let ⟨x, hx, _, i⟩ := h.desc k x' hx'; ⟨x, hx, i⟩, hr, hn⟩
theorem DR.of_ev {s s' : Streams} (e : EvB false s s') (hr : HR s s') : DR s s' := .of_ld (evF_ld e) e.nx.role hr.next
theorem DR.of_ltw {ks : List Nat} {s s' : Streams} (h : LTw ks s s') (hrole : s'.counts.isServer = s.counts.isServer)
    (hn : RNext s.recv.nextStreamId s'.recv.nextStreamId) : DR s s' := by
  refine ⟨fun k x' hx' => ?_, hrole, hn⟩
  obtain ⟨x, hx⟩ := h.keys.live.mp ⟨x', hx'⟩
  have := h.sid k
  simp only [stream_of_get? hx, stream_of_get? hx'] at this
  exact ⟨x, hx, this⟩
theorem DR.of_le {ks : List Nat} {s s' : Streams} (h : LE ks s s') (hr : HR s s') : DR s s' := .of_ltw h.lt h.ev.nx.role hr.next
theorem DR.transitionAfter (s : Streams) (k : Nat) (b : Bool) : DR s (s.transitionAfter k b) :=
  .of_ld (LD.transitionAfter s k b) (NX.transitionAfter s k b).role (transitionAfter_hr s k b).next
theorem DR.transition {α : Type} {s : Streams} (k : Nat) (f : Streams → Streams × α) (h : DR s (f s).1) :
    DR s (s.transition k f).1 := by
  have : (s.transition k f).1 = (f s).1.transitionAfter k (s.stream k).isPendingResetExpiration := by
    unfold Streams.transition; rfl
  rw [this]; exact h.trans (.transitionAfter _ _ _)

theorem IBR.of_dr {s s' : Streams} (hi : IBR s) (hk' : KeysOK s') (h : DR s s') : IBR s' := by
  intro x' hx' hloc n' hn'
  obtain ⟨x, hx, hid⟩ := h.desc x'.key x' (hk'.get?_of_mem hx')
  obtain ⟨n, hn, hle⟩ := h.next n' hn'
  rw [isLocalInit_eq, h.role, ← isLocalInit_eq, hid] at hloc
  have := hi x (get?_mem hx) hloc n hn
  omega

theorem IBR.of_ev {s s' : Streams} (hi : IBR s) (hk : KeysOK s) (e : EvB false s s') (hr : HR s s') : IBR s' :=
  hi.of_dr (e.keysOK hk) (.of_ev e hr)

/-- the slab shrinks or stays, role and `next_stream_id` stay -/
theorem IBR.of_sub {s s' : Streams} (hi : IBR s) (hsub : ∀ x ∈ s'.store.slab, x ∈ s.store.slab)
    (hc : s'.counts.isServer = s.counts.isServer) (ha : s'.recv.nextStreamId = s.recv.nextStreamId) : IBR s' := by
  intro x hx hloc n hn
  rw [isLocalInit_eq, hc, ← isLocalInit_eq] at hloc
  rw [ha] at hn
  exact hi x (hsub x hx) hloc n hn

/-- a new entry whose id, if the peer initiates it, is below `recv.next_stream_id` -/
theorem IBR.insert {s : Streams} (hi : IBR s) (st : Stream)
    (hnew : s.counts.isLocalInit st.id = false → ∀ n, s.recv.nextStreamId = some n → st.id < n) :
    IBR { s with store := (s.store.insert st).1 } := by
  intro x hx hloc n hn
  have hx' : x ∈ s.store.slab ++ [({ st with key := s.store.nextKey } : Stream)] := hx
  rcases List.mem_append.mp hx' with h1 | h1
  · exact hi x h1 hloc n hn
  · rw [List.mem_singleton] at h1; subst h1
    exact hnew hloc n hn

-- ===================================================================== Recv::open, Recv::maybe_reset_next_stream_id

/-- after `Recv::open(id, _) = Ok(Some)`, `next_stream_id` is past `id` -/
theorem recvOpen_true_above {s s1 : Streams} {id : Nat} {b : Bool} (h : s.recvOpen id b = (s1, .ok true)) :
    ∀ n, s1.recv.nextStreamId = some n → id < n := by
  unfold Streams.recvOpen at h
  dsimp only at h
  generalize (if s.recv.refused.isSome = true then s.panic _ else s) = s0 at h
  generalize (if s0.counts.isServer = true then _ else _ : Bool) = canOpen at h
  split at h
  · cases h
  · split at h
    · cases h
    · split at h
      · cases h
      · generalize hs2 : (s0.modRecv fun r => { r with nextStreamId := if id + 2 > 2147483647 then none else some (id + 2) }) = s2 at h
        split at h
        · cases h
        · simp only [Prod.mk.injEq, and_true] at h
          subst h; subst hs2
          intro n hn
          have : (if id + 2 > 2147483647 then none else some (id + 2)) = some n := hn
          split at this
          · cases this
          · cases this; omega

theorem recvMaybeResetNextStreamId_above (s : Streams) (id : Nat) :
    ∀ n, (s.recvMaybeResetNextStreamId id).recv.nextStreamId = some n → id < n := by
  intro n hn
  unfold Streams.recvMaybeResetNextStreamId at hn
  split at hn
  · next nxt hnx =>
    split at hn
    · have : (if id + 2 > 2147483647 then none else some (id + 2)) = some n := hn
      split at this
      · cases this
      · cases this; omega
    · rw [hnx] at hn; cases hn; omega
  · next hnx => rw [hnx] at hn; cases hn

-- ===================================================================== Inner::send_reset

theorem innerSendReset_ibr {s : Streams} (hn : NPI (fun _ => False) s) (hi : IBR s) (id : Nat) (reason : Reason) :
    IBR (s.innerSendReset id reason).1 := by
  unfold Streams.innerSendReset
  cases hfk : s.store.findKey? id with
  | some k =>
    simp only []
    exact hi.of_ev hn.keys (actionsSendReset_ev (ρ := false) s k reason .library) (actionsSendReset_hr s k reason .library)
  | none =>
    simp only []
    generalize hs1 : (if s.counts.isLocalInit id = true then s.sendMaybeResetNextStreamId id else s.recvMaybeResetNextStreamId id) = s1
    have h1 : IBR s1 ∧ KeysOK s1 ∧ (s1.counts.isLocalInit id = false → ∀ n, s1.recv.nextStreamId = some n → id < n) := by
      rw [← hs1]; split
      · next hloc =>
        have e := sendMaybeResetNextStreamId_ev (ρ := false) s id hloc
        refine ⟨hi.of_ev hn.keys e (sendMaybeResetNextStreamId_hr s id), e.keysOK hn.keys, fun h => ?_⟩
        rw [isLocalInit_eq, e.nx.role, ← isLocalInit_eq, hloc] at h; cases h
      · next hloc =>
        have e := recvMaybeResetNextStreamId_ev (ρ := false) s id
        exact ⟨hi.of_ev hn.keys e (recvMaybeResetNextStreamId_hr s id), e.keysOK hn.keys,
          fun _ => recvMaybeResetNextStreamId_above s id⟩
    have h2 : IBR { s1 with store := (s1.store.insert (Stream.new id 0 0)).1 } := h1.1.insert _ h1.2.2
    exact h2.of_ev (h1.2.1.insert _) (actionsSendReset_ev (ρ := false) _ _ reason .library) (actionsSendReset_hr _ _ _ _)

-- ===================================================================== Streams::send_request

theorem sendRequestCore_ibr {s : Streams} (h : NPI (fun _ => False) s) (hi : IBR s) (isHead : Bool) (fields : List Hpack.Field)
    (eos : Bool) : IBR (sendRequestCore isHead fields eos s).1 := by
  unfold sendRequestCore
  generalize hso : s.sendOpenId = p
  obtain ⟨s1, r⟩ := p
  have e1 : EvB false s s1 := EvB.of_fst_eq hso (sendOpenId_ev (ρ := false) s)
  have h1 : IBR s1 := hi.of_ev h.keys e1 (HR.of_fst_eq hso (sendOpenId_hr s))
  have hk1 : KeysOK s1 := e1.keysOK h.keys
  cases r with
  | error e => exact h1
  | ok id =>
    simp only []
    have hloc1 : s1.counts.isLocalInit id = true := by rw [(sendOpenId_next hso).1]; exact h.nl id (sendOpenId_ok hso)
    generalize hsP : (if s1.store.contains id = true then s1.panic _ else s1) = sP
    have hP : IBR sP ∧ KeysOK sP ∧ sP.counts.isLocalInit id = true := by
      rw [← hsP]; split
      · have e := panic_ev (ρ := false) s1 "assertion failed: self.ids.insert(id, index).is_none()"
        exact ⟨h1.of_ev hk1 e (panic_hr _ _), e.keysOK hk1, by rw [panic_counts]; exact hloc1⟩
      · exact ⟨h1, hk1, hloc1⟩
    generalize hst : (if isHead = true then _ else Stream.new id s1.actions.send.initWindowSz s1.recv.initWindowSz) = st
    have hid : st.id = id := by rw [← hst]; split <;> rfl
    have h2 : IBR { sP with store := (sP.store.insert st).1 } := by
      refine hP.1.insert st (fun hl => ?_)
      rw [hid, hP.2.2] at hl; cases hl
    have hk2 : KeysOK { sP with store := (sP.store.insert st).1 } := hP.2.1.insert st
    generalize hsh : Streams.sendHeaders _ (sP.store.insert st).2 eos fields = q
    obtain ⟨s3, r3⟩ := q
    have e3 : EvB false _ s3 := EvB.of_fst_eq hsh (sendHeaders_ev (ρ := false) _ _ _ _)
    have h3 : IBR s3 := h2.of_ev hk2 e3 (HR.of_fst_eq hsh (sendHeaders_hr _ _ _ _))
    have hk3 : KeysOK s3 := e3.keysOK hk2
    cases r3 with
    | error e =>
      simp only []
      exact h3.of_sub (fun x hx => (List.mem_filter.mp hx).1) rfl rfl
    | ok u =>
      simp only []
      have h4 : IBR { s3 with refs := s3.refs + 1 } := h3.of_sub (fun _ hx => hx) rfl rfl
      exact h4.of_ev ⟨hk3.nodup, hk3.fresh⟩ (refInc_ev (ρ := false) _ _) (refInc_hr _ _)

theorem sendRequest_ibr {s : Streams} (h : NPI (fun _ => False) s) (hi : IBR s) (isHead : Bool) (fields : List Hpack.Field)
    (eos : Bool) (pending : Option Nat) : IBR (s.sendRequest isHead fields eos pending).1 := by
  rcases sendRequest_cases s isHead fields eos pending with e | e
  · rw [e]; exact hi
  · rw [e]; exact sendRequestCore_ibr h hi isHead fields eos

-- ===================================================================== Inner::recv_headers

theorem recvHeadersTail_dr (k : Nat) (h : HeadersIn) (s : Streams) : DR s (recvHeadersTail k h s).1 := by
  unfold recvHeadersTail
  dsimp only
  split
  · exact .refl _
  · split
    · exact .refl _
    · exact .transition k _ (.of_le (recvHeadersClosure_le k h s) (recvHeadersClosure_hr k h s))

theorem recvHeaders_ibr {s : Streams} (hn : NPI (fun _ => False) s) (hi : IBR s) (h : HeadersIn) :
    IBR (s.recvHeaders h).1 := by
  have hkF : KeysOK (s.recvHeaders h).1 := (recvHeaders_ev s h).keysOK hn.keys
  unfold Streams.recvHeaders at hkF ⊢
  dsimp only at hkF ⊢
  split
  · exact hi
  · next hmax =>
    rw [if_neg hmax] at hkF
    cases hfk : s.store.findKey? h.sid with
    | some k =>
      simp only [hfk] at hkF ⊢
      exact hi.of_dr hkF (recvHeadersTail_dr k h s)
    | none =>
      simp only [hfk] at hkF ⊢
      by_cases hforg : (!s.counts.isServer && s.mayHaveForgottenStream h.sid) = true
      · simp only [hforg, if_true]; exact hi
      · simp only [hforg, Bool.false_eq_true, if_false] at hkF ⊢
        generalize hro : s.recvOpen h.sid false = p at hkF ⊢
        obtain ⟨s1, res⟩ := p
        have e1 : EvB false s s1 := EvB.of_fst_eq hro (recvOpen_ev (ρ := false) s h.sid false)
        have h1 : IBR s1 := hi.of_ev hn.keys e1 (HR.of_fst_eq hro (recvOpen_hr s h.sid false))
        cases res with
        | error e => exact h1
        | ok b =>
          cases b
          · exact h1
          · simp only [] at hkF ⊢
            have h2 := h1.insert (Stream.new h.sid s1.actions.send.initWindowSz s1.recv.initWindowSz)
              (fun _ => recvOpen_true_above hro)
            exact h2.of_dr hkF (recvHeadersTail_dr _ h _)

end H2V.Lemmas.ConnNoPanicP
