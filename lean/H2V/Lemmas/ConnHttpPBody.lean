import H2V.Lemmas.ConnHttpPRecv
/-
  C13 (ConnHttpP), part 14 — content-length against the DATA actually received: `Recv::recv_data`,
  `Stream::dec_content_length`, `ensure_content_length_zero`.
-/
namespace H2V.Lemmas.ConnHttpP
open H2V H2V.Model H2V.Model.Conn

/-- `content_length` of the stream behind key `k` -/
def clOf (s : Streams) (k : Nat) : Option ContentLength := (s.store.get? k).map (·.contentLength)

/-- no stream appears or disappears, and every `content_length` stays -/
def SameCL (s s' : Streams) : Prop := ∀ k, clOf s' k = clOf s k

theorem SameCL.refl (s : Streams) : SameCL s s := fun _ => rfl
theorem SameCL.trans {a b c : Streams} (h1 : SameCL a b) (h2 : SameCL b c) : SameCL a c :=
  fun k => (h2 k).trans (h1 k)

theorem sameCL_of_slab {s s' : Streams} (h : s'.store.slab = s.store.slab) : SameCL s s' := fun k => by
  unfold clOf Store.get?; rw [h]

theorem sameCL_modStream (s : Streams) (k : Nat) (f : Stream → Stream)
    (hf : ∀ st, (f st).key = st.key ∧ (f st).contentLength = st.contentLength) : SameCL s (s.modStream k f) := fun k' => by
  unfold clOf
  rw [get?_modStream s k f (fun st => (hf st).1)]
  split
  · rename_i e; subst e
    cases s.store.get? k' with
    | none => rfl
    | some st => simp [(hf st).2]
  · rfl

theorem sameCL_modStreamW (s : Streams) (k : Nat) (f : Stream → Stream × List String)
    (hf : ∀ st, (f st).1.key = st.key ∧ (f st).1.contentLength = st.contentLength) : SameCL s (s.modStreamW k f) := by
  refine (sameCL_modStream s k (fun st => (f st).1) hf).trans (sameCL_of_slab ?_)
  unfold Streams.modStreamW Streams.modStream
  cases s.store.get? k with
  | none => rfl
  | some st => rfl

theorem sameCL_mw_notifyRecv (s : Streams) (k : Nat) : SameCL s (s.modStreamW k Stream.notifyRecv) :=
  sameCL_modStreamW s k Stream.notifyRecv (fun st => by
    simp only [Stream.notifyRecv]; cases st.recvTask <;> exact ⟨rfl, rfl⟩)

theorem sameCL_notifyPushIfRecvEnded (s : Streams) (k : Nat) : SameCL s (s.notifyPushIfRecvEnded k) := by
  unfold Streams.notifyPushIfRecvEnded
  split
  · exact sameCL_modStreamW s k Stream.notifyPush (fun st => by
      simp only [Stream.notifyPush]; cases st.pushTask <;> exact ⟨rfl, rfl⟩)
  · exact SameCL.refl _

theorem sameCL_panic (s : Streams) (m : String) : SameCL s (s.panic m) := sameCL_of_slab (by rw [panic_store])

theorem sameCL_notifyTask (s : Streams) : SameCL s s.notifyTask := by
  unfold Streams.notifyTask; split <;> exact sameCL_of_slab rfl

theorem sameCL_setQ (s : Streams) (q : QName) (l : List Nat) : SameCL s (s.setQ q l) := by
  cases q <;> exact sameCL_of_slab rfl

theorem sameCL_qPush (s : Streams) (q : QName) (id : Nat) : SameCL s (s.qPush q id).1 := by
  unfold Streams.qPush
  split
  · exact SameCL.refl _
  · exact (sameCL_modStream _ _ _ (fun st => by cases q <;> exact ⟨rfl, rfl⟩)).trans (sameCL_setQ _ _ _)

theorem sameCL_releaseConnectionCapacity (s : Streams) (c : Nat) (t : Bool) :
    SameCL s (s.releaseConnectionCapacity c t) := by
  unfold Streams.releaseConnectionCapacity
  simp only
  split
  · exact (sameCL_of_slab rfl).trans (sameCL_notifyTask _)
  · exact sameCL_of_slab rfl

theorem sameCL_releaseCapacity (s : Streams) (id c : Nat) (t : Bool) : SameCL s (s.releaseCapacity id c t).1 := by
  generalize hr : s.releaseCapacity id c t = r
  unfold Streams.releaseCapacity at hr
  split at hr
  · subst hr; exact SameCL.refl _
  · simp only at hr
    have h1 := (sameCL_releaseConnectionCapacity s c t).trans
      (sameCL_modStream (s.releaseConnectionCapacity c t) id
        (fun st => { st with inFlightRecvData := wrapSubU32 st.inFlightRecvData c,
                             recvFlow := (st.recvFlow.assignCapacity c).1 }) (fun _ => ⟨rfl, rfl⟩))
    generalize ((s.releaseConnectionCapacity c t).modStream id
        (fun st => { st with inFlightRecvData := wrapSubU32 st.inFlightRecvData c,
                             recvFlow := (st.recvFlow.assignCapacity c).1 })) = s1 at h1 hr
    split at hr
    · subst hr
      simp only
      split
      · exact (h1.trans (sameCL_qPush _ _ _)).trans (sameCL_notifyTask _)
      · exact h1.trans (sameCL_qPush _ _ _)
    · subst hr; exact h1

theorem sameCL_consumeConnectionWindow (s : Streams) (sz : Nat) : SameCL s (s.consumeConnectionWindow sz).1 := by
  generalize hr : s.consumeConnectionWindow sz = r
  unfold Streams.consumeConnectionWindow at hr
  repeat' split at hr
  all_goals subst hr
  all_goals first | exact SameCL.refl _ | exact sameCL_of_slab rfl | exact sameCL_panic _ _


/-! ### flow-control bookkeeping of the receive side is `Quiet` -/

theorem Quiet.releaseConnectionCapacity {s0 s : Streams} (h : Quiet s0 s) (c : Nat) (t : Bool) :
    Quiet s0 (s.releaseConnectionCapacity c t) := by
  unfold Streams.releaseConnectionCapacity
  simp only
  quiet
macro_rules | `(tactic| quiet_step) => `(tactic| with_reducible apply Quiet.releaseConnectionCapacity)

theorem Quiet.releaseCapacity {s0 s : Streams} (h : Quiet s0 s) (id c : Nat) (t : Bool) :
    Quiet s0 (s.releaseCapacity id c t).1 := by
  generalize hr : s.releaseCapacity id c t = r
  unfold Streams.releaseCapacity at hr
  split at hr
  · subst hr; exact h
  · simp only at hr
    have h1 : Quiet s0 ((s.releaseConnectionCapacity c t).modStream id
        (fun st => { st with inFlightRecvData := wrapSubU32 st.inFlightRecvData c,
                             recvFlow := (st.recvFlow.assignCapacity c).1 })) := by quiet
    generalize ((s.releaseConnectionCapacity c t).modStream id
        (fun st => { st with inFlightRecvData := wrapSubU32 st.inFlightRecvData c,
                             recvFlow := (st.recvFlow.assignCapacity c).1 })) = s1 at h1 hr
    split at hr
    · subst hr; simp only; quiet
    · subst hr; exact h1

theorem Quiet.consumeConnectionWindow {s0 s : Streams} (h : Quiet s0 s) (sz : Nat) :
    Quiet s0 (s.consumeConnectionWindow sz).1 := by
  generalize hr : s.consumeConnectionWindow sz = r
  unfold Streams.consumeConnectionWindow at hr
  repeat' split at hr
  all_goals subst hr
  all_goals (simp only; quiet)

theorem Quiet.ignoreData {s0 s : Streams} (h : Quiet s0 s) (sz : Nat) : Quiet s0 (s.ignoreData sz).1 := by
  unfold Streams.ignoreData
  have := h.consumeConnectionWindow sz
  generalize s.consumeConnectionWindow sz = r at this ⊢
  obtain ⟨s1, res⟩ := r
  cases res with
  | error e => exact this
  | ok u => simp only; quiet

/-! ### `Recv::recv_data` in stages -/

/-- the part of `recv_data` behind `dec_content_length` -/
def rdTail (s : Streams) (id : Nat) (payload : Bytes) (eos : Bool) (sz flowLen : Nat) : Streams × Except PErr Unit :=
  let eosRes : Streams × Option PErr :=
    if eos then
      if !(s.stream id).ensureContentLengthZero then (s, some (PErr.libraryReset (s.stream id).id PROTOCOL_ERROR))
      else match (s.stream id).state.recvClose with
        | (_, .error _) => (s, some (PErr.libraryGoAway PROTOCOL_ERROR))
        | (st', .ok _) => (s.modStream id fun st => { st with state := st' }, none)
    else (s, none)
  match eosRes with
  | (s, some e) => (s, .error e)
  | (s, none) =>
    if !(s.stream id).isRecv then ((s.releaseConnectionCapacity sz false).notifyPushIfRecvEnded id, .ok ())
    else
      match (s.stream id).recvFlow.sendData sz with
      | (fl, .error (.reason r)) => (s.modStream id fun st => { st with recvFlow := fl }, .error (PErr.libraryGoAway r))
      | (_, .error .assertFailed) => (s.panic "assertion failed: self.window_size.0 >= sz as i32 (stream recv)", .ok ())
      | (fl, .ok _) =>
        let s := s.modStream id fun st => { st with recvFlow := fl, inFlightRecvData := wrapAddU32 st.inFlightRecvData sz }
        let padding := usizeAsU32 (flowLen - payload.length)
        let s := if padding > 0 then (s.releaseCapacity id padding false).1 else s
        if payload.isEmpty && !eos then (s, .ok ())
        else
          let s := s.modStream id fun st => { st with pendingRecv := st.pendingRecv ++ [.data payload (!eos)] }
          ((s.modStreamW id Stream.notifyRecv).notifyPushIfRecvEnded id, .ok ())

/-- the flow-controlled length of a DATA frame: payload, padding, pad-length octet -/
def flowLenOf (payload : Bytes) (padLen : Option Nat) : Nat :=
  payload.length + (match padLen with | some p => p + 1 | none => 0)

theorem recvRecvData_eq (s : Streams) (id : Nat) (payload : Bytes) (eos : Bool) (padLen : Option Nat) :
    s.recvRecvData id payload eos padLen =
      let flowLen := flowLenOf payload padLen
      let s := if flowLen > Generated.Consts.MAX_WINDOW_SIZE then s.panic "assertion failed: sz <= MAX_WINDOW_SIZE" else s
      let sz := usizeAsU32 flowLen
      if !(s.stream id).state.isLocalError && !(s.stream id).state.isRecvStreaming then
        (s, .error (PErr.libraryGoAway PROTOCOL_ERROR))
      else if (s.stream id).state.isLocalError then s.ignoreData sz
      else
        match s.consumeConnectionWindow sz with
        | (s, .error e) => (s, .error e)
        | (s, .ok _) =>
          if (s.stream id).recvFlow.windowSz < sz then (s, .error (PErr.libraryReset (s.stream id).id FLOW_CONTROL_ERROR))
          else
            match (s.stream id).decContentLength payload.length with
            | none => (s, .error (PErr.libraryReset (s.stream id).id PROTOCOL_ERROR))
            | some st1 => rdTail (s.setStream st1) id payload eos sz flowLen := rfl


theorem rdTail_sameCL (s : Streams) (id : Nat) (payload : Bytes) (eos : Bool) (sz flowLen : Nat) :
    SameCL s (rdTail s id payload eos sz flowLen).1 := by
  unfold rdTail
  have h1 : ∀ (x : Streams × Option PErr),
      x = (if eos then
        if !(s.stream id).ensureContentLengthZero then (s, some (PErr.libraryReset (s.stream id).id PROTOCOL_ERROR))
        else match (s.stream id).state.recvClose with
          | (_, .error _) => (s, some (PErr.libraryGoAway PROTOCOL_ERROR))
          | (st', .ok _) => (s.modStream id fun st => { st with state := st' }, none)
      else (s, none)) → SameCL s x.1 := by
    intro x hx
    repeat' split at hx
    all_goals subst hx
    all_goals first | exact SameCL.refl _ | exact sameCL_modStream _ _ _ (fun _ => ⟨rfl, rfl⟩)
  have := h1 _ rfl
  simp only
  generalize (if eos then
        if !(s.stream id).ensureContentLengthZero then (s, some (PErr.libraryReset (s.stream id).id PROTOCOL_ERROR))
        else match (s.stream id).state.recvClose with
          | (_, .error _) => (s, some (PErr.libraryGoAway PROTOCOL_ERROR))
          | (st', .ok _) => (s.modStream id fun st => { st with state := st' }, none)
      else (s, none)) = x at this ⊢
  obtain ⟨s1, o⟩ := x
  simp only at this
  cases o with
  | some e => exact this
  | none =>
    simp only
    split
    · exact (this.trans (sameCL_releaseConnectionCapacity _ _ _)).trans (sameCL_notifyPushIfRecvEnded _ _)
    · split
      · exact this.trans (sameCL_modStream _ _ _ (fun _ => ⟨rfl, rfl⟩))
      · exact this.trans (sameCL_panic _ _)
      · have h2 := this.trans (sameCL_modStream s1 id
          (fun st => { st with recvFlow := ‹FlowControl›, inFlightRecvData := wrapAddU32 st.inFlightRecvData sz })
          (fun _ => ⟨rfl, rfl⟩))
        generalize (s1.modStream id
          (fun st => { st with recvFlow := ‹FlowControl›, inFlightRecvData := wrapAddU32 st.inFlightRecvData sz })) = s2 at h2 ⊢
        have h3 : SameCL s (if usizeAsU32 (flowLen - payload.length) > 0 then
            (s2.releaseCapacity id (usizeAsU32 (flowLen - payload.length)) false).1 else s2) := by
          split
          · exact h2.trans (sameCL_releaseCapacity _ _ _ _)
          · exact h2
        generalize (if usizeAsU32 (flowLen - payload.length) > 0 then
            (s2.releaseCapacity id (usizeAsU32 (flowLen - payload.length)) false).1 else s2) = s3 at h3 ⊢
        split
        · exact h3
        · refine (h3.trans (sameCL_modStream s3 id
            (fun st => { st with pendingRecv := st.pendingRecv ++ [.data payload (!eos)] }) (fun _ => ⟨rfl, rfl⟩))).trans ?_
          refine (sameCL_mw_notifyRecv _ id).trans ?_
          exact sameCL_notifyPushIfRecvEnded _ _


/-- END_STREAM on DATA is only accepted with the content-length used up -/
theorem rdTail_ok_eos (s : Streams) (id : Nat) (payload : Bytes) (sz flowLen : Nat)
    (h : (rdTail s id payload true sz flowLen).2 = .ok ()) : (s.stream id).ensureContentLengthZero = true := by
  unfold rdTail at h
  simp only [if_true] at h
  cases hz : (s.stream id).ensureContentLengthZero with
  | true => rfl
  | false => simp [hz] at h

/-- what `recv_data` may hand over -/
def DataAccepted (payload : Bytes) (eos : Bool) (ev : REvent) : Prop := ev = .data payload (!eos)

theorem rdTail_delivers (s : Streams) (id : Nat) (payload : Bytes) (eos : Bool) (sz flowLen : Nat) :
    Delivers (fun k' ev => k' = id ∧ DataAccepted payload eos ev) s (rdTail s id payload eos sz flowLen).1 ∧
    (∀ e, (rdTail s id payload eos sz flowLen).2 = .error e → Quiet s (rdTail s id payload eos sz flowLen).1) := by
  unfold rdTail
  have h1 : ∀ (x : Streams × Option PErr),
      x = (if eos then
        if !(s.stream id).ensureContentLengthZero then (s, some (PErr.libraryReset (s.stream id).id PROTOCOL_ERROR))
        else match (s.stream id).state.recvClose with
          | (_, .error _) => (s, some (PErr.libraryGoAway PROTOCOL_ERROR))
          | (st', .ok _) => (s.modStream id fun st => { st with state := st' }, none)
      else (s, none)) → Quiet s x.1 := by
    intro x hx
    repeat' split at hx
    all_goals subst hx
    all_goals quiet
  have := h1 _ rfl
  simp only
  generalize (if eos then
        if !(s.stream id).ensureContentLengthZero then (s, some (PErr.libraryReset (s.stream id).id PROTOCOL_ERROR))
        else match (s.stream id).state.recvClose with
          | (_, .error _) => (s, some (PErr.libraryGoAway PROTOCOL_ERROR))
          | (st', .ok _) => (s.modStream id fun st => { st with state := st' }, none)
      else (s, none)) = x at this ⊢
  obtain ⟨s1, o⟩ := x
  simp only at this
  cases o with
  | some e => exact ⟨this.delivers, fun _ _ => this⟩
  | none =>
    simp only
    split
    · have q : Quiet s ((s1.releaseConnectionCapacity sz false).notifyPushIfRecvEnded id) := by quiet
      exact ⟨q.delivers, fun _ _ => q⟩
    · split
      · have q : Quiet s (s1.modStream id fun st => { st with recvFlow := ‹FlowControl› }) := by quiet
        exact ⟨q.delivers, fun _ _ => q⟩
      · exact ⟨(this.panic _).delivers, fun _ _ => this.panic _⟩
      · have h2 : Quiet s (s1.modStream id
          (fun st => { st with recvFlow := ‹FlowControl›, inFlightRecvData := wrapAddU32 st.inFlightRecvData sz })) := by quiet
        generalize (s1.modStream id
          (fun st => { st with recvFlow := ‹FlowControl›, inFlightRecvData := wrapAddU32 st.inFlightRecvData sz })) = s2 at h2 ⊢
        have h3 : Quiet s (if usizeAsU32 (flowLen - payload.length) > 0 then
            (s2.releaseCapacity id (usizeAsU32 (flowLen - payload.length)) false).1 else s2) := by
          split
          · exact h2.releaseCapacity _ _ _
          · exact h2
        generalize (if usizeAsU32 (flowLen - payload.length) > 0 then
            (s2.releaseCapacity id (usizeAsU32 (flowLen - payload.length)) false).1 else s2) = s3 at h3 ⊢
        split
        · exact ⟨h3.delivers, fun _ he => by cases he⟩
        · exact ⟨h3.then (Delivers.step (Delivers.step (delivers_append _ s3 id _ ⟨rfl, rfl⟩)
              (quiet_modStreamW _ _ _ keeps_notifyRecv)) ((Quiet.refl _).notifyPushIfRecvEnded _)),
            fun _ he => by cases he⟩


/-! ### the content-length ledger -/

/-- `Stream::dec_content_length` on the field alone -/
def decCL : ContentLength → Nat → Option ContentLength
  | .remaining rem, len => if rem ≥ len then some (.remaining (rem - len)) else none
  | .head, len => if len ≠ 0 then none else some .head
  | .omitted, _ => some .omitted

/-- `Stream::ensure_content_length_zero().is_ok()` on the field alone -/
def zeroCL : ContentLength → Bool
  | .remaining 0 => true
  | .remaining _ => false
  | _ => true

theorem decContentLength_some (st st1 : Stream) (len : Nat) (h : st.decContentLength len = some st1) :
    decCL st.contentLength len = some st1.contentLength ∧ st1.key = st.key ∧ st1.pendingRecv = st.pendingRecv := by
  unfold Stream.decContentLength at h
  unfold decCL
  split at h
  · rename_i rem hc
    rw [hc]
    simp only
    split at h
    · rename_i hge; cases h; simp [hge]
    · cases h
  · rename_i hc
    rw [hc]
    simp only
    split at h
    · cases h
    · rename_i hne; cases h; simp [hne, hc]
  · rename_i hc
    rw [hc]
    cases h
    simp [hc]

theorem ensure_zero_eq (st : Stream) : st.ensureContentLengthZero = zeroCL st.contentLength := by
  unfold Stream.ensureContentLengthZero zeroCL
  cases st.contentLength with
  | remaining n => cases n <;> rfl
  | _ => rfl

theorem stream_of_slab {s s' : Streams} (h : s'.store.slab = s.store.slab) (k : Nat) : s'.stream k = s.stream k := by
  unfold Streams.stream Store.get?; rw [h]

theorem stream_of_get? (s : Streams) (k : Nat) (st : Stream) (h : s.store.get? k = some st) : s.stream k = st := by
  unfold Streams.stream; rw [h]; rfl

theorem clOf_setStream (s : Streams) (k : Nat) (st st1 : Stream) (h : s.store.get? k = some st) (hk : st1.key = st.key) :
    clOf (s.setStream st1) k = some st1.contentLength := by
  unfold clOf
  simp only [Streams.setStream, get?_set, h, Option.map_some, hk, beq_self_eq_true, if_true]


theorem ite_panic_slab (c : Prop) [Decidable c] (s : Streams) (m : String) :
    (if c then s.panic m else s).store.slab = s.store.slab := by
  split
  · rw [panic_store]
  · rfl

/-- **`Recv::recv_data`, content-length side**: for every state, a DATA frame on a stream that is not
    being ignored is answered `Ok` only if its payload fits into what is left of the content-length —
    which is then reduced by exactly the payload length — and, with END_STREAM, only if nothing is left -/
theorem recvRecvData_cl (s : Streams) (id : Nat) (payload : Bytes) (eos : Bool) (padLen : Option Nat)
    (cl : ContentLength) (hk : clOf s id = some cl) (hnl : (s.stream id).state.isLocalError = false)
    (hr : (s.recvRecvData id payload eos padLen).2 = .ok ()) :
    ∃ cl', decCL cl payload.length = some cl' ∧ (eos = true → zeroCL cl' = true) ∧
      clOf (s.recvRecvData id payload eos padLen).1 id = some cl' := by
  rw [recvRecvData_eq] at hr ⊢
  simp only at hr ⊢
  -- the panic guard does not touch the store
  generalize flowLenOf payload padLen = flowLen at hr ⊢
  have e0 : (if flowLen > Generated.Consts.MAX_WINDOW_SIZE
      then s.panic "assertion failed: sz <= MAX_WINDOW_SIZE" else s).store.slab = s.store.slab :=
    ite_panic_slab _ _ _
  generalize (if flowLen > Generated.Consts.MAX_WINDOW_SIZE
      then s.panic "assertion failed: sz <= MAX_WINDOW_SIZE" else s) = s0 at e0 hr ⊢
  generalize usizeAsU32 flowLen = sz at hr ⊢
  rw [stream_of_slab e0] at hr ⊢
  rw [hnl] at hr ⊢
  simp only [Bool.not_false, Bool.true_and, Bool.false_eq_true, if_false] at hr ⊢
  split at hr
  · cases hr
  · rename_i hstr
    rw [if_neg hstr]
    have c1 := sameCL_consumeConnectionWindow s0 sz
    generalize s0.consumeConnectionWindow sz = r1 at c1 hr ⊢
    obtain ⟨s1, res1⟩ := r1
    cases res1 with
    | error e => cases hr
    | ok u =>
      simp only at c1 hr ⊢
      split at hr
      · cases hr
      · rename_i hw
        rw [if_neg hw]
        have hk1 : clOf s1 id = some cl := by rw [c1 id, ← hk]; exact (sameCL_of_slab e0) id
        obtain ⟨st, hst, hcl⟩ : ∃ st, s1.store.get? id = some st ∧ st.contentLength = cl := by
          unfold clOf at hk1
          cases hg : s1.store.get? id with
          | none => rw [hg] at hk1; cases hk1
          | some st => rw [hg] at hk1; exact ⟨st, rfl, by simpa using hk1⟩
        rw [stream_of_get? s1 id st hst] at hr ⊢
        cases hd : st.decContentLength payload.length with
        | none => rw [hd] at hr; cases hr
        | some st1 =>
          rw [hd] at hr
          simp only at hr ⊢
          obtain ⟨d1, d2, -⟩ := decContentLength_some st st1 _ hd
          rw [hcl] at d1
          refine ⟨st1.contentLength, d1, fun he => ?_, ?_⟩
          · subst he
            have := rdTail_ok_eos _ _ _ _ _ hr
            rw [ensure_zero_eq] at this
            have hs : (s1.setStream st1).stream id = st1 :=
              stream_of_get? _ _ _ (by
                simp only [Streams.setStream, get?_set, hst, Option.map_some, d2, beq_self_eq_true, if_true])
            rw [hs] at this
            exact this
          · rw [rdTail_sameCL (s1.setStream st1) id payload eos sz flowLen id]
            exact clOf_setStream s1 id st st1 hst d2


/-- **`Recv::recv_data`, delivery side**: at most one `data` event, for this payload, to this stream;
    an error answer hands over nothing -/
theorem recvRecvData_delivers (s : Streams) (id : Nat) (payload : Bytes) (eos : Bool) (padLen : Option Nat) :
    Delivers (fun k' ev => k' = id ∧ DataAccepted payload eos ev) s (s.recvRecvData id payload eos padLen).1 ∧
    (∀ e, (s.recvRecvData id payload eos padLen).2 = .error e → Quiet s (s.recvRecvData id payload eos padLen).1) := by
  rw [recvRecvData_eq]
  simp only
  generalize flowLenOf payload padLen = flowLen
  have q0 : Quiet s (if flowLen > Generated.Consts.MAX_WINDOW_SIZE
      then s.panic "assertion failed: sz <= MAX_WINDOW_SIZE" else s) := by quiet
  generalize (if flowLen > Generated.Consts.MAX_WINDOW_SIZE
      then s.panic "assertion failed: sz <= MAX_WINDOW_SIZE" else s) = s0 at q0 ⊢
  generalize usizeAsU32 flowLen = sz
  split
  · exact ⟨q0.delivers, fun _ _ => q0⟩
  · split
    · exact ⟨(q0.ignoreData sz).delivers, fun _ _ => q0.ignoreData sz⟩
    · have q1 := q0.consumeConnectionWindow sz
      generalize s0.consumeConnectionWindow sz = r1 at q1 ⊢
      obtain ⟨s1, res1⟩ := r1
      cases res1 with
      | error e => exact ⟨q1.delivers, fun _ _ => q1⟩
      | ok u =>
        simp only at q1 ⊢
        split
        · exact ⟨q1.delivers, fun _ _ => q1⟩
        · split
          · exact ⟨q1.delivers, fun _ _ => q1⟩
          · rename_i st1 hd
            obtain ⟨-, d2, d3⟩ := decContentLength_some _ _ _ hd
            have q2 : Quiet s (s1.setStream st1) := q1.trans (quiet_setStream s1 st1 (Or.inr fun st hst => by
              rw [d3]
              have hk : st1.key = id := by rw [d2]; unfold Streams.stream; cases hg : s1.store.get? id with
                | none => rfl
                | some y => exact get?_key _ _ _ hg
              rw [hk] at hst
              rw [stream_of_get? s1 id st hst]))
            obtain ⟨t1, t2⟩ := rdTail_delivers (s1.setStream st1) id payload eos sz flowLen
            exact ⟨q2.then t1, fun e he => q2.trans (t2 e he)⟩


theorem zeroCL_remaining (m : Nat) : zeroCL (.remaining m) = true ↔ m = 0 := by
  cases m <;> simp [zeroCL]

/-! ### histories of one body -/

/-- a history of the body of the stream behind key `k`: DATA frames that `recv_data` answered `Ok`
    while the stream was not being ignored (`t` = the payload octets so far), interleaved with ANY
    steps that leave the stream's `content_length` alone -/
inductive BodyTrace (k : Nat) : Streams → Nat → Streams → Prop
  | start (s : Streams) : BodyTrace k s 0 s
  | data {s s1 : Streams} {t : Nat} (payload : Bytes) (eos : Bool) (pad : Option Nat) :
      BodyTrace k s t s1 → (s1.stream k).state.isLocalError = false →
      (s1.recvRecvData k payload eos pad).2 = .ok () →
      BodyTrace k s (t + payload.length) (s1.recvRecvData k payload eos pad).1
  | other {s s1 s2 : Streams} {t : Nat} : BodyTrace k s t s1 → clOf s2 k = clOf s1 k → BodyTrace k s t s2

/-- **the ledger**: along every such history `content_length = announced − received`, never negative -/
theorem bodyTrace_ledger {k : Nat} {s s' : Streams} {t n : Nat} (h : BodyTrace k s t s')
    (hcl : clOf s k = some (.remaining n)) : t ≤ n ∧ clOf s' k = some (.remaining (n - t)) := by
  induction h with
  | start => exact ⟨Nat.zero_le _, by simpa using hcl⟩
  | data payload eos pad _ hnl hok ih =>
    obtain ⟨i1, i2⟩ := ih
    obtain ⟨cl', d1, -, d3⟩ := recvRecvData_cl _ k payload eos pad _ i2 hnl hok
    unfold decCL at d1
    simp only at d1
    split at d1
    · cases d1
      exact ⟨by omega, by rw [d3]; congr 2; omega⟩
    · cases d1
  | other _ he ih =>
    obtain ⟨i1, i2⟩ := ih
    exact ⟨i1, by rw [he]; exact i2⟩

/-- a response to HEAD: every accepted DATA frame is empty -/
theorem bodyTrace_head {k : Nat} {s s' : Streams} {t : Nat} (h : BodyTrace k s t s')
    (hcl : clOf s k = some .head) : t = 0 ∧ clOf s' k = some .head := by
  induction h with
  | start => exact ⟨rfl, hcl⟩
  | data payload eos pad _ hnl hok ih =>
    obtain ⟨i1, i2⟩ := ih
    obtain ⟨cl', d1, -, d3⟩ := recvRecvData_cl _ k payload eos pad _ i2 hnl hok
    unfold decCL at d1
    simp only at d1
    split at d1
    · cases d1
    · rename_i hz
      cases d1
      exact ⟨by omega, d3⟩
  | other _ he ih =>
    obtain ⟨i1, i2⟩ := ih
    exact ⟨i1, by rw [he]; exact i2⟩

/-- **a body ended by DATA(END_STREAM) is exactly as long as announced** -/
theorem body_end_by_data {k : Nat} {s s1 : Streams} {t n : Nat} (h : BodyTrace k s t s1)
    (hcl : clOf s k = some (.remaining n)) (payload : Bytes) (pad : Option Nat)
    (hnl : (s1.stream k).state.isLocalError = false) (hok : (s1.recvRecvData k payload true pad).2 = .ok ()) :
    t + payload.length = n := by
  obtain ⟨i1, i2⟩ := bodyTrace_ledger h hcl
  obtain ⟨cl', d1, d2, -⟩ := recvRecvData_cl _ k payload true pad _ i2 hnl hok
  unfold decCL at d1
  simp only at d1
  split at d1
  · cases d1
    have := (zeroCL_remaining _).mp (d2 rfl)
    omega
  · cases d1

/-- **a body ended by trailers is exactly as long as announced** -/
theorem body_end_by_trailers {k : Nat} {s s1 : Streams} {t n : Nat} (h : BodyTrace k s t s1)
    (hcl : clOf s k = some (.remaining n)) (hd : HeadersIn) (hok : (s1.recvRecvTrailers k hd).2 = .ok ()) :
    t = n := by
  obtain ⟨i1, i2⟩ := bodyTrace_ledger h hcl
  unfold Streams.recvRecvTrailers at hok
  split at hok
  · cases hok
  · rename_i st' _ _
    simp only at hok
    split at hok
    · cases hok
    · rename_i hz
      have hz' : ((s1.modStream k fun st => { st with state := st' }).stream k).ensureContentLengthZero = true := by
        simpa using hz
      rw [ensure_zero_eq] at hz'
      have hc := sameCL_modStream s1 k (fun st => { st with state := st' }) (fun _ => ⟨rfl, rfl⟩) k
      rw [i2] at hc
      unfold clOf at hc
      cases hg : (s1.modStream k fun st => { st with state := st' }).store.get? k with
      | none => rw [hg] at hc; cases hc
      | some y =>
        rw [hg] at hc
        rw [stream_of_get? _ _ _ hg] at hz'
        have : y.contentLength = .remaining (n - t) := by simpa using hc
        rw [this] at hz'
        have := (zeroCL_remaining _).mp hz'
        omega

end H2V.Lemmas.ConnHttpP
