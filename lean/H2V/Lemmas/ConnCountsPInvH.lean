import H2V.Lemmas.ConnCountsPInvG
/-
  C05 — invariants, part H: `Inv2` through insertion, removal, the PUSH_PROMISE steps, and along
  `EvB` / `EvT`.
-/
namespace H2V.Lemmas.ConnCountsP
open H2V H2V.Model H2V.Model.Conn

-- ===================================================================== the id map

theorem swapRemove_subset (ids : List (Nat × Nat)) (id : Nat) : ∀ p ∈ Store.swapRemove ids id, p ∈ ids := by
  intro p hp
  unfold Store.swapRemove at hp
  split at hp
  · exact hp
  · next i _ =>
    split at hp
    · exact hp
    · next last hl =>
      have hlast : last ∈ ids := List.mem_of_getLast? hl
      split at hp
      · exact List.dropLast_subset _ hp
      · rcases List.mem_or_eq_of_mem_set hp with h | h
        · exact List.dropLast_subset _ h
        · rw [h]; exact hlast

theorem findKey?_mem {st : Store} {id k : Nat} (h : st.findKey? id = some k) : (id, k) ∈ st.ids := by
  unfold Store.findKey? at h
  cases hf : st.ids.find? (·.1 == id) with
  | none => rw [hf] at h; cases h
  | some p =>
    rw [hf] at h
    simp only [Option.map_some, Option.some.injEq] at h
    have hm := List.mem_of_find?_eq_some hf
    have hp := List.find?_some hf
    simp only [beq_iff_eq] at hp
    rw [← hp, ← h]; exact hm

theorem insert_ids_mem (st : Store) (x : Stream) : ∀ p ∈ (st.insert x).1.ids, p ∈ st.ids ∨ p = (x.id, st.nextKey) := by
  intro p hp
  unfold Store.insert at hp
  dsimp only at hp
  split at hp
  · obtain ⟨e, he, hpe⟩ := List.mem_map.mp hp
    split at hpe
    · right; exact hpe.symm
    · left; rw [← hpe]; exact he
  · rcases List.mem_append.mp hp with h | h
    · left; exact h
    · right; simpa using h

theorem DF.unlink (s : Streams) (id : Nat) : DF s { s with store := s.store.unlink id } :=
  ⟨CD.refl _, rfl, swapRemove_subset _ _, fun _ h => h, fun _ x' h => ⟨x', h, SameD.refl _⟩, ⟨rfl, rfl⟩, fun _ _ => rfl, NextOK.refl _ _⟩

-- ===================================================================== insertion and removal

/-- a new entry: its key is `next_key`; when it is locally initiated it is recorded in `E` -/
theorem Inv2.insert {s : Streams} {sv : Bool} {E : Nat → Prop} (hA : KeysOK s) (hi : Inv2 sv E s) (st : Stream) (hf : Fresh st)
    (hE : locId sv st.id = true → E s.store.nextKey) : Inv2 sv E { s with store := (s.store.insert st).1 } := by
  have hnone := get?_nextKey_none hA.fresh
  have hold : ∀ k x, k < s.store.nextKey → (s.store.insert st).1.get? k = some x → s.store.get? k = some x := by
    intro k x hk hx
    rcases insert_get?_cases s.store st k with e | ⟨_, e, _⟩
    · rw [e] at hx; exact hx
    · omega
  have hnew : ∀ x, (s.store.insert st).1.get? s.store.nextKey = some x → x = { st with key := s.store.nextKey } := by
    intro x hx
    rw [insert_get?_new hA.fresh st] at hx; cases hx; rfl
  have hcases : ∀ k x, (s.store.insert st).1.get? k = some x → s.store.get? k = some x ∨ (k = s.store.nextKey ∧ x = { st with key := s.store.nextKey }) := by
    intro k x hx
    rcases insert_get?_cases s.store st k with e | ⟨_, e, e2⟩
    · left; rw [e] at hx; exact hx
    · right; rw [e2] at hx; cases hx; exact ⟨e, rfl⟩
  refine ⟨hi.role, ?_, ?_, ?_, ?_, ?_, hi.next⟩
  · intro k hk
    have := hi.p1 k hk
    refine ⟨Nat.lt_succ_of_lt this.1, ?_⟩
    intro x hx
    exact this.2 x (hold k x this.1 hx)
  · intro p hp
    rcases insert_ids_mem s.store st p hp with h | h
    · have := hi.ids p h
      refine ⟨Nat.lt_succ_of_lt this.1, ?_⟩
      intro x hx
      exact this.2 x (hold _ x this.1 hx)
    · rw [h]
      refine ⟨Nat.lt_succ_self _, ?_⟩
      intro x hx
      rw [hnew x hx]
  · intro k x hx pk pid fl hfr
    rcases hcases k x hx with h | ⟨_, h⟩
    · exact hi.fr k x h pk pid fl hfr
    · rw [h] at hfr
      have : ({ st with key := s.store.nextKey } : Stream).pendingSend = [] := hf.send
      rw [this] at hfr; cases hfr
  · intro herr k x hx hloc he
    rcases hcases k x hx with h | ⟨hk, h⟩
    · exact hi.p3 herr k x h hloc he
    · rw [hk]; apply hE; rw [h] at hloc; exact hloc
  · intro herr
    have : cntP (sendCounted sv) { s with store := (s.store.insert st).1 } = cntP (sendCounted sv) s := by
      apply cntP_insert
      unfold sendCounted
      have : ({ st with key := s.store.nextKey } : Stream).isCounted = false := hf.counted
      rw [this]; rfl
    rw [this]; exact hi.dir herr

theorem Inv2.remove {s : Streams} {sv : Bool} {E : Nat → Prop} (hA : KeysOK s) (hi : Inv2 sv E s) (k n : Nat)
    (hg : ∀ st, s.store.get? k = some st → st.isCounted = false) :
    Inv2 sv E { s with store := s.store.remove k, recvBufferLeaked := n } := by
  have hde : DE (fun _ => False) s { s with store := s.store.remove k, recvBufferLeaked := n } := by
    refine ⟨CE.refl _, rfl, fun _ h => h, fun _ h => h, ?_, NextOK.refl _ _⟩
    intro j x' hx'
    have hx'' : (s.store.remove k).get? j = some x' := hx'
    by_cases hjk : j = k
    · rw [hjk, remove_get?_self] at hx''; cases hx''
    · rw [remove_get?_ne _ _ _ hjk] at hx''
      exact ⟨x', hx'', SameE.refl _⟩
  refine hde.inv2 hi (fun _ _ _ h => h.elim) ?_
  intro herr
  rw [cntP_remove (sendCounted sv) hA k n (fun st hst => by unfold sendCounted; rw [hg st hst]; rfl)]
  exact hi.dir herr

-- ===================================================================== PUSH_PROMISE

theorem Inv2.queuePP {s : Streams} {sv : Bool} {E : Nat → Prop} (hA : KeysOK s) (hi : Inv2 sv E s) (k pk pid : Nat)
    (fields : List Hpack.Field) (hl : s.counts.isLocalInit pid = true) :
    Inv2 sv E (s.modStream k fun st => { st with pendingSend := st.pendingSend ++ [.pushPromise pk pid fields] }) := by
  have hde : DE (fun f => f = .pushPromise pk pid fields) s
      (s.modStream k fun st => { st with pendingSend := st.pendingSend ++ [.pushPromise pk pid fields] }) := by
    refine DE.modStream s k _ (fun _ => rfl) ?_
    intro x
    refine ⟨rfl, fun h => h, ?_⟩
    intro f hf _
    rcases List.mem_append.mp hf with h | h
    · exact .inl h
    · exact .inr (List.mem_singleton.mp h)
  refine hde.inv2 hi ?_ ?_
  · intro pk' pid' fl' h
    cases h
    rw [← hi.role]; exact hl
  · intro herr
    rw [modStream_counts2, cntP_modStream_same (sendCounted sv) hA k
      (fun st => { st with pendingSend := st.pendingSend ++ [.pushPromise pk pid fields] }) (fun _ => rfl) (fun _ => rfl)]
    exact hi.dir (by unfold ErrOK at herr ⊢; rw [modStream_counts2] at herr; exact herr)

theorem stream_pendingSend_live {s : Streams} {k : Nat} {f : SFrame} {l : List SFrame} (h : (s.stream k).pendingSend = f :: l) :
    ∃ x, s.store.get? k = some x ∧ s.stream k = x := by
  rcases stream_get?_or s k with h1 | h1
  · exact h1
  · unfold Streams.stream at h
    rw [h1] at h
    cases h

theorem Inv2.ppAct {s : Streams} {sv : Bool} {E : Nat → Prop} (hA : KeysOK s) (hi : Inv2 sv E s)
    (sid pk pid : Nat) (fields : List Hpack.Field) (rest : List SFrame) (pushed : Nat)
    (hhead : (s.stream sid).pendingSend = .pushPromise pk pid fields :: rest) (hfind : s.store.findKey? pid = some pushed)
    (hp : (ppActivate (s.modStream sid fun st => { st with pendingSend := rest }) pushed).panicked = none) :
    Inv2 sv E (ppActivate (s.modStream sid fun st => { st with pendingSend := rest }) pushed) := by
  -- the promised id is locally initiated, and `pushed` is its entry
  obtain ⟨x, hx, hxs⟩ := stream_pendingSend_live hhead
  have hlpid : locId sv pid = true := hi.fr sid x hx pk pid fields (by rw [← hxs, hhead]; exact List.mem_cons_self)
  have hids := (hi.ids (pid, pushed) (findKey?_mem hfind)).2
  have hdf1 : DF s (s.modStream sid fun st => { st with pendingSend := rest }) := by
    refine DF.modStreamAt s sid _ (fun _ => rfl) ?_
    intro y hy
    refine ⟨rfl, rfl, fun h => h, ?_⟩
    intro f hf _
    rw [hx] at hy; cases hy
    rw [← hxs, hhead]; exact List.mem_cons_of_mem _ hf
  generalize (s.modStream sid fun st => { st with pendingSend := rest }) = s1 at hdf1 hp ⊢
  have hA1 := hdf1.keys.keysOK hA
  have hi1 := hdf1.inv2 hA hi
  unfold ppActivate at hp ⊢
  dsimp only at hp ⊢
  have hdf2 := DF.modStream s1 pushed (fun st => { st with isPendingPush := false }) (fun _ => rfl) (fun _ => ⟨rfl, rfl, fun h => h, fun _ h _ => h⟩)
  generalize (s1.modStream pushed fun st => { st with isPendingPush := false }) = s2 at hdf2 hp ⊢
  have hA2 := hdf2.keys.keysOK hA1
  have hi2 := hdf2.inv2 hA1 hi1
  have hloc2 : ∀ y, s2.store.get? pushed = some y → locId sv y.id = true := by
    intro y hy
    obtain ⟨y1, hy1, d1⟩ := hdf2.desc pushed y hy
    obtain ⟨y0, hy0, d0⟩ := hdf1.desc pushed y1 hy1
    rw [d1.id, d0.id, hids y0 hy0]; exact hlpid
  by_cases hne : (!(s2.stream pushed).pendingSend.isEmpty) = true
  · simp only [hne, if_true] at hp ⊢
    by_cases hcan : s2.counts.canIncNumSendStreams = true
    · simp only [hcan, if_true] at hp ⊢
      have hp3 : (s2.incNumSendStreams pushed).panicked = none := noPanic_of_mono (Mono.qPush _ _ _) hp
      have hi3 := hi2.incSend hA2 hp3 hloc2
      have hA3 := (SameKeys.incNumSendStreams s2 pushed).keysOK hA2
      exact (DF.qPush _ _ _ (by decide)).inv2 hA3 hi3
    · simp only [hcan] at hp ⊢
      unfold Streams.queueOpen at hp ⊢
      refine hi2.qPushOpen hA2 hp ?_
      rcases stream_get?_or s2 pushed with ⟨y, hy, hys⟩ | hn
      · rw [hys, isLocalInit_eq, hi2.role]; exact hloc2 y hy
      · -- a dangling key: `modStream` panics
        exfalso
        have hq : (s2.stream pushed).isQueued .pendingOpen = false := by
          unfold Streams.stream; rw [hn]; rfl
        unfold Streams.qPush at hp
        simp only [hq, Bool.false_eq_true, if_false] at hp
        rw [setQ_panicked] at hp
        obtain ⟨_, y, hy⟩ := modStream_noPanic hp
        rw [hn] at hy; cases hy
  · simp only [hne] at hp ⊢
    exact hi2

end H2V.Lemmas.ConnCountsP
